(* C06 — the theorems of Properties/C06.v. *)
From Coq Require Import List NArith Bool Lia.
From K.Model Require Import C06.
From K.Proof Require Import C06_base C06_inv C06_crash C06_rec.
Import ListNotations.
Local Open Scope N_scope.
#[local] Opaque dec.

Lemma recover_key : forall c f s' x, recover c f = Some s' ->
  mem s' x = fst (rec_view (c_ri c) (blobs f x)) /\ blobs (disk s') x = snd (rec_view (c_ri c) (blobs f x)).
Proof.
  intros c f s' x R. unfold recover in R. destruct (_ <=? c_cap c); [|discriminate]. injection R as <-.
  cbn [mem disk blobs]. split; reflexivity.
Qed.

(* ---------------------------------------------------------------- reopen succeeds *)
Theorem reopen_succeeds : forall c s o k, reach c s -> wf_op c s o = true ->
  exists s', recover c (crash c s o k) = Some s'.
Proof. intros c s o k R W. apply recover_some; [now apply reach_DI|exact W]. Qed.

(* ---------------------------------------------------------------- how entries evolve across one operation *)
Lemma complete_stays : forall c s o x e, DI c s -> wf_op c s o = true ->
  mem s x = Some e -> e_complete e = true -> removes o x = false ->
  exists e1, mem (post c s o) x = Some e1 /\ e_complete e1 = true.
Proof.
  intros c s o x e D W M C R. unfold post.
  destruct (N.eq_dec x (target o)) as [E|E]; [|rewrite step_mem_other by exact E; eauto].
  destruct (step_shape c s o D W) as
    [Hs Hc | x0 sz sh Ho M0 V F Hsh Hc Hst | x0 e0 d ord Hr Ht M0 V L Hc Hst | x0 e0 d sh Ho M0 C0 V Hsh Hc Hst
     | x0 e0 d body e' d1 Ht Hr Hmc M0 V Hk Hc Hm Hms Hsz Hco Hfin Hpre OK].
  - rewrite Hs. eauto.
  - subst o. cbn in E. subst x0. congruence.
  - rewrite <- E in Ht. subst x0. congruence.
  - subst o. cbn in E. subst x0. congruence.
  - rewrite <- E in Ht. subst x0. rewrite Hm, N.eqb_refl. exists e'. split; [reflexivity|congruence].
Qed.
Lemma incomplete_stays : forall c s o x e, DI c s -> wf_op c s o = true ->
  mem s x = Some e -> e_complete e = false -> removes o x = false -> o <> MarkComplete x ->
  exists e1, mem (post c s o) x = Some e1 /\ e_complete e1 = false /\ e_size e1 = e_size e.
Proof.
  intros c s o x e D W M C R NM. unfold post.
  destruct (N.eq_dec x (target o)) as [E|E]; [|rewrite step_mem_other by exact E; eauto].
  destruct (step_shape c s o D W) as
    [Hs Hc | x0 sz sh Ho M0 V F Hsh Hc Hst | x0 e0 d ord Hr Ht M0 V L Hc Hst | x0 e0 d sh Ho M0 C0 V Hsh Hc Hst
     | x0 e0 d body e' d1 Ht Hr Hmc M0 V Hk Hc Hm Hms Hsz Hco Hfin Hpre OK].
  - rewrite Hs. eauto.
  - subst o. cbn in E. subst x0. congruence.
  - rewrite <- E in Ht. subst x0. congruence.
  - subst o. cbn in E. subst x0. congruence.
  - rewrite <- E in Ht. subst x0. rewrite Hm, N.eqb_refl. exists e'. repeat split; congruence.
Qed.
(* a blob is complete after an operation only if it was before, or the operation is its MarkComplete *)
Lemma complete_origin : forall c s o x e1, DI c s -> wf_op c s o = true ->
  mem (post c s o) x = Some e1 -> e_complete e1 = true ->
  (exists e, mem s x = Some e /\ e_complete e = true) \/
  (o = MarkComplete x /\ exists e, mem s x = Some e /\ e_complete e = false).
Proof.
  intros c s o x e1 D W M C. unfold post in M.
  destruct (N.eq_dec x (target o)) as [E|E]; [|rewrite step_mem_other in M by exact E; eauto].
  destruct (step_shape c s o D W) as
    [Hs Hc | x0 sz sh Ho M0 V F Hsh Hc Hst | x0 e0 d ord Hr Ht M0 V L Hc Hst | x0 e0 d sh Ho M0 C0 V Hsh Hc Hst
     | x0 e0 d body e' d1 Ht Hr Hmc M0 V Hk Hc Hm Hms Hsz Hco Hfin Hpre OK].
  - rewrite Hs in M. eauto.
  - subst o. cbn in E. subst x0. rewrite Hst in M. cbn in M. unfold set_e in M. rewrite upd_eq in M.
    injection M as <-. discriminate.
  - rewrite <- E in Ht. subst x0. rewrite Hst in M. cbn in M. rewrite upd_eq in M. discriminate.
  - subst o. cbn in E. subst x0. right. split; [reflexivity|eauto].
  - rewrite <- E in Ht. subst x0. rewrite Hm, N.eqb_refl in M. injection M as <-. left. exists e0. split; congruence.
Qed.
(* a blob is listed after an operation only if it was before, or the operation is its Create *)
Lemma listed_origin : forall c s o x, DI c s -> wf_op c s o = true ->
  mem (post c s o) x <> None -> mem s x <> None \/ exists sz, o = Create x sz.
Proof.
  intros c s o x D W M. unfold post in M.
  destruct (N.eq_dec x (target o)) as [E|E]; [|rewrite step_mem_other in M by exact E; eauto].
  destruct (step_shape c s o D W) as
    [Hs Hc | x0 sz sh Ho M0 V F Hsh Hc Hst | x0 e0 d ord Hr Ht M0 V L Hc Hst | x0 e0 d sh Ho M0 C0 V Hsh Hc Hst
     | x0 e0 d body e' d1 Ht Hr Hmc M0 V Hk Hc Hm Hms Hsz Hco Hfin Hpre OK].
  - rewrite Hs in M. eauto.
  - subst o. cbn in E. subst x0. right. eauto.
  - rewrite <- E in Ht. subst x0. left. congruence.
  - subst o. cbn in E. subst x0. left. congruence.
  - rewrite <- E in Ht. subst x0. left. congruence.
Qed.

Lemma deq_pub : forall d d', deq d d' -> pub d = pub d'.
Proof. intros d d' [E1 [_ [E3 E4]]]. unfold pub. congruence. Qed.

Lemma dir_of_complete : forall s x e d, mem s x = Some e -> e_complete e = true -> blobs (disk s) x = (Some d, None) ->
  dir_of s x = Some d.
Proof. intros s x e d M C V. unfold dir_of, area_of. rewrite M, C, V. reflexivity. Qed.
Lemma dir_of_incomplete : forall s x e d, mem s x = Some e -> e_complete e = false -> blobs (disk s) x = (None, Some d) ->
  dir_of s x = Some d.
Proof. intros s x e d M C V. unfold dir_of, area_of. rewrite M, C, V. reflexivity. Qed.

(* ---------------------------------------------------------------- completed blobs survive *)
Theorem completed_survive : forall c s o k s' x e,
  reach c s -> wf_op c s o = true ->
  mem s x = Some e -> e_complete e = true -> removes o x = false ->
  recover c (crash c s o k) = Some s' ->
  exists d' b', dir_of s' x = Some d' /\ d_data d' = Some b' /\
    mem s' x = Some (mkment (N.of_nat (length b')) true (d_ban d')) /\
    (option_map pub (dir_of s x) = Some (pub d') \/ option_map pub (dir_of (post c s o) x) = Some (pub d')).
Proof.
  intros c s o k s' x e RS W M C NR R. pose proof (reach_DI c s RS) as D.
  destruct (recover_key c _ s' x R) as [Hm Hb].
  assert (PRE : forall w, veq w (blobs (disk s) x) -> blobs (crash c s o k) x = w ->
     exists d' b', dir_of s' x = Some d' /\ d_data d' = Some b' /\
       mem s' x = Some (mkment (N.of_nat (length b')) true (d_ban d')) /\ option_map pub (dir_of s x) = Some (pub d')).
  { intros w E Hw. pose proof (di_keys c s D x) as K. rewrite M in K.
    destruct (rec_complete c e _ w K C E) as [d [dw [b [Hv [-> [Ed [Hd [Hl [Hbn RV]]]]]]]]].
    rewrite Hw, RV in Hm, Hb. cbn [fst snd] in Hm, Hb.
    exists dw, b. repeat split; auto.
    - eapply dir_of_complete; eauto.
    - rewrite (dir_of_complete s x e d M C Hv). cbn. f_equal. symmetry. now apply deq_pub. }
  destruct (N.eq_dec x (target o)) as [->|E].
  - destruct (crash_class c s o k D W) as [E|E|e0 d d' Hr M0 V Hw S|sz d' Ho M0 Hw R0|e0 d d' Ho M0 C0 V Hw Hd Hbn Hmd].
    + destruct (PRE _ E eq_refl) as [d' [b' [H1 [H2 [H3 H4]]]]]. exists d', b'. auto.
    + pose proof (step_DI c s o D W) as D'. fold (post c s o) in D', E.
      destruct (complete_stays c s o _ e D W M C NR) as [e1 [M1 C1]].
      pose proof (di_keys c _ D' (target o)) as K. rewrite M1 in K.
      destruct (rec_complete c e1 _ _ K C1 E) as [d [dw [b [Hv [Hw [Ed [Hd [Hl [Hbn RV]]]]]]]]].
      rewrite RV in Hm, Hb. cbn [fst snd] in Hm, Hb.
      exists dw, b. repeat split; auto.
      * eapply dir_of_complete; eauto.
      * right. rewrite (dir_of_complete _ _ e1 d M1 C1 Hv). cbn. f_equal. symmetry. now apply deq_pub.
    + congruence.
    + congruence.
    + congruence.
  - rewrite crash_other in Hm, Hb by exact E.
    destruct (PRE _ (veq_refl _) (crash_other c s o k x E)) as [d' [b' [H1 [H2 [H3 H4]]]]]. exists d', b'. auto.
Qed.

(* ---------------------------------------------------------------- nothing incomplete is listed complete; nothing is invented *)
Lemma rec_complete_inv : forall ri w e', fst (rec_view ri w) = Some e' -> e_complete e' = true ->
  exists d b, fst w = Some d /\ d_data d = Some b.
Proof.
  intros ri [wc wi] e' H C. unfold rec_view in H. cbn [fst snd] in H.
  destruct wc as [d|]; cbn [rec_comp] in H.
  - destruct (d_data d) as [b|] eqn:Hd; [exists d, b; auto|]. cbn [fst] in H.
    unfold rec_inc in H. destruct ri; [|discriminate]. destruct wi as [d2|]; [|discriminate].
    destruct (d_data d2); [|discriminate]. destruct (d_sizef d2); [|discriminate]. destruct (undec _); [|discriminate].
    cbn in H. injection H as <-. discriminate.
  - cbn [fst] in H. unfold rec_inc in H. destruct ri; [|discriminate]. destruct wi as [d2|]; [|discriminate].
    destruct (d_data d2); [|discriminate]. destruct (d_sizef d2); [|discriminate]. destruct (undec _); [|discriminate].
    cbn in H. injection H as <-. discriminate.
Qed.
Lemma rec_some_inv : forall ri w, fst (rec_view ri w) <> None -> w <> (None, None).
Proof. intros ri w H E. subst w. now rewrite rec_absent in H. Qed.

Lemma di_complete_of_view : forall c e v w d, di_key c e v -> veq w v -> fst w = Some d ->
  exists e0, e = Some e0 /\ e_complete e0 = true.
Proof.
  intros c [e0|] v w d K E F.
  - exists e0. split; [reflexivity|]. destruct (e_complete e0) eqn:C; [reflexivity|].
    destruct K as [d0 [Hv _]]. unfold area_of in Hv. rewrite C in Hv. cbn in Hv. subst v.
    apply veq_inc in E. destruct E as [dw [-> _]]. discriminate.
  - cbn in K. subst v. apply veq_none in E. subst w. discriminate.
Qed.

Theorem nothing_incomplete_complete : forall c s o k s' x e',
  reach c s -> wf_op c s o = true -> recover c (crash c s o k) = Some s' ->
  mem s' x = Some e' -> e_complete e' = true ->
  (exists e, mem s x = Some e /\ e_complete e = true) \/
  (o = MarkComplete x /\ exists e, mem s x = Some e /\ e_complete e = false).
Proof.
  intros c s o k s' x e' RS W R M' C'. pose proof (reach_DI c s RS) as D.
  destruct (recover_key c _ s' x R) as [Hm _]. rewrite Hm in M'.
  destruct (rec_complete_inv _ _ _ M' C') as [dw [bw [Fw Dw]]].
  destruct (N.eq_dec x (target o)) as [->|E].
  - destruct (crash_class c s o k D W) as [E|E|e0 d d' Hr M0 V Hw S|sz d' Ho M0 Hw R0|e0 d d' Ho M0 C0 V Hw Hd Hbn Hmd].
    + left. destruct (di_complete_of_view c _ _ _ dw (di_keys c s D (target o)) E Fw) as [e0 [H1 H2]]. eauto.
    + pose proof (step_DI c s o D W) as D'.
      destruct (di_complete_of_view c _ _ _ dw (di_keys c _ D' (target o)) E Fw) as [e1 [H1 H2]].
      now apply (complete_origin c s o (target o) e1 D W).
    + left. exists e0. split; [exact M0|].
      pose proof (di_keys c s D (target o)) as K. rewrite M0 in K. destruct K as [d0 [Hv _]].
      rewrite Hv, vset_vset in Hw. rewrite Hw in Fw. unfold area_of in *. destruct (e_complete e0); [reflexivity|discriminate].
    + rewrite Hw in Fw. discriminate.
    + right. split; [exact Ho|eauto].
  - rewrite crash_other in Fw by exact E. left.
    destruct (di_complete_of_view c _ _ _ dw (di_keys c s D x) (veq_refl _) Fw) as [e0 [H1 H2]]. eauto.
Qed.

Theorem nothing_invented : forall c s o k s' x,
  reach c s -> wf_op c s o = true -> recover c (crash c s o k) = Some s' ->
  mem s' x <> None -> mem s x <> None \/ exists sz, o = Create x sz.
Proof.
  intros c s o k s' x RS W R M'. pose proof (reach_DI c s RS) as D.
  destruct (recover_key c _ s' x R) as [Hm _]. rewrite Hm in M'. apply rec_some_inv in M'.
  assert (PRE : forall w, veq w (blobs (disk s) x) -> w <> (None, None) -> mem s x <> None).
  { intros w E N0 M0. pose proof (di_keys c s D x) as K. rewrite M0 in K. cbn in K. rewrite K in E.
    apply veq_none in E. contradiction. }
  destruct (N.eq_dec x (target o)) as [->|E].
  - destruct (crash_class c s o k D W) as [E|E|e0 d d' Hr M0 V Hw S|sz d' Ho M0 Hw R0|e0 d d' Ho M0 C0 V Hw Hd Hbn Hmd].
    + left. eapply PRE; eauto.
    + pose proof (step_DI c s o D W) as D'. apply (listed_origin c s o _ D W).
      intro M0. pose proof (di_keys c _ D' (target o)) as K. unfold post in M0. rewrite M0 in K. cbn in K. rewrite K in E.
      apply veq_none in E. contradiction.
    + left. congruence.
    + right. eauto.
    + left. congruence.
  - rewrite crash_other in M' by exact E. left. eapply PRE; eauto using veq_refl.
Qed.

(* ---------------------------------------------------------------- incomplete blobs: restored with the reserved size, or dropped *)
Theorem incomplete_restored_or_dropped : forall c s o k s' x e,
  reach c s -> wf_op c s o = true ->
  mem s x = Some e -> e_complete e = false -> removes o x = false -> o <> MarkComplete x ->
  recover c (crash c s o k) = Some s' ->
  if c_ri c
  then exists d' b', dir_of s' x = Some d' /\ d_data d' = Some b' /\
         mem s' x = Some (mkment (e_size e) false (d_ban d')) /\
         (option_map pub (dir_of s x) = Some (pub d') \/ option_map pub (dir_of (post c s o) x) = Some (pub d'))
  else mem s' x = None /\ blobs (disk s') x = (None, None).
Proof.
  intros c s o k s' x e RS W M C NR NM R. pose proof (reach_DI c s RS) as D.
  destruct (recover_key c _ s' x R) as [Hm Hb].
  assert (GEN : forall (s0 : state) e0 w, DI c s0 -> mem s0 x = Some e0 -> e_complete e0 = false -> e_size e0 = e_size e ->
     veq w (blobs (disk s0) x) -> blobs (crash c s o k) x = w ->
     if c_ri c
     then exists d' b', dir_of s' x = Some d' /\ d_data d' = Some b' /\
            mem s' x = Some (mkment (e_size e) false (d_ban d')) /\ option_map pub (dir_of s0 x) = Some (pub d')
     else mem s' x = None /\ blobs (disk s') x = (None, None)).
  { intros s0 e0 w D0 M0 C0 S0 E Hw. pose proof (di_keys c s0 D0 x) as K. rewrite M0 in K.
    destruct (rec_incomplete c e0 _ w K C0 E) as [d [dw [b [Hv [-> [Ed [Hd [Hl [Hbn RV]]]]]]]]].
    rewrite Hw, RV in Hm, Hb. destruct (c_ri c); cbn [fst snd] in Hm, Hb; [|auto].
    exists dw, b. rewrite <- S0. repeat split; auto.
    - eapply (dir_of_incomplete s' x); eauto.
    - rewrite (dir_of_incomplete s0 x e0 d M0 C0 Hv). cbn. f_equal. symmetry. now apply deq_pub. }
  destruct (N.eq_dec x (target o)) as [->|E].
  - destruct (crash_class c s o k D W) as [E|E|e0 d d' Hr M0 V Hw S|sz d' Ho M0 Hw R0|e0 d d' Ho M0 C0 V Hw Hd Hbn Hmd].
    + pose proof (GEN s e _ D M C eq_refl E eq_refl) as G. destruct (c_ri c); [|exact G].
      destruct G as [d' [b' [H1 [H2 [H3 H4]]]]]. exists d', b'. auto.
    + pose proof (step_DI c s o D W) as D'. fold (post c s o) in D', E.
      destruct (incomplete_stays c s o _ e D W M C NR NM) as [e1 [M1 [C1 S1]]].
      pose proof (GEN (post c s o) e1 _ D' M1 C1 S1 E eq_refl) as G. destruct (c_ri c); [|exact G].
      destruct G as [d' [b' [H1 [H2 [H3 H4]]]]]. exists d', b'. auto.
    + congruence.
    + congruence.
    + congruence.
  - pose proof (GEN s e _ D M C eq_refl (veq_refl _) (crash_other c s o k x E)) as G. destruct (c_ri c); [|exact G].
    destruct G as [d' [b' [H1 [H2 [H3 H4]]]]]. exists d', b'. auto.
Qed.

(* a Create interrupted by the crash: the blob is absent, or restored with exactly the size it asked for *)
Theorem inflight_create : forall c s k s' x sz,
  reach c s -> wf_op c s (Create x sz) = true -> mem s x = None ->
  recover c (crash c s (Create x sz) k) = Some s' ->
  (mem s' x = None /\ blobs (disk s') x = (None, None)) \/
  (c_ri c = true /\ mem s' x = Some (mkment sz false false)).
Proof.
  intros c s k s' x sz RS W M R. pose proof (reach_DI c s RS) as D.
  destruct (recover_key c _ s' x R) as [Hm Hb].
  destruct (crash_class c s _ k D W) as [E|E|e0 d d' Hr M0 V Hw S|sz0 d' Ho M0 Hw R0|e0 d d' Ho M0 C0 V Hw Hd Hbn Hmd];
    cbn [target] in *.
  - left. pose proof (di_keys c s D x) as K. rewrite M in K. cbn in K. rewrite K in E. apply veq_none in E.
    rewrite E, rec_absent in Hm, Hb. auto.
  - pose proof (step_DI c s _ D W) as D'.
    destruct (step_shape c s _ D W) as
      [Hs Hc | x0 sz1 sh Ho M1 V F Hsh Hc Hst | x0 e1 d ord Hr Ht M1 V L Hc Hst | x0 e1 d sh Ho M1 C1 V Hsh Hc Hst
       | x0 e1 d body e' d1 Ht Hr Hmc M1 V Hk Hc Hm1 Hms Hsz Hco Hfin Hpre OK].
    + rewrite Hs in E. left. pose proof (di_keys c s D x) as K. rewrite M in K. cbn in K. rewrite K in E. apply veq_none in E.
      rewrite E, rec_absent in Hm, Hb. auto.
    + injection Ho as <- <-.
      assert (M1' : mem (st_of (step c s (Create x sz))) x = Some (mkment sz false false)).
      { rewrite Hst. cbn. unfold set_e. apply upd_eq. }
      pose proof (di_keys c _ D' x) as K. rewrite M1' in K.
      destruct (rec_incomplete c _ _ _ K eq_refl E) as [d [dw [b [Hv [Hw [Ed [Hd [Hl [Hbn RV]]]]]]]]].
      rewrite RV in Hm, Hb. destruct (c_ri c); cbn [fst snd] in Hm, Hb; [right|left; auto].
      split; [reflexivity|]. rewrite Hm. cbn in Hbn. now rewrite Hbn.
    + cbn in Ht. subst x0. congruence.
    + discriminate.
    + cbn in Ht. subst x0. congruence.
  - cbn in Hr. discriminate.
  - left. rewrite Hw in Hm, Hb. unfold rec_view in Hm, Hb. cbn [fst snd rec_comp] in Hm, Hb. rewrite R0 in Hm, Hb. auto.
  - discriminate.
Qed.

(* ---------------------------------------------------------------- MarkComplete interrupted by the crash *)
Definition as_incomplete (c : cfg) (s s' : state) (x : N) (e : ment) : Prop :=
  if c_ri c
  then exists d' b', dir_of s' x = Some d' /\ d_data d' = Some b' /\
         mem s' x = Some (mkment (e_size e) false (d_ban d')) /\ option_map pub (dir_of s x) = Some (pub d')
  else mem s' x = None /\ blobs (disk s') x = (None, None).

Lemma recovered_incomplete : forall c s f s' x e w, DI c s -> mem s x = Some e -> e_complete e = false ->
  recover c f = Some s' -> blobs f x = w -> veq w (blobs (disk s) x) -> as_incomplete c s s' x e.
Proof.
  intros c s f s' x e w D M C R Hw E. destruct (recover_key c _ s' x R) as [Hm Hb].
  pose proof (di_keys c s D x) as K. rewrite M in K.
  destruct (rec_incomplete c e _ w K C E) as [d [dw [b [Hv [-> [Ed [Hd [Hl [Hbn RV]]]]]]]]].
  rewrite Hw, RV in Hm, Hb. unfold as_incomplete. destruct (c_ri c); cbn [fst snd] in Hm, Hb; [|auto].
  exists dw, b. repeat split; auto.
  - eapply (dir_of_incomplete s' x); eauto.
  - rewrite (dir_of_incomplete s x e d M C Hv). cbn. f_equal. symmetry. now apply deq_pub.
Qed.

Theorem inflight_complete : forall c s k s' x e,
  reach c s -> wf_op c s (MarkComplete x) = true -> mem s x = Some e -> e_complete e = false ->
  recover c (crash c s (MarkComplete x) k) = Some s' ->
  as_incomplete c s s' x e \/
  exists d0 d' b, dir_of s x = Some d0 /\ dir_of s' x = Some d' /\ d_data d0 = Some b /\ d_data d' = Some b /\
    mem s' x = Some (mkment (N.of_nat (length b)) true (d_ban d')) /\ d_ban d' = d_ban d0 /\
    (forall sfx, aget sfx (d_md d') = aget sfx (d_md d0) \/ (N.even sfx = true /\ aget sfx (d_md d') = None)).
Proof.
  intros c s k s' x e RS W M C R. pose proof (reach_DI c s RS) as D.
  destruct (recover_key c _ s' x R) as [Hm Hb].
  assert (MID : forall d d', blobs (disk s) x = (None, Some d) -> blobs (crash c s (MarkComplete x) k) x = (Some d', None) ->
     d_data d' = d_data d -> d_ban d' = d_ban d ->
     (forall sfx, aget sfx (d_md d') = aget sfx (d_md d) \/ (N.even sfx = true /\ aget sfx (d_md d') = None)) ->
     exists d0 d' b, dir_of s x = Some d0 /\ dir_of s' x = Some d' /\ d_data d0 = Some b /\ d_data d' = Some b /\
       mem s' x = Some (mkment (N.of_nat (length b)) true (d_ban d')) /\ d_ban d' = d_ban d0 /\
       (forall sfx, aget sfx (d_md d') = aget sfx (d_md d0) \/ (N.even sfx = true /\ aget sfx (d_md d') = None))).
  { intros d d' V Hw Hd Hbn Hmd.
    pose proof (di_keys c s D x) as K. rewrite M in K. destruct K as [d0 [Hv [b [Hd0 _]]]].
    unfold area_of in Hv. rewrite C in Hv. cbn in Hv. rewrite V in Hv. injection Hv as <-.
    rewrite Hw in Hm, Hb. unfold rec_view in Hm, Hb. cbn [fst snd rec_comp] in Hm, Hb.
    rewrite Hd, Hd0, rec_inc_none in Hm, Hb. cbn [fst snd] in Hm, Hb.
    exists d, d', b. repeat split; auto; try congruence.
    - eapply dir_of_incomplete; eauto.
    - eapply (dir_of_complete s' x); eauto. }
  destruct (crash_class c s _ k D W) as [E|E|e0 d d' Hr M0 V Hw S|sz0 d' Ho M0 Hw R0|e0 d d' Ho M0 C0 V Hw Hd Hbn Hmd];
    cbn [target] in *.
  - left. eapply recovered_incomplete; eauto.
  - destruct (step_shape c s _ D W) as
      [Hs Hc | x0 sz1 sh Ho M1 V F Hsh Hc Hst | x0 e1 d ord Hr Ht M1 V L Hc Hst | x0 e1 d sh Ho M1 C1 V Hsh Hc Hst
       | x0 e1 d body e' d1 Ht Hr Hmc M1 V Hk Hc Hm1 Hms Hsz Hco Hfin Hpre OK].
    + rewrite Hs in E. left. eapply recovered_incomplete; eauto.
    + discriminate.
    + cbn in Hr. discriminate.
    + injection Ho as <-. right.
      assert (Kb : konly x (CRenDir x :: map (fun sfx => CUnlink AComp x (FMd sfx)) (immovables c d)))
        by (constructor; [reflexivity|apply konly_map_unlink]).
      assert (PV : blobs (disk (st_of (step c s (MarkComplete x)))) x = (Some (rm_mds (immovables c d) d), None)).
      { rewrite step_disk, Hc, (blobs_exec_target x sh _) by assumption. rewrite V, kexec_cons. unfold kapply. cbn [kstep snd fst].
        apply kexec_unlink_mds. }
      rewrite PV in E. apply veq_comp in E. destruct E as [dw [Hw [E1 [E2 [E3 E4]]]]].
      destruct (rm_mds_spec (immovables c d) d) as [R1 [R2 [R3 R4]]].
      apply (MID d dw V Hw); try congruence.
      intros sfx. rewrite E4. destruct (R4 sfx) as [H|[H1 H2]]; [now left|right]. split; [|exact H2].
      now apply (immovables_even c d).
    + exfalso. now apply (Hmc x).
  - cbn in Hr. discriminate.
  - discriminate.
  - right. now apply (MID d d').
Qed.

(* ---------------------------------------------------------------- Delete / eviction interrupted by the crash *)
Lemma deq_dsub : forall d' d, deq d' d -> dsub d' d.
Proof.
  intros d' d [E1 [E2 [E3 E4]]]. split; [now left|]. split; [now left|]. split; [congruence|].
  intros sfx v. now rewrite E4.
Qed.

Lemma rec_rm : forall c e d d', dir_ok c e d -> dsub d' d ->
  let w := vset (area_of e) (Some d') (None, None) in
  rec_view (c_ri c) w = (None, (None, None)) \/
  exists b, d_data d = Some b /\ d_data d' = Some b /\
    rec_view (c_ri c) w = (Some (mkment (if e_complete e then N.of_nat (length b) else e_size e) (e_complete e) (d_ban d')), w).
Proof.
  intros c e d d' [b [Hd [Hl [Hb Hs]]]] [S1 [S2 [S3 S4]]]. unfold area_of.
  destruct (e_complete e) eqn:C; cbn [vset fst snd]; cbv zeta.
  - unfold rec_view. cbn [fst snd rec_comp]. rewrite rec_inc_none.
    destruct S1 as [S1|S1]; rewrite S1, ?Hd; cbn [fst snd]; [right|now left].
    exists b. repeat split; auto; congruence.
  - unfold rec_view. cbn [fst snd rec_comp]. destruct (c_ri c) eqn:RI; cbn [rec_inc]; [|now left].
    destruct (Hs eq_refl eq_refl) as [sb [T1 T2]].
    destruct S1 as [S1|S1]; rewrite S1, ?Hd; [|now left].
    destruct S2 as [S2|S2]; rewrite S2, ?T1, ?T2; [|now left].
    right. exists b. repeat split; auto; congruence.
Qed.

Theorem interrupted_removal : forall c s o k s' x e,
  reach c s -> wf_op c s o = true -> mem s x = Some e -> removes o x = true ->
  recover c (crash c s o k) = Some s' ->
  (mem s' x = None /\ blobs (disk s') x = (None, None)) \/
  exists d0 d' b, dir_of s x = Some d0 /\ dir_of s' x = Some d' /\ d_data d0 = Some b /\ d_data d' = Some b /\
    mem s' x = Some (mkment (if e_complete e then N.of_nat (length b) else e_size e) (e_complete e) (d_ban d')) /\
    (d_ban d' = true -> d_ban d0 = true) /\
    (forall sfx v, aget sfx (d_md d') = Some v -> aget sfx (d_md d0) = Some v).
Proof.
  intros c s o k s' x e RS W M Hrm R. pose proof (reach_DI c s RS) as D.
  assert (Tx : x = target o) by (destruct o; cbn in Hrm; try discriminate; apply N.eqb_eq in Hrm; now subst).
  subst x. destruct (recover_key c _ s' (target o) R) as [Hm Hb].
  pose proof (di_keys c s D (target o)) as K. rewrite M in K. destruct K as [d0 [Hv OK]].
  assert (Hdir : dir_of s (target o) = Some d0) by (unfold dir_of; rewrite M, Hv; apply vget_vset).
  assert (SUB : forall d', dsub d' d0 -> blobs (crash c s o k) (target o) = vset (area_of e) (Some d') (None, None) ->
     (mem s' (target o) = None /\ blobs (disk s') (target o) = (None, None)) \/
     exists d0 d' b, dir_of s (target o) = Some d0 /\ dir_of s' (target o) = Some d' /\ d_data d0 = Some b /\ d_data d' = Some b /\
       mem s' (target o) = Some (mkment (if e_complete e then N.of_nat (length b) else e_size e) (e_complete e) (d_ban d')) /\
       (d_ban d' = true -> d_ban d0 = true) /\
       (forall sfx v, aget sfx (d_md d') = Some v -> aget sfx (d_md d0) = Some v)).
  { intros d' S Hw. rewrite Hw in Hm, Hb. destruct (rec_rm c e d0 d' OK S) as [RV|[b [B1 [B2 RV]]]]; rewrite RV in Hm, Hb; cbn [fst snd] in Hm, Hb.
    - now left.
    - right. exists d0, d', b. destruct S as [_ [_ [S3 S4]]]. repeat split; auto.
      unfold dir_of. rewrite Hm, Hb. unfold area_of. cbn [e_complete]. apply vget_vset. }
  destruct (crash_class c s o k D W) as [E|E|e0 d d' Hr M0 V Hw S|sz0 d' Ho M0 Hw R0|e0 d d' Ho M0 C0 V Hw Hd Hbn Hmd].
  - (* nothing removed yet *)
    rewrite Hv in E.
    assert (exists dw, blobs (crash c s o k) (target o) = vset (area_of e) (Some dw) (None, None) /\ deq dw d0) as [dw [Hw Ed]].
    { destruct (area_of e); cbn [vset fst snd] in *; [apply veq_comp in E|apply veq_inc in E]; destruct E as [dw [-> Ed]]; eauto. }
    apply (SUB dw); [now apply deq_dsub|exact Hw].
  - (* removal complete *)
    destruct (step_shape c s o D W) as
      [Hs Hc | x0 sz1 sh Ho M1 V F Hsh Hc Hst | x0 e1 d ord Hr Ht M1 V L Hc Hst | x0 e1 d sh Ho M1 C1 V Hsh Hc Hst
       | x0 e1 d body e' d1 Ht Hr Hmc M1 V Hk Hc Hm1 Hms Hsz Hco Hfin Hpre OK1].
    + rewrite Hs, Hv in E.
      assert (exists dw, blobs (crash c s o k) (target o) = vset (area_of e) (Some dw) (None, None) /\ deq dw d0) as [dw [Hw Ed]].
      { destruct (area_of e); cbn [vset fst snd] in *; [apply veq_comp in E|apply veq_inc in E]; destruct E as [dw [-> Ed]]; eauto. }
      apply (SUB dw); [now apply deq_dsub|exact Hw].
    + subst o. cbn in Hrm. discriminate.
    + subst x0. left. pose proof (step_DI c s o D W) as D'.
      pose proof (di_keys c _ D' (target o)) as K'. rewrite Hst in K' at 1. cbn [mem] in K'. rewrite upd_eq in K'. cbn in K'.
      rewrite K' in E. apply veq_none in E. rewrite E, rec_absent in Hm, Hb. auto.
    + subst o. cbn in Hrm. discriminate.
    + subst x0. congruence.
  - (* part of the directory removed *)
    rewrite M in M0. injection M0 as <-. rewrite Hv, vget_vset in V. injection V as <-.
    rewrite Hv, vset_vset in Hw. now apply (SUB d').
  - rewrite Ho in Hrm. cbn in Hrm. discriminate.
  - rewrite Ho in Hrm. cbn in Hrm. discriminate.
Qed.

(* ---------------------------------------------------------------- every key is reusable *)
Lemma wf_of_ok : forall c s o, out_of (step c s o) = OOk ->
  (match o with WriteAt _ _ _ | SetMd _ _ _ | DelMd _ _ | WriteAtMd _ _ _ _ => False | _ => True end) -> wf_op c s o = true.
Proof. intros c s o H K. unfold wf_op. rewrite H. destruct o; try contradiction; reflexivity. Qed.

Lemma reuse_tail : forall c s1 x sz, DI c s1 -> mem s1 x = None -> msize s1 + sz <= c_cap c ->
  is_ok (out_of (step c s1 (Create x sz)))
  && is_ok (out_of (step c (st_of (step c s1 (Create x sz))) (MarkComplete x)))
  && match mem (st_of (step c (st_of (step c s1 (Create x sz))) (MarkComplete x))) x with
     | Some e => e_complete e | None => false end = true.
Proof.
  intros c s1 x sz D1 M1 F1.
  destruct (step_create_eq c s1 x sz D1 M1 F1) as [cs E2].
  assert (W2 : wf_op c s1 (Create x sz) = true) by (apply wf_of_ok; [now rewrite E2|exact I]).
  pose proof (step_DI c s1 _ D1 W2) as D2. rewrite E2 in D2 |- *. cbn [st_of out_of fst snd is_ok] in *.
  set (s2 := mkst (set_e (mem s1) x (mkment sz false false)) (msize s1 + sz) (exec cs (disk s1))) in *.
  assert (M2 : mem s2 x = Some (mkment sz false false)) by (unfold s2, set_e; cbn; apply upd_eq).
  destruct (step_mc_eq c s2 x _ D2 M2 eq_refl) as [cs3 E3]. rewrite E3. cbn [st_of out_of fst snd is_ok mem].
  unfold set_e. rewrite upd_eq. reflexivity.
Qed.

Theorem keys_reusable : forall c s x sz ord,
  reach c s ->
  (mem s x <> None -> legal_order ord (dir_of s x) = true) ->
  (msize s - size_of (mem s x)) + sz <= c_cap c ->
  reuse c s x sz ord = true.
Proof.
  intros c s x sz ord RS HL HC. pose proof (reach_DI c s RS) as D. unfold reuse.
  destruct (mem s x) as [e|] eqn:M.
  - pose proof (di_keys c s D x) as K. rewrite M in K. apply di_vget in K. destruct K as [d [V [OK Hv]]].
    assert (L : legal_order ord (Some d) = true).
    { rewrite <- V. unfold dir_of in HL. rewrite M in HL. apply HL. discriminate. }
    pose proof (step_delete_eq c s x ord e d D M V L) as E.
    assert (W : wf_op c s (Delete x ord) = true) by (apply wf_of_ok; [now rewrite E|exact I]).
    pose proof (step_DI c s _ D W) as D1. rewrite E in D1 |- *. cbn [st_of out_of fst snd is_ok andb] in *.
    apply reuse_tail; [exact D1| |]; cbn [mem msize]; [apply upd_eq|]. cbn [size_of] in HC. exact HC.
  - cbn [fst snd andb]. apply reuse_tail; auto. cbn [size_of] in HC. now rewrite N.sub_0_r in HC.
Qed.

(* ---------------------------------------------------------------- size accounting, memory <-> disk *)
Theorem size_is_sum : forall c s, reach c s ->
  msize s = sum_sizes (mem s) (dom (disk s)) /\ NoDup (dom (disk s)) /\
  (forall x, mem s x <> None -> In x (dom (disk s))) /\ msize s <= c_cap c.
Proof.
  intros c s RS. pose proof (reach_DI c s RS) as D. repeat split.
  - apply (di_sum c s D).
  - apply (di_nodup c s D).
  - intros x. now apply (di_support c s x D).
  - apply (di_cap c s D).
Qed.

(* in every reachable state the disk holds exactly the directories of the listed blobs: nothing is
   left over for unknown keys, every listed blob has its data file and its ban flag on disk *)
Theorem memory_matches_disk : forall c s x, reach c s ->
  match mem s x with
  | None => blobs (disk s) x = (None, None)
  | Some e => exists d b, blobs (disk s) x = vset (area_of e) (Some d) (None, None) /\ dir_of s x = Some d /\
                          d_data d = Some b /\ N.of_nat (length b) <= e_size e /\ d_ban d = e_banned e
  end.
Proof.
  intros c s x RS. pose proof (di_keys c s (reach_DI c s RS) x) as K. unfold dir_of.
  destruct (mem s x) as [e|]; [|exact K].
  destruct K as [d [Hv [b [Hd [Hl [Hb _]]]]]]. exists d, b. rewrite Hv. repeat split; auto. apply vget_vset.
Qed.

(* after recovery a complete blob's accounted size is the length of its bytes, an incomplete one's
   the size decoded from its sidecar *)
Theorem recovered_sizes : forall c f s' x e, recover c f = Some s' -> mem s' x = Some e ->
  msize s' = sum_sizes (mem s') (dom (disk s')) /\
  exists d, dir_of s' x = Some d /\
    if e_complete e then exists b, d_data d = Some b /\ e_size e = N.of_nat (length b)
    else exists sb, d_sizef d = Some sb /\ undec sb = Some (e_size e).
Proof.
  intros c f s' x e R M. destruct (recover_key c f s' x R) as [Hm Hb]. split.
  { unfold recover in R. destruct (_ <=? c_cap c); [|discriminate]. injection R as <-. reflexivity. }
  rewrite Hm in M. unfold dir_of. rewrite Hm, M, Hb. clear Hm Hb R.
  destruct (blobs f x) as [wc wi]. unfold rec_view in *. cbn [fst snd] in *.
  destruct wc as [dc|]; cbn [rec_comp] in *.
  - destruct (d_data dc) as [b|] eqn:Hd; cbn [fst snd] in *.
    + injection M as <-. cbn. exists dc. split; [reflexivity|]. eauto.
    + unfold rec_inc in *. destruct (c_ri c); [|discriminate]. destruct wi as [di|]; [|discriminate].
      destruct (d_data di); [|discriminate]. destruct (d_sizef di) as [sb|] eqn:Hs; [|discriminate].
      destruct (undec sb) eqn:U; [|discriminate]. cbn in M. injection M as <-. cbn. exists di. split; [reflexivity|]. eauto.
  - cbn [fst snd] in *. unfold rec_inc in *. destruct (c_ri c); [|discriminate]. destruct wi as [di|]; [|discriminate].
    destruct (d_data di); [|discriminate]. destruct (d_sizef di) as [sb|] eqn:Hs; [|discriminate].
    destruct (undec sb) eqn:U; [|discriminate]. cbn in M. injection M as <-. cbn. exists di. split; [reflexivity|]. eauto.
Qed.

(* ---------------------------------------------------------------- histories; the recovery before the fixes *)
Lemma reach_after : forall c ops s, reach c s -> wf_all c s ops = true -> reach c (after c s ops).
Proof.
  intros c ops. induction ops as [|o t IH]; intros s R W; [exact R|].
  cbn in W. apply andb_true_iff in W. destruct W as [W1 W2]. cbn. apply IH; [now apply reach_step|exact W2].
Qed.

Theorem keys_reusable_after_crash : forall c s o k s' x sz ord,
  reach c s -> wf_op c s o = true -> recover c (crash c s o k) = Some s' ->
  (mem s' x <> None -> legal_order ord (dir_of s' x) = true) ->
  (msize s' - size_of (mem s' x)) + sz <= c_cap c ->
  reuse c s' x sz ord = true.
Proof. intros c s o k s' x sz ord RS W R. apply keys_reusable. eapply reach_crash; eauto. Qed.

Definition cfg_w (ri : bool) : cfg := mkcfg ri 1000 3 [(0, [])].

(* crash between create and write of the `_size` sidecar: the pinned code's reopen fails *)
Theorem empty_size_refuted :
  exists c s o k, reach c s /\ wf_op c s o = true /\ recover_old c (crash c s o k) = None.
Proof.
  exists (cfg_w true), init, (Create 0 5), 4%nat. split; [constructor|]. split; vm_compute; reflexivity.
Qed.
(* crash between create of the data file and create of `_size`: the entry is skipped but its
   directory stays, and the key can no longer be created *)
Theorem leftover_dir_refuted :
  exists c s o k s' x, reach c s /\ wf_op c s o = true /\ recover_old c (crash c s o k) = Some s' /\
    mem s' x = None /\ reuse c s' x 1 [] = false.
Proof.
  exists (cfg_w true), init, (Create 0 5), 3%nat.
  eexists. exists 0. split; [constructor|]. split; [vm_compute; reflexivity|].
  split; [vm_compute; reflexivity|]. split; vm_compute; reflexivity.
Qed.
(* interrupted Delete of a complete blob (data file unlinked first): the half-removed directory is
   skipped but stays, and MarkComplete of the re-created key fails (rename onto a non-empty directory) *)
Definition hist_w : list op :=
  [Create 0 3; WriteAt 0 0 [97; 98; 99]; SetMd 0 1 [109]; Ban 0; MarkComplete 0].
Theorem leftover_complete_dir_refuted :
  exists c s o k s' x, reach c s /\ wf_op c s o = true /\ recover_old c (crash c s o k) = Some s' /\
    mem s' x = None /\ is_ok (out_of (step c s' (Create x 1))) = true /\
    out_of (step c (st_of (step c s' (Create x 1))) (MarkComplete x)) = OErr.
Proof.
  exists (cfg_w false), (after (cfg_w false) init hist_w), (Delete 0 [FData; FMd 1; FBan]), 1%nat.
  eexists. exists 0. split; [apply reach_after; [constructor|vm_compute; reflexivity]|].
  split; [vm_compute; reflexivity|]. split; [vm_compute; reflexivity|].
  split; [vm_compute; reflexivity|]. split; vm_compute; reflexivity.
Qed.
(* the same crash points on the fixed recovery *)
Lemma witnesses_fixed :
  (exists s', recover (cfg_w true) (crash (cfg_w true) init (Create 0 5) 4) = Some s' /\ mem s' 0 = None
              /\ reuse (cfg_w true) s' 0 1 [] = true) /\
  (exists s', recover (cfg_w true) (crash (cfg_w true) init (Create 0 5) 3) = Some s' /\ reuse (cfg_w true) s' 0 1 [] = true) /\
  (exists s', recover (cfg_w false) (crash (cfg_w false) (after (cfg_w false) init hist_w) (Delete 0 [FData; FMd 1; FBan]) 1) = Some s'
              /\ reuse (cfg_w false) s' 0 1 [] = true).
Proof.
  split; [|split]; eexists; (split; [vm_compute; reflexivity|]); try split; vm_compute; reflexivity.
Qed.

(* ---------------------------------------------------------------- a crash during recovery is harmless *)
Lemma rec_comp_osub : forall o o', fst (rec_comp o) = None -> osub o' o -> rec_comp o' = (None, None).
Proof.
  intros o o' H [->|[d [d' [-> [-> [S1 _]]]]]]; [reflexivity|]. cbn in *.
  destruct (d_data d) eqn:E; [discriminate|]. destruct S1 as [S1|S1]; rewrite S1, ?E; reflexivity.
Qed.
Lemma rec_inc_osub : forall o o', fst (rec_inc true o) = None -> osub o' o -> rec_inc true o' = (None, None).
Proof.
  intros o o' H [->|[d [d' [-> [-> [S1 [S2 _]]]]]]]; [reflexivity|]. cbn in *.
  destruct S1 as [S1|S1]; rewrite S1; [|destruct (d_data d); reflexivity].
  destruct (d_data d); [|reflexivity].
  destruct S2 as [S2|S2]; rewrite S2; [|reflexivity].
  destruct (d_sizef d) as [sb|]; [|reflexivity]. destruct (undec sb); [discriminate|reflexivity].
Qed.
Lemma rec_comp_some : forall o, fst (rec_comp o) = None -> rec_comp o = (None, None).
Proof. intros [d|] H; cbn in *; [|reflexivity]. destruct (d_data d); [discriminate|reflexivity]. Qed.
Lemma rec_inc_some : forall o, fst (rec_inc true o) = None -> rec_inc true o = (None, None).
Proof.
  intros [d|] H; cbn in *; [|reflexivity]. destruct (d_data d); [|reflexivity]. destruct (d_sizef d) as [sb|]; [|reflexivity].
  destruct (undec sb); [discriminate|reflexivity].
Qed.

Lemma interrupted_view : forall c f f' x, interrupted_recovery c f f' ->
  rec_view (c_ri c) (blobs f' x) = rec_view (c_ri c) (blobs f x).
Proof.
  intros c f f' x [_ H]. destruct (H x) as [Hc Hi]. unfold rec_view.
  assert (Ec : rec_comp (fst (blobs f' x)) = rec_comp (fst (blobs f x))).
  { destruct (fst (rec_comp (fst (blobs f x)))) eqn:E; cbn [isSome] in Hc; [now rewrite Hc|].
    rewrite (rec_comp_osub _ _ E Hc). symmetry. now apply rec_comp_some. }
  assert (Ei : rec_inc (c_ri c) (snd (blobs f' x)) = rec_inc (c_ri c) (snd (blobs f x))).
  { destruct (c_ri c); [|reflexivity]. cbn [andb] in Hi.
    destruct (fst (rec_inc true (snd (blobs f x)))) eqn:E; cbn [isSome] in Hi; [now rewrite Hi|].
    rewrite (rec_inc_osub _ _ E Hi). symmetry. now apply rec_inc_some. }
  now rewrite Ec, Ei.
Qed.

Theorem recovery_crash_harmless : forall c f f' s1, interrupted_recovery c f f' -> recover c f = Some s1 ->
  exists s2, recover c f' = Some s2 /\ msize s2 = msize s1 /\
    forall x, mem s2 x = mem s1 x /\ blobs (disk s2) x = blobs (disk s1) x.
Proof.
  intros c f f' s1 I R. pose proof I as [Hd _]. unfold recover in *. rewrite Hd.
  assert (E : sum_sizes (fun y => fst (rec_view (c_ri c) (blobs f' y))) (dom f)
            = sum_sizes (fun y => fst (rec_view (c_ri c) (blobs f y))) (dom f)).
  { apply sum_ext. intros y _. now rewrite (interrupted_view c f f' y I). }
  rewrite E. destruct (_ <=? c_cap c); [|discriminate]. injection R as <-.
  eexists. split; [reflexivity|]. split; [reflexivity|].
  intros x. split.
  - change (fst (rec_view (c_ri c) (blobs f' x)) = fst (rec_view (c_ri c) (blobs f x))).
    now rewrite (interrupted_view c f f' x I).
  - change (snd (rec_view (c_ri c) (blobs f' x)) = snd (rec_view (c_ri c) (blobs f x))).
    now rewrite (interrupted_view c f f' x I).
Qed.

(* non-vacuity: the disk after a crash between create and write of `_size` (recovery drops the entry
   and removes its directory); recovery interrupted after unlinking `data`, before `_size` *)
Definition ex_f : fs := crash (cfg_w true) init (Create 0 5) 4.
Definition ex_f' : fs :=
  mkfs (fun y => if y =? 0 then (None, Some (mkbdir None (Some []) false [] [])) else (None, None)) (dom ex_f) (sdirs ex_f).
Lemma recovery_crash_nonvacuous :
  interrupted_recovery (cfg_w true) ex_f ex_f' /\ blobs ex_f 0 <> blobs ex_f' 0 /\
  exists s1, recover (cfg_w true) ex_f = Some s1 /\ mem s1 0 = None.
Proof.
  split; [|split].
  - split; [reflexivity|]. intros x. destruct (N.eqb_spec x 0) as [->|E].
    + assert (B0 : blobs ex_f 0 = (None, Some (mkbdir (Some []) (Some []) false [] []))) by (vm_compute; reflexivity).
      rewrite B0. unfold ex_f'. cbn [blobs]. rewrite N.eqb_refl. cbn [fst snd rec_comp isSome cfg_w c_ri andb rec_inc d_data d_sizef undec].
      split; [now left|]. right. eexists. eexists. split; [reflexivity|]. split; [reflexivity|].
      unfold dsub. cbn [d_data d_sizef d_ban d_md]. split; [now right|]. split; [now left|]. split; [discriminate|].
      intros s v H. discriminate.
    + assert (B : blobs ex_f x = (None, None)).
      { unfold ex_f, crash. rewrite (blobs_exec_other 0); [reflexivity| |exact E].
        eapply ckeys_prefix; [apply prefix_firstn|]. apply (step_ckeys (cfg_w true) init (Create 0 5)). }
      rewrite B. unfold ex_f'. cbn [blobs]. destruct (N.eqb_spec x 0); [contradiction|]. cbn. split; now left.
  - vm_compute. discriminate.
  - eexists. split; vm_compute; reflexivity.
Qed.
