From Coq Require Import List NArith Bool Lia.
From K.Model Require Import C06.
Import ListNotations.
Local Open Scope N_scope.
