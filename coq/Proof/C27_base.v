(* C27: list facts and the per-group (g.mu) regions: the double index stays consistent and
   an entry leaves the list only when the clock has reached its expiry. *)
From Coq Require Import List NArith ZArith Bool Arith Lia Permutation.
From K.Model Require Import C27.
Import ListNotations.

(* ---------- set_nth ---------- *)

Lemma set_nth_length {A} : forall i (x : A) l, length (set_nth i x l) = length l.
Proof. intros i x l; revert i; induction l as [|y t IH]; intros [|j]; cbn; auto. Qed.

Lemma nth_set_nth_eq {A} : forall i (x d : A) l, i < length l -> nth i (set_nth i x l) d = x.
Proof.
  intros i x d l; revert i; induction l as [|y t IH]; intros [|j] H; cbn in *; try lia; auto.
  apply IH; lia.
Qed.

Lemma nth_set_nth_neq {A} : forall i j (x d : A) l, i <> j -> nth j (set_nth i x l) d = nth j l d.
Proof.
  intros i j x d l; revert i j; induction l as [|y t IH]; intros [|i] [|j] H; cbn; auto; try lia.
Qed.

Lemma nth_error_set_nth_eq {A} : forall i (x : A) l, i < length l -> nth_error (set_nth i x l) i = Some x.
Proof.
  intros i x l; revert i; induction l as [|y t IH]; intros [|j] H; cbn in *; try lia; auto.
  apply IH; lia.
Qed.

Lemma nth_error_set_nth_neq {A} : forall i j (x : A) l, i <> j -> nth_error (set_nth i x l) j = nth_error l j.
Proof.
  intros i j x l; revert i j; induction l as [|y t IH]; intros [|i] [|j] H; cbn; auto; try lia.
Qed.

Lemma set_nth_app {A} : forall (l1 : list A) x y l2, set_nth (length l1) y (l1 ++ x :: l2) = l1 ++ y :: l2.
Proof. induction l1 as [|a t IH]; intros; cbn; auto. now rewrite IH. Qed.

Lemma set_nth_oob {A} : forall i (x : A) l, length l <= i -> set_nth i x l = l.
Proof.
  intros i x l; revert i; induction l as [|y t IH]; intros [|j] H; cbn in *; auto; try lia.
  f_equal; apply IH; lia.
Qed.

Lemma nth_error_nth' {A} : forall (l : list A) i d x, nth_error l i = Some x -> nth i l d = x.
Proof. intros; now apply nth_error_nth. Qed.

(* ---------- association lists ---------- *)

Lemma assoc_in {A} : forall k (l : list (N * A)) v, assoc k l = Some v -> In (k, v) l.
Proof.
  induction l as [|[k' v'] t IH]; cbn; intros v H; try discriminate.
  destruct (N.eqb k k') eqn:E.
  - apply N.eqb_eq in E; subst; inversion H; auto.
  - right; auto.
Qed.

Lemma assoc_none {A} : forall k (l : list (N * A)), assoc k l = None -> ~ In k (map fst l).
Proof.
  induction l as [|[k' v'] t IH]; cbn; intros H; auto.
  destruct (N.eqb k k') eqn:E; try discriminate.
  apply N.eqb_neq in E. intros [H1|H1]; [congruence | now apply IH].
Qed.

Lemma assoc_some_key {A} : forall k (l : list (N * A)), In k (map fst l) -> exists v, assoc k l = Some v.
Proof.
  intros k l H. destruct (assoc k l) eqn:E; eauto. now apply assoc_none in E.
Qed.

Lemma in_assoc_nodup {A} : forall k (v : A) (l : list (N * A)), NoDup (map fst l) -> In (k, v) l -> assoc k l = Some v.
Proof.
  induction l as [|[k' v'] t IH]; cbn; intros ND H; [tauto|].
  inversion ND as [|? ? Hn ND']; subst.
  destruct H as [H|H].
  - inversion H; subst. now rewrite N.eqb_refl.
  - destruct (N.eqb k k') eqn:E.
    + apply N.eqb_eq in E; subst. exfalso; apply Hn. now apply (in_map fst) in H.
    + auto.
Qed.

Lemma nodup_keys_inj {A} : forall k (a b : A) (l : list (N * A)), NoDup (map fst l) -> In (k, a) l -> In (k, b) l -> a = b.
Proof.
  intros k a b l ND Ha Hb. apply (in_assoc_nodup _ _ _ ND) in Ha. apply (in_assoc_nodup _ _ _ ND) in Hb. congruence.
Qed.

Lemma in_adel {A} : forall k k' (v : A) (l : list (N * A)), In (k', v) (adel k l) <-> In (k', v) l /\ k' <> k.
Proof.
  intros. unfold adel. rewrite filter_In. cbn. rewrite negb_true_iff, N.eqb_neq. intuition congruence.
Qed.

Lemma adel_keys_incl {A} : forall k (l : list (N * A)) x, In x (map fst (adel k l)) -> In x (map fst l) /\ x <> k.
Proof.
  intros k l x H. apply in_map_iff in H as [[k' v] [E H]]. cbn in E; subst.
  apply in_adel in H as [H1 H2]. split; auto. now apply (in_map fst) in H1.
Qed.

Lemma adel_keys_nodup {A} : forall k (l : list (N * A)), NoDup (map fst l) -> NoDup (map fst (adel k l)).
Proof.
  induction l as [|[k' v] t IH]; cbn; intros ND; [constructor|].
  inversion ND as [|? ? Hn ND']; subst.
  destruct (negb (N.eqb k k')); cbn; auto.
  constructor; auto. intros H. apply adel_keys_incl in H. tauto.
Qed.

Lemma assoc_adel_neq {A} : forall k k' (l : list (N * A)), k' <> k -> assoc k' (adel k l) = assoc k' l.
Proof.
  induction l as [|[k2 v] t IH]; cbn; intros H; auto.
  destruct (N.eqb k k2) eqn:E; cbn.
  - apply N.eqb_eq in E; subst. destruct (N.eqb k' k2) eqn:E2; [apply N.eqb_eq in E2; congruence | auto].
  - destruct (N.eqb k' k2); auto.
Qed.

Lemma assoc_adel_eq {A} : forall k (l : list (N * A)), assoc k (adel k l) = None.
Proof.
  intros. destruct (assoc k (adel k l)) eqn:E; auto.
  apply assoc_in in E. apply in_adel in E. tauto.
Qed.

(* ---------- boolean list predicates ---------- *)

Lemma memn_in : forall x l, memn x l = true <-> In x l.
Proof.
  intros. unfold memn. rewrite existsb_exists. split.
  - intros [y [H E]]. apply Nat.eqb_eq in E. now subst.
  - intros H. exists x. split; auto. apply Nat.eqb_refl.
Qed.

Lemma nodupb_NoDup : forall l, nodupb l = true <-> NoDup l.
Proof.
  induction l as [|x t IH]; cbn.
  - split; auto. constructor.
  - rewrite andb_true_iff, negb_true_iff, IH. split.
    + intros [H1 H2]. constructor; auto. rewrite <- memn_in. congruence.
    + intros H. inversion H; subst. split; auto. destruct (memn x t) eqn:E; auto. apply memn_in in E. tauto.
Qed.

Lemma is_perm_spec : forall o l, is_perm o l = true ->
  length o = length l /\ NoDup o /\ forall x, In x o -> In x l.
Proof.
  intros o l H. unfold is_perm in H. rewrite !andb_true_iff in H. destruct H as [[H1 H2] H3].
  apply Nat.eqb_eq in H1. apply nodupb_NoDup in H2. rewrite forallb_forall in H3.
  repeat split; auto. intros x Hx. apply memn_in. auto.
Qed.

Lemma valid_idxs_spec : forall idxs k L, valid_idxs idxs k L = true ->
  length idxs = k /\ NoDup idxs /\ forall i, In i idxs -> i < L.
Proof.
  intros idxs k L H. unfold valid_idxs in H. rewrite !andb_true_iff in H. destruct H as [[H1 H2] H3].
  apply Nat.eqb_eq in H1. apply nodupb_NoDup in H2. rewrite forallb_forall in H3.
  repeat split; auto. intros i Hi. apply Nat.ltb_lt. auto.
Qed.

(* ---------- swap_remove (local.go:235-236) ---------- *)

Lemma swap_remove_perm : forall i l, i < length l -> Permutation l (nth i l 0 :: swap_remove i l).
Proof.
  intros i l Hi.
  destruct (nth_split l 0 Hi) as [l1 [l2 [E Hl]]].
  set (x := nth i l 0) in *. clearbody x. subst i. unfold swap_remove. rewrite E. clear E Hi.
  destruct (exists_last (l := x :: l2)) as [l2' [y E2]]; [discriminate|].
  destruct l2 as [|z l2].
  - (* the removed index is the last one *)
    rewrite last_last. rewrite set_nth_app. rewrite removelast_last.
    apply Permutation_sym, Permutation_cons_append.
  - assert (E3 : last (l1 ++ x :: z :: l2) 0 = y /\ exists l3, z :: l2 = l3 ++ [y]).
    { destruct l2' as [|w l2']; cbn in E2; [inversion E2|].
      inversion E2; subst w. split.
      - rewrite H1. replace (l1 ++ x :: l2' ++ [y]) with ((l1 ++ x :: l2') ++ [y]) by (rewrite <- app_assoc; reflexivity).
        apply last_last.
      - eauto. }
    destruct E3 as [E3 [l3 E4]]. rewrite E3, set_nth_app, E4.
    replace (l1 ++ y :: l3 ++ [y]) with ((l1 ++ y :: l3) ++ [y]) by (rewrite <- app_assoc; reflexivity).
    rewrite removelast_last.
    etransitivity; [apply Permutation_sym, Permutation_middle|].
    constructor. apply Permutation_app_head. apply Permutation_sym, Permutation_cons_append.
Qed.

Lemma swap_remove_spec : forall i l, i < length l -> NoDup l ->
  NoDup (swap_remove i l) /\ forall q, In q (swap_remove i l) <-> In q l /\ q <> nth i l 0.
Proof.
  intros i l Hi ND. pose proof (swap_remove_perm i l Hi) as P.
  pose proof (Permutation_NoDup P ND) as ND2. inversion ND2 as [|? ? Hn ND3]; subst.
  split; auto. intros q. split.
  - intros H. split.
    + eapply Permutation_in; [apply Permutation_sym, P|]. now right.
    + intros ->. tauto.
  - intros [H1 H2]. apply (Permutation_in _ P) in H1. destruct H1; [congruence|auto].
Qed.

Lemma swap_remove_length : forall i l, i < length l -> S (length (swap_remove i l)) = length l.
Proof. intros i l Hi. now rewrite (Permutation_length (swap_remove_perm i l Hi)). Qed.

Lemma NoDup_snoc {A} : forall (l : list A) x, NoDup l -> ~ In x l -> NoDup (l ++ [x]).
Proof.
  intros l x ND H. eapply Permutation_NoDup; [apply Permutation_cons_append|]. now constructor.
Qed.
