(* C38 — registry path parsing recovers exactly the components a path was built from.
   Assembly of the per-pattern results (C38_uploads, C38_manifests, C38_layers, C38_repo,
   C38_cross, C38_shapes) into the statements of Properties/C38.v. *)
From Coq Require Import List NArith Arith Bool Lia.
From K.Gen Require Import C38_consts.
From K.Model Require Import C38.
From K.Proof Require Import C38_engine C38_segs C38_tac C38_shapes C38_uploads C38_manifests C38_layers C38_repo C38_cross.
Import ListNotations.
Local Open Scope N_scope.

(* the pattern trees print to exactly the literals extracted from paths.go, and are in the
   fragment the printer reads back unambiguously *)
Lemma patterns_are_source : table_ok (pattern_table ast_get_repo) = true.
Proof. vm_compute. reflexivity. Qed.
Lemma roots_are_source : repository_root = v2_root ++ sl s_repositories.
Proof. reflexivity. Qed.

Ltac prep := cbn [pk_ok]; intros Hk;
  repeat match goal with H : _ && _ = true |- _ => apply andb_true_iff in H; destruct H end.

(* ---- clause 1: classification ---- *)
Theorem parse_built k : pk_ok k = true -> parse_path (build k) = o_parse (expected k).
Proof.
  destruct k; prep; unfold parse_path, match_manifests, match_layers, match_blobs.
  - rewrite mm_revisions by assumption. reflexivity.
  - rewrite mm_revision by assumption. reflexivity.
  - rewrite mm_tags by assumption. reflexivity.
  - rewrite mm_tag_current by assumption. reflexivity.
  - rewrite mm_tag_index by assumption. reflexivity.
  - rewrite mm_layer by assumption. cbn [first_cap].
    unfold match_uploads. rewrite mu_layer by assumption. cbn [first_cap].
    rewrite ml_layer by assumption. destruct data; reflexivity.
  - rewrite mm_blob by assumption. cbn [first_cap].
    unfold match_uploads. rewrite mu_blob by assumption. cbn [first_cap].
    rewrite ml_blob by assumption. cbn [first_cap].
    pose proof (mb_blob hex) as X. destruct (exec ast_match_blobs _); [reflexivity|exfalso; apply X; auto].
  - rewrite mm_upload_data by assumption. cbn [first_cap]. rewrite match_uploads_data by assumption. reflexivity.
  - rewrite mm_upload_startedat by assumption. cbn [first_cap]. rewrite match_uploads_startedat by assumption. reflexivity.
  - rewrite mm_upload_hashstates by assumption. cbn [first_cap]. rewrite match_uploads_hashstates by assumption. reflexivity.
  - rewrite mm_upload_hashstate by assumption. cbn [first_cap]. rewrite match_uploads_hashstate by assumption. reflexivity.
Qed.

(* ---- clause 2: the extractors return exactly the components ---- *)
Lemma build_repo_form k : o_repo (expected k) <> None ->
  exists r kw rest, o_repo (expected k) = Some r /\ build k = repo_dir r ++ sls kw ++ rest
    /\ (kw = s_manifests \/ kw = s_layers \/ kw = s_uploads)
    /\ (pk_ok k = true -> repo_ok r = true).
Proof.
  destruct k; cbn [expected o_repo no_obs]; intros Hn; try congruence;
    match goal with |- exists r kw rest, Some ?r0 = Some r /\ _ => exists r0 end.
  all: cbn [build pk_ok].
  all: do 2 eexists; split; [reflexivity|]; split; [reflexivity|]; split; [auto|];
       intros H; repeat (apply andb_true_iff in H as [H ?]); assumption.
Qed.
Lemma sls_split kw rest : sls kw ++ rest = SL :: kw ++ SL :: rest.
Proof. unfold sls. cbn [app]. rewrite <- app_assoc. reflexivity. Qed.

Theorem repo_built k : pk_ok k = true -> get_repo (build k) = o_repo (expected k).
Proof.
  intros Hk. destruct (o_repo (expected k)) as [r0|] eqn:E.
  - destruct (build_repo_form k) as (r & kw & rest & Er & Eb & Hkw & Hr); [congruence|].
    rewrite E in Er. injection Er as ->. unfold get_repo, get_repo_with. rewrite Eb, sls_split, get_repo_built by auto. reflexivity.
  - destruct k; try discriminate E. unfold get_repo, get_repo_with. rewrite repo_none by exact Hk. reflexivity.
Qed.

Theorem tag_built k : pk_ok k = true -> get_manifest_tag (build k) = o_tag (expected k).
Proof.
  intros Hk. unfold get_manifest_tag. destruct (has_tag k) eqn:E.
  - destruct k; try discriminate E; revert Hk; prep.
    + rewrite tag_current by assumption. reflexivity.
    + rewrite tag_index by assumption. reflexivity.
  - rewrite tag_none by assumption. destruct k; try discriminate E; reflexivity.
Qed.

Theorem blob_built k : pk_ok k = true -> get_blob_digest (build k) = o_blob (expected k).
Proof.
  intros Hk. unfold get_blob_digest, digest_of. destruct (is_blob k) eqn:E.
  - destruct k; try discriminate E. cbn [pk_ok] in Hk. rewrite blob_digest by assumption. cbn [first_cap].
    rewrite valid_hex_sha by assumption. reflexivity.
  - rewrite blob_none by assumption. destruct k; try discriminate E; reflexivity.
Qed.
Theorem layer_built k : pk_ok k = true -> get_layer_digest (build k) = o_layer (expected k).
Proof.
  intros Hk. unfold get_layer_digest, digest_of. destruct (is_layer k) eqn:E.
  - destruct k; try discriminate E. revert Hk; prep. rewrite layer_digest by assumption. cbn [first_cap].
    rewrite valid_hex_sha by assumption. reflexivity.
  - rewrite layer_none by assumption. destruct k; try discriminate E; reflexivity.
Qed.
Theorem manifest_built k : pk_ok k = true -> get_manifest_digest (build k) = o_manifest (expected k).
Proof.
  intros Hk. unfold get_manifest_digest, digest_of. destruct (has_mdigest k) eqn:E.
  - destruct k; try discriminate E; revert Hk; prep.
    + rewrite mdigest_revision by assumption. cbn [first_cap]. rewrite valid_hex_sha by assumption. reflexivity.
    + rewrite mdigest_tag_index by assumption. cbn [first_cap]. rewrite valid_hex_sha by assumption. reflexivity.
  - rewrite mdigest_none by assumption. destruct k; try discriminate E; reflexivity.
Qed.
Theorem uuid_built k : pk_ok k = true -> get_upload_uuid (build k) = o_uuid (expected k).
Proof.
  intros Hk. unfold get_upload_uuid. destruct (is_upload k) eqn:E.
  - destruct k; try discriminate E; revert Hk; prep.
    + rewrite uuid_data by assumption. reflexivity.
    + rewrite uuid_startedat by assumption. reflexivity.
    + rewrite uuid_hashstates by assumption. reflexivity.
    + rewrite uuid_hashstate by assumption. reflexivity.
  - rewrite uuid_none by assumption. destruct k; try discriminate E; reflexivity.
Qed.
Theorem algo_built k : pk_ok k = true -> get_upload_algo_offset (build k) = o_algo (expected k).
Proof.
  intros Hk. unfold get_upload_algo_offset. destruct (is_hashstate k) eqn:E.
  - destruct k; try discriminate E; revert Hk; prep. rewrite algo_hashstate by assumption. reflexivity.
  - rewrite algo_none by assumption. destruct k; try discriminate E; reflexivity.
Qed.

(* all eight functions at once *)
Theorem observe_built k : pk_ok k = true -> observe (build k) = expected k.
Proof.
  intros Hk. unfold observe, observe_with. fold get_repo.
  rewrite parse_built, repo_built, tag_built, blob_built, layer_built, manifest_built, uuid_built, algo_built by exact Hk.
  destruct k; reflexivity.
Qed.
Corollary observe_valid k : pk_valid k = true -> observe (build k) = expected k.
Proof. intros H. apply observe_built, pk_valid_ok, H. Qed.

(* ---- clause 3: whatever is accepted follows the layout ---- *)
Lemma exec_shape r p c (S : list N -> list N -> list (list N) -> Prop) :
  (forall t1 t2 c, D r t1 t2 c -> S t1 t2 c) -> exec r p = Some c -> exists t1 t2, p = t1 ++ t2 /\ S t1 t2 c.
Proof. intros HS H. apply exec_sound in H as (t1 & t2 & -> & HD). eauto. Qed.
Lemma exec_shape_anch r p c (S : list N -> list N -> list (list N) -> Prop) :
  (forall t1 t2 c, D r t1 t2 c -> S t1 t2 c) -> (forall t1 t2 c, S t1 t2 c -> t2 = []) ->
  exec r p = Some c -> S p [] c.
Proof.
  intros HS Ha H. apply exec_sound in H as (t1 & t2 & -> & HD). pose proof (HS _ _ _ HD) as X.
  pose proof (Ha _ _ _ X). subst t2. rewrite app_nil_r. exact X.
Qed.
Lemma first_cap_some o c : first_cap o = Some c -> exists rest, o = Some (c :: rest).
Proof. destruct o as [[|x l]|]; cbn; intros H; try discriminate. injection H as ->. eauto. Qed.

Definition follows_layout (ty st p : list N) : Prop :=
  (ty = pt_manifests /\ sh_mm p [] [st])
  \/ (ty = pt_uploads /\ (exists t1 t2, p = t1 ++ t2 /\ sh_mu t1 t2 [st]) /\ (st = st_hashstates -> sh_muh p [] []))
  \/ (ty = pt_layers /\ exists h, sh_layer p [] h st)
  \/ (ty = pt_blobs /\ st = st_data /\ exists h, sh_blob p [] h).

Theorem parse_rejects p ty st : parse_path p = Some (ty, st) -> follows_layout ty st p.
Proof.
  unfold parse_path, follows_layout. intros H.
  destruct (match_manifests p) as [s|] eqn:E1.
  { injection H as <- <-. left. split; [reflexivity|]. unfold match_manifests in E1.
    apply first_cap_some in E1 as (rest & E1).
    apply (exec_shape_anch _ _ _ sh_mm shape_mm) in E1; [|intros ? ? ? X; apply X].
    pose proof E1 as (_ & pre & st' & Hc & _). injection Hc as -> ->. exact E1. }
  destruct (match_uploads p) as [s|] eqn:E2.
  { injection H as <- <-. right; left. split; [reflexivity|]. unfold match_uploads in E2.
    destruct (first_cap (exec ast_match_uploads p)) as [s'|] eqn:E3; [|discriminate].
    apply first_cap_some in E3 as (rest & E3).
    apply (exec_shape _ _ _ sh_mu shape_mu) in E3 as (t1 & t2 & Hp & Hs).
    pose proof Hs as (pre & u & st' & _ & Hc & _). injection Hc as -> ->.
    destruct (str_eqb st' st_hashstates) eqn:E4.
    - destruct (exec ast_match_uploads_hashstates p) as [c|] eqn:E5; [|discriminate]. injection E2 as <-.
      split; [eauto|]. intros _.
      apply (exec_shape_anch _ _ _ sh_muh shape_muh) in E5; [|intros ? ? ? X; apply X].
      pose proof E5 as (_ & ? & ? & ? & _ & -> & _). exact E5.
    - injection E2 as <-. split; [eauto|]. intros ->. discriminate E4. }
  destruct (match_layers p) as [s|] eqn:E3.
  { injection H as <- <-. right; right; left. split; [reflexivity|]. unfold match_layers in E3.
    apply first_cap_some in E3 as (rest & E3).
    apply (exec_shape_anch _ _ _ (fun t1 t2 c => exists h x, c = [x] /\ sh_layer t1 t2 h x) shape_ml) in E3.
    - destruct E3 as (h & x & Hc & Hs). injection Hc as -> ->. eauto.
    - intros ? ? ? (? & ? & _ & X). apply X. }
  destruct (match_blobs p) as [s|] eqn:E4; [|discriminate].
  injection H as <- <-. right; right; right. split; [reflexivity|]. unfold match_blobs in E4.
  destruct (exec ast_match_blobs p) as [c|] eqn:E5; [|discriminate]. injection E4 as <-. split; [reflexivity|].
  apply (exec_shape_anch _ _ _ (fun t1 t2 c => exists h, c = [] /\ sh_blob t1 t2 h) shape_mb) in E5.
  - destruct E5 as (h & _ & Hs). eauto.
  - intros ? ? ? (? & _ & X). apply X.
Qed.

Theorem repo_rejects p r : get_repo p = Some r -> exists t1 t2, p = t1 ++ t2 /\ sh_repo t1 [r].
Proof.
  unfold get_repo, get_repo_with. intros H. apply first_cap_some in H as (rest & H).
  apply (exec_shape _ _ _ (fun t1 _ c => sh_repo t1 c) shape_repo) in H as (t1 & t2 & Hp & Hs).
  pose proof Hs as (? & ? & ? & _ & Hc & _). injection Hc as -> ->. eauto.
Qed.
Theorem tag_rejects p t cur : get_manifest_tag p = Some (t, cur) -> exists x, sh_tag p [] [t; x] /\ cur = str_eqb x s_current.
Proof.
  unfold get_manifest_tag. intros H. destruct (exec ast_get_manifest_tag p) as [c|] eqn:E; [|discriminate].
  apply (exec_shape_anch _ _ _ sh_tag shape_tag) in E; [|intros ? ? ? X; apply X].
  pose proof E as (_ & ? & t' & x & -> & _). injection H as <- <-. eauto.
Qed.
Lemma digest_of_some o h : digest_of o = Some h -> (exists rest, o = Some (h :: rest)) /\ valid_sha256_hex h = true.
Proof.
  unfold digest_of. destruct (first_cap o) as [h'|] eqn:E; [|discriminate].
  destruct (valid_sha256_hex h') eqn:V; [|discriminate]. intros H; injection H as <-.
  split; [apply first_cap_some; exact E|exact V].
Qed.
Theorem blob_rejects p h : get_blob_digest p = Some h -> sh_blob p [] h /\ valid_sha256_hex h = true.
Proof.
  unfold get_blob_digest. intros H. apply digest_of_some in H as ((rest & E) & V). split; [|exact V].
  apply (exec_shape_anch _ _ _ (fun t1 t2 c => exists h, c = [h] /\ sh_blob t1 t2 h) shape_blob_digest) in E.
  - destruct E as (h' & Hc & Hs). injection Hc as -> ->. exact Hs.
  - intros ? ? ? (? & _ & X). apply X.
Qed.
Theorem layer_rejects p h : get_layer_digest p = Some h -> (exists x, sh_layer p [] h x) /\ valid_sha256_hex h = true.
Proof.
  unfold get_layer_digest. intros H. apply digest_of_some in H as ((rest & E) & V). split; [|exact V].
  apply (exec_shape_anch _ _ _ (fun t1 t2 c => exists h x, c = [h] /\ sh_layer t1 t2 h x) shape_layer_digest) in E.
  - destruct E as (h' & x & Hc & Hs). injection Hc as -> ->. eauto.
  - intros ? ? ? (? & ? & _ & X). apply X.
Qed.
Theorem manifest_rejects p h : get_manifest_digest p = Some h -> sh_mdigest p [] [h] /\ valid_sha256_hex h = true.
Proof.
  unfold get_manifest_digest. intros H. apply digest_of_some in H as ((rest & E) & V). split; [|exact V].
  apply (exec_shape_anch _ _ _ sh_mdigest shape_mdigest) in E; [|intros ? ? ? X; apply X].
  pose proof E as (_ & ? & ? & Hc & _). injection Hc as -> ->. exact E.
Qed.
Theorem uuid_rejects p u : get_upload_uuid p = Some u -> sh_uuid p [] [u].
Proof.
  unfold get_upload_uuid. intros H. apply first_cap_some in H as (rest & E).
  apply (exec_shape_anch _ _ _ sh_uuid shape_uuid) in E; [|intros ? ? ? X; apply X].
  pose proof E as (_ & ? & ? & ? & _ & Hc & _). injection Hc as -> ->. exact E.
Qed.
Theorem algo_rejects p a o : get_upload_algo_offset p = Some (a, o) -> sh_algo p [] [a; o].
Proof.
  unfold get_upload_algo_offset. intros H. destruct (exec ast_get_upload_algo_offset p) as [c|] eqn:E; [|discriminate].
  apply (exec_shape_anch _ _ _ sh_algo shape_algo) in E; [|intros ? ? ? X; apply X].
  pose proof E as (_ & ? & ? & ? & ? & _ & -> & _). injection H as <- <-. exact E.
Qed.

(* ---- the pattern as shipped (greedy): refuted on valid names ---- *)
Definition w_repo_component := KTagCurrent [102; 111; 111; 47; 114; 101; 112; 111; 115; 105; 116; 111; 114; 105; 101; 115; 47; 98; 97; 114] [118; 49].
  (* repository "foo/repositories/bar", tag "v1" *)
Definition w_keyword_tag := KTagCurrent [102; 111; 111] s_layers.   (* repository "foo", tag "_layers" *)
Lemma shipped_repo_component_refuted :
  pk_valid w_repo_component = true /\ get_repo_prefix (build w_repo_component) = Some [98; 97; 114]   (* "bar" *)
  /\ get_repo_prefix (build w_repo_component) <> o_repo (expected w_repo_component).
Proof. vm_compute. repeat split; discriminate. Qed.
Lemma shipped_keyword_tag_refuted :
  pk_valid w_keyword_tag = true
  /\ get_repo_prefix (build w_keyword_tag) = Some ([102; 111; 111] ++ sl s_manifests ++ sl s_tags)   (* "foo/_manifests/tags" *)
  /\ get_repo_prefix (build w_keyword_tag) <> o_repo (expected w_keyword_tag).
Proof. vm_compute. repeat split; discriminate. Qed.
(* ... and the fixed pattern is right on both *)
Lemma fixed_on_witnesses :
  get_repo (build w_repo_component) = o_repo (expected w_repo_component)
  /\ get_repo (build w_keyword_tag) = o_repo (expected w_keyword_tag).
Proof. vm_compute. split; reflexivity. Qed.

(* ---- the property on one observed case, executable form ---- *)
Lemma str_eqb_eq a b : str_eqb a b = true -> a = b.
Proof.
  revert b; induction a as [|x a IH]; intros [|y b] H; cbn in H; try discriminate; [reflexivity|].
  apply andb_true_iff in H as [H1 H2]. apply N.eqb_eq in H1. subst y. f_equal. auto.
Qed.
Lemma str_eqb_refl a : str_eqb a a = true.
Proof. induction a as [|x a IH]; cbn; [reflexivity|]. rewrite N.eqb_refl. exact IH. Qed.
Lemma opt_eqb_refl {A} (e : A -> A -> bool) : (forall x, e x x = true) -> forall o, opt_eqb e o o = true.
Proof. intros He [x|]; cbn; auto. Qed.
Lemma obs_eqb_refl o : obs_eqb o o = true.
Proof.
  destruct o. unfold obs_eqb. simpl.
  rewrite !opt_eqb_refl; auto using str_eqb_refl.
  all: intros [a b]; unfold pair_eqb; cbn; rewrite ?str_eqb_refl, ?eqb_reflx; reflexivity.
Qed.
Theorem check_sound path built : C38_check path built (observe path) = true.
Proof.
  destruct built as [k|]; [|reflexivity]. unfold C38_check.
  destruct (str_eqb path (build k)) eqn:E; [|reflexivity].
  destruct (pk_ok k) eqn:Hk; [|reflexivity]. cbn [andb negb orb].
  apply str_eqb_eq in E. subst path. rewrite observe_built by exact Hk. apply obs_eqb_refl.
Qed.

(* non-vacuity: valid components exist for every kind, and the eight functions answer as expected *)
Definition ex_repo := [108; 105; 98; 114; 97; 114; 121; 47; 114; 101; 112; 111; 115; 105; 116; 111; 114; 105; 101; 115; 47; 107; 114; 97; 107; 101; 110; 45; 49].  (* "library/repositories/kraken-1" *)
Definition ex_hex := repeat 97 32 ++ repeat 49 32.   (* 32 x 'a' then 32 x '1' *)
Definition ex_uuid := [49; 97; 50; 98; 45; 99; 51].  (* "1a2b-c3" *)
Definition ex_kinds := [ KRevisions ex_repo; KRevision ex_repo ex_hex; KTags ex_repo; KTagCurrent ex_repo s_uploads;
  KTagIndex ex_repo s_manifests ex_hex; KLayer true ex_repo ex_hex; KLayer false ex_repo ex_hex; KBlob ex_hex;
  KUploadData ex_repo ex_uuid; KUploadStartedAt ex_repo ex_uuid; KUploadHashStates ex_repo ex_uuid s_sha256;
  KUploadHashState ex_repo ex_uuid s_sha256 [52; 50] ].
