From Coq Require Import List NArith Bool Lia.
From K.Gen Require Import C38_consts.
From K.Model Require Import C38.
Import ListNotations.
Local Open Scope N_scope.

(* the pattern trees print to exactly the literals extracted from paths.go *)
Lemma patterns_are_source : table_ok (pattern_table ast_get_repo) = true.
Proof. vm_compute. reflexivity. Qed.
