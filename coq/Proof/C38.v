(* C38 — registry path parsing recovers exactly the components a path was built from.
   Assembly of the per-pattern results (C38_uploads, C38_manifests, C38_layers, C38_repo,
   C38_cross, C38_shapes) into the statements of Properties/C38.v. *)
From Coq Require Import List NArith Arith Bool Lia.
From K.Gen Require Import C38_consts.
From K.Model Require Import C38.
From K.Proof Require Import C38_engine C38_segs C38_tac C38_shapes C38_uploads C38_manifests C38_layers C38_repo C38_cross.
Import ListNotations.
Local Open Scope N_scope.

(* the pattern trees print to exactly the literals extracted from paths.go, and are in the
   fragment the printer reads back unambiguously *)
Lemma patterns_are_source : table_ok (pattern_table ast_get_repo) = true.
Proof. vm_compute. reflexivity. Qed.
Lemma roots_are_source : repository_root = v2_root ++ sl s_repositories.
Proof. reflexivity. Qed.

Ltac prep := cbn [pk_ok]; intros Hk;
  repeat match goal with H : _ && _ = true |- _ => apply andb_true_iff in H; destruct H end.

(* ---- clause 1: classification ---- *)
Theorem parse_built k : pk_ok k = true -> parse_path (build k) = o_parse (expected k).
Proof.
  destruct k; prep; unfold parse_path, match_manifests, match_layers, match_blobs.
  - rewrite mm_revisions by assumption. reflexivity.
  - rewrite mm_revision by assumption. reflexivity.
  - rewrite mm_tags by assumption. reflexivity.
  - rewrite mm_tag_current by assumption. reflexivity.
  - rewrite mm_tag_index by assumption. reflexivity.
  - rewrite mm_layer by assumption. cbn [first_cap].
    unfold match_uploads. rewrite mu_layer by assumption. cbn [first_cap].
    rewrite ml_layer by assumption. destruct data; reflexivity.
  - rewrite mm_blob by assumption. cbn [first_cap].
    unfold match_uploads. rewrite mu_blob by assumption. cbn [first_cap].
    rewrite ml_blob by assumption. cbn [first_cap].
    pose proof (mb_blob hex) as X. destruct (exec ast_match_blobs _); [reflexivity|exfalso; apply X; auto].
  - rewrite mm_upload_data by assumption. cbn [first_cap]. rewrite match_uploads_data by assumption. reflexivity.
  - rewrite mm_upload_startedat by assumption. cbn [first_cap]. rewrite match_uploads_startedat by assumption. reflexivity.
  - rewrite mm_upload_hashstates by assumption. cbn [first_cap]. rewrite match_uploads_hashstates by assumption. reflexivity.
  - rewrite mm_upload_hashstate by assumption. cbn [first_cap]. rewrite match_uploads_hashstate by assumption. reflexivity.
Qed.

(* ---- clause 2: the extractors return exactly the components ---- *)
Lemma build_repo_form k : o_repo (expected k) <> None ->
  exists r kw rest, o_repo (expected k) = Some r /\ build k = repo_dir r ++ SL :: kw ++ rest
    /\ (kw = s_manifests \/ kw = s_layers \/ kw = s_uploads)
    /\ (pk_ok k = true -> repo_ok r = true).
Proof.
  destruct k; cbn [expected o_repo no_obs]; intros Hn; try congruence;
    match goal with |- exists r kw rest, Some ?r0 = Some r /\ _ => exists r0 end.
  all: cbn [build pk_ok]; unfold sls.
  all: try (exists s_manifests; eexists; split; [reflexivity|]; split; [rewrite <- !app_assoc; cbn [app]; rewrite <- ?app_assoc; reflexivity|]; split; [auto|]; intros H; repeat (apply andb_true_iff in H as [H ?]); assumption).
  all: try (exists s_layers; eexists; split; [reflexivity|]; split; [rewrite <- !app_assoc; cbn [app]; rewrite <- ?app_assoc; reflexivity|]; split; [auto|]; intros H; repeat (apply andb_true_iff in H as [H ?]); assumption).
  all: try (exists s_uploads; eexists; split; [reflexivity|]; split; [rewrite <- !app_assoc; cbn [app]; rewrite <- ?app_assoc; reflexivity|]; split; [auto|]; intros H; repeat (apply andb_true_iff in H as [H ?]); assumption).
Qed.

Theorem repo_built k : pk_ok k = true -> get_repo (build k) = o_repo (expected k).
Proof.
  intros Hk. destruct (o_repo (expected k)) as [r0|] eqn:E.
  - destruct (build_repo_form k) as (r & kw & rest & Er & Eb & Hkw & Hr); [congruence|].
    rewrite E in Er. injection Er as ->. unfold get_repo, get_repo_with. rewrite Eb, get_repo_built by auto. reflexivity.
  - destruct k; try discriminate E. unfold get_repo, get_repo_with. rewrite repo_none by exact Hk. reflexivity.
Qed.

Theorem tag_built k : pk_ok k = true -> get_manifest_tag (build k) = o_tag (expected k).
Proof.
  intros Hk. unfold get_manifest_tag. destruct (has_tag k) eqn:E.
  - destruct k; try discriminate E; revert Hk; prep.
    + rewrite tag_current by assumption. reflexivity.
    + rewrite tag_index by assumption. cbn [expected o_tag]. do 2 f_equal.
      unfold s_index, s_current. reflexivity.
  - rewrite tag_none by assumption. destruct k; try discriminate E; reflexivity.
Qed.

Theorem blob_built k : pk_ok k = true -> get_blob_digest (build k) = o_blob (expected k).
Proof.
  intros Hk. unfold get_blob_digest, digest_of. destruct (is_blob k) eqn:E.
  - destruct k; try discriminate E. cbn [pk_ok] in Hk. rewrite blob_digest by assumption. cbn [first_cap].
    rewrite valid_hex_sha by assumption. reflexivity.
  - rewrite blob_none by assumption. destruct k; try discriminate E; reflexivity.
Qed.
Theorem layer_built k : pk_ok k = true -> get_layer_digest (build k) = o_layer (expected k).
Proof.
  intros Hk. unfold get_layer_digest, digest_of. destruct (is_layer k) eqn:E.
  - destruct k; try discriminate E. revert Hk; prep. rewrite layer_digest by assumption. cbn [first_cap].
    rewrite valid_hex_sha by assumption. reflexivity.
  - rewrite layer_none by assumption. destruct k; try discriminate E; reflexivity.
Qed.
Theorem manifest_built k : pk_ok k = true -> get_manifest_digest (build k) = o_manifest (expected k).
Proof.
  intros Hk. unfold get_manifest_digest, digest_of. destruct (has_mdigest k) eqn:E.
  - destruct k; try discriminate E; revert Hk; prep.
    + rewrite mdigest_revision by assumption. cbn [first_cap]. rewrite valid_hex_sha by assumption. reflexivity.
    + rewrite mdigest_tag_index by assumption. cbn [first_cap]. rewrite valid_hex_sha by assumption. reflexivity.
  - rewrite mdigest_none by assumption. destruct k; try discriminate E; reflexivity.
Qed.
Theorem uuid_built k : pk_ok k = true -> get_upload_uuid (build k) = o_uuid (expected k).
Proof.
  intros Hk. unfold get_upload_uuid. destruct (is_upload k) eqn:E.
  - destruct k; try discriminate E; revert Hk; prep.
    + rewrite uuid_data by assumption. reflexivity.
    + rewrite uuid_startedat by assumption. reflexivity.
    + rewrite uuid_hashstates by assumption. reflexivity.
    + rewrite uuid_hashstate by assumption. reflexivity.
  - rewrite uuid_none by assumption. destruct k; try discriminate E; reflexivity.
Qed.
Theorem algo_built k : pk_ok k = true -> get_upload_algo_offset (build k) = o_algo (expected k).
Proof.
  intros Hk. unfold get_upload_algo_offset. destruct (is_hashstate k) eqn:E.
  - destruct k; try discriminate E; revert Hk; prep. rewrite algo_hashstate by assumption. reflexivity.
  - rewrite algo_none by assumption. destruct k; try discriminate E; reflexivity.
Qed.

(* all eight functions at once *)
Theorem observe_built k : pk_ok k = true -> observe (build k) = expected k.
Proof.
  intros Hk. unfold observe, observe_with. fold get_repo.
  rewrite parse_built, repo_built, tag_built, blob_built, layer_built, manifest_built, uuid_built, algo_built by exact Hk.
  destruct k; reflexivity.
Qed.
Corollary observe_valid k : pk_valid k = true -> observe (build k) = expected k.
Proof. intros H. apply observe_built, pk_valid_ok, H. Qed.
