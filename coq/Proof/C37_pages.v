(* C37 — the S3 pagination loop (s3backend/client.go:236-300) over ANY page sequence:
   following continuation tokens delivers every key exactly once, in order. *)
From Coq Require Import List NArith Bool Lia PeanoNat.
From K.Model Require Import C37.
From K.Proof Require Import PathLib C37_base.
Import ListNotations.
Local Open Scope N_scope.

Section Pages.
  Variable name_of : str -> option str.
  Variable m : N.                       (* maxKeys used by the callback *)

  (* one call delivers a prefix of the remaining keys, whatever the page sizes and the fuel *)
  Lemma s3_call_spec : forall fuel rest zs acc names rest',
    s3_call fuel name_of m rest zs acc = (names, rest') ->
    exists consumed, rest = consumed ++ rest' /\ names = acc ++ filter_map name_of consumed.
  Proof.
    induction fuel as [|f IH]; intros rest zs acc names rest' H; cbn [s3_call] in H.
    - inversion H; subst. exists []. split; [reflexivity|]. cbn. rewrite app_nil_r. reflexivity.
    - set (z := N.to_nat match zs with [] => N.max 1 m | z0 :: _ => z0 end) in *.
      destruct (N.of_nat (length (acc ++ filter_map name_of (firstn z rest))) <? m) eqn:Hlt.
      + destruct (skipn z rest) as [|r0 rs] eqn:Hs.
        * inversion H; subst. exists rest. rewrite app_nil_r. split; [reflexivity|].
          pose proof (firstn_skipn z rest) as Hfs. rewrite Hs, app_nil_r in Hfs. rewrite Hfs. reflexivity.
        * apply IH in H. destruct H as [c [Hc Hn]]. exists (firstn z rest ++ c). split.
          -- rewrite <- app_assoc, <- Hc, <- Hs. symmetry. apply firstn_skipn.
          -- rewrite Hn, filter_map_app, app_assoc. reflexivity.
      + inversion H; subst. exists (firstn z rest). split; [symmetry; apply firstn_skipn|reflexivity].
  Qed.

  Lemma s3_call_length : forall fuel rest zs acc names rest',
    s3_call fuel name_of m rest zs acc = (names, rest') -> (length rest' <= length rest)%nat.
  Proof.
    intros fuel rest zs acc names rest' H. apply s3_call_spec in H. destruct H as [c [Hc _]].
    subst rest. rewrite app_length. lia.
  Qed.

  (* with the oracle exhausted every page holds at least one key: the call makes progress *)
  Lemma s3_call_progress : forall fuel rest acc names rest',
    rest <> [] ->
    s3_call (S fuel) name_of m rest [] acc = (names, rest') -> (length rest' < length rest)%nat.
  Proof.
    intros fuel rest acc names rest' Hne H. cbn [s3_call] in H.
    set (z := N.to_nat (N.max 1 m)) in *.
    assert (Hz : (1 <= z)%nat) by (unfold z; lia).
    assert (Hs : (length (skipn z rest) < length rest)%nat).
    { rewrite skipn_length. destruct rest; [congruence|cbn [length]; lia]. }
    destruct (N.of_nat (length (acc ++ filter_map name_of (firstn z rest))) <? m).
    - destruct (skipn z rest) as [|r0 rs] eqn:E.
      + inversion H; subst. destruct rest; [congruence|cbn; lia].
      + apply s3_call_length in H. lia.
    - inversion H; subst. exact Hs.
  Qed.

  (* the fuel given by the model is enough: more fuel does not change the result *)
  Lemma s3_call_fuel_step : forall fuel rest zs acc,
    (length zs + length rest < fuel)%nat ->
    s3_call fuel name_of m rest zs acc = s3_call (S fuel) name_of m rest zs acc.
  Proof.
    induction fuel as [|f IH]; intros rest zs acc Hb; [lia|].
    remember (S f) as sf. cbn [s3_call]. subst sf. cbn [s3_call].
    set (z := N.to_nat match zs with [] => N.max 1 m | z0 :: _ => z0 end) in *.
    destruct (N.of_nat (length (acc ++ filter_map name_of (firstn z rest))) <? m); [|reflexivity].
    destruct (skipn z rest) as [|r0 rs] eqn:E; [reflexivity|].
    apply IH.
    assert (Hl : (length (r0 :: rs) <= length rest)%nat) by (rewrite <- E, skipn_length; lia).
    destruct zs as [|z0 zs'].
    - cbn [tl length]. assert (Hz : (1 <= z)%nat) by (unfold z; lia).
      assert ((length (r0 :: rs) < length rest)%nat).
      { rewrite <- E, skipn_length. destruct rest; [destruct z; discriminate|cbn [length]; lia]. }
      cbn [length] in *. lia.
    - cbn [tl length] in *. lia.
  Qed.

  Lemma s3_call_fuel : forall f1 f2 rest zs acc,
    (length zs + length rest < f1)%nat -> (f1 <= f2)%nat ->
    s3_call f1 name_of m rest zs acc = s3_call f2 name_of m rest zs acc.
  Proof.
    intros f1 f2 rest zs acc Hb Hle. induction Hle as [|f2 Hle IH]; [reflexivity|].
    rewrite IH. apply s3_call_fuel_step. lia.
  Qed.

  (* ---- tokens: 0 = start, p+1 = continue at position p of the sorted key list *)
  Definition rest_of (ks : list str) (tok : N) : list str :=
    match tok with 0 => ks | _ => skipn (N.to_nat (tok - 1)) ks end.

  Lemma rest_of_suffix : forall pre rest,
    rest_of (pre ++ rest) (N.of_nat (length (pre ++ rest) - length rest) + 1) = rest.
  Proof.
    intros pre rest. unfold rest_of.
    destruct (N.of_nat (length (pre ++ rest) - length rest) + 1) eqn:E; [lia|]. rewrite <- E.
    replace (N.to_nat (N.of_nat (length (pre ++ rest) - length rest) + 1 - 1)) with (length pre)
      by (rewrite app_length; lia).
    apply skipn_all_app.
  Qed.

  Lemma s3_list_once_spec : forall ks tok zs names tok' pre,
    ks = pre ++ rest_of ks tok ->
    s3_list_once name_of m ks tok zs = (names, tok') ->
    exists consumed rest',
      rest_of ks tok = consumed ++ rest' /\ names = filter_map name_of consumed /\
      (rest' = [] -> tok' = 0) /\ (rest' <> [] -> tok' <> 0 /\ rest_of ks tok' = rest') /\
      (zs = [] -> rest_of ks tok <> [] -> (length rest' < length (rest_of ks tok))%nat).
  Proof.
    intros ks tok zs names tok' pre Hpre H. unfold s3_list_once in H. fold (rest_of ks tok) in H.
    set (rest := rest_of ks tok) in *.
    destruct (s3_call (length zs + length rest + 1) name_of m rest zs []) as [nm rest'] eqn:Hc.
    inversion H; subst names tok'. clear H.
    pose proof (s3_call_spec _ _ _ _ _ _ Hc) as [c [Hr Hn]]. cbn [app] in Hn.
    exists c, rest'. split; [exact Hr|]. split; [exact Hn|]. split; [|split].
    - intros ->. reflexivity.
    - intros Hne. destruct rest' as [|r0 rs] eqn:Er; [congruence|]. rewrite <- Er in *. split; [lia|].
      rewrite Hpre, Hr, app_assoc. apply rest_of_suffix.
    - intros -> Hne. cbn [length Nat.add] in Hc. rewrite Nat.add_1_r in Hc.
      eapply s3_call_progress; eassumption.
  Qed.

  (* ---- the session: a consumer following tokens receives the remaining keys, each once, in
          order, and ends with the empty token *)
  Lemma s3_session_spec : forall ks fuel zss tok pre,
    ks = pre ++ rest_of ks tok ->
    (length zss + length (rest_of ks tok) < fuel)%nat ->
    let l := s3_session fuel name_of m ks tok zss in
    last_tok l = 0 /\ concat (map fst l) = filter_map name_of (rest_of ks tok).
  Proof.
    intros ks. induction fuel as [|f IH]; intros zss tok pre Hpre Hb; [lia|].
    cbn [s3_session].
    destruct (s3_list_once name_of m ks tok (hd [] zss)) as [names tok'] eqn:Ho.
    pose proof (s3_list_once_spec _ _ _ _ _ _ Hpre Ho) as [c [rest' [Hr [Hn [H0 [H1 Hprog]]]]]].
    destruct (tok' =? 0) eqn:Et.
    - apply N.eqb_eq in Et. subst tok'. cbn. split; [reflexivity|].
      destruct rest' as [|r0 rs]; [|destruct (H1 ltac:(discriminate)) as [Hx _]; congruence].
      rewrite app_nil_r in *. subst. reflexivity.
    - apply N.eqb_neq in Et.
      assert (Hne : rest' <> []) by (intros ->; apply Et; apply H0; reflexivity).
      destruct (H1 Hne) as [_ Hrest].
      assert (Hb' : (length (tl zss) + length (rest_of ks tok') < f)%nat).
      { rewrite Hrest. destruct zss as [|zs zss'].
        - cbn [hd] in Hprog. cbn [tl length] in *.
          assert (rest_of ks tok <> []) by (rewrite Hr; destruct c; [exact Hne|discriminate]).
          specialize (Hprog eq_refl H). lia.
        - cbn [tl length] in *. rewrite Hr, app_length in Hb. lia. }
      assert (Hpre' : ks = (pre ++ c) ++ rest_of ks tok').
      { rewrite Hrest, <- app_assoc, <- Hr. exact Hpre. }
      specialize (IH (tl zss) tok' (pre ++ c) Hpre' Hb'). cbn zeta in IH. destruct IH as [IH1 IH2].
      split.
      + unfold last_tok in *. cbn [last].
        destruct (s3_session f name_of m ks tok' (tl zss)) eqn:Es; [cbn in IH1; discriminate|exact IH1].
      + cbn [map fst concat]. rewrite IH2, Hrest, Hn, Hr. symmetry. apply filter_map_app.
  Qed.

  Theorem s3_session_complete : forall ks zss fuel,
    (length zss + length ks < fuel)%nat ->
    let l := s3_session fuel name_of m ks 0 zss in
    last_tok l = 0 /\ concat (map fst l) = filter_map name_of ks.
  Proof.
    intros ks zss fuel Hb. apply (s3_session_spec ks fuel zss 0 []); [reflexivity|exact Hb].
  Qed.

  (* more calls than session_fuel are never made: the result does not depend on extra fuel *)
  Lemma s3_session_fuel_step : forall ks fuel zss tok pre,
    ks = pre ++ rest_of ks tok ->
    (length zss + length (rest_of ks tok) < fuel)%nat ->
    s3_session fuel name_of m ks tok zss = s3_session (S fuel) name_of m ks tok zss.
  Proof.
    intros ks. induction fuel as [|f IH]; intros zss tok pre Hpre Hb; [lia|].
    remember (S f) as sf. cbn [s3_session]. subst sf. cbn [s3_session].
    destruct (s3_list_once name_of m ks tok (hd [] zss)) as [names tok'] eqn:Ho.
    pose proof (s3_list_once_spec _ _ _ _ _ _ Hpre Ho) as [c [rest' [Hr [Hn [H0 [H1 Hprog]]]]]].
    destruct (tok' =? 0) eqn:Et; [reflexivity|]. f_equal.
    apply N.eqb_neq in Et.
    assert (Hne : rest' <> []) by (intros ->; apply Et; apply H0; reflexivity).
    destruct (H1 Hne) as [_ Hrest].
    apply (IH (tl zss) tok' (pre ++ c)).
    - rewrite Hrest, <- app_assoc, <- Hr. exact Hpre.
    - rewrite Hrest. destruct zss as [|zs zss'].
      + cbn [hd] in Hprog. cbn [tl length] in *.
        assert (rest_of ks tok <> []) by (rewrite Hr; destruct c; [exact Hne|discriminate]).
        specialize (Hprog eq_refl H). lia.
      + cbn [tl length] in *. rewrite Hr, app_length in Hb. lia.
  Qed.

  Lemma s3_session_fuel : forall ks zss f1 f2,
    (length zss + length ks < f1)%nat -> (f1 <= f2)%nat ->
    s3_session f1 name_of m ks 0 zss = s3_session f2 name_of m ks 0 zss.
  Proof.
    intros ks zss f1 f2 Hb Hle. induction Hle as [|f2 Hle IH]; [reflexivity|].
    rewrite IH. apply (s3_session_fuel_step ks f2 zss 0 []); [reflexivity|cbn [rest_of]; lia].
  Qed.

  (* a single call (the non-paginated List): a prefix of the keys; complete iff the token is empty *)
  Lemma s3_list_once_first : forall ks zs names tok',
    s3_list_once name_of m ks 0 zs = (names, tok') ->
    exists consumed rest', ks = consumed ++ rest' /\ names = filter_map name_of consumed /\
                           (tok' = 0 <-> rest' = []).
  Proof.
    intros ks zs names tok' H.
    pose proof (s3_list_once_spec ks 0 zs names tok' [] eq_refl H) as [c [rest' [Hr [Hn [H0 [H1 _]]]]]].
    exists c, rest'. cbn [rest_of] in Hr. split; [exact Hr|]. split; [exact Hn|]. split.
    - intros Ht. destruct rest' as [|r0 rs]; [reflexivity|]. destruct (H1 ltac:(discriminate)) as [Hx _]. congruence.
    - exact H0.
  Qed.
End Pages.
