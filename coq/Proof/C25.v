(* Proofs for C25: Sample, the cluster-client retry loops, the correspondence reconstruction. *)
From Coq Require Import List NArith ZArith Bool Lia Permutation.
From K.Gen Require Import C25_consts.
From K.Model Require Import C25.
Import ListNotations.

(* ---- reflection of the boolean predicates ------------------------------------------------ *)

Lemma memb_In : forall x l, memb x l = true <-> In x l.
Proof.
  unfold memb; intros x l; rewrite existsb_exists; split.
  - intros [y [Hy He]]; apply N.eqb_eq in He; subst; exact Hy.
  - intros Hin; exists x; split; [exact Hin | apply N.eqb_refl].
Qed.

Lemma memb_false : forall x l, memb x l = false <-> ~ In x l.
Proof.
  intros x l; split.
  - intros H Hin; apply memb_In in Hin; congruence.
  - intros H; destruct (memb x l) eqn:E; [exfalso; apply H, memb_In, E | reflexivity].
Qed.

Lemma nodupb_NoDup : forall l, nodupb l = true <-> NoDup l.
Proof.
  induction l as [|x t IH]; cbn [nodupb].
  - split; intros _; [constructor | reflexivity].
  - rewrite andb_true_iff, negb_true_iff, memb_false, IH; split.
    + intros [Hn Ht]; constructor; assumption.
    + intros Hnd; inversion Hnd; subst; split; assumption.
Qed.

Lemma subsetb_incl : forall a b, subsetb a b = true <-> incl a b.
Proof.
  unfold subsetb, incl; intros a b; rewrite forallb_forall; split; intros H x Hx.
  - apply memb_In, H, Hx.
  - apply memb_In, H, Hx.
Qed.

Lemma list_eqb_eq : forall a b, list_eqb a b = true <-> a = b.
Proof.
  induction a as [|x a IH]; destruct b as [|y b]; cbn [list_eqb]; split; intros H; try congruence; try reflexivity.
  - apply andb_true_iff in H; destruct H as [Hx Hr]; apply N.eqb_eq in Hx; apply IH in Hr; congruence.
  - inversion H; subst; rewrite N.eqb_refl; apply IH; reflexivity.
Qed.

Lemma legal_perm : forall ord s, NoDup s -> (legal ord s = true <-> Permutation ord s).
Proof.
  intros ord s Hs; unfold legal; rewrite !andb_true_iff, nodupb_NoDup, Nat.eqb_eq, subsetb_incl; split.
  - intros [[Hnd Hlen] Hinc]; apply NoDup_Permutation_bis; [exact Hnd | lia | exact Hinc].
  - intros Hp; repeat split.
    + apply Permutation_NoDup with s; [apply Permutation_sym; exact Hp | exact Hs].
    + apply Permutation_length; exact Hp.
    + intros x Hx; apply Permutation_in with ord; assumption.
Qed.

(* ---- small list facts --------------------------------------------------------------------- *)

Lemma NoDup_app_l : forall (l1 l2 : list N), NoDup (l1 ++ l2) -> NoDup l1.
Proof.
  induction l1 as [|x t IH]; intros l2 H; [constructor|].
  cbn in H; inversion H as [|? ? Hn Hr]; subst; constructor.
  - intros Hin; apply Hn; apply in_or_app; left; exact Hin.
  - apply IH with l2; exact Hr.
Qed.

Lemma NoDup_firstn : forall k (l : list N), NoDup l -> NoDup (firstn k l).
Proof.
  intros k l H; rewrite <- (firstn_skipn k l) in H; apply NoDup_app_l in H; exact H.
Qed.

Lemma firstn_In : forall k (l : list N) x, In x (firstn k l) -> In x l.
Proof.
  intros k l x H; rewrite <- (firstn_skipn k l); apply in_or_app; left; exact H.
Qed.

Lemma last_In : forall (l : list N) d, l <> [] -> In (last l d) l.
Proof.
  induction l as [|x t IH]; intros d Hne; [congruence|].
  destruct t as [|y t']; [left; reflexivity|].
  right; apply IH; congruence.
Qed.

(* ---- Sample -------------------------------------------------------------------------------- *)

Lemma sample_loop_spec : forall order n c,
  NoDup (c ++ order) ->
  sample_loop n order c = c ++ (if (n <? 0)%Z then order else firstn (Z.to_nat n) order).
Proof.
  induction order as [|x t IH]; intros n c Hnd; cbn [sample_loop].
  - rewrite firstn_nil; destruct (n <? 0)%Z; rewrite app_nil_r; reflexivity.
  - destruct (n =? 0)%Z eqn:E0.
    + apply Z.eqb_eq in E0; subst n; cbn; rewrite app_nil_r; reflexivity.
    + apply Z.eqb_neq in E0.
      assert (Hx : memb x c = false).
      { apply memb_false; intros Hin; apply NoDup_remove_2 in Hnd; apply Hnd; apply in_or_app; left; exact Hin. }
      unfold set_add; rewrite Hx.
      rewrite IH by (rewrite <- app_assoc; exact Hnd).
      rewrite <- app_assoc; cbn [app].
      destruct (n <? 0)%Z eqn:En.
      * apply Z.ltb_lt in En. assert (En' : (n - 1 <? 0)%Z = true) by (apply Z.ltb_lt; lia).
        rewrite En'; reflexivity.
      * apply Z.ltb_ge in En. assert (En' : (n - 1 <? 0)%Z = false) by (apply Z.ltb_ge; lia).
        rewrite En'. replace (Z.to_nat n) with (S (Z.to_nat (n - 1))) by lia. reflexivity.
Qed.

Lemma sample_firstn : forall n order, (0 <= n)%Z -> NoDup order -> sample n order = firstn (Z.to_nat n) order.
Proof.
  intros n order Hn Hnd; unfold sample; rewrite sample_loop_spec by exact Hnd.
  assert (E : (n <? 0)%Z = false) by (apply Z.ltb_ge; lia); rewrite E; reflexivity.
Qed.

Lemma sample_neg : forall n order, (n < 0)%Z -> NoDup order -> sample n order = order.
Proof.
  intros n order Hn Hnd; unfold sample; rewrite sample_loop_spec by exact Hnd.
  assert (E : (n <? 0)%Z = true) by (apply Z.ltb_lt; lia); rewrite E; reflexivity.
Qed.

(* the order-level statement: whatever order `range s` takes *)
Lemma sample_card_order : forall n order, (0 <= n)%Z -> NoDup order ->
  length (sample n order) = Nat.min (Z.to_nat n) (length order) /\
  NoDup (sample n order) /\ incl (sample n order) order.
Proof.
  intros n order Hn Hnd; rewrite sample_firstn by assumption; repeat split.
  - apply firstn_length.
  - apply NoDup_firstn; exact Hnd.
  - intros x; apply firstn_In.
Qed.

(* the set-level statement: s = the set, order = any iteration order of it *)
Lemma sample_card : forall s order n, NoDup s -> Permutation order s -> (0 <= n)%Z ->
  length (sample n order) = Nat.min (Z.to_nat n) (length s) /\
  NoDup (sample n order) /\ incl (sample n order) s.
Proof.
  intros s order n Hs Hp Hn.
  assert (Hnd : NoDup order) by (apply Permutation_NoDup with s; [apply Permutation_sym; exact Hp | exact Hs]).
  destruct (sample_card_order n order Hn Hnd) as [Hl [Hd Hi]]; repeat split.
  - rewrite Hl, (Permutation_length Hp); reflexivity.
  - exact Hd.
  - intros x Hx; apply Permutation_in with order; [exact Hp | apply Hi; exact Hx].
Qed.

(* negative n (not in the property's scope; covered so that no statement is true for a wrong reason) *)
Lemma sample_negative_whole : forall s order n, NoDup s -> Permutation order s -> (n < 0)%Z ->
  sample n order = order.
Proof.
  intros s order n Hs Hp Hn; apply sample_neg; [exact Hn|].
  apply Permutation_NoDup with s; [apply Permutation_sym; exact Hp | exact Hs].
Qed.

Lemma sample_nonempty : forall n order, (1 <= n)%Z -> NoDup order -> order <> [] -> sample n order <> [].
Proof.
  intros n order Hn Hnd Hne; rewrite sample_firstn by (try lia; assumption).
  destruct order as [|x t]; [congruence|].
  replace (Z.to_nat n) with (S (Z.to_nat (n - 1))) by lia; cbn; congruence.
Qed.

(* pre-fix: the whole set comes back *)
Lemma sample_prefix_whole : forall n order, sample_prefix n order = order.
Proof. reflexivity. Qed.

Lemma sample_prefix_refuted : exists n order,
  (0 <= n)%Z /\ NoDup order /\ length (sample_prefix n order) <> Nat.min (Z.to_nat n) (length order).
Proof.
  exists 3%Z, [0; 1; 2; 3]%N; repeat split.
  - lia.
  - apply nodupb_NoDup; reflexivity.
  - cbn; lia.
Qed.

(* ---- the retry loop -------------------------------------------------------------------------- *)

Lemma snoc_cons_inv : forall (a : N) cs p l, cs <> [] -> a :: cs = p ++ [l] -> exists p', p = a :: p' /\ cs = p' ++ [l].
Proof.
  intros a cs p l Hne H; destruct p as [|b p'].
  - cbn in H; inversion H; subst; congruence.
  - cbn in H; inversion H; subst; exists p'; split; reflexivity.
Qed.

(* what the loop returns: a prefix of the iteration order; every host but the last one requested
   had a retryable outcome; the error kept is the last host's; it stops early only on a
   non-retryable outcome *)
Lemma try_loop_char : forall retry oc iord e0 cs r,
  try_loop retry oc iord e0 = (cs, r) ->
  exists rest, iord = cs ++ rest /\
    (forall p l, cs = p ++ [l] -> Forall (fun a => retry (oc a) = true) p /\ r = oc l) /\
    (cs = [] -> iord = [] /\ r = e0) /\
    (rest <> [] -> retry r = false).
Proof.
  intros retry oc; induction iord as [|a t IH]; intros e0 cs r H; cbn [try_loop] in H.
  - inversion H; subst; exists []; repeat split; try reflexivity.
    + destruct p; discriminate.
    + destruct p; discriminate.
    + congruence.
  - cbv zeta in H. destruct (retry (oc a)) eqn:Er.
    + destruct (try_loop retry oc t (oc a)) as [cs' r'] eqn:Et. inversion H; subst; clear H.
      destruct (IH _ _ _ Et) as [rest [Hpre [Hlast [Hnil Hstop]]]].
      exists rest; repeat split.
      * cbn; rewrite <- Hpre; reflexivity.
      * destruct cs' as [|c cs''].
        -- destruct (Hnil eq_refl) as [_ Hr]. destruct p as [|b p']; cbn in H; inversion H; subst.
           ++ constructor.
           ++ destruct p'; discriminate.
        -- destruct (snoc_cons_inv a (c :: cs'') p l) as [p' [Hp Hc]]; [congruence | exact H |].
           subst p. constructor; [exact Er | apply (Hlast p' l Hc)].
      * destruct cs' as [|c cs''].
        -- destruct (Hnil eq_refl) as [_ Hr]. destruct p as [|b p']; cbn in H; inversion H; subst.
           ++ reflexivity.
           ++ destruct p'; discriminate.
        -- destruct (snoc_cons_inv a (c :: cs'') p l) as [p' [Hp Hc]]; [congruence | exact H |].
           apply (Hlast p' l Hc).
      * discriminate.
      * discriminate.
      * exact Hstop.
    + inversion H; subst; clear H. exists t; repeat split; try discriminate.
      * destruct p as [|b p']; cbn in H; inversion H; subst; [constructor | destruct p'; discriminate].
      * destruct p as [|b p']; cbn in H; inversion H; subst; [reflexivity | destruct p'; discriminate].
      * intros _; exact Er.
Qed.

(* the loop's result does not depend on what follows the point where it stopped *)
Lemma try_loop_prefix_stable : forall retry oc cs rest0 X e0 r,
  try_loop retry oc (cs ++ rest0) e0 = (cs, r) -> (rest0 = [] -> X = []) ->
  try_loop retry oc (cs ++ X) e0 = (cs, r).
Proof.
  intros retry oc; induction cs as [|a cs' IH]; intros rest0 X e0 r H HX.
  - cbn [app] in *. destruct rest0 as [|b t].
    + rewrite (HX eq_refl); exact H.
    + cbn [try_loop] in H; cbv zeta in H. destruct (retry (oc b)).
      * destruct (try_loop retry oc t (oc b)); discriminate.
      * discriminate.
  - cbn [app try_loop] in *; cbv zeta in *. destruct (retry (oc a)) eqn:Er.
    + destruct (try_loop retry oc (cs' ++ rest0) (oc a)) as [c1 r1] eqn:E1.
      inversion H; subst; clear H. rewrite (IH rest0 X (oc a) r E1 HX); reflexivity.
    + inversion H; subst. reflexivity.
Qed.

Lemma prefix_facts : forall (cs rest : list N) l,
  NoDup (cs ++ rest) -> incl (cs ++ rest) l -> NoDup cs /\ incl cs l /\ length cs <= length (cs ++ rest).
Proof.
  intros cs rest l Hnd Hinc; repeat split.
  - apply NoDup_app_l with rest; exact Hnd.
  - intros x Hx; apply Hinc; apply in_or_app; left; exact Hx.
  - rewrite app_length; lia.
Qed.

(* ---- do / Locations (with the fixed Sample), any retry predicate, any sample size n >= 0 ------- *)

Section Attempt.
  Variable retry : outcome -> bool.
  Variable n : Z.
  Hypothesis Hn : (0 <= n)%Z.
  Variables hosts sord iord : list N.
  Variable oc : N -> outcome.
  Hypothesis Hhosts : NoDup hosts.
  Hypothesis Hsord : Permutation sord hosts.
  Hypothesis Hiord : Permutation iord (sample n sord).

  Let o := attempt_with sample retry n sord iord oc.

  Lemma sord_nodup : NoDup sord.
  Proof. apply Permutation_NoDup with hosts; [apply Permutation_sym; exact Hsord | exact Hhosts]. Qed.

  Lemma iord_facts : NoDup iord /\ incl iord hosts /\ length iord = Nat.min (Z.to_nat n) (length hosts).
  Proof.
    destruct (sample_card hosts sord n Hhosts Hsord Hn) as [Hl [Hd Hi]]; repeat split.
    - apply Permutation_NoDup with (sample n sord); [apply Permutation_sym; exact Hiord | exact Hd].
    - intros x Hx; apply Hi; apply Permutation_in with iord; assumption.
    - rewrite (Permutation_length Hiord); exact Hl.
  Qed.

  Lemma attempt_bound :
    NoDup (contacted o) /\ incl (contacted o) hosts /\
    length (contacted o) <= Nat.min (Z.to_nat n) (length hosts).
  Proof.
    unfold o, attempt_with. destruct (sample n sord) eqn:Es.
    - cbn; repeat split; [constructor | intros x [] | lia].
    - rewrite <- Es in *. destruct (try_loop retry oc iord Ok) as [cs r] eqn:Et; cbn [contacted].
      destruct (try_loop_char _ _ _ _ _ _ Et) as [rest [Hpre _]].
      destruct iord_facts as [Hnd [Hinc Hlen]]. rewrite Hpre in Hnd, Hinc, Hlen.
      destruct (prefix_facts cs rest hosts Hnd Hinc) as [H1 [H2 H3]]. repeat split; [exact H1 | exact H2 | lia].
  Qed.

  (* an empty host list: nobody is contacted and the call fails *)
  Lemma attempt_empty : hosts = [] -> o = OReq [] false.
  Proof.
    intros He; subst hosts. apply Permutation_sym, Permutation_nil in Hsord.
    unfold o, attempt_with. replace sord with (@nil N) by (symmetry; exact Hsord).
    unfold sample; cbn. reflexivity.
  Qed.

  (* a non-empty host list and n >= 1: somebody is contacted *)
  Lemma attempt_tries : (1 <= n)%Z -> hosts <> [] -> contacted o <> [].
  Proof.
    intros H1 Hne. unfold o, attempt_with.
    assert (Hs : sample n sord <> []).
    { apply sample_nonempty; [exact H1 | exact sord_nodup |].
      intros E; rewrite E in Hsord; apply Permutation_nil in Hsord; congruence. }
    destruct (sample n sord) eqn:Es; [congruence|]. rewrite <- Es in *.
    destruct (try_loop retry oc iord Ok) as [cs r] eqn:Et; cbn [contacted].
    destruct (try_loop_char _ _ _ _ _ _ Et) as [rest [Hpre [_ [Hnil _]]]].
    intros Hc. destruct (Hnil Hc) as [Hi _]. rewrite Hi in Hiord.
    apply Permutation_nil in Hiord. congruence.
  Qed.

  (* every host but the last one contacted had a retryable outcome; the result is the last host's;
     after a retryable outcome of the last host the whole sample has been tried *)
  Lemma attempt_stops : forall p l, contacted o = p ++ [l] ->
    Forall (fun a => retry (oc a) = true) p /\
    succeeded o = negb (is_err (oc l)) /\
    (retry (oc l) = true -> length (contacted o) = Nat.min (Z.to_nat n) (length hosts)).
  Proof.
    intros p l. unfold o, attempt_with. destruct (sample n sord) eqn:Es.
    - cbn; intros H; destruct p; discriminate.
    - rewrite <- Es in *. destruct (try_loop retry oc iord Ok) as [cs r] eqn:Et; cbn [contacted succeeded].
      intros Hc. destruct (try_loop_char _ _ _ _ _ _ Et) as [rest [Hpre [Hlast [_ Hstop]]]].
      destruct (Hlast p l Hc) as [Hf Hr]. repeat split.
      + exact Hf.
      + rewrite Hr; reflexivity.
      + intros Hretry. destruct rest as [|b rest'].
        * rewrite app_nil_r in Hpre. destruct iord_facts as [_ [_ Hlen]]. rewrite <- Hpre; exact Hlen.
        * assert (Hf2 : retry r = false) by (apply Hstop; discriminate). rewrite Hr in Hf2; congruence.
  Qed.
End Attempt.

(* ---- doOnce ------------------------------------------------------------------------------------- *)

Section Once.
  Variable n : Z.
  Hypothesis Hn : (1 <= n)%Z.
  Variables hosts sord iord : list N.
  Variable oc : N -> outcome.
  Hypothesis Hhosts : NoDup hosts.
  Hypothesis Hsord : Permutation sord hosts.
  Hypothesis Hiord : Permutation iord (sample n sord).

  Let o := once_with sample n sord iord oc.

  Lemma once_exactly_one : hosts <> [] ->
    exists a, o = OReq [a] (negb (is_err (oc a))) /\ In a hosts.
  Proof.
    intros Hne. unfold o, once_with.
    assert (Hnd : NoDup sord) by (apply (sord_nodup hosts sord Hhosts Hsord)).
    assert (Hs : sample n sord <> []).
    { apply sample_nonempty; [exact Hn | exact Hnd |].
      intros E; rewrite E in Hsord; apply Permutation_nil in Hsord; congruence. }
    destruct (sample n sord) eqn:Es; [congruence|]. rewrite <- Es in *.
    exists (last iord 0%N); split; [reflexivity|].
    assert (Hi : iord <> []).
    { intros E; rewrite E in Hiord; apply Permutation_nil in Hiord; congruence. }
    assert (H0 : (0 <= n)%Z) by lia.
    destruct (iord_facts n H0 hosts sord iord Hhosts Hsord Hiord) as [_ [Hinc _]].
    apply Hinc, last_In, Hi.
  Qed.

  Lemma once_empty : hosts = [] -> o = OReq [] false.
  Proof.
    intros He; subst hosts. apply Permutation_sym, Permutation_nil in Hsord.
    unfold o, once_with. replace sord with (@nil N) by (symmetry; exact Hsord).
    unfold sample; cbn. reflexivity.
  Qed.
End Once.

(* ---- the three entry points with the sample sizes written in the source -------------------------- *)

Lemma do_size : Z.to_nat tag_do_sample_size = 3%nat. Proof. reflexivity. Qed.
Lemma loc_size : Z.to_nat blob_locations_sample_size = 3%nat. Proof. reflexivity. Qed.
Lemma once_size : Z.to_nat tag_doonce_sample_size = 1%nat. Proof. reflexivity. Qed.
Lemma do_size_pos : (1 <= tag_do_sample_size)%Z. Proof. unfold tag_do_sample_size; lia. Qed.
Lemma loc_size_pos : (1 <= blob_locations_sample_size)%Z. Proof. unfold blob_locations_sample_size; lia. Qed.
Lemma once_size_pos : (1 <= tag_doonce_sample_size)%Z. Proof. unfold tag_doonce_sample_size; lia. Qed.
Lemma size_nonneg : forall k, (0 <= sample_size k)%Z.
Proof. intros []; cbn [sample_size]; [pose proof do_size_pos | pose proof once_size_pos | pose proof loc_size_pos]; lia. Qed.

Lemma is_net_iff : forall o, is_net o = true <-> o = NetErr.
Proof. intros []; cbn; split; congruence. Qed.
Lemma is_err_iff : forall o, is_err o = true <-> o <> Ok.
Proof. intros []; cbn; split; congruence. Qed.

Lemma do_bound : forall hosts sord iord oc,
  NoDup hosts -> Permutation sord hosts -> Permutation iord (sample tag_do_sample_size sord) ->
  let cs := contacted (tag_do sord iord oc) in NoDup cs /\ incl cs hosts /\ length cs <= 3.
Proof.
  intros hosts sord iord oc Hh Hs Hi.
  assert (H0 : (0 <= tag_do_sample_size)%Z) by (pose proof do_size_pos; lia).
  destruct (attempt_bound is_net _ H0 hosts sord iord oc Hh Hs Hi) as [H1 [H2 H3]].
  rewrite do_size in H3. repeat split; [exact H1 | exact H2 | unfold tag_do; lia].
Qed.

Lemma locations_bound : forall hosts sord iord oc,
  NoDup hosts -> Permutation sord hosts -> Permutation iord (sample blob_locations_sample_size sord) ->
  let cs := contacted (blob_locations sord iord oc) in NoDup cs /\ incl cs hosts /\ length cs <= 3.
Proof.
  intros hosts sord iord oc Hh Hs Hi.
  assert (H0 : (0 <= blob_locations_sample_size)%Z) by (pose proof loc_size_pos; lia).
  destruct (attempt_bound is_err _ H0 hosts sord iord oc Hh Hs Hi) as [H1 [H2 H3]].
  rewrite loc_size in H3. repeat split; [exact H1 | exact H2 | unfold blob_locations; lia].
Qed.

Lemma do_once_exactly_one : forall hosts sord iord oc,
  NoDup hosts -> Permutation sord hosts -> Permutation iord (sample tag_doonce_sample_size sord) ->
  (hosts <> [] -> exists a, tag_do_once sord iord oc = OReq [a] (negb (is_err (oc a))) /\ In a hosts) /\
  (hosts = [] -> tag_do_once sord iord oc = OReq [] false).
Proof.
  intros hosts sord iord oc Hh Hs Hi; split.
  - apply (once_exactly_one _ once_size_pos hosts sord iord oc Hh Hs Hi).
  - apply (once_empty _ hosts sord iord oc Hh Hs).
Qed.

(* do: retries on network errors only, stops at the first other outcome, gives up after the sample *)
Lemma do_stops : forall hosts sord iord oc,
  NoDup hosts -> Permutation sord hosts -> Permutation iord (sample tag_do_sample_size sord) ->
  let o := tag_do sord iord oc in
  (hosts = [] -> o = OReq [] false) /\
  (hosts <> [] -> contacted o <> []) /\
  (forall p l, contacted o = p ++ [l] ->
     Forall (fun a => oc a = NetErr) p /\
     succeeded o = negb (is_err (oc l)) /\
     (oc l = NetErr -> length (contacted o) = Nat.min 3 (length hosts))).
Proof.
  intros hosts sord iord oc Hh Hs Hi o.
  assert (H0 : (0 <= tag_do_sample_size)%Z) by (pose proof do_size_pos; lia).
  split; [apply (attempt_empty is_net _ hosts sord iord oc Hh Hs)|].
  split; [apply (attempt_tries is_net _ hosts sord iord oc Hh Hs Hi do_size_pos)|].
  intros p l Hc.
  destruct (attempt_stops is_net _ H0 hosts sord iord oc Hh Hs Hi p l Hc) as [Hf [Hr Hx]].
  repeat split.
  - eapply Forall_impl; [|exact Hf]. intros a Ha; apply is_net_iff; exact Ha.
  - exact Hr.
  - intros Hl. rewrite <- do_size. apply Hx, is_net_iff, Hl.
Qed.

(* Locations: retries on every error, stops at the first success, gives up after the sample *)
Lemma locations_stops : forall hosts sord iord oc,
  NoDup hosts -> Permutation sord hosts -> Permutation iord (sample blob_locations_sample_size sord) ->
  let o := blob_locations sord iord oc in
  (hosts = [] -> o = OReq [] false) /\
  (hosts <> [] -> contacted o <> []) /\
  (forall p l, contacted o = p ++ [l] ->
     Forall (fun a => oc a <> Ok) p /\
     succeeded o = negb (is_err (oc l)) /\
     (oc l <> Ok -> length (contacted o) = Nat.min 3 (length hosts))).
Proof.
  intros hosts sord iord oc Hh Hs Hi o.
  assert (H0 : (0 <= blob_locations_sample_size)%Z) by (pose proof loc_size_pos; lia).
  split; [apply (attempt_empty is_err _ hosts sord iord oc Hh Hs)|].
  split; [apply (attempt_tries is_err _ hosts sord iord oc Hh Hs Hi loc_size_pos)|].
  intros p l Hc.
  destruct (attempt_stops is_err _ H0 hosts sord iord oc Hh Hs Hi p l Hc) as [Hf [Hr Hx]].
  repeat split.
  - eapply Forall_impl; [|exact Hf]. intros a Ha; apply is_err_iff; exact Ha.
  - exact Hr.
  - intros Hl. rewrite <- loc_size. apply Hx, is_err_iff, Hl.
Qed.

(* ---- the pinned code (Sample returns s) -------------------------------------------------------- *)

Lemma do_prefix_refuted : exists hosts sord iord oc,
  NoDup hosts /\ Permutation sord hosts /\ Permutation iord (sample_prefix tag_do_sample_size sord) /\
  3 < length (contacted (tag_do_prefix sord iord (oc_of oc))).
Proof.
  exists [0; 1; 2; 3]%N, [0; 1; 2; 3]%N, [0; 1; 2; 3]%N, all_net; repeat split.
  - apply nodupb_NoDup; reflexivity.
  - apply Permutation_refl.
  - apply Permutation_refl.
  - vm_compute; lia.
Qed.

Lemma locations_prefix_refuted : exists hosts sord iord oc,
  NoDup hosts /\ Permutation sord hosts /\ Permutation iord (sample_prefix blob_locations_sample_size sord) /\
  3 < length (contacted (blob_locations_prefix sord iord (oc_of oc))).
Proof.
  exists [0; 1; 2; 3]%N, [0; 1; 2; 3]%N, [0; 1; 2; 3]%N, all_500; repeat split.
  - apply nodupb_NoDup; reflexivity.
  - apply Permutation_refl.
  - apply Permutation_refl.
  - vm_compute; lia.
Qed.

(* the single-attempt clause is not affected by the defect: exactly one current host even pre-fix *)
Lemma do_once_prefix_exactly_one : forall hosts sord iord oc,
  NoDup hosts -> Permutation sord hosts -> Permutation iord (sample_prefix tag_doonce_sample_size sord) ->
  hosts <> [] -> exists a, tag_do_once_prefix sord iord oc = OReq [a] (negb (is_err (oc a))) /\ In a hosts.
Proof.
  intros hosts sord iord oc Hh Hs Hi Hne. unfold tag_do_once_prefix, once_with.
  rewrite sample_prefix_whole in *.
  destruct sord as [|x t] eqn:Es.
  - apply Permutation_nil in Hs; congruence.
  - rewrite <- Es in *. exists (last iord 0%N); split; [reflexivity|].
    apply Permutation_in with sord; [exact Hs|]. apply Permutation_in with iord; [exact Hi|].
    apply last_In. intros E; rewrite E in Hi; apply Permutation_nil in Hi; congruence.
Qed.

(* ---- the correspondence's oracle reconstruction -------------------------------------------------- *)

Lemma NoDup_app_intro : forall (a b : list N),
  NoDup a -> NoDup b -> (forall x, In x a -> ~ In x b) -> NoDup (a ++ b).
Proof.
  induction a as [|x t IH]; intros b Ha Hb Hd; [exact Hb|].
  inversion Ha as [|? ? Hn Ht]; subst. cbn; constructor.
  - intros Hin; apply in_app_or in Hin; destruct Hin as [Hin|Hin]; [exact (Hn Hin)|].
    apply (Hd x); [left; reflexivity | exact Hin].
  - apply IH; [exact Ht | exact Hb |]. intros y Hy; apply Hd; right; exact Hy.
Qed.

Lemma filter_notin_nil : forall seen s, incl s seen -> filter (fun x => negb (memb x seen)) s = [].
Proof.
  induction s as [|a t IH]; intros Hinc; [reflexivity|]. cbn [filter].
  assert (Ha : memb a seen = true) by (apply memb_In, Hinc; left; reflexivity).
  rewrite Ha; cbn. apply IH. intros x Hx; apply Hinc; right; exact Hx.
Qed.

Lemma recon_perm : forall seen s, NoDup seen -> NoDup s -> incl seen s -> Permutation (recon seen s) s.
Proof.
  intros seen s Hseen Hs Hinc. apply NoDup_Permutation.
  - unfold recon. apply NoDup_app_intro; [exact Hseen | apply NoDup_filter; exact Hs |].
    intros x Hx Hf. apply filter_In in Hf. destruct Hf as [_ Hf].
    apply negb_true_iff, memb_false in Hf. exact (Hf Hx).
  - exact Hs.
  - intros x. unfold recon. rewrite in_app_iff, filter_In, negb_true_iff, memb_false. split.
    + intros [H1|[H1 _]]; [apply Hinc; exact H1 | exact H1].
    + intros Hx. destruct (memb x seen) eqn:E.
      * left; apply memb_In; exact E.
      * right; split; [exact Hx | apply memb_false; exact E].
Qed.

Lemma recon_legal : forall seen s, NoDup seen -> NoDup s -> incl seen s -> legal (recon seen s) s = true.
Proof. intros seen s H1 H2 H3. apply legal_perm; [exact H2 | apply recon_perm; assumption]. Qed.

(* the first k elements of the reconstructed order: what was seen, then (only if what was seen is
   shorter than a full sample) something else *)
Lemma recon_firstn : forall k seen s, NoDup seen -> NoDup s -> incl seen s -> length seen <= k ->
  exists X, firstn k (recon seen s) = seen ++ X /\ (length seen = Nat.min k (length s) -> X = []).
Proof.
  intros k seen s Hseen Hs Hinc Hle.
  pose proof (Permutation_length (recon_perm seen s Hseen Hs Hinc)) as Hlen.
  unfold recon in *. rewrite app_length in Hlen. rewrite firstn_app.
  rewrite (firstn_all2 seen) by exact Hle.
  eexists; split; [reflexivity|]. intros Heq.
  destruct (Nat.le_ge_cases k (length s)) as [Hk|Hk].
  - rewrite Nat.min_l in Heq by exact Hk. replace (k - length seen) with 0 by lia. reflexivity.
  - rewrite Nat.min_r in Heq by exact Hk.
    assert (Hz : length (filter (fun x => negb (memb x seen)) s) = 0) by lia.
    apply length_zero_iff_nil in Hz. rewrite Hz. apply firstn_nil.
Qed.

Lemma sample_recon : forall n seen s, (0 <= n)%Z -> NoDup seen -> NoDup s -> incl seen s ->
  length seen = Nat.min (Z.to_nat n) (length s) -> sample n (recon seen s) = seen.
Proof.
  intros n seen s Hn Hseen Hs Hinc Hlen.
  assert (Hnd : NoDup (recon seen s)).
  { apply Permutation_NoDup with s; [apply Permutation_sym, recon_perm; assumption | exact Hs]. }
  rewrite sample_firstn by assumption.
  destruct (recon_firstn (Z.to_nat n) seen s Hseen Hs Hinc) as [X [HX Hnil]]; [lia|].
  rewrite HX, (Hnil Hlen), app_nil_r. reflexivity.
Qed.

Lemma output_eqb_refl : forall o, output_eqb o o = true.
Proof.
  intros [r|c k]; cbn.
  - apply list_eqb_eq; reflexivity.
  - apply andb_true_iff; split; [apply list_eqb_eq; reflexivity | apply eqb_reflx].
Qed.

Lemma agrees_sample : forall s n sord, NoDup s -> Permutation sord s ->
  agrees (ISample s n) (OSample (sample n sord)) = true.
Proof.
  intros s n sord Hs Hp.
  assert (Hnd : NoDup sord) by (apply (sord_nodup s sord Hs Hp)).
  unfold agrees, agrees_with; cbn [seen_of set_of run].
  destruct (Z.ltb_spec n 0) as [Hneg|Hpos].
  - rewrite (sample_neg n sord Hneg Hnd).
    assert (Hr : recon sord s = sord).
    { unfold recon. rewrite filter_notin_nil, app_nil_r; [reflexivity|].
      intros x Hx; apply Permutation_in with s; [apply Permutation_sym; exact Hp | exact Hx]. }
    rewrite Hr, (sample_neg n sord Hneg Hnd), output_eqb_refl, andb_true_r.
    apply legal_perm; assumption.
  - destruct (sample_card s sord n Hs Hp Hpos) as [Hl [Hd Hi]].
    rewrite (recon_legal _ _ Hd Hs Hi), (sample_recon n _ s Hpos Hd Hs Hi Hl).
    apply output_eqb_refl.
Qed.

Lemma agrees_attempt : forall k retry hosts ocl sord iord,
  (forall s i, run (IReq k hosts ocl) s i = attempt_with sample retry (sample_size k) s i (oc_of ocl)) ->
  NoDup hosts -> Permutation sord hosts -> Permutation iord (sample (sample_size k) sord) ->
  agrees (IReq k hosts ocl) (run (IReq k hosts ocl) sord iord) = true.
Proof.
  intros k retry hosts ocl sord iord Hrun Hh Hs Hi.
  pose proof (size_nonneg k) as H0. set (n := sample_size k) in *.
  destruct (attempt_bound retry n H0 hosts sord iord (oc_of ocl) Hh Hs Hi) as [Hnd [Hinc Hlen]].
  destruct (iord_facts n H0 hosts sord iord Hh Hs Hi) as [_ [_ Hilen]].
  destruct (sample_card hosts sord n Hh Hs H0) as [Hsl _].
  unfold agrees, agrees_with. rewrite !Hrun. cbn [set_of]. fold n.
  remember (attempt_with sample retry n sord iord (oc_of ocl)) as o eqn:Ho.
  assert (Hseen : seen_of o = contacted o).
  { rewrite Ho; unfold attempt_with; destruct (sample n sord);
      [reflexivity | destruct (try_loop retry (oc_of ocl) iord Ok); reflexivity]. }
  rewrite Hseen.
  rewrite (recon_legal _ _ Hnd Hh Hinc). cbn [andb].
  assert (Hp' : Permutation (recon (contacted o) hosts) hosts) by (apply recon_perm; assumption).
  destruct (sample_card hosts _ n Hh Hp' H0) as [Hsl' _].
  assert (Hnd' : NoDup (recon (contacted o) hosts)) by (apply (sord_nodup hosts _ Hh Hp')).
  unfold attempt_with in Ho |- *.
  destruct (sample n sord) as [|x0 t0] eqn:Es.
  - (* no host: the reconstructed sample is empty as well *)
    destruct (sample n (recon (contacted o) hosts)) as [|y0 u0] eqn:Es'.
    + subst o; apply output_eqb_refl.
    + cbn [length] in Hsl, Hsl'. lia.
  - rewrite <- Es in *.
    destruct (sample n (recon (contacted o) hosts)) as [|y0 u0] eqn:Es'.
    { rewrite Es in Hsl. cbn [length] in Hsl, Hsl'. lia. }
    rewrite <- Es'.
    destruct (try_loop retry (oc_of ocl) iord Ok) as [cs r] eqn:Et.
    assert (Hc : contacted o = cs) by (rewrite Ho; reflexivity).
    rewrite Hc in *.
    destruct (try_loop_char _ _ _ _ _ _ Et) as [rest0 [Hpre _]].
    rewrite sample_firstn by assumption.
    destruct (recon_firstn (Z.to_nat n) cs hosts Hnd Hh Hinc) as [X [HX Hnil]]; [lia|].
    rewrite HX. rewrite Hpre in Et.
    rewrite (try_loop_prefix_stable retry (oc_of ocl) cs rest0 X Ok r Et).
    + rewrite Ho; apply output_eqb_refl.
    + intros Hr0. apply Hnil. rewrite Hr0, app_nil_r in Hpre. rewrite <- Hpre. exact Hilen.
Qed.

Lemma agrees_once : forall hosts ocl sord iord,
  NoDup hosts -> Permutation sord hosts -> Permutation iord (sample tag_doonce_sample_size sord) ->
  agrees (IReq KOnce hosts ocl) (tag_do_once sord iord (oc_of ocl)) = true.
Proof.
  intros hosts ocl sord iord Hh Hs Hi.
  assert (H0 : (0 <= tag_doonce_sample_size)%Z) by (pose proof once_size_pos; lia).
  destruct (do_once_exactly_one hosts sord iord (oc_of ocl) Hh Hs Hi) as [Hne He].
  unfold agrees, agrees_with; cbn [set_of run sample_size].
  destruct hosts as [|h0 ht] eqn:Eh.
  - rewrite (He eq_refl). vm_compute. reflexivity.
  - rewrite <- Eh in *. destruct Hne as [a [Ho Ha]]; [congruence|]. rewrite Ho; cbn [seen_of].
    assert (Hnd1 : NoDup [a]) by (constructor; [intros [] | constructor]).
    assert (Hinc1 : incl [a] hosts) by (intros x [Hx|[]]; subst; exact Ha).
    rewrite (recon_legal _ _ Hnd1 Hh Hinc1). cbn [andb].
    assert (Hl : length [a] = Nat.min (Z.to_nat tag_doonce_sample_size) (length hosts)).
    { rewrite once_size, Eh; reflexivity. }
    rewrite (sample_recon _ [a] hosts H0 Hnd1 Hh Hinc1 Hl).
    unfold tag_do_once, once_with.
    rewrite (sample_recon _ [a] hosts H0 Hnd1 Hh Hinc1 Hl). cbn [last].
    apply output_eqb_refl.
Qed.

(* whatever order the maps were iterated in, the reconstruction reproduces the model's observables:
   the correspondence check cannot alarm because of map order *)
Lemma recon_complete : forall i sord iord, oracles_ok i sord iord -> agrees i (run i sord iord) = true.
Proof.
  intros i sord iord [Hs [Hp Hi]]. destruct i as [s n | k hosts ocl]; cbn [set_of] in *.
  - apply agrees_sample; assumption.
  - destruct k.
    + apply (agrees_attempt KDo is_net); try assumption. reflexivity.
    + apply agrees_once; assumption.
    + apply (agrees_attempt KLoc is_err); try assumption. reflexivity.
Qed.

(* ---- the property oracle on the model's observables ---------------------------------------------- *)

Lemma attempt_is_req : forall smp retry n sord iord oc,
  exists cs ok, attempt_with smp retry n sord iord oc = OReq cs ok.
Proof.
  intros; unfold attempt_with. destruct (smp n sord); [eexists; eexists; reflexivity|].
  destruct (try_loop retry oc iord Ok); eexists; eexists; reflexivity.
Qed.

Lemma check_sound : forall i sord iord, oracles_ok i sord iord -> C25_check i (run i sord iord) = true.
Proof.
  intros i sord iord [Hs [Hp Hi]]. destruct i as [s n | k hosts ocl]; cbn [set_of] in *.
  - cbn [run C25_check]. destruct (Z.ltb_spec n 0) as [Hneg|Hpos]; [reflexivity|].
    destruct (sample_card s sord n Hs Hp Hpos) as [Hl [Hd Hinc]].
    rewrite !andb_true_iff, Nat.eqb_eq, nodupb_NoDup, subsetb_incl. repeat split; assumption.
  - destruct k; cbn [run C25_check sample_size] in *.
    + destruct (do_bound hosts sord iord (oc_of ocl) Hs Hp Hi) as [H1 [H2 H3]].
      destruct (attempt_is_req sample is_net tag_do_sample_size sord iord (oc_of ocl)) as [cs [ok E]].
      unfold tag_do in *. rewrite E in *. cbn [contacted] in *.
      rewrite !andb_true_iff, nodupb_NoDup, subsetb_incl, Nat.leb_le. repeat split; assumption.
    + destruct (do_once_exactly_one hosts sord iord (oc_of ocl) Hs Hp Hi) as [Hne He].
      destruct hosts as [|h0 ht] eqn:Eh.
      * rewrite (He eq_refl). reflexivity.
      * rewrite <- Eh in *. destruct Hne as [a [Ho Ha]]; [congruence|]. rewrite Ho.
        rewrite andb_true_iff, subsetb_incl. split; [|reflexivity].
        intros x [Hx|[]]; subst x; exact Ha.
    + destruct (locations_bound hosts sord iord (oc_of ocl) Hs Hp Hi) as [H1 [H2 H3]].
      destruct (attempt_is_req sample is_err blob_locations_sample_size sord iord (oc_of ocl)) as [cs [ok E]].
      unfold blob_locations in *. rewrite E in *. cbn [contacted] in *.
      rewrite !andb_true_iff, nodupb_NoDup, subsetb_incl, Nat.leb_le. repeat split; assumption.
Qed.

Lemma output_eqb_eq : forall a b, output_eqb a b = true -> a = b.
Proof.
  intros [r1|c1 k1] [r2|c2 k2]; cbn; intros H; try discriminate.
  - apply list_eqb_eq in H; congruence.
  - apply andb_true_iff in H; destruct H as [H1 H2]. apply list_eqb_eq in H1. apply eqb_prop in H2. congruence.
Qed.

(* an observation the correspondence accepts satisfies the property: no-mismatch implies no-violation *)
Lemma agrees_implies_check : forall i o, NoDup (set_of i) -> agrees i o = true -> C25_check i o = true.
Proof.
  intros i o Hs Ha. unfold agrees, agrees_with in Ha. apply andb_true_iff in Ha. destruct Ha as [Hl He].
  apply output_eqb_eq in He. rewrite <- He. apply check_sound.
  split; [exact Hs|]. split; [apply legal_perm; assumption|].
  destruct i; [exact I | apply Permutation_refl].
Qed.
