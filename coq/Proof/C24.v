(* Proofs for C24: the passiveFilter model follows the failure-window rule. *)
From Coq Require Import List NArith ZArith Bool Lia Sorting.Sorted.
From K.Model Require Import C24.
Import ListNotations.
Local Open Scope Z_scope.

(* ------------------------------------------------------------------ association lists *)
Section MapFacts.
  Context {A : Type}.
  Implicit Types m : list (N * A).

  Definition keys m : list N := map fst m.

  Lemma get_notin : forall m k, ~ In k (keys m) -> get k m = None.
  Proof.
    induction m as [|[k' v] r IH]; intros k Hn; cbn in *; [reflexivity|].
    destruct (N.eqb_spec k k') as [->|Hne]; [exfalso; auto|]. apply IH. tauto.
  Qed.

  Lemma keys_filter : forall (P : N * A -> bool) m k, In k (keys (filter P m)) -> In k (keys m).
  Proof.
    intros P m k H. unfold keys in *. apply in_map_iff in H as [e [He Hin]].
    apply filter_In in Hin as [Hin _]. apply in_map_iff. eauto.
  Qed.

  Lemma nodup_filter : forall (P : N * A -> bool) m, NoDup (keys m) -> NoDup (keys (filter P m)).
  Proof.
    induction m as [|[k v] r IH]; intros Hnd; cbn in *; [constructor|].
    inversion Hnd as [|? ? Hnin Hnd']; subst.
    destruct (P (k, v)); cbn; [constructor|]; auto.
    intro Hin. apply Hnin. eapply keys_filter; eauto.
  Qed.

  Lemma get_filter : forall (P : N * A -> bool) m k, NoDup (keys m) ->
    get k (filter P m) = match get k m with
                         | Some v => if P (k, v) then Some v else None
                         | None => None
                         end.
  Proof.
    induction m as [|[k' v] r IH]; intros k Hnd; cbn in *; [reflexivity|].
    inversion Hnd as [|? ? Hnin Hnd']; subst.
    destruct (N.eqb_spec k k') as [->|Hne].
    - destruct (P (k', v)) eqn:HP; cbn.
      + rewrite N.eqb_refl. reflexivity.
      + apply get_notin. intro Hin. apply Hnin. eapply keys_filter; eauto.
    - destruct (P (k', v)) eqn:HP; cbn.
      + destruct (N.eqb_spec k k'); [contradiction|]. apply IH; assumption.
      + apply IH; assumption.
  Qed.

  Lemma get_del_other : forall m k k', k <> k' -> get k (del k' m) = get k m.
  Proof.
    induction m as [|[k0 v] r IH]; intros k k' Hne; cbn; [reflexivity|].
    destruct (N.eqb_spec k' k0) as [->|Hne']; cbn.
    - destruct (N.eqb_spec k k0); [contradiction|]. apply IH; assumption.
    - destruct (N.eqb_spec k k0); [reflexivity|]. apply IH; assumption.
  Qed.

  Lemma notin_del : forall m k, ~ In k (keys (del k m)).
  Proof.
    intros m k H. unfold keys, del in H. apply in_map_iff in H as [[k0 v] [He Hin]].
    apply filter_In in Hin as [_ Hb]. cbn in *. subst k0. rewrite N.eqb_refl in Hb. discriminate.
  Qed.

  Lemma get_put_same : forall m k v, get k (put k v m) = Some v.
  Proof. intros. unfold put. cbn. rewrite N.eqb_refl. reflexivity. Qed.

  Lemma get_put_other : forall m k k' v, k <> k' -> get k (put k' v m) = get k m.
  Proof.
    intros m k k' v Hne. unfold put. cbn. destruct (N.eqb_spec k k'); [contradiction|].
    apply get_del_other; assumption.
  Qed.

  Lemma nodup_put : forall m k v, NoDup (keys m) -> NoDup (keys (put k v m)).
  Proof.
    intros m k v Hnd. unfold put. cbn. constructor.
    - apply notin_del.
    - apply nodup_filter; assumption.
  Qed.
End MapFacts.

(* ------------------------------------------------------------------ lists of times *)
Lemma filter_all : forall (A : Type) (P : A -> bool) l, Forall (fun x => P x = true) l -> filter P l = l.
Proof.
  induction l as [|a r IH]; intros H; cbn; [reflexivity|].
  inversion H; subst. rewrite H2. f_equal. auto.
Qed.

Lemma lenZ_app : forall (A : Type) (a b : list A), lenZ (a ++ b) = lenZ a + lenZ b.
Proof. intros. unfold lenZ. rewrite app_length. lia. Qed.

Lemma lenZ_nonneg : forall (A : Type) (a : list A), 0 <= lenZ a.
Proof. intros. unfold lenZ. lia. Qed.

(* popping expired failures off the front of a time-ordered list leaves exactly the live ones *)
Lemma prune_filter : forall ft nw tl l,
  StronglySorted Z.le l -> tl <= nw ->
  prune ft nw (filter (fun t' => tl - t' <=? ft) l) = filter (fun t' => nw - t' <=? ft) l.
Proof.
  intros ft nw tl l Hs Hle. induction l as [|a r IH]; cbn; [reflexivity|].
  apply StronglySorted_inv in Hs as [Hs Hall].
  destruct (Z.leb_spec (tl - a) ft) as [H1|H1].
  - cbn. destruct (Z.ltb_spec ft (nw - a)) as [H2|H2].
    + destruct (Z.leb_spec (nw - a) ft); [lia|]. apply IH; assumption.
    + destruct (Z.leb_spec (nw - a) ft); [|lia]. f_equal.
      rewrite !filter_all; [reflexivity| |].
      * eapply Forall_impl; [|exact Hall]. cbn. intros x Hx. apply Z.leb_le. lia.
      * eapply Forall_impl; [|exact Hall]. cbn. intros x Hx. apply Z.leb_le. lia.
  - destruct (Z.leb_spec (nw - a) ft); [lia|]. apply IH; assumption.
Qed.

Lemma sorted_snoc : forall l x, StronglySorted Z.le l -> Forall (fun t => t <= x) l ->
  StronglySorted Z.le (l ++ [x]).
Proof.
  induction l as [|a r IH]; intros x Hs Hall; cbn.
  - constructor; constructor.
  - apply StronglySorted_inv in Hs as [Hs Har]. inversion Hall; subst.
    constructor; [apply IH; assumption|].
    apply Forall_app. split; [assumption|]. constructor; [assumption|constructor].
Qed.

Lemma times_snoc : forall h h' t log,
  times h (log ++ [(h', t)]) = if N.eqb h h' then times h log ++ [t] else times h log.
Proof.
  intros. unfold times. rewrite filter_app, map_app. cbn.
  destruct (N.eqb h h'); cbn; [reflexivity|apply app_nil_r].
Qed.

Lemma times_In : forall h t log, In t (times h log) <-> In (h, t) log.
Proof.
  intros. unfold times. rewrite in_map_iff. split.
  - intros [[h' t'] [He Hin]]. cbn in He. subst t'. apply filter_In in Hin as [Hin Hb].
    cbn in Hb. apply N.eqb_eq in Hb. subst. assumption.
  - intros Hin. exists (h, t). split; [reflexivity|]. apply filter_In. split; [assumption|].
    cbn. apply N.eqb_refl.
Qed.

(* ------------------------------------------------------------------ the rule, in words *)

(* "at least Fails of its recorded failures fall within FailTimeout of some failure that
   happened no more than FailTimeout ago" *)
Definition filtered_prop (c : config) (ts : list Z) (nw : Z) : Prop :=
  exists t, In t ts /\ 0 <= nw - t <= c_timeout c /\
            c_fails c <= lenZ (filter (fun t' => (t' <=? t) && (t - t' <=? c_timeout c)) ts).

Lemma filtered_spec_iff : forall c ts nw, filtered_spec c ts nw = true <-> filtered_prop c ts nw.
Proof.
  intros c ts nw. unfold filtered_spec, filtered_prop. rewrite existsb_exists. split.
  - intros [t [Hin Hb]]. exists t. apply andb_prop in Hb as [Hr Ht]. unfold recent in Hr.
    apply andb_prop in Hr as [Hr1 Hr2]. apply Z.leb_le in Hr1, Hr2. unfold trips, near in Ht.
    apply Z.leb_le in Ht. repeat split; try assumption; lia.
  - intros [t [Hin [Hr Ht]]]. exists t. split; [assumption|]. apply andb_true_intro. split.
    + unfold recent. apply andb_true_intro. split; apply Z.leb_le; lia.
    + unfold trips, near. apply Z.leb_le. assumption.
Qed.

Lemma trips_snoc_old : forall c ts x t, t < x -> trips c (ts ++ [x]) t = trips c ts t.
Proof.
  intros c ts x t Hlt. unfold trips. rewrite filter_app. cbn. unfold near at 2.
  destruct (Z.leb_spec x t); [lia|]. cbn. rewrite app_nil_r. reflexivity.
Qed.

Lemma trips_snoc_mono : forall c ts x t, trips c ts t = true -> trips c (ts ++ [x]) t = true.
Proof.
  intros c ts x t H. unfold trips in *. apply Z.leb_le in H. apply Z.leb_le.
  rewrite filter_app, lenZ_app. pose proof (lenZ_nonneg _ (filter (near (c_timeout c) t) [x])). lia.
Qed.

(* ------------------------------------------------------------------ the invariant *)

(* what the model's state for host h means in terms of the timeline x *)
Definition host_inv (c : config) (s : st) (x : timeline) (h : N) : Prop :=
  let ts := times h (t_log x) in
  Forall (fun t => t <= now s) ts /\
  (forall t, get h (unhealthy s) = Some t -> t <= now s) /\
  (0 <= c_timeout c ->
     StronglySorted Z.le ts /\
     (exists tl, tl <= now s /\ Forall (fun t => t <= tl) ts /\
                 failures_of h s = filter (fun t' => tl - t' <=? c_timeout c) ts) /\
     match get h (unhealthy s) with
     | Some t => In t ts /\ trips c ts t = true /\
                 (forall t2, In t2 ts -> trips c ts t2 = true -> t2 <= t)
     | None => forall t2, In t2 ts -> trips c ts t2 = true -> c_timeout c < now s - t2
     end).

Definition inv (c : config) (s : st) (x : timeline) : Prop :=
  now s = t_now x /\ NoDup (keys (unhealthy s)) /\ forall h, host_inv c s x h.

Lemma inv_init : forall c, inv c init tl_init.
Proof.
  intros c. split; [reflexivity|]. split; [constructor|]. intros h. unfold host_inv. cbn.
  split; [constructor|]. split; [discriminate|]. intros _.
  split; [constructor|]. split; [|intros ? []].
  exists 0. split; [lia|]. split; [constructor|reflexivity].
Qed.

Definition op_ok (o : op) : Prop := match o with Tick d => 0 <= d | _ => True end.

Lemma monotone_cons : forall o ops, monotone (o :: ops) = true -> op_ok o /\ monotone ops = true.
Proof.
  intros o ops H. unfold monotone in H. cbn in H. apply andb_prop in H as [H1 H2]. split; [|exact H2].
  destruct o; cbn; try exact I. apply Z.leb_le. exact H1.
Qed.

(* ---- a clock advance *)
Lemma inv_tick : forall c s x d, inv c s x -> 0 <= d ->
  inv c (mk (now s + d) (unhealthy s) (failures s)) (mktl (t_now x + d) (t_log x)).
Proof.
  intros c s x d [Hnow [Hnd Hh]] Hd. split; [cbn; lia|]. split; [exact Hnd|].
  intros h. destruct (Hh h) as [Hle [Hu Hft]]. unfold host_inv in *. cbn [now unhealthy failures t_log t_now] in *.
  split; [eapply Forall_impl; [|exact Hle]; cbn; intros; lia|].
  split; [intros t Ht; specialize (Hu t Ht); lia|].
  intros Hft0. destruct (Hft Hft0) as [Hs [[tl [Htl [Hall Hf]]] Hm]].
  split; [exact Hs|]. split.
  - exists tl. split; [lia|]. split; [exact Hall|exact Hf].
  - destruct (get h (unhealthy s)); [exact Hm|].
    intros t2 Hin Ht. specialize (Hm t2 Hin Ht). lia.
Qed.

(* ---- Run: dropping the expired entries *)
Definition expire (c : config) (s : st) : st :=
  mk (now s) (filter (fun e => negb (expired c (now s) (snd e))) (unhealthy s)) (failures s).

Lemma inv_expire : forall c s x, inv c s x -> inv c (expire c s) x.
Proof.
  intros c s x [Hnow [Hnd Hh]]. split; [exact Hnow|]. split; [apply nodup_filter; exact Hnd|].
  intros h. destruct (Hh h) as [Hle [Hu Hft]]. unfold host_inv, expire, failures_of in *.
  cbn [now unhealthy failures] in *.
  rewrite (get_filter _ _ _ Hnd). cbn [snd].
  split; [exact Hle|]. split.
  - intros t Ht. destruct (get h (unhealthy s)) as [t0|]; [|discriminate].
    destruct (negb (expired c (now s) t0)); [|discriminate]. inversion Ht; subst. auto.
  - intros Hft0. destruct (Hft Hft0) as [Hs [Hf Hm]]. split; [exact Hs|]. split; [exact Hf|].
    destruct (get h (unhealthy s)) as [t0|]; [|exact Hm].
    destruct (expired c (now s) t0) eqn:He; cbn; [|exact Hm].
    destruct Hm as [_ [_ Hmax]]. intros t2 Hin Ht. specialize (Hmax t2 Hin Ht).
    unfold expired in He. apply Z.ltb_lt in He. lia.
Qed.

(* ---- Failed *)
Lemma inv_failed : forall c s x h0, inv c s x ->
  inv c (failed c s h0) (mktl (t_now x) (t_log x ++ [(h0, t_now x)])).
Proof.
  intros c s x h0 [Hnow [Hnd Hh]]. split; [exact Hnow|]. split.
  { unfold failed. cbn [unhealthy]. destruct (c_fails c <=? _); [apply nodup_put|]; exact Hnd. }
  intros h. destruct (Hh h) as [Hle [Hu Hft]]. unfold host_inv in *.
  cbn [t_log t_now]. rewrite times_snoc. rewrite <- Hnow.
  destruct (N.eqb_spec h h0) as [->|Hne].
  - (* the host that failed *)
    set (ts := times h0 (t_log x)) in *.
    set (fs := prune (c_timeout c) (now s) (failures_of h0 s) ++ [now s]).
    assert (Hnowf : now (failed c s h0) = now s) by reflexivity.
    assert (Hfo : failures_of h0 (failed c s h0) = fs).
    { unfold failures_of, failed. cbn [failures]. rewrite get_put_same. reflexivity. }
    assert (Hget : get h0 (unhealthy (failed c s h0)) =
                   if c_fails c <=? lenZ fs then Some (now s) else get h0 (unhealthy s)).
    { unfold failed. cbn [unhealthy]. fold fs. destruct (c_fails c <=? lenZ fs); [apply get_put_same|reflexivity]. }
    rewrite Hnowf, Hfo, Hget.
    assert (Hle' : Forall (fun t => t <= now s) (ts ++ [now s])).
    { apply Forall_app. split; [exact Hle|]. constructor; [lia|constructor]. }
    split; [exact Hle'|]. split.
    { intros t Ht. destruct (c_fails c <=? lenZ fs); [inversion Ht; lia|auto]. }
    intros Hft0. destruct (Hft Hft0) as [Hs [[tl [Htl [Hall Hf]]] Hm]].
    assert (Hfs : fs = filter (fun t' => now s - t' <=? c_timeout c) (ts ++ [now s])).
    { unfold fs. rewrite Hf, (prune_filter _ _ _ _ Hs Htl), filter_app. cbn.
      destruct (Z.leb_spec (now s - now s) (c_timeout c)); [reflexivity|lia]. }
    assert (Hcond : (c_fails c <=? lenZ fs) = trips c (ts ++ [now s]) (now s)).
    { unfold trips. rewrite Hfs. f_equal. f_equal. apply filter_ext_in. intros a Ha.
      unfold near. rewrite Forall_forall in Hle'. specialize (Hle' a Ha). cbn in Hle'.
      destruct (Z.leb_spec a (now s)); [reflexivity|lia]. }
    split; [apply sorted_snoc; assumption|]. split.
    { exists (now s). split; [lia|]. split; [exact Hle'|exact Hfs]. }
    rewrite Hcond. destruct (trips c (ts ++ [now s]) (now s)) eqn:Htrip.
    + split; [apply in_or_app; right; left; reflexivity|]. split; [exact Htrip|].
      intros t2 Hin _. rewrite Forall_forall in Hle'. apply (Hle' t2 Hin).
    + assert (Hold : forall t2, In t2 (ts ++ [now s]) -> trips c (ts ++ [now s]) t2 = true ->
                                In t2 ts /\ trips c ts t2 = true).
      { intros t2 Hin Ht.
        assert (Hlt : t2 < now s).
        { rewrite Forall_forall in Hle'. specialize (Hle' t2 Hin). cbn in Hle'.
          destruct (Z.eq_dec t2 (now s)) as [->|]; [congruence|lia]. }
        split.
        - apply in_app_or in Hin as [Hin|[Hin|[]]]; [exact Hin|lia].
        - rewrite trips_snoc_old in Ht; assumption. }
      destruct (get h0 (unhealthy s)) as [t0|].
      * destruct Hm as [Hin0 [Ht0 Hmax]]. split; [apply in_or_app; left; exact Hin0|].
        split; [apply trips_snoc_mono; exact Ht0|].
        intros t2 Hin Ht. destruct (Hold t2 Hin Ht). auto.
      * intros t2 Hin Ht. destruct (Hold t2 Hin Ht). auto.
  - (* every other host is untouched *)
    assert (Hfo : failures_of h (failed c s h0) = failures_of h s).
    { unfold failures_of, failed. cbn [failures]. rewrite get_put_other by assumption. reflexivity. }
    assert (Hget : get h (unhealthy (failed c s h0)) = get h (unhealthy s)).
    { unfold failed. cbn [unhealthy]. destruct (c_fails c <=? _); [apply get_put_other; assumption|reflexivity]. }
    assert (Hnowf : now (failed c s h0) = now s) by reflexivity.
    rewrite Hfo, Hget, Hnowf. split; [exact Hle|]. split; [exact Hu|exact Hft].
Qed.

(* ---- one step *)
Lemma run_filter_state : forall c s addrs, fst (run_filter c s addrs) = expire c s.
Proof. reflexivity. Qed.

Lemma step_state : forall c s o,
  fst (step c s o) = match o with
                     | Failed _ h => failed c s h
                     | Tick d => mk (now s + d) (unhealthy s) (failures s)
                     | Run _ | Resolve _ => expire c s
                     end.
Proof. intros c s [v h|d|addrs|all]; reflexivity. Qed.

Lemma inv_step : forall c s x o, inv c s x -> op_ok o -> inv c (fst (step c s o)) (tl_step x o).
Proof.
  intros c s x o Hi Hok. rewrite step_state. destruct o as [v h|d|addrs|all]; cbn [tl_step].
  - apply inv_failed; assumption.
  - apply inv_tick; assumption.
  - destruct x. apply inv_expire; assumption.
  - destruct x. apply inv_expire; assumption.
Qed.

(* ------------------------------------------------------------------ model = rule *)

(* a host survives Run exactly when the rule does not filter it *)
Lemma filtered_agree : forall c s x a, inv c s x ->
  match get a (unhealthy (expire c s)) with Some _ => false | None => true end
  = negb (filtered_spec c (times a (t_log x)) (t_now x)).
Proof.
  intros c s x a [Hnow [Hnd Hh]]. destruct (Hh a) as [Hle [Hu Hft]]. clear Hh.
  unfold expire. cbn [unhealthy]. rewrite (get_filter _ _ _ Hnd). cbn [snd]. rewrite <- Hnow.
  set (ts := times a (t_log x)) in *. rewrite Forall_forall in Hle.
  destruct (Z.le_gt_cases 0 (c_timeout c)) as [Hft0|Hneg].
  - destruct (Hft Hft0) as [_ [_ Hm]].
    destruct (get a (unhealthy s)) as [t0|].
    + destruct Hm as [Hin0 [Ht0 Hmax]]. unfold expired.
      destruct (Z.ltb_spec (c_timeout c) (now s - t0)) as [He|He]; cbn.
      * symmetry. apply negb_true_iff. apply not_true_is_false. intro Hf.
        apply filtered_spec_iff in Hf as [t [Hin [Hr Ht]]].
        assert (Htr : trips c ts t = true) by (unfold trips, near; apply Z.leb_le; exact Ht).
        specialize (Hmax t Hin Htr). lia.
      * symmetry. apply negb_false_iff. apply filtered_spec_iff. exists t0.
        split; [exact Hin0|]. split; [specialize (Hu t0 eq_refl); lia|].
        unfold trips, near in Ht0. apply Z.leb_le in Ht0. exact Ht0.
    + symmetry. apply negb_true_iff. apply not_true_is_false. intro Hf.
      apply filtered_spec_iff in Hf as [t [Hin [Hr Ht]]].
      assert (Htr : trips c ts t = true) by (unfold trips, near; apply Z.leb_le; exact Ht).
      specialize (Hm t Hin Htr). lia.
  - (* a negative FailTimeout: nothing is ever filtered, by the code and by the rule *)
    assert (Hspec : filtered_spec c ts (now s) = false).
    { apply not_true_is_false. intro Hf. apply filtered_spec_iff in Hf as [t [Hin [Hr _]]]. lia. }
    rewrite Hspec. cbn.
    destruct (get a (unhealthy s)) as [t0|]; [|reflexivity].
    specialize (Hu t0 eq_refl). unfold expired.
    destruct (Z.ltb_spec (c_timeout c) (now s - t0)); [reflexivity|lia].
Qed.

Lemma run_filter_out : forall c s x addrs, inv c s x ->
  snd (run_filter c s addrs) = healthy_spec c x addrs.
Proof.
  intros c s x addrs Hi. unfold run_filter, healthy_spec. cbn [snd].
  apply filter_ext. intros a. apply (filtered_agree c s x a Hi).
Qed.

Lemma resolve_out : forall c s all,
  snd (resolve c s all) = match snd (run_filter c s all) with [] => all | l => l end.
Proof. intros. unfold resolve, run_filter. cbn. destruct (filter _ all); reflexivity. Qed.

Lemma step_out : forall c s x o, inv c s x -> snd (step c s o) = snd (sstep c x o).
Proof.
  intros c s x o Hi. destruct o as [v h|d|addrs|all]; try reflexivity.
  - change (snd (step c s (Run addrs))) with (OSet (snd (run_filter c s addrs))).
    rewrite (run_filter_out _ _ _ _ Hi). reflexivity.
  - assert (E : snd (step c s (Resolve all)) = OSet (snd (resolve c s all))).
    { unfold step. destruct (resolve c s all); reflexivity. }
    rewrite E, resolve_out, (run_filter_out _ _ _ _ Hi). reflexivity.
Qed.

Lemma run_cons : forall c s o ops,
  run c s (o :: ops) = (fst (run c (fst (step c s o)) ops),
                        snd (step c s o) :: snd (run c (fst (step c s o)) ops)).
Proof. intros. cbn. destruct (step c s o) as [s1 r]. cbn. destruct (run c s1 ops). reflexivity. Qed.

Lemma srun_cons : forall c x o ops,
  srun c x (o :: ops) = (fst (srun c (tl_step x o) ops),
                         snd (sstep c x o) :: snd (srun c (tl_step x o) ops)).
Proof. intros. cbn. destruct (srun c (tl_step x o) ops). reflexivity. Qed.

Lemma srun_timeline : forall c ops x, fst (srun c x ops) = fold_left tl_step ops x.
Proof. induction ops as [|o ops IH]; intros x; [reflexivity|]. rewrite srun_cons. cbn. apply IH. Qed.

Lemma run_inv : forall c ops s x, inv c s x -> monotone ops = true ->
  inv c (fst (run c s ops)) (fold_left tl_step ops x).
Proof.
  induction ops as [|o ops IH]; intros s x Hi Hm; [exact Hi|].
  apply monotone_cons in Hm as [Hok Hm]. rewrite run_cons. cbn [fst fold_left].
  apply IH; [apply inv_step; assumption|exact Hm].
Qed.

Lemma run_refines : forall c ops s x, inv c s x -> monotone ops = true ->
  snd (run c s ops) = snd (srun c x ops).
Proof.
  induction ops as [|o ops IH]; intros s x Hi Hm; [reflexivity|].
  apply monotone_cons in Hm as [Hok Hm]. rewrite run_cons, srun_cons. cbn [snd]. f_equal.
  - apply step_out; exact Hi.
  - apply IH; [apply inv_step; assumption|exact Hm].
Qed.

(* ------------------------------------------------------------------ the theorems *)

(* every output of every history of failures, clock advances, Run and Resolve is the output of
   the declarative rule *)
Theorem refines_rule : forall raw ops, monotone ops = true -> snd (exec raw ops) = sexec raw ops.
Proof. intros raw ops Hm. unfold exec, sexec. apply run_refines; [apply inv_init|exact Hm]. Qed.

Lemma exec_inv : forall raw ops, monotone ops = true ->
  inv (apply_defaults raw) (fst (exec raw ops)) (tl_of ops).
Proof. intros raw ops Hm. unfold exec, tl_of. apply run_inv; [apply inv_init|exact Hm]. Qed.

(* clause 1, in the statement's words *)
Theorem filtered_iff : forall raw ops addrs h,
  monotone ops = true ->
  let c := apply_defaults raw in
  let s := fst (exec raw ops) in
  In h addrs ->
  (~ In h (snd (run_filter c s addrs))
   <-> filtered_prop c (times h (t_log (tl_of ops))) (t_now (tl_of ops))).
Proof.
  intros raw ops addrs h Hm c s Hin. subst c s.
  rewrite (run_filter_out _ _ _ addrs (exec_inv raw ops Hm)). unfold healthy_spec.
  rewrite filter_In, <- filtered_spec_iff.
  destruct (filtered_spec (apply_defaults raw) (times h (t_log (tl_of ops))) (t_now (tl_of ops))); cbn.
  - split; [reflexivity|]. intros _ [_ Hf]. discriminate.
  - split; [|discriminate]. intros Hn. exfalso. apply Hn. split; [exact Hin|reflexivity].
Qed.

(* Run never invents hosts and keeps the order of its argument *)
Theorem run_subset : forall c s addrs h, In h (snd (run_filter c s addrs)) -> In h addrs.
Proof. intros c s addrs h H. unfold run_filter in H. cbn in H. apply filter_In in H. tauto. Qed.

(* clause 2: needs no assumption on the clock or the configuration *)
Theorem resolve_nonempty : forall c s all, all <> [] -> snd (resolve c s all) <> [].
Proof.
  intros c s all Hne. rewrite resolve_out. destruct (snd (run_filter c s all)); [exact Hne|discriminate].
Qed.

Theorem resolve_subset : forall c s all h, In h (snd (resolve c s all)) -> In h all.
Proof.
  intros c s all h H. rewrite resolve_out in H.
  destruct (snd (run_filter c s all)) eqn:E; [exact H|]. rewrite <- E in H. eapply run_subset; eauto.
Qed.

(* what Resolve returns, by the rule: the hosts the rule does not filter, or all of them when
   it filters every one *)
Theorem resolve_rule : forall raw ops all, monotone ops = true ->
  snd (resolve (apply_defaults raw) (fst (exec raw ops)) all)
  = match healthy_spec (apply_defaults raw) (tl_of ops) all with [] => all | l => l end.
Proof.
  intros raw ops all Hm. rewrite resolve_out, (run_filter_out _ _ _ all (exec_inv raw ops Hm)). reflexivity.
Qed.

(* ------------------------------------------------------------------ the executable oracle *)
Lemma ns_eqb_refl : forall l, ns_eqb l l = true.
Proof. induction l as [|a r IH]; cbn; [reflexivity|]. rewrite N.eqb_refl. exact IH. Qed.
Lemma out_eqb_refl : forall o, out_eqb o o = true.
Proof. destruct o; cbn; [reflexivity|apply ns_eqb_refl]. Qed.
Lemma outs_eqb_refl : forall l, outs_eqb l l = true.
Proof. induction l as [|a r IH]; cbn; [reflexivity|]. rewrite out_eqb_refl. exact IH. Qed.

Lemma ns_eqb_eq : forall a b, ns_eqb a b = true -> a = b.
Proof.
  induction a as [|x a IH]; destruct b as [|y b]; cbn; intros H; try discriminate; [reflexivity|].
  apply andb_prop in H as [H1 H2]. apply N.eqb_eq in H1. subst. f_equal. auto.
Qed.
Lemma outs_eqb_eq : forall a b, outs_eqb a b = true -> a = b.
Proof.
  induction a as [|x a IH]; destruct b as [|y b]; cbn; intros H; try discriminate; [reflexivity|].
  apply andb_prop in H as [H1 H2]. f_equal; [|auto].
  destruct x, y; cbn in H1; try discriminate; [reflexivity|]. f_equal. apply ns_eqb_eq; exact H1.
Qed.

Lemma resolve_ok_run : forall c ops s, resolve_ok ops (snd (run c s ops)) = true.
Proof.
  induction ops as [|o ops IH]; intros s; [reflexivity|]. rewrite run_cons. cbn [snd].
  destruct o as [v h|d|addrs|all].
  - cbn. apply IH.
  - cbn. apply IH.
  - change (snd (step c s (Run addrs))) with (OSet (snd (run_filter c s addrs))). cbn. apply IH.
  - assert (E : snd (step c s (Resolve all)) = OSet (snd (resolve c s all))).
    { unfold step. destruct (resolve c s all); reflexivity. }
    rewrite E. cbn [resolve_ok]. rewrite IH, andb_true_r. apply andb_true_intro. split.
    + destruct all as [|a all']; [reflexivity|].
      destruct (snd (resolve c s (a :: all'))) eqn:Er; [|reflexivity].
      exfalso. eapply resolve_nonempty; [|exact Er]. discriminate.
    + apply forallb_forall. intros a Ha. apply resolve_subset in Ha. unfold memN.
      apply existsb_exists. exists a. split; [exact Ha|apply N.eqb_refl].
Qed.

Theorem check_sound : forall raw ops, C24_check raw ops (snd (exec raw ops)) = true.
Proof.
  intros raw ops. unfold C24_check. destruct (monotone ops) eqn:Hm; [|reflexivity].
  rewrite <- (refines_rule raw ops Hm), outs_eqb_refl. cbn. apply resolve_ok_run.
Qed.

(* what a passing check means for an observed trace: the implementation's outputs ARE the rule's *)
Theorem check_complete : forall raw ops obs,
  monotone ops = true -> C24_check raw ops obs = true -> obs = sexec raw ops.
Proof.
  intros raw ops obs Hm H. unfold C24_check in H. rewrite Hm in H. apply andb_prop in H as [H _].
  symmetry. apply outs_eqb_eq. exact H.
Qed.

(* clause 1 with the rule written out (the form quoted in Properties/C24.v) *)
Theorem filtered_iff_words : forall raw ops addrs h,
  monotone ops = true -> In h addrs ->
  let c := apply_defaults raw in
  let x := tl_of ops in
  let ts := times h (t_log x) in
  (~ In h (snd (run_filter c (fst (exec raw ops)) addrs))
   <-> exists t, In t ts /\ 0 <= t_now x - t <= c_timeout c /\
                 c_fails c <= lenZ (filter (fun t' => (t' <=? t) && (t - t' <=? c_timeout c)) ts)).
Proof. intros raw ops addrs h Hm Hin. cbv zeta. apply (filtered_iff raw ops addrs h Hm Hin). Qed.

Theorem resolve_nonempty_hist : forall raw ops all,
  all <> [] -> snd (resolve (apply_defaults raw) (fst (exec raw ops)) all) <> [].
Proof. intros. apply resolve_nonempty; assumption. Qed.

Theorem resolve_subset_hist : forall raw ops all h,
  In h (snd (resolve (apply_defaults raw) (fst (exec raw ops)) all)) -> In h all.
Proof. intros raw ops all h. apply resolve_subset. Qed.

(* ------------------------------------------------------------------ other wordings of the rule *)

(* on a timeline whose clock only advances each host's failure times are recorded in order *)
Definition tl_ok (x : timeline) : Prop :=
  forall h, Forall (fun t => t <= t_now x) (times h (t_log x)) /\ StronglySorted Z.le (times h (t_log x)).

Lemma tl_ok_step : forall x o, tl_ok x -> op_ok o -> tl_ok (tl_step x o).
Proof.
  intros x o Hx Hok h. destruct (Hx h) as [Hle Hs]. destruct o as [v h0|d|addrs|all]; cbn [tl_step t_now t_log].
  - rewrite times_snoc. destruct (N.eqb h h0); [|split; assumption]. split.
    + apply Forall_app. split; [exact Hle|]. constructor; [lia|constructor].
    + apply sorted_snoc; assumption.
  - split; [|exact Hs]. eapply Forall_impl; [|exact Hle]. cbn in *. intros; lia.
  - split; assumption.
  - split; assumption.
Qed.

Lemma tl_ok_fold : forall ops x, tl_ok x -> monotone ops = true -> tl_ok (fold_left tl_step ops x).
Proof.
  induction ops as [|o ops IH]; intros x Hx Hm; [exact Hx|].
  apply monotone_cons in Hm as [Hok Hm]. cbn. apply IH; [apply tl_ok_step; assumption|exact Hm].
Qed.

Theorem times_sorted : forall ops h, monotone ops = true ->
  StronglySorted Z.le (times h (t_log (tl_of ops))) /\
  Forall (fun t => t <= t_now (tl_of ops)) (times h (t_log (tl_of ops))).
Proof.
  intros ops h Hm. assert (H : tl_ok (tl_of ops)).
  { apply tl_ok_fold; [|exact Hm]. intros h'. cbn. split; constructor. }
  destruct (H h). split; assumption.
Qed.

Lemma last_occurrence : forall (t : Z) l, In t l -> exists l1 l2, l = l1 ++ t :: l2 /\ ~ In t l2.
Proof.
  induction l as [|a r IH]; intros Hin; [destruct Hin|].
  destruct (in_dec Z.eq_dec t r) as [Hr|Hr].
  - destruct (IH Hr) as [l1 [l2 [E Hn]]]. exists (a :: l1), l2. split; [cbn; f_equal; exact E|exact Hn].
  - destruct Hin as [->|Hin]; [|contradiction]. exists [], r. split; [reflexivity|exact Hr].
Qed.

Lemma sorted_split : forall l1 (x : Z) l2, StronglySorted Z.le (l1 ++ x :: l2) ->
  Forall (fun y => y <= x) l1 /\ Forall (fun y => x <= y) l2.
Proof.
  induction l1 as [|a r IH]; intros x l2 Hs; cbn in Hs; apply StronglySorted_inv in Hs as [Hs Hall].
  - split; [constructor|exact Hall].
  - destruct (IH x l2 Hs) as [H1 H2]. split; [|exact H2]. constructor; [|exact H1].
    rewrite Forall_forall in Hall. apply Hall. apply in_or_app. right. left. reflexivity.
Qed.

Lemma filter_none : forall (A : Type) (P : A -> bool) l, Forall (fun x => P x = false) l -> filter P l = [].
Proof.
  induction l as [|a r IH]; intros H; cbn; [reflexivity|]. inversion H; subst. rewrite H2. auto.
Qed.

(* positional wording: "its recorded failures" are those recorded WHEN the failure at t happened
   (ts1 ++ [t]); on an ordered record this is the same rule *)
Definition filtered_positional (c : config) (ts : list Z) (nw : Z) : Prop :=
  exists ts1 t ts2, ts = ts1 ++ t :: ts2 /\ 0 <= nw - t <= c_timeout c /\
    c_fails c <= lenZ (filter (fun t' => t - t' <=? c_timeout c) (ts1 ++ [t])).

Lemma near_prefix : forall ft ts1 t, Forall (fun y => y <= t) ts1 ->
  filter (near ft t) (ts1 ++ [t]) = filter (fun t' => t - t' <=? ft) (ts1 ++ [t]).
Proof.
  intros ft ts1 t Hall. apply filter_ext_in. intros a Ha. unfold near.
  assert (a <= t).
  { apply in_app_or in Ha as [Ha|[<-|[]]]; [|lia]. rewrite Forall_forall in Hall. auto. }
  destruct (Z.leb_spec a t); [reflexivity|lia].
Qed.

Theorem positional_iff : forall c ts nw, StronglySorted Z.le ts ->
  (filtered_prop c ts nw <-> filtered_positional c ts nw).
Proof.
  intros c ts nw Hs. split.
  - intros [t [Hin [Hr Hc]]]. destruct (last_occurrence t ts Hin) as [ts1 [ts2 [E Hn]]].
    exists ts1, t, ts2. split; [exact E|]. split; [exact Hr|].
    rewrite E in Hs. destruct (sorted_split _ _ _ Hs) as [H1 H2].
    change (fun t' => (t' <=? t) && (t - t' <=? c_timeout c)) with (near (c_timeout c) t) in Hc.
    rewrite E in Hc. change (ts1 ++ t :: ts2) with (ts1 ++ [t] ++ ts2) in Hc.
    rewrite app_assoc, filter_app, lenZ_app in Hc.
    rewrite (filter_none _ (near (c_timeout c) t) ts2) in Hc.
    + rewrite near_prefix in Hc by exact H1. change (lenZ (@nil Z)) with 0 in Hc. lia.
    + rewrite Forall_forall in *. intros y Hy. specialize (H2 y Hy). unfold near.
      assert (y <> t) by (intro; subst; contradiction).
      destruct (Z.leb_spec y t); [lia|reflexivity].
  - intros [ts1 [t [ts2 [E [Hr Hc]]]]]. exists t. split; [rewrite E; apply in_or_app; right; left; reflexivity|].
    split; [exact Hr|]. rewrite E in Hs. destruct (sorted_split _ _ _ Hs) as [H1 _].
    change (fun t' => (t' <=? t) && (t - t' <=? c_timeout c)) with (near (c_timeout c) t).
    rewrite E. change (ts1 ++ t :: ts2) with (ts1 ++ [t] ++ ts2).
    rewrite app_assoc, filter_app, lenZ_app, near_prefix by exact H1.
    pose proof (lenZ_nonneg _ (filter (near (c_timeout c) t) ts2)). lia.
Qed.

Theorem filtered_iff_positional : forall raw ops addrs h,
  monotone ops = true -> In h addrs ->
  let c := apply_defaults raw in
  let x := tl_of ops in
  (~ In h (snd (run_filter c (fst (exec raw ops)) addrs))
   <-> exists ts1 t ts2, times h (t_log x) = ts1 ++ t :: ts2 /\ 0 <= t_now x - t <= c_timeout c /\
         c_fails c <= lenZ (filter (fun t' => t - t' <=? c_timeout c) (ts1 ++ [t]))).
Proof.
  intros raw ops addrs h Hm Hin. cbv zeta.
  rewrite (filtered_iff raw ops addrs h Hm Hin).
  apply positional_iff. apply (times_sorted ops h Hm).
Qed.

(* The other conceivable reading of "within FailTimeout of some failure" — a window reaching
   FailTimeout to BOTH sides of that failure — is weaker: the rule implies it ... *)
Definition filtered_two_sided (c : config) (ts : list Z) (nw : Z) : Prop :=
  exists t, In t ts /\ 0 <= nw - t <= c_timeout c /\
            c_fails c <= lenZ (filter (fun t' => (t - t' <=? c_timeout c) && (t' - t <=? c_timeout c)) ts).

Lemma filter_len_mono : forall (A : Type) (P Q : A -> bool) l,
  (forall a, P a = true -> Q a = true) -> lenZ (filter P l) <= lenZ (filter Q l).
Proof.
  intros A P Q l H. induction l as [|a r IH]; cbn; [lia|].
  destruct (P a) eqn:HP.
  - rewrite (H a HP). unfold lenZ in *. cbn. lia.
  - destruct (Q a); unfold lenZ in *; cbn; lia.
Qed.

Theorem rule_implies_two_sided : forall c ts nw, 0 <= c_timeout c ->
  filtered_prop c ts nw -> filtered_two_sided c ts nw.
Proof.
  intros c ts nw Hft [t [Hin [Hr Hc]]]. exists t. split; [exact Hin|]. split; [exact Hr|].
  eapply Z.le_trans; [exact Hc|]. apply filter_len_mono. intros a Ha.
  apply andb_prop in Ha as [H1 H2]. apply Z.leb_le in H1. rewrite H2. cbn. apply Z.leb_le. lia.
Qed.
