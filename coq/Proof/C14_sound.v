(* C14 — proofs, part 4: the oracle C14_check holds of the model's own observations (the property in
   executable form), for every torrent, every initial piece table, every handshake and every message list. *)
From Coq Require Import List ZArith Bool Lia.
From K.Model Require Import C14.
From K.Proof Require Import C14 C14_main C14_frame.
Import ListNotations.
Local Open Scope Z_scope.

(* ------------------------------------------------------------------ piece tables only grow *)
Definition LeH (h h' : list bool) : Prop := Forall2 (fun x y => implb x y = true) h h'.

Lemma LeH_refl : forall h, LeH h h.
Proof. induction h as [|x h IH]; constructor; auto. now destruct x. Qed.

Lemma LeH_trans : forall a b c, LeH a b -> LeH b c -> LeH a c.
Proof.
  intros a b c H. revert c. induction H as [|x y a b Hxy H IH]; intros c Hc; inversion Hc; subst; constructor.
  - destruct x, y, y0; simpl in *; try discriminate; auto.
  - now apply IH.
Qed.

Lemma LeH_nset : forall h k, LeH h (nset h k true).
Proof.
  induction h as [|x h IH]; intros [|k]; simpl.
  - constructor.
  - constructor.
  - constructor; [now destruct x | apply LeH_refl].
  - constructor; [now destruct x | apply IH].
Qed.

Lemma LeH_zset : forall h i, LeH h (zset h i true).
Proof. intros. apply LeH_nset. Qed.

Lemma LeH_all : forall h h', LeH h h' -> forallb (fun b => b) h = true -> forallb (fun b => b) h' = true.
Proof.
  intros h h' H. induction H as [|x y a b Hxy H IH]; simpl; auto.
  rewrite !andb_true_iff. intros [Hx Ha]. subst x. simpl in Hxy. auto.
Qed.

Lemma LeH_check : forall h h', LeH h h' ->
  list_eqb Bool.eqb (map (fun '(x, y) => implb x y) (combine h h')) (map (fun _ => true) h) = true.
Proof. intros h h' H. induction H as [|x y a b Hxy H IH]; simpl; auto. rewrite Hxy, IH. reflexivity. Qed.

Lemma LeH_len : forall h h', LeH h h' -> zlen h' = zlen h.
Proof. intros h h' H. unfold zlen. f_equal. induction H; simpl; auto. Qed.

(* ------------------------------------------------------------------ the honest peer's bitfield *)
Lemma set_from_map_range : forall (f : Z -> bool) len k j,
  In j (set_from k (map f (zrange_from k len))) -> f j = true.
Proof.
  induction len as [|len IH]; intros k j H; simpl in H; [tauto|].
  destruct (f k) eqn:E; [destruct H as [<-|H]; auto|]; now apply IH in H.
Qed.

Lemma length_zrange_from : forall len k, length (zrange_from k len) = len.
Proof. induction len; intros; simpl; auto. Qed.

Section WithTorrent.
Variable t : torrent.
Hypothesis WF : wf_torrent t = true.

Lemma honest_clean : forall full, clean (t_n t) (honest_bits t full) = true.
Proof.
  intros full. destruct (wf_facts t WF) as [Hn _]. apply clean_spec. unfold honest_bits. cbn [blen bbits]. repeat split.
  - unfold zlen, zrange. rewrite map_length, length_zrange_from. rewrite Z2Nat.id; [reflexivity|].
    assert (0 <= (t_n t + 63) / 64) by (apply Z.div_pos; lia). lia.
  - intros i Hi. unfold set_idxs, zrange in Hi. cbn [bbits] in Hi. apply set_from_map_range in Hi.
    apply andb_true_iff in Hi. destruct Hi as [_ Hi]. now apply Z.ltb_lt in Hi.
Qed.

Lemma count_true_all_false : forall (f : Z -> bool) l, (forall x, f x = false) -> count_true (map f l) = 0.
Proof.
  intros f l Hf. unfold count_true, zlen. induction l as [|x l IH]; simpl; auto. rewrite Hf. exact IH.
Qed.

Lemma honest_empty_not_all : b_all (honest_bits t false) = false.
Proof.
  destruct (wf_facts t WF) as [Hn _]. unfold b_all, honest_bits. cbn [blen bbits].
  rewrite count_true_all_false by reflexivity. apply Z.eqb_neq. lia.
Qed.

(* a clean bitfield of a new peer is accepted *)
Lemma add_peer_accepts : forall s q b es, Inv t s -> EffsOk t es -> clean (t_n t) b = true ->
  find_peer (d_peers s) q = None ->
  exists a2, cnt_add_all (mka (mkd (d_have s) (d_peers s ++ [(q, mkb (blen b) (bbits b))]) (d_cnt s) (d_reqs s)) es)
                         (set_idxs b) 1 = Some a2 /\
             add_peer gfixed t s q b false es = HAccept (request_more t a2 q).
Proof.
  intros s q b es HI HE Hc Hf. pose proof Hc as Hc'. apply clean_spec in Hc'. destruct Hc' as [C1 [C2 C3]].
  assert (G : (blen b =? t_n t) && forallb (fun i => i <? t_n t) (set_idxs b) = true).
  { rewrite C1, Z.eqb_refl. simpl. apply forallb_forall. intros i Hi. apply Z.ltb_lt. now apply C3. }
  unfold add_peer. cbn [g_bfsize gfixed andb]. rewrite G. cbn [negb]. rewrite Hf.
  match goal with |- context [cnt_add_all ?x _ _] => assert (G1 : Good t x) end.
  { destruct HI as [H1 [H2 H3]]. split; [|exact HE]. split; [exact H1|]. split; [exact H2|]. cbn [a_st d_peers].
    apply Forall_app; split; [exact H3|]. constructor; [exact Hc | constructor]. }
  destruct (cnt_add_all_good t (set_idxs b) _ 1 G1 (fun i Hi => clean_idx _ _ _ Hc Hi)) as [a2 [E2 _]].
  exists a2. rewrite E2. auto.
Qed.

(* B joins an empty dispatcher *)
Lemma add_b : forall have bfull, zlen have = t_n t ->
  exists ab, add_peer gfixed t (init t have) pid_b (honest_bits t bfull) false [] = HAccept ab /\
             Good t ab /\ d_have (a_st ab) = have /\
             find_peer (d_peers (a_st ab)) pid_b = Some (honest_bits t bfull) /\
             NoDup (map fst (d_peers (a_st ab))) /\ find_peer (d_peers (a_st ab)) pid_a = None.
Proof.
  intros have bfull Hl. pose proof (honest_clean bfull) as Hc. pose proof Hc as Hc'. apply clean_spec in Hc'.
  destruct Hc' as [C1 [C2 C3]].
  assert (HI : Inv t (init t have)) by now apply init_inv.
  destruct (add_peer_accepts (init t have) pid_b (honest_bits t bfull) [] HI (Forall_nil _) Hc eq_refl) as [a2 [E2 E]].
  pose proof (add_peer_good t (init t have) pid_b (honest_bits t bfull) false [] HI (Forall_nil _)) as HA.
  assert (Hlen : zlen (bbits (honest_bits t bfull)) = 64 * ((blen (honest_bits t bfull) + 63) / 64)) by (rewrite C1; exact C2).
  specialize (HA Hlen). rewrite E in HA.
  exists (request_more t a2 pid_b). split; [exact E|]. split; [exact HA|].
  destruct (cnt_add_all_frame _ _ _ _ E2) as [P [Hh _]]. destruct (request_more_frame t a2 pid_b) as [P2 [Hh2 _]].
  rewrite Hh2, Hh, P2, P. cbn [a_st d_peers d_have init app find_peer map fst].
  unfold pid_a, pid_b. cbn [Z.eqb Pos.eqb]. repeat split.
  repeat constructor. simpl. tauto.
Qed.

(* ------------------------------------------------------------------ allocations stay small *)
Lemma effs_small : forall es, t_p t <= big_thr -> EffsOk t es -> has_big es = false /\ has_oom es = false.
Proof.
  intros es Hp H. unfold has_big, has_oom.
  assert (Hb : alloc_bound t <= big_thr) by (unfold alloc_bound, max_msg, C14_consts.conn_max_message_size, big_thr in *; lia).
  split; (destruct (existsb _ es) eqn:E; [|reflexivity]); exfalso; apply existsb_exists in E; destruct E as [e [Hin He]];
    unfold EffsOk in H; rewrite Forall_forall in H; specialize (H e Hin); destruct e; try discriminate; simpl in H;
    apply Z.leb_le in H.
  - apply Z.ltb_lt in He. lia.
  - apply Z.leb_le in He. unfold oom_thr, big_thr in *. lia.
Qed.

Lemma sends_ok : forall q es, EffsOk t es -> forallb (reply_ok t) (sends_to q es) = true.
Proof.
  intros q es H. apply forallb_forall. intros r Hr. unfold sends_to in Hr. apply in_flat_map in Hr.
  destruct Hr as [e [Hin Hr]]. unfold EffsOk in H. rewrite Forall_forall in H. specialize (H e Hin).
  destruct e; simpl in Hr; try tauto. destruct (to =? q); simpl in Hr; [|tauto]. destruct Hr as [<-|[]]. exact H.
Qed.

(* ------------------------------------------------------------------ the message run *)
Definition is_some {A} (o : option A) : bool := match o with Some _ => true | None => false end.

Lemma run_msgs_sound : forall ms s es0 bb,
  Inv t s -> NoDup (map fst (d_peers s)) -> EffsOk t es0 -> find_peer (d_peers s) pid_b = Some bb ->
  exists s2 rows es,
    run_msgs gfixed t s ms es0 = Some (s2, rows, es) /\ Inv t s2 /\ EffsOk t es /\
    forallb (fun '(ra, rb, _) => forallb (reply_ok t) ra && forallb (reply_ok t) rb) rows = true /\
    LeH (d_have s) (d_have s2) /\
    (find_peer (d_peers s2) pid_b = Some bb \/
     (find_peer (d_peers s2) pid_b = None /\ b_all bb = true /\ all_have s = false /\ all_have s2 = true)).
Proof.
  induction ms as [|m ms IH]; intros s es0 bb HI Hnd He Hb; simpl.
  - exists s, [], es0. split; [reflexivity|]. split; [exact HI|]. split; [exact He|]. split; [reflexivity|].
    split; [apply LeH_refl | now left].
  - destruct (step_good t WF s pid_a m HI) as [a [E [GI GE]]]. rewrite E.
    assert (Hrow : forallb (reply_ok t) (sends_to pid_a (a_eff a)) &&
                   forallb (reply_ok t) (if negb (is_some (find_peer (d_peers (a_st a)) pid_b)) then [] else sends_to pid_b (a_eff a)) = true).
    { rewrite sends_ok by exact GE. simpl. destruct (negb _); [reflexivity | now apply sends_ok]. }
    assert (Hle : LeH (d_have s) (d_have (a_st a))).
    { destruct (have_only_by_valid_payload t WF s pid_a m a HI E) as [X|[i [off [len [_ [_ [_ [_ [_ [_ [_ [_ X]]]]]]]]]]]];
        rewrite X; [apply LeH_refl | apply LeH_zset]. }
    assert (Hnd' : NoDup (map fst (d_peers (a_st a)))) by exact (step_uniq t WF s pid_a m a HI Hnd E).
    assert (Hne : pid_b <> pid_a) by (unfold pid_a, pid_b; lia).
    pose proof (others_unaffected t WF s pid_a m a pid_b bb HI Hnd E Hne Hb) as HB.
    assert (E0 : EffsOk t (es0 ++ a_eff a)) by (apply Forall_app; split; auto).
    fold (is_some (find_peer (d_peers (a_st a)) pid_a)). fold (is_some (find_peer (d_peers (a_st a)) pid_b)).
    destruct (negb (is_some (find_peer (d_peers (a_st a)) pid_a))) eqn:Ea.
    + (* A's connection ended with this message *)
      do 3 eexists. split; [reflexivity|]. split; [exact GI|]. split; [exact E0|]. split; [simpl; now rewrite Hrow|].
      split; [exact Hle|]. exact HB.
    + destruct HB as [HB|HB].
      * destruct (IH (a_st a) (es0 ++ a_eff a) bb GI Hnd' E0 HB) as [s2 [rows [es [R [I2 [O2 [W2 [L2 B2]]]]]]]].
        rewrite R. do 3 eexists. split; [reflexivity|]. split; [exact I2|]. split; [exact O2|].
        split; [simpl; rewrite Hrow; exact W2|]. split; [eapply LeH_trans; eauto|].
        destruct B2 as [B2|[B2 [B3 [B4 B5]]]]; [now left|]. right. repeat split; auto.
        unfold all_have in *. destruct (forallb (fun b => b) (d_have s)) eqn:X; [|reflexivity].
        rewrite (LeH_all _ _ Hle X) in B4. discriminate.
      * (* B was dropped in this step (the torrent completed, B is complete): it stays dropped *)
        destruct HB as [HB1 [HB2 [HB3 HB4]]].
        assert (R : forall ms s es0, Inv t s -> EffsOk t es0 -> find_peer (d_peers s) pid_b = None -> all_have s = true ->
                    exists s2 rows es, run_msgs gfixed t s ms es0 = Some (s2, rows, es) /\ Inv t s2 /\ EffsOk t es /\
                      forallb (fun '(ra, rb, _) => forallb (reply_ok t) ra && forallb (reply_ok t) rb) rows = true /\
                      LeH (d_have s) (d_have s2) /\ find_peer (d_peers s2) pid_b = None /\ all_have s2 = true).
        { clear - WF. intros ms. induction ms as [|m ms IH]; intros s es0 HI He Hb Ha; simpl.
          - exists s, [], es0. split; [reflexivity|]. split; [exact HI|]. split; [exact He|]. split; [reflexivity|].
            split; [apply LeH_refl | split; assumption].
          - destruct (step_good t WF s pid_a m HI) as [a [E [GI GE]]]. rewrite E.
            assert (Hle : LeH (d_have s) (d_have (a_st a))).
            { destruct (have_only_by_valid_payload t WF s pid_a m a HI E) as [X|[i [off [len [_ [_ [_ [_ [_ [_ [_ [_ X]]]]]]]]]]]];
                rewrite X; [apply LeH_refl | apply LeH_zset]. }
            assert (Ha' : all_have (a_st a) = true) by (unfold all_have in *; eapply LeH_all; eauto).
            assert (Hb' : find_peer (d_peers (a_st a)) pid_b = None).
            { unfold step in E. destruct (find_peer (d_peers s) pid_a); [|inversion E; subst; exact Hb].
              assert (G0 : Good t (mka s [])) by (split; [exact HI | constructor]).
              destruct (recv gfixed t (mka s []) pid_a m) as [a1|] eqn:E1; [|discriminate]. simpl in E.
              destruct (recv_delta t WF _ _ _ _ G0 E1) as [[D1 _] _]. simpl in D1.
              destruct (remove_peers_frame _ _ _ E) as [F _]. rewrite F.
              destruct (existsb _ _); [reflexivity|]. rewrite D1; [exact Hb | unfold pid_a, pid_b; lia]. }
            assert (E0 : EffsOk t (es0 ++ a_eff a)) by (apply Forall_app; split; auto).
            assert (Hrow : forallb (reply_ok t) (sends_to pid_a (a_eff a)) = true) by now apply sends_ok.
            rewrite Hb'. simpl.
            destruct (negb match find_peer (d_peers (a_st a)) pid_a with Some _ => true | None => false end).
            + do 3 eexists. split; [reflexivity|]. split; [exact GI|]. split; [exact E0|].
              split; [simpl; rewrite Hrow; reflexivity|]. split; [exact Hle|]. split; [exact Hb' | exact Ha'].
            + destruct (IH (a_st a) (es0 ++ a_eff a) GI E0 Hb' Ha') as [s2 [rows [es [R [I2 [O2 [W2 [L2 [B2 A2]]]]]]]]].
              rewrite R. do 3 eexists. split; [reflexivity|]. split; [exact I2|]. split; [exact O2|].
              split; [simpl; rewrite Hrow; exact W2|]. split; [eapply LeH_trans; eauto|]. split; assumption. }
        destruct (R ms (a_st a) (es0 ++ a_eff a) GI E0 HB1 HB4) as [s2 [rows [es [R2 [I2 [O2 [W2 [L2 [B2 A2]]]]]]]]].
        rewrite R2. do 3 eexists. split; [reflexivity|]. split; [exact I2|]. split; [exact O2|].
        split; [simpl; rewrite Hrow; exact W2|]. split; [eapply LeH_trans; eauto|]. right. repeat split; auto.
Qed.

End WithTorrent.

(* ------------------------------------------------------------------ what an accepted handshake looks like *)
Lemma handshake_reject_stage : forall g t s q h st es, handshake g t s q h = HReject st es -> st <? 3 = true.
Proof.
  intros g t s q h st es H. unfold handshake, add_peer in H.
  repeat match type of H with
         | (if ?c then _ else _) = _ => destruct c; try discriminate
         | match ?x with _ => _ end = _ => destruct x; try discriminate
         end; inversion H; reflexivity.
Qed.

Lemma add_peer_accept : forall t s q b dup es a, add_peer gfixed t s q b dup es = HAccept a ->
  blen b = t_n t /\ forallb (fun i => i <? t_n t) (set_idxs b) = true /\ dup = false /\ d_have (a_st a) = d_have s.
Proof.
  intros t s q b dup es a H. unfold add_peer in H. simpl in H.
  destruct (blen b =? t_n t) eqn:E1; simpl in H; [|discriminate].
  destruct (forallb (fun i => i <? t_n t) (set_idxs b)) eqn:E2; simpl in H; [|discriminate].
  destruct dup; [discriminate|]. destruct (find_peer (d_peers s) q); [discriminate|].
  match type of H with context [cnt_add_all ?x _ _] => destruct (cnt_add_all x (set_idxs b) 1) as [a2|] eqn:E end; [|discriminate].
  inversion H; subst. destruct (cnt_add_all_frame _ _ _ _ E) as [_ [Hh _]]. destruct (request_more_frame t a2 q) as [_ [Hh2 _]].
  apply Z.eqb_eq in E1. repeat split; auto. rewrite Hh2, Hh. reflexivity.
Qed.

Lemma set_from_app_l : forall X Y k i, In i (set_from k X) -> In i (set_from k (X ++ Y)).
Proof.
  intros X Y k i H. apply set_from_iff in H. destruct H as [m [-> H]]. apply set_from_iff. exists m. split; auto.
  rewrite nth_error_app1; auto. apply nth_error_Some. congruence.
Qed.

Lemma handshake_accept : forall t s q h a, wf_hs h = true -> 1 <= t_n t -> handshake gfixed t s q h = HAccept a ->
  hs_clean_bits t h = true /\ h_dup h = false /\ d_have (a_st a) = d_have s.
Proof.
  intros t s q h a Hwf Hn H. unfold handshake in H.
  destruct (max_msg <? h_size h) eqn:Es; [discriminate|]. apply Z.ltb_ge in Es.
  destruct (negb (h_ok h)); [discriminate|].
  destruct (negb ((h_ty h =? 0) && h_body h)); [discriminate|].
  destruct (negb (h_peer h && h_hash h && h_name h)); [discriminate|].
  destruct (parse_bf gfixed (h_bf h)) as [|es'|es' b] eqn:Ep; try discriminate.
  destruct (parse_rbs gfixed (h_rb h) ([EAlloc (h_size h)] ++ es')) as [[es2 ok]|]; [|discriminate].
  destruct ok; [|discriminate]. destruct (negb (h_known h)); [discriminate|].
  destruct (add_peer_accept _ _ _ _ _ _ _ H) as [A1 [A2 [A3 A4]]]. split; [|auto].
  unfold wf_hs in Hwf. apply andb_true_iff in Hwf. destruct Hwf as [Hw1 _].
  unfold hs_clean_bits. destruct (h_bf h) as [[[L ws] db]|]; [|simpl in Ep; discriminate].
  unfold rawbf_fits in Hw1. rewrite !andb_true_iff, !Z.leb_le in Hw1. destruct Hw1 as [[HL0 Hd0] Hd1].
  unfold parse_bf in Ep. cbn [g_bfprefix gfixed andb] in Ep.
  destruct (8 * db <? L) eqn:EL; [discriminate|]. apply Z.ltb_ge in EL.
  assert (Hw : words_needed L = (L + 63) / 64).
  { unfold words_needed. replace (two64 - 64 <? L) with false; [reflexivity|].
    symmetry. apply Z.ltb_ge. rewrite max_msg_val in Es. unfold two64. lia. }
  rewrite Hw in Ep. set (nw := (L + 63) / 64) in *.
  destruct (max_alloc <? 8 * nw); [discriminate|].
  destruct (nw =? 0) eqn:E0.
  - inversion Ep; subst b. simpl in A1. exfalso. apply Z.eqb_eq in E0. subst L. unfold nw in E0.
    assert (64 * ((t_n t + 63) / 64) <= t_n t + 63 < 64 * ((t_n t + 63) / 64) + 64).
    { pose proof (Z.div_mod (t_n t + 63) 64). pose proof (Z.mod_pos_bound (t_n t + 63) 64). lia. }
    lia.
  - destruct (db <? 8 * nw) eqn:Ed; [discriminate|]. inversion Ep; subst b. simpl in A1, A2.
    rewrite A1, Z.eqb_refl. apply Z.ltb_ge in Ed. subst L. fold nw.
    replace (8 * nw <=? db) with true by (symmetry; apply Z.leb_le; lia). simpl.
    apply forallb_forall. intros i Hi. rewrite forallb_forall in A2. apply A2.
    unfold set_idxs, pad_to. simpl. now apply set_from_app_l.
Qed.

Lemma handshake_frame : forall t s q h a, handshake gfixed t s q h = HAccept a ->
  NoDup (map fst (d_peers s)) ->
  NoDup (map fst (d_peers (a_st a))) /\ forall q', q' <> q -> find_peer (d_peers (a_st a)) q' = find_peer (d_peers s) q'.
Proof.
  intros t s q h a H Hnd. split; [eapply handshake_uniq; eauto|]. intros q' Hne.
  pose proof (handshake_others_unaffected gfixed t s q h q' Hne) as X. now rewrite H in X.
Qed.

Lemma list_eqb_Z_refl : forall l, list_eqb Z.eqb l l = true.
Proof. induction l; simpl; auto. now rewrite Z.eqb_refl. Qed.

Lemma zlen_map : forall {A B} (f : A -> B) l, zlen (map f l) = zlen l.
Proof. intros. unfold zlen. now rewrite map_length. Qed.

Lemma pending_in_range : forall t s q, forallb (in_range t) (pending_of t s q) = true.
Proof.
  intros. apply forallb_forall. intros i Hi. unfold pending_of in Hi. apply filter_In in Hi.
  destruct Hi as [Hi _]. apply in_zrange in Hi. now apply in_range_iff.
Qed.

(* ------------------------------------------------------------------ the oracle on the model *)
Theorem check_sound : forall t have bfull h ms,
  wf_torrent t = true -> zlen have = t_n t -> t_p t <= big_thr -> wf_hs h = true ->
  C14_check t have bfull h ms (run_case gfixed t have bfull h ms) = true.
Proof.
  intros t have bfull h ms WF Hl Hp Hwf. destruct (wf_facts t WF) as [Hn _].
  destruct (add_b t WF have bfull Hl) as [ab [Eb [[IB EB] [Hbh [Hbf [Hbn Hba]]]]]].
  unfold run_case. rewrite Eb. cbv zeta.
  set (qa := if h_dup h then pid_b else pid_a).
  pose proof (handshake_good t (a_st ab) qa h IB Hwf) as HH.
  pose proof (sends_ok t pid_b (a_eff ab) EB) as Hbinit.
  assert (Hprobe : forall hv, zlen hv = t_n t ->
            (zlen (map (fun b : bool => if b then 2 else 1) hv) =? t_n t) &&
            list_eqb Z.eqb (map (fun b : bool => if b then 2 else 1) hv) (map (fun b : bool => if b then 2 else 1) hv) = true).
  { intros hv Hv. rewrite zlen_map, Hv, Z.eqb_refl, list_eqb_Z_refl. reflexivity. }
  destruct (handshake gfixed t (a_st ab) qa h) as [|stage es|aa] eqn:Eh; [contradiction| |].
  - (* rejected *)
    destruct (effs_small t es Hp HH) as [Hbig Hoom]. rewrite Hoom, Hbig.
    pose proof (handshake_reject_stage _ _ _ _ _ _ _ Eh) as Hst.
    unfold C14_check. cbn [o_crash o_big o_hs o_ainit o_binit o_steps o_abits o_cnt1 o_cnt2 o_pend o_fsize o_bclosed o_bprobe o_have].
    rewrite Hst, Hbinit, pending_in_range, Hbh, Hl, !Z.eqb_refl. cbn [forallb negb andb orb].
    rewrite (Hprobe have Hl), (LeH_check have have (LeH_refl have)). reflexivity.
  - (* accepted *)
    destruct HH as [IA EA].
    destruct (handshake_accept t (a_st ab) qa h aa Hwf Hn Eh) as [Hclean [Hdup Hah]].
    assert (Hqa : qa = pid_a) by (unfold qa; now rewrite Hdup).
    destruct (handshake_frame t (a_st ab) qa h aa Eh Hbn) as [Hand Hao].
    assert (Hbfind : find_peer (d_peers (a_st aa)) pid_b = Some (honest_bits t bfull)).
    { rewrite Hao; [exact Hbf | rewrite Hqa; unfold pid_a, pid_b; lia]. }
    destruct (effs_small t (a_eff aa) Hp EA) as [_ Hoom0]. rewrite Hoom0.
    destruct (run_msgs_sound t WF ms (a_st aa) (a_eff aa) (honest_bits t bfull) IA Hand EA Hbfind)
      as [s2 [rows [es [R [I2 [O2 [W2 [L2 B2]]]]]]]].
    rewrite R. destruct (effs_small t es Hp O2) as [Hbig Hoom]. rewrite Hoom.
    destruct (hangup_good t s2 pid_a I2) as [a3 [E3 [I3 _]]]. rewrite E3.
    assert (Hne : pid_b <> pid_a) by (unfold pid_a, pid_b; lia).
    destruct (hangup_others_unaffected s2 pid_a a3 pid_b E3 Hne) as [F3 H3].
    pose proof I2 as [L21 [L22 P2]]. pose proof I3 as [L31 [L32 _]].
    unfold C14_check. cbn [o_crash o_big o_hs o_ainit o_binit o_steps o_abits o_cnt1 o_cnt2 o_pend o_fsize o_bclosed o_bprobe o_have].
    rewrite Hbig, Hclean, Hbinit, (sends_ok t pid_a (a_eff aa) EA), W2, pending_in_range, L21, L22, L32, !Z.eqb_refl.
    cbn [forallb negb andb orb Z.ltb Z.compare].
    replace (3 <? 3) with false by reflexivity. cbn [orb].
    assert (Hle : LeH have (d_have s2)) by (rewrite <- Hbh, <- Hah; exact L2).
    rewrite (LeH_check _ _ Hle), !andb_true_r.
    assert (Habits : match (match find_peer (d_peers s2) pid_a with Some b => Some (blen b, set_idxs b) | None => None end) with
                     | Some (l, s) => (l =? t_n t) && forallb (in_range t) s
                     | None => true end = true).
    { destruct (find_peer (d_peers s2) pid_a) as [b|] eqn:Ef; [|reflexivity].
      assert (Hc : clean (t_n t) b = true) by exact (find_peer_clean t s2 pid_a b I2 Ef).
      pose proof Hc as Hc'. apply clean_spec in Hc'. destruct Hc' as [C1 _]. rewrite C1, Z.eqb_refl. simpl.
      apply forallb_forall. intros i Hi. apply in_range_iff. eapply clean_idx; eauto. }
    rewrite Habits. cbn [andb].
    rewrite F3, H3.
    destruct B2 as [B2|[B2 [B3 [B4 B5]]]]; rewrite B2; cbn [negb orb andb].
    + now rewrite (Hprobe (d_have s2) L21).
    + destruct bfull; [|rewrite (honest_empty_not_all t WF) in B3; discriminate].
      unfold all_have in B4, B5. rewrite Hah, Hbh in B4. rewrite B4, B5. reflexivity.
Qed.
