(* C31: list / association-list facts used by the invariant proof. *)
From Coq Require Import List NArith Bool Lia.
From K.Model Require Import C31.
Import ListNotations.
Local Open Scope N_scope.

Lemma key_eqb_eq : forall a b : key, key_eqb a b = true <-> a = b.
Proof.
  intros [a1 a2] [b1 b2]; unfold key_eqb; cbn [fst snd]. rewrite andb_true_iff, !N.eqb_eq.
  split; [intros [-> ->]; reflexivity | intros H; inversion H; auto].
Qed.
Lemma key_eqb_refl : forall a, key_eqb a a = true.
Proof. intros; apply key_eqb_eq; reflexivity. Qed.
Lemma key_eqb_neq : forall a b : key, a <> b -> key_eqb a b = false.
Proof. intros a b H; destruct (key_eqb a b) eqn:E; auto. apply key_eqb_eq in E; contradiction. Qed.

Lemma kmem_In : forall k l, kmem k l = true <-> In k l.
Proof.
  intros k l; unfold kmem; rewrite existsb_exists; split.
  - intros [x [Hx E]]; apply key_eqb_eq in E; subst; auto.
  - intros H; exists k; split; auto using key_eqb_refl.
Qed.
Lemma kmem_app : forall k a b, kmem k (a ++ b) = kmem k a || kmem k b.
Proof. intros; unfold kmem; apply existsb_app. Qed.

Lemma kmem_add_key : forall k k' l, kmem k (add_key k' l) = kmem k l || key_eqb k k'.
Proof.
  intros k k' l; unfold add_key. destruct (kmem k' l) eqn:E.
  - destruct (key_eqb k k') eqn:E2; [|rewrite orb_false_r; auto].
    apply key_eqb_eq in E2; subst. rewrite E; auto.
  - rewrite kmem_app; cbn. rewrite orb_false_r; auto.
Qed.
Lemma kmem_add_key_mono : forall k k' l, kmem k l = true -> kmem k (add_key k' l) = true.
Proof. intros; rewrite kmem_add_key, H; auto. Qed.
Lemma kmem_add_key_self : forall k l, kmem k (add_key k l) = true.
Proof. intros; rewrite kmem_add_key, key_eqb_refl, orb_true_r; auto. Qed.
Lemma kmem_add_key_other : forall k k' l, k <> k' -> kmem k (add_key k' l) = kmem k l.
Proof. intros; rewrite kmem_add_key, key_eqb_neq, orb_false_r; auto. Qed.

Lemma kmem_kremove_other : forall k k' l, k <> k' -> kmem k (kremove k' l) = kmem k l.
Proof.
  intros k k' l H. destruct (kmem k l) eqn:E.
  - apply kmem_In. apply kmem_In in E. unfold kremove. apply filter_In; split; auto.
    rewrite key_eqb_neq; auto.
  - destruct (kmem k (kremove k' l)) eqn:E2; auto.
    apply kmem_In in E2. unfold kremove in E2. apply filter_In in E2. destruct E2 as [E2 _].
    apply kmem_In in E2. congruence.
Qed.
Lemma In_kremove : forall x k l, In x (kremove k l) -> In x l.
Proof. unfold kremove; intros x k l H; apply filter_In in H; tauto. Qed.
Lemma In_add_key : forall x k l, In x (add_key k l) -> In x l \/ x = k.
Proof.
  unfold add_key; intros x k l H; destruct (kmem k l); auto.
  apply in_app_or in H; destruct H as [H|[H|[]]]; auto.
Qed.

(* ---- files *)
Lemma flook_fset_same : forall d p f, flook d (fset d p f) = if present d f then Some p else None.
Proof.
  intros d p f; unfold present; induction f as [|[x q] f IH]; cbn; auto.
  destruct (x =? d) eqn:E; cbn; rewrite E; auto.
Qed.
Lemma flook_fset_other : forall d d' p f, d <> d' -> flook d (fset d' p f) = flook d f.
Proof.
  intros d d' p f H; induction f as [|[x q] f IH]; cbn; auto.
  destruct (x =? d') eqn:E; cbn.
  - apply N.eqb_eq in E; subst. destruct (d' =? d) eqn:E2; auto. apply N.eqb_eq in E2; congruence.
  - destruct (x =? d); auto.
Qed.
Lemma flook_fremove_same : forall d f, flook d (fremove d f) = None.
Proof.
  intros d f; unfold fremove; induction f as [|[x q] f IH]; cbn; auto.
  destruct (x =? d) eqn:E; cbn; auto. rewrite E; auto.
Qed.
Lemma flook_fremove_other : forall d d' f, d <> d' -> flook d (fremove d' f) = flook d f.
Proof.
  intros d d' f H; unfold fremove; induction f as [|[x q] f IH]; cbn; auto.
  destruct (x =? d') eqn:E; cbn.
  - apply N.eqb_eq in E; subst. destruct (d' =? d) eqn:E2; auto. apply N.eqb_eq in E2; congruence.
  - destruct (x =? d); auto.
Qed.
Lemma flook_app_some : forall d f g p, flook d f = Some p -> flook d (f ++ g) = Some p.
Proof.
  intros d f g p; induction f as [|[x q] f IH]; cbn; [discriminate|]. destruct (x =? d); auto.
Qed.
Lemma flook_app_none : forall d f g, flook d f = None -> flook d (f ++ g) = flook d g.
Proof.
  intros d f g; induction f as [|[x q] f IH]; cbn; auto. destruct (x =? d); [discriminate|auto].
Qed.

Lemma persisted_present : forall d f, persisted d f = true -> present d f = true.
Proof. unfold persisted, present; intros d f; destruct (flook d f); auto. Qed.

(* ---- thread lists *)
Lemma tlook_In : forall t th l, tlook t l = Some th -> In (t, th) l.
Proof.
  intros t th l; induction l as [|[x o] l IH]; cbn; [discriminate|].
  destruct (x =? t) eqn:E; intros H.
  - apply N.eqb_eq in E; inversion H; subst; auto.
  - auto.
Qed.
Lemma In_tset : forall x t th l, In x (tset t th l) -> In x l \/ x = (t, th).
Proof.
  intros x t th l; induction l as [|[y o] l IH]; cbn; [tauto|].
  destruct (y =? t) eqn:E; cbn.
  - apply N.eqb_eq in E; subst. intros [H|H]; auto.
  - intros [H|H]; auto. destruct (IH H); auto.
Qed.
Lemma In_tremove : forall x t l, In x (tremove t l) -> In x l.
Proof. unfold tremove; intros x t l H; apply filter_In in H; tauto. Qed.
Lemma In_stale_all : forall x d l, In x (stale_all d l) -> exists y, In y l /\ x = (fst y, stale_thread d (snd y)).
Proof. unfold stale_all; intros x d l H; apply in_map_iff in H; destruct H as [y [E H]]; eauto. Qed.

Lemma existsb_tset : forall (f : N * thread -> bool) t th l,
  existsb f (tset t th l) = true -> existsb f l = true \/ f (t, th) = true.
Proof.
  intros f t th l H; apply existsb_exists in H; destruct H as [x [Hx E]].
  apply In_tset in Hx; destruct Hx as [Hx|Hx]; [left; apply existsb_exists; eauto | subst; auto].
Qed.
Lemma existsb_tremove : forall (f : N * thread -> bool) t l,
  existsb f (tremove t l) = true -> existsb f l = true.
Proof.
  intros f t l H; apply existsb_exists in H; destruct H as [x [Hx E]].
  apply In_tremove in Hx; apply existsb_exists; eauto.
Qed.
Lemma up_at_add_stale : forall d d' l, up_at_add d (stale_all d' l) = up_at_add d l.
Proof.
  intros d d' l; unfold up_at_add, stale_all; induction l as [|[x th] l IH]; cbn; auto.
  rewrite IH; f_equal. destruct th as [ns y pc|ns y ph|y pc]; cbn; auto.
  - destruct (y =? d'); auto.
  - destruct pc; auto. destruct (y =? d'); auto.
Qed.
Lemma up_at_add_In : forall d l t ns, In (t, TUp ns d UAdd) l -> up_at_add d l = true.
Proof.
  intros d l t ns H; unfold up_at_add; apply existsb_exists; exists (t, TUp ns d UAdd); cbn.
  split; auto. apply N.eqb_refl.
Qed.
Lemma fc_in_window_In : forall d l t pc, In (t, TFc d pc) l -> in_window pc = true -> fc_in_window d l = true.
Proof.
  intros d l t pc H W; unfold fc_in_window; apply existsb_exists; exists (t, TFc d pc); cbn.
  split; auto. rewrite N.eqb_refl, W; auto.
Qed.

Lemma tasks_named_In : forall h d l, In h (tasks_named d l) <-> In h l /\ snd h = d.
Proof. unfold tasks_named; intros; rewrite filter_In, N.eqb_eq; tauto. Qed.
