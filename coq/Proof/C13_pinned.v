(* The code as pinned (fixed = false) behaves exactly like the fixed code on every history in which
   each write callback delivers as many bytes as were reserved: the defect is the size mismatch,
   nothing else. *)
From Coq Require Import List NArith ZArith Bool Lia.
From K.Model Require Import C13.
From K.Proof Require Import C13.
Import ListNotations.
Local Open Scope N_scope.

Lemma pstep_agree y p :
  (match p with
   | PEnd t (WData len) _ =>
       match lookupP t (s_pend y) with Some (Reserved _ sz) => N.eqb len sz | _ => true end
   | _ => true
   end) = true ->
  pstep false y p = pstep true y p.
Proof.
  destruct p as [t name sz|t w now|t|c]; try reflexivity.
  destruct w as [|len]; [reflexivity|]. cbn [pstep].
  destruct (lookupP t (s_pend y)) as [[name sz|sz]|]; try reflexivity.
  intros ->. reflexivity.
Qed.

Lemma step_agree s o : len_ok s o = true -> step false s o = step true s o.
Proof.
  destruct o as [p|t w|ok|dt|]; cbn [len_ok step]; try reflexivity.
  - intros H. rewrite (pstep_agree (sy s) p); [reflexivity|].
    destruct p as [?|t [|len] now|?|?]; try reflexivity. exact H.
  - intros H. destruct (lookupP t (s_pend (sy s))) as [[name sz|sz]|] eqn:El; try reflexivity.
    rewrite (pstep_agree (sy s) (PEnd t w (clk s))); [reflexivity|].
    destruct w as [|len]; [reflexivity|]. rewrite El. exact H.
Qed.

Lemma run_agree ops : forall s, lens_ok s ops = true -> run false s ops = run true s ops.
Proof.
  induction ops as [|o ops IH]; intros s H; cbn [run lens_ok] in *; [reflexivity|].
  apply andb_true_iff in H. destruct H as [Ho Hops].
  rewrite (step_agree s o Ho) in *. destruct (step true s o) as [s1 r]. cbn [fst] in Hops.
  rewrite (IH s1 Hops). reflexivity.
Qed.

Lemma pinned_balance_partial max ttl mr ops :
  proto max ops = true -> lens_ok (init max ttl mr) ops = true ->
  let y := sy (fst (run false (init max ttl mr) ops)) in
  total y = held y + reserved y /\ total y <= max.
Proof.
  intros Hp Hl. rewrite (run_agree ops _ Hl).
  split; [exact (balance max ttl mr ops Hp) | exact (proj1 (within_budget max ttl mr ops Hp))].
Qed.
