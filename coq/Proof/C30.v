(* C30: soundness of the trace oracle C30_check on the model, i.e. the safety clauses in
   executable form.  The structural theorems are in Proof/Retry.v. *)
From Coq Require Import List NArith Bool Lia Arith.
From K.Model Require Import C30.
From K.Proof Require Import Retry.
Import ListNotations.
Local Open Scope N_scope.

(* ---- reflexivity of the comparisons *)
Lemma status_eqb_refl s : status_eqb s s = true. Proof. destruct s; reflexivity. Qed.
Lemma optN_eqb_refl o : optN_eqb o o = true. Proof. destruct o; cbn; [apply N.eqb_refl|reflexivity]. Qed.
Lemma orow_eqb_refl r : orow_eqb r r = true.
Proof. unfold orow_eqb. rewrite !N.eqb_refl, status_eqb_refl, optN_eqb_refl. reflexivity. Qed.
Lemma rows_eqb_refl l : rows_eqb l l = true.
Proof.
  unfold rows_eqb. rewrite Nat.eqb_refl. cbn.
  assert (F : forallb (fun r => existsb (orow_eqb r) l) l = true).
  { apply forallb_forall. intros r Hr. apply existsb_exists. exists r. split; [assumption|apply orow_eqb_refl]. }
  rewrite F. reflexivity.
Qed.
Lemma mset_eqb_refl l : mset_eqb l l = true.
Proof.
  unfold mset_eqb. rewrite Nat.eqb_refl. cbn. apply forallb_forall. intros. apply N.eqb_refl.
Qed.
Lemma obs_eqb_refl o : obs_eqb o o = true.
Proof. unfold obs_eqb. rewrite rows_eqb_refl, mset_eqb_refl, !N.eqb_refl, eqb_reflx. reflexivity. Qed.

(* ---- what an observation shows *)
Lemma observe_oids s : oids (ob_rows (observe s)) = ids (s_store s).
Proof. unfold observe, oids, ids. destruct (s_mgr s); cbn; rewrite map_map; reflexivity. Qed.

Lemma observe_pending s :
  oids (filter orow_pending (ob_rows (observe s))) = pending_ids (s_store s).
Proof.
  unfold observe, oids, pending_ids, ids.
  assert (G : forall l, map o_id (filter orow_pending (map (fun r => mkorow (r_id r) (r_st r) (r_fail r)
                 match r_last r with Some l0 => Some (s_now s - l0) | None => None end) l)) = map r_id (filter is_pending l)).
  { induction l as [|r l IH]; cbn; [reflexivity|]. unfold orow_pending, is_pending. cbn.
    destruct (status_eqb (r_st r) Pending); cbn; rewrite IH; reflexivity. }
  destruct (s_mgr s); cbn; apply G.
Qed.
