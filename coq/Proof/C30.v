(* C30: soundness of the trace oracle C30_check on the model, i.e. the safety clauses in
   executable form.  The structural theorems are in Proof/Retry.v. *)
From Coq Require Import List NArith Bool Lia Arith.
From K.Model Require Import C30.
From K.Proof Require Import Retry.
Import ListNotations.
Local Open Scope N_scope.

(* ---- reflexivity of the comparisons *)
Lemma status_eqb_refl s : status_eqb s s = true. Proof. destruct s; reflexivity. Qed.
Lemma optN_eqb_refl o : optN_eqb o o = true. Proof. destruct o; cbn; [apply N.eqb_refl|reflexivity]. Qed.
Lemma orow_eqb_refl r : orow_eqb r r = true.
Proof. unfold orow_eqb. rewrite N.eqb_refl, status_eqb_refl, optN_eqb_refl. reflexivity. Qed.
Lemma rows_eqb_refl l : rows_eqb l l = true.
Proof.
  unfold rows_eqb. rewrite Nat.eqb_refl. cbn.
  assert (F : forallb (fun r => existsb (orow_eqb r) l) l = true).
  { apply forallb_forall. intros r Hr. apply existsb_exists. exists r. split; [assumption|apply orow_eqb_refl]. }
  rewrite F. reflexivity.
Qed.
Lemma mset_eqb_refl l : mset_eqb l l = true.
Proof.
  unfold mset_eqb. rewrite Nat.eqb_refl. cbn. apply forallb_forall. intros. apply N.eqb_refl.
Qed.
Lemma obs_eqb_refl o : obs_eqb o o = true.
Proof. unfold obs_eqb. rewrite rows_eqb_refl, mset_eqb_refl, !N.eqb_refl, eqb_reflx. reflexivity. Qed.

(* ---- what an observation shows *)
Lemma observe_oids s : oids (ob_rows (observe s)) = ids (s_store s).
Proof. unfold observe, oids, ids. destruct (s_mgr s); cbn; rewrite map_map; reflexivity. Qed.

Lemma observe_pending s :
  oids (filter orow_pending (ob_rows (observe s))) = pending_ids (s_store s).
Proof.
  unfold observe, oids, pending_ids, ids.
  assert (G : forall l, map o_id (filter orow_pending (map (fun r => mkorow (r_id r) (r_st r) (r_fail r)
                 match r_last r with Some l0 => Some (s_now s - l0) | None => None end) l)) = map r_id (filter is_pending l)).
  { induction l as [|r l IH]; [reflexivity|]. cbn [map filter]. unfold orow_pending at 1, is_pending at 1. cbn [o_st].
    destruct (status_eqb (r_st r) Pending); cbn [map o_id]; rewrite IH; reflexivity. }
  destruct (s_mgr s); cbn; apply G.
Qed.

Lemma same_set_length (l1 l2 : list N) :
  NoDup l1 -> NoDup l2 -> (forall x, In x l1 <-> In x l2) -> length l1 = length l2.
Proof.
  intros N1 N2 H. apply Nat.le_antisymm; apply NoDup_incl_length; auto; intros x Hx; apply H; assumption.
Qed.

Definition fly (m : mgr) : N := len (add_held (m_add m) ++ p_held (m_poll m)).

Lemma held_length sto m :
  NoDup (ids sto) -> held_ok sto m ->
  len (pending_ids sto) = len (m_in m) + len (m_re m) + len (executing m) + fly m.
Proof.
  intros Hn Hh. unfold fly, len.
  assert (E : length (pending_ids sto) = length (held m)).
  { apply same_set_length.
    - unfold pending_ids. apply NoDup_ids_filter. assumption.
    - apply (NoDup_count_occ N.eq_dec). intros x. apply (held_le1 sto m x Hh).
    - intros x. rewrite in_pending_ids. split; intros H.
      + apply (count_occ_In N.eq_dec). rewrite (Hh x), H. lia.
      + apply (held_pending sto m x Hh H). }
  rewrite E. unfold held. rewrite !app_length. lia.
Qed.

Definition a_task (a : astate) : N := match a with AStore t _ => t | AEnq t => t | AMark t => t end.

(* the relation between a model state and the oracle's bookkeeping *)
Record Sim (s : st) (k : chk) : Prop := mkSim {
  sim_ok : k_ok k = true;
  sim_cur : k_cur k = true -> k_obs k = Some (observe s);
  sim_fly : forall m, s_mgr s = Some m -> k_fly k = fly m;
  sim_add : forall m a x, s_mgr s = Some m -> In (a, x) (m_add m) -> alookup a (k_add k) = Some (a_task x);
  sim_fin : forall m w, s_mgr s = Some m -> In w (m_work m) -> w_ph w = WFin true -> In (w_t w) (k_succ k);
  sim_gone : forall p t, k_obs k = Some p -> In t (oids (ob_rows p)) -> storedb t (s_store s) = false -> In t (k_succ k);
  sim_fresh : k_fresh k = true ->
              (forall r, In r (s_store s) -> r_st r = Failed) /\
              exists m, s_mgr s = Some m /\ m_in m = [] /\ m_re m = [] /\ m_work m = [];
  sim_noop : k_noop k = true -> k_cur k = true }.

Lemma sim_init c : Sim (init c) chk0.
Proof.
  constructor; cbn; try discriminate; try reflexivity.
Qed.

Lemma len_app a b : len (a ++ b) = len a + len b.
Proof. unfold len. rewrite app_length. lia. Qed.

Lemma fly_set_add l m : fly (set_add l m) = len (add_held l) + len (p_held (m_poll m)).
Proof. destruct m. unfold fly. cbn. apply len_app. Qed.
Lemma fly_eq m : fly m = len (add_held (m_add m)) + len (p_held (m_poll m)).
Proof. unfold fly. apply len_app. Qed.
Lemma len_add_held_mid b x af : len (add_held (b ++ x :: af)) = len (a_held (snd x)) + len (add_held (b ++ af)).
Proof. rewrite add_held_app, add_held_app2, !len_app. lia. Qed.

Lemma pick_key a l b x af : pick (fun p : N * astate => fst p =? a) l = Some (b, x, af) -> l = b ++ x :: af /\ fst x = a.
Proof. intros H. apply pick_spec in H as [H1 H2]. apply N.eqb_eq in H2. auto. Qed.

Lemma memb_ids t s : memb t (ids s) = storedb t s.
Proof.
  destruct (storedb t s) eqn:E.
  - apply memb_In, storedb_In. assumption.
  - destruct (memb t (ids s)) eqn:M; [|reflexivity]. apply memb_In, storedb_In in M. congruence.
Qed.

Lemma fly_push q t m : fly (push q t m) = fly m.
Proof. destruct m, q; reflexivity. Qed.
Lemma work_push q t m : m_work (push q t m) = m_work m.
Proof. destruct m, q; reflexivity. Qed.
Lemma add_push q t m : m_add (push q t m) = m_add m.
Proof. destruct m, q; reflexivity. Qed.
Lemma work_set_add l m : m_work (set_add l m) = m_work m.
Proof. destruct m; reflexivity. Qed.
Lemma add_set_add l m : m_add (set_add l m) = l.
Proof. destruct m; reflexivity. Qed.
Lemma fly_set_poll p m : fly (set_poll p m) = len (add_held (m_add m)) + len (p_held p).
Proof. destruct m. unfold fly. cbn. apply len_app. Qed.
Lemma work_set_poll p m : m_work (set_poll p m) = m_work m.
Proof. destruct m; reflexivity. Qed.
Lemma add_set_poll p m : m_add (set_poll p m) = m_add m.
Proof. destruct m; reflexivity. Qed.

Ltac flyn m :=
  unfold fly;
  destruct m as [cl qi qr ii ir wk ad pl];
  unfold set_add, set_poll, push, set_queue, set_work, set_idle, queue_of in *; cbn [m_add m_poll] in *;
  subst;
  rewrite ?len_app, ?len_add_held_mid; cbn [snd a_held p_held];
  repeat match goal with |- context[len [?x]] => change (len [x]) with 1 end;
  change (len (@nil N)) with 0; lia.

Ltac sim_auto HS :=
  let h1 := fresh "h1" in let h2 := fresh "h2" in let h3 := fresh "h3" in let h4 := fresh "h4" in
  let h5 := fresh "h5" in let h6 := fresh "h6" in let h7 := fresh "h7" in let h8 := fresh "h8" in
  destruct HS as [h1 h2 h3 h4 h5 h6 h7 h8]; constructor; unfold with_mgr, with_sm in *;
  cbn [k_ok k_cur k_obs k_fly k_add k_succ k_fresh k_noop touch quiet with_fly with_ok
       s_store s_mgr s_cfg s_now s_log fst snd] in *;
  try discriminate; try assumption; eauto.

Lemma sim_step s k o : Inv s -> Sim s k -> Sim (fst (step s o)) (chk_step k o (snd (step s o))).
Proof.
  destruct s as [c sto now mg log]. intros HI HS. pose proof HI as [Hn Hm]. cbn [s_store s_mgr s_log] in Hn, Hm.
  destruct o; unfold step; cbn [s_store s_mgr s_log s_cfg s_now].
  - (* Start *) destruct mg as [m|]; [exact HS|].
    destruct (order_ok order (pending_ids sto)) eqn:O; [|exact HS].
    cbn [fst snd chk_step]. sim_auto HS.
    + intros m E; inversion E; reflexivity.
    + intros m a x E; inversion E; intros [].
    + intros m w E; inversion E; intros [].
    + intros p t Hp Hin S. apply (h6 p t Hp Hin). rewrite <- S. symmetry. apply storedb_mark_failed_all.
    + intros _. split; [apply mark_all_failed; assumption|]. exists (fresh_mgr c). repeat split.
  - (* StartCrash *) destruct mg as [m|]; [exact HS|].
    destruct (order_ok order (pending_ids sto)) eqn:O; [|exact HS].
    cbn [fst snd chk_step]. sim_auto HS.
    intros p t Hp Hin S. apply (h6 p t Hp Hin). rewrite <- S. symmetry. apply storedb_mark_failed_all.
  - (* Crash *) cbn [fst snd chk_step with_mgr]. sim_auto HS.
  - (* Close *) destruct mg as [m|]; [|exact HS]. cbn [fst snd chk_step with_mgr]. sim_auto HS.
    + intros m' E. inversion E. rewrite (h3 m eq_refl). destruct m; reflexivity.
    + intros m' a x E. inversion E. intros Hin. apply (h4 m a x eq_refl). destruct m; exact Hin.
    + intros m' w E. inversion E. intros Hin. apply (h5 m w eq_refl). destruct m; exact Hin.
    + intros H. destruct (h7 H) as [F [m0 [E [A [B C]]]]]. inversion E. subst m0. split; [assumption|].
      exists (set_closed m). destruct m; cbn in *. auto.
  - (* CloseDone *) destruct mg as [m|]; [|exact HS].
    destruct (m_closed m && match m_work m with [] => true | _ => false end); [|exact HS].
    cbn [fst snd chk_step]. sim_auto HS.
  - (* Tick *) cbn [fst snd chk_step]. sim_auto HS.
  - (* AddCheck *) destruct mg as [m|]; [|exact HS].
    destruct (existsb (fun p => fst p =? a) (m_add m)) eqn:Fr; [exact HS|].
    destruct (m_closed m); cbn [fst snd chk_step]; [sim_auto HS|]. sim_auto HS.
    + intros m' E. inversion E. rewrite (h3 m eq_refl). rewrite fly_set_add, fly_eq. reflexivity.
    + intros m' a0 x E. inversion E. subst m'. destruct m as [cl qi qr ii ir wk ad pl]. cbn [m_add set_add] in *.
      intros [Hin|Hin].
      * inversion Hin. subst. cbn. rewrite N.eqb_refl. reflexivity.
      * cbn [alookup]. destruct (a =? a0) eqn:Ea.
        -- apply N.eqb_eq in Ea. subst a0. exfalso.
           assert (X : existsb (fun p : N * astate => fst p =? a) ad = true)
             by (apply existsb_exists; exists (a, x); split; [assumption|apply N.eqb_refl]).
           congruence.
        -- apply (h4 _ a0 x eq_refl Hin).
    + intros m' w E. inversion E. subst m'. intros Hin. apply (h5 m w eq_refl). destruct m; exact Hin.
    + intros H. destruct (h7 H) as [F [m0 [E [A [B C]]]]]. inversion E. subst m0. split; [assumption|].
      eexists. split; [reflexivity|]. destruct m; cbn in *. auto.
  - (* AddStore *) destruct mg as [m|]; [|exact HS]. destruct Hm as [Hh [Hs Hl]].
    destruct (pick (fun p => fst p =? a) (m_add m)) as [[[b [a' [t d| |]]] af]|] eqn:P; try exact HS.
    apply pick_key in P as [P Ea]. cbn in Ea. subst a'.
    assert (Lk : alookup a (k_add k) = Some t).
    { apply (sim_add _ _ HS m a (AStore t d) eq_refl). rewrite P. apply in_or_app. right. left. reflexivity. }
    destruct (add_row t (if d =? 0 then Pending else Failed) d now sto) as [sto'|] eqn:A.
    + apply add_row_some in A as [A ->].
      assert (Kn : match k_obs k, alookup a (k_add k) with
                   | Some p, Some t0 => k_cur k && memb t0 (oids (ob_rows p)) | _, _ => false end = false).
      { rewrite Lk. destruct (k_obs k) as [p|] eqn:Ko; [|reflexivity]. destruct (k_cur k) eqn:Kc; [|reflexivity].
        rewrite (sim_cur _ _ HS Kc) in Ko. inversion Ko. rewrite observe_oids. cbn [s_store]. rewrite memb_ids, A. reflexivity. }
      destruct (d =? 0); cbn [fst snd chk_step]; rewrite Kn; sim_auto HS.
      * rewrite h1. reflexivity.
      * intros m' E. inversion E. rewrite (h3 m eq_refl). rewrite fly_set_add, fly_eq, P, !len_add_held_mid.
        cbn [snd a_held]. change (len [t]) with 1. change (len (@nil N)) with 0. destruct m as [cl qi qr ii ir wk ad pl]; cbn [m_poll]; lia.
      * intros m' a0 x E. inversion E. subst m'. destruct m as [cl qi qr ii ir wk ad pl]. cbn [m_add set_add] in *. subst ad.
        intros Hin. apply in_app_or in Hin. destruct Hin as [Hin|[Hin|Hin]].
        -- apply (h4 _ a0 x eq_refl). apply in_or_app. auto.
        -- inversion Hin. subst. exact Lk.
        -- apply (h4 _ a0 x eq_refl). apply in_or_app. right. right. assumption.
      * intros m' w E. inversion E. subst m'. intros Hin. apply (h5 m w eq_refl). destruct m; exact Hin.
      * intros p t0 Hp Hin S. apply (h6 p t0 Hp Hin). rewrite storedb_app in S. apply orb_false_iff in S as [S _]. exact S.
      * rewrite h1. reflexivity.
      * intros m' E. inversion E. rewrite (h3 m eq_refl). rewrite fly_set_add, fly_eq, P, !len_add_held_mid.
        cbn [snd a_held]. change (len [t]) with 1. change (len (@nil N)) with 0. destruct m as [cl qi qr ii ir wk ad pl]; cbn [m_poll]; lia.
      * intros m' a0 x E. inversion E. subst m'. destruct m as [cl qi qr ii ir wk ad pl]. cbn [m_add set_add] in *. subst ad.
        intros Hin. apply (h4 _ a0 x eq_refl). apply in_app_or in Hin. apply in_or_app. cbn. tauto.
      * intros m' w E. inversion E. subst m'. intros Hin. apply (h5 m w eq_refl). destruct m; exact Hin.
      * intros p t0 Hp Hin S. apply (h6 p t0 Hp Hin). rewrite storedb_app in S. apply orb_false_iff in S as [S _]. exact S.
    + cbn [fst snd chk_step]. sim_auto HS.
      * intros m' E. inversion E. rewrite (h3 m eq_refl). rewrite fly_set_add, fly_eq, P, !len_add_held_mid.
        cbn [snd a_held]. change (len [t]) with 1. change (len (@nil N)) with 0. destruct m as [cl qi qr ii ir wk ad pl]; cbn [m_poll]; lia.
      * intros m' a0 x E. inversion E. subst m'. destruct m as [cl qi qr ii ir wk ad pl]. cbn [m_add set_add] in *. subst ad.
        intros Hin. apply (h4 _ a0 x eq_refl). apply in_app_or in Hin. apply in_or_app. cbn. tauto.
      * intros m' w E. inversion E. subst m'. intros Hin. apply (h5 m w eq_refl). destruct m; exact Hin.
      * intros H. destruct (h7 H) as [F [m0 [E [A' [B C]]]]]. inversion E. subst m0. split; [assumption|].
        eexists. split; [reflexivity|]. destruct m; cbn in *. auto.
  - (* AddEnq *) destruct mg as [m|]; [|exact HS]. destruct Hm as [Hh [Hs Hl]].
    destruct (pick (fun p => fst p =? a) (m_add m)) as [[[b [a' [t d|t|t]]] af]|] eqn:P; try exact HS.
    apply pick_key in P as [P Ea]. cbn in Ea. subst a'.
    assert (Lk : alookup a (k_add k) = Some t).
    { apply (sim_add _ _ HS m a (AEnq t) eq_refl). rewrite P. apply in_or_app. right. left. reflexivity. }
    destruct (has_room QIn c m); cbn [fst snd chk_step]; sim_auto HS.
    + intros m' E. inversion E. rewrite (h3 m eq_refl). flyn m.
    + intros m' a0 x E. inversion E. subst m'. cbn [m_add].
      intros Hin. apply (h4 _ a0 x eq_refl). rewrite P. apply in_app_or in Hin. apply in_or_app. cbn. tauto.
    + intros m' w E. inversion E. subst m'. cbn [m_work]. apply (h5 m w eq_refl).
    + intros m' E. inversion E. rewrite (h3 m eq_refl). flyn m.
    + intros m' a0 x E. inversion E. subst m'. cbn [m_add].
      intros Hin. apply in_app_or in Hin. destruct Hin as [Hin|[Hin|Hin]].
      * apply (h4 _ a0 x eq_refl). rewrite P. apply in_or_app. auto.
      * inversion Hin. subst. exact Lk.
      * apply (h4 _ a0 x eq_refl). rewrite P. apply in_or_app. right. right. assumption.
    + intros m' w E. inversion E. subst m'. cbn [m_work]. apply (h5 m w eq_refl).
    + intros H. destruct (h7 H) as [F [m0 [E [A' [B C]]]]]. inversion E. subst m0. split; [assumption|].
      eexists. split; [reflexivity|]. cbn. auto.
  - (* AddMark *) destruct mg as [m|]; [|exact HS]. destruct Hm as [Hh [Hs Hl]].
    destruct (pick (fun p => fst p =? a) (m_add m)) as [[[b [a' [t d|t|t]]] af]|] eqn:P; try exact HS.
    apply pick_key in P as [P Ea]. cbn in Ea. subst a'.
    assert (K' : chk_step k (OpAddMark a) (if storedb t sto then ODone else ONotFound) = touch (with_fly (k_fly k - 1) k))
      by (destruct (storedb t sto); reflexivity).
    cbn [fst snd]. rewrite K'. clear K'. sim_auto HS.
    + intros m' E. inversion E. rewrite (h3 m eq_refl). flyn m.
    + intros m' a0 x E. inversion E. subst m'. cbn [m_add].
      intros Hin. apply (h4 _ a0 x eq_refl). rewrite P. apply in_app_or in Hin. apply in_or_app. cbn. tauto.
    + intros m' w E. inversion E. subst m'. cbn [m_work]. apply (h5 m w eq_refl).
    + intros p t0 Hp Hin S. apply (h6 p t0 Hp Hin). rewrite storedb_mark_failed in S. exact S.
  - (* PollGet *) destruct mg as [m|]; [|exact HS].
    destruct (m_poll m) eqn:Pl; [exact HS|].
    destruct (order_ok order (failed_ids sto)); [|exact HS]. cbn [fst snd chk_step]. sim_auto HS.
    + intros m' E. inversion E. rewrite (h3 m eq_refl). flyn m.
    + intros m' a0 x E. inversion E. subst m'. destruct m; cbn. apply (h4 _ a0 x eq_refl).
    + intros m' w E. inversion E. subst m'. destruct m; cbn. apply (h5 _ w eq_refl).
    + intros H. destruct (h7 H) as [F [m0 [E [A' [B C]]]]]. inversion E. subst m0. split; [assumption|].
      eexists. split; [reflexivity|]. destruct m; cbn in *. auto.
  - (* PollNext *) destruct mg as [m|]; [|exact HS].
    destruct (m_poll m) as [[[|r rest]|t rest|t rest]|] eqn:Pl; try exact HS.
    + cbn [fst snd chk_step]. sim_auto HS.
      * intros m' E. inversion E. rewrite (h3 m eq_refl). flyn m.
      * intros m' a0 x E. inversion E. subst m'. destruct m; cbn. apply (h4 _ a0 x eq_refl).
      * intros m' w E. inversion E. subst m'. destruct m; cbn. apply (h5 _ w eq_refl).
      * intros H. destruct (h7 H) as [F [m0 [E [A' [B C]]]]]. inversion E. subst m0. split; [assumption|].
        eexists. split; [reflexivity|]. destruct m; cbn in *. auto.
    + destruct (due (c_ri c) now r); [destruct (storedb (r_id r) sto)|]; cbn [fst snd chk_step]; sim_auto HS.
      * intros m' E. inversion E. rewrite (h3 m eq_refl). flyn m.
      * intros m' a0 x E. inversion E. subst m'. destruct m; cbn. apply (h4 _ a0 x eq_refl).
      * intros m' w E. inversion E. subst m'. destruct m; cbn. apply (h5 _ w eq_refl).
      * intros p t0 Hp Hin S. apply (h6 p t0 Hp Hin). rewrite storedb_mark_pending in S. exact S.
      * intros m' E. inversion E. rewrite (h3 m eq_refl). flyn m.
      * intros m' a0 x E. inversion E. subst m'. destruct m; cbn. apply (h4 _ a0 x eq_refl).
      * intros m' w E. inversion E. subst m'. destruct m; cbn. apply (h5 _ w eq_refl).
      * intros H. destruct (h7 H) as [F [m0 [E [A' [B C]]]]]. inversion E. subst m0. split; [assumption|].
        eexists. split; [reflexivity|]. destruct m; cbn in *. auto.
      * intros m' E. inversion E. rewrite (h3 m eq_refl). flyn m.
      * intros m' a0 x E. inversion E. subst m'. destruct m; cbn. apply (h4 _ a0 x eq_refl).
      * intros m' w E. inversion E. subst m'. destruct m; cbn. apply (h5 _ w eq_refl).
      * intros H. destruct (h7 H) as [F [m0 [E [A' [B C]]]]]. inversion E. subst m0. split; [assumption|].
        eexists. split; [reflexivity|]. destruct m; cbn in *. auto.
  - (* PollEnq *) destruct mg as [m|]; [|exact HS].
    destruct (m_poll m) as [[rest|t rest|t rest]|] eqn:Pl; try exact HS.
    destruct (has_room QRe c m); cbn [fst snd chk_step]; sim_auto HS.
    + intros m' E. inversion E. rewrite (h3 m eq_refl). flyn m.
    + intros m' a0 x E. inversion E. subst m'. destruct m; cbn. apply (h4 _ a0 x eq_refl).
    + intros m' w E. inversion E. subst m'. destruct m; cbn. apply (h5 _ w eq_refl).
    + intros m' E. inversion E. rewrite (h3 m eq_refl). flyn m.
    + intros m' a0 x E. inversion E. subst m'. destruct m; cbn. apply (h4 _ a0 x eq_refl).
    + intros m' w E. inversion E. subst m'. destruct m; cbn. apply (h5 _ w eq_refl).
    + intros H. destruct (h7 H) as [F [m0 [E [A' [B C]]]]]. inversion E. subst m0. split; [assumption|].
      eexists. split; [reflexivity|]. destruct m; cbn in *. auto.
  - (* PollMark *) destruct mg as [m|]; [|exact HS].
    destruct (m_poll m) as [[rest|t rest|t rest]|] eqn:Pl; try exact HS.
    assert (K' : chk_step k OpPollMark (if storedb t sto then ODone else ONotFound) = touch (with_fly (k_fly k - 1) k))
      by (destruct (storedb t sto); reflexivity).
    cbn [fst snd]. rewrite K'. clear K'. sim_auto HS.
    + intros m' E. inversion E. rewrite (h3 m eq_refl). flyn m.
    + intros m' a0 x E. inversion E. subst m'. destruct m; cbn. apply (h4 _ a0 x eq_refl).
    + intros m' w E. inversion E. subst m'. destruct m; cbn. apply (h5 _ w eq_refl).
    + intros p t0 Hp Hin S. apply (h6 p t0 Hp Hin). rewrite storedb_mark_failed in S. exact S.
  - (* Deq *) destruct mg as [m|]; [|exact HS].
    destruct (queue_of q m) as [|t tl] eqn:Q; [exact HS|].
    destruct (0 <? idle_of q m); [|exact HS]. cbn [fst snd chk_step]. sim_auto HS.
    + intros m' E. inversion E. rewrite (h3 m eq_refl). destruct q; flyn m.
    + intros m' a0 x E. inversion E. subst m'. destruct m, q; cbn; apply (h4 _ a0 x eq_refl).
    + intros m' w E. inversion E. subst m'. intros Hin Ph.
      assert (Hin' : w = mkw q t WRun \/ In w (m_work m)) by (destruct m, q; cbn in Hin; destruct Hin; auto).
      destruct Hin' as [->|Hin']; [discriminate|]. apply (h5 m w eq_refl Hin' Ph).
  - (* ExecRet *) destruct mg as [m|]; [|exact HS].
    destruct (pick (fun w => (w_t w =? t) && is_run w) (m_work m)) as [[[b w] af]|] eqn:P; [|exact HS].
    apply pick_spec in P as [P Pf]. apply andb_true_iff in Pf as [Pf1 Pf2]. apply N.eqb_eq in Pf1.
    assert (Ob : observe (mks c sto now (Some (set_work (b ++ mkw (w_q w) t (WFin ok) :: af) m)) (ERet t ok :: log))
                 = observe (mks c sto now (Some m) log)).
    { destruct m as [cl qi qr ii ir wk ad pl]. cbn [m_work] in P. subst wk. unfold observe, executing. cbn.
      rewrite !map_app. cbn. rewrite Pf1. reflexivity. }
    assert (Wk : forall w', In w' (b ++ mkw (w_q w) t (WFin ok) :: af) ->
                 w' = mkw (w_q w) t (WFin ok) \/ In w' (m_work m)).
    { intros w' Hin. rewrite P. apply in_app_or in Hin. rewrite in_app_iff. cbn in *. destruct Hin as [|[|]]; auto. }
    destruct ok; cbn [fst snd chk_step]; sim_auto HS.
    + intros H. rewrite Ob. auto.
    + intros m' E. inversion E. rewrite (h3 m eq_refl). flyn m.
    + intros m' a0 x E. inversion E. subst m'. destruct m; cbn. apply (h4 _ a0 x eq_refl).
    + intros m' w' E. inversion E. subst m'. intros Hin Ph.
      assert (Hin' : In w' (b ++ mkw (w_q w) t (WFin true) :: af)) by (destruct m; exact Hin).
      destruct (Wk w' Hin') as [->|Hin'']; [left; reflexivity|]. right. apply (h5 m w' eq_refl Hin'' Ph).
    + intros p t0 Hp Hin S. right. apply (h6 p t0 Hp Hin S).
    + intros H. destruct (h7 H) as [F [m0 [E [A' [B C]]]]]. inversion E. subst m0. rewrite C in P.
      destruct b; discriminate.
    + intros H. rewrite Ob. auto.
    + intros m' E. inversion E. rewrite (h3 m eq_refl). flyn m.
    + intros m' a0 x E. inversion E. subst m'. destruct m; cbn. apply (h4 _ a0 x eq_refl).
    + intros m' w' E. inversion E. subst m'. intros Hin Ph.
      assert (Hin' : In w' (b ++ mkw (w_q w) t (WFin false) :: af)) by (destruct m; exact Hin).
      destruct (Wk w' Hin') as [->|Hin'']; [discriminate|]. apply (h5 m w' eq_refl Hin'' Ph).
    + intros H. destruct (h7 H) as [F [m0 [E [A' [B C]]]]]. inversion E. subst m0. rewrite C in P.
      destruct b; discriminate.
  - (* ExecFin *) destruct mg as [m|]; [|exact HS].
    destruct (pick (fun w => (w_t w =? t) && is_fin w) (m_work m)) as [[[b w] af]|] eqn:P; [|exact HS].
    apply pick_spec in P as [P Pf]. apply andb_true_iff in Pf as [Pf1 Pf2]. apply N.eqb_eq in Pf1.
    assert (Wk : forall w', In w' (m_work (set_idle (w_q w) (idle_of (w_q w) m + 1) (set_work (b ++ af) m))) -> In w' (m_work m)).
    { intros w' Hin. rewrite P. destruct m, (w_q w); cbn in Hin; apply in_app_or in Hin; apply in_or_app; cbn; tauto. }
    assert (Hw : In w (m_work m)) by (rewrite P; apply in_or_app; right; left; reflexivity).
    assert (K' : chk_step k (OpExecFin t) (if storedb t sto then OFailed else ONotFound) = touch k)
      by (destruct (storedb t sto); reflexivity).
    destruct (w_ph w) as [|[|]] eqn:Ph; cbn [fst snd]; rewrite ?K'; cbn [chk_step]; sim_auto HS.
    + intros m' E. inversion E. rewrite (h3 m eq_refl). destruct (w_q w); flyn m.
    + intros m' a0 x E. inversion E. subst m'. destruct m, (w_q w); cbn; apply (h4 _ a0 x eq_refl).
    + intros m' w' E. inversion E. subst m'. intros Hin. apply (h5 m w' eq_refl). apply Wk. assumption.
    + intros p t0 Hp Hin S. apply (h6 p t0 Hp Hin). rewrite storedb_mark_failed in S. exact S.
    + intros m' E. inversion E. rewrite (h3 m eq_refl). destruct (w_q w); flyn m.
    + intros m' a0 x E. inversion E. subst m'. destruct m, (w_q w); cbn; apply (h4 _ a0 x eq_refl).
    + intros m' w' E. inversion E. subst m'. intros Hin. apply (h5 m w' eq_refl). apply Wk. assumption.
    + intros p t0 Hp Hin S. rewrite storedb_remove in S. apply andb_false_iff in S as [S|S].
      * apply negb_false_iff, N.eqb_eq in S. subst t0. rewrite <- Pf1. apply (h5 m w eq_refl Hw Ph).
      * apply (h6 p t0 Hp Hin S).
    + intros m' E. inversion E. rewrite (h3 m eq_refl). destruct (w_q w); flyn m.
    + intros m' a0 x E. inversion E. subst m'. destruct m, (w_q w); cbn; apply (h4 _ a0 x eq_refl).
    + intros m' w' E. inversion E. subst m'. intros Hin. apply (h5 m w' eq_refl). apply Wk. assumption.
    + intros p t0 Hp Hin S. apply (h6 p t0 Hp Hin). rewrite storedb_mark_failed in S. exact S.
  - (* Observe *)
    set (s := mks c sto now mg log). cbn [fst snd chk_step].
    assert (C1 : cl_removed k (observe s) = true).
    { unfold cl_removed. destruct (k_obs k) as [p|] eqn:Ko; [|reflexivity].
      apply forallb_forall. intros t Hin. rewrite observe_oids, memb_ids. cbn [s_store s].
      destruct (storedb t sto) eqn:S; [reflexivity|]. cbn. apply memb_In. apply (sim_gone _ _ HS p t Ko Hin S). }
    assert (C2 : cl_held k (observe s) = true).
    { unfold cl_held. destruct mg as [m|]; [|reflexivity]. destruct Hm as [Hh [Hs Hl]].
      replace (ob_alive (observe s)) with true by reflexivity.
      rewrite observe_pending. cbn [s_store s]. apply andb_true_iff. split.
      - apply N.eqb_eq. rewrite (held_length sto m Hn Hh), (sim_fly _ _ HS m eq_refl). reflexivity.
      - apply forallb_forall. intros t Hin. apply memb_In, in_pending_ids.
        apply (held_pending sto m t Hh). apply held_iff. right. right. left. exact Hin. }
    assert (C3 : cl_fresh k (observe s) = true).
    { unfold cl_fresh. destruct (k_fresh k) eqn:Kf; [|reflexivity].
      destruct (sim_fresh _ _ HS Kf) as [F [m0 [E [A' [B C]]]]]. cbn [s_mgr s_store] in *. subst mg.
      unfold observe, executing. cbn [s_mgr s_store s]. rewrite A', B, C. cbn.
      rewrite !andb_true_r. apply forallb_forall. intros r Hr. apply in_map_iff in Hr as [x [<- Hx]].
      unfold orow_pending. cbn. rewrite (F x Hx). reflexivity. }
    assert (C4 : cl_noop k (observe s) = true).
    { unfold cl_noop. destruct (k_noop k) eqn:Kn; [|reflexivity].
      rewrite (sim_cur _ _ HS (sim_noop _ _ HS Kn)). apply obs_eqb_refl. }
    rewrite C1, C2, C3, C4. sim_auto HS.
    + rewrite h1. reflexivity.
    + intros m w E Hin Ph. apply filter_In. split; [apply (h5 m w E Hin Ph)|].
      rewrite observe_oids, memb_ids. cbn [s_store s]. unfold s in E. cbn [s_mgr] in E. rewrite E in Hm. destruct Hm as [Hh _].
      apply pendingb_stored. apply (held_pending sto m _ Hh). apply held_iff. right. right. left.
      unfold executing. apply in_map. assumption.
    + intros p t E Hin S. inversion E. subst p. rewrite observe_oids in Hin. apply storedb_In in Hin.
      congruence.
Qed.

Lemma sim_run ops : forall s k, Inv s -> Sim s k -> Sim (fst (run s ops)) (chk_run k ops (snd (run s ops))).
Proof.
  induction ops as [|o ops IH]; intros s k HI HS; [exact HS|].
  cbn [run]. pose proof (sim_step s k o HI HS) as H1. pose proof (inv_step s o HI) as H2.
  destruct (step s o) as [s1 r]. cbn [fst snd] in H1, H2.
  specialize (IH s1 (chk_step k o r) H2 H1). destruct (run s1 ops) as [s2 rs]. exact IH.
Qed.

(* the oracle accepts every trace of the model: the safety clauses hold on all histories *)
Theorem check_sound c ops : C30_check ops (snd (run (init c) ops)) = true.
Proof. unfold C30_check. apply (sim_ok _ _ (sim_run ops (init c) chk0 (inv_init c) (sim_init c))). Qed.

(* ---- the clauses, stated over reachable states *)

Lemma removed_only_after_success s o t :
  reachable s -> storedb t (s_store s) = true -> storedb t (s_store (fst (step s o))) = false ->
  o = OpExecFin t /\ last_ev t (s_log s) = Some (ERet t true).
Proof. intros R. apply removal_step, reachable_inv, R. Qed.

Lemma no_lost_task_r s m t :
  reachable s -> s_mgr s = Some m -> pendingb t (s_store s) = true ->
  count_occ N.eq_dec (held m) t = 1%nat /\
  (In t (m_in m) \/ In t (m_re m) \/ In t (executing m) \/ In t (add_held (m_add m)) \/ In t (p_held (m_poll m))).
Proof. intros R. apply no_lost_task, reachable_inv, R. Qed.

Lemma held_is_pending_r s m t :
  reachable s -> s_mgr s = Some m -> In t (held m) ->
  pendingb t (s_store s) = true /\ count_occ N.eq_dec (held m) t = 1%nat.
Proof. intros R. apply held_is_pending, reachable_inv, R. Qed.

Lemma start_order_exists_r s : reachable s -> order_ok (pending_ids (s_store s)) (pending_ids (s_store s)) = true.
Proof. intros R. apply start_order_exists, reachable_inv, R. Qed.

Lemma progress_possible_r s t :
  reachable s -> cfg_ok (s_cfg s) = true -> storedb t (s_store s) = true ->
  exists ops s' outs l, run s ops = (s', outs) /\ legal outs /\ s_log s' = l ++ s_log s /\ In (EStart t) l.
Proof. intros R. apply progress_possible, reachable_inv, R. Qed.

Lemma until_success_r s t n :
  reachable s -> cfg_ok (s_cfg s) = true -> storedb t (s_store s) = true ->
  exists ops s' outs l, run s ops = (s', outs) /\ legal outs /\ s_log s' = l ++ s_log s /\
    about t l = ERet t true :: EStart t :: fails t n /\ storedb t (s_store s') = false.
Proof. intros R. apply until_success, reachable_inv, R. Qed.

(* a failed execution, a full queue and a restart keep the task: it stays stored whatever happens
   short of the worker's Remove after a success *)
Lemma stays_stored s o t :
  reachable s -> storedb t (s_store s) = true -> o <> OpExecFin t -> storedb t (s_store (fst (step s o))) = true.
Proof.
  intros R S Ne. destruct (storedb t (s_store (fst (step s o)))) eqn:E; [reflexivity|].
  destruct (removed_only_after_success s o t R S E) as [K _]. contradiction.
Qed.

(* ---- thread fairness is not enough: a schedule in which the poller completes pass after pass
   and the retry worker executes task after task, yet task 2 never reaches the executor, because
   the retry queue (capacity 1) is full whenever its turn comes (rows are polled in the same order
   every time and tasks 0 and 1, which keep failing, are ahead of it) *)
Definition starve_cfg := mkcfg 1 1 1 1 0.
Definition starve_setup : list op :=
  [OpStart []; OpAddCheck 0 0 1; OpAddStore 0; OpAddCheck 1 1 1; OpAddStore 1; OpAddCheck 2 2 1; OpAddStore 2].
Definition starve_round : list op :=
  [OpTick 1; OpPollGet [0;1;2]; OpPollNext; OpPollEnq; OpDeq QRe; OpPollNext; OpPollEnq; OpPollNext; OpPollEnq;
   OpPollMark; OpPollNext; OpExecRet 0 false; OpExecFin 0; OpDeq QRe; OpExecRet 1 false; OpExecFin 1].
Definition srow (i n : N) := mkrow i Failed n 0 1 (Some n).
Definition starve_state (n : N) (log : list ev) : st :=
  mks starve_cfg [srow 0 n; srow 1 n; srow 2 n] n (Some (mkm false [] [] 1 1 [] [] None)) log.
Definition starve_evs := [ERet 1 false; EStart 1; ERet 0 false; EStart 0].
Definition starve_outs :=
  [ODone; ODone; OMarked 0; OSent; ODeq 0; OMarked 1; OSent; OMarked 2; OOverflow; ODone; ODone; ODone;
   OFailed; ODeq 1; ODone; OFailed].
Fixpoint rep {A} (n : nat) (l : list A) : list A := match n with O => [] | S k => l ++ rep k l end.

Lemma due_s i st f n : due 0 (n + 1) (mkrow i st f 0 1 (Some n)) = true.
Proof.
  unfold due, ready. cbn [r_delay r_created r_last]. apply andb_true_iff.
  split; [apply N.leb_le|apply N.ltb_lt]; lia.
Qed.
Lemma run_cons_eq s o ops s1 r :
  step s o = (s1, r) -> run s (o :: ops) = (let '(s2, rs) := run s1 ops in (s2, r :: rs)).
Proof. intros E. cbn [run]. rewrite E. reflexivity. Qed.
Ltac one_step :=
  erewrite run_cons_eq;
  [|unfold step; cbn -[N.add N.sub due N.ltb N.leb]; rewrite ?due_s; cbn -[N.add N.sub due N.ltb N.leb]; reflexivity].

Lemma starve_round_run n log :
  run (starve_state n log) starve_round = (starve_state (n + 1) (starve_evs ++ log), starve_outs).
Proof.
  unfold starve_state, starve_round, starve_cfg, srow.
  do 16 one_step. reflexivity.
Qed.

Lemma starve_first :
  run (init starve_cfg) (starve_setup ++ starve_round) =
  (starve_state 1 starve_evs, [ODone; ODone; OStored Failed; ODone; OStored Failed; ODone; OStored Failed] ++ starve_outs).
Proof. vm_compute. reflexivity. Qed.

Lemma starve_rounds n : forall k log,
  run (starve_state k log) (rep n starve_round) = (starve_state (k + N.of_nat n) (rep n starve_evs ++ log), rep n starve_outs).
Proof.
  induction n as [|n IH]; intros k log.
  - cbn [rep run]. rewrite N.add_0_r. reflexivity.
  - cbn [rep]. rewrite run_app, starve_round_run, IH. f_equal.
    + f_equal; [lia|]. rewrite <- !app_assoc.
      assert (G : forall m (x : list ev), rep m x ++ x = x ++ rep m x).
      { induction m as [|m IHm]; intros x; cbn [rep]; [rewrite app_nil_r; reflexivity|]. rewrite <- app_assoc, IHm. reflexivity. }
      rewrite app_assoc, G, <- app_assoc. reflexivity.
Qed.

Lemma in_rep {A} (x : A) n l : In x (rep n l) -> In x l.
Proof. induction n as [|n IH]; cbn [rep]; intros H; [destruct H|]. apply in_app_or in H. tauto. Qed.

Theorem thread_fairness_insufficient n :
  exists s outs,
    run (init starve_cfg) (starve_setup ++ rep (S n) starve_round) = (s, outs) /\
    legal outs /\ storedb 2 (s_store s) = true /\ ~ In (EStart 2) (s_log s) /\
    s_log s = rep (S n) starve_evs.
Proof.
  cbn [rep]. rewrite app_assoc, run_app, starve_first, starve_rounds.
  eexists. eexists. split; [reflexivity|]. cbn [s_store s_log starve_state].
  split; [|split; [reflexivity|split]].
  - intros K. apply in_app_or in K. destruct K as [K|K].
    + cbn in K. repeat (destruct K as [K|K]; [discriminate|]). exact K.
    + apply in_rep in K. cbn in K. repeat (destruct K as [K|K]; [discriminate|]). exact K.
  - intros K. apply in_app_or in K. destruct K as [K|K]; [apply in_rep in K|];
      cbn in K; repeat (destruct K as [K|K]; [discriminate|]); exact K.
  - cbn [rep]. assert (G : forall m (x : list ev), rep m x ++ x = x ++ rep m x).
    { induction m as [|m IHm]; intros x; cbn [rep]; [rewrite app_nil_r; reflexivity|]. rewrite <- app_assoc, IHm. reflexivity. }
    apply G.
Qed.

(* ---- a concrete reachable state used by the non-vacuity examples *)
Definition ex_ops : list op :=
  [OpStart []; OpAddCheck 0 0 0; OpAddStore 0; OpAddEnq 0; OpDeq QIn;
   OpAddCheck 1 1 0; OpAddStore 1; OpAddEnq 1;
   OpAddCheck 2 2 0; OpAddStore 2; OpAddEnq 2; OpAddMark 2;
   OpAddCheck 3 3 0; OpAddStore 3].
Definition ex_state : st := fst (run (init (mkcfg 1 1 1 1 1)) ex_ops).

(* a task is never in the executor twice at the same time *)
Lemma no_double_execution s m t :
  reachable s -> s_mgr s = Some m -> (count_occ N.eq_dec (executing m) t <= 1)%nat.
Proof.
  intros R M. apply reachable_inv in R. destruct R as [_ H]. rewrite M in H. destruct H as [Hh _].
  pose proof (held_le1 (s_store s) m t Hh) as L. unfold held in L. rewrite !count_occ_app in L. lia.
Qed.

(* an accepted Add (its store call answered nil or ErrTaskExists) leaves the task stored *)
Lemma accepted_is_stored s m a b af t d :
  s_mgr s = Some m -> pick (fun p => fst p =? a) (m_add m) = Some (b, (a, AStore t d), af) ->
  storedb t (s_store (fst (step s (OpAddStore a)))) = true /\ snd (step s (OpAddStore a)) <> OIllegal.
Proof.
  destruct s as [c sto now mg log]. cbn [s_mgr s_store]. intros -> P.
  unfold step. cbn [s_mgr s_cfg s_store s_now]. rewrite P.
  destruct (add_row t (if d =? 0 then Pending else Failed) d now sto) as [sto'|] eqn:A.
  - apply add_row_some in A as [A ->]. destruct (d =? 0); cbn; (split; [|discriminate]);
      unfold storedb; rewrite existsb_app; cbn; rewrite N.eqb_refl, orb_true_r; reflexivity.
  - apply add_row_none in A. cbn. split; [assumption|discriminate].
Qed.
