(* C38: meta-theory of the matcher of Model/C38.v.
   D r s rest caps — declarative meaning: r matches exactly the text s when `rest` follows it,
   producing the captures caps.  The matcher is sound and complete for D; which of several D-matches
   it returns is fixed by the greedy/lazy preference (lemmas `plus_l_first`). *)
From Coq Require Import List NArith Arith Bool Lia.
From K.Model Require Import C38.
Import ListNotations.
Local Open Scope N_scope.

Fixpoint D (r : re) (s rest : list N) (c : list (list N)) : Prop :=
  match r with
  | Lit l => s = l /\ c = []
  | Plus _ cs => s <> [] /\ forallb (cs_in cs) s = true /\ c = []
  | Rep n cs => length s = n /\ forallb (cs_in cs) s = true /\ c = []
  | Eol => s = [] /\ rest = [] /\ c = []
  | Seq a b => exists s1 s2 c1 c2, s = s1 ++ s2 /\ c = c1 ++ c2 /\ D a s1 (s2 ++ rest) c1 /\ D b s2 rest c2
  | Alt a b => D a s rest c \/ D b s rest c
  | Opt a => D a s rest c \/ (s = [] /\ c = [])
  | Grp a => exists c', D a s rest c' /\ c = c' ++ [s]
  | NGrp a => D a s rest c
  end.

Section Engine.
  Context {R : Type}.
  Implicit Types (k : list N -> option R).

  Lemma m_lit_sound l k s res : m_lit l k s = Some res -> exists s2, s = l ++ s2 /\ k s2 = Some res.
  Proof.
    revert s; induction l as [|a l IH]; intros s H; cbn in H.
    - exists s; auto.
    - destruct s as [|c t]; [discriminate|]. destruct (N.eqb a c) eqn:E; [|discriminate].
      apply N.eqb_eq in E; subst c. destruct (IH _ H) as (s2 & -> & Hk). exists s2; auto.
  Qed.
  Lemma m_lit_app l k s2 : m_lit l k (l ++ s2) = k s2.
  Proof. induction l as [|a l IH]; cbn; [reflexivity|]. rewrite N.eqb_refl. exact IH. Qed.

  Lemma m_plus_g_sound cs k s res : m_plus_g cs k s = Some res ->
    exists s1 s2, s = s1 ++ s2 /\ s1 <> [] /\ forallb (cs_in cs) s1 = true /\ k s2 = Some res.
  Proof.
    revert res; induction s as [|c t IH]; intros res H; cbn in H; [discriminate|].
    destruct (cs_in cs c) eqn:E; [|discriminate].
    destruct (m_plus_g cs k t) as [r|] eqn:E2.
    - inversion H; subst r. destruct (IH _ eq_refl) as (s1 & s2 & -> & _ & Hall & Hk).
      exists (c :: s1), s2. cbn. rewrite E, Hall. repeat split; auto; discriminate.
    - exists [c], t. cbn. rewrite E. repeat split; auto; discriminate.
  Qed.
  Lemma m_plus_l_sound cs k s res : m_plus_l cs k s = Some res ->
    exists s1 s2, s = s1 ++ s2 /\ s1 <> [] /\ forallb (cs_in cs) s1 = true /\ k s2 = Some res.
  Proof.
    revert res; induction s as [|c t IH]; intros res H; cbn in H; [discriminate|].
    destruct (cs_in cs c) eqn:E; [|discriminate].
    destruct (k t) as [r|] eqn:E2.
    - inversion H; subst r. exists [c], t. cbn. rewrite E. repeat split; auto; discriminate.
    - destruct (IH _ H) as (s1 & s2 & -> & _ & Hall & Hk).
      exists (c :: s1), s2. cbn. rewrite E, Hall. repeat split; auto; discriminate.
  Qed.
  Lemma m_plus_g_complete cs k s1 s2 : s1 <> [] -> forallb (cs_in cs) s1 = true -> k s2 <> None ->
    m_plus_g cs k (s1 ++ s2) <> None.
  Proof.
    induction s1 as [|c t IH]; intros Hne Hall Hk; [congruence|].
    cbn in Hall |- *. apply andb_true_iff in Hall as [Hc Ht]. rewrite Hc.
    destruct t as [|d t'].
    - cbn. destruct (m_plus_g cs k s2); [discriminate|exact Hk].
    - assert (X : m_plus_g cs k ((d :: t') ++ s2) <> None) by (apply IH; auto; discriminate).
      destruct (m_plus_g cs k ((d :: t') ++ s2)) eqn:E; [discriminate|]. congruence.
  Qed.
  Lemma m_plus_l_complete cs k s1 s2 : s1 <> [] -> forallb (cs_in cs) s1 = true -> k s2 <> None ->
    m_plus_l cs k (s1 ++ s2) <> None.
  Proof.
    induction s1 as [|c t IH]; intros Hne Hall Hk; [congruence|].
    cbn in Hall |- *. apply andb_true_iff in Hall as [Hc Ht]. rewrite Hc.
    destruct (k (t ++ s2)) eqn:E; [discriminate|].
    destruct t as [|d t']; [cbn in E; congruence|].
    apply IH; auto. discriminate.
  Qed.
  (* lazy repetition takes the shortest prefix after which the continuation succeeds *)
  Lemma m_plus_l_first cs k s1 s2 res : s1 <> [] -> forallb (cs_in cs) s1 = true -> k s2 = Some res ->
    (forall a b, s1 = a ++ b -> a <> [] -> b <> [] -> k (b ++ s2) = None) ->
    m_plus_l cs k (s1 ++ s2) = Some res.
  Proof.
    induction s1 as [|c t IH]; intros Hne Hall Hk Hfirst; [congruence|].
    cbn in Hall |- *. apply andb_true_iff in Hall as [Hc Ht]. rewrite Hc.
    destruct t as [|d t'].
    - cbn. rewrite Hk. reflexivity.
    - rewrite (Hfirst [c] (d :: t')); [|reflexivity|discriminate|discriminate].
      apply IH; auto; [discriminate|].
      intros a b Hab Ha Hb. apply (Hfirst (c :: a) b); [cbn; rewrite Hab; reflexivity| discriminate | exact Hb].
  Qed.
  Lemma m_rep_sound n cs k s res : m_rep n cs k s = Some res ->
    exists s1 s2, s = s1 ++ s2 /\ length s1 = n /\ forallb (cs_in cs) s1 = true /\ k s2 = Some res.
  Proof.
    revert s; induction n as [|n IH]; intros s H; cbn in H.
    - exists [], s. auto.
    - destruct s as [|c t]; [discriminate|]. destruct (cs_in cs c) eqn:E; [|discriminate].
      destruct (IH _ H) as (s1 & s2 & -> & Hl & Hall & Hk). exists (c :: s1), s2. cbn. rewrite E, Hall, Hl. auto.
  Qed.
  Lemma m_rep_app n cs k s1 s2 : length s1 = n -> forallb (cs_in cs) s1 = true -> m_rep n cs k (s1 ++ s2) = k s2.
  Proof.
    revert s1; induction n as [|n IH]; intros s1 Hl Hall.
    - destruct s1; [reflexivity|discriminate].
    - destruct s1 as [|c t]; [discriminate|]. cbn in *. apply andb_true_iff in Hall as [Hc Ht]. rewrite Hc.
      apply IH; auto.
  Qed.

  Implicit Types (K : list N -> list (list N) -> option R).

  Theorem mt_sound r : forall K s caps res, mt r K s caps = Some res ->
    exists s1 s2 c, s = s1 ++ s2 /\ D r s1 s2 c /\ K s2 (caps ++ c) = Some res.
  Proof.
    induction r as [l|g cs|n cs| |a IHa b IHb|a IHa b IHb|a IHa|a IHa|a IHa]; intros K s caps res H; cbn [mt] in H.
    - apply m_lit_sound in H as (s2 & -> & Hk). exists l, s2, []. rewrite app_nil_r. cbn; auto.
    - destruct g; [apply m_plus_g_sound in H|apply m_plus_l_sound in H];
        destruct H as (s1 & s2 & -> & Hne & Hall & Hk); exists s1, s2, []; rewrite app_nil_r; cbn; auto.
    - apply m_rep_sound in H as (s1 & s2 & -> & Hl & Hall & Hk). exists s1, s2, []. rewrite app_nil_r. cbn; auto.
    - destruct s; [|discriminate]. exists [], [], []. cbn. rewrite app_nil_r. auto 10.
    - apply IHa in H as (s1 & s2 & c1 & -> & Da & H). apply IHb in H as (s3 & s4 & c2 & -> & Db & H).
      exists (s1 ++ s3), s4, (c1 ++ c2). rewrite <- !app_assoc in *. split; [reflexivity|]. split; [|exact H].
      cbn. exists s1, s3, c1, c2. auto.
    - unfold orelse in H. destruct (mt a K s caps) eqn:E.
      + inversion H; subst r. apply IHa in E as (s1 & s2 & c & -> & Da & HK). exists s1, s2, c. cbn; auto.
      + apply IHb in H as (s1 & s2 & c & -> & Db & HK). exists s1, s2, c. cbn; auto.
    - unfold orelse in H. destruct (mt a K s caps) eqn:E.
      + inversion H; subst r. apply IHa in E as (s1 & s2 & c & -> & Da & HK). exists s1, s2, c. cbn; auto.
      + exists [], s, []. rewrite app_nil_r. cbn; auto.
    - apply IHa in H as (s1 & s2 & c & -> & Da & HK). exists s1, s2, (c ++ [s1]).
      split; [reflexivity|]. split; [cbn; eauto|].
      rewrite app_length, Nat.add_sub, firstn_app, Nat.sub_diag, firstn_all, app_nil_r in HK.
      rewrite app_assoc. exact HK.
    - apply IHa in H as (s1 & s2 & c & -> & Da & HK). exists s1, s2, c. cbn; auto.
  Qed.

  Theorem mt_complete r : forall s1 s2 c, D r s1 s2 c -> forall K caps, K s2 (caps ++ c) <> None ->
    mt r K (s1 ++ s2) caps <> None.
  Proof.
    induction r as [l|g cs|n cs| |a IHa b IHb|a IHa b IHb|a IHa|a IHa|a IHa]; intros s1 s2 c HD K caps HK; cbn [mt]; cbn [D] in HD.
    - destruct HD as [-> ->]. rewrite app_nil_r in HK. rewrite m_lit_app. exact HK.
    - destruct HD as (Hne & Hall & ->). rewrite app_nil_r in HK.
      destruct g; [apply m_plus_g_complete|apply m_plus_l_complete]; auto.
    - destruct HD as (Hl & Hall & ->). rewrite app_nil_r in HK. rewrite m_rep_app; auto.
    - destruct HD as (-> & -> & ->). rewrite app_nil_r in HK. exact HK.
    - destruct HD as (t1 & t2 & c1 & c2 & -> & -> & Da & Db). rewrite <- app_assoc.
      eapply IHa; [exact Da|]. eapply IHb; [exact Db|]. rewrite <- app_assoc. exact HK.
    - unfold orelse. destruct HD as [Da|Db].
      + destruct (mt a K (s1 ++ s2) caps) eqn:E; [discriminate|]. exfalso. eapply IHa in E; eauto.
      + destruct (mt a K (s1 ++ s2) caps) eqn:E; [discriminate|]. eapply IHb; eauto.
    - unfold orelse. destruct HD as [Da|[-> ->]].
      + destruct (mt a K (s1 ++ s2) caps) eqn:E; [discriminate|]. exfalso. eapply IHa in E; eauto.
      + destruct (mt a K ([] ++ s2) caps) eqn:E; [discriminate|]. cbn. rewrite app_nil_r in HK. exact HK.
    - destruct HD as (c' & Da & ->). eapply IHa; [exact Da|].
      rewrite app_length, Nat.add_sub, firstn_app, Nat.sub_diag, firstn_all, app_nil_r. rewrite <- app_assoc. exact HK.
    - eapply IHa; eauto.
  Qed.
End Engine.

(* FindStringSubmatch *)
Theorem exec_sound r p c : exec r p = Some c -> exists s1 s2, p = s1 ++ s2 /\ D r s1 s2 c.
Proof.
  unfold exec. intros H. apply mt_sound in H as (s1 & s2 & c' & -> & HD & HK).
  cbn in HK. inversion HK; subst. eauto.
Qed.
Theorem exec_complete r s1 s2 c : D r s1 s2 c -> exec r (s1 ++ s2) <> None.
Proof. intros HD. unfold exec. eapply mt_complete; [exact HD|discriminate]. Qed.
(* when every match of the text yields the same captures, that is what the matcher returns *)
Theorem exec_unique r p s1 s2 c : p = s1 ++ s2 -> D r s1 s2 c ->
  (forall t1 t2 c', p = t1 ++ t2 -> D r t1 t2 c' -> c' = c) -> exec r p = Some c.
Proof.
  intros -> HD Hu. destruct (exec r (s1 ++ s2)) as [c'|] eqn:E.
  - destruct (exec_sound _ _ _ E) as (t1 & t2 & Hp & HD'). f_equal. eapply Hu; eauto.
  - exfalso. eapply exec_complete; eauto.
Qed.
Theorem exec_none r p : (forall s1 s2 c, p = s1 ++ s2 -> ~ D r s1 s2 c) -> exec r p = None.
Proof.
  intros Hn. destruct (exec r p) as [c|] eqn:E; [|reflexivity].
  destruct (exec_sound _ _ _ E) as (s1 & s2 & Hp & HD). exfalso. eapply Hn; eauto.
Qed.
