(* Lemmas about the shared LRU store model (Model/LruStore.v): association lists, the LRU sort,
   the refinement invariant between the concrete layer (size counter + evictQueue) and the spec
   layer (sum of sizes + last-use stamps), and the step-wise refinement theorem. *)
From Coq Require Import List NArith ZArith Bool Lia Sorting.Sorted Permutation.
From K.Model Require Import LruStore.
Import ListNotations.
Local Open Scope N_scope.

(* ================================================================ association lists *)
Section Assoc.
Context {A : Type}.
Implicit Types (l : list (N * A)) (k : N).

Lemma assoc_None_notin l k : assoc k l = None <-> ~ In k (map fst l).
Proof.
  induction l as [|[k' v] t IH]; cbn; [tauto|].
  destruct (N.eqb_spec k' k); split; intro H; try discriminate.
  - exfalso; apply H; now left.
  - intros [E|E]; [congruence|]. now apply IH in E.
  - apply IH. intro; apply H; now right.
Qed.

Lemma assoc_Some_in l k v : assoc k l = Some v -> In k (map fst l).
Proof.
  intros H. destruct (in_dec N.eq_dec k (map fst l)) as [|n]; auto.
  apply assoc_None_notin in n. congruence.
Qed.

Lemma in_assoc_Some l k : In k (map fst l) -> exists v, assoc k l = Some v.
Proof.
  intros H. destruct (assoc k l) eqn:E; eauto. apply assoc_None_notin in E. tauto.
Qed.

Lemma assoc_remove_eq l k : assoc k (remove_key k l) = None.
Proof.
  unfold remove_key. induction l as [|[k' v] t IH]; cbn; auto.
  destruct (N.eqb_spec k' k); cbn; auto.
  destruct (N.eqb_spec k' k); [contradiction|auto].
Qed.

Lemma assoc_remove_neq l k k' : k' <> k -> assoc k' (remove_key k l) = assoc k' l.
Proof.
  intros Hn. unfold remove_key. induction l as [|[k0 v] t IH]; cbn; auto.
  destruct (N.eqb_spec k0 k); cbn.
  - subst. destruct (N.eqb_spec k k'); [congruence|auto].
  - now rewrite IH.
Qed.

Lemma map_fst_remove l k : map fst (remove_key k l) = removeN k (map fst l).
Proof.
  unfold remove_key, removeN. induction l as [|[k0 v] t IH]; cbn; auto.
  destruct (N.eqb_spec k0 k); cbn; now rewrite IH.
Qed.

Lemma assoc_update_eq l k f : assoc k (update k f l) = option_map f (assoc k l).
Proof.
  unfold update. induction l as [|[k0 v] t IH]; cbn; auto.
  destruct (N.eqb_spec k0 k); cbn.
  - subst. now rewrite N.eqb_refl.
  - destruct (N.eqb_spec k0 k); [contradiction|auto].
Qed.

Lemma assoc_update_neq l k k' f : k' <> k -> assoc k' (update k f l) = assoc k' l.
Proof.
  intros Hn. unfold update. induction l as [|[k0 v] t IH]; cbn; auto.
  destruct (N.eqb_spec k0 k); cbn.
  - subst. destruct (N.eqb_spec k k'); [congruence|auto].
  - now rewrite IH.
Qed.

Lemma map_fst_update l k f : map fst (update k f l) = map fst l.
Proof.
  unfold update. induction l as [|[k0 v] t IH]; cbn; auto.
  destruct (k0 =? k); cbn; now rewrite IH.
Qed.

Lemma assoc_app l1 l2 k :
  assoc k (l1 ++ l2) = match assoc k l1 with Some v => Some v | None => assoc k l2 end.
Proof.
  induction l1 as [|[k0 v] t IH]; cbn; auto. destruct (k0 =? k); auto.
Qed.

Lemma assoc_set_eq l k v : assoc k (set_key k v l) = Some v.
Proof.
  unfold set_key. destruct (assoc k l) eqn:E.
  - now rewrite assoc_update_eq, E.
  - rewrite assoc_app, E. cbn. now rewrite N.eqb_refl.
Qed.

Lemma assoc_set_neq l k k' v : k' <> k -> assoc k' (set_key k v l) = assoc k' l.
Proof.
  intros Hn. unfold set_key. destruct (assoc k l) eqn:E.
  - now apply assoc_update_neq.
  - rewrite assoc_app. cbn. destruct (N.eqb_spec k k'); [congruence|]. now destruct (assoc k' l).
Qed.
End Assoc.

(* ================================================================ key lists *)
Lemma memN_In k l : memN k l = true <-> In k l.
Proof.
  unfold memN. rewrite existsb_exists. split.
  - intros [x [Hi He]]. apply N.eqb_eq in He. now subst.
  - intros H. exists k. split; auto. apply N.eqb_refl.
Qed.

Lemma In_removeN x k l : In x (removeN k l) <-> In x l /\ x <> k.
Proof.
  unfold removeN. rewrite filter_In. rewrite negb_true_iff, N.eqb_neq. tauto.
Qed.

Lemma removeN_notin k l : ~ In k l -> removeN k l = l.
Proof.
  induction l as [|x t IH]; cbn; auto. intros H.
  destruct (N.eqb_spec x k); cbn.
  - exfalso; apply H; now left.
  - f_equal. apply IH. tauto.
Qed.

Lemma removeN_head k l : ~ In k l -> removeN k (k :: l) = l.
Proof. intros H. cbn. rewrite N.eqb_refl. cbn. now apply removeN_notin. Qed.

Lemma NoDup_removeN k l : NoDup l -> NoDup (removeN k l).
Proof. apply NoDup_filter. Qed.

Lemma NoDup_app_last k (l : list N) : NoDup l -> ~ In k l -> NoDup (l ++ [k]).
Proof.
  intros Hn Hk. induction Hn as [|x t Hx Hn IH]; cbn.
  - constructor; [tauto|constructor].
  - constructor.
    + rewrite in_app_iff. cbn. intros [H|[H|[]]]; [tauto|]. subst. apply Hk. now left.
    + apply IH. intro; apply Hk; now right.
Qed.

Section SortedFacts.
Variable R : N -> N -> Prop.

Lemma sorted_filter (p : N -> bool) l : StronglySorted R l -> StronglySorted R (filter p l).
Proof.
  induction 1 as [|x t Hs IH Hf]; cbn; [constructor|].
  destruct (p x); auto. constructor; auto.
  rewrite Forall_forall in *. intros y Hy. apply filter_In in Hy. now apply Hf.
Qed.

Lemma sorted_app_last k l : StronglySorted R l -> (forall a, In a l -> R a k) -> StronglySorted R (l ++ [k]).
Proof.
  induction 1 as [|x t Hs IH Hf]; cbn; intros H.
  - constructor; [constructor|constructor].
  - constructor.
    + apply IH. intros a Ha. apply H. now right.
    + rewrite Forall_forall in *. intros y Hy. apply in_app_iff in Hy. destruct Hy as [Hy|[Hy|[]]].
      * now apply Hf.
      * subst. apply H. now left.
Qed.
End SortedFacts.

Lemma sorted_ext (R R' : N -> N -> Prop) l :
  (forall a b, In a l -> In b l -> R a b -> R' a b) -> StronglySorted R l -> StronglySorted R' l.
Proof.
  intros H Hs. induction Hs as [|x t Hs IH Hf]; [constructor|].
  constructor.
  - apply IH. intros a b Ha Hb. apply H; now right.
  - rewrite Forall_forall in *. intros y Hy. apply H; [now left|now right|now apply Hf].
Qed.

(* ================================================================ the LRU sort *)
Section Sort.
Variable f : N -> N.

Lemma In_insert_by x k l : In x (insert_by f k l) <-> x = k \/ In x l.
Proof.
  induction l as [|y t IH]; cbn; [intuition|].
  destruct (f k <=? f y); cbn; [intuition|]. rewrite IH. intuition.
Qed.

Lemma In_isort x l : In x (isort f l) <-> In x l.
Proof.
  induction l as [|y t IH]; cbn; [tauto|]. rewrite In_insert_by, IH. intuition.
Qed.

Lemma NoDup_insert_by k l : NoDup l -> ~ In k l -> NoDup (insert_by f k l).
Proof.
  induction 1 as [|y t Hy Hn IH]; cbn; intros Hk.
  - constructor; [tauto|constructor].
  - destruct (f k <=? f y).
    + constructor; [exact Hk|constructor; auto].
    + constructor.
      * rewrite In_insert_by. intros [E|E]; [subst; apply Hk; now left|tauto].
      * apply IH. intro; apply Hk; now right.
Qed.

Lemma NoDup_isort l : NoDup l -> NoDup (isort f l).
Proof.
  induction 1 as [|y t Hy Hn IH]; cbn; [constructor|].
  apply NoDup_insert_by; auto. now rewrite In_isort.
Qed.

Lemma sorted_insert_by k l :
  StronglySorted (fun a b => f a <= f b) l -> StronglySorted (fun a b => f a <= f b) (insert_by f k l).
Proof.
  induction 1 as [|y t Hs IH Hf]; cbn.
  - constructor; constructor.
  - destruct (N.leb_spec (f k) (f y)).
    + constructor; [constructor; auto|].
      constructor; auto. rewrite Forall_forall in *. intros z Hz. specialize (Hf z Hz). cbn in *. lia.
    + constructor; auto. rewrite Forall_forall in *. intros z Hz.
      apply In_insert_by in Hz. destruct Hz as [->|Hz]; [lia|now apply Hf].
Qed.

Lemma sorted_isort l : StronglySorted (fun a b => f a <= f b) (isort f l).
Proof. induction l; cbn; [constructor|now apply sorted_insert_by]. Qed.

(* a strictly sorted list and a weakly sorted duplicate-free list with the same elements are equal *)
Lemma sorted_unique l1 : forall l2,
  NoDup l1 -> NoDup l2 -> (forall x, In x l1 <-> In x l2) ->
  StronglySorted (fun a b => f a < f b) l1 -> StronglySorted (fun a b => f a <= f b) l2 -> l1 = l2.
Proof.
  induction l1 as [|a t1 IH]; intros l2 N1 N2 Hin S1 S2.
  - destruct l2 as [|b t2]; auto. exfalso. apply (Hin b). now left.
  - destruct l2 as [|b t2]; [exfalso; apply (Hin a); now left|].
    inversion N1 as [|? ? Na N1']; inversion N2 as [|? ? Nb N2']; subst.
    inversion S1 as [|? ? S1' F1]; inversion S2 as [|? ? S2' F2]; subst.
    rewrite Forall_forall in F1, F2.
    assert (E : a = b).
    { destruct (N.eq_dec a b) as [|Hne]; auto. exfalso.
      assert (Ha : In a t2). { destruct (proj1 (Hin a) (or_introl eq_refl)) as [E|]; [congruence|auto]. }
      assert (Hb : In b t1). { destruct (proj2 (Hin b) (or_introl eq_refl)) as [E|]; [congruence|auto]. }
      specialize (F1 b Hb). specialize (F2 a Ha). cbn in *. lia. }
    subst b. f_equal. apply IH; auto.
    intros x. split; intros Hx.
    + destruct (proj1 (Hin x) (or_intror Hx)) as [E|]; [subst; contradiction|auto].
    + destruct (proj2 (Hin x) (or_intror Hx)) as [E|]; [subst; contradiction|auto].
Qed.
End Sort.

Lemma isort_ext f g l : (forall x, In x l -> f x = g x) -> isort f l = isort g l.
Proof.
  induction l as [|y t IH]; cbn; auto. intros H.
  rewrite <- IH by (intros; apply H; now right).
  assert (Hy : f y = g y) by (apply H; now left).
  assert (Ht : forall x, In x (isort f t) -> f x = g x) by (intros x Hx; apply H; right; now apply In_isort in Hx).
  revert Ht. generalize (isort f t) as l'. induction l' as [|z u IHu]; cbn; auto. intros Ht.
  rewrite Hy, (Ht z) by now left. destruct (g y <=? g z); auto. f_equal. apply IHu. intros; apply Ht; now right.
Qed.

(* ================================================================ the index of a core *)
(* what admission and eviction depend on: per key the declared size and the two flags *)
Definition triple (b : blob) : N * bool * bool := (b_size b, b_complete b, b_banned b).
Definition index (kc : core) : list (key * (N * bool * bool)) :=
  map (fun kb => (fst kb, triple (snd kb))) (k_blobs kc).

Lemma index_keys kc : map fst (index kc) = map fst (k_blobs kc).
Proof. unfold index. rewrite map_map. apply map_ext. now intros [? ?]. Qed.

Lemma assoc_index kc k : assoc k (index kc) = option_map triple (assoc k (k_blobs kc)).
Proof.
  unfold index. induction (k_blobs kc) as [|[k0 b] t IH]; cbn; auto. destruct (k0 =? k); auto.
Qed.

Lemma sum_sizes_index bl : sum_sizes bl = fold_right (fun r acc => fst (fst (snd r)) + acc) 0 (map (fun kb => (fst kb, triple (snd kb))) bl).
Proof. unfold sum_sizes. induction bl as [|[k b] t IH]; cbn; auto. now rewrite IH. Qed.

Definition same_index (kc kc' : core) : Prop := k_cap kc' = k_cap kc /\ index kc' = index kc.

Lemma same_index_refl kc : same_index kc kc.
Proof. split; auto. Qed.

Lemma same_index_trans a b c : same_index a b -> same_index b c -> same_index a c.
Proof. intros [? ?] [? ?]; split; congruence. Qed.

Lemma same_index_keys kc kc' : same_index kc kc' -> map fst (k_blobs kc') = map fst (k_blobs kc).
Proof. intros [_ H]. now rewrite <- !index_keys, H. Qed.

Lemma same_index_size kc kc' : same_index kc kc' -> s_size kc' = s_size kc.
Proof. intros [_ H]. unfold s_size. rewrite !sum_sizes_index. fold (index kc'). fold (index kc). now rewrite H. Qed.

Lemma evictableb_index kc k :
  evictableb kc k = match assoc k (index kc) with Some (_, c, b) => c && negb b | None => false end.
Proof. unfold evictableb. rewrite assoc_index. now destruct (assoc k (k_blobs kc)). Qed.

Lemma same_index_evictable kc kc' k : same_index kc kc' -> evictableb kc' k = evictableb kc k.
Proof. intros [_ H]. now rewrite !evictableb_index, H. Qed.

Lemma index_update_triple k f bl :
  (forall b, triple (f b) = triple b) ->
  map (fun kb => (fst kb, triple (snd kb))) (update k f bl) = map (fun kb => (fst kb, triple (snd kb))) bl.
Proof.
  intros H. unfold update. rewrite map_map. apply map_ext. intros [k0 b]. cbn.
  destruct (k0 =? k); cbn; auto. now rewrite H.
Qed.

Lemma same_index_upd_blob k f kc : (forall b, triple (f b) = triple b) -> same_index kc (upd_blob k f kc).
Proof. intros H. split; auto. unfold index, upd_blob. cbn. now apply index_update_triple. Qed.

Lemma same_index_set_cell c v kc : same_index kc (set_cell c v kc).
Proof. split; reflexivity. Qed.
Lemma same_index_set_off h o kc : same_index kc (set_off h o kc).
Proof. split; reflexivity. Qed.
Lemma same_index_add_handle c kc : same_index kc (fst (add_handle c kc)).
Proof. split; reflexivity. Qed.

Lemma triple_set_mds m b : triple (set_mds m b) = triple b.
Proof. reflexivity. Qed.

(* ================================================================ sums of declared sizes *)
Lemma sum_sizes_cons k b t : sum_sizes ((k, b) :: t) = b_size b + sum_sizes t.
Proof. reflexivity. Qed.

Lemma sum_sizes_app a b : sum_sizes (a ++ b) = sum_sizes a + sum_sizes b.
Proof.
  induction a as [|[k x] t IH]; [reflexivity|].
  change (((k, x) :: t) ++ b) with ((k, x) :: (t ++ b)). rewrite !sum_sizes_cons, IH. lia.
Qed.

Lemma remove_key_notin {A} k (t : list (N * A)) : ~ In k (map fst t) -> remove_key k t = t.
Proof.
  unfold remove_key. induction t as [|[k1 b1] u IHu]; cbn; auto. intros Hk.
  destruct (N.eqb_spec k1 k); cbn; [exfalso; apply Hk; now left|]. f_equal. apply IHu. tauto.
Qed.

Lemma sum_sizes_remove bl k b :
  NoDup (map fst bl) -> assoc k bl = Some b ->
  sum_sizes (remove_key k bl) + b_size b = sum_sizes bl.
Proof.
  induction bl as [|[k0 b0] t IH]; [discriminate|]. intros Hn H.
  inversion Hn as [|? ? Hk Hn']; subst. cbn in H. unfold remove_key. cbn [filter fst].
  destruct (N.eqb_spec k0 k); cbn [negb].
  - inversion H; subst. fold (remove_key k t). rewrite remove_key_notin by exact Hk.
    rewrite sum_sizes_cons. lia.
  - fold (remove_key k t). rewrite !sum_sizes_cons. specialize (IH Hn' H). lia.
Qed.

(* ================================================================ the refinement invariant *)
Definition lt_last (s : sstate) (a b : key) : Prop := last_of s a < last_of s b.

Record queue_ok (s : sstate) (q : list key) : Prop := {
  q_nodup : NoDup q;
  q_mem : forall k, In k q <-> evictableb (s_core s) k = true;
  q_sorted : StronglySorted (lt_last s) q;
  q_old : forall k, In k q -> last_of s k < s_clock s
}.

Record Inv (c : cstate) (s : sstate) : Prop := {
  inv_core : c_core c = s_core s;
  inv_keys : NoDup (map fst (k_blobs (s_core s)));
  inv_size : c_size c = s_size (s_core s);
  inv_cap : s_size (s_core s) <= k_cap (s_core s);
  inv_cap64 : k_cap (s_core s) < two64;
  inv_queue : queue_ok s (c_queue c)
}.

Lemma evictable_in_keys kc k : evictableb kc k = true -> In k (map fst (k_blobs kc)).
Proof. unfold evictableb. destruct (assoc k (k_blobs kc)) eqn:E; [|discriminate]. intros _. eapply assoc_Some_in; eauto. Qed.

(* the queue IS the spec's eviction order *)
Lemma queue_is_evict_order s q :
  NoDup (map fst (k_blobs (s_core s))) -> queue_ok s q -> q = evict_order s.
Proof.
  intros Hk [Hn Hm Hs _]. unfold evict_order, evict_order_by.
  apply (sorted_unique (last_of s)); auto.
  - apply NoDup_isort. now apply NoDup_filter.
  - intros x. rewrite In_isort, filter_In, Hm. split; [|tauto].
    intros H; split; auto. now apply evictable_in_keys.
  - apply sorted_isort.
Qed.

Lemma inv_queue_eq c s : Inv c s -> c_queue c = evict_order s.
Proof. intros H. apply queue_is_evict_order; apply H. Qed.

(* ---------------------------------------------------------------- frame: nothing LRU-relevant changes *)
Lemma last_of_tick kc' s k : last_of (mks kc' (s_last s) (N.succ (s_clock s))) k = last_of s k.
Proof. reflexivity. Qed.

Lemma queue_ok_frame s q kc' :
  same_index (s_core s) kc' -> queue_ok s q -> queue_ok (mks kc' (s_last s) (N.succ (s_clock s))) q.
Proof.
  intros Hs [Hn Hm Hso Ho]. constructor; auto.
  - intros k. cbn. rewrite (same_index_evictable _ _ _ Hs). apply Hm.
  - cbn. intros k Hk. specialize (Ho k Hk). unfold last_of in *. cbn. lia.
Qed.

Lemma inv_frame c s kc' :
  Inv c s -> same_index (s_core s) kc' ->
  Inv (mkc kc' (c_size c) (c_queue c)) (mks kc' (s_last s) (N.succ (s_clock s))).
Proof.
  intros [Hc Hk Hz Hcap H64 Hq] Hs. constructor; cbn.
  - reflexivity.
  - now rewrite (same_index_keys _ _ Hs).
  - now rewrite (same_index_size _ _ Hs).
  - rewrite (same_index_size _ _ Hs). destruct Hs as [-> _]. exact Hcap.
  - destruct Hs as [-> _]. exact H64.
  - now apply queue_ok_frame.
Qed.
