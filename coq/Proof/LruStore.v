(* Lemmas about the shared LRU store model (Model/LruStore.v): association lists, the LRU sort,
   the refinement invariant between the concrete layer (size counter + evictQueue) and the spec
   layer (sum of sizes + last-use stamps), and the step-wise refinement theorem. *)
From Coq Require Import List NArith ZArith Bool Lia Sorting.Sorted Permutation.
From K.Model Require Import LruStore.
Import ListNotations.
Local Open Scope N_scope.

(* ================================================================ association lists *)
Section Assoc.
Context {A : Type}.
Implicit Types (l : list (N * A)) (k : N).

Lemma assoc_None_notin l k : assoc k l = None <-> ~ In k (map fst l).
Proof.
  induction l as [|[k' v] t IH]; cbn; [tauto|].
  destruct (N.eqb_spec k' k); split; intro H; try discriminate.
  - exfalso; apply H; now left.
  - intros [E|E]; [congruence|]. now apply IH in E.
  - apply IH. intro; apply H; now right.
Qed.

Lemma assoc_Some_in l k v : assoc k l = Some v -> In k (map fst l).
Proof.
  intros H. destruct (in_dec N.eq_dec k (map fst l)) as [|n]; auto.
  apply assoc_None_notin in n. congruence.
Qed.

Lemma in_assoc_Some l k : In k (map fst l) -> exists v, assoc k l = Some v.
Proof.
  intros H. destruct (assoc k l) eqn:E; eauto. apply assoc_None_notin in E. tauto.
Qed.

Lemma assoc_remove_eq l k : assoc k (remove_key k l) = None.
Proof.
  unfold remove_key. induction l as [|[k' v] t IH]; cbn; auto.
  destruct (N.eqb_spec k' k); cbn; auto.
  destruct (N.eqb_spec k' k); [contradiction|auto].
Qed.

Lemma assoc_remove_neq l k k' : k' <> k -> assoc k' (remove_key k l) = assoc k' l.
Proof.
  intros Hn. unfold remove_key. induction l as [|[k0 v] t IH]; cbn; auto.
  destruct (N.eqb_spec k0 k); cbn.
  - subst. destruct (N.eqb_spec k k'); [congruence|auto].
  - now rewrite IH.
Qed.

Lemma map_fst_remove l k : map fst (remove_key k l) = removeN k (map fst l).
Proof.
  unfold remove_key, removeN. induction l as [|[k0 v] t IH]; cbn; auto.
  destruct (N.eqb_spec k0 k); cbn; now rewrite IH.
Qed.

Lemma assoc_update_eq l k f : assoc k (update k f l) = option_map f (assoc k l).
Proof.
  unfold update. induction l as [|[k0 v] t IH]; cbn; auto.
  destruct (N.eqb_spec k0 k); cbn.
  - subst. now rewrite N.eqb_refl.
  - destruct (N.eqb_spec k0 k); [contradiction|auto].
Qed.

Lemma assoc_update_neq l k k' f : k' <> k -> assoc k' (update k f l) = assoc k' l.
Proof.
  intros Hn. unfold update. induction l as [|[k0 v] t IH]; cbn; auto.
  destruct (N.eqb_spec k0 k); cbn.
  - subst. destruct (N.eqb_spec k k'); [congruence|auto].
  - now rewrite IH.
Qed.

Lemma map_fst_update l k f : map fst (update k f l) = map fst l.
Proof.
  unfold update. induction l as [|[k0 v] t IH]; cbn; auto.
  destruct (k0 =? k); cbn; now rewrite IH.
Qed.

Lemma assoc_app l1 l2 k :
  assoc k (l1 ++ l2) = match assoc k l1 with Some v => Some v | None => assoc k l2 end.
Proof.
  induction l1 as [|[k0 v] t IH]; cbn; auto. destruct (k0 =? k); auto.
Qed.

Lemma assoc_set_eq l k v : assoc k (set_key k v l) = Some v.
Proof.
  unfold set_key. destruct (assoc k l) eqn:E.
  - now rewrite assoc_update_eq, E.
  - rewrite assoc_app, E. cbn. now rewrite N.eqb_refl.
Qed.

Lemma assoc_set_neq l k k' v : k' <> k -> assoc k' (set_key k v l) = assoc k' l.
Proof.
  intros Hn. unfold set_key. destruct (assoc k l) eqn:E.
  - now apply assoc_update_neq.
  - rewrite assoc_app. cbn. destruct (N.eqb_spec k k'); [congruence|]. now destruct (assoc k' l).
Qed.
End Assoc.

(* ================================================================ key lists *)
Lemma memN_In k l : memN k l = true <-> In k l.
Proof.
  unfold memN. rewrite existsb_exists. split.
  - intros [x [Hi He]]. apply N.eqb_eq in He. now subst.
  - intros H. exists k. split; auto. apply N.eqb_refl.
Qed.

Lemma In_removeN x k l : In x (removeN k l) <-> In x l /\ x <> k.
Proof.
  unfold removeN. rewrite filter_In. rewrite negb_true_iff, N.eqb_neq. tauto.
Qed.

Lemma removeN_notin k l : ~ In k l -> removeN k l = l.
Proof.
  induction l as [|x t IH]; cbn; auto. intros H.
  destruct (N.eqb_spec x k); cbn.
  - exfalso; apply H; now left.
  - f_equal. apply IH. tauto.
Qed.

Lemma removeN_head k l : ~ In k l -> removeN k (k :: l) = l.
Proof. intros H. cbn. rewrite N.eqb_refl. cbn. now apply removeN_notin. Qed.

Lemma NoDup_removeN k l : NoDup l -> NoDup (removeN k l).
Proof. apply NoDup_filter. Qed.

Lemma NoDup_app_last k (l : list N) : NoDup l -> ~ In k l -> NoDup (l ++ [k]).
Proof.
  intros Hn Hk. induction Hn as [|x t Hx Hn IH]; cbn.
  - constructor; [tauto|constructor].
  - constructor.
    + rewrite in_app_iff. cbn. intros [H|[H|[]]]; [tauto|]. subst. apply Hk. now left.
    + apply IH. intro; apply Hk; now right.
Qed.

Section SortedFacts.
Variable R : N -> N -> Prop.

Lemma sorted_filter (p : N -> bool) l : StronglySorted R l -> StronglySorted R (filter p l).
Proof.
  induction 1 as [|x t Hs IH Hf]; cbn; [constructor|].
  destruct (p x); auto. constructor; auto.
  rewrite Forall_forall in *. intros y Hy. apply filter_In in Hy. now apply Hf.
Qed.

Lemma sorted_app_last k l : StronglySorted R l -> (forall a, In a l -> R a k) -> StronglySorted R (l ++ [k]).
Proof.
  induction 1 as [|x t Hs IH Hf]; cbn; intros H.
  - constructor; [constructor|constructor].
  - constructor.
    + apply IH. intros a Ha. apply H. now right.
    + rewrite Forall_forall in *. intros y Hy. apply in_app_iff in Hy. destruct Hy as [Hy|[Hy|[]]].
      * now apply Hf.
      * subst. apply H. now left.
Qed.
End SortedFacts.

Lemma sorted_ext (R R' : N -> N -> Prop) l :
  (forall a b, In a l -> In b l -> R a b -> R' a b) -> StronglySorted R l -> StronglySorted R' l.
Proof.
  intros H Hs. induction Hs as [|x t Hs IH Hf]; [constructor|].
  constructor.
  - apply IH. intros a b Ha Hb. apply H; now right.
  - rewrite Forall_forall in *. intros y Hy. apply H; [now left|now right|now apply Hf].
Qed.

(* ================================================================ the LRU sort *)
Section Sort.
Variable f : N -> N.

Lemma In_insert_by x k l : In x (insert_by f k l) <-> x = k \/ In x l.
Proof.
  induction l as [|y t IH]; cbn; [intuition|].
  destruct (f k <=? f y); cbn; [intuition|]. rewrite IH. intuition.
Qed.

Lemma In_isort x l : In x (isort f l) <-> In x l.
Proof.
  induction l as [|y t IH]; cbn; [tauto|]. rewrite In_insert_by, IH. intuition.
Qed.

Lemma NoDup_insert_by k l : NoDup l -> ~ In k l -> NoDup (insert_by f k l).
Proof.
  induction 1 as [|y t Hy Hn IH]; cbn; intros Hk.
  - constructor; [tauto|constructor].
  - destruct (f k <=? f y).
    + constructor; [exact Hk|constructor; auto].
    + constructor.
      * rewrite In_insert_by. intros [E|E]; [subst; apply Hk; now left|tauto].
      * apply IH. intro; apply Hk; now right.
Qed.

Lemma NoDup_isort l : NoDup l -> NoDup (isort f l).
Proof.
  induction 1 as [|y t Hy Hn IH]; cbn; [constructor|].
  apply NoDup_insert_by; auto. now rewrite In_isort.
Qed.

Lemma sorted_insert_by k l :
  StronglySorted (fun a b => f a <= f b) l -> StronglySorted (fun a b => f a <= f b) (insert_by f k l).
Proof.
  induction 1 as [|y t Hs IH Hf]; cbn.
  - constructor; constructor.
  - destruct (N.leb_spec (f k) (f y)).
    + constructor; [constructor; auto|].
      constructor; auto. rewrite Forall_forall in *. intros z Hz. specialize (Hf z Hz). cbn in *. lia.
    + constructor; auto. rewrite Forall_forall in *. intros z Hz.
      apply In_insert_by in Hz. destruct Hz as [->|Hz]; [lia|now apply Hf].
Qed.

Lemma sorted_isort l : StronglySorted (fun a b => f a <= f b) (isort f l).
Proof. induction l; cbn; [constructor|now apply sorted_insert_by]. Qed.

(* a strictly sorted list and a weakly sorted duplicate-free list with the same elements are equal *)
Lemma sorted_unique l1 : forall l2,
  NoDup l1 -> NoDup l2 -> (forall x, In x l1 <-> In x l2) ->
  StronglySorted (fun a b => f a < f b) l1 -> StronglySorted (fun a b => f a <= f b) l2 -> l1 = l2.
Proof.
  induction l1 as [|a t1 IH]; intros l2 N1 N2 Hin S1 S2.
  - destruct l2 as [|b t2]; auto. exfalso. apply (Hin b). now left.
  - destruct l2 as [|b t2]; [exfalso; apply (Hin a); now left|].
    inversion N1 as [|? ? Na N1']; inversion N2 as [|? ? Nb N2']; subst.
    inversion S1 as [|? ? S1' F1]; inversion S2 as [|? ? S2' F2]; subst.
    rewrite Forall_forall in F1, F2.
    assert (E : a = b).
    { destruct (N.eq_dec a b) as [|Hne]; auto. exfalso.
      assert (Ha : In a t2). { destruct (proj1 (Hin a) (or_introl eq_refl)) as [E|]; [congruence|auto]. }
      assert (Hb : In b t1). { destruct (proj2 (Hin b) (or_introl eq_refl)) as [E|]; [congruence|auto]. }
      specialize (F1 b Hb). specialize (F2 a Ha). cbn in *. lia. }
    subst b. f_equal. apply IH; auto.
    intros x. split; intros Hx.
    + destruct (proj1 (Hin x) (or_intror Hx)) as [E|]; [subst; contradiction|auto].
    + destruct (proj2 (Hin x) (or_intror Hx)) as [E|]; [subst; contradiction|auto].
Qed.
End Sort.

Lemma isort_ext f g l : (forall x, In x l -> f x = g x) -> isort f l = isort g l.
Proof.
  induction l as [|y t IH]; cbn; auto. intros H.
  rewrite <- IH by (intros; apply H; now right).
  assert (Hy : f y = g y) by (apply H; now left).
  assert (Ht : forall x, In x (isort f t) -> f x = g x) by (intros x Hx; apply H; right; now apply In_isort in Hx).
  revert Ht. generalize (isort f t) as l'. induction l' as [|z u IHu]; cbn; auto. intros Ht.
  rewrite Hy, (Ht z) by now left. destruct (g y <=? g z); auto. f_equal. apply IHu. intros; apply Ht; now right.
Qed.

(* ================================================================ the index of a core *)
(* what admission and eviction depend on: per key the declared size and the two flags *)
Definition triple (b : blob) : N * bool * bool := (b_size b, b_complete b, b_banned b).
Definition index (kc : core) : list (key * (N * bool * bool)) :=
  map (fun kb => (fst kb, triple (snd kb))) (k_blobs kc).

Lemma index_keys kc : map fst (index kc) = map fst (k_blobs kc).
Proof. unfold index. rewrite map_map. apply map_ext. now intros [? ?]. Qed.

Lemma assoc_index kc k : assoc k (index kc) = option_map triple (assoc k (k_blobs kc)).
Proof.
  unfold index. induction (k_blobs kc) as [|[k0 b] t IH]; cbn; auto. destruct (k0 =? k); auto.
Qed.

Lemma sum_sizes_index bl : sum_sizes bl = fold_right (fun r acc => fst (fst (snd r)) + acc) 0 (map (fun kb => (fst kb, triple (snd kb))) bl).
Proof. unfold sum_sizes. induction bl as [|[k b] t IH]; cbn; auto. now rewrite IH. Qed.

Definition same_index (kc kc' : core) : Prop := k_cap kc' = k_cap kc /\ index kc' = index kc.

Lemma same_index_refl kc : same_index kc kc.
Proof. split; auto. Qed.

Lemma same_index_trans a b c : same_index a b -> same_index b c -> same_index a c.
Proof. intros [? ?] [? ?]; split; congruence. Qed.

Lemma same_index_keys kc kc' : same_index kc kc' -> map fst (k_blobs kc') = map fst (k_blobs kc).
Proof. intros [_ H]. now rewrite <- !index_keys, H. Qed.

Lemma same_index_size kc kc' : same_index kc kc' -> s_size kc' = s_size kc.
Proof. intros [_ H]. unfold s_size. rewrite !sum_sizes_index. fold (index kc'). fold (index kc). now rewrite H. Qed.

Lemma evictableb_index kc k :
  evictableb kc k = match assoc k (index kc) with Some (_, c, b) => c && negb b | None => false end.
Proof. unfold evictableb. rewrite assoc_index. now destruct (assoc k (k_blobs kc)). Qed.

Lemma same_index_evictable kc kc' k : same_index kc kc' -> evictableb kc' k = evictableb kc k.
Proof. intros [_ H]. now rewrite !evictableb_index, H. Qed.

Lemma index_update_triple k f bl :
  (forall b, triple (f b) = triple b) ->
  map (fun kb => (fst kb, triple (snd kb))) (update k f bl) = map (fun kb => (fst kb, triple (snd kb))) bl.
Proof.
  intros H. unfold update. rewrite map_map. apply map_ext. intros [k0 b]. cbn.
  destruct (k0 =? k); cbn; auto. now rewrite H.
Qed.

Lemma same_index_upd_blob k f kc : (forall b, triple (f b) = triple b) -> same_index kc (upd_blob k f kc).
Proof. intros H. split; auto. unfold index, upd_blob. cbn. now apply index_update_triple. Qed.

Lemma same_index_set_cell c v kc : same_index kc (set_cell c v kc).
Proof. split; reflexivity. Qed.
Lemma same_index_set_off h o kc : same_index kc (set_off h o kc).
Proof. split; reflexivity. Qed.
Lemma same_index_add_handle c kc : same_index kc (fst (add_handle c kc)).
Proof. split; reflexivity. Qed.

Lemma triple_set_mds m b : triple (set_mds m b) = triple b.
Proof. reflexivity. Qed.

(* ================================================================ sums of declared sizes *)
Lemma sum_sizes_cons k b t : sum_sizes ((k, b) :: t) = b_size b + sum_sizes t.
Proof. reflexivity. Qed.

Lemma sum_sizes_app a b : sum_sizes (a ++ b) = sum_sizes a + sum_sizes b.
Proof.
  induction a as [|[k x] t IH]; [reflexivity|].
  change (((k, x) :: t) ++ b) with ((k, x) :: (t ++ b)). rewrite !sum_sizes_cons, IH. lia.
Qed.

Lemma remove_key_notin {A} k (t : list (N * A)) : ~ In k (map fst t) -> remove_key k t = t.
Proof.
  unfold remove_key. induction t as [|[k1 b1] u IHu]; cbn; auto. intros Hk.
  destruct (N.eqb_spec k1 k); cbn; [exfalso; apply Hk; now left|]. f_equal. apply IHu. tauto.
Qed.

Lemma sum_sizes_remove bl k b :
  NoDup (map fst bl) -> assoc k bl = Some b ->
  sum_sizes (remove_key k bl) + b_size b = sum_sizes bl.
Proof.
  induction bl as [|[k0 b0] t IH]; [discriminate|]. intros Hn H.
  inversion Hn as [|? ? Hk Hn']; subst. cbn in H. unfold remove_key. cbn [filter fst].
  destruct (N.eqb_spec k0 k); cbn [negb].
  - inversion H; subst. fold (remove_key k t). rewrite remove_key_notin by exact Hk.
    rewrite sum_sizes_cons. lia.
  - fold (remove_key k t). rewrite !sum_sizes_cons. specialize (IH Hn' H). lia.
Qed.

Lemma upd_blob_blobs k f kc : k_blobs (upd_blob k f kc) = update k f (k_blobs kc).
Proof. reflexivity. Qed.
Lemma upd_blob_cap k f kc : k_cap (upd_blob k f kc) = k_cap kc.
Proof. reflexivity. Qed.
Lemma add_blob_blobs k sz d kc : k_blobs (add_blob k sz d kc) = k_blobs kc ++ [(k, mkblob sz false false [] (k_next kc))].
Proof. reflexivity. Qed.
Lemma add_blob_cap k sz d kc : k_cap (add_blob k sz d kc) = k_cap kc.
Proof. reflexivity. Qed.
Global Hint Rewrite upd_blob_blobs upd_blob_cap add_blob_blobs add_blob_cap : core_simp.

Arguments s_size : simpl never.
Arguments c_fits : simpl never.
Arguments sum_sizes : simpl never.
Arguments upd_blob : simpl never.
Arguments add_blob : simpl never.
Arguments drop_blob : simpl never.
Arguments evictableb : simpl never.

(* ================================================================ the refinement invariant *)
Definition lt_last (s : sstate) (a b : key) : Prop := last_of s a < last_of s b.

Record queue_ok (s : sstate) (q : list key) : Prop := {
  q_nodup : NoDup q;
  q_mem : forall k, In k q <-> evictableb (s_core s) k = true;
  q_sorted : StronglySorted (lt_last s) q;
  q_old : forall k, In k q -> last_of s k < s_clock s
}.

Record Inv (c : cstate) (s : sstate) : Prop := {
  inv_core : c_core c = s_core s;
  inv_keys : NoDup (map fst (k_blobs (s_core s)));
  inv_size : c_size c = s_size (s_core s);
  inv_cap : s_size (s_core s) <= k_cap (s_core s);
  inv_cap64 : k_cap (s_core s) < two64;
  inv_queue : queue_ok s (c_queue c)
}.

Lemma evictable_in_keys kc k : evictableb kc k = true -> In k (map fst (k_blobs kc)).
Proof. unfold evictableb. destruct (assoc k (k_blobs kc)) eqn:E; [|discriminate]. intros _. eapply assoc_Some_in; eauto. Qed.

(* the queue IS the spec's eviction order *)
Lemma queue_is_evict_order s q :
  NoDup (map fst (k_blobs (s_core s))) -> queue_ok s q -> q = evict_order s.
Proof.
  intros Hk [Hn Hm Hs _]. unfold evict_order, evict_order_by.
  apply (sorted_unique (last_of s)); auto.
  - apply NoDup_isort. now apply NoDup_filter.
  - intros x. rewrite In_isort, filter_In, Hm. split; [|tauto].
    intros H; split; auto. now apply evictable_in_keys.
  - apply sorted_isort.
Qed.

Lemma inv_queue_eq c s : Inv c s -> c_queue c = evict_order s.
Proof. intros H. apply queue_is_evict_order; apply H. Qed.

(* ---------------------------------------------------------------- frame: nothing LRU-relevant changes *)
Lemma queue_ok_frame kc l clk q kc' :
  same_index kc kc' -> queue_ok (mks kc l clk) q -> queue_ok (mks kc' l clk) q.
Proof.
  intros Hs [Hn Hm Hso Ho]. constructor; auto.
  intros k. cbn. rewrite (same_index_evictable _ _ _ Hs). apply Hm.
Qed.

Lemma inv_frame kc size q l clk kc' :
  Inv (mkc kc size q) (mks kc l clk) -> same_index kc kc' -> Inv (mkc kc' size q) (mks kc' l clk).
Proof.
  intros [Hc Hk Hz Hcap H64 Hq] Hs. cbn in *. constructor; cbn.
  - reflexivity.
  - now rewrite (same_index_keys _ _ Hs).
  - now rewrite (same_index_size _ _ Hs).
  - rewrite (same_index_size _ _ Hs). destruct Hs as [-> _]. exact Hcap.
  - destruct Hs as [-> _]. exact H64.
  - now apply (queue_ok_frame kc).
Qed.

Lemma inv_tick c kc l clk : Inv c (mks kc l clk) -> Inv c (mks kc l (N.succ clk)).
Proof.
  intros [Hc Hk Hz Hcap H64 [Hn Hm Hso Ho]]. constructor; auto. constructor; auto.
  intros k Hk'. specialize (Ho k Hk'). cbn in *. unfold last_of in *. cbn in *. lia.
Qed.

Lemma inv_canon c s : Inv c s -> c = mkc (s_core s) (c_size c) (c_queue c) /\ s = mks (s_core s) (s_last s) (s_clock s).
Proof. intros H. pose proof (inv_core _ _ H) as E. destruct c as [kc sz q], s as [kc' l clk]. cbn in *. subst. auto. Qed.

(* ---------------------------------------------------------------- removing a blob *)
Lemma drop_blob_blobs k kc b : assoc k (k_blobs kc) = Some b -> k_blobs (drop_blob k kc) = remove_key k (k_blobs kc).
Proof. intros H. unfold drop_blob. now rewrite H. Qed.

Lemma drop_blob_cap k kc : k_cap (drop_blob k kc) = k_cap kc.
Proof. unfold drop_blob. now destruct (assoc k (k_blobs kc)). Qed.

Lemma drop_blob_absent k kc : assoc k (k_blobs kc) = None -> drop_blob k kc = kc.
Proof. intros H. unfold drop_blob. now rewrite H. Qed.

Lemma evictableb_drop k kc b k' :
  assoc k (k_blobs kc) = Some b ->
  evictableb (drop_blob k kc) k' = if k' =? k then false else evictableb kc k'.
Proof.
  intros H. unfold evictableb. rewrite (drop_blob_blobs _ _ _ H).
  destruct (N.eqb_spec k' k).
  - subst. now rewrite assoc_remove_eq.
  - now rewrite assoc_remove_neq.
Qed.

Lemma s_size_drop k kc b :
  NoDup (map fst (k_blobs kc)) -> assoc k (k_blobs kc) = Some b ->
  s_size (drop_blob k kc) + b_size b = s_size kc.
Proof. intros Hn H. unfold s_size. rewrite (drop_blob_blobs _ _ _ H). now apply sum_sizes_remove. Qed.

Lemma inv_drop kc size q l clk k b :
  Inv (mkc kc size q) (mks kc l clk) -> assoc k (k_blobs kc) = Some b ->
  Inv (mkc (drop_blob k kc) (release size (b_size b)) (removeN k q)) (mks (drop_blob k kc) l clk).
Proof.
  intros [Hc Hk Hz Hcap H64 [Hn Hm Hso Ho]] Hb. cbn in *.
  pose proof (s_size_drop _ _ _ Hk Hb) as Hsz.
  constructor; cbn.
  - reflexivity.
  - rewrite (drop_blob_blobs _ _ _ Hb), map_fst_remove. now apply NoDup_removeN.
  - unfold release. destruct (N.ltb_spec size (b_size b)); lia.
  - rewrite drop_blob_cap. lia.
  - now rewrite drop_blob_cap.
  - constructor; cbn.
    + now apply NoDup_removeN.
    + intros k'. rewrite In_removeN, (evictableb_drop _ _ _ _ Hb), Hm.
      destruct (N.eqb_spec k' k); intuition congruence.
    + now apply sorted_filter.
    + intros k' Hk'. apply In_removeN in Hk'. now apply Ho.
Qed.

(* ---------------------------------------------------------------- a use of blob k: stamp := clock, move to the back *)
Lemma last_of_touch_eq kc l clk k : last_of (mks kc ((k, clk) :: l) clk) k = clk.
Proof. unfold last_of. cbn. now rewrite N.eqb_refl. Qed.
Lemma last_of_touch_neq kc kc' l clk clk' k k' : k' <> k -> last_of (mks kc ((k, clk) :: l) clk') k' = last_of (mks kc' l clk') k'.
Proof. intros H. unfold last_of. cbn. destruct (N.eqb_spec k k'); [congruence|auto]. Qed.

Lemma inv_touch kc size q l clk k :
  Inv (mkc kc size q) (mks kc l clk) ->
  Inv (mkc kc size (c_touch k q)) (mks kc ((k, clk) :: l) (N.succ clk)).
Proof.
  intros [Hc Hk Hz Hcap H64 [Hn Hm Hso Ho]]. cbn in *.
  constructor; cbn; auto.
  unfold c_touch. destruct (memN k q) eqn:Em.
  - apply memN_In in Em. constructor; cbn.
    + apply NoDup_app_last; [now apply NoDup_removeN|]. rewrite In_removeN. tauto.
    + intros k'. rewrite in_app_iff, In_removeN. cbn. rewrite <- Hm.
      destruct (N.eq_dec k' k); [subst; tauto|]. intuition congruence.
    + apply sorted_app_last.
      * eapply sorted_ext; [|apply sorted_filter; exact Hso].
        intros a b Ha Hb. apply In_removeN in Ha, Hb. unfold lt_last.
        now rewrite !(last_of_touch_neq kc kc l clk (N.succ clk)) by tauto.
      * intros a Ha. apply In_removeN in Ha. destruct Ha as [Ha Hne]. unfold lt_last.
        rewrite (last_of_touch_neq kc kc) by auto.
        replace (last_of (mks kc ((k, clk) :: l) (N.succ clk)) k) with clk
          by (unfold last_of; cbn; now rewrite N.eqb_refl).
        apply (Ho a Ha).
    + intros k' Hk'. apply in_app_iff in Hk'. cbn in Hk'.
      destruct (N.eq_dec k' k) as [->|Hne].
      * unfold last_of; cbn. rewrite N.eqb_refl. lia.
      * rewrite (last_of_touch_neq kc kc) by auto.
        assert (Hq : In k' q) by (destruct Hk' as [Hk'|[Hk'|[]]]; [now apply In_removeN in Hk'|congruence]).
        specialize (Ho k' Hq). unfold last_of in *; cbn in *. lia.
  - assert (Hnk : ~ In k q) by (rewrite <- memN_In; congruence).
    constructor; cbn; auto.
    + eapply sorted_ext; [|exact Hso]. intros a b Ha Hb. unfold lt_last.
      now rewrite !(last_of_touch_neq kc kc l clk (N.succ clk)) by (intro; subst; contradiction).
    + intros k' Hk'. rewrite (last_of_touch_neq kc kc) by (intro; subst; contradiction).
      specialize (Ho k' Hk'). unfold last_of in *; cbn in *. lia.
Qed.

(* ---------------------------------------------------------------- changing the flags of blob k *)
Lemma evictableb_upd k f kc k' :
  evictableb (upd_blob k f kc) k' =
  if k' =? k then match assoc k (k_blobs kc) with
                  | Some b => b_complete (f b) && negb (b_banned (f b))
                  | None => false
                  end
  else evictableb kc k'.
Proof.
  unfold evictableb. rewrite upd_blob_blobs. destruct (N.eqb_spec k' k).
  - subst. rewrite assoc_update_eq. now destruct (assoc k (k_blobs kc)).
  - now rewrite assoc_update_neq.
Qed.

Lemma sum_sizes_update k f bl : (forall b, b_size (f b) = b_size b) -> sum_sizes (update k f bl) = sum_sizes bl.
Proof.
  intros H. unfold update. induction bl as [|[k0 b0] t IH]; [reflexivity|].
  cbn [map fst snd]. destruct (k0 =? k); rewrite !sum_sizes_cons, IH; [now rewrite H|reflexivity].
Qed.

Lemma s_size_upd k f kc : (forall b, b_size (f b) = b_size b) -> s_size (upd_blob k f kc) = s_size kc.
Proof. intros H. unfold s_size. rewrite upd_blob_blobs. now apply sum_sizes_update. Qed.

Lemma last_of_either kc kc' l l' clk clk' clk'' k k' :
  l' = l \/ l' = (k, clk) :: l -> k' <> k -> last_of (mks kc l' clk') k' = last_of (mks kc' l clk'') k'.
Proof.
  intros [->| ->] Hne; [reflexivity|]. unfold last_of. cbn. destruct (N.eqb_spec k k'); [congruence|auto].
Qed.

(* blob k stops being (or stays not) evictable *)
Lemma inv_unevict kc size q l l' clk k f b :
  Inv (mkc kc size q) (mks kc l clk) -> assoc k (k_blobs kc) = Some b ->
  (forall b, b_size (f b) = b_size b) ->
  b_complete (f b) && negb (b_banned (f b)) = false ->
  l' = l \/ l' = (k, clk) :: l ->
  Inv (mkc (upd_blob k f kc) size (removeN k q)) (mks (upd_blob k f kc) l' (N.succ clk)).
Proof.
  intros [Hc Hk Hz Hcap H64 [Hn Hm Hso Ho]] Hb Hf Hev Hl. cbn in *.
  constructor; cbn; autorewrite with core_simp; auto.
  - now rewrite map_fst_update.
  - now rewrite s_size_upd.
  - now rewrite s_size_upd.
  - constructor; cbn.
    + now apply NoDup_removeN.
    + intros k'. rewrite In_removeN, evictableb_upd, Hb, Hev, Hm.
      destruct (N.eqb_spec k' k); intuition congruence.
    + eapply sorted_ext; [|apply sorted_filter; exact Hso].
      intros a b0 Ha Hb0. apply In_removeN in Ha, Hb0. unfold lt_last.
      now rewrite !(last_of_either _ kc l l' clk (N.succ clk) clk k) by tauto.
    + intros k' Hk'. apply In_removeN in Hk'. destruct Hk' as [Hq Hne].
      rewrite (last_of_either _ kc l l' clk (N.succ clk) clk k) by tauto. specialize (Ho k' Hq). lia.
Qed.

(* blob k becomes evictable: it is the most recently used one *)
Lemma inv_enqueue kc size q l clk k f b :
  Inv (mkc kc size q) (mks kc l clk) -> assoc k (k_blobs kc) = Some b ->
  (forall b, b_size (f b) = b_size b) ->
  evictableb kc k = false ->
  b_complete (f b) && negb (b_banned (f b)) = true ->
  Inv (mkc (upd_blob k f kc) size (q ++ [k])) (mks (upd_blob k f kc) ((k, clk) :: l) (N.succ clk)).
Proof.
  intros [Hc Hk Hz Hcap H64 [Hn Hm Hso Ho]] Hb Hf Hev Hev'. cbn in *.
  assert (Hnk : ~ In k q) by (rewrite Hm; congruence).
  constructor; cbn; autorewrite with core_simp; auto.
  - now rewrite map_fst_update.
  - now rewrite s_size_upd.
  - now rewrite s_size_upd.
  - constructor; cbn.
    + now apply NoDup_app_last.
    + intros k'. rewrite in_app_iff, evictableb_upd, Hb, Hev', Hm. cbn.
      destruct (N.eqb_spec k' k); [subst; tauto|]. intuition congruence.
    + apply sorted_app_last.
      * eapply sorted_ext; [|exact Hso]. intros a b0 Ha Hb0. unfold lt_last.
        now rewrite !(last_of_touch_neq _ kc l clk (N.succ clk)) by (intro; subst; contradiction).
      * intros a Ha. unfold lt_last. rewrite (last_of_touch_neq _ kc) by (intro; subst; contradiction).
        replace (last_of (mks (upd_blob k f kc) ((k, clk) :: l) (N.succ clk)) k) with clk
          by (unfold last_of; cbn; now rewrite N.eqb_refl).
        apply (Ho a Ha).
    + intros k' Hk'. apply in_app_iff in Hk'. cbn in Hk'.
      destruct (N.eq_dec k' k) as [->|Hne].
      * unfold last_of; cbn. rewrite N.eqb_refl. lia.
      * rewrite (last_of_touch_neq _ kc) by auto.
        assert (Hq : In k' q) by (destruct Hk' as [Hk'|[Hk'|[]]]; [auto|congruence]).
        specialize (Ho k' Hq). unfold last_of in *; cbn in *. lia.
Qed.

(* ---------------------------------------------------------------- a new blob enters the store *)
Lemma evictableb_add k sz d kc k' : assoc k (k_blobs kc) = None -> evictableb (add_blob k sz d kc) k' = evictableb kc k'.
Proof.
  intros Hn. unfold evictableb. rewrite add_blob_blobs, assoc_app.
  destruct (assoc k' (k_blobs kc)) eqn:E; auto. cbn. destruct (k =? k'); auto.
Qed.

Lemma add64_small a b : a + b < two64 -> add64 a b = a + b.
Proof. intros H. unfold add64. now apply N.mod_small. Qed.

Lemma inv_add kc size q l clk k sz d :
  Inv (mkc kc size q) (mks kc l clk) -> assoc k (k_blobs kc) = None -> size + sz <= k_cap kc ->
  Inv (mkc (add_blob k sz d kc) (add64 size sz) q) (mks (add_blob k sz d kc) ((k, clk) :: l) (N.succ clk)).
Proof.
  intros [Hc Hk Hz Hcap H64 [Hn Hm Hso Ho]] Hb Hfit. cbn in *.
  assert (Hnk : ~ In k q).
  { rewrite Hm. unfold evictableb. now rewrite Hb. }
  assert (Hs : s_size (add_blob k sz d kc) = s_size kc + sz).
  { unfold s_size. rewrite add_blob_blobs, sum_sizes_app, sum_sizes_cons. cbn. unfold sum_sizes at 2. cbn. lia. }
  constructor; cbn; autorewrite with core_simp; auto.
  - rewrite map_app. cbn. apply NoDup_app_last; auto. now apply assoc_None_notin.
  - rewrite Hs, add64_small; lia.
  - rewrite Hs. lia.
  - constructor; cbn; auto.
    + intros k'. now rewrite evictableb_add, Hm.
    + eapply sorted_ext; [|exact Hso]. intros a b0 Ha Hb0. unfold lt_last.
      now rewrite !(last_of_touch_neq _ kc l clk (N.succ clk)) by (intro; subst; contradiction).
    + intros k' Hk'. rewrite (last_of_touch_neq _ kc) by (intro; subst; contradiction).
      specialize (Ho k' Hk'). unfold last_of in *; cbn in *. lia.
Qed.

(* ---------------------------------------------------------------- the admission test and the eviction loop *)
Lemma c_fits_fixed cap size space : c_fits true cap size space = (size + space <=? cap).
Proof.
  unfold c_fits. destruct (N.leb_spec space cap); cbn.
  - destruct (N.leb_spec size (cap - space)); destruct (N.leb_spec (size + space) cap); auto; lia.
  - destruct (N.leb_spec (size + space) cap); auto; lia.
Qed.

Ltac fin_evict :=
  split; [reflexivity || assumption|split; [reflexivity || assumption|split; [assumption|
  split; [reflexivity || assumption|split; [try assumption; try discriminate; intros; lia|try assumption; try discriminate; auto]]]]].

Lemma evict_agree space l clk : forall q kc size,
  Inv (mkc kc size q) (mks kc l clk) ->
  exists kc1 size1 q1 ok,
    c_evict true q kc size space = (kc1, size1, q1, ok) /\
    s_evict q kc space = (kc1, ok) /\
    Inv (mkc kc1 size1 q1) (mks kc1 l clk) /\
    k_cap kc1 = k_cap kc /\
    (ok = true -> size1 + space <= k_cap kc) /\
    (ok = false -> q1 = []).
Proof.
  induction q as [|k q' IH]; intros kc size HI; pose proof HI as [Hc Hk Hz Hcap H64 Hq]; cbn in Hc, Hk, Hz, Hcap, H64, Hq; subst size.
  - cbn [c_evict s_evict]. rewrite c_fits_fixed. destruct (N.leb_spec (s_size kc + space) (k_cap kc)).
    + exists kc, (s_size kc), [], true. fin_evict.
    + exists kc, (s_size kc), [], false. fin_evict.
  - cbn [c_evict s_evict]. rewrite c_fits_fixed. destruct (N.leb_spec (s_size kc + space) (k_cap kc)).
    + exists kc, (s_size kc), (k :: q'), true. fin_evict.
    + assert (He : evictableb kc k = true) by (apply (q_mem _ _ Hq); now left).
      unfold evictableb in He. destruct (assoc k (k_blobs kc)) as [b|] eqn:Eb; [|discriminate].
      pose proof (inv_drop _ _ _ _ _ _ _ HI Eb) as HI'.
      rewrite removeN_head in HI'.
      2:{ pose proof (q_nodup _ _ Hq) as Hnd. now inversion Hnd. }
      destruct (IH _ _ HI') as (kc1 & size1 & q1 & ok & E1 & E2 & HI1 & Hc1 & Hok & Hno).
      exists kc1, size1, q1, ok. rewrite drop_blob_cap in *. fin_evict.
Qed.

(* the keys evicted by the loop are a prefix of the queue: what is left of the blob map *)
Lemma s_evict_cap order : forall kc space, k_cap (fst (s_evict order kc space)) = k_cap kc.
Proof.
  induction order as [|k t IH]; intros kc space; cbn.
  - now destruct (s_size kc + space <=? k_cap kc).
  - destruct (s_size kc + space <=? k_cap kc); auto. now rewrite IH, drop_blob_cap.
Qed.

(* ---------------------------------------------------------------- Clean's deletion loops *)
Lemma clean_agree target l clk : forall keys kc size q,
  Inv (mkc kc size q) (mks kc l clk) ->
  let c' := c_clean_loop (mkc kc size q) target keys in
  c_core c' = s_clean_loop kc target keys /\ Inv c' (mks (c_core c') l clk) /\ k_cap (c_core c') = k_cap kc.
Proof.
  induction keys as [|k t IH]; intros kc size q HI; cbn [c_clean_loop s_clean_loop].
  - cbn. auto.
  - pose proof (inv_size _ _ HI) as Hz. cbn in Hz. subst size. cbn [c_size c_core].
    destruct (s_size kc <=? target).
    + cbn. auto.
    + destruct (assoc k (k_blobs kc)) as [b|] eqn:Eb.
      * pose proof (inv_drop _ _ _ _ _ _ _ HI Eb) as HI'. unfold c_delete. cbn [c_size c_core c_queue].
        destruct (IH _ _ _ HI') as (E1 & E2 & E3). rewrite drop_blob_cap in E3. auto.
      * rewrite (drop_blob_absent _ _ Eb). apply IH. exact HI.
Qed.

(* ================================================================ step-wise refinement *)
Lemma lookup_inl kc k sc b : lookup kc k sc = inl b -> assoc k (k_blobs kc) = Some b /\ out_of_scope b sc = false.
Proof.
  unfold lookup. destruct (assoc k (k_blobs kc)) as [b0|]; [|discriminate].
  destruct (out_of_scope b0 sc) eqn:E; [discriminate|]. intros H. inversion H. subst. auto.
Qed.

Lemma same_index_open_write_at kc b off data : same_index kc (open_write_at kc b off data).
Proof.
  unfold open_write_at. destruct (cell_of kc (b_cell b)); [|apply same_index_refl].
  destruct data; [apply same_index_refl|apply same_index_set_cell].
Qed.

Ltac plain_crush :=
  repeat match goal with
  | H : Some _ = Some _ |- _ => inversion H; subst; clear H
  | H : Some _ = None |- _ => discriminate H
  | H : None = Some _ |- _ => discriminate H
  | H : (_, _) = (_, _) |- _ => inversion H; subst; clear H
  | H : context [match ?x with _ => _ end] |- _ => destruct x eqn:?
  end.

Lemma plain_same_index bk kc o kc' r : plain_step bk kc o = Some (kc', r) -> same_index kc kc'.
Proof.
  intros H. unfold plain_step in H.
  destruct o; plain_crush;
    try apply same_index_refl;
    try (apply same_index_upd_blob; intros; apply triple_set_mds);
    try apply same_index_set_cell;
    try apply same_index_set_off;
    try (eapply same_index_trans; [apply same_index_set_cell|apply same_index_set_off]).
Qed.

Lemma evict_keeps_absent order : forall kc space k,
  assoc k (k_blobs kc) = None -> assoc k (k_blobs (fst (s_evict order kc space))) = None.
Proof.
  induction order as [|k0 t IH]; intros kc space k Hk; cbn [s_evict].
  - now destruct (s_size kc + space <=? k_cap kc).
  - destruct (s_size kc + space <=? k_cap kc); auto. apply IH.
    destruct (assoc k0 (k_blobs kc)) as [b0|] eqn:E0.
    + rewrite (drop_blob_blobs _ _ _ E0). destruct (N.eq_dec k k0) as [->|Hne].
      * apply assoc_remove_eq.
      * now rewrite assoc_remove_neq.
    + now rewrite (drop_blob_absent _ _ E0).
Qed.

Lemma create_refines bk kc size q l clk k sz data :
  Inv (mkc kc size q) (mks kc l clk) ->
  snd (c_create bk true (mkc kc size q) k sz data) = snd (s_create bk (mks kc l clk) k sz data) /\
  Inv (fst (c_create bk true (mkc kc size q) k sz data)) (fst (s_create bk (mks kc l clk) k sz data)).
Proof.
  intros HI. unfold c_create, s_create. cbn [c_core s_core c_size c_queue s_last s_clock].
  destruct (create_supported bk data); cbn [negb]; [|split; [reflexivity|now apply inv_tick]].
  destruct (assoc k (k_blobs kc)) eqn:Ek; [split; [reflexivity|now apply inv_tick]|].
  rewrite <- (inv_queue_eq _ _ HI). cbn [c_queue].
  destruct (evict_agree sz l clk q kc size HI) as (kc1 & size1 & q1 & ok & E1 & E2 & HI1 & Hc1 & Hok & Hno).
  rewrite E1, E2.
  destruct ok.
  - assert (Ek1 : assoc k (k_blobs kc1) = None).
    { pose proof (evict_keeps_absent q kc sz k Ek) as H. now rewrite E2 in H. }
    specialize (Hok eq_refl). rewrite <- Hc1 in Hok.
    destruct data as [d|]; cbn [fst snd].
    + split; [reflexivity|]. unfold touch. cbn [s_last s_clock]. now apply inv_add.
    + split; [reflexivity|]. unfold touch. cbn [s_last s_clock].
      pose proof (inv_add _ _ _ _ _ k sz [] HI1 Ek1 Hok) as HI2.
      eapply inv_frame in HI2; [exact HI2|]. apply same_index_add_handle.
  - split; [reflexivity|]. now apply inv_tick.
Qed.

Lemma removeN_not_evictable kc l clk q k :
  queue_ok (mks kc l clk) q -> evictableb kc k = false -> removeN k q = q.
Proof. intros Hq He. apply removeN_notin. rewrite (q_mem _ _ Hq). cbn. congruence. Qed.

Theorem step_refines bk c s o :
  Inv c s ->
  snd (cstep bk true c o) = snd (sstep bk s o) /\ Inv (fst (cstep bk true c o)) (fst (sstep bk s o)).
Proof.
  intros HI. destruct (inv_canon _ _ HI) as [Ec Es].
  destruct c as [kc size q], s as [kc' l clk]. cbn in Ec, Es. inversion Ec; subst kc'. clear Ec Es.
  unfold cstep, sstep. cbn [c_core s_core c_size c_queue s_last s_clock].
  destruct (plain_step bk kc o) as [[kc1 r]|] eqn:P.
  { cbn [fst snd]. split; [reflexivity|]. apply inv_tick. eapply inv_frame; [exact HI|]. eapply plain_same_index; eauto. }
  pose proof (inv_queue _ _ HI) as HQ. cbn in HQ.
  destruct o; cbn in P; try discriminate P; try (destruct bk; discriminate P); clear P.
  - (* Create *) now apply create_refines.
  - (* CreateW *) now apply create_refines.
  - (* Open *)
    destruct bk; [split; [reflexivity|now apply inv_tick]|].
    destruct (lookup kc k sc) as [b|e] eqn:L; [|split; [reflexivity|now apply inv_tick]].
    cbn [fst snd]. split; [reflexivity|]. unfold touch. cbn [s_last s_clock].
    pose proof (inv_touch _ _ _ _ _ k HI) as HI2.
    eapply inv_frame in HI2; [exact HI2|]. apply same_index_add_handle.
  - (* OpenRead *)
    destruct (lookup kc k sc) as [b|e] eqn:L; [|split; [reflexivity|now apply inv_tick]].
    cbn [fst snd]. split; [reflexivity|]. now apply inv_touch.
  - (* OpenWriteAt *)
    destruct (lookup kc k sc) as [b|e] eqn:L; [|split; [reflexivity|now apply inv_tick]].
    cbn [fst snd]. split; [reflexivity|]. unfold touch. cbn [s_last s_clock].
    pose proof (inv_touch _ _ _ _ _ k HI) as HI2.
    eapply inv_frame in HI2; [exact HI2|]. apply same_index_open_write_at.
  - (* MarkComplete *)
    destruct (assoc k (k_blobs kc)) as [b|] eqn:Eb; [|split; [reflexivity|now apply inv_tick]].
    destruct (b_complete b) eqn:Ecm; [split; [reflexivity|now apply inv_tick]|].
    assert (Hne : evictableb kc k = false) by (unfold evictableb; now rewrite Eb, Ecm).
    cbn [fst snd]. split; [reflexivity|]. unfold touch. cbn [s_last s_clock].
    destruct (b_banned b) eqn:Ebn.
    + rewrite <- (removeN_not_evictable _ _ _ _ _ HQ Hne) at 1.
      eapply inv_unevict; eauto. cbn. now rewrite Ebn.
    + eapply inv_enqueue; eauto. cbn. now rewrite Ebn.
  - (* Delete *)
    destruct (lookup kc k sc) as [b|e] eqn:L; [|split; [reflexivity|now apply inv_tick]].
    apply lookup_inl in L. destruct L as [Eb _].
    cbn [fst snd]. split; [reflexivity|]. apply inv_tick. unfold c_delete. cbn [c_core c_size c_queue].
    now apply inv_drop.
  - (* Ban *)
    destruct (lookup kc k sc) as [b|e] eqn:L; [|split; [reflexivity|now apply inv_tick]].
    apply lookup_inl in L. destruct L as [Eb _].
    destruct (b_banned b) eqn:Ebn; [split; [reflexivity|now apply inv_tick]|].
    cbn [fst snd]. split; [reflexivity|].
    destruct (b_complete b) eqn:Ecm.
    + eapply inv_unevict; eauto. cbn. now rewrite andb_false_r.
    + assert (Hne : evictableb kc k = false) by (unfold evictableb; now rewrite Eb, Ecm).
      rewrite <- (removeN_not_evictable _ _ _ _ _ HQ Hne) at 1.
      eapply inv_unevict; eauto. cbn. now rewrite andb_false_r.
  - (* Unban *)
    destruct (lookup kc k sc) as [b|e] eqn:L; [|split; [reflexivity|now apply inv_tick]].
    apply lookup_inl in L. destruct L as [Eb _].
    destruct (b_banned b) eqn:Ebn; cbn [negb]; [|split; [reflexivity|now apply inv_tick]].
    assert (Hne : evictableb kc k = false) by (unfold evictableb; rewrite Eb, Ebn; now rewrite andb_false_r).
    cbn [fst snd]. split; [reflexivity|]. unfold touch. cbn [s_last s_clock].
    destruct (b_complete b) eqn:Ecm.
    + eapply inv_enqueue; eauto. cbn. now rewrite Ecm.
    + rewrite <- (removeN_not_evictable _ _ _ _ _ HQ Hne) at 1.
      eapply inv_unevict; eauto. cbn. now rewrite Ecm.
  - (* Clean *)
    destruct bk; [|split; [reflexivity|now apply inv_tick]].
    pose proof (inv_size _ _ HI) as Hz. cbn in Hz. subst size.
    destruct ((pct <? 0) || (100 <=? pct))%Z.
    { cbn [fst snd]. split; [reflexivity|now apply inv_tick]. }
    rewrite <- (inv_queue_eq _ _ HI). cbn [c_queue].
    destruct (evict_agree (k_cap kc - clean_target (k_cap kc) pct) l clk q kc _ HI)
      as (kc1 & size1 & q1 & ok & E1 & E2 & HI1 & Hc1 & Hok & Hno).
    rewrite E1, E2. pose proof (inv_size _ _ HI1) as Hz1. cbn in Hz1. subst size1.
    destruct ok.
    + cbn [fst snd]. split; [reflexivity|now apply inv_tick].
    + destruct (order_legal kc1 order); [|split; [reflexivity|now apply inv_tick]].
      destruct (clean_agree (clean_target (k_cap kc) pct) l clk (clean_keys kc1 respect order) kc1 _ q1 HI1) as (F1 & F2 & F3).
      cbn [fst snd]. rewrite <- F1.
      pose proof (inv_size _ _ F2) as Hz2. cbn in Hz2. rewrite Hz2.
      split; [reflexivity|]. apply inv_tick.
      destruct (inv_canon _ _ F2) as [G1 G2]. cbn in G1. rewrite G1 at 1. rewrite <- G1. exact F2.
Qed.

(* ================================================================ histories *)
Lemma inv_init cap : cap < two64 -> Inv (cinit cap) (sinit cap).
Proof.
  intros H. constructor; cbn; auto.
  - constructor.
  - unfold s_size, sum_sizes. cbn. lia.
  - constructor; cbn.
    + constructor.
    + intros k. unfold evictableb. cbn. split; [tauto|discriminate].
    + constructor.
    + tauto.
Qed.

Lemma snap_agree c s : Inv c s -> csnap c = ssnap s.
Proof.
  intros H. unfold csnap, ssnap. rewrite (inv_queue_eq _ _ H), (inv_size _ _ H), (inv_core _ _ H). reflexivity.
Qed.

Theorem run_refines bk : forall ops c s, Inv c s ->
  snd (crun bk true c ops) = snd (srun bk s ops) /\ Inv (fst (crun bk true c ops)) (fst (srun bk s ops)).
Proof.
  induction ops as [|o t IH]; intros c s HI; cbn [crun srun].
  - cbn. auto.
  - destruct (step_refines bk c s o HI) as [Ho HI1].
    destruct (cstep bk true c o) as [c1 r1]. destruct (sstep bk s o) as [s1 r2]. cbn [fst snd] in *.
    destruct (IH c1 s1 HI1) as [Hr HI2].
    destruct (crun bk true c1 t) as [c2 rs1]. destruct (srun bk s1 t) as [s2 rs2]. cbn [fst snd] in *.
    subst. rewrite (snap_agree _ _ HI1). auto.
Qed.

(* run of a concatenation *)
Lemma crun_app bk fx : forall a b c,
  crun bk fx c (a ++ b) =
  (fst (crun bk fx (fst (crun bk fx c a)) b), snd (crun bk fx c a) ++ snd (crun bk fx (fst (crun bk fx c a)) b)).
Proof.
  induction a as [|o t IH]; intros b c; cbn [crun app].
  - cbn. now destruct (crun bk fx c b).
  - destruct (cstep bk fx c o) as [c1 r]. rewrite IH.
    destruct (crun bk fx c1 t) as [c2 rs]. cbn [fst snd].
    now destruct (crun bk fx c2 b).
Qed.

Lemma srun_app bk : forall a b s,
  srun bk s (a ++ b) =
  (fst (srun bk (fst (srun bk s a)) b), snd (srun bk s a) ++ snd (srun bk (fst (srun bk s a)) b)).
Proof.
  induction a as [|o t IH]; intros b s; cbn [srun app].
  - cbn. now destruct (srun bk s b).
  - destruct (sstep bk s o) as [s1 r]. rewrite IH.
    destruct (srun bk s1 t) as [s2 rs]. cbn [fst snd].
    now destruct (srun bk s2 b).
Qed.

(* ================================================================ what the eviction loop removes *)
(* the loop drops a prefix of the order it is given and nothing else *)
Lemma s_evict_prefix : forall order kc space,
  (forall k, In k order -> assoc k (k_blobs kc) <> None) -> NoDup order ->
  exists n, forall k,
    assoc k (k_blobs (fst (s_evict order kc space))) =
    if memN k (firstn n order) then None else assoc k (k_blobs kc).
Proof.
  induction order as [|k0 t IH]; intros kc space Hin Hnd; cbn [s_evict].
  - exists 0%nat. intros k. now destruct (s_size kc + space <=? k_cap kc).
  - destruct (s_size kc + space <=? k_cap kc).
    + exists 0%nat. intros k. reflexivity.
    + inversion Hnd as [|? ? Hk0 Hnd']; subst.
      destruct (assoc k0 (k_blobs kc)) as [b0|] eqn:E0; [|exfalso; apply (Hin k0); [now left|auto]].
      destruct (IH (drop_blob k0 kc) space) as [n Hn]; auto.
      { intros k Hk. rewrite (drop_blob_blobs _ _ _ E0).
        rewrite assoc_remove_neq by (intro; subst; contradiction). apply Hin. now right. }
      exists (S n). intros k. rewrite Hn. cbn [firstn memN existsb]. fold (memN k (firstn n t)).
      rewrite (drop_blob_blobs _ _ _ E0).
      destruct (N.eqb_spec k k0) as [->|Hne]; cbn [orb].
      * rewrite assoc_remove_eq. now destruct (memN k0 (firstn n t)).
      * now rewrite assoc_remove_neq.
Qed.

Lemma in_skipn_in {A} (x : A) : forall n l, In x (skipn n l) -> In x l.
Proof.
  induction n as [|n IH]; intros l H; [exact H|]. destruct l; cbn in H; [tauto|]. right. now apply IH.
Qed.
Lemma in_firstn_in {A} (x : A) : forall n l, In x (firstn n l) -> In x l.
Proof.
  induction n as [|n IH]; intros l H; cbn in H; [tauto|]. destruct l; cbn in H; [tauto|].
  destruct H; [now left|right; now apply IH].
Qed.

Lemma sorted_prefix_lt (R : N -> N -> Prop) l n a b :
  StronglySorted R l -> In a (firstn n l) -> In b (skipn n l) -> R a b.
Proof.
  intros Hs. revert n. induction Hs as [|x t Hs IH Hf]; intros n Ha Hb.
  - destruct n; cbn in Ha; tauto.
  - destruct n; cbn in Ha, Hb; [tauto|]. destruct Ha as [->|Ha].
    + rewrite Forall_forall in Hf. apply Hf. eapply in_skipn_in; eauto.
    + eapply IH; eauto.
Qed.

(* ================================================================ the capacity never changes *)
Lemma s_clean_loop_cap target : forall keys kc, k_cap (s_clean_loop kc target keys) = k_cap kc.
Proof.
  induction keys as [|k t IH]; intros kc; cbn [s_clean_loop]; auto.
  destruct (s_size kc <=? target); auto. now rewrite IH, drop_blob_cap.
Qed.

Lemma open_write_at_cap kc b off data : k_cap (open_write_at kc b off data) = k_cap kc.
Proof. unfold open_write_at. destruct (cell_of kc (b_cell b)); auto. now destruct data. Qed.

Lemma sstep_cap bk s o : k_cap (s_core (fst (sstep bk s o))) = k_cap (s_core s).
Proof.
  unfold sstep. destruct (plain_step bk (s_core s) o) as [[kc1 r]|] eqn:P.
  { cbn. apply plain_same_index in P. now destruct P. }
  clear P. destruct o; cbn [fst s_core]; auto.
  - unfold s_create. destruct (negb (create_supported bk None)); auto.
    destruct (assoc k (k_blobs (s_core s))); auto.
    pose proof (s_evict_cap (evict_order s) (s_core s) size) as H.
    destruct (s_evict (evict_order s) (s_core s) size) as [kc1 []]; cbn in *; auto.
  - unfold s_create. destruct (negb (create_supported bk (Some data))); auto.
    destruct (assoc k (k_blobs (s_core s))); auto.
    pose proof (s_evict_cap (evict_order s) (s_core s) size) as H.
    destruct (s_evict (evict_order s) (s_core s) size) as [kc1 []]; cbn in *; auto.
  - destruct bk; auto. destruct (lookup (s_core s) k sc); auto.
  - destruct (lookup (s_core s) k sc); auto.
  - destruct (lookup (s_core s) k sc); cbn; auto. apply open_write_at_cap.
  - destruct (assoc k (k_blobs (s_core s))); auto. destruct (b_complete b); auto.
  - destruct (lookup (s_core s) k sc); cbn; auto. apply drop_blob_cap.
  - destruct (lookup (s_core s) k sc); auto. destruct (b_banned b); auto.
  - destruct (lookup (s_core s) k sc); auto. destruct (negb (b_banned b)); auto.
  - destruct bk; auto. destruct ((pct <? 0) || (100 <=? pct))%Z; auto.
    pose proof (s_evict_cap (evict_order s) (s_core s) (k_cap (s_core s) - clean_target (k_cap (s_core s)) pct)) as H.
    destruct (s_evict (evict_order s) (s_core s) (k_cap (s_core s) - clean_target (k_cap (s_core s)) pct)) as [kc1 []]; cbn in *; auto.
    destruct (order_legal kc1 order); cbn; auto. now rewrite s_clean_loop_cap.
Qed.

Lemma srun_cap bk : forall ops s, k_cap (s_core (fst (srun bk s ops))) = k_cap (s_core s).
Proof.
  induction ops as [|o t IH]; intros s; cbn [srun]; auto.
  pose proof (sstep_cap bk s o) as H. destruct (sstep bk s o) as [s1 r]. cbn in H.
  specialize (IH s1). destruct (srun bk s1 t) as [s2 rs]. cbn in *. congruence.
Qed.

(* ================================================================ who gets evicted *)
Lemma in_firstn_or_skipn {A} (x : A) n l : In x l -> In x (firstn n l) \/ In x (skipn n l).
Proof. intros H. rewrite <- (firstn_skipn n l) in H. now apply in_app_iff in H. Qed.

Lemma evict_victims c s space : Inv c s ->
  let kc1 := fst (s_evict (evict_order s) (s_core s) space) in
  forall k' b, assoc k' (k_blobs (s_core s)) = Some b -> assoc k' (k_blobs kc1) = None ->
    evictableb (s_core s) k' = true /\
    forall k'', evictableb kc1 k'' = true -> last_of s k' < last_of s k''.
Proof.
  intros HI kc1 k' b Hb Hgone.
  pose proof (inv_queue _ _ HI) as HQ. rewrite (inv_queue_eq _ _ HI) in HQ.
  destruct HQ as [Hnd Hmem Hsorted _].
  destruct (s_evict_prefix (evict_order s) (s_core s) space) as [n Hn]; auto.
  { intros k Hk. apply Hmem in Hk. unfold evictableb in Hk. destruct (assoc k (k_blobs (s_core s))); [discriminate|discriminate Hk]. }
  fold kc1 in Hn.
  assert (Hin : In k' (firstn n (evict_order s))).
  { specialize (Hn k'). rewrite Hgone, Hb in Hn. match type of Hn with context [if ?m then _ else _] => destruct m eqn:E end; [|discriminate Hn].
    now apply memN_In in E. }
  split.
  - apply Hmem. eapply in_firstn_in; eauto.
  - intros k'' He. unfold evictableb in He. specialize (Hn k'').
    destruct (assoc k'' (k_blobs kc1)) as [b''|] eqn:E''; [|discriminate].
    match type of Hn with context [if ?m then _ else _] => destruct m eqn:Em end; [discriminate Hn|].
    assert (Hin'' : In k'' (evict_order s)).
    { apply Hmem. unfold evictableb. now rewrite <- Hn. }
    destruct (in_firstn_or_skipn k'' n _ Hin'') as [H|H].
    + exfalso. apply memN_In in H. unfold key in *. rewrite Em in H. discriminate H.
    + exact (sorted_prefix_lt _ _ _ _ _ Hsorted Hin H).
Qed.

Lemma assoc_add_blob k sz d kc k' :
  assoc k' (k_blobs (add_blob k sz d kc)) =
  match assoc k' (k_blobs kc) with
  | Some b => Some b
  | None => if k =? k' then Some (mkblob sz false false [] (k_next kc)) else None
  end.
Proof. rewrite add_blob_blobs, assoc_app. cbn. now destruct (assoc k' (k_blobs kc)). Qed.

(* Create: whatever leaves the store was complete and not banned, and was used less recently than
   every complete, not banned blob that stays *)
Theorem create_victims bk c s k sz data : Inv c s ->
  let s' := fst (s_create bk s k sz data) in
  forall k' b, assoc k' (k_blobs (s_core s)) = Some b -> assoc k' (k_blobs (s_core s')) = None ->
    b_complete b = true /\ b_banned b = false /\
    forall k'' b'', assoc k'' (k_blobs (s_core s')) = Some b'' -> b_complete b'' = true -> b_banned b'' = false ->
      last_of s k' < last_of s k''.
Proof.
  intros HI s' k' b Hb Hgone. subst s'. unfold s_create in *.
  destruct (negb (create_supported bk data)); [cbn in Hgone; congruence|].
  destruct (assoc k (k_blobs (s_core s))) eqn:Ek; [cbn in Hgone; congruence|].
  pose proof (evict_victims c s sz HI k' b Hb) as HV. cbn zeta in HV.
  destruct (s_evict (evict_order s) (s_core s) sz) as [kc1 ok]. cbn [fst] in HV.
  assert (Hfin : forall kcf, (kcf = kc1 \/ (exists d, kcf = add_blob k sz d kc1) \/
                              (exists d cc, kcf = fst (add_handle cc (add_blob k sz d kc1)))) ->
          assoc k' (k_blobs kcf) = None ->
          b_complete b = true /\ b_banned b = false /\
          forall k'' b'', assoc k'' (k_blobs kcf) = Some b'' -> b_complete b'' = true -> b_banned b'' = false ->
            last_of s k' < last_of s k'').
  { intros kcf Hk Hg.
    assert (Hblobs : k_blobs kcf = k_blobs kc1 \/ exists d, k_blobs kcf = k_blobs (add_blob k sz d kc1)).
    { destruct Hk as [->|[[d ->]|[d [cc ->]]]]; [now left|right; now exists d|right; now exists d]. }
    assert (Hg1 : assoc k' (k_blobs kc1) = None).
    { destruct Hblobs as [E|[d E]]; rewrite E in Hg; auto. rewrite assoc_add_blob in Hg.
      now destruct (assoc k' (k_blobs kc1)). }
    destruct (HV Hg1) as [He Hlt]. unfold evictableb in He. rewrite Hb in He.
    apply andb_true_iff in He. destruct He as [Hc Hbn]. apply negb_true_iff in Hbn.
    repeat split; auto. intros k'' b'' H'' Hc'' Hb''. apply Hlt. unfold evictableb.
    destruct Hblobs as [E|[d E]]; rewrite E in H''.
    - now rewrite H'', Hc'', Hb''.
    - rewrite assoc_add_blob in H''. destruct (assoc k'' (k_blobs kc1)) as [b1|].
      + inversion H''; subst. now rewrite Hc'', Hb''.
      + destruct (k =? k''); [|discriminate]. inversion H''; subst. discriminate. }
  destruct ok.
  - destruct data as [d|]; cbn [fst s_core] in Hgone |- *.
    + apply Hfin; auto. right; left. now exists d.
    + apply Hfin; auto. right; right. now exists [], (k_next kc1).
  - cbn [fst s_core] in Hgone |- *. apply Hfin; auto.
Qed.

(* ================================================================ scoped views *)
Lemma lookup_any kc k b : assoc k (k_blobs kc) = Some b -> lookup kc k SAny = inl b.
Proof. intros H. unfold lookup. now rewrite H. Qed.
Lemma lookup_in_scope kc k sc b : assoc k (k_blobs kc) = Some b -> out_of_scope b sc = false -> lookup kc k sc = inl b.
Proof. intros H Ho. unfold lookup. now rewrite H, Ho. Qed.
Lemma lookup_out_scope kc k sc b : assoc k (k_blobs kc) = Some b -> out_of_scope b sc = true -> lookup kc k sc = inr EOutOfScope.
Proof. intros H Ho. unfold lookup. now rewrite H, Ho. Qed.

(* an operation issued through a scoped view: on an out-of-scope blob it fails with ErrOutOfScope
   and changes nothing; on an in-scope blob it is the unscoped operation *)
Theorem scope_hides bk fx c o k sc b :
  op_scope o = Some (k, sc) -> assoc k (k_blobs (c_core c)) = Some b ->
  match o with Has _ _ => True | _ =>
    if out_of_scope b sc then cstep bk fx c o = (c, if (match bk, o with
                                                      | Disk, Open _ _ => true
                                                      | Memory, WriteAtMd _ _ _ _ _ => true
                                                      | _, _ => false end) then OUnsupported else OErr EOutOfScope)
    else cstep bk fx c o = cstep bk fx c (unscoped o)
  end.
Proof.
  intros Ho Hb. destruct c as [kc size q]. cbn [c_core] in Hb.
  destruct o; cbn in Ho; try discriminate Ho; inversion Ho; subst; clear Ho; auto;
  destruct (out_of_scope b sc) eqn:Eo;
  unfold cstep; cbn [plain_step unscoped c_core c_size c_queue];
  try rewrite (lookup_any _ _ _ Hb);
  try rewrite (lookup_out_scope _ _ _ _ Hb Eo);
  try rewrite (lookup_in_scope _ _ _ _ Hb Eo);
  try reflexivity; destruct bk; reflexivity.
Qed.

Theorem scope_has bk fx c k sc :
  snd (cstep bk fx c (Has k sc)) =
  match assoc k (k_blobs (c_core c)) with
  | None => OHas false false
  | Some b => OHas true (negb (out_of_scope b sc))
  end.
Proof. reflexivity. Qed.

Lemma scope_list_in (c : cstate) sc k :
  In k (scoped_keys (c_core c) sc) <->
  exists b, In (k, b) (k_blobs (c_core c)) /\ out_of_scope b sc = false.
Proof.
  unfold scoped_keys, sort_keys. rewrite In_isort, in_map_iff. split.
  - intros [[k0 b] [E H]]. cbn in E. subst. apply filter_In in H. destruct H as [H1 H2]. cbn in H2.
    exists b. split; auto. now apply negb_true_iff in H2.
  - intros [b [H1 H2]]. exists (k, b). split; auto. apply filter_In. split; auto. cbn. now rewrite H2.
Qed.

Theorem scope_list bk fx c sc :
  snd (cstep bk fx c (ListK sc)) = OKeys (scoped_keys (c_core c) sc).
Proof. reflexivity. Qed.

(* ================================================================ metadata *)
Lemma assoc_filter_fst {A} (p : N -> bool) s (l : list (N * A)) :
  assoc s (filter (fun m => p (fst m)) l) = if p s then assoc s l else None.
Proof.
  induction l as [|[s0 v] t IH]; cbn; [now destruct (p s)|].
  destruct (p s0) eqn:E0; cbn; destruct (N.eqb_spec s0 s); subst; rewrite ?IH, ?E0; auto;
    try (destruct (p s); auto).
Qed.

(* blobs of kc' are blobs of kc, unchanged *)
Definition sub_blobs (kc kc' : core) : Prop :=
  forall k b', assoc k (k_blobs kc') = Some b' -> assoc k (k_blobs kc) = Some b'.

Lemma sub_blobs_refl kc : sub_blobs kc kc.
Proof. now intros k b'. Qed.
Lemma sub_blobs_trans a b c : sub_blobs a b -> sub_blobs b c -> sub_blobs a c.
Proof. intros H1 H2 k b' H. auto. Qed.
Lemma sub_blobs_drop k kc : sub_blobs kc (drop_blob k kc).
Proof.
  intros k' b' H. destruct (assoc k (k_blobs kc)) as [b|] eqn:E.
  - rewrite (drop_blob_blobs _ _ _ E) in H. destruct (N.eq_dec k' k) as [->|Hne].
    + rewrite assoc_remove_eq in H. discriminate.
    + now rewrite assoc_remove_neq in H.
  - now rewrite (drop_blob_absent _ _ E) in H.
Qed.

Lemma c_evict_sub fx space : forall q kc size,
  sub_blobs kc (fst (fst (fst (c_evict fx q kc size space)))).
Proof.
  induction q as [|k t IH]; intros kc size; cbn [c_evict].
  - destruct (c_fits fx (k_cap kc) size space); apply sub_blobs_refl.
  - destruct (c_fits fx (k_cap kc) size space); [apply sub_blobs_refl|].
    eapply sub_blobs_trans; [apply sub_blobs_drop|apply IH].
Qed.

Lemma c_clean_loop_sub target : forall keys c, sub_blobs (c_core c) (c_core (c_clean_loop c target keys)).
Proof.
  induction keys as [|k t IH]; intros c; cbn [c_clean_loop]; [apply sub_blobs_refl|].
  destruct (c_size c <=? target); [apply sub_blobs_refl|].
  destruct (assoc k (k_blobs (c_core c))) eqn:E; [|apply IH].
  eapply sub_blobs_trans; [|apply IH]. unfold c_delete. cbn [c_core]. apply sub_blobs_drop.
Qed.

(* the three ways blob k can come out of a step that does not write its metadata (k, s) *)
Definition md_kept (kc kc' : core) (k : key) (s : N) (b : blob) : Prop :=
  assoc k (k_blobs kc') = None \/
  exists b', assoc k (k_blobs kc') = Some b' /\ b_cell b' = b_cell b /\ assoc s (b_mds b') = assoc s (b_mds b).

Lemma md_kept_same_blobs kc kc' k s b :
  k_blobs kc' = k_blobs kc -> assoc k (k_blobs kc) = Some b -> md_kept kc kc' k s b.
Proof. intros E H. right. exists b. rewrite E. auto. Qed.

Lemma md_kept_sub kc kc' k s b :
  sub_blobs kc kc' -> assoc k (k_blobs kc) = Some b -> md_kept kc kc' k s b.
Proof.
  intros Hs H. destruct (assoc k (k_blobs kc')) as [b'|] eqn:E; [|now left].
  right. exists b'. pose proof (Hs _ _ E) as E2. rewrite E2 in H. inversion H. subst. auto.
Qed.

Lemma md_kept_upd kc k0 f k s b :
  assoc k (k_blobs kc) = Some b ->
  (k0 = k -> b_cell (f b) = b_cell b /\ assoc s (b_mds (f b)) = assoc s (b_mds b)) ->
  md_kept kc (upd_blob k0 f kc) k s b.
Proof.
  intros H Hf. right. rewrite upd_blob_blobs. destruct (N.eq_dec k k0) as [->|Hne].
  - exists (f b). rewrite assoc_update_eq, H. cbn. destruct (Hf eq_refl). auto.
  - exists b. rewrite assoc_update_neq by auto. auto.
Qed.

Lemma md_kept_blobs_eq kc kc1 kc2 k s b :
  k_blobs kc2 = k_blobs kc1 -> md_kept kc kc1 k s b -> md_kept kc kc2 k s b.
Proof. intros E [H|[b' H]]; [left|right; exists b']; now rewrite E. Qed.

Lemma md_kept_add kc kc1 k0 sz d k s b :
  assoc k (k_blobs kc) = Some b -> assoc k0 (k_blobs kc) = None -> sub_blobs kc kc1 ->
  md_kept kc (add_blob k0 sz d kc1) k s b.
Proof.
  intros H H0 Hs. assert (Hne : k0 <> k) by congruence.
  destruct (md_kept_sub _ _ _ s _ Hs H) as [E|[b' [E1 E2]]].
  - left. rewrite assoc_add_blob, E. destruct (N.eqb_spec k0 k); [contradiction|auto].
  - right. exists b'. rewrite assoc_add_blob, E1. auto.
Qed.

Lemma open_write_at_blobs kc b off data : k_blobs (open_write_at kc b off data) = k_blobs kc.
Proof. unfold open_write_at. destruct (cell_of kc (b_cell b)); auto. now destruct data. Qed.

Theorem md_frame bk fx c o k s b :
  md_writes o k s = false -> assoc k (k_blobs (c_core c)) = Some b ->
  md_kept (c_core c) (c_core (fst (cstep bk fx c o))) k s b.
Proof.
  intros Hw Hb. destruct c as [kc size q]. cbn [c_core] in *. unfold cstep. cbn [c_core c_size c_queue].
  destruct (plain_step bk kc o) as [[kc1 r]|] eqn:P.
  { cbn [fst c_core]. unfold plain_step in P.
    destruct o; cbn in Hw; plain_crush;
      try (apply md_kept_same_blobs; [reflexivity|assumption]);
      apply md_kept_upd; auto; intros ->; cbn; (split; [reflexivity|]);
      rewrite N.eqb_refl in Hw; cbn in Hw; apply N.eqb_neq in Hw;
      match goal with H : lookup _ _ _ = inl _ |- _ =>
        apply lookup_inl in H; destruct H as [HH _]; rewrite Hb in HH; inversion HH; subst end.
    - apply assoc_set_neq. congruence.
    - apply assoc_remove_neq. congruence.
    - apply assoc_set_neq. congruence. }
  destruct o; cbn in P; try discriminate P; try (destruct bk; discriminate P); clear P; cbn in Hw.
  - (* Create *) unfold c_create. cbn [c_core c_size c_queue].
    destruct (negb (create_supported bk None)); [apply md_kept_same_blobs; auto|].
    destruct (assoc k0 (k_blobs kc)) eqn:E0; [apply md_kept_same_blobs; auto|].
    pose proof (c_evict_sub fx size0 q kc size) as Hs.
    destruct (c_evict fx q kc size size0) as [[[kc1 size1] q1] []]; cbn [fst snd c_core] in *.
    + eapply md_kept_blobs_eq; [|apply (md_kept_add kc kc1 k0 size0 [] k s b); auto]. reflexivity.
    + apply md_kept_sub; auto.
  - (* CreateW *) unfold c_create. cbn [c_core c_size c_queue].
    destruct (negb (create_supported bk (Some data))); [apply md_kept_same_blobs; auto|].
    destruct (assoc k0 (k_blobs kc)) eqn:E0; [apply md_kept_same_blobs; auto|].
    pose proof (c_evict_sub fx size0 q kc size) as Hs.
    destruct (c_evict fx q kc size size0) as [[[kc1 size1] q1] []]; cbn [fst snd c_core] in *.
    + apply md_kept_add; auto.
    + apply md_kept_sub; auto.
  - (* Open *) destruct bk; [apply md_kept_same_blobs; auto|].
    destruct (lookup kc k0 sc); apply md_kept_same_blobs; auto.
  - (* OpenRead *) destruct (lookup kc k0 sc); apply md_kept_same_blobs; auto.
  - (* OpenWriteAt *) destruct (lookup kc k0 sc); apply md_kept_same_blobs; auto. apply open_write_at_blobs.
  - (* MarkComplete *)
    destruct (assoc k0 (k_blobs kc)) as [b0|] eqn:E0; [|apply md_kept_same_blobs; auto].
    destruct (b_complete b0); [apply md_kept_same_blobs; auto|]. cbn [fst c_core].
    apply md_kept_upd; auto. intros ->. rewrite N.eqb_refl in Hw. cbn in Hw. apply negb_false_iff in Hw.
    cbn. split; auto. now rewrite assoc_filter_fst, Hw.
  - (* Delete *) destruct (lookup kc k0 sc); [|apply md_kept_same_blobs; auto].
    cbn [fst c_core c_delete]. apply md_kept_sub; auto. apply sub_blobs_drop.
  - (* Ban *) destruct (lookup kc k0 sc) as [b0|]; [|apply md_kept_same_blobs; auto].
    destruct (b_banned b0); [apply md_kept_same_blobs; auto|]. apply md_kept_upd; auto.
  - (* Unban *) destruct (lookup kc k0 sc) as [b0|]; [|apply md_kept_same_blobs; auto].
    destruct (negb (b_banned b0)); [apply md_kept_same_blobs; auto|]. apply md_kept_upd; auto.
  - (* Clean *) destruct bk; [|apply md_kept_same_blobs; auto].
    destruct ((pct <? 0) || (100 <=? pct))%Z; [apply md_kept_same_blobs; auto|].
    pose proof (c_evict_sub fx (k_cap kc - clean_target (k_cap kc) pct) q kc size) as Hs.
    destruct (c_evict fx q kc size (k_cap kc - clean_target (k_cap kc) pct)) as [[[kc1 size1] q1] []]; cbn [fst snd c_core] in *.
    + apply md_kept_sub; auto.
    + destruct (order_legal kc1 order); [|apply md_kept_same_blobs; auto]. cbn [fst].
      apply md_kept_sub; auto. eapply sub_blobs_trans; [exact Hs|].
      apply (c_clean_loop_sub _ _ (mkc kc1 size1 q1)).
Qed.

(* a metadata read returns the stored value; a successful write stores its value *)
Theorem md_get bk fx c k sc s :
  snd (cstep bk fx c (GetMd k sc s)) =
  match lookup (c_core c) k sc with
  | inr e => OErr e
  | inl _ => match md_of (c_core c) k s with Some v => OBytes v | None => ONone end
  end.
Proof.
  unfold cstep. cbn [plain_step snd]. unfold md_of, lookup.
  destruct (assoc k (k_blobs (c_core c))) as [b|]; auto. now destruct (out_of_scope b sc).
Qed.

Theorem md_set bk fx c k sc s v :
  snd (cstep bk fx c (SetMd k sc s v)) = OOk ->
  let c' := fst (cstep bk fx c (SetMd k sc s v)) in
  md_of (c_core c') k s = Some v /\ snd (cstep bk fx c' (GetMd k sc s)) = OBytes v.
Proof.
  intros H c'. assert (Hmd : md_of (c_core c') k s = Some v /\ exists b', lookup (c_core c') k sc = inl b').
  { subst c'. revert H. unfold cstep. cbn [plain_step].
    destruct (lookup (c_core c) k sc) as [b|e] eqn:L; cbn [fst snd c_core]; [|discriminate].
    intros _. pose proof L as L'. apply lookup_inl in L'. destruct L' as [Hb Ho]. split.
    - unfold md_of. rewrite upd_blob_blobs, assoc_update_eq, Hb. cbn. apply assoc_set_eq.
    - unfold lookup. rewrite upd_blob_blobs, assoc_update_eq, Hb. cbn [option_map].
      replace (out_of_scope (set_mds (set_key s v (b_mds b)) b) sc) with (out_of_scope b sc) by now destruct sc.
      rewrite Ho. eauto. }
  destruct Hmd as [Hmd [b' Hl]]. split; auto. now rewrite md_get, Hl, Hmd.
Qed.

(* completion removes exactly the immovable metadata *)
Theorem md_complete bk fx c k b s :
  assoc k (k_blobs (c_core c)) = Some b -> b_complete b = false ->
  let c' := fst (cstep bk fx c (MarkComplete k)) in
  snd (cstep bk fx c (MarkComplete k)) = OOk /\
  md_of (c_core c') k s = if sfx_movable s then md_of (c_core c) k s else None.
Proof.
  intros Hb Hc. unfold cstep. cbn [plain_step]. rewrite Hb, Hc. cbn [fst snd c_core]. split; auto.
  unfold md_of. rewrite upd_blob_blobs, assoc_update_eq, Hb. cbn. apply assoc_filter_fst.
Qed.

(* ================================================================ soundness of the trace oracle *)
Lemma list_eqb_refl {A} (e : A -> A -> bool) l : (forall x, e x x = true) -> list_eqb e l l = true.
Proof. intros H. induction l; cbn; auto. now rewrite H, IHl. Qed.
Lemma err_eqb_refl e : err_eqb e e = true.
Proof. now destruct e. Qed.
Lemma out_eqb_refl o : out_eqb o o = true.
Proof.
  destruct o; cbn; auto; rewrite ?N.eqb_refl, ?Z.eqb_refl, ?err_eqb_refl, ?eqb_reflx; auto;
    try (apply list_eqb_refl; apply N.eqb_refl).
  - rewrite list_eqb_refl by apply N.eqb_refl. auto.
  - destruct e; rewrite ?N.eqb_refl, ?err_eqb_refl; auto.
Qed.
Lemma snap_eqb_refl n : snap_eqb n n = true.
Proof.
  unfold snap_eqb. rewrite N.eqb_refl, !list_eqb_refl; auto.
  - intros [k [[[sz c] b] nd]]. cbn. now rewrite !N.eqb_refl, !eqb_reflx.
  - apply N.eqb_refl.
Qed.
Lemma obs_eqb_refl l : obs_eqb l l = true.
Proof. apply list_eqb_refl. intros [o n]. cbn. now rewrite out_eqb_refl, snap_eqb_refl. Qed.

Section RowSum.
Variable g : N -> N.
Definition ksum (l : list N) : N := fold_right (fun k acc => g k + acc) 0 l.
Lemma ksum_insert f k l : ksum (insert_by f k l) = g k + ksum l.
Proof.
  unfold ksum. induction l as [|x t IH]; cbn; auto. destruct (f k <=? f x); cbn; auto. rewrite IH. lia.
Qed.
Lemma ksum_isort f l : ksum (isort f l) = ksum l.
Proof. induction l as [|x t IH]; cbn [isort]; auto. rewrite ksum_insert. unfold ksum in *. cbn. now rewrite IH. Qed.
End RowSum.

Lemma ksum_ext g h l : (forall k, In k l -> g k = h k) -> ksum g l = ksum h l.
Proof.
  unfold ksum. induction l as [|x t IH]; cbn; auto. intros H. rewrite IH, (H x) by auto. reflexivity.
Qed.

Definition size_of (bl : list (key * blob)) (k : key) : N :=
  match assoc k bl with Some b => b_size b | None => 0 end.

Lemma ksum_keys bl : NoDup (map fst bl) -> ksum (size_of bl) (map fst bl) = sum_sizes bl.
Proof.
  induction bl as [|[k b] t IH]; intros Hn; [reflexivity|].
  inversion Hn as [|? ? Hk Hn']; subst. cbn [map fst ksum fold_right]. rewrite sum_sizes_cons.
  unfold size_of at 1. cbn [assoc]. rewrite N.eqb_refl. f_equal.
  rewrite <- IH by auto. apply ksum_ext. intros k' Hk'. unfold size_of. cbn [assoc].
  destruct (N.eqb_spec k k'); [subst; contradiction|reflexivity].
Qed.

Lemma rows_sum kc q :
  fold_right (fun r acc => row_size r + acc) 0 (blob_rows kc q) = ksum (size_of (k_blobs kc)) (sort_keys (map fst (k_blobs kc))).
Proof.
  unfold blob_rows. induction (sort_keys (map fst (k_blobs kc))) as [|k t IH]; cbn; auto.
  rewrite IH. f_equal. unfold size_of, row_size. cbn. now destruct (assoc k (k_blobs kc)).
Qed.

Lemma assoc_rows kc q k :
  assoc k (blob_rows kc q) =
  match assoc k (k_blobs kc) with
  | Some b => Some (b_size b, b_complete b, b_banned b, memN k q)
  | None => None
  end.
Proof.
  unfold blob_rows.
  assert (H : forall l, assoc k (map (fun k0 => (k0, match assoc k0 (k_blobs kc) with
                    | Some b => (b_size b, b_complete b, b_banned b, memN k0 q)
                    | None => (0, false, false, false) end)) l) =
              if memN k l then Some (match assoc k (k_blobs kc) with
                    | Some b => (b_size b, b_complete b, b_banned b, memN k q)
                    | None => (0, false, false, false) end) else None).
  { induction l as [|x t IH]; cbn; auto. rewrite (N.eqb_sym k x). destruct (N.eqb_spec x k); subst; cbn; auto. }
  rewrite H. destruct (assoc k (k_blobs kc)) as [b|] eqn:E.
  - assert (Hm : memN k (sort_keys (map fst (k_blobs kc))) = true).
    { apply memN_In. unfold sort_keys. apply In_isort. eapply assoc_Some_in; eauto. }
    now rewrite Hm.
  - destruct (memN k (sort_keys (map fst (k_blobs kc)))) eqn:Hm; auto.
    apply memN_In in Hm. unfold sort_keys in Hm. apply In_isort in Hm. apply assoc_None_notin in E. contradiction.
Qed.

Lemma nodupb_NoDup l : NoDup l -> nodupb l = true.
Proof.
  induction 1 as [|x t Hx Hn IH]; cbn; auto. fold (nodupb t). rewrite IH, andb_true_r.
  apply negb_true_iff. destruct (memN x t) eqn:E; auto. apply memN_In in E. contradiction.
Qed.

Lemma snap_wf_inv c s : Inv c s -> snap_wf (k_cap (s_core s)) (csnap c) = true.
Proof.
  intros HI. pose proof HI as [Hc Hk Hz Hcap H64 [Hn Hm Hso Ho]].
  unfold snap_wf, csnap. cbn [n_size n_queue n_blobs]. rewrite Hc.
  repeat (apply andb_true_iff; split).
  - apply N.eqb_eq. rewrite rows_sum. unfold sort_keys. rewrite ksum_isort, ksum_keys; auto.
  - apply N.leb_le. lia.
  - now apply nodupb_NoDup.
  - apply forallb_forall. intros k Hq. rewrite assoc_rows. apply Hm in Hq. unfold evictableb in Hq.
    destruct (assoc k (k_blobs (s_core s))); auto.
  - apply forallb_forall. intros [k [[[sz cm] bn] nd]] Hr. unfold blob_rows in Hr.
    apply in_map_iff in Hr. destruct Hr as [k0 [E Hin]]. inversion E; subst k0. clear E.
    unfold row_node, row_evictable. cbn [fst snd].
    destruct (assoc k (k_blobs (s_core s))) as [b|] eqn:Eb; inversion H1; subst; clear H1.
    + assert (Hev : memN k (c_queue c) = b_complete b && negb (b_banned b)).
      { destruct (memN k (c_queue c)) eqn:Em.
        - apply memN_In in Em. apply Hm in Em. unfold evictableb in Em. now rewrite Eb in Em.
        - destruct (b_complete b && negb (b_banned b)) eqn:Ev; auto.
          assert (In k (c_queue c)) by (apply Hm; unfold evictableb; now rewrite Eb).
          apply memN_In in H. congruence. }
      rewrite Hev. now rewrite !eqb_reflx.
    + cbn. destruct (memN k (c_queue c)) eqn:Em; auto. apply memN_In in Em. apply Hm in Em.
      unfold evictableb in Em. now rewrite Eb in Em.
Qed.

Theorem lru_check_sound bk cap ops : cap < two64 ->
  lru_check bk cap ops (snd (crun bk true (cinit cap) ops)) = true.
Proof.
  intros Hcap. unfold lru_check.
  destruct (run_refines bk ops _ _ (inv_init cap Hcap)) as [Ho _]. rewrite Ho, obs_eqb_refl. cbn [andb].
  rewrite <- Ho. clear Ho.
  assert (G : forall ops c s, Inv c s -> k_cap (s_core s) = cap ->
              forallb (fun x => snap_wf cap (snd x)) (snd (crun bk true c ops)) = true).
  { clear. induction ops as [|o t IH]; intros c s HI Hc; cbn [crun]; auto.
    destruct (step_refines bk c s o HI) as [_ HI1]. pose proof (sstep_cap bk s o) as Hc1.
    destruct (cstep bk true c o) as [c1 r1]. destruct (sstep bk s o) as [s1 r2]. cbn [fst] in *.
    specialize (IH c1 s1 HI1 (eq_trans Hc1 Hc)).
    destruct (crun bk true c1 t) as [c2 rs]. cbn [snd forallb] in *.
    rewrite IH, andb_true_r. rewrite <- Hc, <- Hc1. now apply snap_wf_inv. }
  eapply G; [apply inv_init; auto|reflexivity].
Qed.

(* ================================================================ Clean: the order of the three phases *)
Lemma s_evict_sub order : forall kc space, sub_blobs kc (fst (s_evict order kc space)).
Proof.
  induction order as [|k t IH]; intros kc space; cbn [s_evict].
  - destruct (s_size kc + space <=? k_cap kc); apply sub_blobs_refl.
  - destruct (s_size kc + space <=? k_cap kc); [apply sub_blobs_refl|].
    eapply sub_blobs_trans; [apply sub_blobs_drop|apply IH].
Qed.

Lemma s_clean_loop_sub target : forall keys kc, sub_blobs kc (s_clean_loop kc target keys).
Proof.
  induction keys as [|k t IH]; intros kc; cbn [s_clean_loop]; [apply sub_blobs_refl|].
  destruct (s_size kc <=? target); [apply sub_blobs_refl|].
  eapply sub_blobs_trans; [apply sub_blobs_drop|apply IH].
Qed.

Lemma assoc_drop_blob k kc k' :
  assoc k' (k_blobs (drop_blob k kc)) = if k' =? k then None else assoc k' (k_blobs kc).
Proof.
  destruct (assoc k (k_blobs kc)) as [b|] eqn:E.
  - rewrite (drop_blob_blobs _ _ _ E). destruct (N.eqb_spec k' k) as [->|Hne].
    + apply assoc_remove_eq.
    + now apply assoc_remove_neq.
  - rewrite (drop_blob_absent _ _ E). destruct (N.eqb_spec k' k) as [->|]; auto.
Qed.

(* a refused admission has evicted the whole queue *)
Lemma s_evict_false_all order : forall kc space kc1,
  s_evict order kc space = (kc1, false) -> forall k, In k order -> assoc k (k_blobs kc1) = None.
Proof.
  induction order as [|k0 t IH]; intros kc space kc1 H k Hin; [destruct Hin|].
  cbn [s_evict] in H. destruct (s_size kc + space <=? k_cap kc); [discriminate H|].
  destruct Hin as [->|Hin]; [|eapply IH; eauto].
  destruct (assoc k (k_blobs kc1)) as [b|] eqn:E; auto. exfalso.
  pose proof (s_evict_sub t (drop_blob k kc) space) as Hs. rewrite H in Hs. cbn [fst] in Hs.
  apply Hs in E. rewrite assoc_drop_blob, N.eqb_refl in E. discriminate E.
Qed.

(* the deletion loops remove a prefix of the keys they are given *)
Lemma s_clean_prefix target : forall keys kc,
  exists n, forall k,
    assoc k (k_blobs (s_clean_loop kc target keys)) =
    if memN k (firstn n keys) then None else assoc k (k_blobs kc).
Proof.
  induction keys as [|k0 t IH]; intros kc; cbn [s_clean_loop].
  - exists 0%nat. reflexivity.
  - destruct (s_size kc <=? target).
    + exists 0%nat. reflexivity.
    + destruct (IH (drop_blob k0 kc)) as [n Hn]. exists (S n). intros k. rewrite Hn.
      cbn [firstn memN existsb]. fold (memN k (firstn n t)). rewrite assoc_drop_blob.
      destruct (k =? k0); cbn [orb]; auto. now destruct (memN k (firstn n t)).
Qed.

Lemma order_legal_in kc order k b : order_legal kc order = true -> assoc k (k_blobs kc) = Some b -> In k order.
Proof.
  unfold order_legal. rewrite forallb_forall. intros H Hb.
  assert (Hin : exists b0, In (k, b0) (k_blobs kc)).
  { clear H. induction (k_blobs kc) as [|[k0 b0] t IH]; cbn in Hb; [discriminate|].
    destruct (N.eqb_spec k0 k); [subst; exists b0; now left|]. destruct (IH Hb) as [b1 H1]. exists b1. now right. }
  destruct Hin as [b0 Hin]. specialize (H _ Hin). cbn in H. now apply memN_In.
Qed.

Theorem clean_order_spec c s pct respect order : Inv c s ->
  ((pct <? 0) || (100 <=? pct))%Z = false ->
  snd (sstep Disk s (Clean pct respect order)) <> OBadOracle ->
  let s' := fst (sstep Disk s (Clean pct respect order)) in
  forall k b, assoc k (k_blobs (s_core s)) = Some b -> assoc k (k_blobs (s_core s')) = None ->
    (* phase 1: complete, not banned blobs (in LRU order, by evict_victims) *)
    b_complete b && negb (b_banned b) = true \/
    (* later phases only once no evictable blob is left; banned blobs only if asked to and only
       once every blob that is not banned has been deleted *)
    ((forall k2, evictableb (s_core s') k2 = false) /\
     (b_banned b = false \/
      (respect = false /\ forall k2 b2, assoc k2 (k_blobs (s_core s')) = Some b2 -> b_banned b2 = true))).
Proof.
  intros HI Hpct Hout s' k b Hb Hgone. subst s'. unfold sstep in *. cbn [plain_step] in *. rewrite Hpct in *.
  set (target := clean_target (k_cap (s_core s)) pct) in *.
  pose proof (evict_victims c s (k_cap (s_core s) - target) HI k b Hb) as HV. cbn zeta in HV.
  pose proof (s_evict_sub (evict_order s) (s_core s) (k_cap (s_core s) - target)) as Hsub1.
  destruct (s_evict (evict_order s) (s_core s) (k_cap (s_core s) - target)) as [kc1 ok] eqn:Eev. cbn [fst] in *.
  destruct ok.
  { cbn [fst s_core] in Hgone. left. destruct (HV Hgone) as [He _]. unfold evictableb in He. now rewrite Hb in He. }
  destruct (order_legal kc1 order) eqn:OL; [|cbn in Hout; congruence]. cbn [fst s_core] in *.
  set (keys := clean_keys kc1 respect order) in *.
  destruct (assoc k (k_blobs kc1)) as [b1|] eqn:E1.
  2:{ left. destruct (HV eq_refl) as [He _]. unfold evictableb in He. now rewrite Hb in He. }
  assert (b1 = b) by (apply Hsub1 in E1; congruence). subst b1.
  pose proof (s_clean_loop_sub target keys kc1) as Hsub2.
  right. split.
  - intros k2. destruct (evictableb (s_clean_loop kc1 target keys) k2) eqn:Ev; auto. exfalso.
    unfold evictableb in Ev. destruct (assoc k2 (k_blobs (s_clean_loop kc1 target keys))) as [b2|] eqn:E2; [|discriminate].
    apply Hsub2 in E2. pose proof E2 as E2'. apply Hsub1 in E2'.
    assert (Hin : In k2 (evict_order s)).
    { pose proof (inv_queue _ _ HI) as HQ. rewrite (inv_queue_eq _ _ HI) in HQ. apply (q_mem _ _ HQ).
      unfold evictableb. now rewrite E2'. }
    rewrite (s_evict_false_all _ _ _ _ Eev k2 Hin) in E2. discriminate.
  - destruct (b_banned b) eqn:Ebn; [right|now left].
    destruct (s_clean_prefix target keys kc1) as [n Hn].
    assert (Hk : In k (firstn n keys)).
    { specialize (Hn k). rewrite Hgone, E1 in Hn. apply memN_In.
      match type of Hn with context [if ?m then _ else _] => destruct m end; [reflexivity|discriminate Hn]. }
    (* keys = A ++ B *)
    set (present := filter (fun k0 => match assoc k0 (k_blobs kc1) with Some _ => true | None => false end) order) in *.
    set (bannedf := fun k0 => match assoc k0 (k_blobs kc1) with Some b0 => b_banned b0 | None => false end) in *.
    set (A := filter (fun k0 => negb (bannedf k0)) present) in *.
    set (B := if respect then [] else filter bannedf present) in *.
    assert (Ekeys : keys = A ++ B) by reflexivity.
    assert (HkA : ~ In k A).
    { unfold A. rewrite filter_In. intros [_ H]. unfold bannedf in H. rewrite E1, Ebn in H. discriminate. }
    rewrite Ekeys, firstn_app in Hk. apply in_app_iff in Hk.
    destruct Hk as [Hk|Hk]; [exfalso; apply HkA; eapply in_firstn_in; eauto|].
    assert (Hlen : (length A < n)%nat).
    { destruct (Nat.ltb_spec (length A) n); auto. replace (n - length A)%nat with 0%nat in Hk by lia. destruct Hk. }
    split.
    + destruct respect; auto. unfold B in Hk. now destruct (n - length A)%nat.
    + intros k2 b2 E2. destruct (b_banned b2) eqn:Eb2; auto. exfalso.
      pose proof (Hn k2) as Hn2. rewrite E2 in Hn2. pose proof (Hsub2 _ _ E2) as E2'.
      assert (HinA : In k2 A).
      { unfold A, present. rewrite !filter_In. unfold bannedf. rewrite E2', Eb2. repeat split; auto.
        eapply order_legal_in; eauto. }
      assert (Hm : memN k2 (firstn n keys) = true).
      { apply memN_In. rewrite Ekeys, firstn_app. apply in_app_iff. left. rewrite firstn_all2 by lia. exact HinA. }
      unfold key in *. rewrite Hm in Hn2. discriminate Hn2.
Qed.
