(* Proofs about one execution of a tag replication task (Model/C33.v). *)
From Coq Require Import List NArith Bool Lia.
From K.Model Require Import C33.
Import ListNotations.
Local Open Scope N_scope.

(* ------------------------------------------------------------------ specification predicates *)

(* event predicates *)
Definition repl_of (d : N) (x : ev) : Prop := exists o r, x = ERepl d o r.
Definition is_repl200 (x : ev) : bool := match x with ERepl _ _ r => is200 r | _ => false end.
Definition ev_origin (x : ev) : N := match x with ERepl _ o _ => o | _ => 0 end.

(* the requests by which origin number [o] confirms dependency [d]: any number of 202 answers
   (the blob is still being fetched), then a 200 *)
Definition ok_run (d o n : N) : list ev :=
  repeat (ERepl d o (RCode 202)) (N.to_nat n) ++ [ERepl d o (RCode 200)].

(* [seg] is the complete conversation about dependency [de] and ends in its confirmation:
   the owners are resolved, origins before number k answer without ever saying 200 and are given
   up, origin k says 202 n times (within its back-off budget) and then 200 *)
Definition confirmed (de : depenv) (seg : list ev) : Prop :=
  exists fails k n x,
    seg = EResolve (d_id de) true :: fails ++ ok_run (d_id de) k n /\
    d_resolve de = true /\
    nth_error (d_origins de) (N.to_nat k) = Some x /\ n <= o_budget x /\
    (exists rest, o_script x = repeat (RCode 202) (N.to_nat n) ++ RCode 200 :: rest) /\
    (forall y, In y fails -> exists o r, y = ERepl (d_id de) o r /\ o < k /\ is200 r = false).

(* what one origin does with a poll, as a function of its script and budget only *)
Fixpoint outcome (sc : list resp) (bud : N) : pres :=
  match sc with
  | [] => PNext
  | r :: sc' =>
      match classify r with
      | QOk => PDone true
      | QNet => PNext
      | QStatus c =>
          if c =? 202 then (if bud =? 0 then PNext else outcome sc' (bud - 1))
          else if c <? final_below then PDone false else PNext
      end
  end.
Definition o_outcome (x : origin) : pres := outcome (o_script x) (o_budget x).

(* first origin that does not say "next" decides *)
Fixpoint first_final (os : list origin) : option bool :=
  match os with
  | [] => None
  | x :: os' => match o_outcome x with PDone b => Some b | PNext => first_final os' end
  end.

(* ------------------------------------------------------------------ small facts *)

Lemma final_below_val : final_below = 500.
Proof. reflexivity. Qed.

Lemma is200_eq r : is200 r = true <-> r = RCode 200.
Proof.
  destruct r as [|c]; cbn; split; try discriminate.
  - intros H. apply N.eqb_eq in H. subst. reflexivity.
  - intros H. inversion H. reflexivity.
Qed.

Lemma rq_ok_is200 r : rq_ok (classify r) = is200 r.
Proof. destruct r as [|c]; cbn; [reflexivity|]. destruct (c =? 200); reflexivity. Qed.

Lemma classify_ok r : classify r = QOk <-> r = RCode 200.
Proof.
  destruct r as [|c]; cbn; split; try discriminate.
  - destruct (c =? 200) eqn:E; [|discriminate]. apply N.eqb_eq in E. subst. reflexivity.
  - intros H. inversion H. reflexivity.
Qed.

Lemma classify_status r c : classify r = QStatus c -> r = RCode c /\ c <> 200.
Proof.
  destruct r as [|c']; cbn; [discriminate|]. destruct (c' =? 200) eqn:E; [discriminate|].
  intros H. inversion H. subst. apply N.eqb_neq in E. split; [reflexivity|assumption].
Qed.

Lemma classify_net r : classify r = QNet -> r = RNet.
Proof. destruct r as [|c]; cbn; [reflexivity|]. destruct (c =? 200); discriminate. Qed.

(* ------------------------------------------------------------------ one origin *)

Lemma poll_origin_outcome d o sc bud : snd (poll_origin d o sc bud) = outcome sc bud.
Proof.
  revert bud. induction sc as [|r sc IH]; intros bud; cbn [poll_origin outcome]; [reflexivity|].
  destruct (classify r) as [| |c]; try reflexivity.
  destruct (c =? 202); [|destruct (c <? final_below); reflexivity].
  destruct (bud =? 0); [reflexivity|].
  specialize (IH (bud - 1)). destruct (poll_origin d o sc (bud - 1)). exact IH.
Qed.

(* every request of the loop goes to this origin, about this dependency *)
Lemma poll_origin_events d o sc bud x :
  In x (fst (poll_origin d o sc bud)) -> exists r, x = ERepl d o r.
Proof.
  revert bud. induction sc as [|r sc IH]; intros bud; cbn [poll_origin].
  - intros [<-|[]]. eexists. reflexivity.
  - destruct (classify r) as [| |c].
    + intros [<-|[]]. eexists. reflexivity.
    + intros [<-|[]]. eexists. reflexivity.
    + destruct (c =? 202).
      * destruct (bud =? 0).
        -- intros [<-|[]]. eexists. reflexivity.
        -- specialize (IH (bud - 1)). destruct (poll_origin d o sc (bud - 1)) as [t p].
           cbn [fst] in *. intros [<-|H]; [eexists; reflexivity|]. apply IH. exact H.
      * destruct (c <? final_below); intros [<-|[]]; eexists; reflexivity.
Qed.

(* success of one origin: exactly n <= budget answers 202, then 200 *)
Lemma poll_origin_true d o sc bud t :
  poll_origin d o sc bud = (t, PDone true) ->
  exists n rest, t = ok_run d o n /\ n <= bud /\
                 sc = repeat (RCode 202) (N.to_nat n) ++ RCode 200 :: rest.
Proof.
  revert bud t. induction sc as [|r sc IH]; intros bud t; cbn [poll_origin].
  - discriminate.
  - destruct (classify r) as [| |c] eqn:C.
    + intros H. inversion H. apply classify_ok in C. subst.
      exists 0, sc. split; [reflexivity|]. split; [lia|reflexivity].
    + discriminate.
    + apply classify_status in C as [-> Hc]. destruct (c =? 202) eqn:E.
      * apply N.eqb_eq in E. subst c. destruct (bud =? 0) eqn:B; [discriminate|].
        apply N.eqb_neq in B.
        destruct (poll_origin d o sc (bud - 1)) as [t' p] eqn:P. intros H. inversion H. subst.
        destruct (IH _ _ P) as [n [rest [-> [Hn ->]]]].
        exists (n + 1), rest. unfold ok_run.
        replace (N.to_nat (n + 1)) with (S (N.to_nat n)) by lia. cbn [repeat app].
        split; [reflexivity|]. split; [lia|reflexivity].
      * destruct (c <? final_below); discriminate.
Qed.

(* an origin that does not succeed never says 200 *)
Lemma poll_origin_no200 d o sc bud t p :
  poll_origin d o sc bud = (t, p) -> p <> PDone true -> forall x, In x t -> is_repl200 x = false.
Proof.
  revert bud t p. induction sc as [|r sc IH]; intros bud t p; cbn [poll_origin].
  - intros H _ x. inversion H. intros [<-|[]]. reflexivity.
  - destruct (classify r) as [| |c] eqn:C.
    + intros H Hp. inversion H. subst. congruence.
    + apply classify_net in C. subst. intros H _ x. inversion H. intros [<-|[]]. reflexivity.
    + apply classify_status in C as [-> Hc].
      assert (N200 : is_repl200 (ERepl d o (RCode c)) = false).
      { cbn. apply N.eqb_neq. exact Hc. }
      destruct (c =? 202) eqn:E.
      * destruct (bud =? 0).
        -- intros H _ x. inversion H. intros [<-|[]]. exact N200.
        -- destruct (poll_origin d o sc (bud - 1)) as [t' p'] eqn:P. intros H Hp x. inversion H. subst.
           intros [<-|Hx]; [exact N200|]. exact (IH _ _ _ P Hp x Hx).
      * destruct (c <? final_below); intros H _ x; inversion H; intros [<-|[]]; exact N200.
Qed.

(* at most budget + 1 requests per origin *)
Lemma poll_origin_bounded d o sc bud :
  (length (fst (poll_origin d o sc bud)) <= N.to_nat bud + 1)%nat.
Proof.
  revert bud. induction sc as [|r sc IH]; intros bud; cbn [poll_origin].
  - cbn. lia.
  - destruct (classify r) as [| |c]; try (cbn; lia).
    destruct (c =? 202); [|destruct (c <? final_below); cbn; lia].
    destruct (bud =? 0) eqn:B; [cbn; lia|]. apply N.eqb_neq in B.
    specialize (IH (bud - 1)). destruct (poll_origin d o sc (bud - 1)) as [t p]. cbn [fst length] in *. lia.
Qed.

(* characterisation of the three outcomes by the script *)
Lemma outcome_true sc bud :
  outcome sc bud = PDone true <->
  exists n rest, n <= bud /\ sc = repeat (RCode 202) (N.to_nat n) ++ RCode 200 :: rest.
Proof.
  split.
  - intros H. destruct (poll_origin 0 0 sc bud) as [t p] eqn:P.
    pose proof (poll_origin_outcome 0 0 sc bud) as Q. rewrite P in Q. cbn [snd] in Q. subst p.
    rewrite H in P. destruct (poll_origin_true _ _ _ _ _ P) as [n [rest [_ [Hn Hs]]]].
    exists n, rest. split; assumption.
  - intros [n [rest [Hn ->]]]. revert bud Hn. induction n as [|n IH] using N.peano_ind; intros bud Hn.
    + cbn. reflexivity.
    + replace (N.to_nat (N.succ n)) with (S (N.to_nat n)) by lia. cbn [repeat app outcome classify].
      cbn. destruct (bud =? 0) eqn:B; [apply N.eqb_eq in B; lia|]. apply IH. lia.
Qed.

(* ------------------------------------------------------------------ the origins loop *)

Lemma poll_result d o os : snd (poll d o os) = match first_final os with Some b => b | None => false end.
Proof.
  revert o. induction os as [|x os IH]; intros o; cbn [poll first_final]; [reflexivity|].
  unfold o_outcome. rewrite <- (poll_origin_outcome d o).
  destruct (poll_origin d o (o_script x) (o_budget x)) as [t p]. cbn [snd].
  destruct p as [b|]; [reflexivity|].
  specialize (IH (o + 1)). destruct (poll d (o + 1) os). exact IH.
Qed.

Lemma poll_events d o os x :
  In x (fst (poll d o os)) -> exists o' r, x = ERepl d o' r /\ o <= o' /\ o' < o + N.of_nat (length os).
Proof.
  revert o. induction os as [|y os IH]; intros o; cbn [poll]; [intros []|].
  destruct (poll_origin d o (o_script y) (o_budget y)) as [t p] eqn:P.
  assert (Ht : forall z, In z t -> exists o' r, z = ERepl d o' r /\ o <= o' /\ o' < o + N.of_nat (length (y :: os))).
  { intros z Hz. pose proof (poll_origin_events d o (o_script y) (o_budget y) z) as Q.
    rewrite P in Q. destruct (Q Hz) as [r ->]. exists o, r. cbn [length]. split; [reflexivity|lia]. }
  destruct p as [b|]; [exact (Ht x)|].
  specialize (IH (o + 1)). destruct (poll d (o + 1) os) as [t' b]. cbn [fst] in *.
  intros H. apply in_app_or in H as [H|H]; [exact (Ht x H)|].
  destruct (IH H) as [o' [r [-> [H1 H2]]]]. exists o', r. cbn [length]. split; [reflexivity|lia].
Qed.

(* success of the loop: earlier origins were given up without a 200, the deciding origin
   answered 202 within its budget and then 200 *)
Lemma poll_true d o os t :
  poll d o os = (t, true) ->
  exists fails k n x,
    t = fails ++ ok_run d (o + k) n /\
    nth_error os (N.to_nat k) = Some x /\ n <= o_budget x /\
    (exists rest, o_script x = repeat (RCode 202) (N.to_nat n) ++ RCode 200 :: rest) /\
    (forall y, In y fails -> exists o' r, y = ERepl d o' r /\ o <= o' /\ o' < o + k /\ is200 r = false).
Proof.
  revert o t. induction os as [|y os IH]; intros o t; cbn [poll]; [discriminate|].
  destruct (poll_origin d o (o_script y) (o_budget y)) as [t1 p] eqn:P.
  destruct p as [b|].
  - intros H. inversion H. subst.
    destruct (poll_origin_true _ _ _ _ _ P) as [n [rest [-> [Hn Hsc]]]].
    exists [], 0, n, y. rewrite N.add_0_r. cbn [app N.to_nat nth_error].
    split; [reflexivity|]. split; [reflexivity|]. split; [assumption|]. split; [exists rest; exact Hsc|]. intros ? [].
  - destruct (poll d (o + 1) os) as [t2 b] eqn:P2. intros H. inversion H. subst.
    destruct (IH _ _ P2) as [fails [k [n [x [-> [Hx [Hn [Hsc Hf]]]]]]]].
    exists (t1 ++ fails), (k + 1), n, x. rewrite app_assoc.
    replace (o + (k + 1)) with (o + 1 + k) by lia.
    split; [reflexivity|]. split.
    { replace (N.to_nat (k + 1)) with (S (N.to_nat k)) by lia. exact Hx. }
    split; [assumption|]. split; [exact Hsc|]. intros z Hz. apply in_app_or in Hz as [Hz|Hz].
    + pose proof (poll_origin_events d o (o_script y) (o_budget y) z) as Q. rewrite P in Q.
      destruct (Q Hz) as [r ->]. exists o, r. split; [reflexivity|]. split; [lia|]. split; [lia|].
      assert (PN : PNext <> PDone true) by discriminate.
      exact (poll_origin_no200 _ _ _ _ _ _ P PN _ Hz).
    + destruct (Hf z Hz) as [o' [r [-> [H1 [H2 H3]]]]]. exists o', r. split; [reflexivity|]. split; [lia|]. split; [lia|assumption].
Qed.

Lemma poll_false_no200 d o os t :
  poll d o os = (t, false) -> forall x, In x t -> is_repl200 x = false.
Proof.
  revert o t. induction os as [|y os IH]; intros o t; cbn [poll].
  - intros H. inversion H. intros ? [].
  - destruct (poll_origin d o (o_script y) (o_budget y)) as [t1 p] eqn:P.
    destruct p as [b|].
    + intros H. inversion H. subst. apply (poll_origin_no200 _ _ _ _ _ _ P). discriminate.
    + destruct (poll d (o + 1) os) as [t2 b] eqn:P2. intros H. inversion H. subst.
      intros x Hx. apply in_app_or in Hx as [Hx|Hx].
      * assert (PN : PNext <> PDone true) by discriminate. exact (poll_origin_no200 _ _ _ _ _ _ P PN _ Hx).
      * exact (IH _ _ P2 x Hx).
Qed.

(* requests go to the origins in their resolved order, never back to an earlier one *)
Fixpoint sorted_from (o : N) (l : list ev) : Prop :=
  match l with
  | [] => True
  | x :: t => o <= ev_origin x /\ sorted_from (ev_origin x) t
  end.

Lemma sorted_from_weaken o o' l : o' <= o -> sorted_from o l -> sorted_from o' l.
Proof. destruct l as [|x t]; cbn; [trivial|]. intros H [H1 H2]. split; [lia|assumption]. Qed.

Lemma sorted_from_app o l1 l2 :
  sorted_from o l1 -> (forall x, In x l1 -> ev_origin x <= o) ->
  sorted_from (o + 1) l2 -> sorted_from o (l1 ++ l2).
Proof.
  revert o. induction l1 as [|x t IH]; intros o H1 Hb H2; cbn [app].
  - apply (sorted_from_weaken (o + 1)); [lia|assumption].
  - cbn in H1. destruct H1 as [Hx Ht]. cbn. split; [assumption|].
    assert (E : ev_origin x = o). { specialize (Hb x (or_introl eq_refl)). lia. }
    rewrite E in *. apply IH; [assumption| |assumption].
    intros y Hy. apply Hb. right. exact Hy.
Qed.

Lemma poll_origin_sorted d o sc bud : sorted_from o (fst (poll_origin d o sc bud)).
Proof.
  revert bud. induction sc as [|r sc IH]; intros bud; cbn [poll_origin].
  - cbn. lia.
  - destruct (classify r) as [| |c]; try (cbn; lia).
    destruct (c =? 202); [|destruct (c <? final_below); cbn; lia].
    destruct (bud =? 0); [cbn; lia|].
    specialize (IH (bud - 1)). destruct (poll_origin d o sc (bud - 1)) as [t p]. cbn [fst] in *.
    cbn. split; [lia|assumption].
Qed.

Lemma poll_sorted d o os : sorted_from o (fst (poll d o os)).
Proof.
  revert o. induction os as [|y os IH]; intros o; cbn [poll]; [exact I|].
  pose proof (poll_origin_sorted d o (o_script y) (o_budget y)) as S1.
  pose proof (poll_origin_events d o (o_script y) (o_budget y)) as E1.
  destruct (poll_origin d o (o_script y) (o_budget y)) as [t p]. cbn [fst] in *.
  destruct p as [b|]; [exact S1|].
  specialize (IH (o + 1)). destruct (poll d (o + 1) os) as [t' b]. cbn [fst] in *.
  apply sorted_from_app; [assumption| |assumption].
  intros x Hx. destruct (E1 x Hx) as [r ->]. cbn. lia.
Qed.

(* ------------------------------------------------------------------ one dependency *)

Lemma replicate_true de t : replicate de = (t, true) -> confirmed de t.
Proof.
  unfold replicate. destruct (d_resolve de) eqn:R; [|discriminate].
  destruct (poll (d_id de) 0 (d_origins de)) as [t' b] eqn:P. intros H. inversion H. subst.
  destruct (poll_true _ _ _ _ P) as [fails [k [n [x [-> [Hx [Hn [Hsc Hf]]]]]]]].
  exists fails, k, n, x. rewrite N.add_0_l. split; [reflexivity|]. split; [exact R|].
  split; [assumption|]. split; [assumption|]. split; [exact Hsc|].
  intros y Hy. destruct (Hf y Hy) as [o' [r [-> [_ [H2 H3]]]]]. exists o', r.
  split; [reflexivity|]. split; [lia|assumption].
Qed.

Lemma replicate_false_no200 de t : replicate de = (t, false) -> forall x, In x t -> is_repl200 x = false.
Proof.
  unfold replicate. destruct (d_resolve de).
  - destruct (poll (d_id de) 0 (d_origins de)) as [t' b] eqn:P. intros H. inversion H. subst.
    intros x [<-|Hx]; [reflexivity|]. exact (poll_false_no200 _ _ _ _ P x Hx).
  - intros H. inversion H. intros x [<-|[]]. reflexivity.
Qed.

Lemma replicate_result de :
  snd (replicate de) = d_resolve de && match first_final (d_origins de) with Some b => b | None => false end.
Proof.
  unfold replicate. destruct (d_resolve de); [|reflexivity].
  rewrite <- (poll_result (d_id de) 0). destruct (poll (d_id de) 0 (d_origins de)). reflexivity.
Qed.

Lemma replicate_no_put de x : In x (fst (replicate de)) -> is_put x = false /\ is_bad x = false.
Proof.
  unfold replicate. destruct (d_resolve de).
  - pose proof (poll_events (d_id de) 0 (d_origins de) x) as Q.
    destruct (poll (d_id de) 0 (d_origins de)) as [t b]. cbn [fst] in *.
    intros [<-|H]; [split; reflexivity|]. destruct (Q H) as [o [r [-> _]]]. split; reflexivity.
  - intros [<-|[]]. split; reflexivity.
Qed.

Lemma confirmed_has200 de seg : confirmed de seg -> exists o, In (ERepl (d_id de) o (RCode 200)) seg.
Proof.
  intros [fails [k [n [x [-> _]]]]]. exists k. right. apply in_or_app. right.
  unfold ok_run. apply in_or_app. right. left. reflexivity.
Qed.

(* ------------------------------------------------------------------ the dependency loop *)

Lemma repl_all_true ds t :
  repl_all ds = (t, true) -> exists segs, t = concat segs /\ Forall2 confirmed ds segs.
Proof.
  revert t. induction ds as [|de ds IH]; intros t; cbn [repl_all].
  - intros H. inversion H. exists []. split; [reflexivity|constructor].
  - destruct (replicate de) as [t1 b] eqn:R. destruct b; [|discriminate].
    destruct (repl_all ds) as [t2 b2] eqn:A. intros H. inversion H. subst.
    destruct (IH _ eq_refl) as [segs [-> F]]. exists (t1 :: segs). split; [reflexivity|].
    constructor; [exact (replicate_true _ _ R)|exact F].
Qed.

Lemma repl_all_result ds : snd (repl_all ds) = forallb (fun de => snd (replicate de)) ds.
Proof.
  induction ds as [|de ds IH]; cbn [repl_all forallb]; [reflexivity|].
  destruct (replicate de) as [t b]. cbn [snd]. destruct b; [|reflexivity].
  destruct (repl_all ds). exact IH.
Qed.

Lemma repl_all_no_put ds x : In x (fst (repl_all ds)) -> is_put x = false /\ is_bad x = false.
Proof.
  induction ds as [|de ds IH]; cbn [repl_all]; [intros []|].
  pose proof (replicate_no_put de x) as Q.
  destruct (replicate de) as [t b]. cbn [fst] in *. destruct b; [|exact Q].
  destruct (repl_all ds) as [t' b']. cbn [fst] in *. intros H. apply in_app_or in H as [H|H]; [exact (Q H)|exact (IH H)].
Qed.

(* a failing dependency loop ends with the failing dependency: nothing after it is asked *)
Lemma repl_all_false ds t :
  repl_all ds = (t, false) ->
  exists done de rest segs tf,
    ds = done ++ de :: rest /\ Forall2 confirmed done segs /\
    replicate de = (tf, false) /\ t = concat segs ++ tf.
Proof.
  revert t. induction ds as [|de ds IH]; intros t; cbn [repl_all]; [discriminate|].
  destruct (replicate de) as [t1 b] eqn:R. destruct b.
  - destruct (repl_all ds) as [t2 b2] eqn:A. intros H. inversion H. subst.
    destruct (IH _ eq_refl) as [dn [de' [rest [segs [tf [-> [F [Rf ->]]]]]]]].
    exists (de :: dn), de', rest, (t1 :: segs), tf. split; [reflexivity|].
    split; [constructor; [exact (replicate_true _ _ R)|exact F]|]. split; [assumption|].
    cbn [concat]. rewrite app_assoc. reflexivity.
  - intros H. inversion H. subst. exists [], de, ds, [], t. split; [reflexivity|].
    split; [constructor|]. split; [assumption|reflexivity].
Qed.

(* ------------------------------------------------------------------ the execution *)

(* the shape of every trace that contains a put *)
Lemma put_shape e pre r post :
  trace e = pre ++ EPut r :: post ->
  r = e_put e /\ post = [] /\
  exists segs, pre = EHas (e_has e) :: EOrigin (e_origin e) :: concat segs /\
               Forall2 confirmed (e_deps e) segs /\
               is200 (e_has e) = false /\ is200 (e_origin e) = true.
Proof.
  unfold trace, exec. rewrite !rq_ok_is200.
  destruct (is200 (e_has e)) eqn:Hh.
  { cbn [fst]. destruct pre as [|x pre]; cbn [app]; [discriminate|].
    intros H. inversion H. destruct pre; discriminate. }
  destruct (is200 (e_origin e)) eqn:Ho.
  2:{ cbn [fst]. destruct pre as [|x [|y pre]]; cbn [app]; try discriminate.
      intros H. inversion H. destruct pre; discriminate. }
  destruct (repl_all (e_deps e)) as [t b] eqn:A.
  assert (NP : forall x, In x t -> is_put x = false).
  { intros x Hx. pose proof (repl_all_no_put (e_deps e) x) as Q. rewrite A in Q. apply Q. exact Hx. }
  assert (Split : forall (l1 l2 : list ev) x y,
            (forall z, In z l1 -> is_put z = false) -> is_put x = true -> is_put y = true ->
            l1 ++ [x] = l2 ++ y :: post -> l1 = l2 /\ x = y /\ post = []).
  { clear. intros l1. induction l1 as [|a l1 IH]; intros l2 x y N Px Py E.
    - destruct l2 as [|b l2]; cbn in E.
      + inversion E. auto.
      + inversion E. destruct l2; discriminate.
    - destruct l2 as [|b l2]; cbn in E.
      + inversion E. subst. rewrite (N y (or_introl eq_refl)) in Py. discriminate.
      + inversion E. subst. destruct (IH l2 x y) as [-> [-> ->]]; auto.
        intros z Hz. apply N. right. exact Hz. }
  destruct b; cbn [fst].
  - intros H.
    destruct (Split (EHas (e_has e) :: EOrigin (e_origin e) :: t) pre (EPut (e_put e)) (EPut r)) as [E1 [E2 E3]].
    + intros z [<-|[<-|Hz]]; [reflexivity|reflexivity|exact (NP z Hz)].
    + reflexivity.
    + reflexivity.
    + exact H.
    + inversion E2. subst. split; [reflexivity|]. split; [reflexivity|].
      destruct (repl_all_true _ _ A) as [segs [-> F]]. exists segs. auto.
  - intros H. exfalso.
    assert (In (EPut r) (EHas (e_has e) :: EOrigin (e_origin e) :: t)).
    { rewrite H. apply in_or_app. right. left. reflexivity. }
    destruct H0 as [H0|[H0|H0]]; try discriminate. specialize (NP _ H0). discriminate.
Qed.

(* C33_order *)
Lemma order e pre r post :
  trace e = pre ++ EPut r :: post ->
  forall d, In d (deps e) -> exists o, In (ERepl d o (RCode 200)) pre.
Proof.
  intros H d Hd. destruct (put_shape _ _ _ _ H) as [_ [_ [segs [-> [F _]]]]].
  unfold deps in Hd. apply in_map_iff in Hd as [de [<- Hde]].
  clear H. revert Hde. induction F as [|a s ds ss Ha F IH]; intros Hde; [destruct Hde|].
  destruct Hde as [->|Hde].
  - destruct (confirmed_has200 _ _ Ha) as [o Ho]. exists o. right. right. cbn [concat]. apply in_or_app. left. exact Ho.
  - destruct (IH Hde) as [o [Ho|[Ho|Ho]]]; try discriminate. exists o. right. right. cbn [concat]. apply in_or_app. right. exact Ho.
Qed.

Lemma confirmed_events de seg x :
  confirmed de seg -> In x seg -> x = EResolve (d_id de) true \/ exists o r, x = ERepl (d_id de) o r.
Proof.
  intros [fails [k [n [y [-> [_ [_ [_ [_ Hf]]]]]]]]] [<-|Hx]; [left; reflexivity|]. right.
  apply in_app_or in Hx as [Hx|Hx].
  - destruct (Hf x Hx) as [o [r [-> _]]]. eauto.
  - unfold ok_run in Hx. apply in_app_or in Hx as [Hx|[<-|[]]]; [|eauto].
    apply repeat_spec in Hx. subst. eauto.
Qed.

Lemma segs_events ds segs x :
  Forall2 confirmed ds segs -> In x (concat segs) ->
  exists de, In de ds /\ (x = EResolve (d_id de) true \/ exists o r, x = ERepl (d_id de) o r).
Proof.
  intros F. induction F as [|a s ds ss Ha F IH]; cbn [concat]; [intros []|].
  intros H. apply in_app_or in H as [H|H].
  - exists a. split; [left; reflexivity|]. exact (confirmed_events _ _ _ Ha H).
  - destruct (IH H) as [de [Hd Hx]]. exists de. split; [right; assumption|assumption].
Qed.

(* C33_put_once_last *)
Lemma put_once_last e pre r post :
  trace e = pre ++ EPut r :: post -> post = [] /\ forall x, In x pre -> is_put x = false.
Proof.
  intros H. destruct (put_shape _ _ _ _ H) as [_ [-> [segs [-> [F _]]]]]. split; [reflexivity|].
  intros x [<-|[<-|Hx]]; try reflexivity.
  destruct (segs_events _ _ _ F Hx) as [de [_ [->|[o [r' ->]]]]]; reflexivity.
Qed.

(* C33_noop_when_present *)
Lemma noop_when_present e : is200 (e_has e) = true -> exec e = ([EHas (e_has e)], Ok).
Proof. intros H. unfold exec. rewrite rq_ok_is200, H. reflexivity. Qed.

Lemma first_is_has e : exists t, trace e = EHas (e_has e) :: t.
Proof.
  unfold trace, exec. destruct (rq_ok (classify (e_has e))); [eexists; reflexivity|].
  destruct (rq_ok (classify (e_origin e))); [|eexists; reflexivity].
  destruct (repl_all (e_deps e)) as [t b]. destruct b; eexists; reflexivity.
Qed.

(* when the remote does not say it has the tag, the executor goes on to ask for the origin cluster *)
Lemma not_present_goes_on e :
  is200 (e_has e) = false -> exists t, trace e = EHas (e_has e) :: EOrigin (e_origin e) :: t.
Proof.
  intros H. unfold trace, exec. rewrite rq_ok_is200, H.
  destruct (rq_ok (classify (e_origin e))); [|eexists; reflexivity].
  destruct (repl_all (e_deps e)) as [t b]. destruct b; eexists; reflexivity.
Qed.

(* C33_failure_is_error: the task succeeds exactly when the remote already has the tag, or every
   single step succeeds *)
Lemma verdict_ok_iff e :
  verdict e = Ok <->
  is200 (e_has e) = true \/
  (is200 (e_origin e) = true /\ (forall de, In de (e_deps e) -> snd (replicate de) = true) /\ is200 (e_put e) = true).
Proof.
  unfold verdict, exec. rewrite !rq_ok_is200.
  destruct (is200 (e_has e)); [cbn; split; auto|].
  destruct (is200 (e_origin e)).
  2:{ cbn. split; [discriminate|]. intros [H|[H _]]; discriminate. }
  pose proof (repl_all_result (e_deps e)) as R.
  destruct (repl_all (e_deps e)) as [t b]. cbn [snd] in R. destruct b; cbn [snd].
  - symmetry in R. rewrite forallb_forall in R. destruct (is200 (e_put e)).
    + split; [intros _; right; auto|reflexivity].
    + split; [discriminate|]. intros [H|[_ [_ H]]]; discriminate.
  - split; [discriminate|]. intros [H|[_ [H _]]]; [discriminate|].
    assert (forallb (fun de => snd (replicate de)) (e_deps e) = true) by (apply forallb_forall; exact H). congruence.
Qed.

(* one dependency is replicated successfully exactly when its owners resolve and the first
   origin that does not pass the poll on says 200 after at most budget-many 202 *)
Lemma first_final_true os :
  first_final os = Some true <->
  exists k x n rest,
    nth_error os k = Some x /\
    (forall j y, (j < k)%nat -> nth_error os j = Some y -> o_outcome y = PNext) /\
    n <= o_budget x /\ o_script x = repeat (RCode 202) (N.to_nat n) ++ RCode 200 :: rest.
Proof.
  induction os as [|y os IH]; cbn [first_final].
  - split; [discriminate|]. intros [k [x [n [rest [H _]]]]]. destruct k; discriminate.
  - destruct (o_outcome y) as [b|] eqn:O.
    + split.
      * intros H. inversion H. subst. unfold o_outcome in O. apply outcome_true in O as [n [rest [Hn Hs]]].
        exists 0%nat, y, n, rest. split; [reflexivity|]. split; [intros; lia|]. split; assumption.
      * intros [k [x [n [rest [Hk [Hb [Hn Hs]]]]]]]. destruct k as [|k].
        -- cbn in Hk. inversion Hk. subst x.
           assert (o_outcome y = PDone true) by (unfold o_outcome; apply outcome_true; eauto). congruence.
        -- specialize (Hb 0%nat y). cbn in Hb. rewrite Hb in O; [discriminate|lia|reflexivity].
    + rewrite IH. split.
      * intros [k [x [n [rest [Hk [Hb [Hn Hs]]]]]]]. exists (S k), x, n, rest. split; [exact Hk|].
        split; [|split; assumption]. intros [|j] z Hj Hz; cbn in Hz.
        -- inversion Hz. subst. exact O.
        -- apply (Hb j); [lia|assumption].
      * intros [k [x [n [rest [Hk [Hb [Hn Hs]]]]]]]. destruct k as [|k].
        -- cbn in Hk. inversion Hk. subst x.
           assert (o_outcome y = PDone true) by (unfold o_outcome; apply outcome_true; eauto). congruence.
        -- exists k, x, n, rest. split; [exact Hk|]. split; [|split; assumption].
           intros j z Hj Hz. apply (Hb (S j)); [lia|exact Hz].
Qed.

Lemma replicate_success_iff de :
  snd (replicate de) = true <->
  d_resolve de = true /\
  exists k x n rest,
    nth_error (d_origins de) k = Some x /\
    (forall j y, (j < k)%nat -> nth_error (d_origins de) j = Some y -> o_outcome y = PNext) /\
    n <= o_budget x /\ o_script x = repeat (RCode 202) (N.to_nat n) ++ RCode 200 :: rest.
Proof.
  rewrite replicate_result, andb_true_iff, <- first_final_true.
  destruct (first_final (d_origins de)) as [[|]|]; intuition congruence.
Qed.

(* an origin passes the poll on exactly in these situations *)
Lemma outcome_next sc bud :
  outcome sc bud = PNext <->
  exists n, n <= bud /\ firstn (N.to_nat n) sc = repeat (RCode 202) (N.to_nat n) /\
    match skipn (N.to_nat n) sc with
    | [] => True                                  (* the origin is gone *)
    | RNet :: _ => True                           (* no response *)
    | RCode c :: _ => final_below <= c \/ (c = 202 /\ n = bud)   (* server error, or one 202 too many *)
    end.
Proof.
  pose proof final_below_val as FB. revert bud. induction sc as [|r sc IH]; intros bud; cbn [outcome].
  - split; [|reflexivity]. intros _. exists 0. cbn. split; [lia|]. split; reflexivity || exact I.
  - destruct r as [|c]; cbn [classify].
    + split; [|reflexivity]. intros _. exists 0. cbn. split; [lia|]. split; reflexivity || exact I.
    + destruct (c =? 200) eqn:E200.
      { apply N.eqb_eq in E200. subst c. split; [discriminate|].
        intros [n [Hn [Hf Hs]]]. destruct (N.to_nat n) eqn:En; cbn in Hf, Hs.
        - destruct Hs as [Hs|[Hs _]]; lia.
        - inversion Hf. }
      apply N.eqb_neq in E200. destruct (c =? 202) eqn:E202.
      * apply N.eqb_eq in E202. subst c. destruct (bud =? 0) eqn:B.
        -- apply N.eqb_eq in B. subst bud. split; [|reflexivity]. intros _. exists 0. cbn.
           split; [lia|]. split; [reflexivity|]. right. split; reflexivity.
        -- apply N.eqb_neq in B. rewrite IH. split.
           ++ intros [n [Hn [Hf Hs]]]. exists (n + 1). replace (N.to_nat (n + 1)) with (S (N.to_nat n)) by lia.
              cbn [firstn skipn repeat]. split; [lia|]. split; [f_equal; exact Hf|].
              destruct (skipn (N.to_nat n) sc) as [|[|c] ?]; try exact I.
              destruct Hs as [Hs|[Hs Hb]]; [left; exact Hs|right; split; [exact Hs|lia]].
           ++ intros [n [Hn [Hf Hs]]]. destruct (N.to_nat n) as [|m] eqn:En.
              { cbn in Hs. destruct Hs as [Hs|[_ Hs]]; lia. }
              exists (n - 1). replace (N.to_nat (n - 1)) with m by lia. cbn [firstn skipn repeat] in Hf, Hs.
              split; [lia|]. split; [injection Hf as Hf; exact Hf|].
              destruct (skipn m sc) as [|[|c] ?]; try exact I.
              destruct Hs as [Hs|[Hs Hb]]; [left; exact Hs|right; split; [exact Hs|lia]].
      * apply N.eqb_neq in E202. destruct (c <? final_below) eqn:L.
        -- apply N.ltb_lt in L. split; [discriminate|]. intros [n [Hn [Hf Hs]]].
           destruct (N.to_nat n) eqn:En; cbn in Hf, Hs.
           ++ destruct Hs as [Hs|[Hs _]]; lia.
           ++ inversion Hf. congruence.
        -- apply N.ltb_ge in L. split; [|reflexivity]. intros _. exists 0. cbn. split; [lia|].
           split; [reflexivity|]. left. exact L.
Qed.

(* the model never sends a malformed request *)
Lemma no_bad e x : In x (trace e) -> is_bad x = false.
Proof.
  unfold trace, exec. destruct (rq_ok (classify (e_has e))).
  { intros [<-|[]]. reflexivity. }
  destruct (rq_ok (classify (e_origin e))).
  2:{ intros [<-|[<-|[]]]; reflexivity. }
  pose proof (repl_all_no_put (e_deps e) x) as Q. destruct (repl_all (e_deps e)) as [t b]. cbn [fst] in Q.
  destruct b; cbn [fst].
  - intros [<-|[<-|H]]; try reflexivity. apply in_app_or in H as [H|[<-|[]]]; [apply Q; exact H|reflexivity].
  - intros [<-|[<-|H]]; try reflexivity. apply Q. exact H.
Qed.

(* a failing dependency ends the execution: the dependencies before it were confirmed, no 200
   was received for the failing one in its last conversation, nothing is asked about the rest
   and no put is sent *)
Lemma failure_stops e :
  is200 (e_has e) = false -> is200 (e_origin e) = true ->
  (exists de, In de (e_deps e) /\ snd (replicate de) = false) ->
  exists done de rest segs tf,
    e_deps e = done ++ de :: rest /\ Forall2 confirmed done segs /\ replicate de = (tf, false) /\
    exec e = (EHas (e_has e) :: EOrigin (e_origin e) :: concat segs ++ tf, Err).
Proof.
  intros Hh Ho [de [Hd Hf]]. unfold exec. rewrite !rq_ok_is200, Hh, Ho.
  pose proof (repl_all_result (e_deps e)) as R.
  destruct (repl_all (e_deps e)) as [t b] eqn:A. cbn [snd] in R. destruct b.
  - symmetry in R. rewrite forallb_forall in R. rewrite (R de Hd) in Hf. discriminate.
  - destruct (repl_all_false _ _ A) as [dn [de' [rest [segs [tf [E [F [Rf ->]]]]]]]].
    exists dn, de', rest, segs, tf. auto.
Qed.

(* ------------------------------------------------------------------ the boolean oracle *)

Lemma memb_In d l : memb d l = true <-> In d l.
Proof.
  unfold memb. rewrite existsb_exists. split.
  - intros [x [Hx He]]. apply N.eqb_eq in He. subst. exact Hx.
  - intros H. exists d. split; [exact H|apply N.eqb_refl].
Qed.

(* order_ok says exactly: every put is preceded by a 200-answered replicate of every dependency *)
Lemma order_ok_spec ds seen tr :
  order_ok ds seen tr = true <->
  forall pre r post, tr = pre ++ EPut r :: post ->
    forall d, In d ds -> In d seen \/ exists o, In (ERepl d o (RCode 200)) pre.
Proof.
  revert seen. induction tr as [|x t IH]; intros seen.
  - cbn. split; [|reflexivity]. intros _ pre r post H. destruct pre; discriminate.
  - assert (Skip : forall seen', order_ok ds seen' t = true ->
               (forall d, In d seen' -> In d seen \/ exists o, x = ERepl d o (RCode 200)) ->
               is_put x = false ->
               forall pre r post, x :: t = pre ++ EPut r :: post ->
               forall d, In d ds -> In d seen \/ exists o, In (ERepl d o (RCode 200)) pre).
    { intros seen' H Hs Np pre r post E d Hd. destruct pre as [|y pre]; cbn in E.
      - inversion E. subst. discriminate.
      - inversion E. subst. rewrite IH in H. destruct (H pre r post eq_refl d Hd) as [H1|[o H1]].
        + destruct (Hs d H1) as [H2|[o H2]]; [left; assumption|]. right. exists o. left. exact H2.
        + right. exists o. right. exact H1. }
    assert (Back : forall seen', (forall d, In d seen -> In d seen') ->
               (forall o d, x = ERepl d o (RCode 200) -> In d seen') ->
               (forall pre r post, x :: t = pre ++ EPut r :: post ->
                  forall d, In d ds -> In d seen \/ exists o, In (ERepl d o (RCode 200)) pre) ->
               order_ok ds seen' t = true).
    { intros seen' Hm Hx H. apply IH. intros pre r post E d Hd.
      destruct (H (x :: pre) r post (f_equal (cons x) E) d Hd) as [H1|[o [H1|H1]]].
      - left. apply Hm. exact H1.
      - left. apply (Hx o). exact H1.
      - right. exists o. exact H1. }
    destruct x as [r0|r0|d0 ok0|d0 o0 r0|r0|k0]; cbn [order_ok].
    + split; [intros H; apply (Skip seen H); [auto|reflexivity]|intros H; apply (Back seen); [auto|discriminate|exact H]].
    + split; [intros H; apply (Skip seen H); [auto|reflexivity]|intros H; apply (Back seen); [auto|discriminate|exact H]].
    + split; [intros H; apply (Skip seen H); [auto|reflexivity]|intros H; apply (Back seen); [auto|discriminate|exact H]].
    + split.
      * intros H. apply (Skip _ H); [|reflexivity]. intros d Hd. destruct (is200 r0) eqn:E; [|left; exact Hd].
        destruct Hd as [<-|Hd]; [|left; exact Hd]. right. exists o0. apply is200_eq in E. subst. reflexivity.
      * intros H. apply Back; [| |exact H].
        -- intros d Hd. destruct (is200 r0); [right|]; exact Hd.
        -- intros o d E. inversion E. subst. cbn. left. reflexivity.
    + rewrite andb_true_iff, forallb_forall. split.
      * intros [H1 H2] pre r post E d Hd. destruct pre as [|y pre]; cbn in E.
        -- left. apply memb_In. apply H1. exact Hd.
        -- inversion E. subst. rewrite IH in H2. destruct (H2 pre r post eq_refl d Hd) as [H3|[o H3]]; [left; assumption|].
           right. exists o. right. exact H3.
      * intros H. split.
        -- intros d Hd. apply memb_In. destruct (H [] r0 t eq_refl d Hd) as [H1|[o []]]. exact H1.
        -- apply (Back seen); [auto|discriminate|exact H].
    + split; [intros H; apply (Skip seen H); [auto|reflexivity]|intros H; apply (Back seen); [auto|discriminate|exact H]].
Qed.

Lemma put_last_spec tr :
  put_last tr = true <-> forall pre r post, tr = pre ++ EPut r :: post -> post = [].
Proof.
  induction tr as [|x t IH]; cbn [put_last].
  - split; [|reflexivity]. intros _ pre r post H. destruct pre; discriminate.
  - rewrite andb_true_iff, IH. split.
    + intros [H1 H2] pre r post E. destruct pre as [|y pre]; cbn in E.
      * inversion E. subst. cbn in H1. destruct post; [reflexivity|discriminate].
      * inversion E. subst. exact (H2 pre r post eq_refl).
    + intros H. split.
      * destruct x; try reflexivity. cbn. specialize (H [] r t eq_refl). subst. reflexivity.
      * intros pre r post E. apply (H (x :: pre) r post). cbn. f_equal. exact E.
Qed.

Lemma last_of_app tr x : last_of (tr ++ [x]) = Some x.
Proof.
  unfold last_of. rewrite map_app. cbn [map]. apply last_last.
Qed.

Lemma success_shape_model e : success_shape (trace e) = is_ok (verdict e).
Proof.
  unfold trace, verdict, exec. rewrite !rq_ok_is200.
  destruct (is200 (e_has e)) eqn:Hh; [cbn; exact Hh|].
  destruct (is200 (e_origin e)) eqn:Ho; [|cbn; reflexivity].
  pose proof (repl_all_no_put (e_deps e)) as Q.
  destruct (repl_all (e_deps e)) as [t b]. cbn [fst snd] in *. destruct b; cbn [fst snd].
  - unfold success_shape.
    replace (EHas (e_has e) :: EOrigin (e_origin e) :: t ++ [EPut (e_put e)])
      with ((EHas (e_has e) :: EOrigin (e_origin e) :: t) ++ [EPut (e_put e)]) by reflexivity.
    rewrite last_of_app. cbn [app]. destruct (is200 (e_put e)); reflexivity.
  - unfold success_shape. cbn [is_ok].
    destruct t as [|y t']; [reflexivity|].
    assert (L : exists z, last_of (EHas (e_has e) :: EOrigin (e_origin e) :: y :: t') = Some z /\ In z (y :: t')).
    { assert (G : forall (l : list ev) a, exists z, last (map Some (a :: l)) None = Some z /\ In z (a :: l)).
      { induction l as [|b l IHl]; intros a.
        - exists a. split; [reflexivity|left; reflexivity].
        - destruct (IHl b) as [z [Hz1 Hz2]]. exists z. split; [exact Hz1|right; exact Hz2]. }
      destruct (G t' y) as [z [Hz1 Hz2]]. exists z. split; [|exact Hz2]. unfold last_of. exact Hz1. }
    destruct L as [z [-> Hz]]. destruct (Q z Hz) as [Np _]. destruct z; try reflexivity. discriminate.
Qed.

Lemma noop_ok_model e : noop_ok (trace e) = true.
Proof.
  unfold trace, exec. rewrite !rq_ok_is200.
  destruct (is200 (e_has e)) eqn:Hh; [cbn; rewrite Hh; reflexivity|].
  destruct (is200 (e_origin e)); [|cbn; rewrite Hh; reflexivity].
  destruct (repl_all (e_deps e)) as [t b]. destruct b; cbn; rewrite Hh; reflexivity.
Qed.

(* C33_check_sound *)
Lemma check_sound e : C33_check e (trace e) (verdict e) = true.
Proof.
  unfold C33_check. rewrite !andb_true_iff. repeat split.
  - apply order_ok_spec. intros pre r post H d Hd. right. exact (order _ _ _ _ H d Hd).
  - apply put_last_spec. intros pre r post H. exact (proj1 (put_once_last _ _ _ _ H)).
  - apply noop_ok_model.
  - rewrite success_shape_model. destruct (is_ok (verdict e)); reflexivity.
  - apply negb_true_iff. destruct (existsb is_bad (trace e)) eqn:E; [|reflexivity].
    apply existsb_exists in E as [x [Hx Hb]]. rewrite (no_bad _ _ Hx) in Hb. discriminate.
Qed.

(* what a passing check means for ANY observed trace (the oracle is the property, not the model) *)
Lemma check_means e tr res :
  C33_check e tr res = true ->
  (forall pre r post, tr = pre ++ EPut r :: post ->
     post = [] /\ forall d, In d (deps e) -> exists o, In (ERepl d o (RCode 200)) pre) /\
  (exists r t, tr = EHas r :: t /\ (is200 r = true -> t = [])) /\
  (res = Ok <-> success_shape tr = true).
Proof.
  unfold C33_check. rewrite !andb_true_iff. intros [[[[H1 H2] H3] H4] _]. split; [|split].
  - intros pre r post E. split; [exact (proj1 (put_last_spec tr) H2 pre r post E)|].
    intros d Hd. destruct (proj1 (order_ok_spec _ _ _) H1 pre r post E d Hd) as [[]|H]. exact H.
  - destruct tr as [|[r| | | | |] t]; try discriminate. exists r, t. split; [reflexivity|].
    intros Hr. cbn in H3. rewrite Hr in H3. destruct t; [reflexivity|discriminate].
  - apply eqb_prop in H4. rewrite <- H4. destruct res; cbn; intuition congruence.
Qed.

(* ------------------------------------------------------------------ the origin's handler *)

Lemma handler_200 h : handler h = 200 <-> uploaded h = true.
Proof. destruct h as [[| |] [| | | |] [| | |]]; cbn; split; intros H; try reflexivity; try discriminate. Qed.

Lemma handler_202 h :
  handler h = 202 <-> h_cache h = CAbsent /\ (h_refresh h = FStarted \/ h_refresh h = FPending).
Proof.
  destruct h as [[| |] [| | | |] [| | |]]; cbn; split; intros H; try discriminate; auto;
    destruct H as [H1 [H2|H2]]; discriminate.
Qed.

(* an origin whose answers come from the handler says 200 only for a request during which it
   handed the blob to the remote cluster and the remote cluster accepted it *)
Lemma served_200 hs n :
  nth_error (served hs) n = Some (RCode 200) -> exists h, nth_error hs n = Some h /\ uploaded h = true.
Proof.
  unfold served. rewrite nth_error_map. destruct (nth_error hs n) as [h|]; [|discriminate].
  cbn. intros H. inversion H. exists h. split; [reflexivity|]. apply handler_200. assumption.
Qed.

(* ------------------------------------------------------------------ origins that run the handler *)

(* every origin of the environment answers from handler states *)
Definition handler_env (e : env) : Prop :=
  forall de x, In de (e_deps e) -> In x (d_origins de) -> exists hs, o_script x = served hs.

Lemma served_prefix hs n rest :
  served hs = repeat (RCode 202) n ++ RCode 200 :: rest ->
  exists h, nth_error hs n = Some h /\ uploaded h = true /\
            forall j h', (j < n)%nat -> nth_error hs j = Some h' -> handler h' = 202.
Proof.
  revert hs. induction n as [|n IH]; intros hs; cbn [repeat app].
  - destruct hs as [|h hs]; cbn; [discriminate|]. intros H. inversion H. exists h.
    split; [reflexivity|]. split; [apply handler_200; assumption|]. intros; lia.
  - destruct hs as [|h hs]; cbn; [discriminate|]. intros H. injection H as H1 H2.
    destruct (IH hs H2) as [h0 [H3 [H4 H5]]]. exists h0. split; [exact H3|]. split; [exact H4|].
    intros [|j] h' Hj Hn; cbn in Hn.
    + inversion Hn. subst. assumption.
    + apply (H5 j); [lia|assumption].
Qed.

(* C33_order_uploaded: with such origins, before the put every dependency was, during one of the
   recorded requests, in the cache of an origin that uploaded it to the remote cluster and had
   the upload accepted; all earlier answers of that origin were "still fetching" *)
Lemma order_uploaded e pre r post :
  handler_env e -> trace e = pre ++ EPut r :: post ->
  forall de, In de (e_deps e) ->
  exists k x hs n h,
    nth_error (d_origins de) (N.to_nat k) = Some x /\ o_script x = served hs /\
    nth_error hs n = Some h /\ uploaded h = true /\
    (forall j h', (j < n)%nat -> nth_error hs j = Some h' -> handler h' = 202) /\
    In (ERepl (d_id de) k (RCode 200)) pre.
Proof.
  intros He H de Hde. destruct (put_shape _ _ _ _ H) as [_ [_ [segs [-> [F _]]]]].
  assert (G : exists seg, In seg segs /\ confirmed de seg).
  { clear H He. revert Hde. induction F as [|a s ds ss Ha F IH]; intros Hde; [destruct Hde|].
    destruct Hde as [->|Hde]; [exists s; split; [left; reflexivity|exact Ha]|].
    destruct (IH Hde) as [seg [H1 H2]]. exists seg. split; [right; exact H1|exact H2]. }
  destruct G as [seg [Hs [fails [k [n [x [-> [_ [Hx [_ [[rest Hsc] _]]]]]]]]]]].
  destruct (He de x Hde (nth_error_In _ _ Hx)) as [hs Hhs].
  rewrite Hhs in Hsc. destruct (served_prefix _ _ _ Hsc) as [h [H1 [H2 H3]]].
  exists k, x, hs, (N.to_nat n), h. repeat split; try assumption.
  right. right. apply in_concat. eexists. split; [exact Hs|]. right. apply in_or_app. right.
  unfold ok_run. apply in_or_app. right. left. reflexivity.
Qed.

(* ------------------------------------------------------------------ scripts versus answer functions *)

(* the same loop over an origin that answers its i-th request with f i (no end of script) *)
Fixpoint poll_fn (d o : N) (f : nat -> resp) (i : nat) (bud : nat) : list ev * pres :=
  match classify (f i) with
  | QOk => ([ERepl d o (f i)], PDone true)
  | QNet => ([ERepl d o (f i)], PNext)
  | QStatus c =>
      if c =? 202 then
        match bud with
        | O => ([ERepl d o (f i)], PNext)
        | S b => let '(t, p) := poll_fn d o f (S i) b in (ERepl d o (f i) :: t, p)
        end
      else if c <? final_below then ([ERepl d o (f i)], PDone false)
      else ([ERepl d o (f i)], PNext)
  end.

(* finite scripts lose nothing: the loop reads at most budget + 1 answers, so it behaves on any
   answer function as on that prefix (and never reaches the end of such a script) *)
Lemma poll_fn_script d o f i bud :
  poll_fn d o f i bud = poll_origin d o (map f (seq i (S bud))) (N.of_nat bud).
Proof.
  revert i. induction bud as [|b IH]; intros i.
  - cbn [poll_fn seq map poll_origin]. destruct (classify (f i)) as [| |c]; reflexivity.
  - cbn [poll_fn]. change (map f (seq i (S (S b)))) with (f i :: map f (seq (S i) (S b))).
    cbn [poll_origin]. destruct (classify (f i)) as [| |c]; try reflexivity.
    destruct (c =? 202); [|reflexivity].
    destruct (N.of_nat (S b) =? 0) eqn:E; [apply N.eqb_eq in E; lia|].
    replace (N.of_nat (S b) - 1) with (N.of_nat b) by lia. rewrite IH. reflexivity.
Qed.

(* the handler model passes the observed-upload oracle in every sequence of states *)
Lemma uploads_check_sound hs : C33_uploads_check (observed_of hs) = true.
Proof.
  unfold C33_uploads_check, observed_of. apply forallb_forall. intros p Hp.
  apply in_map_iff in Hp as [h [<- _]]. cbn [fst snd].
  destruct (handler h =? 200) eqn:E; [|reflexivity]. apply N.eqb_eq in E. apply handler_200 in E.
  rewrite E. reflexivity.
Qed.

Lemma uploads_check_means ups :
  C33_uploads_check ups = true <-> forall c u, In (c, u) ups -> c = 200 -> u = true.
Proof.
  unfold C33_uploads_check. rewrite forallb_forall. split.
  - intros H c u Hin ->. specialize (H _ Hin). cbn in H. exact H.
  - intros H [c u] Hin. cbn [fst snd]. destruct (c =? 200) eqn:E; [|reflexivity].
    apply N.eqb_eq in E. cbn. exact (H c u Hin E).
Qed.
