(* C17, part 3: the theorems about every schedule, the progress lemmas, the soundness of the
   executable check, and the refutations of the code before the fix. *)
From Coq Require Import List NArith Bool Lia Permutation PeanoNat.
From K.Model Require Import C17.
From K.Proof Require Import C17_base C17_inv C17_just.
Import ListNotations.
Local Open Scope N_scope.

(* ---------- reachable states satisfy the invariant ---------- *)
Lemma Inv_fold c ops : forall s, Inv s -> Inv (fold_left (step c) ops s).
Proof.
  induction ops as [|o t IH]; intros s I; cbn [fold_left]; [exact I|].
  apply IH. now apply Inv_step.
Qed.

Lemma Inv_run c kn ops : Inv (run c kn ops).
Proof. apply (Inv_fold c ops). apply Inv_init. Qed.

(* ---------- the ghost list of calls is the list of Download ops ---------- *)
Lemma calls_remove_torrent s h r : calls (remove_torrent s h r) = calls s.
Proof.
  pose proof (remove_torrent_shape s h r) as Sh. destruct (find_ctrl h (ctrls s)).
  - now destruct (view_inv _ _ _ _ _ _ _ _ _ Sh) as (_ & _ & _ & _ & E & _).
  - now rewrite Sh.
Qed.

Lemma pending_remove_torrent s h r : pending (remove_torrent s h r) = pending s.
Proof.
  pose proof (remove_torrent_shape s h r) as Sh. destruct (find_ctrl h (ctrls s)).
  - now destruct (view_inv _ _ _ _ _ _ _ _ _ Sh) as (_ & _ & E & _).
  - now rewrite Sh.
Qed.

Lemma calls_apply_new s w t : calls (apply_new true s w t) = calls s.
Proof.
  rewrite apply_new_stages. set (h := tor_hash s t).
  assert (E1 : calls (new1 s h t) = calls s).
  { unfold new1. destruct (find_ctrl h (ctrls s)); [|reflexivity].
    destruct (_ && _); [apply calls_remove_torrent | reflexivity]. }
  assert (E2 : forall s1, calls (new2 s1 h t) = calls s1).
  { intros s1. unfold new2. destruct (find_ctrl h (ctrls s1)); [reflexivity|]. cbv zeta.
    destruct (tor_complete s1 t); reflexivity. }
  assert (E3 : forall s2, calls (new3 s2 h w) = calls s2).
  { intros s2. unfold new3. destruct (find_ctrl h (ctrls s2)); [|reflexivity].
    destruct (tor_complete s2 (c_disp c)); reflexivity. }
  now rewrite E3, E2, E1.
Qed.

Lemma pending_callers_apply_new s w t :
  pending_callers (pending (apply_new true s w t)) = pending_callers (pending s).
Proof.
  rewrite apply_new_stages. set (h := tor_hash s t).
  assert (E1 : pending (new1 s h t) = pending s).
  { unfold new1. destruct (find_ctrl h (ctrls s)); [|reflexivity].
    destruct (_ && _); [apply pending_remove_torrent | reflexivity]. }
  assert (E2 : forall s1, pending_callers (pending (new2 s1 h t)) = pending_callers (pending s1)).
  { intros s1. unfold new2. destruct (find_ctrl h (ctrls s1)); [reflexivity|]. cbv zeta.
    destruct (tor_complete s1 t); [|reflexivity]. simp_st. rewrite pending_callers_app. cbn [pending_callers].
    now rewrite app_nil_r. }
  assert (E3 : forall s2, pending (new3 s2 h w) = pending s2).
  { intros s2. unfold new3. destruct (find_ctrl h (ctrls s2)); [|reflexivity].
    destruct (tor_complete s2 (c_disp c)); reflexivity. }
  now rewrite E3, E2, E1.
Qed.

Lemma calls_apply_complete s d : calls (apply_complete true s d) = calls s.
Proof.
  unfold apply_complete. destruct (find_ctrl _ _); [|reflexivity]. now destruct (_ && _).
Qed.

Lemma calls_tick_over c todo : forall s, calls (tick_over true c s todo) = calls s.
Proof.
  induction todo as [|x t IH]; intros s; cbn [tick_over]; [reflexivity|].
  rewrite IH. destruct (idle c s x); [apply calls_remove_torrent | reflexivity].
Qed.

Lemma calls_step c s o :
  calls (step c s o) = match o with Download w h => (w, h) :: calls s | _ => calls s end.
Proof.
  unfold step. destruct o; cbn [step_gen].
  - destruct (_ && _); [reflexivity|]. now destruct (stopped s).
  - destruct (find_ctrl _ _); [|reflexivity]. now destruct (_ || _).
  - now destruct (stopped s).
  - reflexivity.
  - reflexivity.
  - now destruct (stopped s).
  - now destruct (_ || _).
  - destruct (take_new _ _) as [[t p']|]; [|reflexivity]. now rewrite calls_apply_new.
  - destruct (remove_first_pev _ _); [|reflexivity]. now rewrite calls_apply_complete.
  - destruct (remove_first_pev _ _); [|reflexivity]. unfold apply_remove. simp_st.
    now rewrite calls_remove_torrent.
  - destruct (remove_first_pev _ _); [|reflexivity]. unfold apply_tick. now rewrite calls_tick_over.
  - destruct (remove_first_pev _ _); reflexivity.
Qed.

Lemma callers_app a b : callers (a ++ b) = callers a ++ callers b.
Proof.
  induction a as [|o t IH]; cbn [callers app]; [reflexivity|]. destruct o; cbn [app]; now rewrite ?IH.
Qed.

Lemma calls_fold c ops : forall s,
  map fst (calls (fold_left (step c) ops s)) = rev (callers ops) ++ map fst (calls s).
Proof.
  induction ops as [|o t IH]; intros s; cbn [fold_left callers]; [reflexivity|].
  rewrite IH, calls_step. destruct o; try reflexivity.
  cbn [callers rev map fst]. now rewrite <- app_assoc.
Qed.

Lemma calls_run c kn ops : map fst (calls (run c kn ops)) = rev (callers ops).
Proof. unfold run, run_gen. rewrite (calls_fold c ops). cbn [init calls map]. apply app_nil_r. Qed.

Lemma NoDup_app_l {A} (a b : list A) : NoDup (a ++ b) -> NoDup a.
Proof.
  induction a as [|x t IH]; cbn [app]; [constructor|].
  intros H. inversion H; subst. constructor; [|auto]. intros Hi. apply H2. apply in_or_app. now left.
Qed.

Lemma live_run c kn ops : wf ops = true ->
  NoDup (live (run c kn ops)) /\ (forall w, In w (callers ops) <-> In w (live (run c kn ops))).
Proof.
  intros W. apply nodupb_NoDup in W. destruct (Inv_run c kn ops) as (_ & P & _).
  rewrite calls_run in P. split.
  - apply Permutation_NoDup with (l := rev (callers ops)); [now apply Permutation_sym | now apply NoDup_rev].
  - intros w. rewrite in_rev. split; intros H.
    + eapply Permutation_in; [apply Permutation_sym; exact P | exact H].
    + eapply Permutation_in; [exact P | exact H].
Qed.

(* ---------- T1: no call is ever sent two results ---------- *)
Theorem at_most_once c kn ops : wf ops = true -> NoDup (map fst (results (run c kn ops))).
Proof.
  intros W. destruct (live_run c kn ops W) as [H _]. unfold live, liveC in H. now apply NoDup_app_l in H.
Qed.

Lemma results_of_le1 w rs : NoDup (map fst rs) -> (length (results_of w rs) <= 1)%nat.
Proof.
  unfold results_of. rewrite map_length. induction rs as [|[a r] t IH]; cbn [map fst filter length]; [lia|].
  intros H. inversion H as [|? ? Hni Hnd]; subst. destruct (N.eqb_spec a w) as [E|E]; [|auto].
  subst. cbn [length].
  assert (filter (fun p => fst p =? w) t = []) as ->; [|cbn; lia].
  destruct (filter (fun p => fst p =? w) t) as [|q l] eqn:F; [reflexivity|]. exfalso.
  assert (Hq : In q (filter (fun p => fst p =? w) t)) by (rewrite F; now left).
  apply filter_In in Hq. destruct Hq as [Hq1 Hq2]. apply N.eqb_eq in Hq2. apply Hni. rewrite <- Hq2.
  now apply in_map.
Qed.

Theorem at_most_once_count c kn ops w : wf ops = true ->
  (length (results_of w (results (run c kn ops))) <= 1)%nat.
Proof. intros W. apply results_of_le1. now apply at_most_once. Qed.

Theorem no_surplus_send c kn ops : wf ops = true ->
  no_surplus (model_surplus (run c kn ops) ops) = true.
Proof.
  intros W. unfold no_surplus, model_surplus. apply forallb_forall. intros [w n] Hi.
  apply in_map_iff in Hi. destruct Hi as (w' & E & _). inversion E; subst. cbn [snd]. unfold surplus.
  pose proof (at_most_once_count c kn ops w W). apply N.eqb_eq. lia.
Qed.

(* ---------- T3: an unanswered call is covered ---------- *)
Definition covered (s : st) (w : N) : Prop :=
  In w (map fst (results s)) \/
  (exists t, In (PNew w t) (pending s)) \/
  (exists c0, In c0 (ctrls s) /\ In w (c_errors c0) /\ stopped s = false /\
              (tor_complete s (c_disp c0) = false \/ In (PComplete (c_disp c0)) (pending s))).

Lemma Inv_live_covered s w : Inv s -> In w (live s) -> covered s w.
Proof.
  intros (K & _ & S) H. unfold live, liveC in H. rewrite !in_app_iff in H. destruct H as [H|[H|H]].
  - now left.
  - right. right. pose proof H as H0. apply in_all_waiters in H. destruct H as (c0 & Hc & Hw).
    exists c0. repeat split; try assumption.
    + destruct (stopped s); [|reflexivity]. destruct (S eq_refl) as [_ E]. rewrite E in H0. contradiction.
    + rewrite tc_eq. destruct (tcomp (tors s) (c_disp c0)) eqn:T; [right | now left].
      unfold Core in K. destruct K as [_ _ _ _ Kcn _ _ _]. apply Kcn; [exact Hc | | exact T].
      intros E. rewrite E in Hw. contradiction.
  - right. left. now apply in_pending_callers.
Qed.

Theorem no_lost_call c kn ops : wf ops = true ->
  forall w, In w (callers ops) -> covered (run c kn ops) w.
Proof.
  intros W w Hw. apply Inv_live_covered; [apply Inv_run|]. now apply (live_run c kn ops W).
Qed.

(* ---------- T2: after shutdown every call has been answered ---------- *)
Theorem answered_when_stopped c kn ops : wf ops = true -> stopped (run c kn ops) = true ->
  forall w, In w (callers ops) -> exists r, In (w, r) (results (run c kn ops)).
Proof.
  intros W St w Hw. destruct (no_lost_call c kn ops W w Hw) as [H|[[t H]|(c0 & _ & _ & H & _)]].
  - apply in_map_iff in H. destruct H as [[w' r] [E H]]. cbn [fst] in E. subst. now exists r.
  - destruct (Inv_run c kn ops) as (_ & _ & S). destruct (S St) as [E _]. rewrite E in H. contradiction.
  - congruence.
Qed.

(* whatever has happened, Stop followed by the application of the shutdown event answers
   every call *)
Lemma stop_shutdown_stops c s : Inv s -> stopped (step c (step c s Stop) ApShutdown) = true.
Proof.
  intros I. unfold step at 2. cbn [step_gen].
  destruct (stopped s) eqn:St.
  - cbn [orb]. unfold step. cbn [step_gen]. destruct I as (_ & _ & S). destruct (S St) as [E _]. now rewrite E.
  - cbn [orb]. assert (Hin : In PShutdown (pending (if existsb (pev_eqb PShutdown) (pending s) then s
                                             else set_pending s (pending s ++ [PShutdown])))).
    { destruct (existsb (pev_eqb PShutdown) (pending s)) eqn:B.
      - apply existsb_exists in B. destruct B as [e [He Hb]]. apply pev_eqb_eq in Hb. now subst.
      - simp_st. apply in_or_app. right. now left. }
    destruct (remove_first_some _ _ Hin) as [p' R]. unfold step. cbn [step_gen]. now rewrite R.
Qed.

Theorem shutdown_answers_all c kn ops : wf ops = true ->
  forall w, In w (callers ops) -> exists r, In (w, r) (results (run c kn (ops ++ [Stop; ApShutdown]))).
Proof.
  intros W w Hw. apply answered_when_stopped.
  - unfold wf in *. rewrite callers_app. cbn [callers]. now rewrite app_nil_r.
  - unfold run, run_gen. rewrite fold_left_app. cbn [fold_left].
    apply (stop_shutdown_stops c). apply (Inv_fold c ops). apply Inv_init.
  - rewrite callers_app. apply in_or_app. now left.
Qed.

(* ---------- T4: success only for a blob that has been in the cache since the call ---------- *)
Theorem success_seen c kn ops w :
  In (w, RNil) (results (run c kn ops)) -> In w (seen (run c kn ops)).
Proof.
  destruct (Inv_run c kn ops) as (K & _). unfold Core in K. destruct K as [_ _ _ _ _ _ _ Knil]. apply Knil.
Qed.

(* ---------- T4b: success only when the blob is then in the cache ---------- *)
Lemma casa_app c w h : forall a s armed b,
  cached_after_some_apply c w h s armed (a ++ b) =
  cached_after_some_apply c w h s armed a ||
  cached_after_some_apply c w h (fold_left (step c) a s) (armed || memb w (callers a)) b.
Proof.
  induction a as [|o t IH]; intros s armed b.
  - cbn [app cached_after_some_apply fold_left callers memb existsb]. now rewrite orb_false_r.
  - cbn [app cached_after_some_apply fold_left]. rewrite IH, orb_assoc. f_equal. f_equal.
    destruct o; cbn [callers]; rewrite ?orb_false_r; try reflexivity.
    unfold memb. cbn [existsb]. now rewrite orb_assoc.
Qed.

Fixpoint dl (ops : list op) : list (N * N) :=
  match ops with
  | [] => []
  | Download w h :: t => (w, h) :: dl t
  | _ :: t => dl t
  end.

Lemma map_fst_dl ops : map fst (dl ops) = callers ops.
Proof. induction ops as [|o t IH]; [reflexivity|]. destruct o; cbn [dl callers map fst]; now rewrite ?IH. Qed.

Lemma calls_fold_pairs c ops : forall s, calls (fold_left (step c) ops s) = rev (dl ops) ++ calls s.
Proof.
  induction ops as [|o t IH]; intros s; cbn [fold_left dl]; [reflexivity|].
  rewrite IH, calls_step. destruct o; try reflexivity.
  cbn [dl rev]. now rewrite <- app_assoc.
Qed.

Lemma hash_of_call_in w h ops : NoDup (callers ops) -> In (w, h) (dl ops) -> hash_of_call w ops = h.
Proof.
  induction ops as [|o t IH]; [intros _ []|].
  destruct o; cbn [callers dl hash_of_call]; try exact IH.
  intros Hnd [E|Hi].
  - inversion E; subst. now rewrite N.eqb_refl.
  - inversion Hnd as [|? ? Hni Hnd']; subst. destruct (N.eqb_spec w w0) as [->|Hne]; [|now apply IH].
    exfalso. apply Hni. rewrite <- map_fst_dl. apply in_map_iff. now exists (w0, h).
Qed.

Lemma PS_run c kn hist :
  PS (fun h => evicted_in h hist = true)
     (fun w h => cached_after_some_apply c w h (init kn) false hist = true) (run c kn hist).
Proof.
  induction hist as [|o hist IH] using rev_ind.
  - constructor; cbn; try constructor; intros; contradiction.
  - assert (Er : run c kn (hist ++ [o]) = step c (run c kn hist) o).
    { unfold run, run_gen. now rewrite fold_left_app. }
    rewrite Er. eapply PS_step; [apply Inv_run | exact IH | | | | ].
    + intros h H. unfold evicted_in in *. rewrite existsb_app, H. reflexivity.
    + intros w h H. now rewrite casa_app, H.
    + intros h ->. unfold evicted_in. rewrite existsb_app. cbn [existsb]. rewrite N.eqb_refl.
      now rewrite orb_true_r.
    + intros w h Hw Ho Hm. rewrite casa_app. apply orb_true_iff. right.
      change (fold_left (step c) hist (init kn)) with (run c kn hist).
      cbn [cached_after_some_apply orb]. rewrite Hm, orb_false_r, andb_true_r.
      assert (Ha : memb w (callers hist) || match o with Download w' _ => w =? w' | _ => false end = true).
      { rewrite calls_step in Hw.
        assert (Hc : forall x, In x (map fst (calls (run c kn hist))) -> memb x (callers hist) = true).
        { intros x Hx. rewrite calls_run in Hx. apply memb_In. now apply in_rev. }
        destruct o; try (rewrite (Hc w Hw); reflexivity).
        cbn [map fst] in Hw. destruct Hw as [<-|Hw]; [now rewrite N.eqb_refl, orb_true_r | now rewrite (Hc w Hw)]. }
      rewrite Ha. cbn [andb]. destruct Ho as [Ho|(h' & ->)]; [now rewrite Ho | now rewrite N.eqb_refl, orb_true_r].
Qed.

Theorem success_when_cached c kn ops w : wf ops = true ->
  In (w, RNil) (results (run c kn ops)) -> success_justified c kn ops w = true.
Proof.
  intros W Hr. apply nodupb_NoDup in W. destruct (PS_run c kn ops) as [_ _ Pn _ _].
  destruct (Pn w Hr) as (h & Hc & Hj). unfold run, run_gen in Hc. rewrite calls_fold_pairs in Hc.
  cbn [init calls] in Hc. rewrite app_nil_r in Hc. apply in_rev in Hc.
  unfold success_justified. rewrite (hash_of_call_in w h ops W Hc). apply orb_true_iff. tauto.
Qed.

(* ---------- T5: every cover is discharged by the event that is due ---------- *)
Lemma results_tick_over c todo : forall s, Core s -> incl (results s) (results (tick_over true c s todo)).
Proof.
  intros s K. destruct (tick_over_ok c todo s K) as ([_ _ F] & _). now destruct F.
Qed.

Lemma tick_over_answers c x w : forall todo s, Core s -> NoDup (map c_hash todo) ->
  In x todo -> In x (ctrls s) -> tcomp (tors s) (c_disp x) = false ->
  leecher_tti c <= now s - c_lastw x -> In w (c_errors x) ->
  In (w, RTimeout) (results (tick_over true c s todo)).
Proof.
  induction todo as [|y t IH]; intros s K Hnd Hx Hin Hc Hl Hw; [contradiction|].
  cbn [tick_over]. cbn [map] in Hnd. inversion Hnd as [|? ? Hni Hnd']; subst.
  pose proof K as K0. unfold Core in K0. destruct K0 as [Kh _ _ _ _ _ _ _].
  destruct Hx as [->|Hx].
  - assert (Hi : idle c s x = true).
    { unfold idle. rewrite tc_eq, Hc. now apply N.leb_le. }
    rewrite Hi. destruct (remove_torrent_ok s (c_hash x) RTimeout K) as (A & _ & _ & _ & R); [discriminate|].
    apply (results_tick_over c t _ (ok_core _ _ _ A)). apply R with (c := x); [now apply In_find_ctrl | exact Hw].
  - assert (Hne : c_hash x <> c_hash y).
    { intros E. apply Hni. rewrite <- E. now apply in_map. }
    destruct (idle c s y).
    + destruct (remove_torrent_ok s (c_hash y) RTimeout K) as ([K1 _ F1] & _ & _ & I & _); [discriminate|].
      destruct F1 as [Et _ _ _ En _]. apply IH; try assumption.
      * apply I. now split.
      * now rewrite Et.
      * now rewrite En.
    + now apply IH.
Qed.

(* a parked tick, once the write-idle time of an incomplete torrent has expired, answers
   every call waiting on it with ErrTorrentTimeout *)
Theorem tick_answers c s x w : Inv s -> In PTick (pending s) -> In x (ctrls s) ->
  tor_complete s (c_disp x) = false -> leecher_tti c <= now s - c_lastw x -> In w (c_errors x) ->
  In (w, RTimeout) (results (step c s ApTick)).
Proof.
  intros (K & _) Hp Hx Hc Hl Hw. unfold step. cbn [step_gen].
  destruct (remove_first_some _ _ Hp) as [p' R]. rewrite R.
  destruct (remove_first_split _ _ _ R) as (l1 & l2 & E & ->).
  pose proof (pop_ok s l1 _ l2 K E) as O1. specialize (O1 ltac:(discriminate) eq_refl).
  unfold apply_tick. apply tick_over_answers with (x := x); simp_st; try assumption.
  - now destruct O1.
  - unfold Core in K. now destruct K.
Qed.

(* a parked removal answers every call waiting on that torrent with ErrTorrentRemoved *)
Theorem remove_answers c s x w : Inv s -> In (PRemove (c_hash x)) (pending s) -> In x (ctrls s) ->
  In w (c_errors x) -> In (w, RRemoved) (results (step c s (ApRemove (c_hash x)))).
Proof.
  intros (K & _) Hp Hx Hw. unfold step. cbn [step_gen].
  destruct (remove_first_some _ _ Hp) as [p' R]. rewrite R.
  destruct (remove_first_split _ _ _ R) as (l1 & l2 & E & ->).
  pose proof (pop_ok s l1 _ l2 K E) as O1. specialize (O1 ltac:(discriminate) eq_refl).
  destruct (apply_remove_ok _ (c_hash x) (ok_core _ _ _ O1)) as (_ & A). apply A with (c := x); [|exact Hw].
  simp_st. apply In_find_ctrl; [|exact Hx]. unfold Core in K. now destruct K.
Qed.

(* the parked shutdown answers everybody waiting or parked with ErrSchedulerStopped *)
Theorem shutdown_answers c s w : Inv s -> In PShutdown (pending s) ->
  In w (all_waiters (ctrls s)) \/ In w (pending_callers (pending s)) ->
  In (w, RStopped) (results (step c s ApShutdown)) /\ stopped (step c s ApShutdown) = true.
Proof.
  intros (K & _) Hp Hw. unfold step. cbn [step_gen].
  destruct (remove_first_some _ _ Hp) as [p' R]. rewrite R.
  destruct (remove_first_split _ _ _ R) as (l1 & l2 & E & ->).
  split; [|reflexivity]. unfold apply_shutdown. simp_st.
  apply in_deliver. destruct Hw as [Hw|Hw].
  - left. apply in_deliver. right. now split.
  - right. split; [reflexivity|]. rewrite E in Hw.
    rewrite pending_callers_app in *. change (PShutdown :: l2) with ([PShutdown] ++ l2) in Hw.
    rewrite pending_callers_app in Hw. cbn [pending_callers app] in Hw. exact Hw.
Qed.

(* the parked completion notice of the current dispatcher answers its waiters with success *)
Theorem complete_answers c s x w : Inv s -> In (PComplete (c_disp x)) (pending s) -> In x (ctrls s) ->
  In w (c_errors x) -> In (w, RNil) (results (step c s (ApComplete (c_disp x)))).
Proof.
  intros (K & _) Hp Hx Hw. unfold step. cbn [step_gen].
  destruct (remove_first_some _ _ Hp) as [p' R]. rewrite R.
  unfold apply_complete. simp_st. rewrite th_eq. simp_st.
  unfold Core in K. destruct K as [Kh Kc _ _ _ _ _ _]. destruct (Kc x Hx) as (A & _).
  rewrite <- A, (In_find_ctrl _ _ Kh Hx), N.eqb_refl. cbn [negb andb]. simp_st.
  apply in_deliver. right. now split.
Qed.

(* a parked newTorrentEvent, once applied, leaves its call answered or waiting on a control *)
Theorem new_registers c kn ops w t : wf ops = true -> In (PNew w t) (pending (run c kn ops)) ->
  let s' := step c (run c kn ops) (ApNew w) in
  In w (map fst (results s')) \/ In w (all_waiters (ctrls s')).
Proof.
  intros W Hp s'. set (s := run c kn ops) in *.
  assert (W' : wf (ops ++ [ApNew w]) = true).
  { unfold wf in *. rewrite callers_app. cbn [callers]. now rewrite app_nil_r. }
  assert (Es : s' = run c kn (ops ++ [ApNew w])).
  { unfold run, run_gen. now rewrite fold_left_app. }
  destruct (live_run c kn _ W') as [Hnd Hall]. rewrite <- Es in Hnd, Hall.
  assert (Hw : In w (live s')).
  { apply Hall. rewrite callers_app, app_nil_r.
    apply (live_run c kn ops W). unfold live, liveC. rewrite !in_app_iff. right. right.
    apply in_pending_callers. now exists t. }
  unfold live, liveC in Hw. rewrite !in_app_iff in Hw. destruct Hw as [Hw|[Hw|Hw]]; [now left | now right|].
  exfalso.
  (* w would still be parked: but its only parked event has just been received *)
  destruct (live_run c kn ops W) as [Hnd0 _]. fold s in Hnd0.
  subst s'. unfold step in Hw. cbn [step_gen] in Hw.
  destruct (take_new_some _ _ _ Hp) as (t' & p' & T). rewrite T in Hw.
  destruct (take_new_split _ _ _ _ T) as (l1 & l2 & E & ->).
  rewrite pending_callers_apply_new in Hw. cbn [pending set_pending] in Hw.
  unfold live, liveC in Hnd0. rewrite E in Hnd0.
  change (PNew w t' :: l2) with ([PNew w t'] ++ l2) in Hnd0.
  rewrite !pending_callers_app in Hnd0. cbn [pending_callers app] in Hnd0.
  rewrite pending_callers_app in Hw.
  rewrite !app_assoc in Hnd0. apply NoDup_remove_2 in Hnd0. apply Hnd0.
  rewrite <- !app_assoc. rewrite !in_app_iff. apply in_app_or in Hw. tauto.
Qed.

(* without any shutdown: when nothing is parked, every unanswered call waits on an incomplete
   torrent, and if no piece arrives for leecher_tti the next tick answers all of them *)
Lemma results_step_mono c s o : Inv s -> incl (results s) (results (step c s o)).
Proof.
  intros I. pose proof (Inv_step c s o I) as I'. pose proof I as (K & _ & S).
  unfold step in *. destruct o; cbn [step_gen] in *.
  - destruct (_ && _); [apply incl_deliver|]. destruct (stopped s); simp_st; [apply incl_deliver | apply incl_refl].
  - destruct (find_ctrl _ _); [|apply incl_refl]. destruct (_ || _); apply incl_refl.
  - destruct (stopped s); apply incl_refl.
  - apply incl_refl.
  - apply incl_refl.
  - destruct (stopped s); apply incl_refl.
  - destruct (_ || _); apply incl_refl.
  - destruct (take_new _ _) as [[t p']|] eqn:T; [|apply incl_refl].
    destruct (take_new_split _ _ _ _ T) as (l1 & l2 & E & ->).
    destruct (Core_pop_state s l1 _ l2 K E) as (K1 & F1 & L1); [discriminate|].
    assert (Hnew : In (PNew w t) (pending s)) by (rewrite E; apply in_elt).
    unfold Core in K. destruct K as [_ _ _ _ _ Kn _ _]. destruct (Kn w t Hnew) as (V & C & Sn).
    destruct (apply_new_ok (set_pending s (l1 ++ l2)) w t K1 V C Sn) as [_ _ F2]. now destruct F2.
  - destruct (remove_first_pev _ _) as [p'|] eqn:R; [|apply incl_refl].
    destruct (remove_first_split _ _ _ R) as (l1 & l2 & E & ->).
    destruct (apply_complete_ok s d l1 l2 K E) as [_ _ F]. now destruct F.
  - destruct (remove_first_pev _ _) as [p'|] eqn:R; [|apply incl_refl].
    destruct (remove_first_split _ _ _ R) as (l1 & l2 & E & ->).
    pose proof (pop_ok s l1 _ l2 K E) as O1. specialize (O1 ltac:(discriminate) eq_refl).
    destruct (apply_remove_ok _ h (ok_core _ _ _ O1)) as ([_ _ F] & _). now destruct F.
  - destruct (remove_first_pev _ _) as [p'|] eqn:R; [|apply incl_refl].
    destruct (remove_first_split _ _ _ R) as (l1 & l2 & E & ->).
    pose proof (pop_ok s l1 _ l2 K E) as O1. specialize (O1 ltac:(discriminate) eq_refl).
    unfold apply_tick. apply (results_tick_over c _ _ (ok_core _ _ _ O1)).
  - destruct (remove_first_pev _ _) as [p'|] eqn:R; [|apply incl_refl].
    unfold apply_shutdown. simp_st. eapply incl_tran; apply incl_deliver.
Qed.

Theorem quiescent_timeout_answers_all c kn ops : wf ops = true ->
  stopped (run c kn ops) = false -> pending (run c kn ops) = [] ->
  forall w, In w (callers ops) ->
  exists r, In (w, r) (results (run c kn (ops ++ [Advance (leecher_tti c); TickSend; ApTick]))).
Proof.
  intros W St Pe w Hw. unfold run at 1, run_gen. rewrite fold_left_app. cbn [fold_left].
  fold (run_gen true c kn ops). fold (run c kn ops). fold (step c).
  set (s := run c kn ops) in *. pose proof (Inv_run c kn ops : Inv s) as I.
  set (s1 := step c s (Advance (leecher_tti c))). pose proof (Inv_step c s (Advance (leecher_tti c)) I : Inv s1) as I1.
  set (s2 := step c s1 TickSend). pose proof (Inv_step c s1 TickSend I1 : Inv s2) as I2.
  change (exists r, In (w, r) (results (step c s2 ApTick))).
  destruct (no_lost_call c kn ops W w Hw) as [H|[[t H]|(c0 & Hc & Hwc & _ & H)]]; fold s in H; try fold s in Hc.
  - apply in_map_iff in H. destruct H as [[w' r] [E H]]. cbn [fst] in E. subst w'. exists r.
    apply (results_step_mono c s2 ApTick I2). apply (results_step_mono c s1 TickSend I1).
    now apply (results_step_mono c s (Advance (leecher_tti c)) I).
  - rewrite Pe in H. contradiction.
  - destruct H as [H|H]; [|rewrite Pe in H; contradiction].
    exists RTimeout.
    assert (E2 : s2 = set_pending s1 (pending s1 ++ [PTick])).
    { subst s2. unfold step. cbn [step_gen]. subst s1. unfold step. cbn [step_gen]. simp_st. now rewrite St. }
    apply tick_answers with (x := c0); try assumption.
    + rewrite E2. simp_st. apply in_or_app. right. now left.
    + rewrite E2. exact Hc.
    + rewrite E2. exact H.
    + rewrite E2. subst s1. unfold step. cbn [step_gen]. simp_st.
      destruct I as (K & _). unfold Core in K. destruct K as [_ Kc _ _ _ _ _ _].
      destruct (Kc c0 Hc) as (_ & _ & Hl). lia.
Qed.

(* the progress lemmas at the reachable states *)
Theorem complete_answers_run c kn ops x w : let s := run c kn ops in
  In (PComplete (c_disp x)) (pending s) -> In x (ctrls s) -> In w (c_errors x) ->
  In (w, RNil) (results (step c s (ApComplete (c_disp x)))).
Proof. cbv zeta. apply complete_answers. apply Inv_run. Qed.

Theorem tick_answers_run c kn ops x w : let s := run c kn ops in
  In PTick (pending s) -> In x (ctrls s) ->
  tor_complete s (c_disp x) = false -> leecher_tti c <= now s - c_lastw x -> In w (c_errors x) ->
  In (w, RTimeout) (results (step c s ApTick)).
Proof. cbv zeta. apply tick_answers. apply Inv_run. Qed.

Theorem remove_answers_run c kn ops x w : let s := run c kn ops in
  In (PRemove (c_hash x)) (pending s) -> In x (ctrls s) -> In w (c_errors x) ->
  In (w, RRemoved) (results (step c s (ApRemove (c_hash x)))).
Proof. cbv zeta. apply remove_answers. apply Inv_run. Qed.

Theorem shutdown_answers_run c kn ops w : let s := run c kn ops in
  In PShutdown (pending s) ->
  In w (all_waiters (ctrls s)) \/ In w (pending_callers (pending s)) ->
  In (w, RStopped) (results (step c s ApShutdown)) /\ stopped (step c s ApShutdown) = true.
Proof. cbv zeta. apply shutdown_answers. apply Inv_run. Qed.

(* ---------- T6: the executable check accepts what the model does ---------- *)
Theorem check_sound c kn ops : C17_check c kn ops (model_obs (run c kn ops) ops) = true.
Proof.
  unfold C17_check. destruct (wf ops) eqn:W; [|reflexivity]. unfold ends_shut_down.
  destruct (stopped (run c kn ops)) eqn:St; [|reflexivity]. cbn [andb].
  apply andb_true_iff. split.
  - unfold model_obs. apply forallb_forall. intros [w o] Hi. apply in_map_iff in Hi.
    destruct Hi as (w' & E & Hw). inversion E; subst w' o. cbn [fst snd].
    destruct (answered_when_stopped c kn ops W St w Hw) as [r Hr].
    destruct (results_of w (results (run c kn ops))) as [|r0 l] eqn:R.
    + exfalso. assert (Hin : In r (results_of w (results (run c kn ops)))).
      { unfold results_of. apply in_map_iff. exists (w, r). split; [reflexivity|].
        apply filter_In. split; [exact Hr | apply N.eqb_refl]. }
      rewrite R in Hin. contradiction.
    + cbn [hd_error]. destruct r0; try reflexivity.
      assert (Hnil : In (w, RNil) (results (run c kn ops))).
      { assert (Hin : In RNil (results_of w (results (run c kn ops)))) by (rewrite R; now left).
        unfold results_of in Hin. apply in_map_iff in Hin. destruct Hin as ([w1 r1] & E1 & H1).
        apply filter_In in H1. destruct H1 as [H1 H2]. cbn [fst snd] in *. apply N.eqb_eq in H2. now subst. }
      apply andb_true_iff. split.
      * apply memb_In. now apply success_seen.
      * now apply success_when_cached.
  - unfold model_obs. rewrite map_length. apply N.eqb_refl.
Qed.

(* ---------- the code before the fix (step_gen false) ---------- *)
Definition cfg0 := mkCfg 10 60.

(* seed 1 + shutdown: completion, removal, then the completion notice: call 1 never gets a result *)
Definition lost_wakeup_ops : list op :=
  [Download 1 0; ApNew 1; Feed 0; Remove 0; ApRemove 0; ApComplete 0; Stop; ApShutdown].

Lemma lost_wakeup_refuted :
  wf lost_wakeup_ops = true /\ stopped (run_prefix cfg0 [0] lost_wakeup_ops) = true /\
  In 1 (callers lost_wakeup_ops) /\ results_of 1 (results (run_prefix cfg0 [0] lost_wakeup_ops)) = [].
Proof. vm_compute. repeat split. now left. Qed.

(* seed 3: a second call created its torrent before completion and is applied after it, before
   the notice: it was sent two results (nil from the notice, ErrSchedulerStopped at shutdown) *)
Definition straddle_ops : list op :=
  [Download 1 0; ApNew 1; Download 2 0; Feed 0; ApNew 2; ApComplete 0; Stop; ApShutdown].

Lemma straddle_refuted :
  wf straddle_ops = true /\ ~ NoDup (map fst (results (run_prefix cfg0 [0] straddle_ops))).
Proof.
  split; [reflexivity|]. vm_compute. intros H.
  repeat match goal with H : NoDup (_ :: _) |- _ => inversion H; clear H; subst end;
  repeat match goal with H : ~ In _ _ |- _ => apply H; cbn; tauto end.
Qed.

(* seed 4: the stale notice of a removed dispatcher reaches the re-added torrent: call 2 is told
   "success" although its blob was never in the cache *)
Definition stale_notice_ops : list op :=
  [Download 1 0; ApNew 1; Feed 0; Remove 0; ApRemove 0; Download 2 0; ApNew 2; ApComplete 0; Stop; ApShutdown].

Lemma stale_notice_refuted :
  In (2, RNil) (results (run_prefix cfg0 [0] stale_notice_ops)) /\
  ~ In 2 (seen (run_prefix cfg0 [0] stale_notice_ops)).
Proof. vm_compute. split; [tauto | intros [H|[]]; discriminate]. Qed.

(* seed 5: stale notice, own notice, shutdown: three sends to one call *)
Definition triple_send_ops : list op :=
  [Download 1 0; ApNew 1; Feed 0; Remove 0; ApRemove 0; Download 2 0; ApNew 2; ApComplete 0;
   Feed 0; ApComplete 1; Stop; ApShutdown].

Lemma triple_send_refuted :
  wf triple_send_ops = true /\ length (results_of 2 (results (run_prefix cfg0 [0] triple_send_ops))) = 3%nat.
Proof. vm_compute. split; reflexivity. Qed.
