(* C38: the _manifests patterns on built paths. *)
From Coq Require Import List NArith Arith Bool Lia.
From K.Gen Require Import C38_consts.
From K.Model Require Import C38.
From K.Proof Require Import C38_engine C38_segs C38_tac.
Import ListNotations.
Local Open Scope N_scope.

(* ---- matchManifestsPath ---- *)
Definition mm_kind := Alt (Lit s_tags) (Lit s_revisions).
Definition mm_opt := Opt (Seq (Lit [SL]) (Seq (Plus true Dot) (Lit (sl s_link)))).
Lemma D_mm pre st tail : pre <> [] -> nonl pre = true -> D mm_kind st (tail ++ []) [] -> D mm_opt tail [] [] ->
  D ast_match_manifests (pre ++ sls s_manifests ++ st ++ tail ++ []) [] [st].
Proof. intros. unf_ast_goal. dI'. Qed.
Lemma D_mm_opt mid : mid <> [] -> nonl mid = true -> D mm_opt ([SL] ++ mid ++ sl s_link) [] [].
Proof. intros. unfold mm_opt. apply D_opt_some. dI'. Qed.

Lemma mm_revisions r : repo_ok r = true -> exec ast_match_manifests (build (KRevisions r)) = Some [s_revisions].
Proof.
  intros Hr. by_unique.
  - change (build (KRevisions r)) with (repo_dir r ++ sls s_manifests ++ s_revisions ++ [] ++ []).
    apply D_mm; auto using repo_dir_nonnil, repo_dir_nonl. apply D_alt_r, D_lit. apply D_opt_none.
  - uniq_scan.
Qed.
Lemma mm_tags r : repo_ok r = true -> exec ast_match_manifests (build (KTags r)) = Some [s_tags].
Proof.
  intros Hr. by_unique.
  - change (build (KTags r)) with (repo_dir r ++ sls s_manifests ++ s_tags ++ [] ++ []).
    apply D_mm; auto using repo_dir_nonnil, repo_dir_nonl. apply D_alt_l, D_lit. apply D_opt_none.
  - uniq_scan.
Qed.
Lemma mm_revision r h : repo_ok r = true -> valid_hex h = true -> exec ast_match_manifests (build (KRevision r h)) = Some [s_revisions].
Proof.
  intros Hr Hh. by_unique.
  - replace (build (KRevision r h)) with (repo_dir r ++ sls s_manifests ++ s_revisions ++ ([SL] ++ (s_sha256 ++ SL :: h) ++ sl s_link) ++ []).
    2:{ cbn [build]. unfold sls, sl. repeat (progress (rewrite <- ?app_assoc; cbn [app])). rewrite ?app_nil_r. reflexivity. }
    apply D_mm; auto using repo_dir_nonnil, repo_dir_nonl. apply D_alt_r, D_lit. apply D_mm_opt; [discriminate|].
    rewrite nonl_app, nonl_cons, (valid_hex_nonl h Hh). reflexivity.
  - uniq_scan.
Qed.

Lemma mm_tag_current r t : repo_ok r = true -> tag_ok t = true -> exec ast_match_manifests (build (KTagCurrent r t)) = Some [s_tags].
Proof.
  intros Hr Ht. by_unique.
  - replace (build (KTagCurrent r t)) with (repo_dir r ++ sls s_manifests ++ s_tags ++ ([SL] ++ (t ++ SL :: s_current) ++ sl s_link) ++ []).
    2:{ cbn [build]. unfold sls, sl. repeat (progress (rewrite <- ?app_assoc; cbn [app])). rewrite ?app_nil_r. reflexivity. }
    destruct (tag_ok_facts t Ht) as (? & ? & Hnl & ?).
    apply D_mm; auto using repo_dir_nonnil, repo_dir_nonl. apply D_alt_l, D_lit. apply D_mm_opt; [destruct t; discriminate|].
    rewrite nonl_app, Hnl. reflexivity.
  - uniq_scan.
Qed.
Lemma mm_tag_index r t h : repo_ok r = true -> tag_ok t = true -> valid_hex h = true ->
  exec ast_match_manifests (build (KTagIndex r t h)) = Some [s_tags].
Proof.
  intros Hr Ht Hh. by_unique.
  - replace (build (KTagIndex r t h)) with (repo_dir r ++ sls s_manifests ++ s_tags ++ ([SL] ++ (t ++ sls s_index ++ s_sha256 ++ SL :: h) ++ sl s_link) ++ []).
    2:{ cbn [build]. unfold sls, sl. repeat (progress (rewrite <- ?app_assoc; cbn [app])). rewrite ?app_nil_r. reflexivity. }
    destruct (tag_ok_facts t Ht) as (? & ? & Hnl & ?).
    apply D_mm; auto using repo_dir_nonnil, repo_dir_nonl. apply D_alt_l, D_lit. apply D_mm_opt; [destruct t; discriminate|].
    unfold sls. rewrite !nonl_app, Hnl, !nonl_cons, !nonl_app, !nonl_cons, (valid_hex_nonl h Hh). reflexivity.
  - uniq_scan.
Qed.

(* ---- GetManifestTag ---- *)
Lemma tag_current r t : repo_ok r = true -> tag_ok t = true ->
  exec ast_get_manifest_tag (build (KTagCurrent r t)) = Some [t; s_current].
Proof.
  intros Hr Ht. by_unique.
  - replace (build (KTagCurrent r t)) with (repo_dir r ++ (sls s_manifests ++ s_tags ++ [SL]) ++ t ++ [SL] ++ s_current ++ sl s_link ++ []).
    2:{ cbn [build]. unfold sls, sl. repeat (progress (rewrite <- ?app_assoc; cbn [app])). rewrite ?app_nil_r. reflexivity. }
    destruct (tag_ok_facts t Ht) as (? & ? & Hnl & ?).
    unf_ast_goal. dI'; auto using repo_dir_nonnil, repo_dir_nonl. apply D_alt_l, D_lit. reflexivity.
  - uniq.
Qed.
Lemma tag_index r t h : repo_ok r = true -> tag_ok t = true -> valid_hex h = true ->
  exec ast_get_manifest_tag (build (KTagIndex r t h)) = Some [t; s_index ++ sls s_sha256 ++ h].
Proof.
  intros Hr Ht Hh. by_unique.
  - replace (build (KTagIndex r t h)) with (repo_dir r ++ (sls s_manifests ++ s_tags ++ [SL]) ++ t ++ [SL] ++ ((s_index ++ sls s_sha256) ++ h) ++ sl s_link ++ []).
    2:{ cbn [build]. unfold sls, sl. repeat (progress (rewrite <- ?app_assoc; cbn [app])). rewrite ?app_nil_r. reflexivity. }
    destruct (tag_ok_facts t Ht) as (? & ? & Hnl & ?).
    unf_ast_goal. dI'; auto using repo_dir_nonnil, repo_dir_nonl. apply D_alt_r. dI'; auto using valid_hex_nonnil, valid_hex_cls.
    cbn [app]. unfold sls. rewrite <- !app_assoc. reflexivity.
  - uniq.
Qed.

(* ---- GetManifestDigest ---- *)
Lemma mdigest_revision r h : repo_ok r = true -> valid_hex h = true ->
  exec ast_get_manifest_digest (build (KRevision r h)) = Some [h].
Proof.
  intros Hr Hh. by_unique.
  - replace (build (KRevision r h)) with (repo_dir r ++ sls s_manifests ++ s_revisions ++ sls s_sha256 ++ h ++ sl s_link ++ []).
    2:{ cbn [build]. rewrite ?app_nil_r. reflexivity. }
    unf_ast_goal. dI'; auto using repo_dir_nonnil, repo_dir_nonl, valid_hex_nonnil, valid_hex_cls. apply D_alt_l, D_lit. reflexivity.
  - uniq.
Qed.
Lemma mdigest_tag_index r t h : repo_ok r = true -> tag_ok t = true -> valid_hex h = true ->
  exec ast_get_manifest_digest (build (KTagIndex r t h)) = Some [h].
Proof.
  intros Hr Ht Hh. by_unique.
  - replace (build (KTagIndex r t h)) with (repo_dir r ++ sls s_manifests ++ ((s_tags ++ [SL]) ++ t ++ sl s_index) ++ sls s_sha256 ++ h ++ sl s_link ++ []).
    2:{ cbn [build]. unfold sls, sl. repeat (progress (rewrite <- ?app_assoc; cbn [app])). rewrite ?app_nil_r. reflexivity. }
    destruct (tag_ok_facts t Ht) as (? & ? & Hnl & ?).
    unf_ast_goal. dI'; auto using repo_dir_nonnil, repo_dir_nonl, valid_hex_nonnil, valid_hex_cls. apply D_alt_r. dI'. reflexivity.
  - uniq.
Qed.
