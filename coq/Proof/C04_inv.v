(* C04: the disk invariant along traces, benign calls, the memory invariant, and the procedures of
   the file store that never touch what the invariant reads *)
From Coq Require Import List NArith Bool Arith Lia.
From K.Model Require Import C04.
From K.Proof Require Import C04_base.
Import ListNotations.

(* ---- traces ---- *)
Lemma apply_calls_app : forall s a b, apply_calls s (a ++ b) = apply_calls (apply_calls s a) b.
Proof. intros. unfold apply_calls. apply fold_left_app. Qed.

Lemma all_DI_app : forall c a s b, all_DI c s (a ++ b) = all_DI c s a && all_DI c (apply_calls s a) b.
Proof.
  induction a as [|x a IH]; intros s b; simpl.
  - destruct b; simpl; [rewrite andb_diag|]; try reflexivity.
    destruct (DIb c s); reflexivity.
  - rewrite IH. rewrite andb_assoc. reflexivity.
Qed.

Lemma all_DI_head : forall c s cs, all_DI c s cs = true -> DIb c s = true.
Proof. intros c s cs H. destruct cs; simpl in H; apply andb_true_iff in H; tauto. Qed.

Lemma all_DI_last : forall c cs s, all_DI c s cs = true -> DIb c (apply_calls s cs) = true.
Proof.
  induction cs as [|x cs IH]; intros s H; simpl in *.
  - apply andb_true_iff in H. tauto.
  - apply andb_true_iff in H. destruct H as [_ H]. apply IH. exact H.
Qed.

Lemma all_DI_nil : forall c s, all_DI c s [] = DIb c s.
Proof. intros. simpl. apply andb_true_r. Qed.

(* every crash point = every prefix *)
Lemma all_DI_prefix : forall c cs s k, all_DI c s cs = true -> DIb c (crash_at s cs k) = true.
Proof.
  intros c cs s k H. unfold crash_at.
  rewrite <- (firstn_skipn k cs) in H. rewrite all_DI_app in H.
  apply andb_true_iff in H. destruct H as [H _]. apply all_DI_last. exact H.
Qed.

(* ---- the part of the disk the invariant reads ---- *)
Definition core (s : fs) := (d_data (dl s), d_status (dl s), d_data (ca s)).

Definition benign (x : call) : bool :=
  match x with
  | CMkdir _ _ | CRmdir _ | CBad _ => true
  | CRename => false
  | COpen a f | CWrite a f _ _ | CTrunc a f _ | CUnlink a f =>
      match a, f with ADl, FData | ADl, FStatus | ACa, FData => false | _, _ => true end
  end.

Lemma benign_core : forall s x, benign x = true -> core (apply_call s x) = core s.
Proof.
  intros [d1 d2] x H. destruct x as [a l|a f|a f o b|a f n| |a f|a|n]; simpl in H; try discriminate;
    try (destruct a, f; try discriminate; reflexivity);
    try (destruct a; reflexivity); reflexivity.
Qed.

Lemma DIb_core : forall c s s', core s = core s' -> DIb c s = DIb c s'.
Proof.
  intros c s s' H. unfold core in H. inversion H as [[H1 H2 H3]].
  unfold DIb. rewrite H1, H2, H3. reflexivity.
Qed.

Lemma benign_calls_core : forall cs s, forallb benign cs = true -> core (apply_calls s cs) = core s.
Proof.
  induction cs as [|x cs IH]; intros s H; simpl in *; [reflexivity|].
  apply andb_true_iff in H. destruct H as [H1 H2].
  unfold apply_calls in *. simpl. rewrite IH by exact H2. apply benign_core. exact H1.
Qed.

Lemma benign_calls_DI : forall c cs s, forallb benign cs = true -> DIb c s = true -> all_DI c s cs = true.
Proof.
  induction cs as [|x cs IH]; intros s H D; simpl in *.
  - rewrite D. reflexivity.
  - apply andb_true_iff in H. destruct H as [H1 H2]. rewrite D. simpl.
    apply IH; [exact H2|]. rewrite (DIb_core c _ s); [exact D|]. apply benign_core. exact H1.
Qed.

Lemma has_data_core : forall s s' a, core s = core s' -> has_data s a = has_data s' a.
Proof.
  intros s s' a H. unfold core in H. inversion H as [[H1 H2 H3]].
  unfold has_data, file_at. destruct a; simpl; [rewrite H1|rewrite H3]; reflexivity.
Qed.

(* ---- extensions of a world ---- *)
(* w' is w after more calls, every crash point in between satisfies the invariant, and the cache
   file does not disappear *)
Definition ext (c : cfg) (w w' : W) : Prop :=
  exists cs, w_tr w' = w_tr w ++ cs /\ w_fs w' = apply_calls (w_fs w) cs /\ all_DI c (w_fs w) cs = true
             /\ (has_data (w_fs w) ACa = true -> has_data (w_fs w') ACa = true).

(* ... by calls that do not touch the core *)
Definition bext (w w' : W) : Prop :=
  exists cs, w_tr w' = w_tr w ++ cs /\ w_fs w' = apply_calls (w_fs w) cs /\ forallb benign cs = true.

Lemma ext_refl : forall c w, DIb c (w_fs w) = true -> ext c w w.
Proof.
  intros c w D. exists []. rewrite app_nil_r. repeat split; auto. rewrite all_DI_nil. exact D.
Qed.

Lemma ext_trans : forall c w1 w2 w3, ext c w1 w2 -> ext c w2 w3 -> ext c w1 w3.
Proof.
  intros c w1 w2 w3 [a [A1 [A2 [A3 A4]]]] [b [B1 [B2 [B3 B4]]]].
  exists (a ++ b). repeat split.
  - rewrite B1, A1. apply app_assoc_reverse.
  - rewrite B2, A2. symmetry. apply apply_calls_app.
  - rewrite all_DI_app. rewrite A3. simpl. rewrite <- A2. exact B3.
  - auto.
Qed.

Lemma ext_DI : forall c w w', ext c w w' -> DIb c (w_fs w') = true.
Proof. intros c w w' [cs [_ [E [A _]]]]. rewrite E. apply all_DI_last. exact A. Qed.

Lemma ext_set_mem : forall c w w' m, ext c w w' -> ext c w (set_mem w' m).
Proof. intros c w w' m H. exact H. Qed.

Lemma ext_set_mem_l : forall c w w' m, ext c w w' -> ext c (set_mem w m) w'.
Proof. intros c w w' m H. exact H. Qed.

Lemma bext_refl : forall w, bext w w.
Proof. intro w. exists []. rewrite app_nil_r. repeat split; reflexivity. Qed.

Lemma bext_trans : forall w1 w2 w3, bext w1 w2 -> bext w2 w3 -> bext w1 w3.
Proof.
  intros w1 w2 w3 [a [A1 [A2 A3]]] [b [B1 [B2 B3]]].
  exists (a ++ b). repeat split.
  - rewrite B1, A1. apply app_assoc_reverse.
  - rewrite B2, A2. symmetry. apply apply_calls_app.
  - rewrite forallb_app. rewrite A3, B3. reflexivity.
Qed.

Lemma bext_core : forall w w', bext w w' -> core (w_fs w') = core (w_fs w).
Proof. intros w w' [cs [_ [E B]]]. rewrite E. apply benign_calls_core. exact B. Qed.

Lemma bext_ext : forall c w w', DIb c (w_fs w) = true -> bext w w' -> ext c w w'.
Proof.
  intros c w w' D B. pose proof (bext_core w w' B) as Co. destruct B as [cs [E1 [E2 B]]].
  exists cs. repeat split; auto.
  - apply benign_calls_DI; assumption.
  - intro H. rewrite (has_data_core _ _ ACa Co). exact H.
Qed.

Lemma bext_emit : forall w cs, forallb benign cs = true -> bext w (emit w cs).
Proof. intros w cs H. exists cs. repeat split; auto. Qed.

Lemma bext_set_mem : forall w w' m, bext w w' -> bext w (set_mem w' m).
Proof. intros w w' m H. exact H. Qed.

Lemma ext_emit : forall c w cs, all_DI c (w_fs w) cs = true ->
  (has_data (w_fs w) ACa = true -> has_data (apply_calls (w_fs w) cs) ACa = true) -> ext c w (emit w cs).
Proof. intros c w cs H M. exists cs. repeat split; auto. Qed.

(* ---- benign procedures ---- *)
Lemma mkdirs_benign : forall s a, forallb benign (mkdirs_calls s a) = true.
Proof.
  intros s a. unfold mkdirs_calls. apply forallb_forall. intros x Hx.
  apply in_map_iff in Hx. destruct Hx as [l [E _]]. subst x. reflexivity.
Qed.

Definition side (a : area) (f : fname) : bool :=
  match a, f with ADl, FData | ADl, FStatus | ACa, FData => false | _, _ => true end.

Lemma wr_benign : forall a f off b, side a f = true -> forallb benign (wr_calls a f off b) = true.
Proof.
  intros a f off b H. unfold wr_calls. destruct b; simpl; [reflexivity|].
  destruct a, f; simpl in *; try discriminate; reflexivity.
Qed.

Lemma caw_benign : forall s a f b, side a f = true -> forallb benign (caw_calls s a f b) = true.
Proof.
  intros s a f b H. unfold caw_calls.
  assert (Hop : benign (COpen a f) = true) by (destruct a, f; simpl in *; try discriminate; reflexivity).
  assert (Htr : forall n, benign (CTrunc a f n) = true) by (intro n; destruct a, f; simpl in *; try discriminate; reflexivity).
  destruct (file_at s a f) as [cur|].
  - destruct (bytes_eqb cur b); [reflexivity|].
    rewrite forallb_app. rewrite wr_benign by exact H.
    destruct (length cur =? length b); [reflexivity|]. cbn [forallb]. rewrite Htr. reflexivity.
  - rewrite !forallb_app. rewrite mkdirs_benign, wr_benign by exact H. cbn [forallb]. rewrite Hop. reflexivity.
Qed.

Lemma caw_bext : forall w a f b, side a f = true -> bext w (caw w a f b).
Proof. intros. unfold caw. apply bext_emit. apply caw_benign. assumption. Qed.

Lemma try_store_bext : forall c w a, bext w (try_store c w a).
Proof.
  intros c w a. unfold try_store.
  assert (S : side a FLat = true) by (destruct a; reflexivity).
  destruct (file_at (w_fs w) a FLat) as [cur|].
  - destruct (lat_decodes cur); [apply bext_refl | apply caw_bext; exact S].
  - apply caw_bext; exact S.
Qed.

Lemma try_store_mem : forall c w a, w_mem (try_store c w a) = w_mem w.
Proof.
  intros c w a. unfold try_store, caw, emit.
  destruct (file_at (w_fs w) a FLat) as [cur|]; [destruct (lat_decodes cur)|]; reflexivity.
Qed.

(* ---- the memory invariant ---- *)
Definition PI (c : cfg) (s : fs) (m : mem) : Prop :=
  (m_loaded m = Some ADl -> has_data s ADl = true) /\
  (m_loaded m = Some ACa -> has_data s ACa = true) /\
  (forall t, m_tor m = Some t -> m_loaded m <> None /\ length (t_st t) = npieces c) /\
  (forall t, m_tor m = Some t -> m_loaded m = Some ADl ->
      exists b, d_status (dl s) = Some b /\ length b = npieces c /\ t_st t = deser_status b) /\
  (forall t, m_tor m = Some t -> t_committed t = true -> m_loaded m = Some ACa).

Lemma PI_core : forall c s s' m, core s = core s' -> PI c s m -> PI c s' m.
Proof.
  intros c s s' m H [P1 [P2 [P3 [P4 P5]]]].
  pose proof (has_data_core s s' ADl H) as HD. pose proof (has_data_core s s' ACa H) as HC.
  unfold core in H. inversion H as [[H1 H2 H3]].
  repeat split; intros; try (rewrite <- ?HD, <- ?HC; auto; fail).
  - apply (P3 t); assumption.
  - apply (P3 t); assumption.
  - rewrite <- H2. apply (P4 t); assumption.
  - apply (P5 t); assumption.
Qed.

Definition inv (c : cfg) (w : W) : Prop := DIb c (w_fs w) = true /\ PI c (w_fs w) (w_mem w).

Lemma inv_bext : forall c w w', inv c w -> bext w w' -> w_mem w' = w_mem w -> inv c w'.
Proof.
  intros c w w' [D P] B M. pose proof (bext_core w w' B) as Co. split.
  - rewrite (DIb_core c _ (w_fs w) Co). exact D.
  - rewrite M. apply (PI_core c (w_fs w)); [symmetry; exact Co | exact P].
Qed.

(* ensure_loaded *)
Lemma filter_head_in : forall {A} (p : A -> bool) l a t, filter p l = a :: t -> p a = true /\ In a l.
Proof.
  intros A p l a t H. assert (I : In a (filter p l)) by (rewrite H; left; reflexivity).
  apply filter_In in I. tauto.
Qed.

Lemma ensure_loaded_spec : forall c w states, inv c w ->
  let w' := ensure_loaded c w states in
  bext w w' /\ inv c w' /\ m_tor (w_mem w') = m_tor (w_mem w) /\
  (m_loaded (w_mem w) <> None -> w_mem w' = w_mem w) /\
  (m_loaded (w_mem w) = None ->
     (m_loaded (w_mem w') = None /\ forall a, In a states -> has_data (w_fs w) a = false) \/
     (exists a, m_loaded (w_mem w') = Some a /\ In a states)).
Proof.
  intros c w states I. unfold ensure_loaded.
  destruct (m_loaded (w_mem w)) eqn:L.
  - cbv zeta. split; [apply bext_refl|]. split; [exact I|]. split; [reflexivity|].
    split; [intros _; reflexivity|]. intro X; discriminate X.
  - destruct (filter (has_data (w_fs w)) states) as [|a t] eqn:F.
    + cbv zeta. split; [apply bext_refl|]. split; [exact I|]. split; [reflexivity|].
      split; [intros _; reflexivity|].
      intros _. left. split; [exact L|]. intros a Ha.
      destruct (has_data (w_fs w) a) eqn:E; [|reflexivity].
      assert (In a (filter (has_data (w_fs w)) states)) by (apply filter_In; tauto).
      rewrite F in H. contradiction.
    + apply filter_head_in in F. destruct F as [F1 F2].
      pose proof (try_store_bext c w a) as B. pose proof (try_store_mem c w a) as M.
      assert (Co : core (w_fs (try_store c w a)) = core (w_fs w)) by (apply bext_core; exact B).
      cbv zeta. split; [apply bext_set_mem; exact B|].
      split.
      { destruct I as [D [P1 [P2 [P3 [P4 P5]]]]]. split.
        - simpl. rewrite (DIb_core c _ (w_fs w) Co). exact D.
        - unfold set_loaded, set_mem. simpl. rewrite M.
          assert (T : m_tor (w_mem w) = None).
          { destruct (m_tor (w_mem w)) eqn:T; [|reflexivity]. destruct (P3 t0 eq_refl) as [X _]. congruence. }
          rewrite T. unfold PI. simpl.
          split. { intro H. inversion H; subst. rewrite (has_data_core _ _ ADl Co). exact F1. }
          split. { intro H. inversion H; subst. rewrite (has_data_core _ _ ACa Co). exact F1. }
          split. { intros t0 H. discriminate H. }
          split. { intros t0 H. discriminate H. }
          intros t0 H. discriminate H. }
      split. { unfold set_loaded, set_mem. simpl. rewrite M. reflexivity. }
      split. { intro X. exfalso. apply X. reflexivity. }
      intros _. right. exists a. split; [reflexivity | exact F2].
Qed.

(* lock_helper *)
Lemma in_states_In : forall a l, in_states a l = true <-> In a l.
Proof.
  intros a l. unfold in_states. rewrite existsb_exists. split.
  - intros [x [Hx E]]. destruct a, x; simpl in E; try discriminate; exact Hx.
  - intro H. exists a. split; [exact H|]. destruct a; reflexivity.
Qed.

Lemma lock_helper_spec : forall c w states w' r, inv c w -> lock_helper c w states = (w', r) ->
  bext w w' /\ inv c w' /\ m_tor (w_mem w') = m_tor (w_mem w) /\
  (m_loaded (w_mem w) <> None -> w_mem w' = w_mem w) /\
  match r with
  | LOk a => m_loaded (w_mem w') = Some a /\ In a states
  | LState a => m_loaded (w_mem w') = Some a /\ ~ In a states
  | LNotExist => m_loaded (w_mem w') = None /\ m_loaded (w_mem w) = None /\ forall a, In a states -> has_data (w_fs w') a = false
  end.
Proof.
  intros c w states w' r I H. unfold lock_helper in H.
  destruct (ensure_loaded_spec c w states I) as [B [I' [T [K E]]]].
  set (w1 := ensure_loaded c w states) in *.
  destruct (m_loaded (w_mem w1)) as [a|] eqn:L.
  - destruct (in_states a states) eqn:S; inversion H; subst;
      (split; [exact B|]; split; [exact I'|]; split; [exact T|]; split; [exact K|]; split; [exact L|]).
    + apply in_states_In. exact S.
    + intro X. apply in_states_In in X. congruence.
  - inversion H; subst.
    split; [exact B|]. split; [exact I'|]. split; [exact T|]. split; [exact K|]. split; [exact L|].
    destruct (m_loaded (w_mem w)) eqn:L0.
    { rewrite K in L by congruence. congruence. }
    split; [reflexivity|].
    destruct (E eq_refl) as [[_ N]|[a [X _]]]; [|congruence].
    intros a Ha. rewrite (has_data_core _ (w_fs w) a); [apply N; exact Ha|]. apply bext_core. exact B.
Qed.
