(* C12 — proofs.  The slice-level models of BufferReadWriter, memory.File and bufferFileReader
   are simulated by the operating-system file specification PosixFile. *)
From Coq Require Import List NArith ZArith Bool Lia Arith.
From K.Model Require Import C12.
Import ListNotations.

(* ---------- list facts ---------- *)
Lemma zeros_length n : length (zeros n) = n.
Proof. apply repeat_length. Qed.

Lemma zeros_app n m : zeros (n + m) = zeros n ++ zeros m.
Proof. apply repeat_app. Qed.

Lemma firstn_zeros n m : firstn n (zeros m) = zeros (Nat.min n m).
Proof.
  revert m. induction n as [|n IH]; intros [|m]; cbn; try reflexivity.
  f_equal. apply IH.
Qed.

Lemma skipn_zeros n m : skipn n (zeros m) = zeros (m - n).
Proof.
  revert m. induction n as [|n IH]; intros [|m]; cbn; try reflexivity.
  apply IH.
Qed.

Lemma zeros_eq n m : n = m -> zeros n = zeros m.
Proof. intros ->. reflexivity. Qed.

Lemma firstn_app_exact {A} (l1 l2 : list A) : firstn (length l1) (l1 ++ l2) = l1.
Proof.
  rewrite firstn_app, firstn_all, Nat.sub_diag. cbn. apply app_nil_r.
Qed.

Lemma zlen_app {A} (a b : list A) : zlen (a ++ b) = (zlen a + zlen b)%Z.
Proof. unfold zlen. rewrite app_length. lia. Qed.

Lemma zlen_nonneg {A} (a : list A) : (0 <= zlen a)%Z.
Proof. unfold zlen. lia. Qed.

(* ---------- splice: overwrite inside a list ---------- *)
Definition splice (a : list N) (pos : nat) (p : list N) : list N :=
  firstn pos a ++ p ++ skipn (pos + length p) a.

Lemma splice_length a pos p : pos + length p <= length a -> length (splice a pos p) = length a.
Proof.
  intros H. unfold splice. rewrite !app_length, firstn_length, skipn_length. lia.
Qed.

(* the file specification's pwrite is "extend with zeros, then overwrite" *)
Lemma pwrite_splice d p off : p <> [] ->
  pwrite d p off = splice (d ++ zeros (off + length p - length d)) off p.
Proof.
  intros Hp. unfold pwrite, splice. destruct p as [|x p']; [congruence|].
  set (p := x :: p'). f_equal; [|f_equal].
  - rewrite !firstn_app, !firstn_zeros. f_equal. apply zeros_eq. lia.
  - rewrite skipn_app, skipn_zeros.
    replace (off + length p - length d - (off + length p - length d)) with 0 by lia.
    cbn [zeros repeat]. rewrite app_nil_r. reflexivity.
Qed.

Lemma pwrite_length d p off : p <> [] ->
  length (pwrite d p off) = Nat.max (length d) (off + length p).
Proof.
  intros Hp. rewrite pwrite_splice by exact Hp. rewrite splice_length.
  - rewrite app_length, zeros_length. lia.
  - rewrite app_length, zeros_length. lia.
Qed.

Lemma pwrite_nil d off : pwrite d [] off = d.
Proof. reflexivity. Qed.

Lemma pread_length d n off : length (pread d n off) = Nat.min n (length d - off).
Proof. unfold pread. rewrite firstn_length, skipn_length. reflexivity. Qed.

Lemma pread_past_end d n off : length d <= off -> pread d n off = [].
Proof. intros H. unfold pread. rewrite skipn_all2 by exact H. apply firstn_nil. Qed.

(* ---------- pointwise characterisation of the specification (sanity of PosixFile) ---------- *)
Lemma nth_splice a pos p i : pos + length p <= length a ->
  nth i (splice a pos p) 0%N =
  if (pos <=? i) && (i <? pos + length p) then nth (i - pos) p 0%N else nth i a 0%N.
Proof.
  intros H. unfold splice.
  destruct (Nat.leb_spec pos i) as [Hpi|Hpi]; cbn [andb].
  - rewrite app_nth2; rewrite firstn_length, Nat.min_l by lia; [|lia].
    destruct (Nat.ltb_spec i (pos + length p)) as [Hi|Hi].
    + rewrite app_nth1 by lia. reflexivity.
    + rewrite app_nth2 by lia.
      rewrite <- (firstn_skipn (pos + length p) a) at 2.
      rewrite (app_nth2 (firstn _ a)); rewrite firstn_length, Nat.min_l by lia; [|lia].
      f_equal. lia.
  - rewrite app_nth1 by (rewrite firstn_length; lia).
    rewrite <- (firstn_skipn pos a) at 2. rewrite app_nth1 by (rewrite firstn_length; lia).
    reflexivity.
Qed.

Lemma nth_zeros i n : nth i (zeros n) 0%N = 0%N.
Proof.
  revert i. induction n as [|n IH]; intros [|i]; cbn; try reflexivity. apply IH.
Qed.

Lemma nth_pad d n i : nth i (d ++ zeros n) 0%N = nth i d 0%N.
Proof.
  destruct (Nat.lt_ge_cases i (length d)) as [H|H].
  - apply app_nth1. exact H.
  - rewrite app_nth2 by exact H. rewrite nth_zeros. symmetry. apply nth_overflow. exact H.
Qed.

(* after pwrite: the written range holds p, every other position below the new size holds what it
   held before, and positions that did not exist before (the gap) hold zero *)
Lemma pwrite_nth d p off i : p <> [] ->
  nth i (pwrite d p off) 0%N =
  if (off <=? i) && (i <? off + length p) then nth (i - off) p 0%N
  else if i <? length d then nth i d 0%N else 0%N.
Proof.
  intros Hp. rewrite pwrite_splice by exact Hp.
  rewrite nth_splice by (rewrite app_length, zeros_length; lia).
  destruct ((off <=? i) && (i <? off + length p)); [reflexivity|].
  rewrite nth_pad. destruct (Nat.ltb_spec i (length d)) as [H|H]; [reflexivity|].
  apply nth_overflow. exact H.
Qed.

Lemma pread_pwrite d p off : pread (pwrite d p off) (length p) off = p.
Proof.
  destruct p as [|x p']; [reflexivity|]. set (p := x :: p').
  rewrite pwrite_splice by discriminate. unfold pread, splice.
  rewrite skipn_app.
  rewrite firstn_length, Nat.min_l by (rewrite app_length, zeros_length; lia).
  rewrite Nat.sub_diag. cbn [skipn].
  rewrite (skipn_all2 (firstn off _)) by (rewrite firstn_length; lia).
  cbn [app]. apply firstn_app_exact.
Qed.

(* ---------- slices: representation relation ---------- *)
(* the visible bytes are a, and everything between len and cap is zero *)
Definition rep (s : slice) (a : list N) : Prop :=
  exists t, arr s = a ++ zeros t /\ len s = length a.

Lemma rep_bytes s a : rep s a -> bytes_of s = a.
Proof. intros [t [Ha Hl]]. unfold bytes_of. rewrite Ha, Hl. apply firstn_app_exact. Qed.

Lemma rep_len s a : rep s a -> len s = length a.
Proof. intros [t [_ Hl]]. exact Hl. Qed.

Lemma rep_make c : rep (make_slice 0 c) [].
Proof. exists c. split; reflexivity. Qed.

Lemma rep_grow s a e : rep s a -> rep (grow s e) (a ++ zeros (e - length a)).
Proof.
  intros Hr. pose proof (rep_bytes _ _ Hr) as Hb. destruct Hr as [t [Ha Hl]].
  unfold grow. destruct (Nat.ltb_spec (len s) e) as [Hlt|Hge].
  - destruct (Nat.ltb_spec (cap_of s) e) as [Hc|Hc].
    + exists 0. cbn [arr len zeros repeat]. unfold bytes_of in Hb. rewrite Hb, Hl, app_nil_r.
      split; [reflexivity|]. rewrite app_length, zeros_length. lia.
    + exists (t - (e - length a)). cbn [arr len]. unfold cap_of in Hc.
      rewrite Ha, app_length, zeros_length in Hc. split.
      * rewrite Ha, <- app_assoc, <- zeros_app. f_equal. apply zeros_eq. lia.
      * rewrite app_length, zeros_length. lia.
  - exists t. replace (e - length a) with 0 by lia. cbn [zeros repeat]. rewrite app_nil_r.
    split; assumption.
Qed.

Lemma rep_copy_at s a pos p : rep s a -> pos + length p <= length a ->
  rep (fst (copy_at s pos p)) (splice a pos p) /\ snd (copy_at s pos p) = length p.
Proof.
  intros [t [Ha Hl]] Hle. unfold copy_at. cbn [fst snd].
  rewrite (firstn_all2 p) by lia. split; [|reflexivity].
  exists t. cbn [arr len]. split.
  - rewrite Ha. unfold splice. rewrite firstn_app, skipn_app.
    replace (pos - length a) with 0 by lia.
    replace (pos + length p - length a) with 0 by lia.
    cbn [firstn skipn]. rewrite app_nil_r, <- !app_assoc. reflexivity.
  - rewrite splice_length by exact Hle. exact Hl.
Qed.

(* one positional write into a slice: grow, then copy *)
Lemma rep_write s a p pos : rep s a -> p <> [] ->
  rep (fst (copy_at (grow s (pos + length p)) pos p)) (pwrite a p pos) /\
  snd (copy_at (grow s (pos + length p)) pos p) = length p.
Proof.
  intros Hr Hp. rewrite pwrite_splice by exact Hp.
  apply rep_copy_at.
  - apply rep_grow. exact Hr.
  - rewrite app_length, zeros_length. lia.
Qed.

(* a zero-length write at a position inside the extent (memory.File.Write has no special case) *)
Lemma rep_write_nil s a pos : rep s a -> pos <= length a ->
  rep (fst (copy_at (grow s (pos + 0)) pos [])) a /\ snd (copy_at (grow s (pos + 0)) pos []) = 0.
Proof.
  intros Hr Hle.
  assert (Hg : grow s (pos + 0) = s).
  { unfold grow. rewrite (rep_len _ _ Hr). destruct (Nat.ltb_spec (length a) (pos + 0)); [lia|reflexivity]. }
  rewrite Hg. destruct (rep_copy_at s a pos [] Hr) as [H1 H2]; [cbn; lia|].
  split; [|exact H2].
  unfold splice in H1. cbn [length app] in H1. rewrite Nat.add_0_r, firstn_skipn in H1. exact H1.
Qed.

(* ---------- BufferReadWriter simulates the file ---------- *)
Definition Rb (b : bst) (p : pst) : Prop :=
  rep (b_buf b) (f_data p) /\ b_off b = f_pos p /\ (0 <= f_pos p)%Z.

Lemma Rb_init c : Rb (binit c) (pinit []).
Proof. split; [apply rep_make|]. split; [reflexivity|]. cbn. lia. Qed.

Ltac use_rep Hr :=
  pose proof (rep_bytes _ _ Hr) as Hbytes; pose proof (rep_len _ _ Hr) as Hlen.

Lemma read_common (d : list N) (n : nat) (off : Z) :
  (0 <= off)%Z -> (off >= zlen d)%Z -> pread d n (Z.to_nat off) = [].
Proof. intros H0 H. apply pread_past_end. unfold zlen in H. lia. Qed.

(* closes goals of the shape  R state state' /\ out = out'  once the data part is known *)
Ltac fin_arith := unfold zlen in *; cbn [length Z.of_nat] in *; try lia.
Ltac fin_out := f_equal; fin_arith; try reflexivity.

Lemma bstep_sim b p o : Rb b p ->
  Rb (fst (bstep true b o)) (fst (pstep p o)) /\ snd (bstep true b o) = snd (pstep p o).
Proof.
  intros [Hr [Ho H0]]. use_rep Hr.
  destruct b as [buf off]. destruct p as [d pos]. cbn [b_buf b_off f_data f_pos] in *. subst off.
  assert (Hsame : Rb (mkb buf pos) (mkp d pos)) by (split; [exact Hr|split; [reflexivity|exact H0]]).
  destruct o as [w|w wo|n|n ro|so sw|]; unfold bstep, pstep, bout;
    cbn [b_buf b_off f_data f_pos andb].
  - (* Write *)
    destruct w as [|x w']; cbn [length Nat.eqb].
    + rewrite pwrite_nil. replace (pos + zlen (@nil N))%Z with pos by (fin_arith).
      cbn [fst snd b_buf b_off]. split; [exact Hsame|]. fin_out.
    + remember (x :: w') as w eqn:Ew. unfold aws_write_at.
      destruct (rep_write buf d w (Z.to_nat pos) Hr) as [H1 H2]; [subst w; discriminate|].
      cbn [fst snd b_buf b_off]. split.
      * split; [exact H1|]. split; [reflexivity|]. cbn [f_pos]. fin_arith.
      * rewrite (rep_len _ _ H1). fin_out.
  - (* WriteAt *)
    destruct (Z.ltb_spec wo 0) as [Hneg|Hnn].
    + cbn [fst snd b_buf b_off]. split; [exact Hsame|]. fin_out.
    + destruct w as [|x w']; cbn [length Nat.eqb].
      * rewrite pwrite_nil. cbn [fst snd b_buf b_off]. split; [exact Hsame|]. fin_out.
      * remember (x :: w') as w eqn:Ew. unfold aws_write_at.
        destruct (rep_write buf d w (Z.to_nat wo) Hr) as [H1 H2]; [subst w; discriminate|].
        cbn [fst snd b_buf b_off]. split.
        -- split; [exact H1|]. split; [reflexivity|exact H0].
        -- rewrite (rep_len _ _ H1). fin_out.
  - (* Read *)
    rewrite Hlen. fold (zlen d). destruct (Z.geb_spec pos (zlen d)) as [Hge|Hlt].
    + rewrite read_common by lia. replace (pos + zlen (@nil N))%Z with pos by (fin_arith).
      cbn [fst snd b_buf b_off]. split; [exact Hsame|]. fin_out.
    + unfold copy_out. rewrite Hbytes. fold (pread d (N.to_nat n) (Z.to_nat pos)).
      cbn [fst snd b_buf b_off]. split.
      * split; [exact Hr|]. split; [reflexivity|]. cbn [f_pos].
        pose proof (zlen_nonneg (pread d (N.to_nat n) (Z.to_nat pos))). lia.
      * reflexivity.
  - (* ReadAt *)
    destruct (Z.ltb_spec ro 0) as [Hneg|Hnn].
    + cbn [fst snd b_buf b_off]. split; [exact Hsame|]. fin_out.
    + rewrite Hlen. fold (zlen d). destruct (Z.geb_spec ro (zlen d)) as [Hge|Hlt].
      * rewrite read_common by lia. cbn [fst snd b_buf b_off]. split; [exact Hsame|]. fin_out.
      * unfold copy_out. rewrite Hbytes. fold (pread d (N.to_nat n) (Z.to_nat ro)).
        cbn [fst snd b_buf b_off]. split; [exact Hsame|]. reflexivity.
  - (* Seek *)
    rewrite Hlen. fold (zlen d). destruct (seek_target (zlen d) pos so sw) as [t|].
    + destruct (Z.ltb_spec t 0) as [Hneg|Hnn].
      * cbn [fst snd b_buf b_off]. split; [exact Hsame|]. fin_out.
      * cbn [fst snd b_buf b_off]. split.
        -- split; [exact Hr|]. split; [reflexivity|exact Hnn].
        -- fin_out.
    + cbn [fst snd b_buf b_off]. split; [exact Hsame|]. fin_out.
  - (* Size *)
    cbn [fst snd b_buf b_off]. split; [exact Hsame|]. fin_out.
Qed.

Lemma brun_sim ops : forall b p, Rb b p ->
  Rb (fst (brun true b ops)) (fst (prun p ops)) /\ snd (brun true b ops) = snd (prun p ops).
Proof.
  induction ops as [|o t IH]; intros b p HR; cbn [brun prun].
  - cbn [fst snd]. split; [exact HR|reflexivity].
  - destruct (bstep_sim b p o HR) as [HR1 Ho].
    destruct (bstep true b o) as [b1 r1]. destruct (pstep p o) as [p1 q1]. cbn [fst snd] in *.
    destruct (IH b1 p1 HR1) as [HR2 Hos].
    destruct (brun true b1 t) as [b2 rs]. destruct (prun p1 t) as [p2 qs]. cbn [fst snd] in *.
    split; [exact HR2|]. rewrite Ho, Hos. reflexivity.
Qed.

Theorem bufrw_eq_file_any_seek : forall cap ops,
  snd (brun true (binit cap) ops) = snd (prun (pinit []) ops).
Proof. intros cap ops. apply brun_sim. apply Rb_init. Qed.

Theorem bufrw_eq_file : forall cap ops, in_extent ops = true ->
  snd (brun true (binit cap) ops) = snd (prun (pinit []) ops).
Proof. intros cap ops _. apply bufrw_eq_file_any_seek. Qed.

Theorem bufrw_cap_irrelevant : forall c1 c2 ops,
  snd (brun true (binit c1) ops) = snd (brun true (binit c2) ops).
Proof. intros. rewrite !bufrw_eq_file_any_seek. reflexivity. Qed.

(* ---------- memory.File simulates the file while seeks stay inside the written extent ---------- *)
Definition Rm (m : mst) (p : pst) : Prop :=
  rep (m_buf m) (f_data p) /\ m_off m = f_pos p /\ (0 <= f_pos p <= zlen (f_data p))%Z.

Lemma Rm_init c : Rm (minit c) (pinit []).
Proof. split; [apply rep_make|]. split; [reflexivity|]. cbn. lia. Qed.

Lemma mstep_sim m p o : Rm m p -> op_in_extent p o = true ->
  Rm (fst (mstep true m o)) (fst (pstep p o)) /\ snd (mstep true m o) = snd (pstep p o).
Proof.
  intros [Hr [Ho H0]] Hext. use_rep Hr.
  destruct m as [buf off]. destruct p as [d pos]. cbn [m_buf m_off f_data f_pos] in *. subst off.
  assert (Hsame : Rm (mkm buf pos) (mkp d pos)) by (split; [exact Hr|split; [reflexivity|exact H0]]).
  destruct o as [w|w wo|n|n ro|so sw|]; unfold mstep, pstep, mout;
    cbn [m_buf m_off f_data f_pos andb].
  - (* Write *)
    unfold mem_write_at. destruct w as [|x w'].
    + cbn [length]. destruct (rep_write_nil buf d (Z.to_nat pos) Hr) as [H1 H2]; [fin_arith|].
      destruct (copy_at (grow buf (Z.to_nat pos + 0)) (Z.to_nat pos) []) as [s2 k]. cbn [fst snd] in *.
      subst k. rewrite pwrite_nil. replace (pos + zlen (@nil N))%Z with pos by fin_arith.
      cbn [Z.of_nat]. rewrite Z.add_0_r. cbn [fst snd m_buf m_off]. split.
      * split; [exact H1|]. split; [reflexivity|exact H0].
      * rewrite (rep_len _ _ H1). fin_out.
    + remember (x :: w') as w eqn:Ew.
      assert (Hw : w <> []) by (subst w; discriminate).
      destruct (rep_write buf d w (Z.to_nat pos) Hr Hw) as [H1 H2].
      pose proof (pwrite_length d w (Z.to_nat pos) Hw) as HL.
      destruct (copy_at (grow buf (Z.to_nat pos + length w)) (Z.to_nat pos) w) as [s2 k]. cbn [fst snd] in *.
      subst k. cbn [fst snd m_buf m_off]. split.
      * split; [exact H1|]. split; [reflexivity|]. cbn [f_pos f_data]. fin_arith.
      * rewrite (rep_len _ _ H1). fin_out.
  - (* WriteAt *)
    destruct (Z.ltb_spec wo 0) as [Hneg|Hnn].
    + cbn [fst snd m_buf m_off]. split; [exact Hsame|]. fin_out.
    + destruct w as [|x w']; cbn [length Nat.eqb].
      * rewrite pwrite_nil. cbn [fst snd m_buf m_off]. split; [exact Hsame|]. fin_out.
      * remember (x :: w') as w eqn:Ew. unfold mem_write_at.
        assert (Hw : w <> []) by (subst w; discriminate).
        destruct (rep_write buf d w (Z.to_nat wo) Hr Hw) as [H1 H2].
        pose proof (pwrite_length d w (Z.to_nat wo) Hw) as HL.
        destruct (copy_at (grow buf (Z.to_nat wo + length w)) (Z.to_nat wo) w) as [s2 k]. cbn [fst snd] in *.
        subst k. cbn [fst snd m_buf m_off]. split.
        -- split; [exact H1|]. split; [reflexivity|]. cbn [f_pos f_data]. fin_arith.
        -- rewrite (rep_len _ _ H1). fin_out.
  - (* Read *)
    destruct (N.eqb_spec n 0) as [Hn0|Hn0].
    + subst n. unfold pread. cbn [N.to_nat firstn]. replace (pos + zlen (@nil N))%Z with pos by fin_arith.
      cbn [fst snd m_buf m_off]. split; [exact Hsame|]. fin_out.
    + rewrite Hlen. fold (zlen d). destruct (Z.geb_spec pos (zlen d)) as [Hge|Hlt].
      * rewrite read_common by lia. replace (pos + zlen (@nil N))%Z with pos by fin_arith.
        cbn [fst snd m_buf m_off]. split; [exact Hsame|]. fin_out.
      * unfold copy_out. rewrite Hbytes. fold (pread d (N.to_nat n) (Z.to_nat pos)).
        pose proof (pread_length d (N.to_nat n) (Z.to_nat pos)) as HL.
        cbn [fst snd m_buf m_off]. split; [|reflexivity].
        split; [exact Hr|]. split; [reflexivity|]. cbn [f_pos f_data]. fin_arith.
  - (* ReadAt *)
    destruct (N.eqb_spec n 0) as [Hn0|Hn0].
    + subst n. unfold pread. cbn [N.to_nat firstn]. destruct (ro <? 0)%Z;
        cbn [fst snd m_buf m_off]; (split; [exact Hsame|]); fin_out.
    + destruct (Z.ltb_spec ro 0) as [Hneg|Hnn].
      * cbn [fst snd m_buf m_off]. split; [exact Hsame|]. fin_out.
      * rewrite Hlen. fold (zlen d). destruct (Z.geb_spec ro (zlen d)) as [Hge|Hlt].
        -- rewrite read_common by lia. cbn [fst snd m_buf m_off]. split; [exact Hsame|]. fin_out.
        -- unfold copy_out. rewrite Hbytes. fold (pread d (N.to_nat n) (Z.to_nat ro)).
           cbn [fst snd m_buf m_off]. split; [exact Hsame|]. reflexivity.
  - (* Seek: inside the extent the bound check of memory.File never fires *)
    unfold op_in_extent in Hext. cbn [f_data f_pos] in Hext.
    rewrite Hlen. fold (zlen d). destruct (seek_target (zlen d) pos so sw) as [t|]; [|discriminate].
    apply andb_true_iff in Hext. destruct Hext as [Ht0 Ht1].
    apply Z.leb_le in Ht0. apply Z.leb_le in Ht1.
    destruct (Z.ltb_spec t 0) as [Hneg|Hnn]; [lia|].
    destruct (Z.gtb_spec t (zlen d)) as [Hgt|Hle]; [lia|]. cbn [orb].
    cbn [fst snd m_buf m_off]. split.
    + split; [exact Hr|]. split; [reflexivity|]. cbn [f_pos f_data]. lia.
    + fin_out.
  - (* Size *)
    cbn [fst snd m_buf m_off]. split; [exact Hsame|]. fin_out.
Qed.

Lemma mrun_sim ops : forall m p, Rm m p -> in_extent_from p ops = true ->
  Rm (fst (mrun true m ops)) (fst (prun p ops)) /\ snd (mrun true m ops) = snd (prun p ops).
Proof.
  induction ops as [|o t IH]; intros m p HR Hext; cbn [mrun prun].
  - cbn [fst snd]. split; [exact HR|reflexivity].
  - cbn [in_extent_from] in Hext. apply andb_true_iff in Hext. destruct Hext as [He1 He2].
    destruct (mstep_sim m p o HR He1) as [HR1 Ho].
    destruct (mstep true m o) as [m1 r1]. destruct (pstep p o) as [p1 q1]. cbn [fst snd] in *.
    destruct (IH m1 p1 HR1 He2) as [HR2 Hos].
    destruct (mrun true m1 t) as [m2 rs]. destruct (prun p1 t) as [p2 qs]. cbn [fst snd] in *.
    split; [exact HR2|]. rewrite Ho, Hos. reflexivity.
Qed.

Theorem memfile_eq_file : forall cap ops, in_extent ops = true ->
  snd (mrun true (minit cap) ops) = snd (prun (pinit []) ops).
Proof. intros cap ops H. apply mrun_sim; [apply Rm_init|exact H]. Qed.

(* inside the scope the position of a memory.File never leaves [0, size] *)
Theorem memfile_offset_in_extent : forall cap ops, in_extent ops = true ->
  let m := fst (mrun true (minit cap) ops) in
  (0 <= m_off m <= Z.of_nat (len (m_buf m)))%Z.
Proof.
  intros cap ops H m. destruct (mrun_sim ops (minit cap) (pinit []) (Rm_init cap) H) as [[Hr [Ho Hb]] _].
  fold m in Hr, Ho. rewrite Ho, (rep_len _ _ Hr). exact Hb.
Qed.

(* ---------- bufferFileReader (bytes.Reader) simulates a read-only file ---------- *)
Definition Rr (r : rst) (p : pst) : Prop :=
  r_s r = f_data p /\ r_i r = f_pos p /\ (0 <= f_pos p)%Z.

Lemma rstep_sim r p o : Rr r p -> is_read_op o = true ->
  Rr (fst (rstep r o)) (fst (pstep p o)) /\ snd (rstep r o) = snd (pstep p o).
Proof.
  intros [Hs [Hi H0]] Hro.
  destruct r as [d0 i]. destruct p as [d pos]. cbn [r_s r_i f_data f_pos] in *. subst d0 i.
  assert (Hsame : Rr (mkr d pos) (mkp d pos)) by (split; [reflexivity|split; [reflexivity|exact H0]]).
  destruct o as [w|w wo|n|n ro|so sw|]; try discriminate; unfold rstep, pstep, rout;
    cbn [r_s r_i f_data f_pos].
  - destruct (Z.geb_spec pos (zlen d)) as [Hge|Hlt].
    + rewrite read_common by lia. replace (pos + zlen (@nil N))%Z with pos by fin_arith.
      cbn [fst snd r_s r_i]. split; [exact Hsame|]. fin_out.
    + unfold copy_out. fold (pread d (N.to_nat n) (Z.to_nat pos)).
      cbn [fst snd r_s r_i]. split; [|reflexivity].
      split; [reflexivity|]. split; [reflexivity|]. cbn [f_pos].
      pose proof (zlen_nonneg (pread d (N.to_nat n) (Z.to_nat pos))). lia.
  - destruct (Z.ltb_spec ro 0) as [Hneg|Hnn].
    + cbn [fst snd r_s r_i]. split; [exact Hsame|]. fin_out.
    + destruct (Z.geb_spec ro (zlen d)) as [Hge|Hlt].
      * rewrite read_common by lia. cbn [fst snd r_s r_i]. split; [exact Hsame|]. fin_out.
      * unfold copy_out. fold (pread d (N.to_nat n) (Z.to_nat ro)).
        cbn [fst snd r_s r_i]. split; [exact Hsame|]. reflexivity.
  - destruct (seek_target (zlen d) pos so sw) as [t|].
    + destruct (Z.ltb_spec t 0) as [Hneg|Hnn].
      * cbn [fst snd r_s r_i]. split; [exact Hsame|]. fin_out.
      * cbn [fst snd r_s r_i]. split; [|fin_out].
        split; [reflexivity|]. split; [reflexivity|exact Hnn].
    + cbn [fst snd r_s r_i]. split; [exact Hsame|]. fin_out.
  - cbn [fst snd r_s r_i]. split; [exact Hsame|]. fin_out.
Qed.

Lemma rrun_sim ops : forall r p, Rr r p -> readonly ops = true ->
  snd (rrun r ops) = snd (prun p ops).
Proof.
  induction ops as [|o t IH]; intros r p HR Hro; cbn [rrun prun]; [reflexivity|].
  cbn [readonly forallb] in Hro. apply andb_true_iff in Hro. destruct Hro as [H1 H2].
  destruct (rstep_sim r p o HR H1) as [HR1 Ho].
  destruct (rstep r o) as [r1 x1]. destruct (pstep p o) as [p1 q1]. cbn [fst snd] in *.
  pose proof (IH r1 p1 HR1 H2) as Hos.
  destruct (rrun r1 t) as [r2 rs]. destruct (prun p1 t) as [p2 qs]. cbn [fst snd] in *.
  rewrite Ho, Hos. reflexivity.
Qed.

Theorem bufreader_eq_file : forall d ops, readonly ops = true ->
  snd (rrun (rinit d) ops) = snd (prun (pinit d) ops).
Proof.
  intros d ops H. apply rrun_sim; [|exact H]. split; [reflexivity|]. split; [reflexivity|]. cbn. lia.
Qed.

(* ---------- prefixes, and the executable form of the property ---------- *)
Lemma prun_firstn k : forall s ops, snd (prun s (firstn k ops)) = firstn k (snd (prun s ops)).
Proof.
  induction k as [|k IH]; intros s ops; [reflexivity|].
  destruct ops as [|o t]; [reflexivity|].
  cbn [firstn prun]. destruct (pstep s o) as [s1 r]. specialize (IH s1 t).
  destruct (prun s1 (firstn k t)) as [a1 l1]. destruct (prun s1 t) as [a2 l2].
  cbn [snd firstn] in *. f_equal. exact IH.
Qed.

Lemma mrun_firstn fx k : forall s ops, snd (mrun fx s (firstn k ops)) = firstn k (snd (mrun fx s ops)).
Proof.
  induction k as [|k IH]; intros s ops; [reflexivity|].
  destruct ops as [|o t]; [reflexivity|].
  cbn [firstn mrun]. destruct (mstep fx s o) as [s1 r]. specialize (IH s1 t).
  destruct (mrun fx s1 (firstn k t)) as [a1 l1]. destruct (mrun fx s1 t) as [a2 l2].
  cbn [snd firstn] in *. f_equal. exact IH.
Qed.

Lemma scope_in_extent : forall ops s, in_extent_from s (firstn (scope_from s ops) ops) = true.
Proof.
  induction ops as [|o t IH]; intros s; cbn [scope_from]; [reflexivity|].
  destruct (op_in_extent s o) eqn:E; [|reflexivity].
  cbn [firstn in_extent_from]. rewrite E. apply IH.
Qed.

Lemma scope_full : forall ops s, in_extent_from s ops = true -> scope_from s ops = length ops.
Proof.
  induction ops as [|o t IH]; intros s H; cbn [scope_from length]; [reflexivity|].
  cbn [in_extent_from] in H. apply andb_true_iff in H. destruct H as [H1 H2].
  rewrite H1. f_equal. apply IH. exact H2.
Qed.

Lemma bytes_eqb_eq a : forall b, bytes_eqb a b = true <-> a = b.
Proof.
  induction a as [|x a IH]; intros [|y b]; cbn [bytes_eqb]; split; try congruence; try reflexivity.
  - intros H. apply andb_true_iff in H. destruct H as [H1 H2].
    apply N.eqb_eq in H1. apply IH in H2. congruence.
  - intros H. injection H as -> ->. rewrite N.eqb_refl. apply IH. reflexivity.
Qed.

Lemma out_eqb_eq a b : out_eqb a b = true <-> a = b.
Proof.
  destruct a as [r1 b1 o1 s1], b as [r2 b2 o2 s2]. unfold out_eqb. cbn [o_ret o_bytes o_off o_size].
  rewrite !andb_true_iff, !Z.eqb_eq, bytes_eqb_eq. split.
  - intros [[[-> ->] ->] ->]. reflexivity.
  - intros H. injection H as -> -> -> ->. repeat split.
Qed.

Lemma outs_eqb_eq a : forall b, outs_eqb a b = true <-> a = b.
Proof.
  induction a as [|x a IH]; intros [|y b]; cbn [outs_eqb]; split; try congruence; try reflexivity.
  - intros H. apply andb_true_iff in H. destruct H as [H1 H2].
    apply out_eqb_eq in H1. apply IH in H2. congruence.
  - intros H. injection H as -> ->. apply andb_true_iff. split; [apply out_eqb_eq|apply IH]; reflexivity.
Qed.

(* what a `true` of the oracle means *)
Theorem check_meaning : forall init ops mem osf,
  C12_check init ops mem osf = true <->
  firstn (scope_from (pinit init) ops) mem = firstn (scope_from (pinit init) ops) osf.
Proof. intros. unfold C12_check. apply outs_eqb_eq. Qed.

Theorem check_sound_bufrw : forall cap ops,
  C12_check [] ops (snd (brun true (binit cap) ops)) (snd (prun (pinit []) ops)) = true.
Proof. intros. apply check_meaning. rewrite bufrw_eq_file_any_seek. reflexivity. Qed.

Theorem check_sound_memfile : forall cap ops,
  C12_check [] ops (snd (mrun true (minit cap) ops)) (snd (prun (pinit []) ops)) = true.
Proof.
  intros. apply check_meaning. rewrite <- mrun_firstn, <- prun_firstn.
  apply mrun_sim; [apply Rm_init|apply scope_in_extent].
Qed.

Theorem check_sound_bufreader : forall d ops, readonly ops = true ->
  C12_check d ops (snd (rrun (rinit d) ops)) (snd (prun (pinit d) ops)) = true.
Proof. intros d ops H. apply check_meaning. rewrite bufreader_eq_file by exact H. reflexivity. Qed.

(* ---------- the code before the fix ---------- *)
Lemma bstep_prefix s o : is_nonempty_write o = true -> bstep false s o = bstep true s o.
Proof. destruct o as [[|x w]|[|x w] wo| | | |]; cbn; try discriminate; reflexivity. Qed.

Lemma mstep_prefix s o : is_nonempty_write o = true -> mstep false s o = mstep true s o.
Proof. destruct o as [[|x w]|[|x w] wo| | | |]; cbn; try discriminate; reflexivity. Qed.

Lemma brun_prefix ops : forall s, nonempty_writes ops = true -> brun false s ops = brun true s ops.
Proof.
  induction ops as [|o t IH]; intros s H; cbn [brun]; [reflexivity|].
  cbn [nonempty_writes forallb] in H. apply andb_true_iff in H. destruct H as [H1 H2].
  rewrite bstep_prefix by exact H1. destruct (bstep true s o) as [s1 r]. rewrite (IH s1 H2). reflexivity.
Qed.

Lemma mrun_prefix ops : forall s, nonempty_writes ops = true -> mrun false s ops = mrun true s ops.
Proof.
  induction ops as [|o t IH]; intros s H; cbn [mrun]; [reflexivity|].
  cbn [nonempty_writes forallb] in H. apply andb_true_iff in H. destruct H as [H1 H2].
  rewrite mstep_prefix by exact H1. destruct (mstep true s o) as [s1 r]. rewrite (IH s1 H2). reflexivity.
Qed.

Theorem prefix_bufrw_eq_file_partial : forall cap ops, nonempty_writes ops = true ->
  snd (brun false (binit cap) ops) = snd (prun (pinit []) ops).
Proof. intros cap ops H. rewrite brun_prefix by exact H. apply bufrw_eq_file_any_seek. Qed.

Theorem prefix_memfile_eq_file_partial : forall cap ops,
  nonempty_writes ops = true -> in_extent ops = true ->
  snd (mrun false (minit cap) ops) = snd (prun (pinit []) ops).
Proof. intros cap ops H He. rewrite mrun_prefix by exact H. apply memfile_eq_file. exact He. Qed.

Definition zero_len_witness : list op := [WriteAt [] 5; Size; ReadAt 8 0].

Theorem zero_len_write_refuted :
  exists cap ops, in_extent ops = true /\
    snd (brun false (binit cap) ops) <> snd (prun (pinit []) ops) /\
    snd (mrun false (minit cap) ops) <> snd (prun (pinit []) ops).
Proof.
  exists 0, zero_len_witness. split; [reflexivity|]. split; vm_compute; discriminate.
Qed.

Definition seek_outside_witness : list op := [Seek 5 SeekStart; Write [7%N]; Size; ReadAt 9 0].

(* the hypothesis on seeks is needed for memory.File: it refuses positions past the end *)
Theorem memfile_seek_outside_refuted :
  exists cap ops, in_extent ops = false /\
    snd (mrun true (minit cap) ops) <> snd (prun (pinit []) ops).
Proof.
  exists 4, seek_outside_witness. split; [reflexivity|]. vm_compute. discriminate.
Qed.

(* ---------- final states, not only outputs ---------- *)
Theorem bufrw_state_eq_file : forall cap ops,
  let b := fst (brun true (binit cap) ops) in let p := fst (prun (pinit []) ops) in
  bytes_of (b_buf b) = f_data p /\ b_off b = f_pos p /\
  exists t, arr (b_buf b) = f_data p ++ zeros t.
Proof.
  intros cap ops b p. destruct (brun_sim ops (binit cap) (pinit []) (Rb_init cap)) as [[Hr [Ho _]] _].
  fold b p in Hr, Ho. split; [apply rep_bytes; exact Hr|]. split; [exact Ho|].
  destruct Hr as [t [Ha _]]. exists t. exact Ha.
Qed.

Theorem memfile_state_eq_file : forall cap ops, in_extent ops = true ->
  let m := fst (mrun true (minit cap) ops) in let p := fst (prun (pinit []) ops) in
  bytes_of (m_buf m) = f_data p /\ m_off m = f_pos p /\
  exists t, arr (m_buf m) = f_data p ++ zeros t.
Proof.
  intros cap ops H m p. destruct (mrun_sim ops (minit cap) (pinit []) (Rm_init cap) H) as [[Hr [Ho _]] _].
  fold m p in Hr, Ho. split; [apply rep_bytes; exact Hr|]. split; [exact Ho|].
  destruct Hr as [t [Ha _]]. exists t. exact Ha.
Qed.

Theorem memfile_cap_irrelevant : forall c1 c2 ops, in_extent ops = true ->
  snd (mrun true (minit c1) ops) = snd (mrun true (minit c2) ops).
Proof. intros c1 c2 ops H. rewrite !memfile_eq_file by exact H. reflexivity. Qed.

(* ---------- two handles on one memory.File blob ---------- *)
Lemma pstep_size_mono p o : (zlen (f_data p) <= zlen (f_data (fst (pstep p o))))%Z.
Proof.
  destruct p as [d pos]. destruct o as [w|w wo|n|n ro|so sw|]; unfold pstep; cbn [f_data f_pos].
  - cbn [fst f_data]. destruct w as [|x w']; [rewrite pwrite_nil; lia|].
    unfold zlen. rewrite pwrite_length by discriminate. lia.
  - destruct (wo <? 0)%Z; cbn [fst f_data]; [lia|].
    destruct w as [|x w']; [rewrite pwrite_nil; lia|].
    unfold zlen. rewrite pwrite_length by discriminate. lia.
  - cbn [fst f_data]. lia.
  - destruct (ro <? 0)%Z; cbn [fst f_data]; lia.
  - destruct (seek_target (zlen d) pos so sw) as [t|]; [destruct (t <? 0)%Z|]; cbn [fst f_data]; lia.
  - cbn [fst f_data]. lia.
Qed.

Definition Rm2 (m : mst2) (p : pst2) : Prop :=
  rep (m2_buf m) (f2_data p) /\ m2_off0 m = f2_pos0 p /\ m2_off1 m = f2_pos1 p /\
  (0 <= f2_pos0 p <= zlen (f2_data p))%Z /\ (0 <= f2_pos1 p <= zlen (f2_data p))%Z.

Lemma Rm2_init c : Rm2 (minit2 c) pinit2.
Proof. split; [apply rep_make|]. cbn. repeat split; lia. Qed.

Lemma mstep2_sim m p ho : Rm2 m p -> op_in_extent2 p ho = true ->
  Rm2 (fst (mstep2 true m ho)) (fst (pstep2 p ho)) /\ snd (mstep2 true m ho) = snd (pstep2 p ho).
Proof.
  intros [Hr [H0 [H1 [B0 B1]]]] Hext. destruct ho as [h o]. unfold op_in_extent2 in Hext. cbn [fst snd] in Hext.
  destruct m as [buf o0 o1]. destruct p as [d p0 p1]. cbn [m2_buf m2_off0 m2_off1 f2_data f2_pos0 f2_pos1] in *.
  subst o0 o1. unfold mstep2, pstep2. cbn [m2_buf m2_off0 m2_off1 f2_data f2_pos0 f2_pos1].
  assert (HR : Rm (mkm buf (if h then p1 else p0)) (mkp d (if h then p1 else p0))).
  { split; [exact Hr|]. split; [reflexivity|]. cbn [f_pos f_data]. destruct h; assumption. }
  destruct (mstep_sim _ _ o HR Hext) as [[Hr' [Ho' Hb']] Hout].
  pose proof (pstep_size_mono (mkp d (if h then p1 else p0)) o) as Hmono.
  destruct (mstep true (mkm buf (if h then p1 else p0)) o) as [m' r].
  destruct (pstep (mkp d (if h then p1 else p0)) o) as [p' q].
  cbn [fst snd f_data] in *. split; [|exact Hout].
  destruct h; cbn [fst m2_buf m2_off0 m2_off1 f2_data f2_pos0 f2_pos1];
    (split; [exact Hr'|]); repeat split; cbn [f2_data f2_pos0 f2_pos1]; try assumption; try reflexivity; lia.
Qed.

Lemma mrun2_sim ops : forall m p, Rm2 m p -> in_extent2_from p ops = true ->
  Rm2 (fst (mrun2 true m ops)) (fst (prun2 p ops)) /\ snd (mrun2 true m ops) = snd (prun2 p ops).
Proof.
  induction ops as [|o t IH]; intros m p HR Hext; cbn [mrun2 prun2].
  - cbn [fst snd]. split; [exact HR|reflexivity].
  - cbn [in_extent2_from] in Hext. apply andb_true_iff in Hext. destruct Hext as [He1 He2].
    destruct (mstep2_sim m p o HR He1) as [HR1 Ho].
    destruct (mstep2 true m o) as [m1 r1]. destruct (pstep2 p o) as [p1 q1]. cbn [fst snd] in *.
    destruct (IH m1 p1 HR1 He2) as [HR2 Hos].
    destruct (mrun2 true m1 t) as [m2 rs]. destruct (prun2 p1 t) as [p2 qs]. cbn [fst snd] in *.
    split; [exact HR2|]. rewrite Ho, Hos. reflexivity.
Qed.

Theorem memfile_two_handles_eq_file : forall cap ops, in_extent2 ops = true ->
  snd (mrun2 true (minit2 cap) ops) = snd (prun2 pinit2 ops).
Proof. intros cap ops H. apply mrun2_sim; [apply Rm2_init|exact H]. Qed.

Lemma prun2_firstn k : forall s ops, snd (prun2 s (firstn k ops)) = firstn k (snd (prun2 s ops)).
Proof.
  induction k as [|k IH]; intros s ops; [reflexivity|].
  destruct ops as [|o t]; [reflexivity|].
  cbn [firstn prun2]. destruct (pstep2 s o) as [s1 r]. specialize (IH s1 t).
  destruct (prun2 s1 (firstn k t)) as [a1 l1]. destruct (prun2 s1 t) as [a2 l2].
  cbn [snd firstn] in *. f_equal. exact IH.
Qed.

Lemma mrun2_firstn fx k : forall s ops, snd (mrun2 fx s (firstn k ops)) = firstn k (snd (mrun2 fx s ops)).
Proof.
  induction k as [|k IH]; intros s ops; [reflexivity|].
  destruct ops as [|o t]; [reflexivity|].
  cbn [firstn mrun2]. destruct (mstep2 fx s o) as [s1 r]. specialize (IH s1 t).
  destruct (mrun2 fx s1 (firstn k t)) as [a1 l1]. destruct (mrun2 fx s1 t) as [a2 l2].
  cbn [snd firstn] in *. f_equal. exact IH.
Qed.

Lemma scope2_in_extent : forall ops s, in_extent2_from s (firstn (scope2_from s ops) ops) = true.
Proof.
  induction ops as [|o t IH]; intros s; cbn [scope2_from]; [reflexivity|].
  destruct (op_in_extent2 s o) eqn:E; [|reflexivity].
  cbn [firstn in_extent2_from]. rewrite E. apply IH.
Qed.

Theorem check_sound_two_handles : forall cap ops,
  C12_check2 ops (snd (mrun2 true (minit2 cap) ops)) (snd (prun2 pinit2 ops)) = true.
Proof.
  intros. unfold C12_check2. apply outs_eqb_eq. rewrite <- mrun2_firstn, <- prun2_firstn.
  apply mrun2_sim; [apply Rm2_init|apply scope2_in_extent].
Qed.
