(* C37 — listings: on the guarded name space every complete listing returns exactly the stored
   names under the prefix, each once (testfs directory walk, the two SQL queries, the S3
   pagination loop for every page-size oracle). *)
From Coq Require Import List NArith Bool Lia PeanoNat.
From K.Model Require Import C37.
From K.Proof Require Import PathLib C37_base C37_pages C37_engines.
Import ListNotations.
Local Open Scope N_scope.

(* ------------------------------------------------------------------ small list facts *)

Lemma NoDup_map_inj_on : forall {A B} (g : A -> B) l,
  NoDup l -> (forall a b, In a l -> In b l -> g a = g b -> a = b) -> NoDup (map g l).
Proof.
  intros A B g l H. induction H as [|x t Hx Hnd IH]; intros Hinj; cbn [map]; constructor.
  - intros Hin. apply in_map_iff in Hin. destruct Hin as [y [Hy Hin]].
    assert (y = x) by (apply Hinj; [right; exact Hin|left; reflexivity|exact Hy]). subst. contradiction.
  - apply IH. intros a b Ha Hb. apply Hinj; right; assumption.
Qed.

Lemma map_fst_filter : forall {A B} (h : A -> bool) (m : list (A * B)),
  map fst (filter (fun kv => h (fst kv)) m) = filter h (map fst m).
Proof.
  intros A B h m. induction m as [|[k v] t IH]; [reflexivity|].
  cbn [filter map fst]. destruct (h k); cbn [map fst]; rewrite IH; reflexivity.
Qed.

Lemma all_some_defined : forall {A B} (f : A -> option B) l,
  (forall x, In x l -> f x <> None) -> all_some (map f l) = Some (filter_map f l).
Proof.
  intros A B f l H. induction l as [|x t IH]; [reflexivity|].
  cbn [map all_some fold_right filter_map]. fold (all_some (map f t)).
  rewrite IH by (intros y Hy; apply H; right; exact Hy).
  destruct (f x) eqn:E; [reflexivity|]. exfalso. apply (H x); [left; reflexivity|exact E].
Qed.

Lemma NoDup_app_l : forall {A} (a b : list A), NoDup (a ++ b) -> NoDup a.
Proof.
  intros A a b H. induction a as [|x a IH]; [constructor|].
  cbn [app] in H. inversion H; subst. constructor; [intros Hin; apply H2; apply in_or_app; left; exact Hin|apply IH; exact H3].
Qed.

(* ------------------------------------------------------------------ names listed from string-keyed engines *)

Section StrKeyed.
  Variable key : str -> str.
  Variable ns : list str.
  Variable f : str -> option str.          (* key -> name, as the client computes it *)
  Variable cond : str -> bool.             (* the engine's prefix test on keys *)
  Variables (m : fmap) (s : store).
  Hypothesis R : rel str_eqb key ns m s.
  Hypothesis round : forall n, In n ns -> f (key n) = Some n.

  Lemma key_name : forall k, In k (akeys m) -> exists n, k = key n /\ In n (akeys s) /\ f k = Some n.
  Proof.
    intros k Hk. destruct (rel_keys _ _ _ _ _ R k Hk) as [n [Hn [-> Hs]]].
    exists n. split; [reflexivity|]. split; [exact Hs|apply round; exact Hn].
  Qed.

  (* any duplicate-free selection of engine keys lists stored names under the prefix, each once *)
  Lemma listed_sound : forall cs,
    NoDup cs -> (forall k, In k cs -> In k (akeys m) /\ cond k = true) ->
    NoDup (filter_map f cs) /\
    forall n, In n (filter_map f cs) -> In n (filter (fun n => cond (key n)) (akeys s)).
  Proof.
    intros cs Hnd Hcs. split.
    - apply NoDup_filter_map; [exact Hnd|]. intros a b y Ha Hb Hfa Hfb.
      destruct (key_name a (proj1 (Hcs a Ha))) as [na [-> [_ Fa]]].
      destruct (key_name b (proj1 (Hcs b Hb))) as [nb [-> [_ Fb]]]. congruence.
    - intros n Hin. apply in_filter_map in Hin. destruct Hin as [k [Hk Hf]].
      destruct (Hcs k Hk) as [Hkm Hc]. destruct (key_name k Hkm) as [n0 [-> [Hs F0]]].
      assert (n0 = n) by congruence. subst. apply filter_In. split; assumption.
  Qed.

  (* the complete selection lists all of them *)
  Lemma listed_complete : forall cs,
    (forall k, In k cs <-> In k (akeys m) /\ cond k = true) ->
    forall n, In n (filter (fun n => cond (key n)) (akeys s)) -> In n (filter_map f cs).
  Proof.
    intros cs Hcs n Hin. apply filter_In in Hin. destruct Hin as [Hs Hc].
    apply in_filter_map. exists (key n). split.
    - apply Hcs. split; [eapply rel_key_of_stored; [exact str_eqb_eq|exact R|exact Hs]|exact Hc].
    - apply round. apply (rel_dom _ _ _ _ _ R). exact Hs.
  Qed.
End StrKeyed.

(* ------------------------------------------------------------------ s3 *)

Lemma s3_round : forall c n, round_ok c KS3 n = true ->
  s3_name_of (s3_root c) (s3_key (s3_root c) n) = Some n.
Proof.
  intros c n H. unfold round_ok in H.
  destruct (s3_name_of (s3_root c) (s3_key (s3_root c) n)); [|discriminate].
  apply str_eqb_eq in H. subst. reflexivity.
Qed.

Lemma s3_keys_spec : forall root p (m : fmap), NoDup (akeys m) ->
  NoDup (s3_keys root p m) /\
  forall k, In k (s3_keys root p m) <-> In k (akeys m) /\ prefixb (s3_prefix root p) k = true.
Proof.
  intros root p m H. unfold s3_keys. split.
  - apply sort_str_nodup. apply NoDup_filter. exact H.
  - intros k. rewrite sort_str_in, filter_In. reflexivity.
Qed.

Lemma s3_list : forall c ns (m : fmap) s p md zss,
  rel str_eqb (s3_key (s3_root c)) ns m s ->
  (forall n, In n ns -> round_ok c KS3 n = true) ->
  exists r, s3_step (s3_root c) (list_max c) m (List p md zss) = (m, r) /\
            list_ok KS3 md (expected c KS3 p s) r = true.
Proof.
  intros c ns m s p md zss R Hround.
  assert (Hr : forall n, In n ns -> s3_name_of (s3_root c) (s3_key (s3_root c) n) = Some n)
    by (intros n Hn; apply s3_round; apply Hround; exact Hn).
  destruct (s3_keys_spec (s3_root c) p m (rel_nodup _ _ _ _ _ R)) as [Hnd Hks].
  set (ks := s3_keys (s3_root c) p m) in *.
  set (cond := prefixb (s3_prefix (s3_root c) p)).
  assert (Hexp : expected c KS3 p s = filter (fun n => cond (s3_key (s3_root c) n)) (akeys s)).
  { unfold expected, under, cond. destruct p; reflexivity. }
  pose proof (listed_sound _ _ _ cond m s R Hr) as Hsound.
  pose proof (listed_complete _ _ _ cond m s R Hr ks Hks) as Hcompl.
  destruct md as [|k]; cbn [s3_step]; fold ks.
  - (* non-paginated: one call; a prefix of the keys, complete iff the token is empty *)
    destruct (s3_list_once (s3_name_of (s3_root c)) (list_max c) ks 0 (hd [] zss)) as [names tok] eqn:Ho.
    eexists. split; [reflexivity|]. cbn [list_ok]. rewrite Hexp.
    destruct (s3_list_once_first _ _ _ _ _ _ Ho) as [cs [rest' [Hsplit [Hn Htok]]]].
    assert (Hcs : NoDup cs) by (rewrite Hsplit in Hnd; eapply NoDup_app_l; exact Hnd).
    assert (Hin : forall k, In k cs -> In k (akeys m) /\ cond k = true).
    { intros k Hk. apply Hks. rewrite Hsplit. apply in_or_app. left. exact Hk. }
    destruct (Hsound cs Hcs Hin) as [S1 S2]. rewrite <- Hn in S1, S2.
    destruct (tok =? 0) eqn:Et.
    + apply N.eqb_eq in Et. apply Htok in Et. subst rest'. rewrite app_nil_r in Hsplit. subst cs.
      apply same_names_iff. split; [exact S1|]. intros x. split; [apply S2|].
      intros Hx. rewrite Hn. apply Hcompl. exact Hx.
    + apply some_names_iff. split; assumption.
  - (* paginated: follow the tokens *)
    eexists. split; [reflexivity|]. cbn [list_ok]. rewrite Hexp.
    pose proof (s3_session_complete (s3_name_of (s3_root c)) k ks zss (session_fuel ks zss)) as Hc.
    unfold session_fuel in Hc at 1. specialize (Hc ltac:(lia)). cbn zeta in Hc. destruct Hc as [Hl Hcat].
    rewrite Hl, Hcat. cbn [N.eqb andb].
    assert (Hin : forall k0, In k0 ks -> In k0 (akeys m) /\ cond k0 = true) by (intros k0 Hk; apply Hks; exact Hk).
    destruct (Hsound ks Hnd Hin) as [S1 S2].
    apply same_names_iff. split; [exact S1|]. intros x. split; [apply S2|apply Hcompl].
Qed.

(* ------------------------------------------------------------------ testfs *)

Lemma fs_round : forall c n, round_ok c KFs n = true ->
  name_from_path (fs_root c) (fs_key (fs_root c) n) = Some n.
Proof.
  intros c n H. unfold round_ok in H.
  destruct (name_from_path (fs_root c) (fs_key (fs_root c) n)); [|discriminate].
  apply str_eqb_eq in H. subst. reflexivity.
Qed.

Lemma fs_list : forall c ns (m : fmap) s p md zss,
  EGuard c KFs ns ->
  rel str_eqb (fs_key (fs_root c)) ns m s ->
  (forall n, In n ns -> round_ok c KFs n = true) ->
  exists r, fs_step (fs_root c) m (List p md zss) = (m, r) /\
            list_ok KFs md (expected c KFs p s) r = true.
Proof.
  intros c ns m s p md zss G R Hround.
  destruct md as [|k]; [|eexists; split; reflexivity].
  assert (Hr : forall n, In n ns -> name_from_path (fs_root c) (fs_key (fs_root c) n) = Some n)
    by (intros n Hn; apply fs_round; apply Hround; exact Hn).
  cbn [fs_step]. set (lp := fs_path (join [fs_root c; p])).
  set (cond := fun k => is_nil lp || prefixb (lp ++ [slash]) k).
  assert (Hexp : expected c KFs p s = filter (fun n => cond (fs_key (fs_root c) n)) (akeys s)).
  { unfold expected, under, cond, lp. destruct p; reflexivity. }
  cbn [list_ok]. rewrite Hexp.
  destruct (aget str_eqb lp m) as [v|] eqn:Hg.
  - (* the prefix is a stored file: nothing is stored below it *)
    eexists. split; [reflexivity|]. cbn [list_ok]. apply same_names_iff. split; [constructor|].
    intros x. split; [intros []|]. intros Hx. exfalso.
    apply filter_In in Hx. destruct Hx as [Hs Hc].
    pose proof (aget_some_in str_eqb str_eqb_eq _ _ _ Hg) as Hlp.
    destruct (rel_keys _ _ _ _ _ R lp Hlp) as [n0 [Hn0 [Hk0 _]]].
    pose proof (rel_dom _ _ _ _ _ R x Hs) as Hxn.
    pose proof (eg_key _ _ _ G n0 Hn0) as Hok. unfold key_ok in Hok. rewrite <- Hk0 in Hok.
    apply negb_true_iff in Hok. unfold cond in Hc. rewrite Hok in Hc. cbn [orb] in Hc.
    destruct (fs_apart c n0 x (eg_apart _ _ _ G n0 x Hn0 Hxn)) as [<-|[_ [H _]]].
    + rewrite Hk0, prefixb_longer in Hc. discriminate.
    + rewrite <- Hk0 in H. congruence.
  - destruct (is_dir lp m) eqn:Hd.
    + (* a directory: walk it *)
      set (ks := filter cond (akeys m)).
      assert (Hks : forall k, In k ks <-> In k (akeys m) /\ cond k = true) by (intros k; apply filter_In).
      assert (Hdef : forall k, In k ks -> name_from_path (fs_root c) k <> None).
      { intros k Hk. apply Hks in Hk. destruct Hk as [Hk _].
        destruct (key_name _ _ _ m s R Hr k Hk) as [n [_ [_ F]]]. congruence. }
      fold cond. fold ks. rewrite (all_some_defined _ _ Hdef).
      eexists. split; [reflexivity|]. cbn [list_ok].
      assert (Hnd : NoDup ks) by (apply NoDup_filter; apply (rel_nodup _ _ _ _ _ R)).
      destruct (listed_sound _ _ _ cond m s R Hr ks Hnd (fun k Hk => proj1 (Hks k) Hk)) as [S1 S2].
      apply same_names_iff. split; [apply sort_str_nodup; exact S1|].
      intros x. rewrite sort_str_in. split; [apply S2|].
      apply (listed_complete _ _ _ cond m s R Hr ks Hks).
    + (* neither file nor directory: nothing is stored under it, the walk fails *)
      eexists. split; [reflexivity|]. cbn [list_ok].
      destruct (filter (fun n => cond (fs_key (fs_root c) n)) (akeys s)) as [|x t] eqn:E; [reflexivity|].
      exfalso. assert (Hx : In x (x :: t)) by (left; reflexivity). rewrite <- E in Hx.
      apply filter_In in Hx. destruct Hx as [Hs Hc].
      pose proof (rel_key_of_stored str_eqb str_eqb_eq _ _ _ _ _ R Hs) as Hk.
      unfold is_dir in Hd. apply orb_false_iff in Hd. destruct Hd as [Hn He].
      unfold cond in Hc. rewrite Hn in Hc. cbn [orb] in Hc.
      assert (existsb (fun k => prefixb (lp ++ [slash]) k) (akeys m) = true).
      { apply existsb_exists. eexists. split; [exact Hk|exact Hc]. }
      congruence.
Qed.

(* ------------------------------------------------------------------ sql *)

Lemma tag_name_inj_r : forall r t1 t2, tag_name r t1 = tag_name r t2 -> t1 = t2.
Proof. intros r t1 t2 H. unfold tag_name in H. apply app_inv_head in H. congruence. Qed.

Lemma tag_name_inj_l : forall r1 r2 t, tag_name r1 t = tag_name r2 t -> r1 = r2.
Proof. intros r1 r2 t H. unfold tag_name in H. apply app_inv_tail in H. exact H. Qed.

Section SqlList.
  Variables (c : cfg) (ns : list str) (m : rmap) (s : store).
  Hypothesis G : EGuard c KSql ns.
  Hypothesis R : rel pair_eqb sql_key ns m s.

  (* the rows are exactly the decompositions of the stored names *)
  Lemma sql_row_name : forall r t, In (r, t) (akeys m) ->
    In (tag_name r t) (akeys s) /\ decompose (tag_name r t) = Some (r, t).
  Proof.
    intros r t Hk. destruct (rel_keys _ _ _ _ _ R _ Hk) as [n [Hn [Hkey Hs]]].
    pose proof (sql_key_ok c n (eg_key _ _ _ G n Hn)) as D. rewrite <- Hkey in D.
    destruct (decompose_some _ _ _ D) as [-> _]. split; assumption.
  Qed.

  Lemma sql_name_row : forall n, In n (akeys s) ->
    exists r t, decompose n = Some (r, t) /\ n = tag_name r t /\ In (r, t) (akeys m).
  Proof.
    intros n Hs. pose proof (rel_dom _ _ _ _ _ R n Hs) as Hn.
    pose proof (sql_key_ok c n (eg_key _ _ _ G n Hn)) as D.
    destruct (sql_key n) as [r t] eqn:E. exists r, t. split; [exact D|].
    split; [apply (decompose_some _ _ _ D)|].
    rewrite <- E. eapply rel_key_of_stored; [exact pair_eqb_eq|exact R|exact Hs].
  Qed.

  Lemma sql_list : forall p md zss,
    exists r, sql_step (sql_zero c) m (List p md zss) = (m, r) /\
              list_ok KSql md (expected c KSql p s) r = true.
  Proof.
    intros p md zss. cbn [sql_step]. destruct p as [|p0 pt].
    - (* catalog: one placeholder name per repository *)
      cbn [is_nil]. eexists. split; [reflexivity|].
      assert (Hl : forall e, list_ok KSql md e (OPages [(sort_str
                 (map (fun r => tag_name r dummy) (dedup (map (fun kv : str * str * str => fst (fst kv)) m))), 0)]) =
                 same_names (sort_str (map (fun r => tag_name r dummy) (dedup (map (fun kv : str * str * str => fst (fst kv)) m)))) e)
        by (intros e; destruct md; reflexivity).
      rewrite Hl. apply same_names_iff. split.
      + apply sort_str_nodup. apply NoDup_map_inj_on; [apply dedup_nodup|].
        intros a b _ _ H. eapply tag_name_inj_l; exact H.
      + intros x. rewrite sort_str_in, in_map_iff. unfold expected. rewrite dedup_in, in_filter_map. split.
        * intros [r [<- Hr]]. apply (proj1 (dedup_in _ _)) in Hr. apply in_map_iff in Hr. destruct Hr as [[[r' t] v] [<- Hkv]].
          cbn [fst]. assert (Hk : In (r', t) (akeys m)) by (unfold akeys; apply in_map_iff; exists (r', t, v); split; [reflexivity|exact Hkv]).
          destruct (sql_row_name r' t Hk) as [Hs D].
          destruct (aget_in_some str_eqb str_eqb_eq _ _ Hs) as [v' Hv'].
          exists (tag_name r' t, v'). split; [apply (aget_in_pair str_eqb str_eqb_eq); exact Hv'|].
          cbn [fst]. rewrite D. reflexivity.
        * intros [[n v] [Hkv Hd]]. cbn [fst] in Hd.
          assert (Hs : In n (akeys s)) by (unfold akeys; apply in_map_iff; exists (n, v); split; [reflexivity|exact Hkv]).
          destruct (sql_name_row n Hs) as [r [t [D [_ Hk]]]]. rewrite D in Hd. inversion Hd; subst x.
          exists r. split; [reflexivity|]. apply (proj2 (dedup_in _ _)). unfold akeys in Hk. apply in_map_iff in Hk.
          destruct Hk as [[k v'] [Hk1 Hk2]]. cbn [fst] in Hk1. subst k. apply in_map_iff.
          exists (r, t, v'). split; [reflexivity|exact Hk2].
    - (* tags of one repository *)
      cbn [is_nil]. set (p := p0 :: pt). set (repo := sql_repo p).
      eexists. split; [reflexivity|].
      set (L := map (fun kv : str * str * str => tag_name repo (snd (fst kv)))
                    (filter (fun kv : str * str * str => str_eqb (fst (fst kv)) repo) m)).
      assert (Hl : forall e, list_ok KSql md e (OPages [(sort_str L, 0)]) = same_names (sort_str L) e)
        by (intros e; destruct md; reflexivity).
      rewrite Hl. clear Hl.
      assert (HL : L = map (fun k : str * str => tag_name repo (snd k))
                           (filter (fun k : str * str => str_eqb (fst k) repo) (akeys m))).
      { unfold L, akeys. rewrite <- (map_fst_filter (fun k : str * str => str_eqb (fst k) repo) m), map_map. reflexivity. }
      apply same_names_iff. split.
      + apply sort_str_nodup. rewrite HL. apply NoDup_map_inj_on.
        * apply NoDup_filter. apply (rel_nodup _ _ _ _ _ R).
        * intros [r1 t1] [r2 t2] H1 H2 H. apply filter_In in H1. apply filter_In in H2.
          destruct H1 as [_ H1]. destruct H2 as [_ H2]. cbn [fst snd] in *.
          apply str_eqb_eq in H1. apply str_eqb_eq in H2. subst. apply tag_name_inj_r in H. subst. reflexivity.
      + intros x. rewrite sort_str_in, HL, in_map_iff.
        unfold expected. fold p. unfold p at 1. rewrite filter_In. split.
        * intros [[r t] [<- Hk]]. apply filter_In in Hk. destruct Hk as [Hk Hr]. cbn [fst snd] in *.
          apply str_eqb_eq in Hr. subst r. destruct (sql_row_name _ _ Hk) as [Hs D].
          split; [exact Hs|]. unfold under. rewrite D. fold p. fold repo. apply str_eqb_refl.
        * intros [Hs Hu]. destruct (sql_name_row x Hs) as [r [t [D [-> Hk]]]].
          unfold under in Hu. rewrite D in Hu. fold p in Hu. fold repo in Hu. apply str_eqb_eq in Hu. subst r.
          exists (repo, t). split; [reflexivity|]. apply filter_In. split; [exact Hk|apply str_eqb_refl].
  Qed.
End SqlList.

(* ------------------------------------------------------------------ all engines *)

Lemma estep_list : forall c ns e x s p md zss,
  EGuard c e ns -> ERel c ns e x s ->
  (forall n, In n ns -> round_ok c e n = true) ->
  exists r, estep c x (List p md zss) = (x, r) /\ list_ok e md (expected c e p s) r = true.
Proof.
  intros c ns e x s p md zss G R Hround. destruct e, x as [m|m|m]; cbn [ERel] in R; try contradiction; cbn [estep].
  - destruct (fs_list c ns m s p md zss G R Hround) as [r [H1 H2]]. rewrite H1. exists r. split; [reflexivity|exact H2].
  - destruct (sql_list c ns m s G R p md zss) as [r [H1 H2]]. rewrite H1. exists r. split; [reflexivity|exact H2].
  - destruct (s3_list c ns m s p md zss R Hround) as [r [H1 H2]]. rewrite H1. exists r. split; [reflexivity|exact H2].
Qed.
