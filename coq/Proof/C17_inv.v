(* C17, part 2: every event application and every environment step preserves the invariant. *)
From Coq Require Import List NArith Bool Lia Permutation PeanoNat.
From K.Model Require Import C17.
From K.Proof Require Import C17_base.
Import ListNotations.
Local Open Scope N_scope.

Ltac simp_st := cbn [tors ctrls cache partial known pending stopped now results calls seen
                     set_ctrls set_results set_pending set_partial set_cache].

(* the part of the state the invariant speaks about (not: cache, download directory, tracker) *)
Definition view (s : st) :=
  (tors s, ctrls s, pending s, results s, calls s, seen s, stopped s, now s).

Definition Core (s : st) : Prop :=
  CoreC (tors s) (ctrls s) (pending s) (results s) (calls s) (seen s) (now s).
Definition live (s : st) : list N := liveC (results s) (ctrls s) (pending s).

Record frame (s s' : st) : Prop := mkFrame {
  f_tors : tors s' = tors s; f_calls : calls s' = calls s; f_seen : seen s' = seen s;
  f_stopped : stopped s' = stopped s; f_now : now s' = now s;
  f_results : incl (results s) (results s')
}.

Lemma frame_refl s : frame s s.
Proof. constructor; try reflexivity. apply incl_refl. Qed.
Lemma frame_trans a b c : frame a b -> frame b c -> frame a c.
Proof.
  intros [] []. constructor; try congruence. eapply incl_tran; eassumption.
Qed.

Lemma view_inv s ts cs p rs cl sn stp nw : view s = (ts, cs, p, rs, cl, sn, stp, nw) ->
  tors s = ts /\ ctrls s = cs /\ pending s = p /\ results s = rs /\ calls s = cl /\ seen s = sn /\
  stopped s = stp /\ now s = nw.
Proof. unfold view. intros H. inversion H. repeat split. Qed.

(* a step described by the new values of the components *)
Record okstep (s s' : st) (added : list N) : Prop := mkOk {
  ok_core : Core s';
  ok_live : Permutation (live s') (added ++ live s);
  ok_frame : frame s s'
}.

Lemma ok_refl s : Core s -> okstep s s [].
Proof. intros H. constructor; [exact H | apply Permutation_refl | apply frame_refl]. Qed.

Lemma ok_trans a b c x y : okstep a b x -> okstep b c y -> okstep a c (y ++ x).
Proof.
  intros [C1 L1 F1] [C2 L2 F2]. constructor; [exact C2 | | eapply frame_trans; eassumption].
  rewrite L2. rewrite <- app_assoc. apply Permutation_app_head. exact L1.
Qed.

Lemma ok_view s s' added ts cs p rs :
  view s' = (ts, cs, p, rs, calls s, seen s, stopped s, now s) ->
  ts = tors s -> incl (results s) rs ->
  CoreC ts cs p rs (calls s) (seen s) (now s) ->
  Permutation (liveC rs cs p) (added ++ live s) ->
  okstep s s' added.
Proof.
  intros V Et Hr K L. destruct (view_inv _ _ _ _ _ _ _ _ _ V) as (A & B & C & D & E & F & G & H).
  constructor.
  - unfold Core. now rewrite A, B, C, D, E, F, H.
  - unfold live at 1. now rewrite B, C, D.
  - constructor; try congruence. now rewrite D.
Qed.

Ltac by_view := eapply ok_view; [reflexivity | reflexivity | simp_st | simp_st | simp_st; cbn [app]].

Lemma incl_deliver ws r rs : incl rs (deliver ws r rs).
Proof. intros x H. unfold deliver. apply in_or_app. now left. Qed.

(* ---------- state.go:102 removeTorrent ---------- *)
Lemma remove_torrent_shape s h r :
  match find_ctrl h (ctrls s) with
  | None => remove_torrent s h r = s
  | Some c => view (remove_torrent s h r) =
              (tors s, drop_ctrl h (ctrls s), pending s, deliver (c_errors c) r (results s),
               calls s, seen s, stopped s, now s)
  end.
Proof.
  unfold remove_torrent. destruct (find_ctrl h (ctrls s)); [|reflexivity].
  destruct (tor_complete s (c_disp c)); reflexivity.
Qed.

Lemma remove_torrent_ok s h r : Core s -> r <> RNil ->
  okstep s (remove_torrent s h r) [] /\
  pending (remove_torrent s h r) = pending s /\
  find_ctrl h (ctrls (remove_torrent s h r)) = None /\
  (forall c, In c (ctrls (remove_torrent s h r)) <-> In c (ctrls s) /\ c_hash c <> h) /\
  (forall c w, find_ctrl h (ctrls s) = Some c -> In w (c_errors c) ->
               In (w, r) (results (remove_torrent s h r))).
Proof.
  intros K Hr. pose proof (remove_torrent_shape s h r) as Sh.
  destruct (find_ctrl h (ctrls s)) as [c|] eqn:F.
  - destruct (view_inv _ _ _ _ _ _ _ _ _ Sh) as (A & B & C & D & E & G & H & I).
    split; [|split; [exact C | split; [|split]]].
    + eapply ok_view; [exact Sh | reflexivity | apply incl_deliver | | ].
      * apply core_deliver; [eapply core_drop; eassumption | congruence].
      * cbn [app]. eapply live_drop; eassumption.
    + rewrite B. apply find_drop_ctrl.
    + intros c0. rewrite B. apply in_drop_ctrl.
    + intros c0 w E0 Hw. inversion E0; subst c0. rewrite D. apply in_deliver. now right.
  - rewrite Sh. split; [now apply ok_refl | split; [reflexivity | split; [exact F | split]]].
    + intros c0. split; [|tauto]. intros Hc. split; [exact Hc|]. intros E.
      apply find_ctrl_none in F. apply F. rewrite <- E. now apply in_map.
    + discriminate.
Qed.

(* ---------- events.go:316 newTorrentEvent.apply, in three stages ---------- *)
Definition new1 (s : st) (h t : N) : st :=
  match find_ctrl h (ctrls s) with
  | Some c => if tor_complete s (c_disp c) && negb (tor_complete s t)
              then remove_torrent s h RRemoved else s
  | None => s
  end.
Definition new2 (s1 : st) (h t : N) : st :=
  match find_ctrl h (ctrls s1) with
  | Some _ => s1
  | None =>
      let s' := set_ctrls s1 (mkC h t [] (now s1) (now s1) :: ctrls s1) in
      if tor_complete s1 t then set_pending s' (pending s' ++ [PComplete t]) else s'
  end.
Definition new3 (s2 : st) (h w : N) : st :=
  match find_ctrl h (ctrls s2) with
  | Some c =>
      if tor_complete s2 (c_disp c)
      then set_results s2 (deliver [w] RNil (results s2))
      else set_ctrls s2 (replace_ctrl (mkC (c_hash c) (c_disp c) (c_errors c ++ [w]) (c_lastw c) (c_lastr c)) (ctrls s2))
  | None => s2
  end.

Lemma apply_new_stages s w t :
  apply_new true s w t = new3 (new2 (new1 s (tor_hash s t) t) (tor_hash s t) t) (tor_hash s t) w.
Proof. reflexivity. Qed.

Lemma new1_ok s h t : Core s ->
  okstep s (new1 s h t) [] /\ pending (new1 s h t) = pending s /\
  (forall c, find_ctrl h (ctrls (new1 s h t)) = Some c ->
             tcomp (tors s) (c_disp c) = true -> tcomp (tors s) t = true).
Proof.
  intros K. unfold new1. destruct (find_ctrl h (ctrls s)) as [c|] eqn:F.
  - rewrite !tc_eq. destruct (tcomp (tors s) (c_disp c) && negb (tcomp (tors s) t)) eqn:B.
    + destruct (remove_torrent_ok s h RRemoved K) as (A & P & N & _); [discriminate|].
      split; [exact A | split; [exact P|]]. intros c0 E. congruence.
    + split; [now apply ok_refl | split; [reflexivity|]]. intros c0 E Hc. assert (c0 = c) by congruence. subst.
      rewrite Hc in B. cbn [andb] in B. now apply negb_false_iff in B.
  - split; [now apply ok_refl | split; [reflexivity|]]. intros c0 E. congruence.
Qed.

Lemma new2_ok s h t : Core s -> h = thash (tors s) t -> tvalid (tors s) t ->
  (forall c, find_ctrl h (ctrls s) = Some c -> tcomp (tors s) (c_disp c) = true -> tcomp (tors s) t = true) ->
  okstep s (new2 s h t) [] /\
  exists c, find_ctrl h (ctrls (new2 s h t)) = Some c /\
            (tcomp (tors s) (c_disp c) = true -> tcomp (tors s) t = true).
Proof.
  intros K Hh Hv Hpost. unfold new2. destruct (find_ctrl h (ctrls s)) as [c|] eqn:F.
  - split; [now apply ok_refl|]. exists c. split; [exact F | now apply Hpost].
  - cbv zeta. rewrite tc_eq.
    pose proof (core_add_ctrl _ _ _ _ _ _ _ K h t (now s) F Hh Hv) as K1.
    assert (Hf : find_ctrl h (mkC h t [] (now s) (now s) :: ctrls s) = Some (mkC h t [] (now s) (now s))).
    { cbn [find_ctrl c_hash]. now rewrite N.eqb_refl. }
    destruct (tcomp (tors s) t) eqn:B.
    + split.
      * by_view; [apply incl_refl | | ].
        -- simp_st. apply core_push; assumption.
        -- simp_st. cbn [app]. rewrite live_push. cbn [pending_callers]. rewrite app_nil_r.
           now rewrite live_add_ctrl.
      * eexists. split; [exact Hf|]. auto.
    + split.
      * by_view; [apply incl_refl | exact K1 | ].
        cbn [app]. now rewrite live_add_ctrl.
      * eexists. split; [exact Hf|]. cbn [c_disp]. congruence.
Qed.

Lemma new3_ok s h w c : Core s -> find_ctrl h (ctrls s) = Some c -> In (w, h) (calls s) ->
  (tcomp (tors s) (c_disp c) = true -> In w (seen s)) ->
  okstep s (new3 s h w) [w].
Proof.
  intros K F Hc Hs. pose proof K as K'. unfold Core in K'. destruct K' as [Kh Kc Kcc Kcs Kcn Kn Kcp Knil]. unfold new3. rewrite F, tc_eq. destruct (tcomp (tors s) (c_disp c)) eqn:B.
  - by_view; [apply incl_deliver | | ].
    + apply core_deliver; [exact K|]. intros _ w0 [<-|[]]. now apply Hs.
    + apply live_deliver.
  - destruct (find_ctrl_hash _ _ _ F) as [Eh Hin].
    by_view; [apply incl_refl | | ].
    + eapply core_replace; [exact K | exact F | exact Eh | reflexivity | | | | ]; cbn [c_lastw c_errors c_disp].
      * now destruct (Kc c Hin) as (_ & _ & ?).
      * intros w0 Hw. apply in_app_or in Hw. destruct Hw as [Hw|[<-|[]]]; [|exact Hc].
        rewrite <- Eh. eauto.
      * congruence.
      * congruence.
    + pose proof (live_replace _ _ _ _ _ _ _ K h c (mkC (c_hash c) (c_disp c) (c_errors c ++ [w]) (c_lastw c) (c_lastr c)) F Eh) as P. cbn [c_errors] in P.
      apply Permutation_app_inv_l with (l := c_errors c). rewrite P. unfold live.
      rewrite <- !app_assoc. apply Permutation_app_head. cbn [app]. apply Permutation_refl.
Qed.

Lemma apply_new_ok s w t : Core s -> tvalid (tors s) t -> In (w, thash (tors s) t) (calls s) ->
  (tcomp (tors s) t = true -> In w (seen s)) ->
  okstep s (apply_new true s w t) [w].
Proof.
  intros K Hv Hc Hs. rewrite apply_new_stages, th_eq. set (h := thash (tors s) t).
  destruct (new1_ok s h t K) as ([K1 L1 F1] & P1 & Post1).
  assert (Et1 : tors (new1 s h t) = tors s) by (now destruct F1).
  destruct (new2_ok (new1 s h t) h t K1) as ([K2 L2 F2] & c & Fc & Post2); rewrite ?Et1; try assumption; try reflexivity.
  assert (Et2 : tors (new2 (new1 s h t) h t) = tors s) by (destruct F2; congruence).
  assert (O3 : okstep (new2 (new1 s h t) h t) (new3 (new2 (new1 s h t) h t) h w) [w]).
  { rewrite Et1 in Post2. destruct F1 as [_ Ec1 Es1 _ _ _], F2 as [_ Ec2 Es2 _ _ _].
    apply new3_ok with (c := c); try assumption.
    - rewrite Ec2, Ec1. exact Hc.
    - rewrite Et2, Es2, Es1. auto. }
  pose proof (mkOk _ _ _ K1 L1 F1) as O1. pose proof (mkOk _ _ _ K2 L2 F2) as O2.
  exact (ok_trans _ _ _ _ _ (ok_trans _ _ _ _ _ O1 O2) O3).
Qed.

(* ---------- events.go:355 dispatcherCompleteEvent.apply ---------- *)
Lemma apply_complete_ok s d l1 l2 : Core s -> pending s = l1 ++ PComplete d :: l2 ->
  okstep s (apply_complete true (set_pending s (l1 ++ l2)) d) [].
Proof.
  intros K Ep. unfold Core in K. rewrite Ep in K. pose proof K as K0. destruct K0 as [Kh Kc Kcc Kcs Kcn Kn Kcp Knil].
  assert (Hd : tcomp (tors s) d = true).
  { apply Kcp. apply in_elt. }
  assert (Hlive : Permutation (liveC (results s) (ctrls s) (l1 ++ l2)) (live s)).
  { unfold live. rewrite Ep. rewrite live_pop. cbn [pending_callers app]. apply Permutation_refl. }
  (* no control other than the one of hash (thash d) can have dispatcher d *)
  assert (Hown : forall c, In c (ctrls s) -> c_disp c = d ->
                 find_ctrl (thash (tors s) d) (ctrls s) = Some c).
  { intros c Hc E. destruct (Kc c Hc) as (A & _). rewrite E in A. rewrite <- A.
    now apply In_find_ctrl. }
  unfold apply_complete. cbn [ctrls set_pending andb]. rewrite th_eq. cbn [tors set_pending].
  destruct (find_ctrl (thash (tors s) d) (ctrls s)) as [c|] eqn:F.
  - destruct (N.eqb_spec (c_disp c) d) as [E|E]; cbn [negb].
    + (* the notice of the current dispatcher *)
      destruct (find_ctrl_hash _ _ _ F) as [Eh Hin].
      assert (K1 : CoreC (tors s) (replace_ctrl (mkC (c_hash c) (c_disp c) [] (c_lastw c) (c_lastr c)) (ctrls s))
                         (l1 ++ PComplete d :: l2) (results s) (calls s) (seen s) (now s)).
      { eapply core_replace; [exact K | exact F | exact Eh | reflexivity | | | | ]; cbn [c_lastw c_errors c_disp].
        - now destruct (Kc c Hin) as (_ & _ & ?).
        - intros w [].
        - intros _ w [].
        - congruence. }
      by_view; [apply incl_deliver | | ].
      * cbn [results set_pending]. apply core_deliver.
        -- apply core_pop with (e := PComplete d); [exact K1|].
           intros c0 Hc0 He Ht Heq. inversion Heq as [Hd0].
           (* c0 would have hash (thash d), so it is the replaced control, which has no waiters *)
           pose proof K1 as K1'. destruct K1' as [Kh1 Kc1 _ _ _ _ _ _]. destruct (Kc1 c0 Hc0) as (A & _).
           rewrite <- Hd0 in A.
           destruct (find_ctrl_split _ _ _ F (k_hashes _ _ _ _ _ _ _ K)) as (m1 & m2 & S1 & S2 & S3 & S4).
           pose proof (S4 (mkC (c_hash c) (c_disp c) [] (c_lastw c) (c_lastr c)) Eh) as S5.
           rewrite S5 in Hc0, Kh1.
           assert (c0 = mkC (c_hash c) (c_disp c) [] (c_lastw c) (c_lastr c)).
           { eapply ctrl_unique; [exact Kh1 | exact Hc0 | apply in_elt | cbn [c_hash]; congruence]. }
           subst c0. cbn [c_errors] in He. congruence.
        -- intros _ w Hw. eapply Kcs; [exact Hin | exact Hw | congruence].
      * cbn [app results set_pending]. rewrite <- Hlive.
        pose proof (live_replace _ _ _ _ _ _ _ K _ c (mkC (c_hash c) (c_disp c) [] (c_lastw c) (c_lastr c)) F Eh) as P.
        cbn [c_errors app] in P. unfold liveC in *. rewrite map_fst_deliver.
        rewrite !pending_callers_app in *. change (PComplete d :: l2) with ([PComplete d] ++ l2) in P.
        rewrite pending_callers_app in P. cbn [pending_callers app] in P.
        apply perm_trans with (c_errors c ++ map fst (results s) ++ all_waiters (replace_ctrl (mkC (c_hash c) (c_disp c) [] (c_lastw c) (c_lastr c)) (ctrls s)) ++ pending_callers l1 ++ pending_callers l2);
          [perm_solve | exact P].
    + (* a notice from a replaced dispatcher: ignored *)
      by_view; [apply incl_refl | | exact Hlive].
      apply core_pop with (e := PComplete d); [exact K|].
      intros c0 Hc0 _ _ Heq. inversion Heq as [Hd0]. symmetry in Hd0.
      pose proof (Hown c0 Hc0 Hd0). congruence.
  - by_view; [apply incl_refl | | exact Hlive].
    apply core_pop with (e := PComplete d); [exact K|].
    intros c0 Hc0 _ _ Heq. inversion Heq as [Hd0]. symmetry in Hd0.
    pose proof (Hown c0 Hc0 Hd0). congruence.
Qed.

(* ---------- events.go:463 removeTorrentEvent.apply ---------- *)
Lemma env_ok s s' : Core s ->
  view s' = (tors s, ctrls s, pending s, results s, calls s, seen s, stopped s, now s) ->
  okstep s s' [].
Proof.
  intros K V. eapply ok_view; [exact V | reflexivity | apply incl_refl | exact K | apply Permutation_refl].
Qed.

Lemma apply_remove_ok s h : Core s ->
  okstep s (apply_remove true s h) [] /\
  (forall c w, find_ctrl h (ctrls s) = Some c -> In w (c_errors c) ->
               In (w, RRemoved) (results (apply_remove true s h))).
Proof.
  intros K. unfold apply_remove.
  destruct (remove_torrent_ok s h RRemoved K) as (A & _ & _ & _ & R); [discriminate|].
  split.
  - change (@nil N) with (@nil N ++ []). eapply ok_trans; [exact A|].
    apply env_ok; [now destruct A | reflexivity].
  - exact R.
Qed.

(* ---------- events.go:393 preemptionTickEvent.apply ---------- *)
Lemma tick_over_ok c todo : forall s, Core s ->
  okstep s (tick_over true c s todo) [] /\ pending (tick_over true c s todo) = pending s /\
  (forall x, In x (ctrls (tick_over true c s todo)) -> In x (ctrls s)).
Proof.
  induction todo as [|x t IH]; intros s K; cbn [tick_over].
  - split; [now apply ok_refl | split; [reflexivity | auto]].
  - destruct (idle c s x).
    + destruct (remove_torrent_ok s (c_hash x) RTimeout K) as (A & P & _ & I & _); [discriminate|].
      destruct (IH _ (ok_core _ _ _ A)) as (A' & P' & I').
      split; [|split; [congruence|]].
      * change (@nil N) with (@nil N ++ []). eapply ok_trans; eassumption.
      * intros y Hy. apply I' in Hy. now apply I in Hy.
    + now apply IH.
Qed.

(* ---------- events.go:484 shutdownEvent.apply ---------- *)
Lemma apply_shutdown_ok s : Core s ->
  Core (apply_shutdown s) /\ Permutation (live (apply_shutdown s)) (live s) /\
  calls (apply_shutdown s) = calls s /\ stopped (apply_shutdown s) = true /\
  pending (apply_shutdown s) = [] /\ all_waiters (ctrls (apply_shutdown s)) = [].
Proof.
  intros K. unfold apply_shutdown. split; [|split; [|repeat split]].
  - unfold Core. cbn [tors ctrls pending results calls seen now].
    change (deliver (pending_callers (pending s)) RStopped (deliver (all_waiters (ctrls s)) RStopped (results s)))
      with (deliver (pending_callers (pending s)) RStopped (deliver (all_waiters (ctrls s)) RStopped (results s))).
    apply core_shutdown with (p := pending s). apply core_deliver; [exact K | discriminate].
  - unfold live, liveC. cbn [ctrls pending results]. rewrite !map_fst_deliver, all_waiters_clear.
    cbn [pending_callers]. perm_solve.
  - cbn [ctrls]. apply all_waiters_clear.
Qed.

(* ---------- more calls, more torrents ---------- *)
Lemma core_more_calls ts cs p rs cl cl' sn nw : CoreC ts cs p rs cl sn nw -> incl cl cl' ->
  CoreC ts cs p rs cl' sn nw.
Proof.
  intros K H. destruct K as [Kh Kc Kcc Kcs Kcn Kn Kcp Knil]. constructor; try assumption.
  - intros c w Hc Hw. apply H. eauto.
  - intros w t Hi. destruct (Kn w t Hi) as (A & B & C). repeat split; auto.
Qed.

Lemma core_touch ts cs p rs cl sn nw h x lw lr : CoreC ts cs p rs cl sn nw ->
  find_ctrl h cs = Some x -> lw <= nw ->
  CoreC ts (replace_ctrl (mkC (c_hash x) (c_disp x) (c_errors x) lw lr) cs) p rs cl sn nw.
Proof.
  intros K F Hl. destruct (find_ctrl_hash _ _ _ F) as [Eh Hin]. pose proof K as K'. destruct K' as [Kh Kc Kcc Kcs Kcn Kn Kcp Knil].
  eapply core_replace; [exact K | exact F | exact Eh | reflexivity | | | | ]; cbn [c_lastw c_errors c_disp].
  - exact Hl.
  - intros w Hw. rewrite <- Eh. eauto.
  - intros Ht w Hw. eauto.
  - intros He Ht. eauto.
Qed.

(* ---------- the invariant ---------- *)
Definition Inv (s : st) : Prop :=
  Core s /\ Permutation (live s) (map fst (calls s)) /\
  (stopped s = true -> pending s = [] /\ all_waiters (ctrls s) = []).

Lemma Inv_init kn : Inv (init kn).
Proof.
  split; [|split].
  - constructor; cbn; try constructor; intros; contradiction.
  - apply Permutation_refl.
  - intros H. discriminate.
Qed.

(* an event application that keeps the scheduler running *)
Lemma Inv_ok s s' : Inv s -> stopped s = false -> okstep s s' [] -> Inv s'.
Proof.
  intros (K & P & S) Hs [K' L' F']. split; [exact K' | split].
  - destruct F'. rewrite f_calls0. cbn [app] in L'. now rewrite L'.
  - destruct F'. rewrite f_stopped0, Hs. discriminate.
Qed.

Lemma pending_nonempty_running s l1 e l2 : Inv s -> pending s = l1 ++ e :: l2 -> stopped s = false.
Proof.
  intros (_ & _ & S) E. destruct (stopped s); [|reflexivity].
  destruct (S eq_refl) as [H _]. rewrite H in E. now destruct l1.
Qed.

Lemma Core_pop_state s l1 e l2 : Core s -> pending s = l1 ++ e :: l2 -> (forall d, e <> PComplete d) ->
  Core (set_pending s (l1 ++ l2)) /\ frame s (set_pending s (l1 ++ l2)) /\
  Permutation (live s) (pending_callers [e] ++ live (set_pending s (l1 ++ l2))).
Proof.
  intros K E Hn. unfold Core in K. rewrite E in K.
  assert (K' : CoreC (tors s) (ctrls s) (l1 ++ l2) (results s) (calls s) (seen s) (now s)).
  { eapply core_pop; [exact K|]. intros; apply Hn. }
  split; [exact K' | split].
  - constructor; try reflexivity; apply incl_refl.
  - unfold live. rewrite E. apply live_pop.
Qed.

Lemma pop_ok s l1 e l2 : Core s -> pending s = l1 ++ e :: l2 -> (forall d, e <> PComplete d) ->
  pending_callers [e] = [] -> okstep s (set_pending s (l1 ++ l2)) [].
Proof.
  intros K E Hn Hc. destruct (Core_pop_state s l1 e l2 K E Hn) as (K' & F & L).
  rewrite Hc in L. constructor; [exact K' | now apply Permutation_sym | exact F].
Qed.

Theorem Inv_step c s o : Inv s -> Inv (step c s o).
Proof.
  intros I. pose proof I as (K & P & S). unfold step. destruct o as [w h|h|h|h|dt| | |w|d|h| | ]; cbn [step_gen].
  - (* Download *)
    destruct (negb (memb h (known s)) && negb (memb h (cache s))).
    + split; [|split].
      * unfold Core. cbn [tors ctrls pending results calls seen now].
        apply core_deliver; [|discriminate]. eapply core_more_calls; [exact K|]. intros x Hx. now right.
      * unfold live. cbn [ctrls pending results calls map fst].
        rewrite live_deliver. cbn [app]. now apply perm_skip.
      * exact S.
    + set (x := mkT h (memb h (cache s))).
      set (sn' := if memb h (cache s) then w :: seen s else seen s).
      assert (Hsn : incl (seen s) sn').
      { subst sn'. destruct (memb h (cache s)); [intros y Hy; now right | apply incl_refl]. }
      pose proof (core_create _ _ _ _ _ _ _ x w sn' K Hsn) as K1. cbn [t_hash x] in K1.
      destruct (new_tor_facts (tors s) x) as (V & Hh & Hc). cbn [t_hash t_complete x] in Hh, Hc.
      destruct (stopped s) eqn:St.
      * split; [|split].
        -- unfold Core. cbn [tors ctrls pending results calls seen now set_results].
           apply core_deliver; [exact K1 | discriminate].
        -- unfold live. cbn [ctrls pending results calls map fst set_results].
           rewrite live_deliver. cbn [app]. now apply perm_skip.
        -- cbn [stopped pending ctrls set_results]. intros _. now apply S.
      * split; [|split].
        -- unfold Core. cbn [tors ctrls pending results calls seen now set_pending].
           apply core_push; [exact K1|]. rewrite Hh, Hc. repeat split; [exact V | now left |].
           subst sn'. intros ->. now left.
        -- unfold live. cbn [ctrls pending results calls map fst set_pending].
           rewrite live_push. cbn [pending_callers]. fold (live s).
           apply perm_trans with (w :: live s); [perm_solve | now apply perm_skip].
        -- simp_st; rewrite ?St; intros Hx; discriminate Hx.
  - (* Feed *)
    destruct (find_ctrl h (ctrls s)) as [x|] eqn:F; [|exact I].
    destruct (tor_complete s (c_disp x) || stopped s || memb h (cache s) || negb (memb h (partial s))) eqn:B; [exact I|].
    assert (St : stopped s = false).
    { destruct (stopped s); [|reflexivity]. rewrite orb_true_r in B. discriminate. }
    pose proof (core_feed _ _ _ _ _ _ _ h x K F) as K1.
    pose proof (core_touch _ _ _ _ _ _ _ h x (now s) (c_lastr x) K1 F (N.le_refl _)) as K2.
    split; [exact K2 | split].
    + unfold live. cbn [ctrls pending results calls].
      rewrite <- P. destruct (find_ctrl_hash _ _ _ F) as [Eh _].
      pose proof (live_replace _ _ _ _ _ _ _ K1 h x (mkC (c_hash x) (c_disp x) (c_errors x) (now s) (c_lastr x)) F Eh) as L.
      cbn [c_errors] in L. apply Permutation_app_inv_l in L. rewrite L, live_push. cbn [pending_callers].
      rewrite app_nil_r. apply Permutation_refl.
    + simp_st; rewrite ?St; intros Hx; discriminate Hx.
  - (* Remove *)
    destruct (stopped s) eqn:St; [exact I|]. split; [|split].
    + unfold Core. cbn [tors ctrls pending results calls seen now set_pending]. now apply core_push.
    + unfold live. cbn [ctrls pending results calls set_pending]. rewrite live_push. cbn [pending_callers].
      rewrite app_nil_r. exact P.
    + simp_st; rewrite ?St; intros Hx; discriminate Hx.
  - (* Evict *)
    exact I.
  - (* Advance *)
    split; [|split; [exact P | exact S]].
    unfold Core. cbn [tors ctrls pending results calls seen now]. eapply core_advance; [exact K | lia].
  - (* TickSend *)
    destruct (stopped s) eqn:St; [exact I|]. split; [|split].
    + unfold Core. cbn [tors ctrls pending results calls seen now set_pending]. now apply core_push.
    + unfold live. cbn [ctrls pending results calls set_pending]. rewrite live_push. cbn [pending_callers].
      rewrite app_nil_r. exact P.
    + simp_st; rewrite ?St; intros Hx; discriminate Hx.
  - (* Stop *)
    destruct (stopped s || existsb (pev_eqb PShutdown) (pending s)) eqn:B; [exact I|].
    assert (St : stopped s = false) by (destruct (stopped s); [discriminate | reflexivity]).
    split; [|split].
    + unfold Core. cbn [tors ctrls pending results calls seen now set_pending]. now apply core_push.
    + unfold live. cbn [ctrls pending results calls set_pending]. rewrite live_push. cbn [pending_callers].
      rewrite app_nil_r. exact P.
    + simp_st; rewrite ?St; intros Hx; discriminate Hx.
  - (* ApNew *)
    destruct (take_new w (pending s)) as [[t p']|] eqn:T; [|exact I].
    destruct (take_new_split _ _ _ _ T) as (l1 & l2 & E & ->).
    pose proof (pending_nonempty_running _ _ _ _ I E) as St.
    destruct (Core_pop_state s l1 _ l2 K E) as (K1 & F1 & L1); [discriminate|].
    assert (Hnew : In (PNew w t) (pending s)) by (rewrite E; apply in_elt).
    destruct K as [_ _ _ _ _ Kn _ _]. destruct (Kn w t Hnew) as (V & C & Sn).
    assert (O2 : okstep (set_pending s (l1 ++ l2)) (apply_new true (set_pending s (l1 ++ l2)) w t) [w]).
    { apply apply_new_ok; [exact K1 | exact V | exact C | exact Sn]. }
    destruct O2 as [K2 L2 F2]. split; [exact K2 | split].
    + destruct F2 as [_ Ecl _ _ _ _]. rewrite Ecl. cbn [calls set_pending]. rewrite <- P, L2, L1. cbn [pending_callers app].
      apply Permutation_refl.
    + destruct F2. rewrite f_stopped0. simp_st; rewrite ?St; intros Hx; discriminate Hx.
  - (* ApComplete *)
    destruct (remove_first_pev (pev_eqb (PComplete d)) (pending s)) as [p'|] eqn:R; [|exact I].
    destruct (remove_first_split _ _ _ R) as (l1 & l2 & E & ->).
    pose proof (pending_nonempty_running _ _ _ _ I E) as St.
    eapply Inv_ok; [exact I | exact St | now apply apply_complete_ok].
  - (* ApRemove *)
    destruct (remove_first_pev (pev_eqb (PRemove h)) (pending s)) as [p'|] eqn:R; [|exact I].
    destruct (remove_first_split _ _ _ R) as (l1 & l2 & E & ->).
    pose proof (pending_nonempty_running _ _ _ _ I E) as St.
    pose proof (pop_ok s l1 _ l2 K E) as O1. specialize (O1 ltac:(discriminate) eq_refl).
    eapply Inv_ok; [exact I | exact St |].
    change (@nil N) with (@nil N ++ []). eapply ok_trans; [exact O1|].
    apply apply_remove_ok. now destruct O1.
  - (* ApTick *)
    destruct (remove_first_pev (pev_eqb PTick) (pending s)) as [p'|] eqn:R; [|exact I].
    destruct (remove_first_split _ _ _ R) as (l1 & l2 & E & ->).
    pose proof (pending_nonempty_running _ _ _ _ I E) as St.
    pose proof (pop_ok s l1 _ l2 K E) as O1. specialize (O1 ltac:(discriminate) eq_refl).
    eapply Inv_ok; [exact I | exact St |].
    change (@nil N) with (@nil N ++ []). eapply ok_trans; [exact O1|].
    unfold apply_tick. apply tick_over_ok. now destruct O1.
  - (* ApShutdown *)
    destruct (remove_first_pev (pev_eqb PShutdown) (pending s)) as [p'|] eqn:R; [|exact I].
    destruct (remove_first_split _ _ _ R) as (l1 & l2 & E & ->).
    pose proof (pop_ok s l1 _ l2 K E) as O1. specialize (O1 ltac:(discriminate) eq_refl).
    destruct O1 as [K1 L1' F1].
    destruct (apply_shutdown_ok _ K1) as (K2 & L2 & C2 & St2 & P2 & W2).
    split; [exact K2 | split].
    + rewrite C2. cbn [calls set_pending]. rewrite L2. cbn [app] in L1'. rewrite L1'. exact P.
    + intros _. split; assumption.
Qed.
