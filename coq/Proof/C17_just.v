(* C17, part 2b: a second invariant, about WHEN success may be reported.  It is relative to two
   predicates of the history: EV h ("h has been evicted asynchronously") and JU w h ("blob h was
   in the cache when call w was made or after some event applied since"). *)
From Coq Require Import List NArith Bool Lia Permutation PeanoNat.
From K.Model Require Import C17.
From K.Proof Require Import C17_base C17_inv.
Import ListNotations.
Local Open Scope N_scope.

Fixpoint parked_tors (p : list pev) : list N :=
  match p with
  | [] => []
  | PNew _ t :: r => t :: parked_tors r
  | _ :: r => parked_tors r
  end.

Lemma parked_tors_app a b : parked_tors (a ++ b) = parked_tors a ++ parked_tors b.
Proof.
  induction a as [|e t IH]; cbn [parked_tors app]; [reflexivity|].
  destruct e; cbn [app]; now rewrite ?IH.
Qed.

Lemma in_parked_tors t p : In t (parked_tors p) <-> exists w, In (PNew w t) p.
Proof.
  induction p as [|e l IH]; cbn [parked_tors].
  - split; [intros [] | intros [w []]].
  - destruct e; cbn [In]; rewrite ?IH; split;
      try (intros [w0 H]; exists w0; now right);
      try (intros [w0 [H|H]]; [discriminate | now exists w0]).
    + intros [->|[w0 H]]; [exists w; now left | exists w0; now right].
    + intros [w0 [H|H]]; [inversion H; now left | right; now exists w0].
Qed.

Lemma memb_remove_all x h l : x <> h -> memb x (remove_all h l) = memb x l.
Proof.
  intros Hn. destruct (memb x l) eqn:E.
  - apply memb_In. apply memb_In in E. unfold remove_all. apply filter_In. split; [exact E|].
    apply negb_true_iff. apply N.eqb_neq. congruence.
  - destruct (memb x (remove_all h l)) eqn:E2; [|reflexivity].
    apply memb_In in E2. unfold remove_all in E2. apply filter_In in E2. destruct E2 as [E2 _].
    apply memb_In in E2. congruence.
Qed.

Section Just.
Variables (EV : N -> Prop) (JU : N -> N -> Prop).

Record PC (ts : list tor) (cs : list ctrl) (p : list pev) (ca : list N)
          (rs : list (N * res)) (cl : list (N * N)) : Prop := mkPC {
  (* a parked request whose torrent object is complete was made when the blob was cached *)
  p_new : forall w t, In (PNew w t) p -> tcomp ts t = true -> EV (thash ts t) \/ JU w (thash ts t);
  (* waiters of a complete dispatcher: the blob is still in the cache *)
  p_ctrl : forall c0, In c0 cs -> c_errors c0 <> [] -> tcomp ts (c_disp c0) = true ->
           memb (c_hash c0) ca = true \/ EV (c_hash c0);
  p_nil : forall w, In (w, RNil) rs -> exists h, In (w, h) cl /\ (EV h \/ JU w h);
  (* the torrent object of a parked request is nobody's dispatcher, nor another request's *)
  p_fresh : forall w t c0, In (PNew w t) p -> In c0 cs -> c_disp c0 <> t;
  p_nodup : NoDup (parked_tors p)
}.

Section Prim.
Variables (ts : list tor) (cs : list ctrl) (p : list pev) (ca : list N)
          (rs : list (N * res)) (cl : list (N * N)).
Hypothesis P : PC ts cs p ca rs cl.

Lemma pc_deliver ws r :
  (r = RNil -> forall w, In w ws -> exists h, In (w, h) cl /\ (EV h \/ JU w h)) ->
  PC ts cs p ca (deliver ws r rs) cl.
Proof.
  intros H. destruct P as [Pa Pb Pc Pd Pe]. constructor; try assumption.
  intros w Hw. apply in_deliver in Hw. destruct Hw as [Hw|[Hr Hw]]; [auto | now apply H].
Qed.

Lemma pc_ctrls cs' : (forall c0, In c0 cs' -> In c0 cs \/ (c_errors c0 = [] /\ ~ In (c_disp c0) (parked_tors p))) ->
  PC ts cs' p ca rs cl.
Proof.
  intros H. destruct P as [Pa Pb Pc Pd Pe]. constructor; try assumption.
  - intros c0 Hc He Ht. destruct (H c0 Hc) as [Hi|[E _]]; [eauto | congruence].
  - intros w t c0 Hp Hc. destruct (H c0 Hc) as [Hi|[_ Hn]]; [eauto|].
    intros E. apply Hn. rewrite E. apply in_parked_tors. now exists w.
Qed.

Lemma pc_cache ca' :
  (forall c0, In c0 cs -> memb (c_hash c0) ca = true -> memb (c_hash c0) ca' = true \/ EV (c_hash c0)) ->
  PC ts cs p ca' rs cl.
Proof.
  intros H. destruct P as [Pa Pb Pc Pd Pe]. constructor; try assumption.
  intros c0 Hc He Ht. destruct (Pb c0 Hc He Ht) as [Hm|Hm]; [now apply H | now right].
Qed.

Lemma pc_replace h c c' : NoDup (map c_hash cs) -> find_ctrl h cs = Some c ->
  c_hash c' = h -> c_disp c' = c_disp c ->
  (c_errors c' <> [] -> tcomp ts (c_disp c) = true -> memb h ca = true \/ EV h) ->
  PC ts (replace_ctrl c' cs) p ca rs cl.
Proof.
  intros Hnd F Hh Hd H. destruct P as [Pa Pb Pc Pd Pe].
  destruct (find_ctrl_split h cs c F Hnd) as [l1 [l2 [E1 [E2 [_ E4]]]]]. rewrite (E4 c' Hh).
  assert (Hin : forall x, In x (l1 ++ c' :: l2) -> x = c' \/ In x cs).
  { intros x Hx. rewrite E1. rewrite in_app_iff in *. cbn [In] in *.
    destruct Hx as [Hx|[Hx|Hx]]; [right; now left | left; now symmetry | right; right; now right]. }
  assert (Hc : In c cs) by (rewrite E1; apply in_elt).
  constructor; try assumption.
  - intros x Hx. destruct (Hin x Hx) as [->|Hx']; [rewrite Hh, Hd; auto | auto].
  - intros w t x Hp Hx. destruct (Hin x Hx) as [->|Hx']; [rewrite Hd; eauto | eauto].
Qed.

Lemma pc_pop l1 e l2 : p = l1 ++ e :: l2 ->
  PC ts cs (l1 ++ l2) ca rs cl /\
  (forall w t, e = PNew w t -> ~ In t (parked_tors (l1 ++ l2))).
Proof.
  intros E. destruct P as [Pa Pb Pc Pd Pe]. subst p. split.
  - constructor; try assumption.
    + intros w t Hi. apply Pa. now apply in_mid_incl.
    + intros w t c0 Hi. apply (Pd w). now apply in_mid_incl.
    + rewrite parked_tors_app in *. change (e :: l2) with ([e] ++ l2) in Pe. rewrite parked_tors_app in Pe.
      destruct e; cbn [parked_tors app] in Pe; try exact Pe. now apply NoDup_remove_1 in Pe.
  - intros w t ->. rewrite parked_tors_app in *. change (PNew w t :: l2) with ([PNew w t] ++ l2) in Pe.
    rewrite parked_tors_app in Pe. cbn [parked_tors app] in Pe. now apply NoDup_remove_2 in Pe.
Qed.

Lemma pc_push e :
  match e with
  | PNew w t => (tcomp ts t = true -> EV (thash ts t) \/ JU w (thash ts t)) /\
                (forall c0, In c0 cs -> c_disp c0 <> t) /\ ~ In t (parked_tors p)
  | _ => True
  end -> PC ts cs (p ++ [e]) ca rs cl.
Proof.
  intros H. destruct P as [Pa Pb Pc Pd Pe]. constructor; try assumption.
  - intros w t Hi. apply in_app_or in Hi. destruct Hi as [Hi|[Hi|[]]]; [auto|]. subst e. tauto.
  - intros w t c0 Hi. apply in_app_or in Hi. destruct Hi as [Hi|[Hi|[]]]; [eauto|]. subst e.
    destruct H as (_ & H & _). auto.
  - rewrite parked_tors_app. destruct e; cbn [parked_tors]; rewrite ?app_nil_r; try exact Pe.
    destruct H as (_ & _ & H). apply NoDup_rev in Pe. rewrite <- (rev_involutive (parked_tors p ++ [t])).
    apply NoDup_rev. rewrite rev_app_distr. cbn [rev app]. constructor; [|exact Pe].
    rewrite <- in_rev. exact H.
Qed.

Lemma pc_more_calls cl' : incl cl cl' -> PC ts cs p ca rs cl'.
Proof.
  intros H. destruct P as [Pa Pb Pc Pd Pe]. constructor; try assumption.
  intros w Hw. destruct (Pc w Hw) as (h & Hh & Hj). exists h. split; [now apply H | exact Hj].
Qed.

End Prim.

(* scheduler.go:233 CreateTorrent *)
Lemma pc_create ts cs p ca rs cl sn nw x q : CoreC ts cs p rs cl sn nw ->
  PC ts cs p ca rs cl -> PC (ts ++ [x]) cs p ca rs (q :: cl).
Proof.
  intros K P. destruct P as [Pa Pb Pc Pd Pe]. destruct K as [Kh Kc Kcc Kcs Kcn Kn Kcp Knil].
  constructor; try assumption.
  - intros w t Hi. destruct (Kn w t Hi) as (V & _). rewrite tcomp_app, thash_app by assumption. auto.
  - intros c0 Hc. destruct (Kc c0 Hc) as (_ & V & _). rewrite tcomp_app by assumption. auto.
  - intros w Hw. destruct (Pc w Hw) as (h & Hh & Hj). exists h. split; [now right | exact Hj].
Qed.

(* dispatcher.go:589 the last piece is written *)
Lemma pc_feed ts cs p ca rs cl sn nw h x : CoreC ts cs p rs cl sn nw ->
  PC ts cs p ca rs cl -> find_ctrl h cs = Some x ->
  PC (set_complete_at (N.to_nat (c_disp x)) ts) cs (p ++ [PComplete (c_disp x)]) (h :: ca) rs cl.
Proof.
  intros K P F. destruct P as [Pa Pb Pc Pd Pe]. destruct K as [Kh Kc Kcc Kcs Kcn Kn Kcp Knil].
  destruct (find_ctrl_hash h cs x F) as [Hh Hx]. destruct (Kc x Hx) as (XA & XB & _).
  constructor; try assumption.
  - intros w t Hi Ht. apply in_app_or in Hi. destruct Hi as [Hi|[Hi|[]]]; [|discriminate].
    rewrite thash_set. apply tcomp_set in Ht. destruct Ht as [Ht|[Ht _]]; [auto|].
    exfalso. apply (Pd w t x Hi Hx). now symmetry.
  - intros c0 Hc He Ht. apply tcomp_set in Ht. destruct Ht as [Ht|[Ht _]].
    + destruct (Pb c0 Hc He Ht) as [Hm|Hm]; [left | now right].
      apply memb_In. right. now apply memb_In.
    + left. apply memb_In. left. destruct (Kc c0 Hc) as (A & _). rewrite A, Ht, <- XA. now symmetry.
  - intros w t c0 Hi Hc. apply in_app_or in Hi. destruct Hi as [Hi|[Hi|[]]]; [eauto | discriminate].
  - rewrite parked_tors_app. cbn [parked_tors]. now rewrite app_nil_r.
Qed.

(* events.go:484 shutdownEvent *)
Lemma pc_shutdown ts cs p ca rs cl ws : PC ts cs p ca rs cl ->
  PC ts (map (fun c => mkC (c_hash c) (c_disp c) [] (c_lastw c) (c_lastr c)) cs) [] ca
     (deliver ws RStopped rs) cl.
Proof.
  intros P. destruct P as [Pa Pb Pc Pd Pe]. constructor.
  - intros w t [].
  - intros c0 Hc. apply in_map_iff in Hc. destruct Hc as (c1 & <- & _). cbn [c_errors]. congruence.
  - intros w Hw. apply in_deliver in Hw. destruct Hw as [Hw|[Hw _]]; [auto | discriminate].
  - intros w t c0 [].
  - constructor.
Qed.

End Just.

Lemma pc_mono (EV EV' : N -> Prop) (JU JU' : N -> N -> Prop) ts cs p ca rs cl :
  (forall h, EV h -> EV' h) -> (forall w h, JU w h -> JU' w h) ->
  PC EV JU ts cs p ca rs cl -> PC EV' JU' ts cs p ca rs cl.
Proof.
  intros H1 H2 [Pa Pb Pc Pd Pe]. constructor; try assumption.
  - intros w t Hi Ht. destruct (Pa w t Hi Ht); auto.
  - intros c0 Hc He Ht. destruct (Pb c0 Hc He Ht); auto.
  - intros w Hw. destruct (Pc w Hw) as (h & Hh & [Hj|Hj]); exists h; auto.
Qed.

(* ---------- on states ---------- *)
Definition PS (EV : N -> Prop) (JU : N -> N -> Prop) (s : st) : Prop :=
  PC EV JU (tors s) (ctrls s) (pending s) (cache s) (results s) (calls s).

Section Steps.
Variables (EV : N -> Prop) (JU : N -> N -> Prop).

Lemma cache_remove_torrent s h r x : x <> h -> memb x (cache s) = true ->
  memb x (cache (remove_torrent s h r)) = true.
Proof.
  intros Hn Hm. unfold remove_torrent. destruct (find_ctrl h (ctrls s)); [|exact Hm].
  destruct (tor_complete s (c_disp c)); simp_st; [exact Hm | now rewrite memb_remove_all].
Qed.

Lemma ps_remove_torrent s h r : Core s -> PS EV JU s -> r <> RNil -> PS EV JU (remove_torrent s h r).
Proof.
  intros K P Hr. pose proof (remove_torrent_shape s h r) as Sh.
  pose proof (cache_remove_torrent s h r) as Hca.
  destruct (find_ctrl h (ctrls s)) as [c|] eqn:F; [|now rewrite Sh].
  destruct (view_inv _ _ _ _ _ _ _ _ _ Sh) as (A & B & C & D & E & _).
  unfold PS. rewrite A, B, C, D, E.
  apply pc_deliver; [|congruence].
  apply pc_cache with (ca := cache s).
  - apply pc_ctrls with (cs := ctrls s); [exact P|]. intros c0 Hc. left. now apply drop_ctrl_incl in Hc.
  - intros c0 Hc Hm. left. apply Hca; [|exact Hm]. apply in_drop_ctrl in Hc. tauto.
Qed.

Lemma ps_tick_over c todo : forall s, Core s -> PS EV JU s -> PS EV JU (tick_over true c s todo).
Proof.
  induction todo as [|x t IH]; intros s K P; cbn [tick_over]; [exact P|].
  destruct (idle c s x); [|now apply IH].
  destruct (remove_torrent_ok s (c_hash x) RTimeout K) as (A & _); [discriminate|].
  apply IH; [now destruct A | apply ps_remove_torrent; [assumption.. | discriminate]].
Qed.

Lemma ps_apply_remove s h : Core s -> PS EV JU s -> PS EV JU (apply_remove true s h).
Proof.
  intros K P. unfold apply_remove.
  destruct (remove_torrent_ok s h RRemoved K) as (A & _ & Fn & _); [discriminate|].
  pose proof (ps_remove_torrent s h RRemoved K P ltac:(discriminate)) as P1.
  set (s1 := remove_torrent s h RRemoved) in *. unfold PS. simp_st.
  apply pc_cache with (ca := cache s1); [exact P1|].
  intros c0 Hc Hm. left. rewrite memb_remove_all; [exact Hm|].
  intros E. apply find_ctrl_none in Fn. apply Fn. rewrite <- E. now apply in_map.
Qed.

(* newTorrentEvent.apply; the popped event was PNew w t *)
Lemma ps_apply_new s w t : Core s -> PS EV JU s ->
  tvalid (tors s) t -> In (w, thash (tors s) t) (calls s) ->
  (tcomp (tors s) t = true -> EV (thash (tors s) t) \/ JU w (thash (tors s) t)) ->
  ~ In t (parked_tors (pending s)) ->
  PS EV JU (apply_new true s w t).
Proof.
  intros K P Hv Hc Hj Hfresh. rewrite apply_new_stages, th_eq. set (h := thash (tors s) t).
  (* stage 1 *)
  destruct (new1_ok s h t K) as ([K1 _ F1] & P1 & Post1).
  assert (PS1 : PS EV JU (new1 s h t)).
  { unfold new1. destruct (find_ctrl h (ctrls s)); [|exact P].
    destruct (_ && _); [|exact P]. apply ps_remove_torrent; [assumption.. | discriminate]. }
  destruct F1 as [Et1 Ec1 _ _ _ _].
  set (s1 := new1 s h t) in *.
  (* stage 2 *)
  assert (Post1' : forall c, find_ctrl h (ctrls s1) = Some c -> tcomp (tors s1) (c_disp c) = true -> tcomp (tors s1) t = true)
    by (rewrite Et1; exact Post1).
  destruct (new2_ok s1 h t K1) as ([K2 _ F2] & c & Fc & Post2); rewrite ?Et1; try assumption; try reflexivity.
  assert (PS2 : PS EV JU (new2 s1 h t)).
  { unfold new2. destruct (find_ctrl h (ctrls s1)) eqn:F; [exact PS1|]. cbv zeta.
    assert (Pn : PC EV JU (tors s1) (mkC h t [] (now s1) (now s1) :: ctrls s1) (pending s1) (cache s1) (results s1) (calls s1)).
    { apply pc_ctrls with (cs := ctrls s1); [exact PS1|]. intros c0 [<-|Hc0]; [right | now left].
      cbn [c_errors c_disp]. split; [reflexivity|]. now rewrite P1. }
    destruct (tor_complete s1 t); unfold PS; simp_st; [|exact Pn].
    now apply pc_push. }
  destruct F2 as [Et2 Ec2 _ _ _ _].
  set (s2 := new2 s1 h t) in *.
  (* stage 3 *)
  unfold new3. rewrite Fc, tc_eq, Et2, Et1.
  destruct (tcomp (tors s) (c_disp c)) eqn:B; unfold PS; simp_st.
  - apply pc_deliver; [exact PS2|]. intros _ w0 [<-|[]]. exists h. split; [now rewrite Ec2, Ec1|].
    rewrite Et1 in Post2. apply Hj. now apply Post2.
  - destruct (find_ctrl_hash _ _ _ Fc) as [Eh _].
    eapply pc_replace; [exact PS2 | | exact Fc | exact Eh | reflexivity | ].
    + unfold Core in K2. now destruct K2.
    + rewrite Et2, Et1, B. discriminate.
Qed.

Lemma ps_pop s l1 e l2 : PS EV JU s -> pending s = l1 ++ e :: l2 ->
  PS EV JU (set_pending s (l1 ++ l2)) /\
  (forall w t, e = PNew w t -> ~ In t (parked_tors (l1 ++ l2))).
Proof. intros P E. unfold PS. simp_st. now apply pc_pop with (p := pending s). Qed.

End Steps.

(* dispatcherCompleteEvent.apply: here the history predicate advances (the waiters' blob is in the
   cache after this event) *)
Lemma ps_apply_complete (EV : N -> Prop) (JU JU' : N -> N -> Prop) s d l1 l2 :
  Core s -> PS EV JU s -> pending s = l1 ++ PComplete d :: l2 ->
  (forall w h, JU w h -> JU' w h) ->
  (forall w h, In w (map fst (calls s)) -> memb h (cache s) = true -> JU' w h) ->
  PS EV JU' (apply_complete true (set_pending s (l1 ++ l2)) d).
Proof.
  intros K P Ep Hmono Hrule.
  destruct (ps_pop EV JU s l1 _ l2 P Ep) as (P0 & _).
  apply (pc_mono EV EV JU JU') in P0; [|auto|exact Hmono].
  pose proof K as K0. unfold Core in K0. rewrite Ep in K0. destruct K0 as [Kh Kc Kcc Kcs Kcn Kn Kcp Knil].
  assert (Hd : tcomp (tors s) d = true) by (apply Kcp; apply in_elt).
  unfold apply_complete. simp_st. cbn [andb]. rewrite th_eq. simp_st.
  destruct (find_ctrl (thash (tors s) d) (ctrls s)) as [c|] eqn:F; [|exact P0].
  destruct (N.eqb_spec (c_disp c) d) as [E|E]; cbn [negb]; [|exact P0].
  destruct (find_ctrl_hash _ _ _ F) as [Eh Hin].
  unfold PS. simp_st. apply pc_deliver.
  - eapply pc_replace; [exact P0 | exact Kh | exact F | exact Eh | reflexivity | ].
    cbn [c_errors]. congruence.
  - intros _ w Hw. exists (c_hash c). split; [eauto|].
    destruct P as [_ Pb _ _ _]. destruct (Pb c Hin) as [Hm|Hm].
    + intros En. rewrite En in Hw. contradiction.
    + congruence.
    + right. apply Hrule; [|exact Hm]. apply in_map_iff. exists (w, c_hash c). split; [reflexivity | eauto].
    + now left.
Qed.

Lemma calls_apply_complete_j s d : calls (apply_complete true s d) = calls s.
Proof.
  unfold apply_complete. destruct (find_ctrl _ _); [|reflexivity]. now destruct (_ && _).
Qed.

(* ---------- one step of the history ---------- *)
Theorem PS_step c s o (EV EV' : N -> Prop) (JU JU' : N -> N -> Prop) :
  Inv s -> PS EV JU s ->
  (forall h, EV h -> EV' h) -> (forall w h, JU w h -> JU' w h) ->
  (forall h, o = Evict h -> EV' h) ->
  (forall w h, In w (map fst (calls (step c s o))) ->
               is_apply o = true \/ (exists h', o = Download w h') ->
               memb h (cache (step c s o)) = true -> JU' w h) ->
  PS EV' JU' (step c s o).
Proof.
  intros I P Hev Hju Hevict Hrule. pose proof I as (K & _ & S).
  assert (P' : PS EV' JU' s) by (eapply pc_mono; eassumption).
  pose proof K as K0. unfold Core in K0. destruct K0 as [Kh Kc Kcc Kcs Kcn Kn Kcp Knil].
  unfold step in *. destruct o as [w h|h|h|h|dt| | |w|d|h| | ]; cbn [step_gen] in *.
  - (* Download *)
    destruct (negb (memb h (known s)) && negb (memb h (cache s))).
    + unfold PS. simp_st. apply pc_deliver; [|discriminate]. eapply pc_more_calls; [exact P'|].
      intros x Hx. now right.
    + set (x := mkT h (memb h (cache s))).
      pose proof (pc_create EV' JU' _ _ _ _ _ _ _ _ x (w, h) K P') as P1.
      destruct (new_tor_facts (tors s) x) as (V & Hh & Hc). cbn [t_hash t_complete x] in Hh, Hc.
      destruct (stopped s) eqn:St; unfold PS; simp_st.
      * apply pc_deliver; [exact P1 | discriminate].
      * apply pc_push; [exact P1|]. rewrite Hh, Hc. split; [|split].
        -- intros Hm. right. apply Hrule; [simp_st; now left | right; now exists h | simp_st; exact Hm].
        -- intros c0 Hc0 E. destruct (Kc c0 Hc0) as (_ & V0 & _). unfold tvalid in V0.
           rewrite E, Nnat.Nat2N.id in V0. lia.
        -- intros Hi. apply in_parked_tors in Hi. destruct Hi as (w0 & Hi).
           destruct (Kn w0 _ Hi) as (V0 & _). unfold tvalid in V0. rewrite Nnat.Nat2N.id in V0. lia.
  - (* Feed *)
    destruct (find_ctrl h (ctrls s)) as [x|] eqn:F; [|exact P'].
    destruct (_ || _); [exact P'|].
    pose proof (pc_feed EV' JU' _ _ _ _ _ _ _ _ h x K P' F) as P1.
    destruct (find_ctrl_hash _ _ _ F) as [Eh _].
    unfold PS. simp_st.
    eapply pc_replace; [exact P1 | exact Kh | exact F | exact Eh | reflexivity | ].
    intros _ _. left. apply memb_In. now left.
  - (* Remove *)
    destruct (stopped s); [exact P'|]. unfold PS. simp_st. now apply pc_push.
  - (* Evict *)
    unfold PS. simp_st. apply pc_cache with (ca := cache s); [exact P'|].
    intros c0 Hc0 Hm. destruct (N.eq_dec (c_hash c0) h) as [E|E].
    + right. rewrite E. now apply Hevict.
    + left. now rewrite memb_remove_all.
  - (* Advance *)
    exact P'.
  - (* TickSend *)
    destruct (stopped s); [exact P'|]. unfold PS. simp_st. now apply pc_push.
  - (* Stop *)
    destruct (_ || _); [exact P'|]. unfold PS. simp_st. now apply pc_push.
  - (* ApNew *)
    destruct (take_new w (pending s)) as [[t p']|] eqn:T; [|exact P'].
    destruct (take_new_split _ _ _ _ T) as (l1 & l2 & E & ->).
    destruct (Core_pop_state s l1 _ l2 K E) as (K1 & _ & _); [discriminate|].
    destruct (ps_pop EV' JU' s l1 _ l2 P' E) as (P1 & Hfresh).
    assert (Hnew : In (PNew w t) (pending s)) by (rewrite E; apply in_elt).
    destruct (Kn w t Hnew) as (V & C & _).
    apply ps_apply_new; simp_st; try assumption.
    + destruct P' as [Pa _ _ _ _]. now apply Pa.
    + now apply (Hfresh w t).
  - (* ApComplete *)
    destruct (remove_first_pev (pev_eqb (PComplete d)) (pending s)) as [p'|] eqn:R; [|exact P'].
    destruct (remove_first_split _ _ _ R) as (l1 & l2 & E & ->).
    apply (ps_apply_complete EV' JU' JU'); try assumption; [auto|].
    intros w0 h0 Hw Hm. apply Hrule; [|now left|].
    + rewrite calls_apply_complete_j. exact Hw.
    + unfold apply_complete. simp_st. destruct (find_ctrl _ _); [|exact Hm].
      destruct (_ && _); simp_st; exact Hm.
  - (* ApRemove *)
    destruct (remove_first_pev (pev_eqb (PRemove h)) (pending s)) as [p'|] eqn:R; [|exact P'].
    destruct (remove_first_split _ _ _ R) as (l1 & l2 & E & ->).
    destruct (Core_pop_state s l1 _ l2 K E) as (K1 & _ & _); [discriminate|].
    destruct (ps_pop EV' JU' s l1 _ l2 P' E) as (P1 & _).
    now apply ps_apply_remove.
  - (* ApTick *)
    destruct (remove_first_pev (pev_eqb PTick) (pending s)) as [p'|] eqn:R; [|exact P'].
    destruct (remove_first_split _ _ _ R) as (l1 & l2 & E & ->).
    destruct (Core_pop_state s l1 _ l2 K E) as (K1 & _ & _); [discriminate|].
    destruct (ps_pop EV' JU' s l1 _ l2 P' E) as (P1 & _).
    unfold apply_tick. now apply ps_tick_over.
  - (* ApShutdown *)
    destruct (remove_first_pev (pev_eqb PShutdown) (pending s)) as [p'|] eqn:R; [|exact P'].
    destruct (remove_first_split _ _ _ R) as (l1 & l2 & E & ->).
    destruct (ps_pop EV' JU' s l1 _ l2 P' E) as (P1 & _).
    unfold apply_shutdown, PS. simp_st. apply pc_shutdown with (p := l1 ++ l2). apply pc_deliver; [exact P1 | discriminate].
Qed.
