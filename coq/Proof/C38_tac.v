(* C38: tactics and small lemmas shared by the per-pattern proofs. *)
From Coq Require Import List NArith Arith Bool Lia.
From K.Gen Require Import C38_consts.
From K.Model Require Import C38.
From K.Proof Require Import C38_engine C38_segs.
Import ListNotations.
Local Open Scope N_scope.

Ltac unf_ast H := unfold ast_get_repo, ast_get_repo_prefix, ast_get_blob_digest, ast_get_layer_digest, ast_get_manifest_digest,
  ast_get_manifest_tag, ast_get_upload_uuid, ast_get_upload_algo_offset, ast_match_manifests, ast_match_blobs,
  ast_match_layers, ast_match_uploads, ast_match_uploads_hashstates, hs_tail, kw_alt, seqs, L, dots, dots_lazy, noslash, hexs, alnums, digits in H.
Ltac unf_ast_goal := unfold ast_get_repo, ast_get_repo_prefix, ast_get_blob_digest, ast_get_layer_digest, ast_get_manifest_digest,
  ast_get_manifest_tag, ast_get_upload_uuid, ast_get_upload_algo_offset, ast_match_manifests, ast_match_blobs,
  ast_match_layers, ast_match_uploads, ast_match_uploads_hashstates, hs_tail, kw_alt, seqs, L, dots, dots_lazy, noslash, hexs, alnums, digits.
(* break a D hypothesis into its components *)
Ltac dD H := unf_ast H; cbn [D] in H;
  repeat match goal with
  | H : exists _, _ |- _ => destruct H
  | H : _ /\ _ |- _ => destruct H
  | H : _ \/ _ |- _ => destruct H
  end.

Definition s_docker := [100; 111; 99; 107; 101; 114].
Definition s_registry := [114; 101; 103; 105; 115; 116; 114; 121].
Definition s_v2 := [118; 50].
Lemma segs_v2_root : segs v2_root = [[]; s_docker; s_registry; s_v2].
Proof. reflexivity. Qed.
Lemma segs_lit_repositories : segs s_repositories = [s_repositories]. Proof. reflexivity. Qed.
Lemma segs_lit_manifests : segs s_manifests = [s_manifests]. Proof. reflexivity. Qed.
Lemma segs_lit_layers : segs s_layers = [s_layers]. Proof. reflexivity. Qed.
Lemma segs_lit_uploads : segs s_uploads = [s_uploads]. Proof. reflexivity. Qed.
Lemma segs_lit_blobs : segs s_blobs = [s_blobs]. Proof. reflexivity. Qed.
Lemma segs_lit_sha256 : segs s_sha256 = [s_sha256]. Proof. reflexivity. Qed.
Lemma segs_lit_tags : segs s_tags = [s_tags]. Proof. reflexivity. Qed.
Lemma segs_lit_revisions : segs s_revisions = [s_revisions]. Proof. reflexivity. Qed.
Lemma segs_lit_data : segs s_data = [s_data]. Proof. reflexivity. Qed.
Lemma segs_lit_link : segs s_link = [s_link]. Proof. reflexivity. Qed.
Lemma segs_lit_current : segs s_current = [s_current]. Proof. reflexivity. Qed.
Lemma segs_lit_index : segs s_index = [s_index]. Proof. reflexivity. Qed.
Lemma segs_lit_startedat : segs s_startedat = [s_startedat]. Proof. reflexivity. Qed.
Lemma segs_lit_hashstates : segs s_hashstates = [s_hashstates]. Proof. reflexivity. Qed.
Lemma segs_nil : segs [] = [[]]. Proof. reflexivity. Qed.
Global Hint Rewrite segs_app_sl segs_cons_sl segs_v2_root segs_lit_repositories segs_lit_manifests segs_lit_layers segs_lit_uploads
  segs_lit_blobs segs_lit_sha256 segs_lit_tags segs_lit_revisions segs_lit_data segs_lit_link segs_lit_current
  segs_lit_index segs_lit_startedat segs_lit_hashstates segs_nil : c38segs.

Lemma firstn2_len (u : list N) : length u = 64%nat -> length (firstn 2 u) = 2%nat.
Proof. intros H. rewrite firstn_length. rewrite H. reflexivity. Qed.
Lemma forallb_firstn {A} (f : A -> bool) n l : forallb f l = true -> forallb f (firstn n l) = true.
Proof.
  revert n; induction l as [|c l IH]; intros [|n] H; cbn in *; auto.
  apply andb_true_iff in H as [H1 H2]. rewrite H1. cbn. auto.
Qed.
Lemma firstn_nosl n u : nosl u = true -> nosl (firstn n u) = true.
Proof.
  revert n; induction u as [|c u IH]; intros [|n] H; cbn in *; auto.
  apply andb_true_iff in H as [H1 H2]. rewrite H1. cbn. auto.
Qed.

(* turn validity hypotheses into the facts the segment reasoning uses *)
Ltac facts :=
  repeat match goal with
  | H : _ && _ = true |- _ => apply andb_true_iff in H; destruct H
  | H : uuid_ok ?u = true |- _ => let F := fresh "F" in pose proof (uuid_ok_facts u H) as F; destruct F as (? & ? & ? & ?); clear H
  | H : tag_ok ?u = true |- _ => let F := fresh "F" in pose proof (tag_ok_facts u H) as F; destruct F as (? & ? & ? & ?); clear H
  | H : valid_algo ?u = true |- _ => let F := fresh "F" in pose proof (valid_algo_cls u H) as F; destruct F as (? & ?); pose proof (valid_algo_nosl u H); clear H
  | H : valid_offset ?u = true |- _ => let F := fresh "F" in pose proof (valid_offset_cls u H) as F; destruct F as (? & ?); pose proof (valid_offset_nosl u H); clear H
  | H : valid_hex ?u = true |- _ =>
      pose proof (valid_hex_len u H); pose proof (valid_hex_cls u H); pose proof (valid_hex_nosl u H);
      pose proof (valid_hex_sha u H); pose proof (valid_hex_nonnil u H); pose proof (firstn_nosl 2 u (valid_hex_nosl u H));
      pose proof (firstn2_len u (valid_hex_len u H)); clear H
  | H : forallb (cs_in ?cs) ?u = true |- _ =>
      lazymatch goal with
      | _ : nosl u = true |- _ => fail
      | _ => let F := fresh "F" in assert (F : nosl u = true) by (apply (cls_nosl cs u H); reflexivity)
      end
  end.

(* rewrite an equation between paths into one between their segment lists *)
Ltac to_segs Hp :=
  apply (f_equal segs) in Hp;
  unfold build, repo_dir, sls, sl in Hp;
  rewrite ?app_nil_r in Hp; repeat (progress (rewrite <- ?app_assoc in Hp; cbn [app] in Hp));
  autorewrite with c38segs in Hp;
  repeat match goal with Hn : nosl ?u = true |- _ => rewrite (segs_nosl u Hn) in Hp end.

Lemma cons_inj {A} (a b : A) X Y : a :: X = b :: Y -> a = b /\ X = Y.
Proof. intros H; injection H; auto. Qed.
Ltac inj_loop Hp :=
  repeat lazymatch type of Hp with
  | _ :: _ = _ :: _ => let E := fresh "E" in apply cons_inj in Hp; destruct Hp as [E Hp]
  end.
(* compare two segment lists from the end *)
Ltac rev_inj Hp :=
  apply (f_equal (@rev (list N))) in Hp;
  repeat rewrite rev_app_distr in Hp; cbn [rev app] in Hp;
  repeat (progress (rewrite <- ?app_assoc in Hp; cbn [app] in Hp));
  inj_loop Hp.
Ltac lit_contra := match goal with
  | E : ?a = ?b |- _ => solve [discriminate E]
  | E : [] = _ :: _ |- _ => solve [discriminate E]
  end.

Lemma rev_segs_head r Y a Z : rev (segs r) ++ Y = a :: Z -> In a (segs r).
Proof.
  destruct (rev (segs r)) as [|h t] eqn:E; intros H.
  - apply (f_equal (@rev _)) in E. rewrite rev_involutive in E. exfalso. eapply segs_nonnil; eauto.
  - cbn in H. injection H as -> _. apply in_rev. rewrite E. left; reflexivity.
Qed.
(* a keyword segment (starting with '_') cannot be a component of a well-formed repository *)
Ltac repo_contra := match goal with
  | Hr : repo_ok ?r = true, Hp : rev (segs ?r) ++ _ = ?a :: _ |- _ =>
      let Hin := fresh in pose proof (rev_segs_head _ _ _ _ Hp) as Hin; apply (repo_ok_in _ _ Hr) in Hin; vm_compute in Hin; discriminate Hin
  | Hr : repo_ok ?r = true, Hp : ?a :: _ = rev (segs ?r) ++ _ |- _ =>
      let Hin := fresh in pose proof (rev_segs_head _ _ _ _ (eq_sym Hp)) as Hin; apply (repo_ok_in _ _ Hr) in Hin; vm_compute in Hin; discriminate Hin
  end.
(* a symbolic component known not to start with '_' equals a keyword *)
Ltac hd_contra := match goal with
  | H : hd 0 ?u <> 95, E : ?u = _ |- _ => solve [exfalso; apply H; rewrite E; reflexivity]
  | H : hd 0 ?u <> 95, E : _ = ?u |- _ => solve [exfalso; apply H; rewrite <- E; reflexivity]
  | H : hd 0 ?u <> 95 |- _ => solve [exfalso; apply H; reflexivity]
  end.
Ltac len_contra := match goal with
  | H : length ?u = _ |- _ => solve [subst; cbn in H; discriminate H]
  | H : length ?u = _, E : ?u = _ |- _ => solve [rewrite E in H; cbn in H; discriminate H]
  | H : length ?u = _, E : _ = ?u |- _ => solve [rewrite <- E in H; cbn in H; discriminate H]
  end.
Ltac cls_contra := match goal with
  | H : forallb (cs_in _) ?lit = true |- _ => solve [vm_compute in H; discriminate H]
  end.
Ltac finish := first [ lit_contra | repo_contra | hd_contra | len_contra | solve [subst; try reflexivity; auto] | solve [subst; first [lit_contra | hd_contra | len_contra | cls_contra | repo_contra]] ].

(* uniqueness goals: every declarative match of the built path yields the expected captures *)
Ltac uniq := let t1 := fresh "t1" in let t2 := fresh "t2" in let c' := fresh "c'" in
  let Hp := fresh "Hp" in let HD := fresh "HD" in
  intros t1 t2 c' Hp HD; dD HD; subst; facts; to_segs Hp; rev_inj Hp; finish.

(* existence goals: the string is presented as nested appends mirroring the pattern *)
Lemma dots_ok x : x <> [] -> nonl x = true -> x <> [] /\ forallb (cs_in Dot) x = true /\ (@nil (list N)) = [].
Proof. auto. Qed.
Lemma repo_dir_nonnil r : repo_dir r <> [].
Proof. unfold repo_dir, v2_root. discriminate. Qed.
Lemma repo_dir_nonl r : repo_ok r = true -> nonl (repo_dir r) = true.
Proof. intros H. unfold repo_dir. rewrite !nonl_app, (repo_ok_nonl r H). reflexivity. Qed.

Ltac dstep :=
  lazymatch goal with
  | |- D (Seq _ _) _ _ _ => cbn [D]; do 4 eexists; split; [reflexivity|split; [|split]]
  | |- D (Lit _) _ _ _ => cbn [D]; split; reflexivity
  | |- D (Grp _) _ _ _ => cbn [D]; eexists; split; [|reflexivity]
  | |- D (NGrp _) _ _ _ => cbn [D]
  | |- D Eol _ _ _ => cbn [D]; repeat split; reflexivity
  | |- D (Plus _ _) _ _ _ => cbn [D]; split; [|split; [|reflexivity]]
  | |- D (Rep _ _) _ _ _ => cbn [D]; split; [|split; [|reflexivity]]
  end.

Lemma D_seq a b s1 s2 rest c1 c2 c : D a s1 (s2 ++ rest) c1 -> D b s2 rest c2 -> c = c1 ++ c2 -> D (Seq a b) (s1 ++ s2) rest c.
Proof. intros Ha Hb ->. cbn [D]. exists s1, s2, c1, c2. auto. Qed.
Lemma D_grp a s rest c' c : D a s rest c' -> c = c' ++ [s] -> D (Grp a) s rest c.
Proof. intros Ha ->. cbn [D]. eauto. Qed.
Lemma D_lit l rest : D (Lit l) l rest [].
Proof. cbn; auto. Qed.
Lemma D_lit_nil l : D (Lit l) (l ++ []) [] [].
Proof. rewrite app_nil_r. cbn; auto. Qed.
Lemma D_eol : D Eol [] [] [].
Proof. cbn; auto. Qed.
Lemma D_plus g cs s rest : s <> [] -> forallb (cs_in cs) s = true -> D (Plus g cs) s rest [].
Proof. cbn; auto. Qed.
Lemma D_rep n cs s rest : length s = n -> forallb (cs_in cs) s = true -> D (Rep n cs) s rest [].
Proof. cbn; auto. Qed.
Lemma D_dots g x rest : x <> [] -> nonl x = true -> D (Plus g Dot) x rest [].
Proof. intros. apply D_plus; auto. Qed.
Lemma D_lit_eol l : D (Seq (Lit l) Eol) (l ++ []) [] [].
Proof. eapply D_seq; [apply D_lit|apply D_eol|reflexivity]. Qed.

Lemma D_opt_some a s rest c : D a s rest c -> D (Opt a) s rest c.
Proof. cbn [D]; auto. Qed.
Lemma D_opt_none a rest : D (Opt a) [] rest [].
Proof. cbn [D]; auto. Qed.
Lemma D_alt_l a b s rest c : D a s rest c -> D (Alt a b) s rest c.
Proof. cbn [D]; auto. Qed.
Lemma D_alt_r a b s rest c : D b s rest c -> D (Alt a b) s rest c.
Proof. cbn [D]; auto. Qed.

(* build a D derivation for a string already presented as nested appends *)
Ltac dI :=
  repeat lazymatch goal with
  | |- D (Seq _ _) _ _ _ => eapply D_seq
  | |- D (Lit _) _ _ _ => apply D_lit
  | |- D Eol _ _ _ => apply D_eol
  | |- D (Grp _) _ _ _ => eapply D_grp
  | |- D (Plus _ _) _ _ _ => apply D_plus
  | |- D (Rep _ _) _ _ _ => apply D_rep
  | |- D (NGrp ?a) ?s ?r ?c => change (D a s r c)
  end.

Ltac dI' := dI; eauto; try reflexivity; try (match goal with H : D _ _ _ _ |- _ => exact H end); try reflexivity.

(* where can a keyword segment sit in a built repository path?  only in the layout suffix *)
Lemma kw_scan_root P kw Y r SUF : hd 0 kw = 95 -> repo_ok r = true ->
  [] :: s_docker :: s_registry :: s_v2 :: s_repositories :: segs r ++ SUF = P ++ kw :: Y ->
  exists Dl, SUF = Dl ++ kw :: Y.
Proof.
  intros Hk Hr H.
  change ([] :: s_docker :: s_registry :: s_v2 :: s_repositories :: segs r ++ SUF)
    with (([[]; s_docker; s_registry; s_v2; s_repositories] ++ segs r) ++ SUF) in H.
  symmetry in H. apply app_eq_app in H as (l & [[HP HS]|[HP HS]]).
  - exists l. exact HS.
  - destruct l as [|x l].
    + exists []. cbn in HS. symmetry. exact HS.
    + exfalso. cbn in HS. injection HS as <- _.
      assert (Hin : In kw ([[]; s_docker; s_registry; s_v2; s_repositories] ++ segs r)) by (rewrite HP; apply in_or_app; right; left; reflexivity).
      apply in_app_or in Hin as [Hin|Hin].
      * cbn in Hin. repeat destruct Hin as [Hin|Hin]; try (subst kw; cbn in Hk; discriminate Hk). exact Hin.
      * apply (repo_ok_in _ _ Hr) in Hin. apply seg_ok_hd in Hin. congruence.
Qed.

(* enumerate the positions of the keyword inside the (concrete-length) layout suffix *)
Ltac scan_suffix H :=
  let Dl := fresh "Dl" in destruct H as (Dl & H);
  repeat (destruct Dl as [|? Dl]; cbn [app] in H;
          [ inj_loop H | (apply cons_inj in H; let E := fresh "E" in destruct H as [E H]) || discriminate H ]).

Lemma segs_lit_prefix l s : nosl l = true -> exists h r, segs (l ++ s) = (l ++ h) :: r.
Proof.
  induction l as [|c l IH]; intros H.
  - cbn. pose proof (segs_nonnil s). destruct (segs s) as [|h r]; [congruence|]. exists h, r. reflexivity.
  - cbn in H. apply andb_true_iff in H as [Hc Hl]. apply negb_true_iff in Hc.
    destruct (IH Hl) as (h & r & E). exists h, r. cbn [app segs]. rewrite Hc, E. reflexivity.
Qed.
(* an equation  [... concrete ...] = segs (literal ++ unknown)  with a different literal in front *)
Ltac prefix_contra := match goal with
  | Hp : _ = segs (?l ++ ?s) |- _ =>
      let h := fresh "h" in let r := fresh "r" in let E := fresh "E" in
      destruct (segs_lit_prefix l s eq_refl) as (h & r & E); rewrite E in Hp; inj_loop Hp;
      match goal with E' : _ = l ++ h |- _ => solve [vm_compute in E'; discriminate E'] end
  | Hp : segs (?l ++ ?s) = _ |- _ =>
      let h := fresh "h" in let r := fresh "r" in let E := fresh "E" in
      destruct (segs_lit_prefix l s eq_refl) as (h & r & E); rewrite E in Hp; inj_loop Hp;
      match goal with E' : l ++ h = _ |- _ => solve [vm_compute in E'; discriminate E'] end
  end.
Ltac finish2 := first [ finish | prefix_contra | solve [subst; prefix_contra] ].

(* uniqueness by scanning for the keyword from the front (patterns with a variable-length tail) *)
Ltac uniq_scan := let t1 := fresh "t1" in let t2 := fresh "t2" in let c' := fresh "c'" in
  let Hp := fresh "Hp" in let HD := fresh "HD" in
  intros t1 t2 c' Hp HD; dD HD; subst; facts; to_segs Hp; cbn [app] in Hp;
  (eapply kw_scan_root in Hp; [|reflexivity|assumption]); scan_suffix Hp; finish2.
Ltac by_unique :=
  lazymatch goal with |- exec ?r ?p = Some ?c0 =>
    apply (exec_unique r p p [] c0); [symmetry; apply app_nil_r | | ] end.
Ltac by_none := apply exec_none;
  let t1 := fresh "t1" in let t2 := fresh "t2" in let c' := fresh "c'" in
  let Hp := fresh "Hp" in let HD := fresh "HD" in
  intros t1 t2 c' Hp HD; dD HD; subst; facts; to_segs Hp.

(* enumerate the positions of a keyword in a fully concrete segment list:  cells = segs x ++ kw :: Y *)
Ltac scan_front H :=
  lazymatch type of H with
  | _ = segs ?x ++ _ =>
      let Dl := fresh "Dl" in let EDl := fresh "EDl" in
      remember (segs x) as Dl eqn:EDl; clear EDl;
      repeat (destruct Dl as [|? Dl]; cbn [app] in H;
              [ inj_loop H | (apply cons_inj in H; let E := fresh "E" in destruct H as [E H]) || discriminate H ])
  end.
