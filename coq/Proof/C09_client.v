(* C09: the client operations preserve the invariant and return what the property promises *)
From Coq Require Import List NArith Bool Lia.
From K.Model Require Import C09.
From K.Proof Require Import C09_base C09_inv C09_frame C09_reads.
Import ListNotations.
Local Open Scope N_scope.

(* the invariant of the keys an operation does not touch *)
Ltac kframe s :=
  apply (kinv_frame s); simp; auto; try lia.

Lemma inc_or_live_present : forall s g k, Inv s g ->
  match gget g k with GInc _ _ | GLive _ _ => True | _ => False end ->
  get k (mem s) <> None \/ get k (disk s) <> None.
Proof.
  intros s g k HI HG. destruct (gget g k) as [|d mds|d mds|] eqn:E; try tauto.
  - destruct HI as [_ H]. destruct (H k) as [_ X]. rewrite E in X. cbn in X.
    destruct X as [[m [A _]]|[_ [_ [e [A _]]]]]; [left|right]; congruence.
  - destruct (live_view s g k d mds HI E) as [[m [A _]]|[_ [e [A _]]]]; [left|right]; congruence.
Qed.

Lemma fb_none_of_mem_none : forall s g k, Inv s g -> get k (mem s) = None -> get k (fblobs s) = None.
Proof.
  intros s g k [_ H] HM. destruct (H k) as [[G1 _] _].
  destruct (get k (fblobs s)) as [id|] eqn:E; auto.
  destruct (G1 id eq_refl) as [_ [_ [m [A _]]]]. congruence.
Qed.

Lemma w_inv_same : forall s s',
  wpc s' = wpc s -> nxt s <= nxt s' ->
  (forall id fo', pc_id (wpc s) = Some id -> get id (heap s') = Some fo' ->
                  exists fo, get id (heap s) = Some fo /\ f_key fo = f_key fo') ->
  w_inv s -> w_inv s'.
Proof.
  unfold w_inv. intros s s' HP HN HH HW. rewrite HP.
  destruct (pc_id (wpc s)) as [id|] eqn:E1; auto. destruct (wkey (wpc s)) as [k|] eqn:E2; auto.
  destruct HW as [A B]. split; [lia|]. intros fo' Hf. destruct (HH id fo' eq_refl Hf) as [fo [C D]].
  rewrite <- D. auto.
Qed.

Lemma inv_create : forall s g k d pl, Inv s g -> guard s (Create k d pl) = true ->
  let '(s', r) := cstep s (Create k d pl) in
  let '(g', ok) := gstep g (Create k d pl) r in ok = true /\ Inv s' g'.
Proof.
  intros s g k d pl HI HG. cbn in HG. apply negb_true_iff in HG.
  pose proof (inc_or_live_present s g k HI) as HP.
  cbn [cstep].
  destruct (get k (mem s)) as [m|] eqn:EM; [|destruct (get k (disk s)) as [e|] eqn:ED].
  - (* exists in memory *)
    cbn [gstep]. split; auto. destruct (gget g k) eqn:E; auto.
    destruct HI as [_ H]. destruct (H k) as [_ X]. rewrite E in X. cbn in X. destruct X; congruence.
  - (* exists on disk *)
    cbn [gstep]. split; auto. destruct (gget g k) eqn:E; auto.
    destruct HI as [_ H]. destruct (H k) as [_ X]. rewrite E in X. cbn in X. destruct X as [_ [X|X]]; try congruence.
    apply at_created_won in X. congruence.
  - pose proof (fb_none_of_mem_none s g k HI EM) as EF.
    assert (HK : match gget g k with GAbsent | GLimbo => true | _ => false end = true).
    { destruct (gget g k); auto; exfalso; destruct HP as [X|X]; auto. }
    destruct HI as [HW H].
    destruct pl; cbn [gstep]; (split; [auto|]).
    + (* memory *)
      split.
      * apply (w_inv_same s); [simp; auto | simp; lia | intros id fo' _ Hf; simp; eauto | exact HW].
      * intros k'. destruct (N.eq_dec k k') as [<-|NE].
        -- simp. split.
           ++ unfold gen_inv. simp. rewrite EF, ED, HG. repeat split; auto; try discriminate.
           ++ cbn [ghost_inv]. left. eexists. simp. repeat split; auto; try apply mds_eq_refl.
        -- simp. kframe s; try apply H.
    + (* disk *)
      split.
      * apply (w_inv_same s); [simp; auto | simp; lia | intros id fo' _ Hf; simp; eauto | exact HW].
      * intros k'. destruct (N.eq_dec k k') as [<-|NE].
        -- simp. split.
           ++ unfold gen_inv. simp. rewrite EF, EM, HG. repeat split; auto; try discriminate.
           ++ cbn [ghost_inv]. right. simp. repeat split; auto. eexists. repeat split; auto; try apply mds_eq_refl.
        -- simp. kframe s; try apply H.
    + split; auto.
Qed.

(* wk_inv once k is gone from memory and from the flusher's table *)
Lemma wk_inv_gone : forall p, wk_inv p None None.
Proof. destruct p; cbn; auto. Qed.

Lemma gen_inv_gone : forall s k, get k (mem s) = None -> get k (fblobs s) = None -> gen_inv s k.
Proof.
  intros s k HM HF. unfold gen_inv. rewrite HM, HF. repeat split; try discriminate.
  intros _. apply wk_inv_gone.
Qed.

Lemma inv_delete : forall s g k, Inv s g -> guard s (Delete k) = true ->
  let '(s', r) := cstep s (Delete k) in
  let '(g', ok) := gstep g (Delete k) r in ok = true /\ Inv s' g'.
Proof.
  intros s g k HI HG. cbn in HG. apply negb_true_iff in HG.
  pose proof (inc_or_live_present s g k HI) as HP.
  cbn [cstep].
  destruct (get k (mem s)) as [m|] eqn:EM; [|destruct (get k (disk s)) as [e|] eqn:ED].
  - cbn [gstep]. split; auto. destruct HI as [HW H]. split.
    + apply (w_inv_same s); [simp; auto | simp; lia | intros id fo' _ Hf; simp; eauto | exact HW].
    + intros k'. destruct (N.eq_dec k k') as [<-|NE].
      * simp. split; [apply gen_inv_gone; simp; auto|]. cbn [ghost_inv]. simp. auto.
      * simp. kframe s; try apply H.
  - pose proof (fb_none_of_mem_none s g k HI EM) as EF.
    cbn [gstep]. split; auto. destruct HI as [HW H]. split.
    + apply (w_inv_same s); [simp; auto | simp; lia | intros id fo' _ Hf; simp; eauto | exact HW].
    + intros k'. destruct (N.eq_dec k k') as [<-|NE].
      * simp. split; [apply gen_inv_gone; simp; auto|]. cbn [ghost_inv]. simp. auto.
      * simp. kframe s; try apply H.
  - cbn [gstep]. split; auto.
    destruct (gget g k); auto; exfalso; destruct HP as [X|X]; auto.
Qed.

Lemma inv_evictmem : forall s g k, Inv s g ->
  let '(s', r) := cstep s (EvictMem k) in
  let '(g', ok) := gstep g (EvictMem k) r in ok = true /\ Inv s' g'.
Proof.
  intros s g k HI. cbn [cstep gstep].
  destruct (get k (mem s)) as [m|] eqn:EM; [|split; auto].
  destruct (m_complete m && negb (m_banned m)) eqn:EC; [|split; auto].
  apply andb_true_iff in EC as [EC EB]. apply negb_true_iff in EB.
  split; auto. destruct HI as [HW H].
  assert (EF : get k (fblobs s) = None).
  { destruct (H k) as [[G1 _] _]. destruct (get k (fblobs s)) as [id|] eqn:E; auto.
    destruct (G1 id eq_refl) as [_ [_ [m' [A [B _]]]]]. congruence. }
  split.
  - apply (w_inv_same s); [simp; auto | simp; lia | intros id fo' _ Hf; simp; eauto | exact HW].
  - intros k'. destruct (N.eq_dec k k') as [<-|NE].
    + split; [apply gen_inv_gone; simp; auto|].
      destruct (H k) as [_ X]. destruct (gget g k) as [|d mds|d mds|]; cbn [ghost_inv] in *; simp; auto.
      * destruct X; congruence.
      * destruct X as [[m' [A [B _]]]|[A _]]; congruence.
      * unfold live_inv in *. simp. rewrite EM in X. destruct X as [_ [_ [_ [X|[X _]]]]]; [|congruence].
        unfold synced in *. simp. auto.
    + kframe s; try apply H.
Qed.

Lemma inv_evictdisk : forall s g k, Inv s g ->
  let '(s', r) := cstep s (EvictDisk k) in
  let '(g', ok) := gstep g (EvictDisk k) r in ok = true /\ Inv s' g'.
Proof.
  intros s g k HI. cbn [cstep].
  destruct (get k (disk s)) as [e|] eqn:ED; [|cbn [gstep]; split; auto].
  destruct (d_complete e) eqn:EC; [|cbn [gstep]; split; auto].
  destruct HI as [HW H].
  assert (HX : Inv (set_disk s (del k (disk s)))
                   (match gget g k with GLive _ _ => put k GLimbo g | _ => g end)).
  { split.
    - apply (w_inv_same s); [simp; auto | simp; lia | intros id fo' _ Hf; simp; eauto | exact HW].
    - intros k'. destruct (N.eq_dec k k') as [<-|NE].
      + destruct (H k) as [GI X]. split.
        * apply (gen_inv_transfer s); simp; auto; lia.
        * destruct (gget g k) as [|d mds|d mds|] eqn:E; simp; rewrite ?E; cbn [ghost_inv] in *; simp; auto.
          -- tauto.
          -- destruct X as [X|[A [B [e' [C [D _]]]]]]; [left; auto|congruence].
      + assert (gget (match gget g k with GLive _ _ => put k GLimbo g | _ => g end) k' = gget g k') as ->.
        { destruct (gget g k); auto. simp. auto. }
        kframe s; try apply H. }
  cbn [gstep]. destruct (gget g k); split; auto.
Qed.

Lemma mark_dirty_eq : forall s k m,
  mark_dirty s k m = mk (mem s) (disk s) (put k (nxt s) (fblobs s))
                        (put (nxt s) (mkf k true (map fst (m_mds m))) (heap s))
                        (queue s ++ [k]) (nxt s + 1) (wpc s).
Proof. reflexivity. Qed.

Lemma wpos_off : forall p k, won p k = false -> wpos p k = WIdle.
Proof. intros; unfold wpos; rewrite H; auto. Qed.

Lemma fb_id_lt : forall s g k id, Inv s g -> get k (fblobs s) = Some id -> id < nxt s.
Proof. intros s g k id [_ H] E. destruct (H k) as [[G1 _] _]. apply G1; auto. Qed.

Lemma inv_markcomplete : forall s g k, Inv s g -> guard s (MarkComplete k) = true ->
  let '(s', r) := cstep s (MarkComplete k) in
  let '(g', ok) := gstep g (MarkComplete k) r in ok = true /\ Inv s' g'.
Proof.
  intros s g k HI HG. cbn in HG. apply negb_true_iff in HG.
  pose proof (inc_or_live_present s g k HI) as HP.
  cbn [cstep].
  destruct (get k (mem s)) as [m|] eqn:EM.
  - destruct (m_complete m) eqn:EC.
    + (* already complete in memory: no-op *)
      cbn [gstep]. destruct HI as [HW H]. destruct (H k) as [_ X].
      destruct (gget g k) as [|d mds|d mds|] eqn:E; cbn [ghost_inv] in X.
      * destruct X; congruence.
      * destruct X as [[m' [A [B _]]]|[A _]]; congruence.
      * split; auto. split; auto.
      * split; auto. split; auto.
    + (* MarkComplete proper: ban, complete, markDirty *)
      destruct HI as [HW H]. destruct (H k) as [[G1 [G2 G3]] X].
      destruct (G2 m EM EC) as [ED [EF EW]]. rewrite ED. rewrite mark_dirty_eq. simp.
      set (m' := m_set_complete (m_set_banned m true)).
      assert (HGen : forall g', (forall k', k <> k' -> gget g' k' = gget g k') ->
                ghost_inv (mk (put k m' (mem s)) (disk s) (put k (nxt s) (fblobs s))
                              (put (nxt s) (mkf k true (map fst (m_mds m))) (heap s))
                              (queue s ++ [k]) (nxt s + 1) (wpc s)) (gget g' k) k ->
                Inv (mk (put k m' (mem s)) (disk s) (put k (nxt s) (fblobs s))
                        (put (nxt s) (mkf k true (map fst (m_mds m))) (heap s))
                        (queue s ++ [k]) (nxt s + 1) (wpc s)) g').
      { intros g' Hg' HK. split.
        - apply (w_inv_same s); [simp; auto | simp; lia | | exact HW].
          intros id fo' Hid Hf. simp. unfold w_inv in HW. rewrite Hid in HW.
          destruct (wkey (wpc s)) eqn:EK.
          + destruct HW as [A _]. rewrite get_put_ne in Hf by lia. eauto.
          + destruct (wpc s); cbn in *; congruence.
        - intros k'. destruct (N.eq_dec k k') as [<-|NE].
          + split; auto. unfold gen_inv. simp. rewrite EW. split; [|split]; try discriminate.
            * intros id Hid. inversion Hid; subst. simp. split; [lia|]. split; [eexists; split; eauto|].
              exists m'. auto.
            * intros m0 A B. inversion A; subst. discriminate.
          + rewrite Hg' by auto. kframe s; try apply H.
            intros id Hid. destruct (H k') as [[G1' _] _]. destruct (G1' id Hid) as [A _].
            rewrite get_put_ne by lia. auto. }
      cbn [gstep]. destruct (gget g k) as [|d mds|d mds|] eqn:E; cbn [ghost_inv] in X.
      * destruct X; congruence.
      * split; auto. apply HGen; [intros; simp; auto|]. simp. cbn [ghost_inv]. unfold live_inv. simp.
        destruct X as [[m0 [A [B [C D]]]]|[A _]]; [|congruence]. rewrite EM in A; inversion A; subst m0.
        repeat split; auto. right. split; auto. unfold flushing. simp.
        exists (nxt s), (mkf k true (map fst (m_mds m))). simp. rewrite wpos_off by auto.
        repeat split; auto. unfold md_inv. intros x. cbn [dmd f_dirty]. simp. rewrite ED. cbn [dmd].
        destruct (get_none_or_in _ x (m_mds m)) as [Y|Y]; [left; auto|right; auto].
      * unfold live_inv in X. rewrite EM in X. destruct X as [X _]. congruence.
      * split; auto. apply HGen; auto. rewrite E. cbn [ghost_inv]. auto.
  - destruct (get k (disk s)) as [e|] eqn:ED.
    + (* blob that lives on disk only *)
      pose proof (fb_none_of_mem_none s g k HI EM) as EF.
      destruct HI as [HW H]. destruct (H k) as [GI X].
      assert (HGen : forall g', (forall k', k <> k' -> gget g' k' = gget g k') ->
                ghost_inv (set_disk s (put k (d_set_complete e) (disk s))) (gget g' k) k ->
                Inv (set_disk s (put k (d_set_complete e) (disk s))) g').
      { intros g' Hg' HK. split.
        - apply (w_inv_same s); [simp; auto | simp; lia | intros id fo' _ Hf; simp; eauto | exact HW].
        - intros k'. destruct (N.eq_dec k k') as [<-|NE].
          + split; auto. apply (gen_inv_transfer s); simp; auto; try lia. congruence.
          + rewrite Hg' by auto. kframe s; try apply H. }
      cbn [gstep]. destruct (gget g k) as [|d mds|d mds|] eqn:E; cbn [ghost_inv] in X.
      * destruct X as [_ [X|X]]; [congruence|]. unfold in_window3 in HG. rewrite X, EF in HG. discriminate.
      * split; auto. apply HGen; [intros; simp; auto|]. simp. cbn [ghost_inv]. unfold live_inv, synced. simp.
        destruct X as [[m0 [A _]]|[_ [A [e0 [B [C [D F]]]]]]]; [congruence|]. rewrite ED in B; inversion B; subst e0.
        rewrite EM. exists (d_set_complete e). simp. repeat split; auto. congruence.
      * split; auto. apply HGen; auto. rewrite E. cbn [ghost_inv]. unfold live_inv, synced in *. simp. rewrite EM in *.
        destruct X as [e0 [B [C [D [F [G0 G']]]]]]. rewrite ED in B; inversion B; subst e0.
        exists (d_set_complete e). simp. repeat split; auto.
      * split; auto. apply HGen; auto. rewrite E. cbn [ghost_inv]. auto.
    + cbn [gstep]. split; auto.
      destruct (gget g k); auto; exfalso; destruct HP as [X|X]; auto.
Qed.

(* ---- SetMetadata / DeleteMetadata *)
Definition gmd (g : ghost) (k : key) (x : sfx) (ov : option bytes) : ghost :=
  match gget g k with
  | GInc d mds => put k (GInc d (putopt x ov mds)) g
  | GLive d mds => put k (GLive d (putopt x ov mds)) g
  | _ => g
  end.

Lemma gmd_other : forall g k x ov k', k <> k' -> gget (gmd g k x ov) k' = gget g k'.
Proof. intros. unfold gmd. destruct (gget g k); simp; auto. Qed.

Lemma md_inv_other_pc : forall p fo m D, 
  (match p with WMd _ _ _ | WMdW _ _ _ _ _ => False | _ => True end) ->
  md_inv p fo m D <-> (forall x, dmd D x = get x (m_mds m) \/ In x (f_dirty fo)).
Proof. intros p fo m D Hp. unfold md_inv. destruct p; try tauto. Qed.


Lemma wk_inv_some : forall p id M M', wk_inv p (Some id) M -> wk_inv p (Some id) M'.
Proof. destruct p; cbn; intros; auto; try discriminate; destruct H as [H|[H _]]; auto; discriminate. Qed.

Lemma wk_inv_none_some : forall p m M', wk_inv p None (Some m) -> wk_inv p None M' /\
  (forall k n, won p k = true -> at_unban p k = false -> wk_inv p (Some n) M').
Proof.
  destruct p; cbn; intros; split; auto; intros; try discriminate;
    try (destruct H as [H|[_ H]]; discriminate); try (specialize (H eq_refl); discriminate).
  congruence.
Qed.

Lemma data_inv_m : forall p fo fo' m m' D d, f_dd fo' = f_dd fo -> m_inc m' = m_inc m ->
  data_inv p fo m D d -> data_inv p fo' m' D d.
Proof. unfold data_inv. intros p fo fo' m m' D d -> ->. auto. Qed.


Lemma w_id_lt : forall s id, w_inv s -> pc_id (wpc s) = Some id -> id < nxt s.
Proof.
  unfold w_inv. intros s id HW E. rewrite E in HW.
  destruct (wkey (wpc s)) eqn:K; [tauto|]. destruct (wpc s); cbn in *; congruence.
Qed.

Lemma inv_do_md : forall s g k x ov, Inv s g ->
  at_unban (wpc s) k = false -> in_window3 s k = false ->
  let '(s', r) := do_md s k x ov in
  match r with
  | OOk => gget g k <> GAbsent /\ Inv s' (gmd g k x ov)
  | OErr ENotExist => s' = s /\ match gget g k with GInc _ _ | GLive _ _ => False | _ => True end
  | _ => False
  end.
Proof.
  intros s g k x ov HI HU HG.
  pose proof (inc_or_live_present s g k HI) as HP.
  unfold do_md.
  destruct (get k (mem s)) as [m|] eqn:EM.
  2: destruct (get k (disk s)) as [e|] eqn:ED.
  - (* in memory: ban, set, markMetadataDirty *)
    set (m' := m_set_mds (m_set_banned m true) (putopt x ov (m_mds m))).
    assert (NA : gget g k <> GAbsent).
    { intro E. destruct HI as [_ H]. destruct (H k) as [_ X]. rewrite E in X. cbn in X. destruct X; congruence. }
    unfold mark_md_dirty. simp.
    destruct HI as [HW H]. destruct (H k) as [[G1 [G2 G3]] X].
    destruct (get k (fblobs s)) as [id|] eqn:EF.
    + (* already tracked by the flusher: one more dirty suffix *)
      destruct (G1 id eq_refl) as [Hlt [[fo [Hfo Hkey]] [m0 [A [HB HC]]]]]. assert (m0 = m) by congruence; subst m0. rewrite Hfo.
      split; auto. split.
      * apply (w_inv_same s); [simp; auto | simp; lia | | exact HW].
        intros id' fo' _ Hf. simp. destruct (N.eq_dec id id') as [<-|NE].
        -- simp. injection Hf as <-. cbn. eauto.
        -- simp. eauto.
      * intros k'. destruct (N.eq_dec k k') as [<-|NE].
        -- split.
           ++ unfold gen_inv. simp. rewrite ?EF, ?EM. split; [|split].
              ** intros id' Hid. injection Hid as <-. simp. split; auto. split; [eexists; split; [reflexivity|auto]|].
                 exists m'. auto.
              ** intros m0 B C. injection B as <-. cbn in C. congruence.
              ** intros Hw. eapply wk_inv_some; eauto.
           ++ unfold gmd. destruct (gget g k) as [|d mds|d mds|] eqn:E; simp; rewrite ?E; cbn [ghost_inv] in *; auto.
              ** destruct X; congruence.
              ** destruct X as [[m0 [B [C _]]]|[B _]]; congruence.
              ** unfold live_inv in *. simp. rewrite EM in X. destruct X as [X1 [X2 [X3 X4]]].
                 repeat split; auto; [apply mds_eq_putopt; auto|].
                 destruct X4 as [[e [_ [_ [_ [_ [X4 _]]]]]]|[_ X4]]; [congruence|]. right. split; auto.
                 destruct X4 as [id0 [fo0 [F1 [F2 [F3 F4]]]]]. assert (id0 = id) by congruence; subst id0.
                 assert (fo0 = fo) by congruence; subst fo0.
                 unfold flushing. simp. exists id; eexists. split; [exact F1|]. split; [simp; reflexivity|]. split.
                 --- eapply data_inv_m; [| |exact F3]; auto.
                 --- unfold md_inv in *. intros y. specialize (F4 y). unfold m'. cbn [f_dirty m_mds m_set_mds].
                     destruct (N.eq_dec x y) as [<-|NY].
                     +++ assert (In x (addN x (f_dirty fo))) by (apply addN_In; auto).
                         destruct (wpos (wpc s) k); auto. destruct (x =? s0); auto.
                     +++ simp. destruct (wpos (wpc s) k); try (destruct (y =? s0)); rewrite addN_In; tauto.
        -- rewrite gmd_other by auto. kframe s; try apply H.
           intros id' Hid. destruct (H k') as [[G1' _] _]. destruct (G1' id' Hid) as [_ [[fo' [B C]] _]].
           rewrite get_put_ne; auto. intro; subst id'. congruence.
    + destruct (get k (disk s)) as [e|] eqn:ED.
      * (* on disk and not tracked: a metadata-only flush is enqueued *)
        assert (HC : m_complete m = true).
        { destruct (m_complete m) eqn:C; auto. destruct (G2 m EM C) as [? _]. congruence. }
        cbn [alloc]. simp.
        split; auto. split.
        -- apply (w_inv_same s); [simp; auto | simp; lia | | exact HW].
           intros id' fo' Hid Hf. simp. pose proof (w_id_lt s id' HW Hid). rewrite get_put_ne in Hf by lia. eauto.
        -- intros k'. destruct (N.eq_dec k k') as [<-|NE].
           ++ split.
              ** unfold gen_inv. simp. rewrite ?EF, ?EM. split; [|split].
                 --- intros id' Hid. injection Hid as <-. simp. split; [lia|]. split; [eexists; split; reflexivity|].
                     exists m'. auto.
                 --- intros m0 B C. injection B as <-. cbn in C. congruence.
                 --- intros Hw. rewrite EM in G3. destruct (wk_inv_none_some _ _ (Some m') (G3 Hw)) as [_ W]. apply (W k); auto.
              ** unfold gmd. destruct (gget g k) as [|d mds|d mds|] eqn:E; simp; rewrite ?E; cbn [ghost_inv] in *; auto.
                 --- congruence.
                 --- destruct X as [[m0 [B [C _]]]|[B _]]; congruence.
                 --- unfold live_inv in *. simp. rewrite EM in X. destruct X as [X1 [X2 [X3 X4]]].
                     repeat split; auto; [apply mds_eq_putopt; auto|]. right. split; auto.
                     destruct X4 as [[e0 [Y1 [Y2 [Y3 [Y4 [Y5 Y6]]]]]]|[_ [id0 [fo0 [F1 _]]]]]; [|congruence].
                     assert (e0 = e) by congruence; subst e0.
                     assert (NW : won (wpc s) k = false).
                     { destruct (won (wpc s) k) eqn:W; auto. rewrite (Y6 eq_refl) in HU. cbn in HU.
                       rewrite N.eqb_refl in HU. discriminate. }
                     unfold flushing. simp. exists (nxt s); eexists. simp. split; [reflexivity|]. split; [reflexivity|].
                     rewrite wpos_off by auto. split.
                     +++ unfold data_inv, disk_data. cbn [f_dd]. exists e; auto.
                     +++ intros y. cbn [f_dirty]. unfold m'. cbn [m_mds m_set_mds]. destruct (N.eq_dec x y) as [<-|NY].
                         *** right; left; auto.
                         *** left. simp. rewrite ED. cbn [dmd]. rewrite Y4. symmetry; apply X3.
           ++ rewrite gmd_other by auto. kframe s; try apply H.
              intros id' Hid. destruct (H k') as [[G1' _] _]. destruct (G1' id' Hid) as [A _].
              rewrite get_put_ne by lia. auto.
      * (* incomplete blob in memory (or limbo): nothing to flush yet *)
        split; auto. split.
        -- apply (w_inv_same s); [simp; auto | simp; lia | intros id fo' _ Hf; simp; eauto | exact HW].
        -- intros k'. destruct (N.eq_dec k k') as [<-|NE].
           ++ split.
              ** unfold gen_inv. simp. rewrite ?EF, ?EM, ?ED. split; [|split].
                 --- intros id' Hid. discriminate.
                 --- intros m0 B C. injection B as <-. cbn in C. destruct (G2 m EM C) as [? [? ?]]. auto.
                 --- intros Hw. rewrite EM in G3. apply (wk_inv_none_some _ _ (Some m') (G3 Hw)).
              ** unfold gmd. destruct (gget g k) as [|d mds|d mds|] eqn:E; simp; rewrite ?E; cbn [ghost_inv] in *; auto.
                 --- congruence.
                 --- destruct X as [[m0 [B [C [D F]]]]|[B _]]; [|congruence]. assert (m0 = m) by congruence; subst m0.
                     left. exists m'. simp. repeat split; auto. apply mds_eq_putopt; auto.
                 --- unfold live_inv in *. simp. rewrite EM in X. destruct X as [X1 [X2 [X3 X4]]].
                     destruct X4 as [[e0 [Y1 _]]|[_ [id0 [fo0 [F1 _]]]]]; congruence.
           ++ rewrite gmd_other by auto. kframe s; try apply H.
  - (* on disk only *)
    pose proof (fb_none_of_mem_none s g k HI EM) as EF.
    destruct HI as [HW H]. destruct (H k) as [GI X].
    split.
    + intro E. rewrite E in X. cbn [ghost_inv] in X. destruct X as [_ [X|X]]; [congruence|].
      unfold in_window3 in HG. rewrite X, EF in HG. discriminate.
    + split.
      * apply (w_inv_same s); [simp; auto | simp; lia | intros id fo' _ Hf; simp; eauto | exact HW].
      * intros k'. destruct (N.eq_dec k k') as [<-|NE].
        -- split; [apply (gen_inv_transfer s); simp; auto; try lia; congruence|].
           unfold gmd. destruct (gget g k) as [|d mds|d mds|] eqn:E; simp; rewrite ?E; cbn [ghost_inv] in *; auto.
           ++ simp. destruct X as [_ [X|X]]; [congruence|]. auto.
           ++ simp. destruct X as [[m0 [A _]]|[_ [A [e0 [B [C [D F]]]]]]]; [congruence|].
              rewrite ED in B; inversion B; subst e0.
              right. repeat split; auto. eexists. split; [reflexivity|]. simp. repeat split; auto.
              apply mds_eq_putopt; auto.
           ++ unfold live_inv, synced in *. simp. rewrite EM in *.
              destruct X as [e0 [B [C [D [F [G0 G']]]]]]. rewrite ED in B; inversion B; subst e0.
              eexists. split; [reflexivity|]. simp. repeat split; auto. apply mds_eq_putopt; auto.
        -- rewrite gmd_other by auto. kframe s; try apply H.
  - split; auto. destruct (gget g k); auto; destruct HP as [X|X]; auto.
Qed.

Lemma inv_setmd : forall s g k x v, Inv s g -> guard s (SetMd k x v) = true ->
  let '(s', r) := cstep s (SetMd k x v) in
  let '(g', ok) := gstep g (SetMd k x v) r in ok = true /\ Inv s' g'.
Proof.
  intros s g k x v HI HG. cbn in HG. apply andb_true_iff in HG as [H1 H3].
  apply negb_true_iff in H1. apply negb_true_iff in H3.
  pose proof (inv_do_md s g k x (Some v) HI H1 H3) as L. cbn [cstep].
  destruct (do_md s k x (Some v)) as [s' r]. destruct r; try tauto.
  - destruct L as [NA L]. cbn [gstep]. unfold gmd in L. cbn [putopt] in L.
    destruct (gget g k); try tauto; split; auto.
  - destruct e; try tauto. destruct L as [-> L]. cbn [gstep]. split; auto.
    destruct (gget g k); tauto.
Qed.

Lemma inv_delmd : forall s g k x, Inv s g -> guard s (DelMd k x) = true ->
  let '(s', r) := cstep s (DelMd k x) in
  let '(g', ok) := gstep g (DelMd k x) r in ok = true /\ Inv s' g'.
Proof.
  intros s g k x HI HG. cbn in HG. apply andb_true_iff in HG as [H1 H3].
  apply negb_true_iff in H1. apply negb_true_iff in H3.
  pose proof (inv_do_md s g k x None HI H1 H3) as L. cbn [cstep].
  destruct (do_md s k x None) as [s' r]. destruct r; try tauto.
  - destruct L as [NA L]. cbn [gstep]. unfold gmd in L. cbn [putopt] in L.
    destruct (gget g k); try tauto; split; auto.
  - destruct e; try tauto. destruct L as [-> L]. cbn [gstep]. split; auto.
    destruct (gget g k); tauto.
Qed.
