(* C09: the client operations preserve the invariant and return what the property promises *)
From Coq Require Import List NArith Bool Lia.
From K.Model Require Import C09.
From K.Proof Require Import C09_base C09_inv C09_frame C09_reads.
Import ListNotations.
Local Open Scope N_scope.

(* the invariant of the keys an operation does not touch *)
Ltac kframe s :=
  apply (kinv_frame s); simp; auto; try lia.

Lemma inc_or_live_present : forall s g k, Inv s g ->
  match gget g k with GInc _ _ | GLive _ _ => True | _ => False end ->
  get k (mem s) <> None \/ get k (disk s) <> None.
Proof.
  intros s g k HI HG. destruct (gget g k) as [|d mds|d mds|] eqn:E; try tauto.
  - destruct HI as [_ H]. destruct (H k) as [_ X]. rewrite E in X. cbn in X.
    destruct X as [[m [A _]]|[_ [_ [e [A _]]]]]; [left|right]; congruence.
  - destruct (live_view s g k d mds HI E) as [[m [A _]]|[_ [e [A _]]]]; [left|right]; congruence.
Qed.

Lemma fb_none_of_mem_none : forall s g k, Inv s g -> get k (mem s) = None -> get k (fblobs s) = None.
Proof.
  intros s g k [_ H] HM. destruct (H k) as [[G1 _] _].
  destruct (get k (fblobs s)) as [id|] eqn:E; auto.
  destruct (G1 id eq_refl) as [_ [_ [m [A _]]]]. congruence.
Qed.

Lemma w_inv_same : forall s s',
  wpc s' = wpc s -> nxt s <= nxt s' ->
  (forall id fo', pc_id (wpc s) = Some id -> get id (heap s') = Some fo' ->
                  exists fo, get id (heap s) = Some fo /\ f_key fo = f_key fo') ->
  w_inv s -> w_inv s'.
Proof.
  unfold w_inv. intros s s' HP HN HH HW. rewrite HP.
  destruct (pc_id (wpc s)) as [id|] eqn:E1; auto. destruct (wkey (wpc s)) as [k|] eqn:E2; auto.
  destruct HW as [A B]. split; [lia|]. intros fo' Hf. destruct (HH id fo' eq_refl Hf) as [fo [C D]].
  rewrite <- D. auto.
Qed.

Lemma inv_create : forall s g k d pl, Inv s g -> guard s (Create k d pl) = true ->
  let '(s', r) := cstep s (Create k d pl) in
  let '(g', ok) := gstep g (Create k d pl) r in ok = true /\ Inv s' g'.
Proof.
  intros s g k d pl HI HG. cbn in HG. apply negb_true_iff in HG.
  pose proof (inc_or_live_present s g k HI) as HP.
  cbn [cstep].
  destruct (get k (mem s)) as [m|] eqn:EM; [|destruct (get k (disk s)) as [e|] eqn:ED].
  - (* exists in memory *)
    cbn [gstep]. split; auto. destruct (gget g k) eqn:E; auto.
    destruct HI as [_ H]. destruct (H k) as [_ X]. rewrite E in X. cbn in X. destruct X; congruence.
  - (* exists on disk *)
    cbn [gstep]. split; auto. destruct (gget g k) eqn:E; auto.
    destruct HI as [_ H]. destruct (H k) as [_ X]. rewrite E in X. cbn in X. destruct X as [_ [X|X]]; try congruence.
    apply at_created_won in X. congruence.
  - pose proof (fb_none_of_mem_none s g k HI EM) as EF.
    assert (HK : match gget g k with GAbsent | GLimbo => true | _ => false end = true).
    { destruct (gget g k); auto; exfalso; destruct HP as [X|X]; auto. }
    destruct HI as [HW H].
    destruct pl; cbn [gstep]; (split; [auto|]).
    + (* memory *)
      split.
      * apply (w_inv_same s); [simp; auto | simp; lia | intros id fo' _ Hf; simp; eauto | exact HW].
      * intros k'. destruct (N.eq_dec k k') as [<-|NE].
        -- simp. split.
           ++ unfold gen_inv. simp. rewrite EF, ED, HG. repeat split; auto; try discriminate.
           ++ cbn [ghost_inv]. left. eexists. simp. repeat split; auto; try apply mds_eq_refl.
        -- simp. kframe s; try apply H.
    + (* disk *)
      split.
      * apply (w_inv_same s); [simp; auto | simp; lia | intros id fo' _ Hf; simp; eauto | exact HW].
      * intros k'. destruct (N.eq_dec k k') as [<-|NE].
        -- simp. split.
           ++ unfold gen_inv. simp. rewrite EF, EM, HG. repeat split; auto; try discriminate.
           ++ cbn [ghost_inv]. right. simp. repeat split; auto. eexists. repeat split; auto; try apply mds_eq_refl.
        -- simp. kframe s; try apply H.
    + split; auto.
Qed.

(* wk_inv once k is gone from memory and from the flusher's table *)
Lemma wk_inv_gone : forall s k, get k (mem s) = None -> get k (fblobs s) = None -> wk_inv s k.
Proof.
  intros s k HM HF. unfold wk_inv. destruct (wpc s); cbn [pc_id]; auto.
Qed.

Lemma gen_inv_gone : forall s k, get k (mem s) = None -> get k (fblobs s) = None -> gen_inv s k.
Proof.
  intros s k HM HF. unfold gen_inv. rewrite HM, HF. repeat split; try discriminate.
  intros _. apply wk_inv_gone; auto.
Qed.

Lemma inv_delete : forall s g k, Inv s g -> guard s (Delete k) = true ->
  let '(s', r) := cstep s (Delete k) in
  let '(g', ok) := gstep g (Delete k) r in ok = true /\ Inv s' g'.
Proof.
  intros s g k HI HG. cbn in HG. apply negb_true_iff in HG.
  pose proof (inc_or_live_present s g k HI) as HP.
  cbn [cstep].
  destruct (get k (mem s)) as [m|] eqn:EM; [|destruct (get k (disk s)) as [e|] eqn:ED].
  - cbn [gstep]. split; auto. destruct HI as [HW H]. split.
    + apply (w_inv_same s); [simp; auto | simp; lia | intros id fo' _ Hf; simp; eauto | exact HW].
    + intros k'. destruct (N.eq_dec k k') as [<-|NE].
      * simp. split; [apply gen_inv_gone; simp; auto|]. cbn [ghost_inv]. simp. auto.
      * simp. kframe s; try apply H.
  - pose proof (fb_none_of_mem_none s g k HI EM) as EF.
    cbn [gstep]. split; auto. destruct HI as [HW H]. split.
    + apply (w_inv_same s); [simp; auto | simp; lia | intros id fo' _ Hf; simp; eauto | exact HW].
    + intros k'. destruct (N.eq_dec k k') as [<-|NE].
      * simp. split; [apply gen_inv_gone; simp; auto|]. cbn [ghost_inv]. simp. auto.
      * simp. kframe s; try apply H.
  - cbn [gstep]. split; auto.
    destruct (gget g k); auto; exfalso; destruct HP as [X|X]; auto.
Qed.
