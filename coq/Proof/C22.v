(* C22 — proofs.  Generic part: any score function into a strict total order.  Concrete part:
   the instance executed on observed cases (scores as N) and the oracle C22_check. *)
From Coq Require Import List NArith ZArith Bool Lia Permutation Sorted.
From K.Model Require Import C22.
From K.Proof Require Import Rendezvous.
Import ListNotations.

(* ------------------------------------------------------------------ generic theorems *)
Lemma label_inj ns a b : NoDup (map label ns) -> In a ns -> In b ns -> label a = label b -> a = b.
Proof.
  induction ns as [|x t IH]; cbn; [tauto|]. intros ND Ha Hb E.
  inversion ND as [|? ? Hnin ND']; subst.
  destruct Ha as [<-|Ha], Hb as [<-|Hb]; auto.
  - exfalso. apply Hnin. rewrite E. apply in_map, Hb.
  - exfalso. apply Hnin. rewrite <- E. apply in_map, Ha.
Qed.


Section Generic.
  Variables key T : Type.
  Variable ltb : T -> T -> bool.
  Variable score : node -> key -> T.
  Hypothesis ST : strict_total ltb.

  Notation ordered := (ordered ltb score).
  Notation ge := (ge ltb score).
  Notation gt := (gt ltb score).
  Notation tie_free := (tie_free score).

  Lemma sorted_desc ns k : Permutation (ordered ns k) ns /\ StronglySorted (ge k) (ordered ns k).
  Proof.
    destruct ST as (I & Tr & Tc). split; [apply ordered_perm|]. apply ordered_sorted; assumption.
  Qed.

  Lemma sorted_desc_strict ns k :
    NoDup ns -> tie_free k ns -> StronglySorted (gt k) (ordered ns k).
  Proof. destruct ST as (I & Tr & Tc). apply ordered_strict; assumption. Qed.

  Lemma any_correct_sort ns k l :
    NoDup ns -> tie_free k ns -> Permutation l ns -> StronglySorted (ge k) l -> l = ordered ns k.
  Proof. destruct ST as (I & Tr & Tc). apply ordered_unique; assumption. Qed.

  Lemma insertion_independent ns ns' k :
    NoDup ns -> tie_free k ns -> Permutation ns ns' -> ordered ns k = ordered ns' k.
  Proof. destruct ST as (I & Tr & Tc). apply ordered_insertion_independent; assumption. Qed.

  Lemma history_independent ops1 ops2 k :
    NoDup (rh_run ops1) -> tie_free k (rh_run ops1) -> Permutation (rh_run ops1) (rh_run ops2) ->
    ordered (rh_run ops1) k = ordered (rh_run ops2) k.
  Proof. apply insertion_independent. Qed.

  Lemma remove_only_removes ns k l :
    NoDup (map label ns) -> tie_free k ns ->
    ordered (remove_node l ns) k = remove_node l (ordered ns k) /\
    remove_node l (ordered ns k) = filter (fun x => negb (N.eqb (label x) l)) (ordered ns k).
  Proof.
    destruct ST as (I & Tr & Tc). intros ND TF. split.
    - apply ordered_remove; assumption.
    - apply remove_node_filter. eapply Permutation_NoDup; [|exact ND].
      apply Permutation_map, Permutation_sym, ordered_perm.
  Qed.

  Lemma add_nodup n ns : ~ In (label n) (map label ns) -> NoDup (map label ns) -> NoDup (map label (add_node n ns)).
  Proof.
    intros Hn ND. unfold add_node. eapply Permutation_NoDup.
    - apply Permutation_map, Permutation_cons_append.
    - cbn. constructor; assumption.
  Qed.

  Lemma add_only_inserts ns k n :
    ~ In (label n) (map label ns) -> NoDup (map label ns) -> tie_free k (add_node n ns) ->
    exists l1 l2, ordered ns k = l1 ++ l2 /\ ordered (add_node n ns) k = l1 ++ n :: l2.
  Proof.
    destruct ST as (I & Tr & Tc). intros Hn ND TF.
    rewrite ordered_add; auto.
    - apply insert_split.
    - apply NoDup_labels_NoDup, add_nodup; assumption.
  Qed.

  (* adding then removing, on the ordered lists *)
  Lemma add_then_remove ns k n :
    ~ In (label n) (map label ns) -> NoDup (map label ns) -> tie_free k (add_node n ns) ->
    remove_node (label n) (ordered (add_node n ns) k) = ordered ns k.
  Proof.
    destruct ST as (I & Tr & Tc). intros Hn ND TF.
    rewrite <- ordered_remove; auto.
    - rewrite remove_added; auto.
    - apply add_nodup; assumption.
  Qed.

  Lemma top_n ns k n :
    get_ordered_nodes ltb score ns k n = firstn n (ordered ns k) /\
    length (get_ordered_nodes ltb score ns k n) = Nat.min n (length ns).
  Proof.
    split; [reflexivity|]. unfold get_ordered_nodes. rewrite firstn_length.
    rewrite (Permutation_length (ordered_perm _ _ ltb score ns k)). reflexivity.
  Qed.

  (* ---- the proposed repair: ties broken by label; no hypothesis on the scores is left ---- *)
  Lemma lex_char a b :
    lex_ltb ltb a b = true <-> ltb (fst a) (fst b) = true \/ (fst a = fst b /\ N.ltb (snd a) (snd b) = true).
  Proof.
    destruct ST as (I & Tr & Tc). unfold lex_ltb. rewrite orb_true_iff, andb_true_iff, negb_true_iff. split.
    - intros [H|[H1 H2]]; [now left|].
      destruct (ltb (fst a) (fst b)) eqn:E; [now left|right]. split; [apply Tc; assumption|exact H2].
    - intros [H|[H1 H2]]; [now left|right]. rewrite H1, I. auto.
  Qed.

  Lemma lex_strict_total : strict_total (lex_ltb ltb).
  Proof.
    pose proof lex_char as LC. destruct ST as (I & Tr & Tc). split; [|split].
    - intros a. destruct (lex_ltb ltb a a) eqn:E; [|reflexivity]. apply LC in E.
      destruct E as [E|[_ E]]; [rewrite I in E; discriminate|rewrite N.ltb_irrefl in E; discriminate].
    - intros a b c H1 H2. apply LC in H1, H2. apply LC.
      destruct H1 as [H1|[E1 H1]], H2 as [H2|[E2 H2]].
      + left. eapply Tr; eauto.
      + left. rewrite <- E2. exact H1.
      + left. rewrite E1. exact H2.
      + right. split; [congruence|]. apply N.ltb_lt. apply N.ltb_lt in H1, H2. lia.
    - intros [a1 a2] [b1 b2] H1 H2. unfold lex_ltb in *. cbn in *.
      apply orb_false_iff in H1, H2. destruct H1 as [H1 H1'], H2 as [H2 H2'].
      rewrite H2 in H1'. rewrite H1 in H2'. cbn in *.
      apply N.ltb_ge in H1', H2'. f_equal; [apply Tc; assumption|lia].
  Qed.

  Lemma lex_tie_free ns k : NoDup (map label ns) -> Rendezvous.tie_free (lex_score score) k ns.
  Proof.
    intros ND a b Ha Hb E. unfold lex_score in E. inversion E. eapply label_inj; eauto.
  Qed.

  Lemma tiebreak_insertion_independent ns ns' k :
    NoDup (map label ns) -> Permutation ns ns' ->
    Rendezvous.ordered (lex_ltb ltb) (lex_score score) ns k = Rendezvous.ordered (lex_ltb ltb) (lex_score score) ns' k.
  Proof.
    intros ND HP. destruct lex_strict_total as (I & Tr & Tc).
    apply ordered_insertion_independent; auto.
    - apply NoDup_labels_NoDup, ND.
    - apply lex_tie_free, ND.
  Qed.

  Lemma tiebreak_refines ns k :
    NoDup ns -> tie_free k ns ->
    Rendezvous.ordered (lex_ltb ltb) (lex_score score) ns k = ordered ns k.
  Proof.
    (* where the scores are distinct the repaired comparator orders exactly as the original *)
    intros ND TF. pose proof lex_char as LC. pose proof lex_strict_total as LST.
    destruct ST as (I & Tr & Tc).
    apply ordered_unique; auto.
    - destruct LST as (I' & Tr' & Tc'). apply ordered_perm.
    - destruct LST as (I' & Tr' & Tc').
      pose proof (ordered_sorted _ _ (lex_ltb ltb) (lex_score score) I' Tr' Tc' ns k) as HS.
      eapply StronglySorted_ind with (P := StronglySorted (ge k)) in HS; [exact HS|constructor|].
      intros a l _ IH HF. constructor; [exact IH|].
      rewrite Forall_forall in *. intros z Hz. specialize (HF _ Hz).
      unfold Rendezvous.ge in *. unfold lex_score in HF.
      destruct (ltb (score a k) (score z k)) eqn:E; [|reflexivity].
      assert (lex_ltb ltb (score a k, label a) (score z k, label z) = true) by (apply LC; now left).
      congruence.
  Qed.
End Generic.

Lemma firstn_mono_in {A} (l : list A) : forall a b y, (a <= b)%nat -> In y (firstn a l) -> In y (firstn b l).
Proof.
  induction l as [|x t IH]; intros [|a] [|b] y Hle; cbn; try tauto; try lia.
  intros [->|H]; [now left|right]. apply (IH a b); [lia|exact H].
Qed.

Lemma firstn_insert_in {A} (l1 l2 : list A) n : forall m y,
  In y (firstn m (l1 ++ n :: l2)) -> y = n \/ In y (firstn m (l1 ++ l2)).
Proof.
  induction l1 as [|z l1 IH]; intros [|m] y; cbn; try tauto.
  - intros [<-|H]; [now left|right]. apply (firstn_mono_in l2 m (S m)); [lia|exact H].
  - intros [<-|H]; [right; now left|]. destruct (IH m y H); auto.
Qed.

(* ---- minimal disruption in its usual reading: who owns the top of the list ---- *)
Section Top.
  Variables key T : Type.
  Variable ltb : T -> T -> bool.
  Variable score : node -> key -> T.
  Hypothesis ST : strict_total ltb.
  Notation ordered := (ordered ltb score).
  Notation tie_free := (tie_free score).

  (* minimal disruption in its usual reading (ca_store.go:567 takes the top-1 volume of every
     subdirectory): a key's top owner changes on AddNode only by moving TO the new node ... *)
  Lemma add_top1 ns k n :
    ~ In (label n) (map label ns) -> NoDup (map label ns) -> tie_free k (add_node n ns) ->
    hd_error (ordered (add_node n ns) k) = Some n \/
    hd_error (ordered (add_node n ns) k) = hd_error (ordered ns k).
  Proof.
    intros H1 H2 H3. destruct (add_only_inserts _ _ ltb score ST ns k n H1 H2 H3) as (l1 & l2 & E1 & E2).
    rewrite E1, E2. destruct l1; cbn; auto.
  Qed.

  (* ... and on RemoveNode only by moving AWAY from the removed node *)
  Lemma remove_top1 ns k l x :
    NoDup (map label ns) -> tie_free k ns ->
    hd_error (ordered ns k) = Some x -> label x <> l ->
    hd_error (ordered (remove_node l ns) k) = Some x.
  Proof.
    intros H1 H2 Hx Hl. destruct (remove_only_removes _ _ ltb score ST ns k l H1 H2) as [E1 E2].
    rewrite E1, E2. destruct (ordered ns k) as [|y t]; [discriminate|]. cbn in Hx. inversion Hx. subst y.
    cbn. destruct (N.eqb (label x) l) eqn:E; [apply N.eqb_eq in E; congruence|reflexivity].
  Qed.

  (* the same for any top-n window: a node of the new top-n is the added node or was in the old top-n *)
  Lemma add_topn ns k n m y :
    ~ In (label n) (map label ns) -> NoDup (map label ns) -> tie_free k (add_node n ns) ->
    In y (get_ordered_nodes ltb score (add_node n ns) k m) ->
    y = n \/ In y (get_ordered_nodes ltb score ns k m).
  Proof.
    intros H1 H2 H3. unfold get_ordered_nodes.
    destruct (add_only_inserts _ _ ltb score ST ns k n H1 H2 H3) as (l1 & l2 & E1 & E2).
    rewrite E1, E2. apply firstn_insert_in.
  Qed.
End Top.

(* all scores NaN (key not even-length hex): `<` is constantly false and the "sorted" list is
   the insertion order itself — such keys are outside the property's domain *)
Lemma nan_keys_keep_insertion_order (key T : Type) (score : node -> key -> T) ns k :
  ordered (fun _ _ => false) score ns k = ns.
Proof.
  induction ns as [|x t IH]; cbn; [reflexivity|]. unfold ordered in IH. rewrite IH.
  destruct t; reflexivity.
Qed.

(* ------------------------------------------------------------------ the executed instance *)
Local Open Scope N_scope.

Lemma N_strict_total : strict_total N.ltb.
Proof. split; [exact Nltb_irrefl|split; [exact Nltb_trans|exact Nltb_tricho]]. Qed.

Lemma list_eqb_eq a b : list_eqb a b = true <-> a = b.
Proof.
  revert b. induction a as [|x a IH]; intros [|y b]; cbn; try (split; [discriminate|congruence]); [tauto|].
  rewrite andb_true_iff, N.eqb_eq, IH. split; [intros [-> ->]; reflexivity|intros H; inversion H; auto].
Qed.

Lemma list_eqb_refl a : list_eqb a a = true.
Proof. apply list_eqb_eq. reflexivity. Qed.

Lemma label_node_of U x : label (node_of U x) = x.
Proof.
  unfold node_of. destruct (find _ U) eqn:E; [|reflexivity].
  apply find_some in E. destruct E as [_ E]. apply N.eqb_eq, E.
Qed.

Lemma lab_map_node_of U l : lab (map (node_of U) l) = l.
Proof. unfold lab. rewrite map_map. rewrite <- (map_id l) at 2. apply map_ext, label_node_of. Qed.

Lemma node_of_label U n : NoDup (map label U) -> In n U -> node_of U (label n) = n.
Proof.
  intros ND Hn. unfold node_of. destruct (find _ U) eqn:E.
  - apply find_some in E. destruct E as [Hin E]. apply N.eqb_eq in E. eapply label_inj; eauto.
  - exfalso. apply (find_none _ _ E) in Hn. rewrite N.eqb_refl in Hn. discriminate.
Qed.

Lemma map_node_of_lab U l : NoDup (map label U) -> (forall n, In n l -> In n U) -> map (node_of U) (lab l) = l.
Proof.
  intros ND Hi. unfold lab. rewrite map_map. rewrite <- (map_id l) at 2.
  apply map_ext_in. intros n Hn. apply node_of_label; auto.
Qed.

Lemma node_of_member U x : existsb (N.eqb x) (lab U) = true -> In (node_of U x) U.
Proof.
  intros H. apply existsb_exists in H. destruct H as (y & Hy & E). apply N.eqb_eq in E. subst y.
  unfold lab in Hy. apply in_map_iff in Hy. destruct Hy as (n & E & Hn).
  unfold node_of. destruct (find _ U) eqn:F.
  - apply find_some in F. tauto.
  - apply (find_none _ _ F) in Hn. rewrite E, N.eqb_refl in Hn. discriminate.
Qed.

Lemma lab_filter x l : lab (filter (fun n => negb (N.eqb (label n) x)) l) = drop x (lab l).
Proof.
  unfold lab, drop. induction l as [|n t IH]; cbn; [reflexivity|].
  destruct (N.eqb (label n) x); cbn; congruence.
Qed.

Lemma remove_add_perm U n :
  NoDup (map label U) -> In n U -> Permutation (add_node n (remove_node (label n) U)) U.
Proof.
  unfold add_node. induction U as [|y t IH]; cbn; [tauto|]. intros ND Hn.
  inversion ND as [|? ? Hnin ND']; subst.
  destruct (N.eqb (label y) (label n)) eqn:E.
  - apply N.eqb_eq in E. assert (y = n) as ->.
    { destruct Hn as [->|Hn]; [reflexivity|]. exfalso. apply Hnin. rewrite E. apply in_map, Hn. }
    apply Permutation_sym, Permutation_cons_append.
  - destruct Hn as [->|Hn]; [rewrite N.eqb_refl in E; discriminate|].
    cbn. constructor. apply IH; assumption.
Qed.

Lemma ord_incl U r n : In n (ord U r) -> In n U.
Proof. exact (Permutation_in n (ordered_perm _ _ N.ltb tscore U r)). Qed.

(* what [dom] gives *)
Lemma dom_spec U U' xs :
  dom U U' xs = true ->
  NoDup (map label U) /\ Permutation U' U /\ forall x, In x xs -> existsb (N.eqb x) (lab U) = true.
Proof.
  unfold dom. rewrite !andb_true_iff, forallb_forall. intros [[H1 H2] H3].
  apply labels_nodupb_spec in H1. split; [exact H1|]. split; [|exact H3].
  apply same_nodesb_perm; [apply NoDup_labels_NoDup, H1|exact H2].
Qed.

Section Instance.
  Variables (U U' : list node) (topn : nat) (xs : list N) (r : row).
  Hypothesis DOM : dom U U' xs = true.

  Let I := Nltb_irrefl.
  Let Tr := Nltb_trans.
  Let Tc := Nltb_tricho.

  Lemma full_roundtrip : map (node_of U) (lab (ord U r)) = ord U r.
  Proof.
    destruct (dom_spec _ _ _ DOM) as (ND & _ & _).
    apply map_node_of_lab; [exact ND|]. intros n. apply ord_incl.
  Qed.

  (* off the property's domain (non-hex key) the oracle only asks for a permutation, which the
     model gives whatever `<` does *)
  Lemma check_sound_nonhex : C22_check false U U' topn xs r (observe U U' topn xs r) = true.
  Proof.
    unfold C22_check. rewrite DOM. cbn [negb observe o_full]. rewrite full_roundtrip.
    apply perm_same_nodesb, ordered_perm.
  Qed.

  Hypothesis TF : C22_tie_free U r = true.

  Lemma model_facts :
    NoDup (map label U) /\ NoDup U /\ tie_free tscore r U /\ ord U' r = ord U r /\
    forall x, In x xs ->
      let nx := node_of U x in
      In nx U /\ label nx = x /\
      ord (remove_node x U) r = filter (fun n => negb (N.eqb (label n) x)) (ord U r) /\
      ord (add_node nx (remove_node x U)) r = ord U r.
  Proof.
    destruct (dom_spec _ _ _ DOM) as (ND & HP & HX).
    destruct (tie_freeb_spec _ _ N.ltb tscore I r U TF) as [NDn TFp].
    repeat split; auto.
    - unfold ord. symmetry. apply ordered_insertion_independent; auto. apply Permutation_sym, HP.
    - apply node_of_member, HX; assumption.
    - apply label_node_of.
    - unfold ord. rewrite ordered_remove; auto.
      apply remove_node_filter. eapply Permutation_NoDup; [|exact ND].
      apply Permutation_map, Permutation_sym, ordered_perm.
    - pose proof (node_of_member U x (HX _ H)) as Hin.
      pose proof (remove_add_perm U (node_of U x) ND Hin) as HPa. rewrite label_node_of in HPa.
      unfold ord. symmetry. apply ordered_insertion_independent; auto. apply Permutation_sym, HPa.
  Qed.

  (* the model's own observation satisfies the oracle *)
  Lemma check_sound_hex : C22_check true U U' topn xs r (observe U U' topn xs r) = true.
  Proof.
    destruct model_facts as (ND & NDn & TFp & EP & HX).
    unfold C22_check. rewrite DOM. cbn [negb observe o_full o_perm o_top o_rem].
    rewrite full_roundtrip, EP. rewrite !andb_true_iff. repeat split.
    - apply is_orderingb_ordered; auto.
    - apply list_eqb_refl.
    - unfold get_ordered_nodes, lab. rewrite firstn_map. apply list_eqb_refl.
    - rewrite map_map. cbn. rewrite map_id. apply list_eqb_refl.
    - apply forallb_forall. intros t Ht. apply in_map_iff in Ht. destruct Ht as (x & <- & Hx).
      destruct (HX _ Hx) as (Hin & Hl & ER & EA). cbn zeta in *.
      rewrite ER, EA, lab_filter. rewrite !andb_true_iff. repeat split.
      + apply list_eqb_refl.
      + apply list_eqb_refl.
      + apply existsb_exists. exists x. split; [|apply N.eqb_refl].
        rewrite <- Hl. unfold lab. apply in_map. eapply Permutation_in; [apply Permutation_sym, ordered_perm|exact Hin].
      + apply Nat.eqb_eq. rewrite <- lab_filter, <- ER. unfold lab. rewrite !map_length.
        unfold ord. rewrite !(Permutation_length (ordered_perm _ _ _ _ _ _)).
        pose proof (Permutation_length (remove_add_perm U (node_of U x) (proj1 (conj ND I)) Hin)) as HL.
        rewrite Hl in HL. unfold add_node in HL. rewrite app_length in HL. cbn in HL. lia.
      + rewrite full_roundtrip. apply is_orderingb_ordered; auto.
  Qed.

  (* and, the scores being distinct, the oracle accepts no other observation *)
  Lemma check_complete o : C22_check true U U' topn xs r o = true -> o = observe U U' topn xs r.
  Proof.
    destruct model_facts as (ND & NDn & TFp & EP & HX).
    unfold C22_check. rewrite DOM. cbn [negb]. rewrite !andb_true_iff.
    intros ((((H1 & H2) & H3) & H4) & H5).
    apply (is_orderingb_unique _ _ N.ltb tscore I Tr Tc U r _ TF) in H1.
    assert (EF : o_full o = lab (ord U r)).
    { rewrite <- (lab_map_node_of U (o_full o)). unfold ord. rewrite H1. reflexivity. }
    apply list_eqb_eq in H2, H3, H4.
    destruct o as [f p t rm]. cbn [o_full o_perm o_top o_rem] in *.
    rewrite EF in H2, H3, H5. clear H1. subst f p t.
    unfold observe. rewrite EP. f_equal.
    - unfold get_ordered_nodes, lab. rewrite firstn_map. reflexivity.
    - assert (G : forall xs0,
        map (fun t : N * list N * list N => fst (fst t)) rm = xs0 ->
        (forall x, In x xs0 -> let nx := node_of U x in In nx U /\ label nx = x /\
           ord (remove_node x U) r = filter (fun n => negb (N.eqb (label n) x)) (ord U r) /\
           ord (add_node nx (remove_node x U)) r = ord U r) ->
        forallb (fun '(x, rem, add) =>
          list_eqb rem (drop x (lab (ord U r))) && list_eqb (drop x add) rem &&
          existsb (N.eqb x) add && (length add =? S (length rem))%nat &&
          is_orderingb N.ltb tscore U r (map (node_of U) add)) rm = true ->
        rm = map (fun x => let R := remove_node x U in
                     (x, lab (ord R r), lab (ord (add_node (node_of U x) R) r))) xs0);
        [|apply G; assumption].
      clear H4 HX H5.
      induction rm as [|[[x rem] add] rm IH]; intros xs0 H4 HX H5.
      + cbn in H4. subst xs0. reflexivity.
      + cbn in H4. subst xs0. cbn [map forallb] in *. apply andb_true_iff in H5. destruct H5 as [H5 H6].
        destruct (HX x (or_introl eq_refl)) as (Hin & Hl & ER & EA). cbn zeta in *.
        rewrite !andb_true_iff in H5. destruct H5 as ((((A1 & A2) & A3) & A4) & A5).
        apply list_eqb_eq in A1.
        apply (is_orderingb_unique _ _ N.ltb tscore I Tr Tc U r _ TF) in A5.
        assert (EAdd : add = lab (ord U r)).
        { rewrite <- (lab_map_node_of U add). unfold ord. rewrite A5. reflexivity. }
        f_equal.
        * rewrite ER, EA, lab_filter. congruence.
        * apply IH; [reflexivity| |exact H6]. intros y Hy. apply HX. now right.
  Qed.
End Instance.

Theorem check_sound hexkey U U' topn xs r :
  dom U U' xs = true -> (hexkey = true -> C22_tie_free U r = true) ->
  C22_check hexkey U U' topn xs r (observe U U' topn xs r) = true.
Proof.
  intros D H. destruct hexkey; [apply check_sound_hex; auto|apply check_sound_nonhex; auto].
Qed.

(* outside [dom] the oracle is vacuous by construction; state it so that it cannot hide *)
Lemma check_outside_dom hexkey U U' topn xs r o :
  dom U U' xs = false -> C22_check hexkey U U' topn xs r o = true.
Proof. intros D. unfold C22_check. rewrite D. reflexivity. Qed.

(* ---- ties: the clause is false of the faithful model (and of the code, see the seed case) *)
Definition w0a := mknode 0 0%Z.
Definition w0b := mknode 1 0%Z.
(* both zero-weight nodes score +0 on every key: c22code(+0) = 0x8000000000000000 *)
Definition tie_row : row := [0x8000000000000000; 0x8000000000000000].

Lemma ties_refuted :
  exists ns ns' r, NoDup (map label ns) /\ Permutation ns ns' /\ ord ns r <> ord ns' r.
Proof.
  exists [w0a; w0b], [w0b; w0a], tie_row. split; [|split].
  - repeat constructor; cbn; intuition discriminate.
  - apply perm_swap.
  - vm_compute. discriminate.
Qed.

(* the boolean tie test used by the drivers is the stated hypothesis *)
Lemma tie_freeb_iff (key T : Type) (ltb : T -> T -> bool) (score : node -> key -> T) :
  strict_total ltb -> forall k ns,
  tie_freeb ltb score k ns = true <-> NoDup ns /\ tie_free score k ns.
Proof.
  intros (I & Tr & Tc) k ns. split.
  - apply tie_freeb_spec, I.
  - intros [ND TF]. apply tie_freeb_complete; assumption.
Qed.
