(* C31: refutation witnesses (each is also a seed case of the driver) and non-vacuity examples. *)
From Coq Require Import List NArith Bool.
From K.Model Require Import C31.
Import ListNotations.
Local Open Scope N_scope.

Definition steps (t : N) (n : nat) (up : bool) : list op := repeat (OStep t up) n.
Definition legal (rs : list res) : bool :=
  forallb (fun r => match r with RIllegal => false | _ => true end) rs.

(* a complete upload by thread t: move | conflict, set persist, Add, metainfo, acknowledgement *)
Definition upload (t ns d : N) : list op := OSpawnUp t ns d :: steps t 5 true.
(* a complete successful execution: Stat, look-up, open, Upload, clear persist, Remove *)
Definition exec_ok (t ns d : N) : list op := OSpawnEx t ns d :: steps t 6 true.
(* an execution that finds the cache file missing: Stat, look-up (missing), clear persist, Remove *)
Definition exec_missing (t ns d : N) : list op := OSpawnEx t ns d :: steps t 4 true.

(* 1. two namespaces, one digest (driver seed "seed-multi-namespace") *)
Definition multi_ns_ops : list op :=
  upload 0 0 0 ++ upload 1 1 0 ++ exec_ok 2 0 0 ++ [ODel 0] ++ exec_missing 3 1 0.

(* 2. one namespace; crash between set-persist and Add; forced cleanup finds no row and stops
   before deleting the persist flag; the client's retry is acknowledged; cleanup goes on
   (driver seed "seed-forced-cleanup-race") *)
Definition fc_race_ops : list op :=
  [OSpawnUp 0 0 0; OStep 0 true; OStep 0 true; ORestart;
   OSpawnFc 1 0; OStep 1 true; OStep 1 true; OStep 1 true]    (* stat, read persist, Find = [] *)
  ++ upload 2 0 0                                              (* conflict path: row added, 409 *)
  ++ [OStep 1 true; OStep 1 true]                              (* delete persist, DeleteCacheFile *)
  ++ exec_missing 3 0 0.

(* 3. one namespace, no crash, no forced cleanup: a refused deletion attempt between the executor's
   look-up and its entry lock (driver seed "seed-stale-lookup") *)
Definition stale_ops : list op :=
  upload 0 0 0 ++ [OSpawnEx 1 0 0; OStep 1 true; OStep 1 true; ODel 0;
                   OStep 1 true; OStep 1 true; OStep 1 true; ODel 0].

Definition lost (fx : bool) (ops : list op) (k : key) : bool :=
  let '(s, rs) := run fx init ops in
  legal rs && kmem k (s_acked s) && negb (kmem k (s_back s)) && negb (present (snd k) (s_files s)) &&
  negb (kmem k (s_tasks s)) && match s_thr s with [] => true | _ => false end && negb (safe_state s).

Lemma multi_ns_lost : forall fx, lost fx multi_ns_ops (1, 0) = true.
Proof. destruct fx; vm_compute; reflexivity. Qed.

Lemma fc_race_lost : forall fx, lost fx fc_race_ops (0, 0) = true.
Proof. destruct fx; vm_compute; reflexivity. Qed.

Lemma stale_lost : lost false stale_ops (0, 0) = true.
Proof. vm_compute; reflexivity. Qed.

(* with the repaired look-up the same history uploads the blob before the local copy goes *)
Lemma stale_fixed_safe :
  let '(s, rs) := run true init stale_ops in
  legal rs = true /\ safe_state s = true /\ s_back s = [(0, 0)] /\ s_files s = [].
Proof. vm_compute. repeat split; reflexivity. Qed.

(* the trace oracle rejects the three witnesses (what the driver's seeds show on the real code) *)
Lemma check_rejects :
  C31_check (multi_ns_ops ++ [OObs]) (snd (run false init (multi_ns_ops ++ [OObs]))) = false /\
  C31_check (fc_race_ops ++ [OObs]) (snd (run false init (fc_race_ops ++ [OObs]))) = false /\
  C31_check (stale_ops ++ [OObs]) (snd (run false init (stale_ops ++ [OObs]))) = false.
Proof. vm_compute. repeat split; reflexivity. Qed.

(* a benign history: outage, failed execution, refused deletions, crash in the middle of an
   execution, delivery after the restart, deletion afterwards *)
Definition benign_ops : list op :=
  upload 0 0 0 ++ [ODel 0; OObs] ++
  [OSpawnEx 1 0 0; OStep 1 false; OStep 1 true; OStep 1 true; OStep 1 false; OStep 1 true; ODel 0; OObs] ++
  [OSpawnEx 2 0 0; OStep 2 true; OStep 2 true; ORestart; ODel 0; OObs] ++
  exec_ok 3 0 0 ++ [ODel 0; OObs].
Lemma benign_ok :
  let '(s, rs) := run false init benign_ops in
  legal rs = true /\ C31_check benign_ops rs = true /\ s_back s = [(0, 0)] /\ s_files s = [] /\ s_tasks s = [].
Proof. vm_compute. repeat split; reflexivity. Qed.
