(* C10, part 3: the usage-driven policy. The comparator cachedInAgentPolicy is a total preorder
   that ranks files served to consumers first (surely-in-agent before the merely served), then by
   last access; and a policy pass with room in the file map walks candidates in that order until
   the byte budget is met, removing exactly the walked, unprotected files. *)
From Coq Require Import List NArith ZArith Bool Lia.
From K.Gen Require Import C10_consts.
From K.Model Require Import C10.
From K.Proof Require Import C10_base C10_pass.
Import ListNotations.
Local Open Scope Z_scope.

(* ---------------------------------------------------------------- the comparator *)

Definition rk (c : finfo) : Z * Z := (fi_download c, fi_access c).

(* the literals of cleanup.go:167 and :177 as the specification states them (1 s, 45 min) *)
Lemma consts_pinned :
  cleanup_consumer_gap_ns = 1000000000 /\ cleanup_agent_gap_ns = 2700000000000.
Proof. split; reflexivity. Qed.

Lemma served_by_consumer : forall c, served (fi_download c) (fi_access c) = by_consumer c.
Proof. intros. unfold served, by_consumer, ad_diff. destruct consts_pinned as [-> _]. reflexivity. Qed.

Lemma surely_sure_agent : forall c, surely (fi_download c) (fi_access c) = sure_agent c.
Proof. intros. unfold surely, sure_agent, ad_diff. destruct consts_pinned as [_ ->]. reflexivity. Qed.

Lemma sure_implies_served : forall c, sure_agent c = true -> by_consumer c = true.
Proof.
  intros c. unfold sure_agent, by_consumer. destruct consts_pinned as [-> ->].
  rewrite !Z.ltb_lt. lia.
Qed.

Lemma policy_cmp_rank : forall a b, (policy_cmp a b <=? 0) = rank_le (rk a) (rk b).
Proof.
  intros a b. unfold rank_le, rk, class_of. cbn [fst snd].
  rewrite !served_by_consumer, !surely_sure_agent. unfold policy_cmp.
  pose proof (sure_implies_served a) as Sa. pose proof (sure_implies_served b) as Sb.
  destruct (by_consumer a), (by_consumer b), (sure_agent a), (sure_agent b); cbn;
    try (specialize (Sa eq_refl); discriminate); try (specialize (Sb eq_refl); discriminate);
    try reflexivity;
    destruct (fi_access a - fi_access b <=? 0) eqn:E1, (fi_access a <=? fi_access b) eqn:E2;
    try reflexivity; rewrite ?Z.leb_le, ?Z.leb_gt in *; lia.
Qed.

Lemma policy_cmp_total : forall a b, policy_cmp a b <= 0 \/ policy_cmp b a <= 0.
Proof.
  intros a b. unfold policy_cmp.
  destruct (by_consumer a), (by_consumer b), (sure_agent a), (sure_agent b); cbn; lia.
Qed.

Lemma policy_cmp_antisym : forall a b, Z.sgn (policy_cmp a b) = - Z.sgn (policy_cmp b a).
Proof.
  intros a b. unfold policy_cmp.
  destruct (by_consumer a), (by_consumer b), (sure_agent a), (sure_agent b); cbn; try reflexivity;
    rewrite <- Z.sgn_opp; f_equal; lia.
Qed.

Lemma policy_cmp_trans : forall a b c,
  policy_cmp a b <= 0 -> policy_cmp b c <= 0 -> policy_cmp a c <= 0.
Proof.
  intros a b c. unfold policy_cmp.
  destruct (by_consumer a), (by_consumer b), (by_consumer c),
           (sure_agent a), (sure_agent b), (sure_agent c); cbn; lia.
Qed.

Lemma policy_cmp_refl : forall a, policy_cmp a a = 0.
Proof.
  intros a. unfold policy_cmp. destruct (by_consumer a), (sure_agent a); cbn; lia.
Qed.

(* strict order = smaller class, or same class and accessed earlier *)
Lemma policy_cmp_lt : forall a b,
  policy_cmp a b < 0 <->
  (let ca := class_of (fi_download a) (fi_access a) in
   let cb := class_of (fi_download b) (fi_access b) in
   ca < cb \/ (ca = cb /\ fi_access a < fi_access b)).
Proof.
  intros a b. unfold class_of. rewrite !served_by_consumer, !surely_sure_agent. unfold policy_cmp.
  pose proof (sure_implies_served a) as Sa. pose proof (sure_implies_served b) as Sb.
  destruct (by_consumer a), (by_consumer b), (sure_agent a), (sure_agent b); cbn;
    try (specialize (Sa eq_refl); discriminate); try (specialize (Sb eq_refl); discriminate); lia.
Qed.

(* ---------------------------------------------------------------- the scan phase *)

(* the candidate the scan builds for name n (cleanup.go:213-235) *)
Definition cand_fi (s : st) (n : N) : option finfo :=
  match aget n (dk s) with
  | None => None
  | Some f => match f_lat (seen (amem n (fm s)) (now s) f) with
              | None => None
              | Some l => Some (mkfi n (l * NS) (f_mtime f) (f_size f))
              end
  end.
Definition cands_of (s : st) (scan : list N) : list finfo :=
  flat_map (fun n => match cand_fi s n with Some c => [c] | None => [] end) scan.

Definition scan_entry (scan : list N) (s : st) (m : N) : option file :=
  if memb m scan then option_map (seen (amem m (fm s)) (now s)) (aget m (dk s)) else aget m (dk s).

Lemma flat_map_ext_in {A B} : forall (f g : A -> list B) l,
  (forall a, In a l -> f a = g a) -> flat_map f l = flat_map g l.
Proof.
  intros f g l. induction l as [|a t IH]; intros H; cbn; auto.
  rewrite (H a (or_introl eq_refl)), IH; auto. intros. apply H. right. auto.
Qed.

Lemma seen_mtime : forall b nw f, f_mtime (seen b nw f) = f_mtime f.
Proof. intros. unfold seen. destruct (f_lat f); auto. destruct b; auto. Qed.
Lemma seen_size : forall b nw f, f_size (seen b nw f) = f_size f.
Proof. intros. unfold seen. destruct (f_lat f); auto. destruct b; auto. Qed.

Lemma pol_scan_roomy : forall scan s acc total,
  wf s -> roomy_s s -> NoDup scan ->
  let r := pol_scan scan s acc total in
  let s1 := fst (fst r) in
  wf s1 /\ roomy_s s1 /\ now s1 = now s /\ cap s1 = cap s /\
  (forall m, aget m (dk s1) = scan_entry scan s m) /\
  (forall m, amem m (fm s1) = if memb m scan then amem m (dk s) else amem m (fm s)) /\
  snd (fst r) = acc ++ cands_of s scan.
Proof.
  intros scan. induction scan as [|n t IH]; intros s acc total W R ND.
  - cbn zeta. cbn [pol_scan fst snd]. unfold cands_of. cbn [flat_map]. rewrite app_nil_r.
    split; [exact W|]. split; [exact R|]. repeat split; auto.
  - inversion ND as [|? ? Hnt NDt]; subst.
    cbn [pol_scan]. pose proof (peek_roomy n s W R) as P. pose proof (peek_wf n s W) as W1.
    destruct (peek n s) as [s1 ok]. cbn [fst snd] in P, W1.
    assert (R1 : roomy_s s1).
    { eapply roomy_shrink; [exact R | apply (ps_cap _ _ _ _ P) | rewrite (ps_len _ _ _ _ P); lia]. }
    (* what the rest of the scan sees is unchanged for the other names *)
    assert (Hc : forall m, In m t -> cand_fi s1 m = cand_fi s m).
    { intros m Hm. assert (Ne : m <> n) by (intros ->; contradiction).
      unfold cand_fi. rewrite (ps_dk _ _ _ _ P m), (ps_fm _ _ _ _ P m Ne), (ps_now _ _ _ _ P).
      destruct (N.eqb m n) eqn:E; auto. apply N.eqb_eq in E. contradiction. }
    assert (Hcs : cands_of s1 t = cands_of s t).
    { unfold cands_of. apply flat_map_ext_in. intros m Hm. rewrite Hc; auto. }
    assert (Hent : forall m, scan_entry t s1 m = scan_entry (n :: t) s m).
    { intros m. unfold scan_entry. destruct (N.eq_dec m n) as [->|Ne].
      - rewrite memb_cons_eq. destruct (memb n t) eqn:E; [apply memb_In in E; contradiction|].
        rewrite (ps_dk _ _ _ _ P n), N.eqb_refl. reflexivity.
      - rewrite memb_cons_neq; auto. rewrite (ps_dk _ _ _ _ P m), (ps_fm _ _ _ _ P m Ne), (ps_now _ _ _ _ P).
        destruct (N.eqb m n) eqn:E; auto. apply N.eqb_eq in E. contradiction. }
    assert (Hfm : forall m, (if memb m t then amem m (dk s1) else amem m (fm s1)) =
                            (if memb m (n :: t) then amem m (dk s) else amem m (fm s))).
    { intros m. destruct (N.eq_dec m n) as [->|Ne].
      - rewrite memb_cons_eq. destruct (memb n t) eqn:E; [apply memb_In in E; contradiction|].
        apply (ps_fmn _ _ _ _ P).
      - rewrite memb_cons_neq; auto. rewrite (ps_fm _ _ _ _ P m Ne). unfold amem at 1.
        rewrite (ps_dk _ _ _ _ P m). destruct (N.eqb m n) eqn:E; [apply N.eqb_eq in E; contradiction|].
        reflexivity. }
    assert (Hcn : (match cand_fi s n with Some c => [c] | None => [] end) =
                  match (if ok then aget n (dk s1) else None) with
                  | None => []
                  | Some f => match f_lat f with None => [] | Some l => [mkfi n (l * NS) (f_mtime f) (f_size f)] end
                  end).
    { unfold cand_fi. rewrite (ps_ok _ _ _ _ P). pose proof (ps_dk _ _ _ _ P n) as Hn.
      rewrite N.eqb_refl in Hn. rewrite Hn. unfold amem at 2.
      destruct (aget n (dk s)) as [f|]; cbn; auto.
      rewrite seen_mtime, seen_size. destruct (f_lat (seen (amem n (fm s)) (now s) f)); reflexivity. }
    assert (Fin : forall acc' total',
      let r := pol_scan t s1 acc' total' in
      wf (fst (fst r)) /\ roomy_s (fst (fst r)) /\ now (fst (fst r)) = now s /\ cap (fst (fst r)) = cap s /\
      (forall m, aget m (dk (fst (fst r))) = scan_entry (n :: t) s m) /\
      (forall m, amem m (fm (fst (fst r))) = if memb m (n :: t) then amem m (dk s) else amem m (fm s)) /\
      snd (fst r) = acc' ++ cands_of s t).
    { intros acc' total'. specialize (IH s1 acc' total' W1 R1 NDt). cbn zeta in IH.
      destruct IH as (A1 & A2 & A3 & A4 & A5 & A6 & A7). cbn zeta.
      split; [exact A1|]. split; [exact A2|]. repeat split; auto.
      - rewrite A3. apply (ps_now _ _ _ _ P).
      - rewrite A4. apply (ps_cap _ _ _ _ P).
      - intros m. rewrite A5. apply Hent.
      - intros m. rewrite A6. apply Hfm.
      - rewrite A7, Hcs. reflexivity. }
    cbn zeta. change (cands_of s (n :: t)) with
      ((match cand_fi s n with Some c => [c] | None => [] end) ++ cands_of s t).
    rewrite Hcn.
    destruct (if ok then aget n (dk s1) else None) as [f|].
    + destruct (f_lat f) as [l|].
      * specialize (Fin (acc ++ [mkfi n (l * NS) (f_mtime f) (f_size f)]) (total + f_size f)).
        cbn zeta in Fin. rewrite <- app_assoc in Fin. exact Fin.
      * apply (Fin acc (total + f_size f)).
    + apply (Fin acc total).
Qed.

(* ---------------------------------------------------------------- the walk *)

Definition names (l : list finfo) : list N := map fi_name l.

(* remaining budget after walking, as pol_delete computes it, from a per-file "freed" function *)
Fixpoint walk (freed : finfo -> Z) (l : list finfo) (remain : Z) : bool * Z :=
  match l with
  | [] => (true, remain)
  | c :: t => if remain <=? 0 then (false, remain) else walk freed t (remain - freed c)
  end.

Lemma walk_ext : forall f g l rem,
  (forall c, In c l -> f c = g c) -> walk f l rem = walk g l rem.
Proof.
  intros f g l. induction l as [|c t IH]; intros rem H; cbn; auto.
  destruct (rem <=? 0); auto. rewrite (H c (or_introl eq_refl)). apply IH.
  intros. apply H. right. auto.
Qed.

Lemma pol_delete_spec : forall fis remain s,
  NoDup (names fis) ->
  (forall c, In c fis -> amem (fi_name c) (fm s) = true) ->
  let r := pol_delete fis remain s in
  let s2 := fst (fst r) in
  let w := walk (fun c => if persisted (fi_name c) (dk s) then 0 else fi_size c) fis remain in
  snd r = fst w /\ snd (fst r) = snd w /\
  (snd r = true ->
   (forall m, aget m (dk s2) = if memb m (names fis) && negb (persisted m (dk s)) then None else aget m (dk s))
   /\ now s2 = now s /\ cap s2 = cap s).
Proof.
  intros fis. induction fis as [|c t IH]; intros remain s ND Hin.
  - cbn. repeat split; auto.
  - cbn [pol_delete walk]. destruct (remain <=? 0) eqn:Er.
    + cbn. repeat split; auto; discriminate.
    + inversion ND as [|? ? Hnt NDt]; subst.
      rewrite delete_file_inmap by (apply Hin; left; auto).
      set (s1 := mkst (if persisted (fi_name c) (dk s) then dk s else arem (fi_name c) (dk s))
                      (arem (fi_name c) (fm s)) (now s) (cap s)).
      assert (Hin1 : forall c', In c' t -> amem (fi_name c') (fm s1) = true).
      { intros c' Hc'. unfold s1. cbn [fm]. rewrite amem_arem_neq; [apply Hin; right; auto|].
        intros E. apply Hnt. rewrite <- E. unfold names. apply in_map. auto. }
      assert (Hp : forall m, m <> fi_name c -> persisted m (dk s1) = persisted m (dk s)).
      { intros m Ne. unfold s1. cbn [dk]. destruct (persisted (fi_name c) (dk s)); auto.
        unfold persisted. rewrite aget_arem_neq; auto. }
      assert (Hw : forall rem,
        walk (fun c0 => if persisted (fi_name c0) (dk s1) then 0 else fi_size c0) t rem =
        walk (fun c0 => if persisted (fi_name c0) (dk s) then 0 else fi_size c0) t rem).
      { intros rem. apply walk_ext. intros c0 Hc0. rewrite Hp; auto.
        intros E. apply Hnt. rewrite <- E. unfold names. apply in_map. auto. }
      specialize (IH (match (if persisted (fi_name c) (dk s) then RPersisted else ROk) with
                      | ROk => remain - fi_size c | _ => remain end) s1 NDt Hin1).
      cbn zeta in IH. destruct IH as (I1 & I2 & I3).
      replace (remain - (if persisted (fi_name c) (dk s) then 0 else fi_size c))
        with (match (if persisted (fi_name c) (dk s) then RPersisted else ROk) with
              | ROk => remain - fi_size c | _ => remain end)
        by (destruct (persisted (fi_name c) (dk s)); lia).
      rewrite <- Hw. split; [exact I1|]. split; [exact I2|].
      * intros Hok. specialize (I3 Hok). destruct I3 as (J1 & J2 & J3). repeat split; auto.
        intros m. rewrite J1. unfold names. cbn [map]. fold (names t).
        destruct (N.eq_dec m (fi_name c)) as [->|Ne].
        -- rewrite memb_cons_eq. destruct (memb (fi_name c) (names t)) eqn:E; [apply memb_In in E; contradiction|].
           cbn [andb]. unfold s1. cbn [dk]. destruct (persisted (fi_name c) (dk s)); cbn; auto.
           apply aget_arem_eq.
        -- rewrite memb_cons_neq; auto. rewrite Hp; auto.
           unfold s1. cbn [dk]. destruct (persisted (fi_name c) (dk s)); auto.
           rewrite aget_arem_neq; auto.
Qed.
