(* C14 — proofs, part 1: the invariant of the patched code, totality (no panic), every effect inside the
   torrent / below the allocation bound.  Part 2 (Proof/C14_frame.v): other connections, pieces, refutations. *)
From Coq Require Import List ZArith Bool Lia.
From K.Model Require Import C14.
Import ListNotations.
Local Open Scope Z_scope.

(* ------------------------------------------------------------------ lists indexed by Z *)
Lemma zlen_nonneg : forall {A} (l : list A), 0 <= zlen l.
Proof. intros; unfold zlen; lia. Qed.

Lemma length_nset : forall {A} (l : list A) k v, length (nset l k v) = length l.
Proof. induction l as [|x l IH]; intros [|k] v; simpl; auto. Qed.

Lemma zlen_zset : forall {A} (l : list A) i v, zlen (zset l i v) = zlen l.
Proof. intros; unfold zlen, zset; now rewrite length_nset. Qed.

Lemma zlen_app : forall {A} (a b : list A), zlen (a ++ b) = zlen a + zlen b.
Proof. intros; unfold zlen; rewrite app_length; lia. Qed.

Lemma zlen_repeat : forall {A} (x : A) n, zlen (repeat x n) = Z.of_nat n.
Proof. intros; unfold zlen; now rewrite repeat_length. Qed.

Lemma nth_error_nset : forall {A} (l : list A) k v m x,
  nth_error (nset l k v) m = Some x -> (m = k /\ x = v) \/ nth_error l m = Some x.
Proof.
  induction l as [|y l IH]; intros [|k] v [|m] x H; simpl in *; try discriminate; auto.
  - inversion H; auto.
  - apply IH in H. destruct H as [[-> ->]|H]; auto.
Qed.

Lemma in_zrange_from : forall n k i, In i (zrange_from k n) <-> k <= i < k + Z.of_nat n.
Proof.
  induction n as [|n IH]; intros k i; simpl.
  - split; [tauto | lia].
  - rewrite IH. lia.
Qed.

Lemma in_zrange : forall n i, In i (zrange n) <-> 0 <= i < n.
Proof.
  intros n i. unfold zrange. rewrite in_zrange_from.
  destruct (Z_le_gt_dec 0 n); [rewrite Z2Nat.id by lia; lia|].
  replace (Z.to_nat n) with 0%nat by lia. lia.
Qed.

(* ------------------------------------------------------------------ bitset *)
Lemma set_from_iff : forall bs k i,
  In i (set_from k bs) <-> exists m, i = k + Z.of_nat m /\ nth_error bs m = Some true.
Proof.
  induction bs as [|b bs IH]; intros k i; simpl.
  - split; [tauto | intros [[|m] [_ H]]; discriminate].
  - assert (R : In i (set_from (k + 1) bs) <-> exists m, i = k + Z.of_nat (S m) /\ nth_error bs m = Some true).
    { rewrite IH. split; intros [m [E H]]; exists m; split; auto; lia. }
    destruct b; simpl; rewrite ?R; split.
    + intros [<-|[m [E H]]]; [exists 0%nat; split; [lia|reflexivity] | exists (S m); auto].
    + intros [[|m] [E H]]; [left; lia | right; exists m; auto].
    + intros [m [E H]]; exists (S m); auto.
    + intros [[|m] [E H]]; [discriminate | exists m; auto].
Qed.

Lemma set_from_bounds : forall bs k i, In i (set_from k bs) -> k <= i < k + zlen bs.
Proof.
  intros bs k i H. apply set_from_iff in H. destruct H as [m [-> H]].
  assert (m < length bs)%nat by (apply nth_error_Some; congruence). unfold zlen; lia.
Qed.

Lemma set_from_zset : forall bs i j,
  In j (set_from 0 (zset bs i true)) -> j = Z.of_nat (Z.to_nat i) \/ In j (set_from 0 bs).
Proof.
  intros bs i j H. apply set_from_iff in H. destruct H as [m [-> H]]. unfold zset in H.
  apply nth_error_nset in H. destruct H as [[-> _]|H]; [left; lia|].
  right. apply set_from_iff. exists m; auto.
Qed.

Lemma length_setall_from : forall bs k l, length (setall_from k l bs) = length bs.
Proof. induction bs; intros; simpl; auto. Qed.

Lemma set_from_setall : forall bs k l j,
  In j (set_from k (setall_from k l bs)) -> j < l \/ In j (set_from k bs).
Proof.
  induction bs as [|b bs IH]; intros k l j; simpl; [tauto|].
  destruct (k <? l) eqn:E.
  - simpl. intros [<-|H]; [left; lia|].
    apply IH in H. destruct H; auto. right. destruct b; simpl; auto.
  - destruct b; simpl.
    + intros [<-|H]; auto. apply IH in H. tauto.
    + intros H. apply IH in H. tauto.
Qed.

(* ------------------------------------------------------------------ invariant and "good" accumulators *)
Definition Inv (t : torrent) (s : dst) : Prop :=
  zlen (d_have s) = t_n t /\ zlen (d_cnt s) = t_n t /\
  Forall (fun qb => clean (t_n t) (snd qb) = true) (d_peers s).
Definition EffsOk (t : torrent) (es : list eff) : Prop := Forall (fun e => eff_ok t e = true) es.
Definition Good (t : torrent) (a : acc) : Prop := Inv t (a_st a) /\ EffsOk t (a_eff a).

Lemma inv_iff : forall t s, inv t s = true <-> Inv t s.
Proof.
  intros t s. unfold inv, Inv. rewrite !andb_true_iff, !Z.eqb_eq, forallb_forall, Forall_forall.
  split.
  - intros [[H1 H2] H3]. repeat split; auto. intros [q b] Hin. apply (H3 (q, b) Hin).
  - intros [H1 [H2 H3]]. repeat split; auto. intros [q b] Hin. apply (H3 (q, b) Hin).
Qed.

Lemma clean_spec : forall n b, clean n b = true <->
  blen b = n /\ zlen (bbits b) = 64 * ((n + 63) / 64) /\ forall i, In i (set_idxs b) -> i < n.
Proof.
  intros n b. unfold clean. rewrite !andb_true_iff, !Z.eqb_eq, forallb_forall.
  split.
  - intros [[H1 H2] H3]. repeat split; auto. intros i Hi. specialize (H3 i Hi). apply Z.ltb_lt in H3. lia.
  - intros [H1 [H2 H3]]. repeat split; auto. intros i Hi. apply Z.ltb_lt. auto.
Qed.

Lemma clean_idx : forall n b i, clean n b = true -> In i (set_idxs b) -> 0 <= i < n.
Proof.
  intros n b i Hc Hi. apply clean_spec in Hc. destruct Hc as [_ [_ H]].
  split; [|auto]. apply set_from_bounds in Hi. lia.
Qed.

Lemma find_peer_in : forall ps q b, find_peer ps q = Some b -> In (q, b) ps.
Proof.
  induction ps as [|[q' b'] ps IH]; simpl; intros q b H; [discriminate|].
  destruct (q' =? q) eqn:E; [apply Z.eqb_eq in E; inversion H; subst; auto | right; auto].
Qed.

Lemma find_peer_clean : forall t s q b, Inv t s -> find_peer (d_peers s) q = Some b -> clean (t_n t) b = true.
Proof.
  intros t s q b [_ [_ H]] Hf. apply find_peer_in in Hf. rewrite Forall_forall in H. apply (H (q, b) Hf).
Qed.

Lemma Forall_set_peer : forall (P : Z * bset -> Prop) ps q b,
  Forall P ps -> (forall q', P (q', b)) -> Forall P (set_peer ps q b).
Proof.
  intros P ps q b H Hb. unfold set_peer. apply Forall_forall. intros x Hx.
  apply in_map_iff in Hx. destruct Hx as [[q' b'] [<- Hin]].
  destruct (q' =? q); [apply Hb | rewrite Forall_forall in H; apply (H _ Hin)].
Qed.

Lemma Forall_del_peer : forall (P : Z * bset -> Prop) ps q, Forall P ps -> Forall P (del_peer ps q).
Proof.
  intros P ps q H. unfold del_peer. apply Forall_forall. intros x Hx. apply filter_In in Hx.
  rewrite Forall_forall in H. apply H; tauto.
Qed.

Lemma good_emit : forall t a e, Good t a -> eff_ok t e = true -> Good t (emit a e).
Proof.
  intros t a e [HI HE] He. split; simpl; auto. unfold EffsOk in *. apply Forall_app; auto.
Qed.

Lemma in_range_iff : forall t i, in_range t i = true <-> 0 <= i < t_n t.
Proof. intros; unfold in_range; rewrite andb_true_iff, Z.leb_le, Z.ltb_lt; tauto. Qed.

(* ------------------------------------------------------------------ piece lengths *)
Section WithTorrent.
Variable t : torrent.
Hypothesis WF : wf_torrent t = true.

Lemma wf_facts : 1 <= t_n t /\ 1 <= t_p t /\ t_p t * (t_n t - 1) < t_len t /\ t_len t <= t_p t * t_n t.
Proof.
  unfold wf_torrent in WF. rewrite !andb_true_iff, !Z.leb_le, !Z.ltb_lt in WF. tauto.
Qed.

Lemma p_small : t_p t < 2 ^ 31.
Proof. unfold wf_torrent in WF. rewrite !andb_true_iff, !Z.leb_le, !Z.ltb_lt in WF. tauto. Qed.

Lemma n_small : t_n t < two64.
Proof.
  unfold wf_torrent in WF. rewrite !andb_true_iff, !Z.leb_le, !Z.ltb_lt in WF.
  assert (2 ^ 63 < two64) by (unfold two64; lia). lia.
Qed.

Lemma plen_range : forall i, 0 <= i < t_n t -> 1 <= plen t i <= t_p t /\ 0 <= t_p t * i /\ t_p t * i + plen t i <= t_len t.
Proof.
  intros i Hi. destruct wf_facts as [Hn [Hp [Hl1 Hl2]]]. unfold plen.
  replace ((i <? 0) || (t_n t <=? i)) with false
    by (symmetry; apply orb_false_iff; split; [apply Z.ltb_ge | apply Z.leb_gt]; lia).
  destruct (i =? t_n t - 1) eqn:E.
  - apply Z.eqb_eq in E. subst i. nia.
  - apply Z.eqb_neq in E. nia.
Qed.

Lemma plen_le_bound : forall i, plen t i <= alloc_bound t.
Proof.
  intros i. unfold alloc_bound. destruct (Z_lt_ge_dec i 0) as [H|H].
  - unfold plen. replace (i <? 0) with true by (symmetry; apply Z.ltb_lt; lia). simpl.
    unfold max_msg, C14_consts.conn_max_message_size. lia.
  - destruct (Z_lt_ge_dec i (t_n t)) as [H2|H2].
    + destruct (plen_range i) as [[_ Hb] _]; lia.
    + unfold plen. replace (t_n t <=? i) with true by (symmetry; apply Z.leb_le; lia).
      rewrite orb_true_r. unfold max_msg, C14_consts.conn_max_message_size. lia.
Qed.

(* ------------------------------------------------------------------ counters *)
Lemma cnt_add_good : forall a i dlt, Good t a -> 0 <= i < t_n t ->
  exists a', cnt_add a i dlt = Some a' /\ Good t a' /\
             d_have (a_st a') = d_have (a_st a) /\ d_peers (a_st a') = d_peers (a_st a) /\
             d_reqs (a_st a') = d_reqs (a_st a) /\ a_eff a' = a_eff a ++ [ECounter i].
Proof.
  intros a i dlt HG Hi. unfold cnt_add.
  assert (HG' : Good t (emit a (ECounter i))) by (apply good_emit; auto; simpl; now apply in_range_iff).
  destruct HG' as [[H1 [H2 H3]] HE]. simpl in *.
  unfold idx_ok. rewrite H2.
  replace ((0 <=? i) && (i <? t_n t)) with true
    by (symmetry; apply andb_true_iff; split; [apply Z.leb_le | apply Z.ltb_lt]; lia).
  eexists; split; [reflexivity|]. simpl. repeat split; auto. simpl. now rewrite zlen_zset.
Qed.

Lemma cnt_add_all_good : forall is a dlt, Good t a -> (forall i, In i is -> 0 <= i < t_n t) ->
  exists a', cnt_add_all a is dlt = Some a' /\ Good t a' /\
             d_have (a_st a') = d_have (a_st a) /\ d_peers (a_st a') = d_peers (a_st a) /\
             d_reqs (a_st a') = d_reqs (a_st a) /\ a_eff a' = a_eff a ++ map ECounter is.
Proof.
  induction is as [|i is IH]; intros a dlt HG Hi; simpl.
  - exists a; repeat split; auto; try apply HG. now rewrite app_nil_r.
  - destruct (cnt_add_good a i dlt HG (Hi i (or_introl eq_refl))) as [a1 [E1 [G1 [A1 [B1 [C1 D1]]]]]].
    rewrite E1. destruct (IH a1 dlt G1 (fun j Hj => Hi j (or_intror Hj))) as [a2 [E2 [G2 [A2 [B2 [C2 D2]]]]]].
    exists a2. rewrite E2. repeat split; try apply G2; try congruence.
    rewrite D2, D1, <- app_assoc. reflexivity.
Qed.

(* ------------------------------------------------------------------ requests *)
Lemma request_more_good : forall a q, Good t a ->
  Good t (request_more t a q) /\ d_have (a_st (request_more t a q)) = d_have (a_st a) /\
  d_peers (a_st (request_more t a q)) = d_peers (a_st a) /\ d_cnt (a_st (request_more t a q)) = d_cnt (a_st a).
Proof.
  intros a q HG. unfold request_more. destruct (find_peer (d_peers (a_st a)) q) as [b|]; [|auto].
  set (cands := filter _ (zrange (t_n t))).
  assert (Hc : forall i, In i cands -> 0 <= i < t_n t).
  { intros i Hi. apply filter_In in Hi. apply in_zrange. tauto. }
  clearbody cands. revert a HG. induction cands as [|i cands IH]; intros a HG; simpl; [auto|].
  match goal with |- context [fold_left ?f cands ?x] => set (a1 := x) end.
  assert (G1 : Good t a1 /\ d_have (a_st a1) = d_have (a_st a) /\ d_peers (a_st a1) = d_peers (a_st a) /\
               d_cnt (a_st a1) = d_cnt (a_st a)).
  { subst a1. destruct (pending_on (d_reqs (a_st a)) i); [auto|]. split; [|auto].
    apply good_emit.
    - destruct HG as [[H1 [H2 H3]] HE]. repeat split; auto.
    - simpl. rewrite Z.eqb_refl, andb_true_r. apply in_range_iff. apply Hc. now left. }
  destruct G1 as [G1 [A1 [B1 C1]]].
  destruct (IH (fun j Hj => Hc j (or_intror Hj)) a1 G1) as [G2 [A2 [B2 C2]]].
  repeat split; try apply G2; congruence.
Qed.

(* ------------------------------------------------------------------ removal *)
Lemma remove_peer_good : forall a q, Good t a -> exists a', remove_peer a q = Some a' /\ Good t a' /\
  d_have (a_st a') = d_have (a_st a).
Proof.
  intros a q HG. unfold remove_peer. destruct (find_peer (d_peers (a_st a)) q) as [b|] eqn:Hf.
  - assert (Hb : clean (t_n t) b = true) by (eapply find_peer_clean; [apply HG | eauto]).
    match goal with |- context [cnt_add_all ?x _ _] => set (a1 := x) end.
    assert (G1 : Good t a1).
    { destruct HG as [[H1 [H2 H3]] HE]. subst a1. repeat split; simpl; auto. now apply Forall_del_peer. }
    destruct (cnt_add_all_good (set_idxs b) a1 (-1) G1 (fun i Hi => clean_idx _ _ _ Hb Hi))
      as [a2 [E2 [G2 [A2 _]]]].
    exists a2. repeat split; auto; apply G2.
  - exists a. repeat split; auto; apply HG.
Qed.

Lemma remove_peers_good : forall qs a, Good t a -> exists a', remove_peers a qs = Some a' /\ Good t a' /\
  d_have (a_st a') = d_have (a_st a).
Proof.
  induction qs as [|q qs IH]; intros a HG; simpl.
  - exists a; repeat split; auto; apply HG.
  - destruct (remove_peer_good a q HG) as [a1 [E1 [G1 A1]]]. rewrite E1.
    destruct (IH a1 G1) as [a2 [E2 [G2 A2]]]. exists a2. repeat split; auto; try apply G2. congruence.
Qed.

(* ------------------------------------------------------------------ bit writes *)
Lemma to_uint_small : forall i, 0 <= i < two64 -> to_uint i = i.
Proof. intros; unfold to_uint; now apply Z.mod_small. Qed.

Lemma b_set_clean : forall b i, clean (t_n t) b = true -> 0 <= i < t_n t ->
  exists b', b_set b i = Some b' /\ clean (t_n t) b' = true.
Proof.
  intros b i Hc Hi. pose proof Hc as Hc'. apply clean_spec in Hc'. destruct Hc' as [H1 [H2 H3]].
  unfold b_set. rewrite H1. replace (i <? t_n t) with true by (symmetry; apply Z.ltb_lt; lia).
  eexists; split; [reflexivity|]. apply clean_spec. simpl. rewrite zlen_zset. repeat split; auto.
  intros j Hj. unfold set_idxs in Hj; simpl in Hj. apply set_from_zset in Hj.
  destruct Hj as [->|Hj]; [rewrite Z2Nat.id; lia | now apply H3].
Qed.

Lemma set_bit_good : forall a q i, Good t a -> 0 <= i < t_n t ->
  exists a', set_bit_of a q i = Some a' /\ Good t a' /\ d_have (a_st a') = d_have (a_st a) /\
             d_cnt (a_st a') = d_cnt (a_st a).
Proof.
  intros a q i HG Hi. pose proof n_small as Hn. unfold set_bit_of.
  assert (G1 : Good t (emit a (EBit i))) by (apply good_emit; auto; simpl; now apply in_range_iff).
  simpl. destruct (find_peer (d_peers (a_st a)) q) as [b|] eqn:Hf.
  - assert (Hb : clean (t_n t) b = true) by (eapply find_peer_clean; [apply HG | eauto]).
    rewrite to_uint_small by lia.
    destruct (b_set_clean b i Hb Hi) as [b' [E Hc']]. rewrite E.
    eexists; split; [reflexivity|]. destruct G1 as [[H1 [H2 H3]] HE]. simpl in *.
    repeat split; simpl; auto. apply Forall_set_peer; auto.
  - eexists; split; [reflexivity|]. repeat split; auto; apply G1.
Qed.

(* ------------------------------------------------------------------ handlers of the patched code *)
Lemma good_mark_invalid : forall a q i, Good t a -> Good t (do_mark_invalid a q i).
Proof. intros a q i [[H1 [H2 H3]] HE]. repeat split; simpl; auto. Qed.

Lemma do_complete_good : forall a, Good t a ->
  Good t (do_complete a) /\ a_st (do_complete a) = a_st a.
Proof.
  intros a HG. unfold do_complete. generalize (d_peers (a_st a)) as ps. intros ps. revert a HG.
  induction ps as [|[q b] ps IH]; intros a HG; simpl; [auto|].
  match goal with |- context [fold_left ?f ps ?x] => set (a1 := x) end.
  assert (G1 : Good t a1 /\ a_st a1 = a_st a).
  { subst a1. destruct (b_all b); (split; [apply good_emit; auto | reflexivity]). }
  destruct G1 as [G1 E1]. destruct (IH a1 G1) as [G2 E2]. split; auto. congruence.
Qed.

Lemma announce_others_good : forall a q i, Good t a -> 0 <= i < t_n t ->
  Good t (announce_others a q i) /\ a_st (announce_others a q i) = a_st a.
Proof.
  intros a q i HG Hi. unfold announce_others. generalize (d_peers (a_st a)) as ps. intros ps. revert a HG.
  induction ps as [|[q' b] ps IH]; intros a HG; simpl; [auto|].
  match goal with |- context [fold_left ?f ps ?x] => set (a1 := x) end.
  assert (G1 : Good t a1 /\ a_st a1 = a_st a).
  { subst a1. destruct ((q' =? q) || existsb (Z.eqb q') (closed_of (a_eff a))); [auto|].
    split; [|reflexivity]. apply good_emit; auto. simpl. now apply in_range_iff. }
  destruct G1 as [G1 E1]. destruct (IH a1 G1) as [G2 E2]. split; auto. congruence.
Qed.

Lemma get_piece_fixed : forall i,
  get_piece gfixed t i = Some (in_range t i).
Proof.
  intros i. unfold get_piece, in_range. simpl.
  destruct (t_n t <=? i) eqn:E1; destruct (i <? 0) eqn:E2; simpl;
    rewrite ?Z.leb_le, ?Z.leb_gt, ?Z.ltb_lt, ?Z.ltb_ge in *; f_equal; symmetry;
    rewrite ?andb_true_iff, ?andb_false_iff, ?Z.leb_le, ?Z.leb_gt, ?Z.ltb_lt, ?Z.ltb_ge; try lia.
Qed.

Lemma serve_good : forall a q i, Good t a -> 0 <= i < t_n t ->
  exists a', set_bit_of (emit (emit a (ESend q (RPay i (plen t i) (in_range t i)))) (EFileRd (t_p t * i) (plen t i))) q i = Some a'
             /\ Good t a' /\ d_have (a_st a') = d_have (a_st a).
Proof.
  intros a q i HG Hi. destruct (plen_range i Hi) as [[Hl1 Hl2] [Ho1 Ho2]].
  assert (Hr : in_range t i = true) by now apply in_range_iff.
  match goal with |- context [set_bit_of ?x q i] => assert (G1 : Good t x) end.
  { apply good_emit; [apply good_emit; auto|]; simpl.
    - now rewrite Hr, Z.eqb_refl.
    - rewrite !andb_true_iff, !Z.leb_le. lia. }
  destruct (set_bit_good _ q i G1 Hi) as [a' [E [G' [A' _]]]]. exists a'. repeat split; auto; apply G'.
Qed.

Lemma handle_request_good : forall a q i off len, Good t a ->
  exists a', handle_request gfixed t a q i off len = Some a' /\ Good t a' /\ d_have (a_st a') = d_have (a_st a).
Proof.
  intros a q i off len HG. unfold handle_request.
  assert (GE : forall a0, Good t a0 -> Good t (emit a0 (ESend q (RErr i 0)))) by (intros; now apply good_emit).
  destruct (is_full t i off len); simpl; [|eexists; split; [reflexivity|]; split; [auto|reflexivity]].
  destruct (t_kind t).
  - rewrite get_piece_fixed. destruct (in_range t i) eqn:Hr.
    + apply in_range_iff in Hr. simpl.
      destruct (zget (d_have (a_st a)) i false).
      * assert (G1 : Good t (emit a (EPiece i))) by (apply good_emit; auto; simpl; now apply in_range_iff).
        destruct (serve_good _ q i G1 Hr) as [a' [E [G' A']]]. rewrite (proj2 (in_range_iff t i) Hr) in E.
        exists a'. repeat split; auto; apply G'.
      * eexists; split; [reflexivity|]. split; [|reflexivity]. apply GE. apply good_emit; auto. simpl. now apply in_range_iff.
    + eexists; split; [reflexivity|]. split; [auto|reflexivity].
  - destruct (t_n t <=? i) eqn:E1; [eexists; split; [reflexivity|]; split; [auto|reflexivity]|].
    destruct (i <? 0) eqn:E2; simpl; [eexists; split; [reflexivity|]; split; [auto|reflexivity]|].
    apply Z.leb_gt in E1. apply Z.ltb_ge in E2.
    destruct (serve_good a q i HG (conj E2 E1)) as [a' [E [G' A']]]. exists a'. repeat split; auto; apply G'.
Qed.

Lemma handle_payload_good : forall a q i off len sumok, Good t a ->
  exists a', handle_payload gfixed t a q i off len sumok = Some a' /\ Good t a'.
Proof.
  intros a q i off len sumok HG. unfold handle_payload.
  destruct (is_full t i off len) eqn:Hfull; simpl; [|eexists; split; [reflexivity|]; now apply good_mark_invalid].
  destruct (t_kind t); [|eexists; split; [reflexivity|]; now apply good_mark_invalid].
  rewrite get_piece_fixed. destruct (in_range t i) eqn:Hr; [|eexists; split; [reflexivity|]; now apply good_mark_invalid].
  apply in_range_iff in Hr.
  assert (G1 : Good t (emit a (EPiece i))) by (apply good_emit; auto; simpl; now apply in_range_iff).
  destruct (zget (d_have (a_st a)) i false); [eexists; split; [reflexivity|]; auto|].
  unfold is_full in Hfull. apply andb_true_iff in Hfull. destruct Hfull as [_ Hlen]. apply Z.eqb_eq in Hlen.
  destruct (plen_range i Hr) as [[Hl1 Hl2] [Ho1 Ho2]].
  assert (G2 : Good t (emit (emit a (EPiece i)) (EFileWr (t_p t * i) len))).
  { apply good_emit; auto. simpl. rewrite !andb_true_iff, !Z.leb_le. lia. }
  destruct sumok; simpl; [|eexists; split; [reflexivity|]; now apply good_mark_invalid].
  eexists; split; [reflexivity|].
  match goal with |- Good t (announce_others ?x q i) => assert (G5 : Good t x) end.
  { match goal with |- Good t (if ?c then ?x else request_more t ?x q) =>
      assert (G4 : Good t x); [|destruct c; [exact G4 | apply request_more_good; exact G4]] end.
    match goal with |- Good t (with_st ?x _) => assert (G3 : Good t x) end.
    { assert (G3' : Good t (with_st (emit (emit a (EPiece i)) (EFileWr (t_p t * i) len))
                    (mkd (zset (d_have (a_st a)) i true) (d_peers (a_st a)) (d_cnt (a_st a)) (d_reqs (a_st a))))).
      { destruct G2 as [[H1 [H2 H3]] HE]. simpl in *. repeat split; simpl; auto. now rewrite zlen_zset. }
      match goal with |- Good t (if ?c then _ else _) => destruct c end; [apply do_complete_good|]; exact G3'. }
    destruct G3 as [[H1 [H2 H3]] HE]. repeat split; simpl; auto. }
  apply announce_others_good; auto.
Qed.

Lemma handle_announce_good : forall a q i, Good t a ->
  exists a', handle_announce gfixed t a q i = Some a' /\ Good t a' /\ d_have (a_st a') = d_have (a_st a).
Proof.
  intros a q i HG. unfold handle_announce. simpl.
  destruct ((t_n t <=? i) || (i <? 0)) eqn:E; [exists a; repeat split; auto; apply HG|].
  apply orb_false_iff in E. destruct E as [E1 E2]. apply Z.leb_gt in E1. apply Z.ltb_ge in E2.
  destruct (set_bit_good a q i HG (conj E2 E1)) as [a1 [X1 [G1 [A1 _]]]]. rewrite X1.
  destruct (cnt_add_good a1 i 1 G1 (conj E2 E1)) as [a2 [X2 [G2 [A2 _]]]]. rewrite X2.
  eexists; split; [reflexivity|]. destruct (request_more_good a2 q G2) as [G3 [A3 _]]. split; auto. congruence.
Qed.

Lemma b_setall_clean : forall b, clean (t_n t) b = true -> clean (t_n t) (b_setall b) = true.
Proof.
  intros b Hc. apply clean_spec in Hc. destruct Hc as [H1 [H2 H3]]. apply clean_spec. unfold b_setall. simpl.
  repeat split; auto.
  - unfold zlen in *. now rewrite length_setall_from.
  - intros i Hi. unfold set_idxs in Hi. simpl in Hi. apply set_from_setall in Hi. destruct Hi; [lia|]. now apply H3.
Qed.

Lemma handle_complete_good : forall a q, Good t a ->
  Good t (handle_complete t a q) /\ d_have (a_st (handle_complete t a q)) = d_have (a_st a).
Proof.
  intros a q HG. unfold handle_complete. destruct (all_have (a_st a)); [split; [now apply good_emit | reflexivity]|].
  destruct (find_peer (d_peers (a_st a)) q) as [b|] eqn:Hf; [|auto].
  assert (Hb : clean (t_n t) b = true) by (eapply find_peer_clean; [apply HG | eauto]).
  match goal with |- context [request_more t ?x q] => assert (G1 : Good t x) end.
  { destruct HG as [[H1 [H2 H3]] HE]. repeat split; simpl; auto. apply Forall_set_peer; auto.
    intros; simpl. now apply b_setall_clean. }
  destruct (request_more_good _ q G1) as [G2 [A2 _]]. split; auto.
Qed.

Lemma dispatch_good : forall a q m, Good t a ->
  exists a', dispatch gfixed t a q m = Some a' /\ Good t a'.
Proof.
  intros a q m HG. unfold dispatch. simpl.
  destruct (m_ty m =? 5).
  { destruct (m_err m) as [[i c]|]; [|eauto]. eexists; split; [reflexivity|].
    destruct (c =? 0); [now apply good_mark_invalid | exact HG]. }
  destruct (m_ty m =? 3).
  { destruct (m_ann m) as [i|]; [|eauto].
    destruct (handle_announce_good a q i HG) as [a' [E [G _]]]; eauto. }
  destruct (m_ty m =? 1).
  { destruct (m_req m) as [[[i off] len]|]; [|eauto].
    destruct (handle_request_good a q i off len HG) as [a' [E [G _]]]; eauto. }
  destruct (m_ty m =? 2).
  { destruct (m_pay m) as [[[i off] len]|]; [|eauto]. apply handle_payload_good; auto. }
  destruct (m_ty m =? 6); [|eauto].
  eexists; split; [reflexivity|]. now apply handle_complete_good.
Qed.

Lemma max_msg_le_bound : max_msg <= alloc_bound t.
Proof. unfold alloc_bound; lia. Qed.

Lemma recv_good : forall a q m, Good t a -> exists a', recv gfixed t a q m = Some a' /\ Good t a'.
Proof.
  intros a q m HG. unfold recv. simpl.
  destruct (max_msg <? m_size m) eqn:Es; [eexists; split; [reflexivity|]; now apply good_emit|].
  apply Z.ltb_ge in Es.
  assert (G1 : Good t (emit a (EAlloc (m_size m)))).
  { apply good_emit; auto. simpl. apply Z.leb_le. pose proof max_msg_le_bound. lia. }
  destruct (m_ok m); simpl; [|eexists; split; [reflexivity|]; now apply good_emit].
  destruct (m_ty m =? 2); [|now apply dispatch_good].
  destruct (m_pay m) as [[[i off] len]|] eqn:Ep; [|eexists; split; [reflexivity|]; now apply good_emit].
  destruct ((len <? 0) || (t_p t <? len)) eqn:El; [eexists; split; [reflexivity|]; now apply good_emit|].
  apply orb_false_iff in El. destruct El as [El1 El2]. rewrite El1. apply Z.ltb_ge in El1, El2.
  pose proof p_small as Hp.
  replace (max_alloc <? len) with false by (symmetry; apply Z.ltb_ge; unfold max_alloc; lia). simpl.
  assert (G2 : Good t (emit (emit a (EAlloc (m_size m))) (EAlloc len))).
  { apply good_emit; auto. simpl. apply Z.leb_le. unfold alloc_bound. lia. }
  destruct (m_deliver m); simpl; [|eexists; split; [reflexivity|]; now apply good_emit].
  now apply dispatch_good.
Qed.

Lemma step_good : forall s q m, Inv t s ->
  exists a', step gfixed t s q m = Some a' /\ Good t a'.
Proof.
  intros s q m HI. unfold step.
  assert (G0 : Good t (mka s [])) by (split; [exact HI | constructor]).
  destruct (find_peer (d_peers s) q); [|eauto].
  destruct (recv_good (mka s []) q m G0) as [a1 [E1 G1]]. rewrite E1. unfold finish.
  destruct (remove_peers_good (closed_of (a_eff a1)) a1 G1) as [a2 [E2 [G2 _]]]. eauto.
Qed.

Lemma hangup_good : forall s q, Inv t s -> exists a', hangup s q = Some a' /\ Good t a'.
Proof.
  intros s q HI. unfold hangup.
  assert (G0 : Good t (mka s [])) by (split; [exact HI | constructor]).
  destruct (remove_peer_good (mka s []) q G0) as [a' [E [G _]]]. eauto.
Qed.

End WithTorrent.
