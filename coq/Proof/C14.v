From Coq Require Import List ZArith Bool Lia.
From K.Model Require Import C14.
Import ListNotations.
Local Open Scope Z_scope.
Lemma placeholder : True. Proof. exact I. Qed.
