(* C15: entry point of the proofs (parts: C15_base, C15_inv, C15_ref, C15_thm, C15_pol),
   the refutation witnesses for the code at the pinned commit, and non-vacuity witnesses. *)
From Coq Require Import List NArith ZArith Bool Lia Permutation.
From K.Model Require Import C15.
From K.Proof Require Export C15_base C15_inv C15_ref C15_thm C15_pol.
Import ListNotations.
Local Open Scope N_scope.

Definition wit_cfg : cfg := mkcfg 5 3%Z 3%Z.
(* reserve piece 0 for peer 0, let the request expire, reserve it for peer 0 again *)
Definition wit_ops : list op :=
  [Reserve 0 false [0] false [0]; Tick 6; Reserve 0 false [0] false [0]].

(* ---- the ClearPeer of the pinned commit (first request per piece only) *)
Lemma clearpeer_refuted :
  exists c ops p,
    let s := fst (run_prefix c init (ops ++ [ClearPeer p; Tick 6])) in
    (exists r, In r (live s) /\ r_peer r = p) /\
    In (0, p, code_expired) (get_failed c s) /\
    bp_get s p 0 = None.
Proof.
  exists wit_cfg, wit_ops, 0. vm_compute. split; [|split; [left|]; reflexivity].
  eexists. split; [left; reflexivity|reflexivity].
Qed.

(* the ghost is also invisible to requestQuota: peer 0 can be handed limit+1 outstanding requests *)
Lemma prefix_pipeline_refuted :
  exists c ops p origin cands ch,
    let s := fst (run_prefix c init ops) in
    legal c s p origin cands false ch = true /\
    (limit_of c origin < Z.of_nat (count_pu_peer c (now s) p (live (reserve_all p s ch))))%Z.
Proof.
  exists wit_cfg, (wit_ops ++ [ClearPeer 0]), 0, false, [1; 2; 3], [1; 2; 3].
  vm_compute. split; reflexivity.
Qed.

(* and the property oracle rejects the outputs of that code *)
Lemma prefix_check_refuted :
  exists c ops, C15_check c ops (snd (run_prefix c init ops)) = false.
Proof. exists wit_cfg, (wit_ops ++ [ClearPeer 0; Tick 6; GetFailed]). vm_compute. reflexivity. Qed.

(* the same histories on the fixed model *)
Lemma fixed_witness :
  let s := fst (run wit_cfg init (wit_ops ++ [ClearPeer 0; Tick 6])) in
  live s = [] /\ get_failed wit_cfg s = [] /\
  C15_check wit_cfg (wit_ops ++ [ClearPeer 0; Tick 6; GetFailed])
            (snd (run wit_cfg init (wit_ops ++ [ClearPeer 0; Tick 6; GetFailed]))) = true.
Proof. vm_compute. auto. Qed.

(* ---- the policies plugged into the manager: whatever requestQuota and validRequest are in
   the current state, what either policy returns is accepted by ReservePieces' bookkeeping *)
Lemma reserve_default_accepted c s p origin cands dup rnd k :
  NoDup cands -> quota c s p origin = Z.of_nat k ->
  legal c s p origin cands dup (default_select k (fun i => valid c s p i dup) cands rnd) = true.
Proof. intros ND Q. unfold legal. rewrite Q. now apply default_policy_legal. Qed.

Lemma reserve_rarest_accepted c s p origin cands dup order k :
  NoDup order -> (forall x, In x order -> In x cands) -> quota c s p origin = Z.of_nat k ->
  legal c s p origin cands dup (rarest_select k (fun i => valid c s p i dup) order) = true.
Proof. intros ND Hc Q. unfold legal. rewrite Q. now apply rarest_policy_legal. Qed.

(* ---- what the oracle's comparison means *)
Definition out_equiv (a b : out) : Prop :=
  match a, b with
  | OUnit, OUnit => True
  | ORes x, ORes y => x = y
  | OFailed x, OFailed y => Permutation x y
  | OPending x, OPending y => Permutation x y
  | _, _ => False
  end.

Lemma out_eqb_equiv a b : out_eqb a b = true <-> out_equiv a b.
Proof.
  destruct a, b; cbn; try (split; [discriminate|contradiction]); try tauto.
  - destruct legal, legal0; cbn; split; congruence.
  - split; [apply mset3_eqb_sound|apply mset3_eqb_perm].
  - split; [apply msetN_eqb_sound|apply msetN_eqb_perm].
Qed.

Lemma outs_eqb_equiv a b : outs_eqb a b = true <-> Forall2 out_equiv a b.
Proof.
  revert b. induction a as [|x a IH]; intros [|y b]; cbn.
  - split; auto.
  - split; [discriminate|intros H; inversion H].
  - split; [discriminate|intros H; inversion H].
  - rewrite andb_true_iff, out_eqb_equiv, IH. split.
    + intros [H1 H2]. now constructor.
    + intros H. inversion H; subst. auto.
Qed.

Lemma check_meaning c ops obs :
  C15_check c ops obs = true <-> Forall2 out_equiv (snd (srun c sinit ops)) obs.
Proof. apply outs_eqb_equiv. Qed.

(* ---- non-vacuity witnesses for the hypotheses of the theorems *)
Definition nv_ops : list op :=
  [Reserve 0 false [0; 1; 2; 3] false [0; 1]; Reserve 1 true [0; 1; 2; 3] false [2; 3];
   MarkUnsent 0 1; Tick 6; Reserve 0 false [0; 1] false [1]; MarkInvalid 0 1; Tick 3].

Lemma nv_pipeline_limit :
  let s := fst (run wit_cfg init nv_ops) in
  legal wit_cfg s 0 false [2; 3; 4] false [4] = true /\ [4] <> @nil N /\
  count_pu_peer wit_cfg (now s) 0 (live s) = 0%nat /\ length (live s) = 5%nat.
Proof. vm_compute. repeat split; discriminate. Qed.

Lemma nv_pipeline_always :
  Forall (reserve_flag_ok 0 false) nv_ops /\ Forall (reserve_flag_ok 1 true) nv_ops /\
  snd (run wit_cfg init nv_ops) = [ORes true; ORes true; OUnit; OUnit; ORes true; OUnit; OUnit].
Proof.
  split; [|split].
  - repeat constructor; cbn; intros; try reflexivity; discriminate.
  - repeat constructor; cbn; intros; try reflexivity; discriminate.
  - vm_compute. reflexivity.
Qed.

Lemma nv_no_endgame : Forall no_endgame nv_ops.
Proof. repeat constructor. Qed.

Definition nv_rest0 : list op := [Reserve 1 true [0; 1] true [0]; MarkInvalid 0 1; Tick 9; Clear 3; ClearPeer 1].
Lemma nv_clearpeer :
  Forall (no_reserve_for 0) nv_rest0 /\
  (exists r, In r (live (fst (run wit_cfg init nv_ops))) /\ r_peer r = 0) /\
  pending_pieces (fst (run wit_cfg init nv_ops)) 0 <> [] /\
  snd (run wit_cfg init (nv_ops ++ ClearPeer 0 :: nv_rest0)) =
    [ORes true; ORes true; OUnit; OUnit; ORes true; OUnit; OUnit; OUnit; ORes true; OUnit; OUnit; OUnit; OUnit].
Proof.
  split; [|split; [|split]].
  - repeat constructor; cbn; discriminate.
  - vm_compute. eexists. split; [left; reflexivity|reflexivity].
  - vm_compute. discriminate.
  - vm_compute. reflexivity.
Qed.

Definition nv_rest1 : list op := [Reserve 1 true [0; 1; 2] true [0]; MarkInvalid 0 1; Tick 9; ClearPeer 1].
Lemma nv_clear :
  Forall (no_reserve_of 1) nv_rest1 /\
  (exists r, In r (live (fst (run wit_cfg init nv_ops))) /\ r_piece r = 1) /\
  length (filter (fun r => N.eqb (r_piece r) 1) (live (fst (run wit_cfg init nv_ops)))) = 2%nat.
Proof.
  split; [|split].
  - repeat constructor; cbn; intros [H|[]]; discriminate.
  - vm_compute. eexists. split; [right; right; left; reflexivity|reflexivity].
  - vm_compute. reflexivity.
Qed.

Lemma nv_failed :
  get_failed wit_cfg (fst (run wit_cfg init nv_ops)) = [(0, 0, 1); (1, 0, 3); (1, 0, 3); (2, 1, 1); (3, 1, 1)] /\
  pending_pieces (fst (run wit_cfg init nv_ops)) 1 = [2; 3].
Proof. vm_compute. auto. Qed.

Lemma nv_policies :
  default_select 2 (fun i => negb (N.eqb i 1)) [0; 1; 2; 3; 4] [0%nat; 5%nat; 1%nat] = [3; 2] /\
  rarest_select 2 (fun i => negb (N.eqb i 1)) [3; 1; 2; 0; 4] = [3; 2].
Proof. vm_compute. auto. Qed.
