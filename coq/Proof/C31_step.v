(* C31: every guarded step preserves the invariant. *)
From Coq Require Import List NArith Bool Lia.
From K.Model Require Import C31.
From K.Proof Require Import C31_base C31_inv.
Import ListNotations.
Local Open Scope N_scope.

Section Step.
Variable nsof : N -> N.
Variable fx : bool.
Notation kof := (kof nsof).
Notation Inv := (Inv nsof).
Notation thr_ok := (thr_ok nsof).
Notation thr_wf := (thr_wf nsof).
Notation thr_cond := (thr_cond nsof).
Notation keys_wf := (keys_wf nsof).

Ltac simp_st := cbn [with_thr with_files s_files s_tasks s_back s_acked s_thr fst snd] in *.

Lemma stale_other : forall d th, thr_digest th <> d -> stale_thread d th = th.
Proof.
  intros d [ns x pc|ns x ph|x pc]; cbn; intros H; auto.
  - destruct (x =? d) eqn:E; auto. apply N.eqb_eq in E; congruence.
  - destruct pc; auto. destruct (x =? d) eqn:E; auto. apply N.eqb_eq in E; congruence.
Qed.

Lemma up_at_add_sub : forall d (l l' : list (N * thread)),
  (forall x, In x l' -> In x l) -> up_at_add d l' = true -> up_at_add d l = true.
Proof.
  intros d l l' S H; unfold up_at_add in *. apply existsb_exists in H. destruct H as [x [Hx E]].
  apply existsb_exists; eauto.
Qed.

Lemma up_at_add_tset : forall d t th l,
  up_at_add d (tset t th l) = true -> up_at_add d l = true \/ exists ns, th = TUp ns d UAdd.
Proof.
  intros d t th l H. apply existsb_tset in H. destruct H as [H|H]; auto. right.
  cbn in H. destruct th as [ns x pc| |]; try discriminate. destruct pc; try discriminate.
  apply N.eqb_eq in H; subst; eauto.
Qed.
Lemma up_at_add_tremove : forall d t l, up_at_add d (tremove t l) = true -> up_at_add d l = true.
Proof. intros d t l; apply existsb_tremove. Qed.
Lemma up_at_add_app : forall d l t th,
  up_at_add d (l ++ [(t, th)]) = true -> up_at_add d l = true \/ exists ns, th = TUp ns d UAdd.
Proof.
  intros d l t th H; unfold up_at_add in H; rewrite existsb_app in H. apply orb_true_iff in H.
  destruct H as [H|H]; auto. right. cbn in H. rewrite orb_false_r in H.
  destruct th as [ns x pc| |]; try discriminate. destruct pc; try discriminate.
  apply N.eqb_eq in H; subst; eauto.
Qed.

Lemma inv_thr_wf : forall s x, Inv s -> In x (s_thr s) -> thr_wf (snd x).
Proof. intros s x I H; apply (i_thr _ _ I) in H; destruct H; auto. Qed.

(* everything that belongs to d0 is irrelevant once (nsof d0, d0) is in the backend *)
Lemma inv_vacuous : forall s s' d0,
  Inv s -> kmem (kof d0) (s_back s') = true ->
  (forall k, kmem k (s_back s) = true -> kmem k (s_back s') = true) ->
  (forall d, d <> d0 -> flook d (s_files s') = flook d (s_files s)) ->
  (forall k, snd k <> d0 -> kmem k (s_tasks s') = kmem k (s_tasks s)) ->
  (forall k, snd k <> d0 -> kmem k (s_acked s') = kmem k (s_acked s)) ->
  (forall d, d <> d0 -> up_at_add d (s_thr s') = true -> up_at_add d (s_thr s) = true) ->
  (forall x, In x (s_thr s') -> thr_digest (snd x) <> d0 -> In x (s_thr s)) ->
  keys_wf (s_tasks s') -> keys_wf (s_acked s') ->
  (forall x, In x (s_thr s') -> thr_digest (snd x) = d0 -> thr_wf (snd x)) ->
  Inv s'.
Proof.
  intros s s' d0 I B Bm Ff Ft Fa Fu Fthr Wt Wa W0.
  eapply inv_frame with (d0 := d0); eauto; try (intros; congruence).
  intros x Hx Hd. apply thr_ok_inback; auto. rewrite Hd; auto.
Qed.

(* ---- shape of an executor step *)
Lemma exec_step_shape : forall k ph up s s1 ph1 r,
  exec_step fx k ph up s = (s1, ph1, r) ->
  s_tasks s1 = s_tasks s /\ s_acked s1 = s_acked s /\ s_thr s1 = s_thr s /\
  (forall k', kmem k' (s_back s) = true -> kmem k' (s_back s1) = true) /\
  (forall d, d <> snd k -> flook d (s_files s1) = flook d (s_files s)).
Proof.
  intros k ph up s s1 ph1 r H. destruct ph; cbn in H.
  - destruct (up && kmem k (s_back s)); inversion H; subst; auto 6.
  - destruct (present (snd k) (s_files s)); inversion H; subst; auto 6.
  - destruct (if fx then present (snd k) (s_files s) else fresh); inversion H; subst; auto 6.
  - destruct up; inversion H; subst; simp_st; auto 6.
    repeat split; auto. intros; apply kmem_add_key_mono; auto.
  - inversion H; subst; simp_st. repeat split; auto. intros; apply flook_fset_other; auto.
  - inversion H; subst; auto 6.
Qed.

Lemma exec_step_good : forall k ph up s,
  kmem k (s_back s) = false -> persisted (snd k) (s_files s) = true -> clr_phase ph = false ->
  (ph = EOpen false -> fx = true) ->
  (exists ph1 r, exec_step fx k ph up s = (s, ph1, r) /\ clr_phase ph1 = false) \/
  (exists r, exec_step fx k ph up s =
     (mkst (s_files s) (s_tasks s) (add_key k (s_back s)) (s_acked s) (s_thr s), EClr, r)).
Proof.
  intros k ph up s B P C G. pose proof (persisted_present _ _ P) as Pr.
  destruct ph; cbn in *; try discriminate.
  - rewrite B, andb_false_r. left; eauto.
  - rewrite Pr. left; eauto.
  - destruct fx.
    + rewrite Pr; left; eauto.
    + destruct fresh; [left; eauto|]. specialize (G eq_refl); discriminate.
  - destruct up; [right; eauto | left; eauto].
  - destruct ok; [discriminate|]. left; eauto.
Qed.

(* ---- deletion attempts (ODel, and the last step of maybeDelete) *)
Lemma inv_del : forall s d0 f' l',
  Inv s ->
  (f' = s_files s \/ (f' = fremove d0 (s_files s) /\ persisted d0 (s_files s) = false)) ->
  (forall x, In x l' -> exists y, In y (s_thr s) /\ x = (fst y, stale_thread d0 (snd y))) ->
  Inv (mkst f' (s_tasks s) (s_back s) (s_acked s) l').
Proof.
  intros s d0 f' l' I F L.
  assert (Sub : forall d, up_at_add d l' = true -> up_at_add d (s_thr s) = true).
  { intros d H. rewrite <- (up_at_add_stale d d0). eapply up_at_add_sub; [|exact H].
    intros x Hx. destruct (L x Hx) as [y [Hy ->]]. unfold stale_all. apply in_map_iff. exists y; auto. }
  eapply inv_frame with (d0 := d0); simp_st; eauto; try apply I.
  - intros d Hd. destruct F as [->|[-> _]]; auto. apply flook_fremove_other; auto.
  - intros x Hx Hd. destruct (L x Hx) as [y [Hy ->]]. simp_st.
    rewrite thr_digest_stale in Hd. rewrite stale_other by auto. destruct y; auto.
  - intros x Hx Hd. destruct (L x Hx) as [y [Hy ->]]. simp_st.
    destruct (i_thr _ _ I _ Hy) as [W C]. split; [apply thr_wf_stale; auto|].
    rewrite thr_digest_stale. intros Hb. apply thr_cond_stale.
    eapply thr_cond_mono; [apply C; auto| | | |]; simp_st; auto.
    destruct F as [->|[-> Pf]]; auto.
    rewrite thr_digest_stale in Hd; rewrite Hd. intros Hp; congruence.
  - intros Hb Ht. pose proof (i_g1 _ _ I _ Hb Ht) as P. destruct F as [->|[-> Pf]]; auto. congruence.
Qed.

Lemma del_file_inv : forall s d0 s1 r, Inv s -> del_file d0 s = (s1, r) -> Inv s1.
Proof.
  intros s d0 s1 r I H. unfold del_file in H. destruct (flook d0 (s_files s)) as [[|]|] eqn:E.
  - inversion H; subst. apply inv_del with (d0 := d0); auto. intros x Hx; apply In_stale_all; auto.
  - inversion H; subst. apply inv_del with (d0 := d0); auto.
    + right; split; auto. unfold persisted; rewrite E; auto.
    + intros x Hx; apply In_stale_all; auto.
  - inversion H; subst; auto.
Qed.

Lemma del_file_thr : forall s d0 s1 r, del_file d0 s = (s1, r) ->
  forall x, In x (s_thr s1) -> exists y, In y (s_thr s) /\ x = (fst y, stale_thread d0 (snd y)) \/ In x (s_thr s) .
Proof.
  intros s d0 s1 r H x Hx. unfold del_file in H. destruct (flook d0 (s_files s)) as [[|]|];
    inversion H; subst; simp_st.
  - apply In_stale_all in Hx. destruct Hx as [y [Hy E]]. exists y; left; auto.
  - apply In_stale_all in Hx. destruct Hx as [y [Hy E]]. exists y; left; auto.
  - exists x; right; auto.
Qed.


Lemma flook_app_other : forall d d' p f, d <> d' -> flook d (f ++ [(d', p)]) = flook d f.
Proof.
  intros d d' p f H. destruct (flook d f) eqn:E.
  - apply flook_app_some; auto.
  - rewrite flook_app_none by auto. cbn. destruct (d' =? d) eqn:E2; auto. apply N.eqb_eq in E2; congruence.
Qed.

Lemma up_at_add_exists : forall d l, up_at_add d l = true -> exists t ns, In (t, TUp ns d UAdd) l.
Proof.
  intros d l H; unfold up_at_add in H; apply existsb_exists in H. destruct H as [[t th] [Hx E]].
  cbn in E. destruct th as [ns x pc| |]; try discriminate. destruct pc; try discriminate.
  apply N.eqb_eq in E; subst; eauto.
Qed.

(* ---- master lemma 3: the thread list gains at most (t, th'), th' on digest d0 *)
Lemma inv_upd : forall s s' d0 t th',
  Inv s ->
  (forall x, In x (s_thr s') -> In x (s_thr s) \/ x = (t, th')) -> thr_digest th' = d0 ->
  (forall k, kmem k (s_back s) = true -> kmem k (s_back s') = true) ->
  (forall d, d <> d0 -> flook d (s_files s') = flook d (s_files s)) ->
  (forall k, snd k <> d0 -> kmem k (s_tasks s') = kmem k (s_tasks s)) ->
  (forall k, snd k <> d0 -> kmem k (s_acked s') = kmem k (s_acked s)) ->
  keys_wf (s_tasks s') -> keys_wf (s_acked s') ->
  (In (t, th') (s_thr s') -> thr_ok s' th') ->
  (forall x, In x (s_thr s) -> thr_digest (snd x) = d0 -> In x (s_thr s') -> thr_ok s' (snd x)) ->
  (kmem (kof d0) (s_back s') = false -> kmem (kof d0) (s_tasks s') = true -> persisted d0 (s_files s') = true) ->
  (kmem (kof d0) (s_back s') = false -> kmem (kof d0) (s_acked s') = true -> kmem (kof d0) (s_tasks s') = true) ->
  Inv s'.
Proof.
  intros s s' d0 t th' I L D Bm Ff Ft Fa Wt Wa New Old G10 G20.
  eapply inv_frame with (d0 := d0); eauto.
  - intros d Hd H. apply up_at_add_exists in H. destruct H as [t1 [ns H]].
    destruct (L _ H) as [H1|H1]; [eapply up_at_add_In; eauto|].
    inversion H1; subst. cbn in Hd; congruence.
  - intros x Hx Hd. destruct (L _ Hx) as [H1|H1]; auto. subst; cbn in Hd; congruence.
  - intros x Hx Hd. destruct (L _ Hx) as [H1|H1]; auto. subst; cbn. auto.
Qed.

Lemma tset_sub : forall t th (l : list (N * thread)) x, In x (tset t th l) -> In x l \/ x = (t, th).
Proof. intros; apply In_tset; auto. Qed.
Lemma tremove_sub : forall t th (l : list (N * thread)) x, In x (tremove t l) -> In x l \/ x = (t, th).
Proof. intros t th l x H; left; eapply In_tremove; eauto. Qed.

(* ---- upload threads *)
Lemma step_up : forall s t ns d pc up,
  Inv s -> tlook t (s_thr s) = Some (TUp ns d pc) ->
  (pc = USetP -> fc_in_window d (s_thr s) = false) ->
  Inv (fst (step_thread fx t (TUp ns d pc) up s)).
Proof.
  intros s t ns d pc up I Ht G. apply tlook_In in Ht.
  destruct (i_thr _ _ I _ Ht) as [W C]. cbn in W, C. subst ns.
  destruct pc; cbn [step_thread].
  - (* UMove *)
    destruct (present d (s_files s)) eqn:P; cbn [fst].
    + apply inv_thr_only; auto.
      * intros x Hx. apply In_tset in Hx. destruct Hx as [Hx| ->]; auto. right; split; cbn; auto.
      * intros d' H. apply up_at_add_tset in H. destruct H as [H|[ns H]]; auto; discriminate.
    + eapply inv_upd with (d0 := d) (t := t) (th' := TUp (nsof d) d USetP); simp_st; eauto;
        try apply I; try apply tset_sub.
      * intros d' Hd. apply flook_app_other; auto.
      * intros _; split; cbn; auto.
      * intros x Hx Hd _. eapply thr_ok_mono; [apply (i_thr _ _ I); auto| | | | |]; simp_st; auto.
        -- rewrite Hd. unfold persisted, present in *. destruct (flook d (s_files s)); discriminate || auto.
        -- intros _ H. apply up_at_add_tset in H. destruct H as [H|[ns H]]; auto; discriminate.
      * intros Hb Hk. pose proof (i_g1 _ _ I _ Hb Hk) as Q. apply persisted_present in Q. congruence.
  - (* USetP *)
    specialize (G eq_refl).
    destruct (present d (s_files s)) eqn:P; cbn [fst].
    + assert (Pn : persisted d (fset d true (s_files s)) = true).
      { unfold persisted; rewrite flook_fset_same, P; auto. }
      eapply inv_upd with (d0 := d) (t := t) (th' := TUp (nsof d) d UAdd); simp_st; eauto;
        try apply I; try apply tset_sub.
      * intros d' Hd. apply flook_fset_other; auto.
      * intros _; split; cbn; auto.
      * intros x Hx Hd _. eapply thr_ok_mono; [apply (i_thr _ _ I); auto| | | | |]; simp_st; auto.
        -- rewrite Hd; auto.
        -- intros Hw _. destruct x as [tx [| |dx pcx]]; cbn in Hw; try discriminate. cbn in Hd; subst dx.
           rewrite (fc_in_window_In _ _ _ _ Hx Hw) in G; discriminate.
    + apply inv_thr_only; auto.
      * intros x Hx. apply In_tremove in Hx; auto.
      * intros d'; apply up_at_add_tremove.
  - (* UAdd *)
    destruct up; cbn [fst].
    2:{ apply inv_thr_only; auto.
        - intros x Hx. apply In_tremove in Hx; auto.
        - intros d'; apply up_at_add_tremove. }
    eapply inv_upd with (d0 := d) (t := t) (th' := TUp (nsof d) d UMeta); simp_st; eauto;
      try apply I; try apply tset_sub.
    + intros k Hk. apply kmem_add_key_other. intros ->; cbn in Hk; congruence.
    + apply keys_wf_add. apply I.
    + intros _; split; cbn; auto. intros Hb. split; auto. apply kmem_add_key_self.
    + intros x Hx Hd _.
      destruct (kmem (kof d) (s_back s)) eqn:Hb.
      { apply thr_ok_inback; [eapply inv_thr_wf; eauto|]. rewrite Hd; auto. }
      destruct (win_thread (snd x)) eqn:Hw.
      * (* a forced cleanup of d in its window excludes this very thread *)
        exfalso. destruct (i_thr _ _ I _ Hx) as [_ Cx]. rewrite Hd in Cx. specialize (Cx Hb).
        pose proof (up_at_add_In _ _ _ _ Ht) as U.
        destruct x as [tx [| |dx pcx]]; cbn in Hw; try discriminate. cbn in Hd; subst dx.
        destruct pcx; cbn in Hw; try discriminate; cbn in Cx; destruct Cx as [Cx _]; congruence.
      * eapply thr_ok_mono; [apply (i_thr _ _ I); auto| | | | |]; simp_st; auto; try congruence.
        -- intros H; apply kmem_add_key_mono; auto.
    + intros Hb Ha. apply kmem_add_key_mono. apply (i_g2 _ _ I); auto.
  - (* UMeta *)
    destruct (present d (s_files s)) eqn:P; cbn [fst]; apply inv_thr_only; auto.
    + intros x Hx. apply In_tset in Hx. destruct Hx as [Hx| ->]; auto. right; split; cbn; auto.
    + intros d' H. apply up_at_add_tset in H. destruct H as [H|[ns H]]; auto; discriminate.
    + intros x Hx. apply In_tremove in Hx; auto.
    + intros d'; apply up_at_add_tremove.
  - (* UAck *)
    cbn [fst].
    eapply inv_upd with (d0 := d) (t := t) (th' := TUp (nsof d) d UAck); simp_st; eauto;
      try apply I; try (apply tremove_sub).
    + intros k Hk. apply kmem_add_key_other. intros ->; cbn in Hk; congruence.
    + apply keys_wf_add. apply I.
    + intros H; apply In_tremove in H. apply (i_thr _ _ I _ H).
    + intros x Hx Hd _. eapply thr_ok_mono; [apply (i_thr _ _ I); auto| | | | |]; simp_st; auto.
      intros _; apply up_at_add_tremove.
    + intros Hb _. apply C; auto.
Qed.


(* ---- worker executions *)
Lemma ex_vacuous : forall s s1 t d th1,
  Inv s -> kmem (kof d) (s_back s1) = true ->
  s_tasks s1 = s_tasks s -> s_acked s1 = s_acked s -> s_thr s1 = s_thr s ->
  (forall k', kmem k' (s_back s) = true -> kmem k' (s_back s1) = true) ->
  (forall d', d' <> d -> flook d' (s_files s1) = flook d' (s_files s)) ->
  thr_digest th1 = d -> thr_wf th1 ->
  Inv (with_thr s1 (tset t th1 (s_thr s1))).
Proof.
  intros s s1 t d th1 I B T A Th Bm Ff D W.
  eapply inv_vacuous with (d0 := d); simp_st; eauto.
  - intros k _; rewrite T; auto.
  - intros k _; rewrite A; auto.
  - intros d' Hd H. apply up_at_add_tset in H. rewrite Th in H. destruct H as [H|[ns H]]; auto.
    subst th1; cbn in D; congruence.
  - intros x Hx Hd. apply In_tset in Hx. rewrite Th in Hx. destruct Hx as [Hx| ->]; auto.
    cbn in Hd; congruence.
  - rewrite T; apply I.
  - rewrite A; apply I.
  - intros x Hx Hd. apply In_tset in Hx. rewrite Th in Hx. destruct Hx as [Hx| ->]; auto.
    eapply inv_thr_wf; eauto.
Qed.

Lemma step_ex : forall s t ns d ph up,
  Inv s -> tlook t (s_thr s) = Some (TEx ns d ph) ->
  (ph = EOpen false -> fx = true) ->
  Inv (fst (step_thread fx t (TEx ns d ph) up s)).
Proof.
  intros s t ns d ph up I Ht G. apply tlook_In in Ht.
  destruct (i_thr _ _ I _ Ht) as [W C]. cbn in W, C. subst ns.
  assert (Rm : Inv (with_thr s (tremove t (s_thr s)))).
  { apply inv_thr_only; auto.
    - intros x Hx. apply In_tremove in Hx; auto.
    - intros d'; apply up_at_add_tremove. }
  assert (Gen : forall ph', ph' = ph -> (forall ok, ph <> ERet ok) ->
            Inv (fst (let '(s1, ph1, r) := exec_step fx (nsof d, d) ph' up s in
                      (with_thr s1 (tset t (TEx (nsof d) d ph1) (s_thr s1)), r)))).
  { intros ph' -> NR.
    destruct (kmem (kof d) (s_back s)) eqn:Hb.
    - destruct (exec_step fx (nsof d, d) ph up s) as [[s1 ph1] r] eqn:E.
      destruct (exec_step_shape _ _ _ _ _ _ _ E) as [T [A [Th [Bm Ff]]]]. cbn [fst].
      eapply ex_vacuous with (s := s) (d := d); eauto; cbn; auto.
    - destruct (C eq_refl) as [Tk Cl].
      pose proof (i_g1 _ _ I _ Hb Tk) as P.
      destruct (exec_step_good (nsof d, d) ph up s Hb P Cl G) as [[ph1 [r [E Cl1]]]|[r E]]; rewrite E; cbn [fst].
      + apply inv_thr_only; auto.
        * intros x Hx. apply In_tset in Hx. destruct Hx as [Hx| ->]; auto. right; split; cbn; auto.
        * intros d' H. apply up_at_add_tset in H. destruct H as [H|[ns H]]; auto; discriminate.
      + eapply ex_vacuous with (s := s) (d := d); simp_st; eauto; cbn; auto.
        * apply kmem_add_key_self.
        * intros; apply kmem_add_key_mono; auto. }
  destruct ph as [ | |fresh| | |ok]; cbn [step_thread];
    try (apply Gen; [reflexivity | intros ok' HH; discriminate]).
  destruct ok; cbn [fst]; auto.
  (* ERet true: the row is removed; then (nsof d, d) is in the backend *)
  destruct (kmem (kof d) (s_back s)) eqn:Hb.
  - clear Rm Gen. eapply inv_vacuous with (s := s) (d0 := d); simp_st; eauto.
    + intros k Hk. apply kmem_kremove_other. intros ->; cbn in Hk; congruence.
    + intros d'; intros _; apply up_at_add_tremove.
    + intros x Hx _. apply In_tremove in Hx; auto.
    + apply keys_wf_remove; apply I.
    + apply I.
    + intros x Hx _. apply In_tremove in Hx. eapply inv_thr_wf; eauto.
  - destruct (C eq_refl) as [_ Cl]; discriminate.
Qed.


(* ---- forced cleanup threads *)
Lemma thr_cond_fc : forall s s' d pc,
  thr_cond s (TFc d pc) -> s_tasks s' = s_tasks s ->
  (up_at_add d (s_thr s') = true -> up_at_add d (s_thr s) = true) ->
  thr_cond s' (TFc d pc).
Proof.
  intros s s' d pc C T U. cbn in *. destruct pc; auto; rewrite T.
  - destruct C as [C1 C2]; split; auto. destruct (up_at_add d (s_thr s')) eqn:E; auto. rewrite U in C1; auto.
  - destruct C as [C1 C2]; split; auto. destruct (up_at_add d (s_thr s')) eqn:E; auto. rewrite U in C1; auto.
Qed.

Lemma up_at_add_tset_fc : forall d d' t pc l,
  up_at_add d (tset t (TFc d' pc) l) = true -> up_at_add d l = true.
Proof. intros d d' t pc l H. apply up_at_add_tset in H. destruct H as [H|[ns H]]; auto; discriminate. Qed.

Lemma step_fc : forall s t d pc up,
  Inv s -> tlook t (s_thr s) = Some (TFc d pc) ->
  (pc = FFind -> up_at_add d (s_thr s) = false) ->
  (forall todo att, pc = FSync todo (EOpen false) att -> fx = true) ->
  Inv (fst (step_thread fx t (TFc d pc) up s)).
Proof.
  intros s t d pc up I Ht G1 G2. apply tlook_In in Ht.
  destruct (i_thr _ _ I _ Ht) as [W C]. cbn [thr_digest snd] in C, W.
  assert (Rm : Inv (with_thr s (tremove t (s_thr s)))).
  { apply inv_thr_only; auto.
    - intros x Hx. apply In_tremove in Hx; auto.
    - intros d'; apply up_at_add_tremove. }
  (* moving to a program counter that carries no condition *)
  assert (Triv : forall pc', thr_cond s (TFc d pc') -> thr_wf (TFc d pc') ->
                 (forall s', s_tasks s' = s_tasks s -> s_back s' = s_back s ->
                    (up_at_add d (s_thr s') = true -> up_at_add d (s_thr s) = true) -> True) ->
                 True) by auto.
  clear Triv.
  assert (Mv : forall pc', thr_wf (TFc d pc') ->
            (kmem (kof d) (s_back s) = false ->
               thr_cond (with_thr s (tset t (TFc d pc') (s_thr s))) (TFc d pc')) ->
            Inv (with_thr s (tset t (TFc d pc') (s_thr s)))).
  { intros pc' W' C'. apply inv_thr_only; auto.
    - intros x Hx. apply In_tset in Hx. destruct Hx as [Hx| ->]; auto. right; split; auto.
    - intros d'; apply up_at_add_tset_fc. }
  destruct pc as [ | | |todo ph att| | ]; cbn [step_thread].
  - (* FStat *) destruct (present d (s_files s)); cbn [fst]; auto; apply Mv; cbn [thr_cond thr_wf]; auto.
  - (* FGetP *) destruct (persisted d (s_files s)); cbn [fst]; apply Mv; cbn [thr_cond thr_wf]; auto.
  - (* FFind *)
    specialize (G1 eq_refl).
    assert (U : forall pc', up_at_add d (tset t (TFc d pc') (s_thr s)) = false).
    { intros pc'. destruct (up_at_add d (tset t (TFc d pc') (s_thr s))) eqn:E; auto.
      apply up_at_add_tset_fc in E; congruence. }
    destruct (tasks_named d (s_tasks s)) as [|h l] eqn:TN; cbn [fst]; apply Mv; cbn [thr_cond thr_wf]; auto.
    + intros Hb; simp_st. split; auto.
      destruct (kmem (kof d) (s_tasks s)) eqn:E; auto. apply kmem_In in E.
      assert (In (kof d) (tasks_named d (s_tasks s))) by (apply tasks_named_In; auto).
      rewrite TN in H; contradiction.
    + apply Forall_forall. intros h' Hh. rewrite <- TN in Hh. apply tasks_named_In in Hh.
      destruct Hh as [Hh <-]. apply kmem_In in Hh. eapply keys_wf_kmem; eauto. apply I.
    + intros Hb; simp_st. split; auto. split; [|intros _; discriminate]. intros _; split; auto.
      assert (Hh : In h (tasks_named d (s_tasks s))) by (rewrite TN; left; auto).
      apply tasks_named_In in Hh. destruct Hh as [Hh Hd]. apply kmem_In.
      assert (h = kof (snd h)) by (apply kmem_In in Hh; eapply keys_wf_kmem; eauto; apply I).
      rewrite Hd in H. rewrite <- H; auto.
  - (* FSync *)
    cbn in W.
    destruct todo as [|h rest].
    { cbn [fst]. apply Mv; cbn [thr_cond thr_wf]; auto. intros Hb; simp_st. destruct (C Hb) as [U [_ T]]. split.
      - destruct (up_at_add d (tset t (TFc d FDelP) (s_thr s))) eqn:E; auto.
        apply up_at_add_tset_fc in E; congruence.
      - destruct (kmem (kof d) (s_tasks s)); auto. exfalso; apply T; auto. }
    assert (Hh : h = kof d) by (inversion W; auto).
    assert (Wr : Forall (fun h' => h' = kof d) rest) by (inversion W; auto).
    assert (Gen : forall ph', ph' = ph -> (forall ok, ph <> ERet ok) ->
              Inv (fst (let '(s1, ph1, r) := exec_step fx h ph' up s in
                        (with_thr s1 (tset t (TFc d (FSync (h :: rest) ph1 att)) (s_thr s1)), r)))).
    { intros ph' -> NR. subst h.
      destruct (kmem (kof d) (s_back s)) eqn:Hb.
      - destruct (exec_step fx (kof d) ph up s) as [[s1 ph1] r] eqn:E.
        destruct (exec_step_shape _ _ _ _ _ _ _ E) as [T [A [Th [Bm Ff]]]]. cbn [fst].
        clear Rm Mv. eapply ex_vacuous with (s := s) (d := d); eauto; cbn; auto.
      - destruct (C eq_refl) as [U [X T]]. destruct X as [Cl Tk]; [discriminate|].
        pose proof (i_g1 _ _ I _ Hb Tk) as P.
        assert (G : ph = EOpen false -> fx = true) by (intros ->; eapply G2; eauto).
        destruct (exec_step_good (kof d) ph up s Hb P Cl G) as [[ph1 [r [E Cl1]]]|[r E]]; rewrite E; cbn [fst].
        + apply Mv; cbn [thr_cond thr_wf]; auto. intros _; simp_st. split; [|split; auto; intros _; discriminate].
          destruct (up_at_add d (tset t (TFc d (FSync (kof d :: rest) ph1 att)) (s_thr s))) eqn:E2; auto.
          apply up_at_add_tset_fc in E2; congruence.
        + clear Rm Mv. eapply ex_vacuous with (s := s) (d := d); simp_st; eauto; cbn; auto.
          * apply kmem_add_key_self.
          * intros; apply kmem_add_key_mono; auto. }
    destruct ph as [ | |fresh| | |ok];
      try (apply Gen; [reflexivity | intros ok' HH; discriminate]).
    destruct ok.
    + (* SyncExec returned nil: only possible once the blob is in the backend *)
      destruct (kmem (kof d) (s_back s)) eqn:Hb.
      * assert (Q : forall pc', thr_wf (TFc d pc') -> Inv (with_thr s (tset t (TFc d pc') (s_thr s)))).
        { intros pc' W'. apply inv_thr_only; auto.
          - intros x Hx. apply In_tset in Hx. destruct Hx as [Hx| ->]; auto. right.
            apply thr_ok_inback; auto.
          - intros d'; apply up_at_add_tset_fc. }
        destruct rest; cbn [fst]; apply Q; cbn; auto.
      * destruct (C eq_refl) as [_ [X _]]. destruct X as [Cl _]; [discriminate|]. discriminate.
    + destruct (1 <? att); cbn [fst]; auto. apply Mv; cbn [thr_cond thr_wf]; auto.
      intros Hb; simp_st. destruct (C Hb) as [U [X T]]. destruct X as [_ Tk]; [discriminate|].
      split; [|split; auto; intros _; discriminate].
      destruct (up_at_add d (tset t (TFc d (FSync (h :: rest) EStat (att - 1))) (s_thr s))) eqn:E2; auto.
      apply up_at_add_tset_fc in E2; congruence.
  - (* FDelP *)
    destruct (present d (s_files s)) eqn:P; cbn [fst]; auto.
    clear Rm Mv.
    eapply inv_upd with (s := s) (d0 := d) (t := t) (th' := TFc d FDel); simp_st; eauto;
      try apply I; try apply tset_sub.
    + intros d' Hd. apply flook_fset_other; auto.
    + intros _. split; cbn; auto.
    + intros x Hx Hd _.
      destruct (kmem (kof d) (s_back s)) eqn:Hb.
      { apply thr_ok_inback; [eapply inv_thr_wf; eauto|]. rewrite Hd; auto. }
      destruct (C eq_refl) as [U Tk]. destruct (i_thr _ _ I _ Hx) as [Wx Cx]. rewrite Hd in Cx. specialize (Cx Hb).
      split; auto. intros _. destruct x as [tx [nsx dx pcx|nsx dx phx|dx pcx]]; cbn in Hd; subst dx; simp_st.
      * destruct pcx; cbn in *; auto.
        -- rewrite (up_at_add_In _ _ _ _ Hx) in U; discriminate.
        -- destruct Cx; congruence.
        -- destruct Cx; congruence.
      * cbn in Cx. destruct Cx; congruence.
      * eapply thr_cond_fc; eauto. simp_st. apply up_at_add_tset_fc.
    + intros Hb Hk. destruct (C Hb) as [_ Tk]. congruence.
  - (* FDel *)
    destruct (del_file d s) as [s1 r] eqn:E. cbn [fst].
    pose proof (del_file_inv _ _ _ _ I E) as I1.
    apply inv_thr_only; auto.
    + intros x Hx. apply In_tremove in Hx; auto.
    + intros d'; apply up_at_add_tremove.
Qed.

(* ---- every guarded step preserves the invariant *)
Lemma In_app1 : forall (l : list (N * thread)) y x, In x (l ++ [y]) -> In x l \/ x = y.
Proof. intros l y x H; apply in_app_or in H; destruct H as [H|[H|[]]]; auto. Qed.

Lemma step_inv : forall s o, Inv s -> guard nsof fx s o = true -> Inv (fst (step fx s o)).
Proof.
  intros s o I G. destruct o as [t ns d|t ns d|t d|t up|d| | ]; cbn [step].
  - cbn in G. apply N.eqb_eq in G. subst ns. destruct (tfree t s); cbn [fst]; auto.
    apply inv_thr_only; auto.
    + intros x Hx. apply In_app1 in Hx. destruct Hx as [Hx| ->]; auto. right; split; cbn; auto.
    + intros d' H. apply up_at_add_app in H. destruct H as [H|[ns H]]; auto; discriminate.
  - destruct (tfree t s && kmem (ns, d) (s_tasks s) && negb (executing (ns, d) (s_thr s))) eqn:E; cbn [fst]; auto.
    apply andb_true_iff in E. destruct E as [E _]. apply andb_true_iff in E. destruct E as [_ E].
    assert (K : (ns, d) = kof d) by (eapply keys_wf_kmem in E; [exact E|apply I]).
    apply inv_thr_only; auto.
    + intros x Hx. apply In_app1 in Hx. destruct Hx as [Hx| ->]; auto. right; split; cbn.
      * inversion K; auto.
      * intros _; simp_st. rewrite <- K; auto.
    + intros d' H. apply up_at_add_app in H. destruct H as [H|[ns' H]]; auto; discriminate.
  - destruct (tfree t s); cbn [fst]; auto.
    apply inv_thr_only; auto.
    + intros x Hx. apply In_app1 in Hx. destruct Hx as [Hx| ->]; auto. right; split; cbn; auto.
    + intros d' H. apply up_at_add_app in H. destruct H as [H|[ns H]]; auto; discriminate.
  - cbn in G. destruct (tlook t (s_thr s)) as [th|] eqn:Ht; cbn [fst]; auto.
    destruct th as [ns d pc|ns d ph|d pc].
    + apply step_up; auto. intros ->. apply negb_true_iff in G; auto.
    + apply step_ex; auto. intros ->; auto.
    + apply step_fc; auto.
      * intros ->. apply negb_true_iff in G; auto.
      * intros todo att ->; auto.
  - destruct (del_file d s) as [s1 r] eqn:E. cbn [fst]. eapply del_file_inv; eauto.
  - cbn [fst]. apply inv_thr_only; auto.
    + intros x [].
    + intros d' H; discriminate.
  - cbn [fst]; auto.
Qed.

Lemma run_cons : forall s o r, fst (run fx s (o :: r)) = fst (run fx (fst (step fx s o)) r).
Proof.
  intros s o r; cbn [run]. destruct (step fx s o) as [s1 x]. cbn [fst].
  destruct (run fx s1 r) as [s2 xs]; auto.
Qed.

Lemma nice_inv : forall ops s, Inv s -> nice nsof fx s ops = true -> Inv (fst (run fx s ops)).
Proof.
  induction ops as [|o r IH]; intros s I N.
  - cbn; auto.
  - cbn [nice] in N. apply andb_true_iff in N. destruct N as [G N]. rewrite run_cons. apply IH; auto.
    apply step_inv; auto.
Qed.

End Step.
