(* C31: every guarded step preserves the invariant. *)
From Coq Require Import List NArith Bool Lia.
From K.Model Require Import C31.
From K.Proof Require Import C31_base C31_inv.
Import ListNotations.
Local Open Scope N_scope.

Section Step.
Variable nsof : N -> N.
Variable fx : bool.
Notation kof := (kof nsof).
Notation Inv := (Inv nsof).
Notation thr_ok := (thr_ok nsof).
Notation thr_wf := (thr_wf nsof).
Notation thr_cond := (thr_cond nsof).
Notation keys_wf := (keys_wf nsof).

Ltac simp_st := cbn [with_thr with_files s_files s_tasks s_back s_acked s_thr fst snd] in *.

Lemma stale_other : forall d th, thr_digest th <> d -> stale_thread d th = th.
Proof.
  intros d [ns x pc|ns x ph|x pc]; cbn; intros H; auto.
  - destruct (x =? d) eqn:E; auto. apply N.eqb_eq in E; congruence.
  - destruct pc; auto. destruct (x =? d) eqn:E; auto. apply N.eqb_eq in E; congruence.
Qed.

Lemma up_at_add_sub : forall d (l l' : list (N * thread)),
  (forall x, In x l' -> In x l) -> up_at_add d l' = true -> up_at_add d l = true.
Proof.
  intros d l l' S H; unfold up_at_add in *. apply existsb_exists in H. destruct H as [x [Hx E]].
  apply existsb_exists; eauto.
Qed.

Lemma up_at_add_tset : forall d t th l,
  up_at_add d (tset t th l) = true -> up_at_add d l = true \/ exists ns, th = TUp ns d UAdd.
Proof.
  intros d t th l H. apply existsb_tset in H. destruct H as [H|H]; auto. right.
  cbn in H. destruct th as [ns x pc| |]; try discriminate. destruct pc; try discriminate.
  apply N.eqb_eq in H; subst; eauto.
Qed.
Lemma up_at_add_tremove : forall d t l, up_at_add d (tremove t l) = true -> up_at_add d l = true.
Proof. intros d t l; apply existsb_tremove. Qed.
Lemma up_at_add_app : forall d l t th,
  up_at_add d (l ++ [(t, th)]) = true -> up_at_add d l = true \/ exists ns, th = TUp ns d UAdd.
Proof.
  intros d l t th H; unfold up_at_add in H; rewrite existsb_app in H. apply orb_true_iff in H.
  destruct H as [H|H]; auto. right. cbn in H. rewrite orb_false_r in H.
  destruct th as [ns x pc| |]; try discriminate. destruct pc; try discriminate.
  apply N.eqb_eq in H; subst; eauto.
Qed.

Lemma inv_thr_wf : forall s x, Inv s -> In x (s_thr s) -> thr_wf (snd x).
Proof. intros s x I H; apply (i_thr _ _ I) in H; destruct H; auto. Qed.

(* everything that belongs to d0 is irrelevant once (nsof d0, d0) is in the backend *)
Lemma inv_vacuous : forall s s' d0,
  Inv s -> kmem (kof d0) (s_back s') = true ->
  (forall k, kmem k (s_back s) = true -> kmem k (s_back s') = true) ->
  (forall d, d <> d0 -> flook d (s_files s') = flook d (s_files s)) ->
  (forall k, snd k <> d0 -> kmem k (s_tasks s') = kmem k (s_tasks s)) ->
  (forall k, snd k <> d0 -> kmem k (s_acked s') = kmem k (s_acked s)) ->
  (forall d, d <> d0 -> up_at_add d (s_thr s') = true -> up_at_add d (s_thr s) = true) ->
  (forall x, In x (s_thr s') -> thr_digest (snd x) <> d0 -> In x (s_thr s)) ->
  keys_wf (s_tasks s') -> keys_wf (s_acked s') ->
  (forall x, In x (s_thr s') -> thr_digest (snd x) = d0 -> thr_wf (snd x)) ->
  Inv s'.
Proof.
  intros s s' d0 I B Bm Ff Ft Fa Fu Fthr Wt Wa W0.
  eapply inv_frame with (d0 := d0); eauto; try (intros; congruence).
  intros x Hx Hd. apply thr_ok_inback; auto. rewrite Hd; auto.
Qed.

(* ---- shape of an executor step *)
Lemma exec_step_shape : forall k ph up s s1 ph1 r,
  exec_step fx k ph up s = (s1, ph1, r) ->
  s_tasks s1 = s_tasks s /\ s_acked s1 = s_acked s /\ s_thr s1 = s_thr s /\
  (forall k', kmem k' (s_back s) = true -> kmem k' (s_back s1) = true) /\
  (forall d, d <> snd k -> flook d (s_files s1) = flook d (s_files s)).
Proof.
  intros k ph up s s1 ph1 r H. destruct ph; cbn in H.
  - destruct (up && kmem k (s_back s)); inversion H; subst; auto 6.
  - destruct (present (snd k) (s_files s)); inversion H; subst; auto 6.
  - destruct (if fx then present (snd k) (s_files s) else fresh); inversion H; subst; auto 6.
  - destruct up; inversion H; subst; simp_st; auto 6.
    repeat split; auto. intros; apply kmem_add_key_mono; auto.
  - inversion H; subst; simp_st. repeat split; auto. intros; apply flook_fset_other; auto.
  - inversion H; subst; auto 6.
Qed.

Lemma exec_step_good : forall k ph up s,
  kmem k (s_back s) = false -> persisted (snd k) (s_files s) = true -> clr_phase ph = false ->
  (ph = EOpen false -> fx = true) ->
  (exists ph1 r, exec_step fx k ph up s = (s, ph1, r) /\ clr_phase ph1 = false) \/
  (exists r, exec_step fx k ph up s =
     (mkst (s_files s) (s_tasks s) (add_key k (s_back s)) (s_acked s) (s_thr s), EClr, r)).
Proof.
  intros k ph up s B P C G. pose proof (persisted_present _ _ P) as Pr.
  destruct ph; cbn in *; try discriminate.
  - rewrite B, andb_false_r. left; eauto.
  - rewrite Pr. left; eauto.
  - destruct fx.
    + rewrite Pr; left; eauto.
    + destruct fresh; [left; eauto|]. specialize (G eq_refl); discriminate.
  - destruct up; [right; eauto | left; eauto].
  - destruct ok; [discriminate|]. left; eauto.
Qed.

(* ---- deletion attempts (ODel, and the last step of maybeDelete) *)
Lemma inv_del : forall s d0 f' l',
  Inv s ->
  (f' = s_files s \/ (f' = fremove d0 (s_files s) /\ persisted d0 (s_files s) = false)) ->
  (forall x, In x l' -> exists y, In y (s_thr s) /\ x = (fst y, stale_thread d0 (snd y))) ->
  Inv (mkst f' (s_tasks s) (s_back s) (s_acked s) l').
Proof.
  intros s d0 f' l' I F L.
  assert (Sub : forall d, up_at_add d l' = true -> up_at_add d (s_thr s) = true).
  { intros d H. rewrite <- (up_at_add_stale d d0). eapply up_at_add_sub; [|exact H].
    intros x Hx. destruct (L x Hx) as [y [Hy ->]]. unfold stale_all. apply in_map_iff. exists y; auto. }
  eapply inv_frame with (d0 := d0); simp_st; eauto; try apply I.
  - intros d Hd. destruct F as [->|[-> _]]; auto. apply flook_fremove_other; auto.
  - intros x Hx Hd. destruct (L x Hx) as [y [Hy ->]]. simp_st.
    rewrite thr_digest_stale in Hd. rewrite stale_other by auto. destruct y; auto.
  - intros x Hx Hd. destruct (L x Hx) as [y [Hy ->]]. simp_st.
    destruct (i_thr _ _ I _ Hy) as [W C]. split; [apply thr_wf_stale; auto|].
    rewrite thr_digest_stale. intros Hb. apply thr_cond_stale.
    eapply thr_cond_mono; [apply C; auto| | | |]; simp_st; auto.
    destruct F as [->|[-> Pf]]; auto.
    rewrite thr_digest_stale in Hd; rewrite Hd. intros Hp; congruence.
  - intros Hb Ht. pose proof (i_g1 _ _ I _ Hb Ht) as P. destruct F as [->|[-> Pf]]; auto. congruence.
Qed.

Lemma del_file_inv : forall s d0 s1 r, Inv s -> del_file d0 s = (s1, r) -> Inv s1.
Proof.
  intros s d0 s1 r I H. unfold del_file in H. destruct (flook d0 (s_files s)) as [[|]|] eqn:E.
  - inversion H; subst. apply inv_del with (d0 := d0); auto. intros x Hx; apply In_stale_all; auto.
  - inversion H; subst. apply inv_del with (d0 := d0); auto.
    + right; split; auto. unfold persisted; rewrite E; auto.
    + intros x Hx; apply In_stale_all; auto.
  - inversion H; subst; auto.
Qed.

Lemma del_file_thr : forall s d0 s1 r, del_file d0 s = (s1, r) ->
  forall x, In x (s_thr s1) -> exists y, In y (s_thr s) /\ x = (fst y, stale_thread d0 (snd y)) \/ In x (s_thr s) .
Proof.
  intros s d0 s1 r H x Hx. unfold del_file in H. destruct (flook d0 (s_files s)) as [[|]|];
    inversion H; subst; simp_st.
  - apply In_stale_all in Hx. destruct Hx as [y [Hy E]]. exists y; left; auto.
  - apply In_stale_all in Hx. destruct Hx as [y [Hy E]]. exists y; left; auto.
  - exists x; right; auto.
Qed.


Lemma flook_app_other : forall d d' p f, d <> d' -> flook d (f ++ [(d', p)]) = flook d f.
Proof.
  intros d d' p f H. destruct (flook d f) eqn:E.
  - apply flook_app_some; auto.
  - rewrite flook_app_none by auto. cbn. destruct (d' =? d) eqn:E2; auto. apply N.eqb_eq in E2; congruence.
Qed.

Lemma up_at_add_exists : forall d l, up_at_add d l = true -> exists t ns, In (t, TUp ns d UAdd) l.
Proof.
  intros d l H; unfold up_at_add in H; apply existsb_exists in H. destruct H as [[t th] [Hx E]].
  cbn in E. destruct th as [ns x pc| |]; try discriminate. destruct pc; try discriminate.
  apply N.eqb_eq in E; subst; eauto.
Qed.

(* ---- master lemma 3: the thread list gains at most (t, th'), th' on digest d0 *)
Lemma inv_upd : forall s s' d0 t th',
  Inv s ->
  (forall x, In x (s_thr s') -> In x (s_thr s) \/ x = (t, th')) -> thr_digest th' = d0 ->
  (forall k, kmem k (s_back s) = true -> kmem k (s_back s') = true) ->
  (forall d, d <> d0 -> flook d (s_files s') = flook d (s_files s)) ->
  (forall k, snd k <> d0 -> kmem k (s_tasks s') = kmem k (s_tasks s)) ->
  (forall k, snd k <> d0 -> kmem k (s_acked s') = kmem k (s_acked s)) ->
  keys_wf (s_tasks s') -> keys_wf (s_acked s') ->
  (In (t, th') (s_thr s') -> thr_ok s' th') ->
  (forall x, In x (s_thr s) -> thr_digest (snd x) = d0 -> In x (s_thr s') -> thr_ok s' (snd x)) ->
  (kmem (kof d0) (s_back s') = false -> kmem (kof d0) (s_tasks s') = true -> persisted d0 (s_files s') = true) ->
  (kmem (kof d0) (s_back s') = false -> kmem (kof d0) (s_acked s') = true -> kmem (kof d0) (s_tasks s') = true) ->
  Inv s'.
Proof.
  intros s s' d0 t th' I L D Bm Ff Ft Fa Wt Wa New Old G10 G20.
  eapply inv_frame with (d0 := d0); eauto.
  - intros d Hd H. apply up_at_add_exists in H. destruct H as [t1 [ns H]].
    destruct (L _ H) as [H1|H1]; [eapply up_at_add_In; eauto|].
    inversion H1; subst. cbn in Hd; congruence.
  - intros x Hx Hd. destruct (L _ Hx) as [H1|H1]; auto. subst; cbn in Hd; congruence.
  - intros x Hx Hd. destruct (L _ Hx) as [H1|H1]; auto. subst; cbn. auto.
Qed.

Lemma tset_sub : forall t th (l : list (N * thread)) x, In x (tset t th l) -> In x l \/ x = (t, th).
Proof. intros; apply In_tset; auto. Qed.
Lemma tremove_sub : forall t th (l : list (N * thread)) x, In x (tremove t l) -> In x l \/ x = (t, th).
Proof. intros t th l x H; left; eapply In_tremove; eauto. Qed.

(* ---- upload threads *)
Lemma step_up : forall s t ns d pc up,
  Inv s -> tlook t (s_thr s) = Some (TUp ns d pc) ->
  (pc = USetP -> fc_in_window d (s_thr s) = false) ->
  Inv (fst (step_thread fx t (TUp ns d pc) up s)).
Proof.
  intros s t ns d pc up I Ht G. apply tlook_In in Ht.
  destruct (i_thr _ _ I _ Ht) as [W C]. cbn in W, C. subst ns.
  destruct pc; cbn [step_thread].
  - (* UMove *)
    destruct (present d (s_files s)) eqn:P; cbn [fst].
    + apply inv_thr_only; auto.
      * intros x Hx. apply In_tset in Hx. destruct Hx as [Hx| ->]; auto. right; split; cbn; auto.
      * intros d' H. apply up_at_add_tset in H. destruct H as [H|[ns H]]; auto; discriminate.
    + eapply inv_upd with (d0 := d) (t := t) (th' := TUp (nsof d) d USetP); simp_st; eauto;
        try apply I; try apply tset_sub.
      * intros d' Hd. apply flook_app_other; auto.
      * intros _; split; cbn; auto.
      * intros x Hx Hd _. eapply thr_ok_mono; [apply (i_thr _ _ I); auto| | | | |]; simp_st; auto.
        -- rewrite Hd. unfold persisted, present in *. destruct (flook d (s_files s)); discriminate || auto.
        -- intros _ H. apply up_at_add_tset in H. destruct H as [H|[ns H]]; auto; discriminate.
      * intros Hb Hk. pose proof (i_g1 _ _ I _ Hb Hk) as Q. apply persisted_present in Q. congruence.
      * apply (i_g2 _ _ I).
  - (* USetP *)
    specialize (G eq_refl).
    destruct (present d (s_files s)) eqn:P; cbn [fst].
    + assert (Pn : persisted d (fset d true (s_files s)) = true).
      { unfold persisted; rewrite flook_fset_same, P; auto. }
      eapply inv_upd with (d0 := d) (t := t) (th' := TUp (nsof d) d UAdd); simp_st; eauto;
        try apply I; try apply tset_sub.
      * intros d' Hd. apply flook_fset_other; auto.
      * intros _; split; cbn; auto.
      * intros x Hx Hd _. eapply thr_ok_mono; [apply (i_thr _ _ I); auto| | | | |]; simp_st; auto.
        -- rewrite Hd; auto.
        -- intros Hw _. destruct x as [tx [| |dx pcx]]; cbn in Hw; try discriminate. cbn in Hd; subst dx.
           rewrite (fc_in_window_In _ _ _ _ Hx Hw) in G; discriminate.
      * intros Hb Hk. auto.
      * apply (i_g2 _ _ I).
    + apply inv_thr_only; auto.
      * intros x Hx. apply In_tremove in Hx; auto.
      * intros d'; apply up_at_add_tremove.
  - (* UAdd *)
    cbn [fst].
    eapply inv_upd with (d0 := d) (t := t) (th' := TUp (nsof d) d UMeta); simp_st; eauto;
      try apply I; try apply tset_sub.
    + intros k Hk. apply kmem_add_key_other. intros ->; cbn in Hk; congruence.
    + apply keys_wf_add. apply I.
    + intros _; split; cbn; auto. intros Hb. split; auto. apply kmem_add_key_self.
    + intros x Hx Hd _.
      destruct (kmem (kof d) (s_back s)) eqn:Hb.
      { apply thr_ok_inback; [eapply inv_thr_wf; eauto|]. rewrite Hd; auto. }
      destruct (win_thread (snd x)) eqn:Hw.
      * (* a forced cleanup of d in its window excludes this very thread *)
        exfalso. destruct (i_thr _ _ I _ Hx) as [_ Cx]. rewrite Hd in Cx. specialize (Cx Hb).
        pose proof (up_at_add_In _ _ _ _ Ht) as U.
        destruct x as [tx [| |dx pcx]]; cbn in Hw; try discriminate. cbn in Hd; subst dx.
        destruct pcx; cbn in Hw; try discriminate; cbn in Cx; destruct Cx as [Cx _]; congruence.
      * eapply thr_ok_mono; [apply (i_thr _ _ I); auto| | | | |]; simp_st; auto; try congruence.
        -- intros H; apply kmem_add_key_mono; auto.
    + intros Hb _. apply C; auto.
    + intros Hb Ha. apply kmem_add_key_mono. apply (i_g2 _ _ I); auto.
  - (* UMeta *)
    destruct (present d (s_files s)) eqn:P; cbn [fst]; apply inv_thr_only; auto.
    + intros x Hx. apply In_tset in Hx. destruct Hx as [Hx| ->]; auto. right; split; cbn; auto.
    + intros d' H. apply up_at_add_tset in H. destruct H as [H|[ns H]]; auto; discriminate.
    + intros x Hx. apply In_tremove in Hx; auto.
    + intros d'; apply up_at_add_tremove.
  - (* UAck *)
    cbn [fst].
    eapply inv_upd with (d0 := d) (t := t) (th' := TUp (nsof d) d UAck); simp_st; eauto;
      try apply I; try (apply tremove_sub).
    + intros k Hk. apply kmem_add_key_other. intros ->; cbn in Hk; congruence.
    + apply keys_wf_add. apply I.
    + intros H; apply In_tremove in H. apply (i_thr _ _ I _ H).
    + intros x Hx Hd _. eapply thr_ok_mono; [apply (i_thr _ _ I); auto| | | | |]; simp_st; auto.
      intros _; apply up_at_add_tremove.
    + apply (i_g1 _ _ I).
    + intros Hb _. apply C; auto.
Qed.

End Step.
