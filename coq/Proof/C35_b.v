(* C35, second part: how the pinned code (download_prefix) relates to the patched one. *)
From Coq Require Import List NArith Bool Lia.
From K.Model Require Import C35.
From K.Proof Require Import C35.
Import ListNotations.
Local Open Scope N_scope.

Lemma not_partial_written r w q :
  is_partial r = false -> http_download r = (w, q) -> q <> QOk -> w = [].
Proof.
  destruct r as [|code body clean]; cbn [is_partial http_download].
  - intros _ H _. inversion H. reflexivity.
  - destruct (N.eqb_spec code 200) as [->|Hne].
    + destruct clean; intros Hp H Hq; inversion H; subst.
      * exfalso. apply Hq. reflexivity.
      * cbn [andb] in Hp. destruct w; [reflexivity | discriminate].
    + intros _ H _. inversion H. reflexivity.
Qed.

(* one origin: without such a response the patched and the pinned closure behave alike *)
Lemma poll_origin_no_partial sc : forall bud cnt,
  forallb (fun r => negb (is_partial r)) sc = true ->
  poll_origin true sc bud [] cnt = poll_origin false sc bud [] cnt.
Proof.
  induction sc as [|r sc IH]; intros bud cnt Hn; cbn [poll_origin]; [reflexivity|].
  cbn [forallb] in Hn. apply andb_prop in Hn. destruct Hn as [Hr Hn]. apply negb_true_iff in Hr.
  destruct (http_download r) as [w q] eqn:Hd. cbn [app].
  destruct q as [| |code|]; [reflexivity| | |].
  - rewrite (not_partial_written _ _ _ Hr Hd) by discriminate. reflexivity.
  - rewrite (not_partial_written _ _ _ Hr Hd) by discriminate. cbn [is_nil negb andb].
    destruct (code =? 202); [|reflexivity]. destruct (bud =? 0); [reflexivity|]. apply IH. exact Hn.
  - rewrite (not_partial_written _ _ _ Hr Hd) by discriminate. reflexivity.
Qed.

Lemma poll_no_partial os :
  no_partial os = true -> poll true os [] = poll false os [].
Proof.
  induction os as [|o os IH]; intros Hn; cbn [poll]; [reflexivity|].
  unfold no_partial in Hn. cbn [forallb] in Hn. apply andb_prop in Hn. destruct Hn as [Ho Hn].
  rewrite <- (poll_origin_no_partial _ _ _ Ho).
  destruct (poll_origin true (script o) (budget o) [] 0) as [[pr d1] c1] eqn:E.
  destruct pr as [r|]; [reflexivity|].
  rewrite (poll_origin_fixed_next _ _ _ _ _ E). rewrite (IH Hn). reflexivity.
Qed.

(* the fix is conservative: it changes the result only in environments where some origin
   drops the connection after at least one body byte *)
Lemma fix_conservative os : no_partial os = true -> download_prefix os = download os.
Proof.
  intros Hn. unfold download, download_prefix, run, run_prefix, run_with.
  cbn [i_entry i_resolve i_origins]. rewrite (poll_no_partial os Hn). reflexivity.
Qed.

(* ---------- what the pinned code delivers: everything every attempt wrote, in order ---------- *)
Lemma poll_origin_appends fixed sc : forall bud dst cnt res dst' c,
  poll_origin fixed sc bud dst cnt = (res, dst', c) ->
  exists junk, dst' = dst ++ junk /\
    (res = PDone Ok -> exists j body pre post,
        junk = j ++ body /\ sc = pre ++ RResp 200 body true :: post).
Proof.
  induction sc as [|r sc IH]; intros bud dst cnt res dst' c; cbn [poll_origin].
  - intros H. inversion H. exists []. split; [rewrite app_nil_r; reflexivity | discriminate].
  - destruct (http_download r) as [w q] eqn:Hd.
    assert (Hfail : forall pr, pr <> PDone Ok -> (pr, dst ++ w, cnt + 1) = (res, dst', c) ->
              exists junk, dst' = dst ++ junk /\
                (res = PDone Ok -> exists j body pre post,
                    junk = j ++ body /\ r :: sc = pre ++ RResp 200 body true :: post)).
    { intros pr Hpr H. inversion H; subst. exists w. split; [reflexivity|]. intros Hc. exfalso. exact (Hpr Hc). }
    destruct q as [| |code|].
    + intros H. inversion H; subst. apply http_download_ok in Hd. subst r.
      exists w. split; [reflexivity|]. intros _. exists [], w, [], sc. split; reflexivity.
    + destruct (fixed && negb (is_nil (dst ++ w))); apply Hfail; discriminate.
    + destruct (fixed && negb (is_nil (dst ++ w))); [apply Hfail; discriminate|].
      destruct (code =? 202).
      * destruct (bud =? 0); [apply Hfail; discriminate|].
        intros H. destruct (IH _ _ _ _ _ _ H) as [junk [Hj Hok]].
        exists (w ++ junk). split; [rewrite Hj, app_assoc; reflexivity|].
        intros Hr. destruct (Hok Hr) as [j [body [pre [post [-> ->]]]]].
        exists (w ++ j), body, (r :: pre), post. split; [rewrite app_assoc; reflexivity | reflexivity].
      * destruct (code <? 500); apply Hfail; discriminate.
    + destruct (fixed && negb (is_nil (dst ++ w))); apply Hfail; discriminate.
Qed.

Lemma poll_appends fixed os : forall dst res dst' cs,
  poll fixed os dst = (res, dst', cs) ->
  exists junk, dst' = dst ++ junk /\
    (res = Ok -> exists j body o pre post,
        junk = j ++ body /\ In o os /\ script o = pre ++ RResp 200 body true :: post).
Proof.
  induction os as [|o os IH]; intros dst res dst' cs; cbn [poll].
  - intros H. inversion H. exists []. split; [rewrite app_nil_r; reflexivity | discriminate].
  - destruct (poll_origin fixed (script o) (budget o) dst 0) as [[pr d1] c1] eqn:Ho.
    destruct (poll_origin_appends _ _ _ _ _ _ _ _ Ho) as [j1 [Hd1 Hok1]]. destruct pr as [r|].
    + intros H. inversion H; subst. exists j1. split; [reflexivity|]. intros Hr. subst res.
      destruct (Hok1 eq_refl) as [j [body [pre [post [-> Hs]]]]].
      exists j, body, o, pre, post. split; [reflexivity|]. split; [left; reflexivity | exact Hs].
    + destruct (poll fixed os d1) as [[r2 d2] cs2] eqn:Hp. intros H. inversion H; subst.
      destruct (IH _ _ _ _ Hp) as [j2 [Hd2 Hok2]].
      exists (j1 ++ j2). split; [rewrite Hd2, app_assoc; reflexivity|]. intros Hr.
      destruct (Hok2 Hr) as [j [body [o' [pre [post [-> [Hi Hs]]]]]]].
      exists (j1 ++ j), body, o', pre, post. split; [rewrite app_assoc; reflexivity|].
      split; [right; exact Hi | exact Hs].
Qed.

(* the pinned code: on success the blob is there, but only as a SUFFIX of the destination *)
Lemma prefix_blob_is_suffix blob os dst :
  honest blob os = true -> download_prefix os = (Ok, dst) -> exists junk, dst = junk ++ blob.
Proof.
  intros Hh. unfold download_prefix, run_prefix, run_with. cbn [i_entry i_resolve i_origins].
  destruct (poll false os []) as [[r d] cs] eqn:Hp. cbn [o_res o_dst]. intros H.
  injection H as Hr Hd. subst d. apply (proj1 (map404_ok _)) in Hr. subst r.
  destruct (poll_appends _ _ _ _ _ _ Hp) as [junk [Hj Hok]]. cbn [app] in Hj. subst dst.
  destruct (Hok eq_refl) as [j [body [o [pre [post [-> [Hi Hs]]]]]]].
  assert (Hd : delivers blob (RResp 200 body true) = true).
  { apply (honest_in blob os o); [exact Hh | exact Hi | rewrite Hs; apply in_or_app; right; left; reflexivity | reflexivity]. }
  cbn [delivers] in Hd. apply andb_prop in Hd. destruct Hd as [_ Hd]. apply bytes_eqb_eq in Hd. subst body.
  exists j. reflexivity.
Qed.
