(* C15: the clauses of the property, for every history. *)
From Coq Require Import List NArith ZArith Bool Lia Permutation.
From K.Model Require Import C15.
From K.Proof Require Import C15_base C15_inv C15_ref.
Import ListNotations.
Local Open Scope N_scope.

(* ---------- reachable states and invariants along histories *)
Definition Reach (c : cfg) (s : st) : Prop := exists t, Rel c s t.

Lemma reach_init c : Reach c init.
Proof. exists sinit. apply rel_init. Qed.

Lemma reach_step c s o : Reach c s -> Reach c (fst (step c s o)).
Proof. intros [t R]. exists (fst (sstep c t o)). now apply step_rel. Qed.

Lemma reach_run c ops : forall s, Reach c s -> Reach c (fst (run c s ops)).
Proof.
  induction ops as [|o ops IH]; intros s H; [exact H|].
  rewrite run_cons. cbn [fst]. apply IH. now apply reach_step.
Qed.

Lemma reach_inv c s : Reach c s -> Inv c s.
Proof. intros [t R]. apply R. Qed.

Lemma run_invariant c (P : st -> Prop) (ok : op -> Prop) :
  (forall s o, Reach c s -> P s -> ok o -> P (fst (step c s o))) ->
  forall ops s, Reach c s -> P s -> Forall ok ops -> P (fst (run c s ops)).
Proof.
  intros Hstep. induction ops as [|o ops IH]; intros s HR HP Hok; [exact HP|].
  inversion Hok; subst. rewrite run_cons. cbn [fst]. apply IH; auto. now apply reach_step.
Qed.

Lemma srun_invariant c (P : sst -> Prop) (ok : op -> Prop) :
  (forall t o, P t -> ok o -> P (fst (sstep c t o))) ->
  forall ops t, P t -> Forall ok ops -> P (fst (srun c t ops)).
Proof.
  intros Hstep. induction ops as [|o ops IH]; intros t HP Hok; [exact HP|].
  inversion Hok; subst. rewrite srun_cons. cbn [fst]. apply IH; auto.
Qed.

(* ---------- counting *)
Lemma filter_length_le {A} (f g : A -> bool) l :
  (forall x, In x l -> f x = true -> g x = true) -> (length (filter f l) <= length (filter g l))%nat.
Proof.
  induction l as [|a t IH]; cbn; intros H; auto.
  assert (IH' : (length (filter f t) <= length (filter g t))%nat) by (apply IH; intros; apply H; auto).
  destruct (f a) eqn:F.
  - rewrite (H a (or_introl eq_refl) F). cbn. lia.
  - destruct (g a); cbn; lia.
Qed.

Lemma filter_map_length {A B} (f : B -> bool) (h : A -> B) l :
  length (filter f (map h l)) = length (filter (fun x => f (h x)) l).
Proof. induction l as [|a t IH]; cbn; auto. destruct (f (h a)); cbn; now rewrite IH. Qed.

Lemma filter_filter_le {A} (f g : A -> bool) l :
  (length (filter f (filter g l)) <= length (filter f l))%nat.
Proof.
  induction l as [|a t IH]; cbn; auto.
  destruct (g a); cbn; destruct (f a); cbn; lia.
Qed.

(* a generic count of the outstanding requests selected by `sel` *)
Definition cnt (c : cfg) (t : N) (sel : req -> bool) (l : list req) : nat :=
  length (filter (fun r => sel r && pu c t r) l).

Lemma cnt_perm c t sel l1 l2 : Permutation l1 l2 -> cnt c t sel l1 = cnt c t sel l2.
Proof. intros P. unfold cnt. apply Permutation_length. now apply Permutation_filter'. Qed.

Definition sel_stable (sel : req -> bool) : Prop :=
  forall r x, sel (set_status x r) = sel r.

Lemma smark_fn_sel sel p i x r : sel_stable sel -> sel (smark_fn p i x r) = sel r.
Proof. intros H. unfold smark_fn. destruct (_ && _); auto. Qed.

Lemma smark_fn_pu c t p i x r : x <> SPending -> pu c t (smark_fn p i x r) = true -> pu c t r = true.
Proof.
  intros Hx. rewrite smark_fn_eq. destruct (N.eqb (r_piece r) i); auto.
  rewrite mark_fn_pu by auto. intros H. apply andb_true_iff in H. tauto.
Qed.

(* every operation but Reserve can only lower a count of outstanding requests *)
Lemma cnt_nonreserve c t o sel :
  sel_stable sel ->
  (match o with Reserve _ _ _ _ _ => False | _ => True end) ->
  (cnt c (snow (fst (sstep c t o))) sel (sreqs (fst (sstep c t o))) <= cnt c (snow t) sel (sreqs t))%nat.
Proof.
  intros Hs Ho. destruct o as [p origin cands dup ch|p i|p i|i|p|dt| |p]; try contradiction;
    cbn [sstep fst snow sreqs smark]; unfold cnt.
  - change (map _ (sreqs t)) with (map (smark_fn p i SUnsent) (sreqs t)).
    rewrite filter_map_length. apply filter_length_le. intros r _ H.
    apply andb_true_iff in H. destruct H as [H1 H2]. rewrite smark_fn_sel in H1 by auto.
    apply smark_fn_pu in H2; [|discriminate]. now rewrite H1, H2.
  - change (map _ (sreqs t)) with (map (smark_fn p i SInvalid) (sreqs t)).
    rewrite filter_map_length. apply filter_length_le. intros r _ H.
    apply andb_true_iff in H. destruct H as [H1 H2]. rewrite smark_fn_sel in H1 by auto.
    apply smark_fn_pu in H2; [|discriminate]. now rewrite H1, H2.
  - apply filter_filter_le.
  - apply filter_filter_le.
  - apply filter_length_le. intros r _ H. apply andb_true_iff in H. destruct H as [H1 H2].
    rewrite H1. cbn. destruct (pu c (snow t) r) eqn:P; auto.
    apply (pu_mono _ _ dt) in P. congruence.
  - lia.
  - lia.
Qed.

Lemma fold_sadd_snow p ch : forall t, snow (fold_left (sadd p) ch t) = snow t.
Proof. induction ch as [|i ch IH]; intros t; cbn; auto. now rewrite IH. Qed.

(* a selector that looks only at peer and piece *)
Definition sel_pp (f : N -> N -> bool) (r : req) : bool := f (r_peer r) (r_piece r).
Lemma sel_pp_stable f : sel_stable (sel_pp f).
Proof. intros r x. reflexivity. Qed.

Lemma cnt_sadd c p t i f :
  cnt c (snow t) (sel_pp f) (sreqs (sadd p t i)) =
  (cnt c (snow t) (sel_pp f) (sreqs t) + (if f p i then 1 else 0))%nat.
Proof.
  unfold cnt, sadd. cbn [sreqs]. rewrite filter_app, app_length. f_equal.
  cbn [filter]. unfold sel_pp at 1. cbn [r_peer r_piece].
  assert (P : pu c (snow t) (mkreq (snext t) i p (snow t) SPending) = true).
  { unfold pu, expired. cbn. apply negb_true_iff, N.ltb_ge. lia. }
  rewrite P. destruct (f p i); reflexivity.
Qed.

Lemma cnt_fold_sadd c p f ch : forall t,
  cnt c (snow t) (sel_pp f) (sreqs (fold_left (sadd p) ch t)) =
  (cnt c (snow t) (sel_pp f) (sreqs t) + length (filter (f p) ch))%nat.
Proof.
  induction ch as [|i ch IH]; intros t; cbn [fold_left filter length]; [lia|].
  replace (snow t) with (snow (sadd p t i)) by reflexivity.
  rewrite IH. cbn [sadd snow]. rewrite cnt_sadd. destruct (f p i); cbn [length]; lia.
Qed.

Lemma count_pu_peer_cnt c t p l : count_pu_peer c t p l = cnt c t (sel_pp (fun q _ => N.eqb q p)) l.
Proof. reflexivity. Qed.
Lemma count_pu_piece_cnt c t i l : count_pu_piece c t i l = cnt c t (sel_pp (fun _ j => N.eqb j i)) l.
Proof. reflexivity. Qed.

Definition nonres (o : op) : Prop := match o with Reserve _ _ _ _ _ => False | _ => True end.

Lemma count_peer_nonreserve c t o p : nonres o ->
  (count_pu_peer c (snow (fst (sstep c t o))) p (sreqs (fst (sstep c t o))) <= count_pu_peer c (snow t) p (sreqs t))%nat.
Proof. intros H. exact (cnt_nonreserve c t o (sel_pp (fun q _ => N.eqb q p)) (sel_pp_stable _) H). Qed.

Lemma count_piece_nonreserve c t o i : nonres o ->
  (count_pu_piece c (snow (fst (sstep c t o))) i (sreqs (fst (sstep c t o))) <= count_pu_piece c (snow t) i (sreqs t))%nat.
Proof. intros H. exact (cnt_nonreserve c t o (sel_pp (fun _ j => N.eqb j i)) (sel_pp_stable _) H). Qed.

Lemma slegal_facts c t p origin cands dup ch :
  slegal c t p origin cands dup ch = true ->
  NoDup ch /\ (forall i, In i ch -> In i cands /\ svalid c t p i dup = true) /\
  (ch <> [] -> (Z.of_nat (count_pu_peer c (snow t) p (sreqs t)) + Z.of_nat (length ch) <= limit_of c origin)%Z).
Proof.
  intros H. apply legal_sel_facts in H. destruct H as [H1 [H2 H3]].
  split; auto. split; auto. intros Hne. destruct (H3 Hne) as [_ H4]. unfold squota in H4. lia.
Qed.

Lemma filter_false_nil {A} (ch : list A) : filter (fun _ => false) ch = [].
Proof. induction ch; auto. Qed.

(* ---------- clause 1: the pipeline limit *)
Lemma sreserve_peer_count c t p origin cands dup ch q :
  slegal c t p origin cands dup ch = true ->
  let t' := fold_left (sadd p) ch t in
  count_pu_peer c (snow t') q (sreqs t') =
  (count_pu_peer c (snow t) q (sreqs t) + (if N.eqb p q then length ch else 0))%nat.
Proof.
  intros _ t'. unfold t'. rewrite fold_sadd_snow, !count_pu_peer_cnt, cnt_fold_sadd. f_equal.
  destruct (N.eqb p q) eqn:E.
  - induction ch as [|i ch IH]; cbn; auto.
  - induction ch as [|i ch IH]; cbn; auto.
Qed.

Theorem pipeline_limit c ops p origin cands dup ch :
  let s := fst (run c init ops) in
  legal c s p origin cands dup ch = true -> ch <> [] ->
  let s' := fst (step c s (Reserve p origin cands dup ch)) in
  s' = reserve_all p s ch /\
  (Z.of_nat (count_pu_peer c (now s') p (live s')) <= limit_of c origin)%Z.
Proof.
  intros s L Hne s'.
  assert (Es : s' = reserve_all p s ch) by (unfold s'; cbn [step step_with]; now rewrite L).
  split; auto.
  pose proof (reachable_rel c ops) as R. fold s in R.
  destruct (step_rel c s _ (Reserve p origin cands dup ch) R) as [R' _]. fold s' in R'.
  rewrite (legal_eq _ _ _ _ _ _ _ _ R) in L.
  cbn [sstep] in R'. rewrite L in R'. cbn [fst] in R'.
  rewrite count_pu_peer_cnt, (cnt_perm _ _ _ _ _ (live_perm _ _ _ R')), (R_now _ _ _ R'), <- count_pu_peer_cnt.
  rewrite (sreserve_peer_count _ _ _ _ _ _ _ p L), N.eqb_refl.
  apply slegal_facts in L. destruct L as [_ [_ L]]. specialize (L Hne). lia.
Qed.

Definition reserve_flag_ok (p : N) (origin : bool) (o : op) : Prop :=
  match o with Reserve p' o' _ _ _ => p' = p -> o' = origin | _ => True end.

Lemma spipeline_step c p origin t o :
  (Z.of_nat (count_pu_peer c (snow t) p (sreqs t)) <= Z.max 0 (limit_of c origin))%Z ->
  reserve_flag_ok p origin o ->
  let t' := fst (sstep c t o) in
  (Z.of_nat (count_pu_peer c (snow t') p (sreqs t')) <= Z.max 0 (limit_of c origin))%Z.
Proof.
  intros H Hok t'.
  destruct o as [p' o' cands dup ch|p' i|p' i|i|p'|dt| |p'];
    try (match goal with t' := fst (sstep c t ?o) |- _ => pose proof (count_peer_nonreserve c t o p I) as Hle end;
         subst t'; lia).
  unfold t'. cbn [sstep]. destruct (slegal c t p' o' cands dup ch) eqn:L; cbn [fst]; auto.
  rewrite (sreserve_peer_count _ _ _ _ _ _ _ p L).
  destruct (N.eqb p' p) eqn:E; [|lia].
  apply N.eqb_eq in E. cbn in Hok. specialize (Hok E). subst.
  destruct ch as [|i ch]; [cbn; lia|].
  apply slegal_facts in L. destruct L as [_ [_ L]].
  assert (Hne : i :: ch <> []) by discriminate. specialize (L Hne). lia.
Qed.

Theorem pipeline_always c ops p origin :
  Forall (reserve_flag_ok p origin) ops ->
  let s := fst (run c init ops) in
  (Z.of_nat (count_pu_peer c (now s) p (live s)) <= Z.max 0 (limit_of c origin))%Z.
Proof.
  intros Hok s. pose proof (reachable_rel c ops) as R. fold s in R.
  rewrite count_pu_peer_cnt, (cnt_perm _ _ _ _ _ (live_perm _ _ _ R)), (R_now _ _ _ R), <- count_pu_peer_cnt.
  apply (srun_invariant c
    (fun t => (Z.of_nat (count_pu_peer c (snow t) p (sreqs t)) <= Z.max 0 (limit_of c origin))%Z)
    (reserve_flag_ok p origin)); auto.
  - intros t o H1 H2. now apply spipeline_step.
  - cbn. lia.
Qed.

(* ---------- clause 2: no two outstanding requests for one piece outside endgame *)
Lemma svalid_nodup_zero c t p i :
  svalid c t p i false = true -> count_pu_piece c (snow t) i (sreqs t) = 0%nat.
Proof.
  unfold svalid, valid_in, count_pu_piece. rewrite forallb_forall. intros H.
  destruct (filter (fun r => N.eqb (r_piece r) i && pu c (snow t) r) (sreqs t)) as [|r l] eqn:E; auto.
  assert (Hr : In r (filter (fun r => N.eqb (r_piece r) i && pu c (snow t) r) (sreqs t))) by (rewrite E; now left).
  apply filter_In in Hr. destruct Hr as [H1 H2]. apply andb_true_iff in H2. destruct H2 as [H2 H3].
  assert (H4 : In r (filter (fun r => N.eqb (r_piece r) i) (sreqs t))) by (apply filter_In; auto).
  specialize (H r H4). rewrite H3 in H. destruct (N.eqb (r_peer r) p); discriminate.
Qed.

Lemma filter_eqb_nodup i ch : NoDup ch -> length (filter (fun j => N.eqb j i) ch) = if memb i ch then 1%nat else 0%nat.
Proof.
  induction ch as [|j ch IH]; intros ND; cbn; auto.
  inversion ND as [|? ? Hnot ND']; subst. rewrite (N.eqb_sym i j).
  destruct (N.eqb j i) eqn:E; cbn.
  - apply N.eqb_eq in E. subst. rewrite IH by auto.
    destruct (memb i ch) eqn:M; auto. apply memb_In in M. contradiction.
  - now apply IH.
Qed.

Definition no_endgame (o : op) : Prop :=
  match o with Reserve _ _ _ dup _ => dup = false | _ => True end.

Lemma snodup_step c t o :
  (forall i, (count_pu_piece c (snow t) i (sreqs t) <= 1)%nat) -> no_endgame o ->
  let t' := fst (sstep c t o) in
  forall i, (count_pu_piece c (snow t') i (sreqs t') <= 1)%nat.
Proof.
  intros H Hok t' i.
  destruct o as [p' o' cands dup ch|p' j|p' j|j|p'|dt| |p'];
    try (match goal with t' := fst (sstep c t ?o) |- _ => pose proof (count_piece_nonreserve c t o i I) as Hle end;
         subst t'; specialize (H i); lia).
  cbn in Hok. subst dup.
  unfold t'. cbn [sstep]. destruct (slegal c t p' o' cands false ch) eqn:L; cbn [fst]; auto.
  rewrite fold_sadd_snow, count_pu_piece_cnt, cnt_fold_sadd, <- count_pu_piece_cnt.
  apply slegal_facts in L. destruct L as [L1 [L2 _]].
  rewrite filter_eqb_nodup by auto.
  destruct (memb i ch) eqn:M.
  - apply memb_In in M. destruct (L2 i M) as [_ Hv]. rewrite (svalid_nodup_zero _ _ _ _ Hv). lia.
  - specialize (H i). lia.
Qed.

Theorem no_dup_outside_endgame c ops :
  Forall no_endgame ops ->
  let s := fst (run c init ops) in
  forall i, (count_pu_piece c (now s) i (live s) <= 1)%nat.
Proof.
  intros Hok s i. pose proof (reachable_rel c ops) as R. fold s in R.
  rewrite count_pu_piece_cnt, (cnt_perm _ _ _ _ _ (live_perm _ _ _ R)), (R_now _ _ _ R), <- count_pu_piece_cnt.
  revert i.
  apply (srun_invariant c (fun t => forall i, (count_pu_piece c (snow t) i (sreqs t) <= 1)%nat) no_endgame); auto.
  intros t o H1 H2. now apply snodup_step.
Qed.

(* a non-endgame reservation hands out only pieces without an outstanding request, and
   afterwards each of them has exactly one *)
Theorem reserve_exclusive c ops p origin cands ch i :
  let s := fst (run c init ops) in
  legal c s p origin cands false ch = true -> In i ch ->
  count_pu_piece c (now s) i (live s) = 0%nat /\
  count_pu_piece c (now s) i (live (reserve_all p s ch)) = 1%nat.
Proof.
  intros s L Hi.
  pose proof (reachable_rel c ops) as R. fold s in R.
  destruct (step_rel c s _ (Reserve p origin cands false ch) R) as [R' _].
  cbn [step step_with sstep] in R'. rewrite L in R'.
  rewrite (legal_eq _ _ _ _ _ _ _ _ R) in L. rewrite L in R'. cbn [fst] in R'.
  pose proof L as L0. apply slegal_facts in L. destruct L as [L1 [L2 _]].
  destruct (L2 i Hi) as [_ Hv]. apply svalid_nodup_zero in Hv.
  rewrite !count_pu_piece_cnt, (cnt_perm _ _ _ _ _ (live_perm _ _ _ R)),
    (cnt_perm _ _ _ _ _ (live_perm _ _ _ R')), (R_now _ _ _ R), <- !count_pu_piece_cnt.
  split; auto.
  rewrite count_pu_piece_cnt, cnt_fold_sadd, <- count_pu_piece_cnt, Hv, filter_eqb_nodup by auto.
  apply memb_In in Hi. now rewrite Hi.
Qed.

(* even in endgame a peer never holds two outstanding requests for the same piece *)
Definition count_pu_pp (c : cfg) (t : N) (p i : N) (l : list req) : nat :=
  cnt c t (sel_pp (fun q j => N.eqb q p && N.eqb j i)) l.

Lemma count_pp_nonreserve c t o p i : nonres o ->
  (count_pu_pp c (snow (fst (sstep c t o))) p i (sreqs (fst (sstep c t o))) <= count_pu_pp c (snow t) p i (sreqs t))%nat.
Proof. intros H. exact (cnt_nonreserve c t o (sel_pp (fun q j => N.eqb q p && N.eqb j i)) (sel_pp_stable _) H). Qed.

Lemma svalid_same_zero c t p i dup :
  svalid c t p i dup = true -> count_pu_pp c (snow t) p i (sreqs t) = 0%nat.
Proof.
  unfold svalid, valid_in, count_pu_pp, cnt, sel_pp. rewrite forallb_forall. intros H.
  match goal with |- length ?l = _ => destruct l as [|r l'] eqn:E end; auto.
  assert (Hr : In r (filter (fun r => (N.eqb (r_peer r) p && N.eqb (r_piece r) i) && pu c (snow t) r) (sreqs t)))
    by (rewrite E; now left).
  apply filter_In in Hr. destruct Hr as [H1 H2]. apply andb_true_iff in H2. destruct H2 as [H2 H3].
  apply andb_true_iff in H2. destruct H2 as [H2 H2'].
  assert (H4 : In r (filter (fun r => N.eqb (r_piece r) i) (sreqs t))) by (apply filter_In; auto).
  specialize (H r H4). rewrite H3, H2 in H. discriminate.
Qed.

Lemma filter_pp_nodup p p' i ch :
  NoDup ch -> length (filter (fun j => N.eqb p' p && N.eqb j i) ch) = if N.eqb p' p && memb i ch then 1%nat else 0%nat.
Proof.
  intros ND. destruct (N.eqb p' p); cbn [andb].
  - now apply filter_eqb_nodup.
  - now rewrite filter_false_nil.
Qed.

Lemma ssame_peer_step c t o :
  (forall p i, (count_pu_pp c (snow t) p i (sreqs t) <= 1)%nat) ->
  let t' := fst (sstep c t o) in
  forall p i, (count_pu_pp c (snow t') p i (sreqs t') <= 1)%nat.
Proof.
  intros H t' p i.
  destruct o as [p' o' cands dup ch|p' j|p' j|j|p'|dt| |p'];
    try (match goal with t' := fst (sstep c t ?o) |- _ => pose proof (count_pp_nonreserve c t o p i I) as Hle end;
         subst t'; specialize (H p i); lia).
  unfold t'. cbn [sstep]. destruct (slegal c t p' o' cands dup ch) eqn:L; cbn [fst]; auto.
  unfold count_pu_pp. rewrite fold_sadd_snow, cnt_fold_sadd. fold (count_pu_pp c (snow t) p i (sreqs t)).
  apply slegal_facts in L. destruct L as [L1 [L2 _]].
  rewrite filter_pp_nodup by auto.
  destruct (N.eqb p' p) eqn:E; cbn [andb]; [|specialize (H p i); lia].
  apply N.eqb_eq in E. subst p'.
  destruct (memb i ch) eqn:M; [|specialize (H p i); lia].
  apply memb_In in M. destruct (L2 i M) as [_ Hv]. rewrite (svalid_same_zero _ _ _ _ _ Hv). lia.
Qed.

Theorem no_dup_same_peer c ops :
  let s := fst (run c init ops) in
  forall p i, (count_pu_pp c (now s) p i (live s) <= 1)%nat.
Proof.
  intros s p i. pose proof (reachable_rel c ops) as R. fold s in R.
  unfold count_pu_pp. rewrite (cnt_perm _ _ _ _ _ (live_perm _ _ _ R)), (R_now _ _ _ R).
  revert p i.
  apply (srun_invariant c (fun t => forall p i, (count_pu_pp c (snow t) p i (sreqs t) <= 1)%nat) (fun _ => True)).
  - intros t o H1 _. now apply ssame_peer_step.
  - intros p i. cbn. lia.
  - apply Forall_forall. auto.
Qed.

(* ---------- clause 3: removing a peer *)
Definition no_reserve_for (p : N) (o : op) : Prop :=
  match o with Reserve p' _ _ _ _ => p' <> p | _ => True end.

Definition peer_gone (p : N) (s : st) : Prop :=
  (forall i r, In r (lreq s i) -> r_peer r <> p) /\ (forall i, bp_get s p i = None).

Lemma lreq_fold_In p ch : forall s j r,
  In r (lreq (reserve_all p s ch) j) -> In r (lreq s j) \/ r_peer r = p.
Proof.
  induction ch as [|i ch IH]; intros s j r; cbn; auto.
  intros H. apply IH in H. destruct H as [H|H]; auto.
  rewrite lreq_add in H. destruct (N.eqb i j) eqn:E; auto.
  apply N.eqb_eq in E. subst. apply in_app_iff in H. destruct H as [H|[<-|[]]]; auto.
Qed.

Lemma bp_fold_other p ch p' : p <> p' -> forall s j, bp_get (reserve_all p s ch) p' j = bp_get s p' j.
Proof.
  intros Hne. unfold reserve_all. induction ch as [|i ch IH]; intros s j; cbn [fold_left]; auto.
  rewrite IH, bp_add. apply N.eqb_neq in Hne. now rewrite Hne.
Qed.

Lemma peer_gone_step c p s o :
  Reach c s -> peer_gone p s -> no_reserve_for p o -> peer_gone p (fst (step c s o)).
Proof.
  intros HR [G1 G2] Hok. pose proof (reach_inv _ _ HR) as I.
  destruct o as [p' o' cands dup ch|p' i|p' i|i|p'|dt| |p']; cbn [step step_with fst]; try (split; assumption).
  - destruct (legal c s p' o' cands dup ch); cbn [fst]; [|split; assumption]. cbn in Hok. split.
    + intros j r H. apply lreq_fold_In in H. destruct H as [H|H]; [eapply G1; eauto|congruence].
    + intros j. rewrite bp_fold_other; auto.
  - split.
    + intros j r. rewrite lreq_mark. destruct (N.eqb i j); [|apply G1].
      rewrite in_map_iff. intros [r0 [<- H]]. rewrite mark_fn_peer. eapply G1; eauto.
    + intros j. now rewrite bp_mark.
  - split.
    + intros j r. rewrite lreq_mark. destruct (N.eqb i j); [|apply G1].
      rewrite in_map_iff. intros [r0 [<- H]]. rewrite mark_fn_peer. eapply G1; eauto.
    + intros j. now rewrite bp_mark.
  - split.
    + intros j r. rewrite lreq_clear. destruct (N.eqb i j); [intros []|apply G1].
    + intros j. rewrite bp_clear by apply (K2 _ _ I). destruct (N.eqb i j); auto.
  - split.
    + intros j r. rewrite lreq_clearpeer, filter_In. intros [H _]. eapply G1; eauto.
    + intros j. rewrite bp_clearpeer. destruct (N.eqb p' p); auto.
Qed.

Lemma peer_gone_clearpeer p s : peer_gone p (clearpeer s p).
Proof.
  split.
  - intros i r. rewrite lreq_clearpeer, filter_In. unfold not_peer. intros [_ H].
    apply negb_true_iff, N.eqb_neq in H. exact H.
  - intros i. now rewrite bp_clearpeer, N.eqb_refl.
Qed.

Lemma peer_gone_reports c p s :
  Reach c s -> peer_gone p s ->
  (forall r, In r (live s) -> r_peer r <> p) /\
  (forall i q x, In (i, q, x) (get_failed c s) -> q <> p) /\
  pending_pieces s p = [].
Proof.
  intros HR [G1 G2]. pose proof (reach_inv _ _ HR) as I.
  assert (L : forall r, In r (live s) -> r_peer r <> p).
  { intros r H. apply (live_In c) in H; auto. eapply G1; eauto. }
  split; auto. split.
  - intros i q x H. rewrite get_failed_live in H. apply failed_of_In in H.
    destruct H as [r [H1 H2]]. apply L in H1. unfold failed_entry in H2.
    destruct (r_status r); [destruct (expired c (now s) r)|..]; congruence.
  - unfold pending_pieces. destruct (pending_loop s (aget_list p (byPeer s))) as [|i l] eqn:E; auto.
    assert (H : In i (pending_loop s (aget_list p (byPeer s)))) by (rewrite E; now left).
    apply pending_loop_In in H. destruct H as [id [r [H1 _]]].
    specialize (G2 i). unfold bp_get in G2. unfold aget_list in H1.
    destruct (aget p (byPeer s)) as [pm|] eqn:E2; [|contradiction].
    apply aget_In in E2. apply (K3 _ _ I) in E2. apply (In_aget _ _ _ E2) in H1. congruence.
Qed.

(* after ClearPeer p, whatever happens next short of reserving for p again (marks, clears,
   other peers' reservations, removals, any clock advance), no request of p is live in
   either index, none is in the failed report and none is reported pending *)
Theorem clearpeer_total c ops p rest :
  Forall (no_reserve_for p) rest ->
  let s := fst (run c init (ops ++ ClearPeer p :: rest)) in
  (forall r, In r (live s) -> r_peer r <> p) /\
  (forall i, bp_get s p i = None) /\
  (forall i q x, In (i, q, x) (get_failed c s) -> q <> p) /\
  pending_pieces s p = [].
Proof.
  intros Hok s.
  assert (HR : Reach c s) by (apply reach_run, reach_init).
  assert (G : peer_gone p s).
  { unfold s. rewrite run_app, run_cons. cbn [fst step step_with].
    apply (run_invariant c (peer_gone p) (no_reserve_for p)); auto.
    - intros s0 o H1 H2 H3. now apply peer_gone_step.
    - apply (reach_step c _ (ClearPeer p)), reach_run, reach_init.
    - apply peer_gone_clearpeer. }
  destruct (peer_gone_reports c p s HR G) as [H1 [H2 H3]].
  destruct G as [_ G2]. auto.
Qed.

(* ---------- clause 4: clearing a piece *)
Definition no_reserve_of (i : N) (o : op) : Prop :=
  match o with Reserve _ _ _ _ ch => ~ In i ch | _ => True end.

Definition piece_gone (i : N) (s : st) : Prop := lreq s i = [] /\ (forall p, bp_get s p i = None).

Lemma lreq_fold_other p ch j : ~ In j ch -> forall s, lreq (reserve_all p s ch) j = lreq s j.
Proof.
  unfold reserve_all. induction ch as [|i ch IH]; intros Hn s; cbn [fold_left]; auto.
  rewrite IH by (intros H; apply Hn; now right). rewrite lreq_add.
  destruct (N.eqb i j) eqn:E; auto. apply N.eqb_eq in E. subst. exfalso. apply Hn. now left.
Qed.

Lemma bp_fold_other_piece p ch j : ~ In j ch -> forall s p', bp_get (reserve_all p s ch) p' j = bp_get s p' j.
Proof.
  unfold reserve_all. induction ch as [|i ch IH]; intros Hn s p'; cbn [fold_left]; auto.
  rewrite IH by (intros H; apply Hn; now right). rewrite bp_add.
  destruct (N.eqb i j) eqn:E; [|now rewrite andb_false_r].
  apply N.eqb_eq in E. subst. exfalso. apply Hn. now left.
Qed.

Lemma piece_gone_step c i s o :
  Reach c s -> piece_gone i s -> no_reserve_of i o -> piece_gone i (fst (step c s o)).
Proof.
  intros HR [G1 G2] Hok. pose proof (reach_inv _ _ HR) as I.
  destruct o as [p' o' cands dup ch|p' j|p' j|j|p'|dt| |p']; cbn [step step_with fst]; try (split; assumption).
  - destruct (legal c s p' o' cands dup ch); cbn [fst]; [|split; assumption]. cbn in Hok. split.
    + now rewrite lreq_fold_other.
    + intros p. now rewrite bp_fold_other_piece.
  - split; [|intros p; now rewrite bp_mark].
    rewrite lreq_mark. destruct (N.eqb j i) eqn:E; auto. apply N.eqb_eq in E. subst. now rewrite G1.
  - split; [|intros p; now rewrite bp_mark].
    rewrite lreq_mark. destruct (N.eqb j i) eqn:E; auto. apply N.eqb_eq in E. subst. now rewrite G1.
  - split.
    + rewrite lreq_clear. destruct (N.eqb j i); auto.
    + intros p. rewrite bp_clear by apply (K2 _ _ I). destruct (N.eqb j i); auto.
  - split.
    + now rewrite lreq_clearpeer, G1.
    + intros p. rewrite bp_clearpeer. destruct (N.eqb p' p); auto.
Qed.

(* after Clear i, until piece i is handed out again, no request for i exists in either index
   (so none is outstanding, failed or pending, whoever held it) *)
Theorem clear_total c ops i rest :
  Forall (no_reserve_of i) rest ->
  let s := fst (run c init (ops ++ Clear i :: rest)) in
  (forall r, In r (live s) -> r_piece r <> i) /\
  (forall p, bp_get s p i = None) /\
  (forall j q x, In (j, q, x) (get_failed c s) -> j <> i) /\
  (forall p, ~ In i (pending_pieces s p)).
Proof.
  intros Hok s.
  assert (HR : Reach c s) by (apply reach_run, reach_init).
  pose proof (reach_inv _ _ HR) as I.
  assert (G : piece_gone i s).
  { unfold s. rewrite run_app, run_cons. cbn [fst step step_with].
    assert (HR0 : Reach c (fst (run c init ops))) by (apply reach_run, reach_init).
    apply (run_invariant c (piece_gone i) (no_reserve_of i)); auto.
    - intros s0 o H1 H2 H3. now apply piece_gone_step.
    - apply (reach_step c _ (Clear i)), HR0.
    - split.
      + now rewrite lreq_clear, N.eqb_refl.
      + intros p. rewrite bp_clear by apply (K2 _ _ (reach_inv _ _ HR0)). now rewrite N.eqb_refl. }
  destruct G as [G1 G2].
  assert (L : forall r, In r (live s) -> r_piece r <> i).
  { intros r H Hp. apply (live_In c) in H; auto. rewrite Hp, G1 in H. contradiction. }
  split; auto. split; auto. split.
  - intros j q x H. rewrite get_failed_live in H. apply failed_of_In in H.
    destruct H as [r [H1 H2]]. apply L in H1. unfold failed_entry in H2.
    destruct (r_status r); [destruct (expired c (now s) r)|..]; congruence.
  - intros p H. unfold pending_pieces in H. apply pending_loop_In in H. destruct H as [id [r [H1 _]]].
    specialize (G2 p). unfold bp_get in G2. unfold aget_list in H1.
    destruct (aget p (byPeer s)) as [pm|] eqn:E2; [|contradiction].
    apply aget_In in E2. apply (K3 _ _ I) in E2. apply (In_aget _ _ _ E2) in H1. congruence.
Qed.

(* ---------- clause 5: the failed report *)
Lemma failed_entry_spec c t r i p x :
  failed_entry c t r = Some (i, p, x) <->
  r_piece r = i /\ r_peer r = p /\
  ((x = code_expired /\ r_status r = SPending /\ expired c t r = true) \/
   (x = code_unsent /\ r_status r = SUnsent) \/
   (x = code_invalid /\ r_status r = SInvalid)).
Proof.
  unfold failed_entry, code_expired, code_unsent, code_invalid.
  destruct (r_status r) eqn:S; [destruct (expired c t r) eqn:E|..].
  - split.
    + intros [= <- <- <-]. intuition auto.
    + intros [<- [<- [[-> _]|[[_ H]|[_ H]]]]]; [reflexivity|discriminate|discriminate].
  - split; [discriminate|]. intros [_ [_ [[_ [_ H]]|[[_ H]|[_ H]]]]]; discriminate.
  - split.
    + intros [= <- <- <-]. intuition auto.
    + intros [<- [<- [[_ [H _]]|[[-> _]|[_ H]]]]]; [discriminate|reflexivity|discriminate].
  - split.
    + intros [= <- <- <-]. intuition auto.
    + intros [<- [<- [[_ [H _]]|[[_ H]|[-> _]]]]]; [discriminate|discriminate|reflexivity].
Qed.

(* the report lists exactly the live requests (of the flat log) that expired, were marked
   unsent or were marked invalid, each once, with that status -- nothing else *)
Theorem failed_exact c ops :
  let s := fst (run c init ops) in
  let t := fst (srun c sinit ops) in
  Permutation (get_failed c s) (failed_of c (snow t) (sreqs t)) /\
  (forall e, In e (get_failed c s) <-> exists r, In r (live s) /\ failed_entry c (now s) r = Some e).
Proof.
  intros s t. pose proof (reachable_rel c ops) as R. fold s t in R. split.
  - apply Permutation_sym. now apply failed_perm.
  - intros e. rewrite get_failed_live. apply failed_of_In.
Qed.

(* ---------- the two indexes agree *)
Theorem indexes_agree c ops :
  let s := fst (run c init ops) in
  (forall p i id, bp_get s p i = Some id ->
     exists r, In r (live s) /\ r_id r = id /\ r_peer r = p /\ r_piece r = i) /\
  (forall r, In r (live s) ->
     exists id', bp_get s (r_peer r) (r_piece r) = Some id' /\ r_id r <= id' /\
                 (id' = r_id r \/ pu c (now s) r = false)) /\
  NoDup (map r_id (live s)).
Proof.
  intros s. pose proof (reachable_rel c ops) as R. fold s in R. pose proof (R_inv _ _ _ R) as I.
  split; [|split].
  - intros p i id H. destruct (W4 _ _ I _ _ _ H) as [r [H1 H2]].
    rewrite deref_lreq in H1. apply find_some in H1. destruct H1 as [H1 H3]. apply N.eqb_eq in H3.
    pose proof (W2 _ _ I _ _ H1) as H4.
    exists r. split; auto. apply (live_In c); auto. now rewrite H4.
  - intros r H. apply (live_In c) in H; auto.
    destruct (W5 _ _ I _ _ H) as [id' [H1 [H2 H3]]]. exists id'. split; auto. split; auto. tauto.
  - eapply Permutation_NoDup.
    + apply Permutation_map, Permutation_sym, (live_perm _ _ _ R).
    + apply (S1 _ (R_sinv _ _ _ R)).
Qed.

(* requestQuota, with its early `break`, is the pipeline limit minus the outstanding
   requests of the peer in the complete index, clamped at 0 when the limit is positive *)
Theorem quota_exact c ops p origin :
  let s := fst (run c init ops) in
  let n := Z.of_nat (count_pu_peer c (now s) p (live s)) in
  ((0 < limit_of c origin)%Z -> quota c s p origin = Z.max 0 (limit_of c origin - n)) /\
  ((limit_of c origin <= 0)%Z -> quota c s p origin = (limit_of c origin - n)%Z).
Proof.
  intros s n. pose proof (reachable_rel c ops) as R. fold s in R.
  unfold n. rewrite count_pu_peer_cnt, (cnt_perm _ _ _ _ _ (live_perm _ _ _ R)), (R_now _ _ _ R), <- count_pu_peer_cnt.
  apply (quota_spec c s _ p origin R).
Qed.

(* ---------- soundness of the oracle *)
Lemma out_eqb_refl_sym a b : out_eqb a b = true -> out_eqb b a = true.
Proof.
  destruct a, b; cbn; auto.
  - destruct legal, legal0; auto.
  - intros H. apply mset3_eqb_perm, Permutation_sym, mset3_eqb_sound, H.
  - intros H. apply msetN_eqb_perm, Permutation_sym, msetN_eqb_sound, H.
Qed.

Theorem check_sound c ops : C15_check c ops (snd (run c init ops)) = true.
Proof. unfold C15_check. apply refines. Qed.
