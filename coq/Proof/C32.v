(* C32 — proofs about the model of the build-index tag path (Model/C32.v). *)
From Coq Require Import List NArith Bool Lia.
From K.Model Require Retry.
From K.Model Require Import C32.
Import ListNotations.
Local Open Scope N_scope.

(* ------------------------------------------------------------------ association lists *)

Lemma aget_aset_same {A} t (v : A) l : aget t (aset t v l) = Some v.
Proof. unfold aset. cbn [aget]. rewrite N.eqb_refl. reflexivity. Qed.

Lemma aget_aset_other {A} t t' (v : A) l : t' <> t -> aget t' (aset t v l) = aget t' l.
Proof.
  intros H. unfold aset. cbn [aget]. destruct (t =? t') eqn:E; [|reflexivity].
  apply N.eqb_eq in E. congruence.
Qed.

(* ------------------------------------------------------------------ the task table (K.Model.Retry) *)

Definition task_of (ts : Retry.store) (t : N) : option N :=
  match Retry.find_row t ts with Some r => Some (Retry.r_fail r) | None => None end.

Lemma snap_of_eq s t : snap_of s t = mksnap (aget t (disk s)) (aget t (bk s)) (task_of (tasks s) t).
Proof. reflexivity. Qed.

Lemma storedb_task_of ts t : Retry.storedb t ts = true <-> task_of ts t <> None.
Proof.
  unfold task_of, Retry.storedb, Retry.find_row. induction ts as [|r ts IH]; cbn [existsb find].
  - split; [discriminate|congruence].
  - destruct (Retry.r_id r =? t); cbn [orb].
    + split; [discriminate|reflexivity].
    + exact IH.
Qed.

Lemma storedb_false_task_of ts t : Retry.storedb t ts = false <-> task_of ts t = None.
Proof.
  pose proof (storedb_task_of ts t) as H. destruct (Retry.storedb t ts), (task_of ts t); split; intros K;
    try reflexivity; try discriminate.
  - exfalso. apply (proj1 H); [reflexivity|assumption].
  - exfalso. assert (X : Some n <> None) by discriminate. apply (proj2 H) in X. discriminate.
Qed.

Lemma find_row_app t a b :
  Retry.find_row t (a ++ b) = match Retry.find_row t a with Some r => Some r | None => Retry.find_row t b end.
Proof.
  unfold Retry.find_row. induction a as [|r a IH]; cbn [app find]; [reflexivity|].
  destruct (Retry.r_id r =? t); [reflexivity|exact IH].
Qed.

Lemma add_row_spec t stt d now ts :
  match Retry.add_row t stt d now ts with
  | None => task_of ts t <> None
  | Some ts' => task_of ts t = None /\ task_of ts' t = Some 0 /\ forall t', t' <> t -> task_of ts' t' = task_of ts t'
  end.
Proof.
  unfold Retry.add_row. destruct (Retry.storedb t ts) eqn:E.
  - apply storedb_task_of. assumption.
  - apply storedb_false_task_of in E. split; [assumption|].
    unfold task_of in *. split.
    + rewrite find_row_app. destruct (Retry.find_row t ts); [discriminate|].
      unfold Retry.find_row. cbn [find Retry.r_id]. rewrite N.eqb_refl. reflexivity.
    + intros t' Ht. rewrite find_row_app. destruct (Retry.find_row t' ts); [reflexivity|].
      unfold Retry.find_row. cbn [find Retry.r_id]. destruct (t =? t') eqn:E2; [|reflexivity].
      apply N.eqb_eq in E2. congruence.
Qed.

Lemma task_of_remove_same t ts : task_of (Retry.remove_row t ts) t = None.
Proof.
  unfold task_of, Retry.remove_row, Retry.find_row. induction ts as [|r ts IH]; cbn [filter find]; [reflexivity|].
  destruct (Retry.r_id r =? t) eqn:E; cbn [negb]; [exact IH|]. cbn [find]. rewrite E. exact IH.
Qed.

Lemma task_of_remove_other t t' ts : t' <> t -> task_of (Retry.remove_row t ts) t' = task_of ts t'.
Proof.
  intros Ht. unfold task_of, Retry.remove_row, Retry.find_row. induction ts as [|r ts IH]; cbn [filter find]; [reflexivity|].
  destruct (Retry.r_id r =? t) eqn:E; cbn [negb].
  - apply N.eqb_eq in E. destruct (Retry.r_id r =? t') eqn:E2; [apply N.eqb_eq in E2; congruence|exact IH].
  - cbn [find]. destruct (Retry.r_id r =? t'); [reflexivity|exact IH].
Qed.

Lemma task_of_mark_failed_same t now ts :
  task_of (Retry.mark_failed t now ts) t = match task_of ts t with Some f => Some (f + 1) | None => None end.
Proof.
  unfold task_of, Retry.mark_failed, Retry.upd, Retry.find_row. induction ts as [|r ts IH]; cbn [map find]; [reflexivity|].
  destruct (Retry.r_id r =? t) eqn:E.
  - cbn [Retry.set_failed Retry.r_id]. rewrite E. reflexivity.
  - rewrite E. exact IH.
Qed.

Lemma task_of_mark_failed_other t t' now ts : t' <> t -> task_of (Retry.mark_failed t now ts) t' = task_of ts t'.
Proof.
  intros Ht. unfold task_of, Retry.mark_failed, Retry.upd, Retry.find_row. induction ts as [|r ts IH]; cbn [map find]; [reflexivity|].
  destruct (Retry.r_id r =? t) eqn:E.
  - cbn [Retry.set_failed Retry.r_id]. apply N.eqb_eq in E.
    destruct (Retry.r_id r =? t') eqn:E2; [apply N.eqb_eq in E2; congruence|exact IH].
  - destruct (Retry.r_id r =? t'); [reflexivity|exact IH].
Qed.

(* ------------------------------------------------------------------ run *)

Lemma run_app c s a b :
  run c s (a ++ b) = let '(s1, o1) := run c s a in let '(s2, o2) := run c s1 b in (s2, o1 ++ o2).
Proof.
  revert s. induction a as [|o a IH]; intros s; cbn [app run].
  - destruct (run c s b). reflexivity.
  - destruct (step c s o) as [s1 x]. rewrite IH. destruct (run c s1 a) as [s2 xs].
    destruct (run c s2 b). reflexivity.
Qed.

Lemma run_snoc_state c s a o : fst (run c s (a ++ [o])) = fst (step c (fst (run c s a)) o).
Proof.
  rewrite run_app. destruct (run c s a) as [s1 o1]. cbn [run fst]. destruct (step c s1 o). reflexivity.
Qed.

Lemma run_app_state c s a b : fst (run c s (a ++ b)) = fst (run c (fst (run c s a)) b).
Proof.
  rewrite run_app. destruct (run c s a) as [s1 o1]. cbn [fst]. destruct (run c s1 b). reflexivity.
Qed.

Lemma run_nth c ops : forall s i o,
  nth_error ops i = Some o ->
  nth_error (snd (run c s ops)) i = Some (snd (step c (fst (run c s (firstn i ops))) o)).
Proof.
  induction ops as [|o0 ops IH]; intros s i o H.
  - destruct i; discriminate.
  - cbn [run]. destruct (step c s o0) as [s1 x] eqn:E. destruct i as [|i].
    + cbn in H. inversion H; subst. destruct (run c s1 ops). cbn. rewrite E. reflexivity.
    + cbn [nth_error] in H. specialize (IH s1 i o H). cbn [firstn run]. rewrite E.
      destruct (run c s1 ops) as [s2 xs]. destruct (run c s1 (firstn i ops)) as [s3 ys]. cbn [snd fst nth_error] in *. exact IH.
Qed.

(* invariants proved step by step hold after every history *)
Lemma run_ind (P : st -> Prop) c :
  (forall s o, P s -> P (fst (step c s o))) -> forall ops s, P s -> P (fst (run c s ops)).
Proof.
  intros H ops. induction ops as [|o ops IH]; intros s Hs; cbn [run]; [exact Hs|].
  specialize (H s o Hs). destruct (step c s o) as [s1 x]. specialize (IH s1 H).
  destruct (run c s1 ops). exact IH.
Qed.

(* ------------------------------------------------------------------ executor and tag store *)

(* what executor attempts for tag t may do to the state *)
Record exec_rel (c : cfg) (t : N) (s s1 : st) (ok : bool) : Prop := mk_er {
  er_disk : disk s1 = disk s;
  er_tasks : tasks s1 = tasks s;
  er_frame : forall t', t' <> t -> aget t' (bk s1) = aget t' (bk s);
  er_bk : aget t (bk s1) = aget t (bk s) \/ exists d, aget t (disk s) = Some d /\ aget t (bk s1) = Some (CDig d);
  er_keep : aget t (bk s) <> None -> aget t (bk s1) <> None;
  er_ok : ok = true -> c_ns c = true -> aget t (disk s) <> None -> aget t (bk s1) <> None }.

Lemma exec_rel_refl c t s : exec_rel c t s s false.
Proof. constructor; auto; discriminate. Qed.

Lemma exec_once_rel c s t a s1 ok : exec_once c s t a = (s1, ok) -> exec_rel c t s s1 ok.
Proof.
  unfold exec_once. intros H.
  destruct (c_ns c) eqn:Ns; cbn [negb] in H.
  2:{ injection H as <- <-. constructor; auto; intros; congruence. }
  destruct (negb (ea_statf a) && match aget t (bk s) with Some _ => true | None => false end) eqn:Sk.
  { injection H as <- <-. constructor; auto. intros _ _ _.
    apply andb_true_iff in Sk. destruct Sk as [_ Sk]. destruct (aget t (bk s)); [discriminate|discriminate]. }
  destruct (aget t (disk s)) as [d|] eqn:D.
  2:{ injection H as <- <-. constructor; auto; try (intros; congruence). }
  assert (W : exec_rel c t s (with_bk s (aset t (CDig d) (bk s))) true).
  { constructor; cbn [with_bk disk tasks bk]; auto.
    - intros t' Ht. apply aget_aset_other. assumption.
    - right. exists d. split; [assumption|apply aget_aset_same].
    - intros _. rewrite aget_aset_same. discriminate.
    - intros _ _ _. rewrite aget_aset_same. discriminate. }
  destruct (ea_up a); injection H as <- <-.
  - exact W.
  - constructor; auto; try discriminate.
  - destruct W. constructor; auto; try discriminate.
Qed.

Lemma exec_rel_trans c t s s1 s2 ok1 ok2 :
  exec_rel c t s s1 ok1 -> exec_rel c t s1 s2 ok2 -> exec_rel c t s s2 ok2.
Proof.
  intros [D1 T1 F1 B1 K1 O1] [D2 T2 F2 B2 K2 O2]. constructor.
  - congruence.
  - congruence.
  - intros t' Ht. rewrite F2, F1; auto.
  - destruct B2 as [B2|[d [B2a B2b]]].
    + rewrite B2. exact B1.
    + right. exists d. rewrite <- D1. auto.
  - auto.
  - intros A B C. apply O2; auto. rewrite D1. assumption.
Qed.

Lemma sync_exec_rel c t ex : forall s s1 ok, sync_exec c s t ex = (s1, ok) -> exec_rel c t s s1 ok.
Proof.
  induction ex as [|a ex IH]; intros s s1 ok H; cbn [sync_exec] in H.
  - injection H as <- <-. apply exec_rel_refl.
  - destruct (exec_once c s t a) as [s0 ok0] eqn:E. apply exec_once_rel in E. destruct ok0.
    + injection H as <- <-. exact E.
    + eapply exec_rel_trans; [exact E|]. apply IH. exact H.
Qed.

Lemma disk_add_same t d s :
  aget t (disk (disk_add t d s)) = match aget t (disk s) with Some x => Some x | None => Some d end.
Proof.
  unfold disk_add. destruct (aget t (disk s)) eqn:E; [exact E|]. cbn [with_disk disk]. apply aget_aset_same.
Qed.

Lemma disk_add_other t d s t' : t' <> t -> aget t' (disk (disk_add t d s)) = aget t' (disk s).
Proof.
  intros H. unfold disk_add. destruct (aget t (disk s)); [reflexivity|]. cbn [with_disk disk]. apply aget_aset_other. assumption.
Qed.

Lemma disk_add_rest t d s : bk (disk_add t d s) = bk s /\ tasks (disk_add t d s) = tasks s.
Proof. unfold disk_add. destruct (aget t (disk s)); split; reflexivity. Qed.

(* what store.Put of (t, d) may do *)
Record put_rel (c : cfg) (t d : N) (s s1 : st) (ok : bool) : Prop := mk_pr {
  pr_fdisk : forall t', t' <> t -> aget t' (disk s1) = aget t' (disk s);
  pr_fbk : forall t', t' <> t -> aget t' (bk s1) = aget t' (bk s);
  pr_ftask : forall t', t' <> t -> task_of (tasks s1) t' = task_of (tasks s) t';
  pr_disk : aget t (disk s1) = aget t (disk s) \/ (aget t (disk s) = None /\ aget t (disk s1) = Some d);
  pr_disk_ok : ok = true -> aget t (disk s1) <> None;
  pr_bk : aget t (bk s1) = aget t (bk s) \/ exists d', aget t (disk s1) = Some d' /\ aget t (bk s1) = Some (CDig d');
  pr_bk_keep : aget t (bk s) <> None -> aget t (bk s1) <> None;
  pr_wt : c_mode c = WriteThrough ->
          tasks s1 = tasks s /\ (ok = true -> c_ns c = true -> aget t (bk s1) <> None);
  pr_async : c_mode c = Async -> bk s1 = bk s /\ (ok = true -> task_of (tasks s1) t <> None);
  pr_task_keep : task_of (tasks s) t <> None -> task_of (tasks s1) t = task_of (tasks s) t;
  pr_task_new : task_of (tasks s1) t <> None -> task_of (tasks s) t <> None \/ aget t (disk s1) <> None }.

Lemma store_put_rel c s t d dl f ex s1 ok : store_put c s t d dl f ex = (s1, ok) -> put_rel c t d s s1 ok.
Proof.
  unfold store_put. intros H.
  assert (R0 : put_rel c t d s s false).
  { constructor.
    - reflexivity.
    - reflexivity.
    - reflexivity.
    - left. reflexivity.
    - discriminate.
    - left. reflexivity.
    - auto.
    - intros _. split; [reflexivity|discriminate].
    - intros _. split; [reflexivity|discriminate].
    - reflexivity.
    - auto. }
  destruct (disk_add_rest t d s) as [Bk Ts].
  assert (Dk : aget t (disk (disk_add t d s)) = aget t (disk s) \/
               (aget t (disk s) = None /\ aget t (disk (disk_add t d s)) = Some d)).
  { rewrite disk_add_same. destruct (aget t (disk s)); auto. }
  assert (Dn : aget t (disk (disk_add t d s)) <> None).
  { rewrite disk_add_same. destruct (aget t (disk s)); discriminate. }
  assert (Do : forall t', t' <> t -> aget t' (disk (disk_add t d s)) = aget t' (disk s)).
  { intros t' Ht. apply disk_add_other. assumption. }
  assert (R1 : put_rel c t d s (disk_add t d s) false).
  { constructor.
    - exact Do.
    - rewrite Bk. reflexivity.
    - rewrite Ts. reflexivity.
    - exact Dk.
    - discriminate.
    - left. rewrite Bk. reflexivity.
    - rewrite Bk. auto.
    - intros _. split; [exact Ts|discriminate].
    - intros _. split; [exact Bk|discriminate].
    - rewrite Ts. reflexivity.
    - rewrite Ts. auto. }
  destruct f.
  - (* F0 *)
    destruct (c_mode c) eqn:M.
    + apply sync_exec_rel in H. destruct H as [D1 T1 F1 B1 K1 O1]. constructor.
      * intros t' Ht. rewrite D1. apply Do. assumption.
      * intros t' Ht. rewrite F1, Bk; auto.
      * rewrite T1, Ts. reflexivity.
      * rewrite D1. exact Dk.
      * intros _. rewrite D1. exact Dn.
      * rewrite D1, <- Bk. exact B1.
      * rewrite <- Bk. exact K1.
      * intros _. split; [congruence|]. intros A B. apply O1; assumption.
      * intros K; congruence.
      * rewrite T1, Ts. reflexivity.
      * intros _. right. rewrite D1. exact Dn.
    + pose proof (add_row_spec t (if dl then Retry.Failed else Retry.Pending) (if dl then 1 else 0) 0 (tasks (disk_add t d s))) as AR.
      destruct (Retry.add_row t _ _ 0 (tasks (disk_add t d s))) as [ts|]; injection H as <- <-.
      * destruct AR as [A0 [A1 A2]]. rewrite Ts in *.
        constructor; cbn [with_tasks disk bk tasks].
        -- exact Do.
        -- rewrite Bk. reflexivity.
        -- exact A2.
        -- exact Dk.
        -- intros _. exact Dn.
        -- left. rewrite Bk. reflexivity.
        -- rewrite Bk. auto.
        -- intros K; congruence.
        -- intros _. split; [exact Bk|]. intros _. rewrite A1. discriminate.
        -- intros K. congruence.
        -- intros _. right. exact Dn.
      * rewrite Ts in AR. constructor.
        -- exact Do.
        -- rewrite Bk. reflexivity.
        -- rewrite Ts. reflexivity.
        -- exact Dk.
        -- intros _. exact Dn.
        -- left. rewrite Bk. reflexivity.
        -- rewrite Bk. auto.
        -- intros K; congruence.
        -- intros _. split; [exact Bk|]. intros _. rewrite Ts. exact AR.
        -- rewrite Ts. reflexivity.
        -- intros _. right. exact Dn.
  - injection H as <- <-. exact R0.
  - injection H as <- <-. exact R1.
Qed.

(* consequences used below *)
Lemma put_rel_disk_mono c t d s s1 ok t' d0 :
  put_rel c t d s s1 ok -> aget t' (disk s) = Some d0 -> aget t' (disk s1) = Some d0.
Proof.
  intros R H. destruct (N.eq_dec t' t) as [->|Ht].
  - destruct (pr_disk _ _ _ _ _ _ R) as [E|[E _]]; congruence.
  - rewrite (pr_fdisk _ _ _ _ _ _ R); assumption.
Qed.

(* ------------------------------------------------------------------ normal forms of step *)

Lemma step_put c s p :
  step c s (Put p) =
  if passed p
  then let '(s1, ok) := store_put c s (p_tag p) (p_dig p) false (p_fs p) (p_ex p) in
       fin s1 (p_tag p)
           (if ok then if p_rep p && negb (p_repok p) then RFail else ROk else RFail) None
           (if ok then [p_dig p] else [])
           (if ok && p_rep p && p_repok p then [p_dig p] else [])
  else fin s (p_tag p) RFail None [] [].
Proof.
  unfold step, passed. destruct (p_res p); cbn [negb andb]; [|reflexivity].
  destruct (deps_ok (p_deps p)); cbn [negb]; [|reflexivity].
  destruct (store_put c s (p_tag p) (p_dig p) false (p_fs p) (p_ex p)) as [s1 [|]]; cbn [negb andb]; [|reflexivity].
  destruct (p_rep p), (p_repok p); reflexivity.
Qed.

Lemma step_exec c s t a :
  step c s (Exec t a) =
  if Retry.storedb t (tasks s)
  then let '(s1, ok) := exec_once c s t a in
       fin (with_tasks s1 (if ok then Retry.remove_row t (tasks s1) else Retry.mark_failed t 0 (tasks s1))) t
           (if ok then ROk else RFail) None [] []
  else fin s t RIllegal None [] [].
Proof.
  unfold step. destruct (Retry.storedb t (tasks s)); [|reflexivity].
  destruct (exec_once c s t a) as [s1 [|]]; reflexivity.
Qed.

Definition reads (o : op) : bool :=
  match o with Get _ _ | Has _ _ | Repl _ _ _ _ | Bad _ _ => true | _ => false end.

Lemma step_reads c s o : reads o = true -> fst (step c s o) = s.
Proof.
  destruct o; cbn [reads]; try discriminate; intros _; unfold step.
  - destruct (store_get c s t f). reflexivity.
  - destruct (negb (c_ns c)); [reflexivity|]. destruct f; [reflexivity|]. destruct (aget t (bk s)); reflexivity.
  - destruct (store_get c s t f) as [[] [d|]]; try reflexivity.
    destruct (negb r); [reflexivity|]. destruct ok; reflexivity.
  - reflexivity.
Qed.

Lemma fin_fst s t r d nb rep : fst (fin s t r d nb rep) = s.
Proof. reflexivity. Qed.

(* every step's output carries the snapshot of the state it leads to *)
Lemma step_snap c s o : o_snap (snd (step c s o)) = snap_of (fst (step c s o)) (op_tag o).
Proof.
  destruct o; cbn [op_tag].
  - rewrite step_put. destruct (passed p); [|reflexivity]. destruct (store_put c s _ _ false _ _). reflexivity.
  - unfold step. destruct (store_put c s t d delayed f ex). reflexivity.
  - unfold step. destruct (store_get c s t f). reflexivity.
  - unfold step. destruct (negb (c_ns c)); [reflexivity|]. destruct f; [reflexivity|]. destruct (aget t (bk s)); reflexivity.
  - unfold step. destruct (store_get c s t f) as [[] [d|]]; try reflexivity.
    destruct (negb r); [reflexivity|]. destruct ok; reflexivity.
  - rewrite step_exec. destruct (Retry.storedb t (tasks s)); [|reflexivity]. destruct (exec_once c s t a). reflexivity.
  - reflexivity.
  - reflexivity.
Qed.

(* ------------------------------------------------------------------ effect of one step on one tag *)

(* the operation writes digest d for tag t to the node's disk if the tag is not there yet *)
Definition writes (o : op) (t d : N) : Prop :=
  match o with
  | Put p => p_tag p = t /\ p_dig p = d /\ p_res p = true /\ deps_ok (p_deps p) = true
  | DupPut t' d' _ _ _ => t' = t /\ d' = d
  | _ => False
  end.

Record step_rel (c : cfg) (o : op) (s s1 : st) : Prop := mk_sr {
  (* other tags are untouched *)
  sr_frame : forall t, t <> op_tag o ->
      aget t (disk s1) = aget t (disk s) /\ aget t (bk s1) = aget t (bk s) /\ task_of (tasks s1) t = task_of (tasks s) t;
  (* the disk: first writer wins, nothing is ever replaced *)
  sr_disk : forall t, aget t (disk s1) = aget t (disk s) \/
                      (aget t (disk s) = None /\ exists d, aget t (disk s1) = Some d /\ writes o t d);
  (* the backend: only the environment or an upload of the tag's cache file changes an object *)
  sr_bk : forall t, is_bkset o t = false ->
      aget t (bk s1) = aget t (bk s) \/ exists d, aget t (disk s1) = Some d /\ aget t (bk s1) = Some (CDig d);
  sr_bk_keep : forall t, aget t (bk s) <> None -> aget t (bk s1) <> None;
  (* the task table: a task leaves only when its execution succeeded with the object in the backend *)
  sr_task : forall t, task_of (tasks s) t <> None ->
      task_of (tasks s1) t <> None \/ (c_ns c = true -> aget t (disk s) <> None -> aget t (bk s1) <> None);
  sr_task_new : forall t, task_of (tasks s1) t <> None -> task_of (tasks s) t <> None \/ aget t (disk s1) <> None }.

Lemma step_rel_id c o s : step_rel c o s s.
Proof. constructor; auto. Qed.

Lemma put_rel_step_rel c o t d s s1 ok :
  op_tag o = t -> (aget t (disk s) = None -> writes o t d) -> (forall t', is_bkset o t' = false) ->
  put_rel c t d s s1 ok -> step_rel c o s s1.
Proof.
  intros Ho Hw Hb R. destruct R. constructor.
  - intros t' Ht. rewrite Ho in Ht. auto.
  - intros t'. destruct (N.eq_dec t' t) as [->|Ht]; [|left; auto].
    destruct pr_disk0 as [E|[E1 E2]]; [left; assumption|]. right. split; [assumption|]. exists d. auto.
  - intros t' _. destruct (N.eq_dec t' t) as [->|Ht]; [assumption|left; auto].
  - intros t'. destruct (N.eq_dec t' t) as [->|Ht]; [assumption|]. rewrite pr_fbk0; auto.
  - intros t' K. left. destruct (N.eq_dec t' t) as [->|Ht].
    + rewrite pr_task_keep0; assumption.
    + rewrite pr_ftask0; assumption.
  - intros t'. destruct (N.eq_dec t' t) as [->|Ht]; [assumption|]. rewrite pr_ftask0; auto.
Qed.

Lemma step_step_rel c s o : step_rel c o s (fst (step c s o)).
Proof.
  destruct o.
  - (* Put *)
    rewrite step_put. destruct (passed p) eqn:P; [|apply step_rel_id].
    destruct (store_put c s (p_tag p) (p_dig p) false (p_fs p) (p_ex p)) as [s1 ok] eqn:E. cbn [fin fst].
    apply store_put_rel in E. eapply put_rel_step_rel; [reflexivity| |reflexivity|exact E].
    intros _. unfold passed in P. apply andb_true_iff in P. cbn [writes]. tauto.
  - (* DupPut *)
    unfold step. destruct (store_put c s t d delayed f ex) as [s1 ok] eqn:E. cbn [fin fst].
    apply store_put_rel in E. eapply put_rel_step_rel; [reflexivity| |reflexivity|exact E].
    intros _. cbn [writes]. auto.
  - rewrite step_reads by reflexivity. apply step_rel_id.
  - rewrite step_reads by reflexivity. apply step_rel_id.
  - rewrite step_reads by reflexivity. apply step_rel_id.
  - (* Exec *)
    rewrite step_exec. destruct (Retry.storedb t (tasks s)) eqn:St; [|apply step_rel_id].
    destruct (exec_once c s t a) as [s1 ok] eqn:E. cbn [fin fst]. apply exec_once_rel in E.
    destruct E as [D1 T1 F1 B1 K1 O1]. constructor; cbn [with_tasks disk bk tasks op_tag].
    + intros t' Ht. rewrite D1, T1. split; [reflexivity|]. split; [auto|].
      destruct ok; [apply task_of_remove_other|apply task_of_mark_failed_other]; assumption.
    + intros t'. left. rewrite D1. reflexivity.
    + intros t' _. destruct (N.eq_dec t' t) as [->|Ht]; [|left; auto].
      rewrite D1. exact B1.
    + intros t'. destruct (N.eq_dec t' t) as [->|Ht]; [assumption|]. rewrite F1; auto.
    + intros t' K. rewrite T1. destruct (N.eq_dec t' t) as [->|Ht].
      * destruct ok.
        -- right. intros A B. apply O1; auto.
        -- left. rewrite task_of_mark_failed_same. destruct (task_of (tasks s) t); [discriminate|assumption].
      * left. destruct ok; [rewrite task_of_remove_other|rewrite task_of_mark_failed_other]; assumption.
    + intros t'. rewrite T1. destruct (N.eq_dec t' t) as [->|Ht].
      * destruct ok.
        -- rewrite task_of_remove_same. intros K. congruence.
        -- rewrite task_of_mark_failed_same. intros K. left. destruct (task_of (tasks s) t); [discriminate|congruence].
      * destruct ok; [rewrite task_of_remove_other|rewrite task_of_mark_failed_other]; auto.
  - (* BkSet *)
    cbn [step fin fst]. constructor; cbn [with_bk disk bk tasks op_tag is_bkset]; auto.
    + intros t' Ht. split; [reflexivity|]. split; [apply aget_aset_other; assumption|reflexivity].
    + intros t' Ht. left. apply aget_aset_other. intros ->. rewrite N.eqb_refl in Ht. discriminate.
    + intros t'. destruct (N.eq_dec t' t) as [->|Ht]; [rewrite aget_aset_same; discriminate|].
      rewrite aget_aset_other; auto.
  - rewrite step_reads by reflexivity. apply step_rel_id.
Qed.

(* ------------------------------------------------------------------ clause 1: dependency check *)

Lemma put_res c s p :
  o_res (snd (step c s (Put p))) = ROk ->
  passed p = true /\ snd (store_put c s (p_tag p) (p_dig p) false (p_fs p) (p_ex p)) = true.
Proof.
  rewrite step_put. destruct (passed p); [|cbn; discriminate].
  destruct (store_put c s (p_tag p) (p_dig p) false (p_fs p) (p_ex p)) as [s1 [|]]; cbn; [auto|discriminate].
Qed.

Lemma deps_ok_all l : deps_ok l = true <-> forall a, In a l -> a = AFound.
Proof.
  unfold deps_ok. rewrite forallb_forall. split; intros H a Ha; specialize (H a Ha).
  - destruct a; [reflexivity|discriminate|discriminate].
  - subst. reflexivity.
Qed.

(* a PUT answers 200 only if the resolver produced the dependencies and the origin cluster
   confirmed every one of them *)
Lemma put_requires_deps_step c s p :
  o_res (snd (step c s (Put p))) = ROk -> p_res p = true /\ forall a, In a (p_deps p) -> a = AFound.
Proof.
  intros H. apply put_res in H. destruct H as [H _]. unfold passed in H. apply andb_true_iff in H.
  destruct H as [H1 H2]. split; [assumption|]. apply deps_ok_all. assumption.
Qed.

Theorem put_requires_deps c ops i p o :
  nth_error ops i = Some (Put p) -> nth_error (snd (run c init ops)) i = Some o -> o_res o = ROk ->
  p_res p = true /\ forall a, In a (p_deps p) -> a = AFound.
Proof.
  intros H1 H2 H3. rewrite (run_nth c ops init i _ H1) in H2. injection H2 as <-.
  eapply put_requires_deps_step. exact H3.
Qed.

(* ... and a PUT whose check failed leaves no trace: nothing on disk, nothing written back,
   no neighbour told, no replication *)
Theorem failed_check_no_effect c s p :
  passed p = false -> step c s (Put p) = (s, mkout RFail None [] [] (snap_of s (p_tag p))).
Proof. intros H. rewrite step_put, H. reflexivity. Qed.

(* ------------------------------------------------------------------ clause 2: stable resolution *)

Lemma disk_mono_step c s o t d : aget t (disk s) = Some d -> aget t (disk (fst (step c s o))) = Some d.
Proof.
  intros H. destruct (sr_disk _ _ _ _ (step_step_rel c s o) t) as [E|[E _]]; congruence.
Qed.

Lemma disk_mono_run c ops s t d : aget t (disk s) = Some d -> aget t (disk (fst (run c s ops))) = Some d.
Proof. apply (run_ind (fun s => aget t (disk s) = Some d)). intros s0 o. apply disk_mono_step. Qed.

Definition put_for (t d : N) (ops : list op) : Prop := exists o, In o ops /\ writes o t d.

Lemma disk_origin c ops t d : aget t (disk (fst (run c init ops))) = Some d -> put_for t d ops.
Proof.
  induction ops as [|o ops IH] using rev_ind.
  - cbn. discriminate.
  - rewrite run_snoc_state. intros H.
    destruct (sr_disk _ _ _ _ (step_step_rel c (fst (run c init ops)) o) t) as [E|[_ [d' [E W]]]].
    + rewrite E in H. destruct (IH H) as [o' [I W]]. exists o'. split; [apply in_or_app; left; assumption|assumption].
    + rewrite E in H. injection H as ->. exists o. split; [apply in_or_app; right; left; reflexivity|assumption].
Qed.

Lemma writes_b o t d : writes o t d <-> writesb o t d = true.
Proof.
  destruct o; cbn [writes writesb]; try (split; [contradiction|discriminate]).
  - unfold passed. rewrite !andb_true_iff, !N.eqb_eq. tauto.
  - rewrite andb_true_iff, !N.eqb_eq. tauto.
Qed.

Lemma put_for_b t d ops : put_for t d ops <-> put_forb t d ops = true.
Proof.
  unfold put_for, put_forb. rewrite existsb_exists. split; intros [o [I W]]; exists o; (split; [exact I|]); apply writes_b; exact W.
Qed.

Lemma get_of_disk c s t f d :
  aget t (disk s) = Some d -> snd (step c s (Get t f)) = mkout ROk (Some d) [] [] (snap_of s t).
Proof. intros H. unfold step, store_get. rewrite H. reflexivity. Qed.

Lemma repl_of_disk c s t f r ok d :
  aget t (disk s) = Some d -> o_rep (snd (step c s (Repl t f r ok))) = [] \/ o_rep (snd (step c s (Repl t f r ok))) = [d].
Proof. intros H. unfold step, store_get. rewrite H. destruct r, ok; cbn; auto. Qed.

Lemma put_ok_disk c s p :
  o_res (snd (step c s (Put p))) = ROk -> aget (p_tag p) (disk (fst (step c s (Put p)))) <> None.
Proof.
  intros H. destruct (put_res _ _ _ H) as [P K]. rewrite step_put, P.
  destruct (store_put c s (p_tag p) (p_dig p) false (p_fs p) (p_ex p)) as [s1 ok] eqn:E. cbn [snd] in K. subst ok.
  cbn [fin fst]. apply store_put_rel in E. apply (pr_disk_ok _ _ _ _ _ _ E). reflexivity.
Qed.

(* After a PUT has answered 200 the node resolves the tag to one digest d, which was put for
   the tag (by a PUT that passed the dependency check, or by a neighbour's duplicate put), and in
   every continuation — whatever is put afterwards, whatever the backend does — the disk holds d
   and every GET answers d *)
Theorem stable c ops1 p :
  let s1 := fst (run c init ops1) in
  o_res (snd (step c s1 (Put p))) = ROk ->
  exists d, put_forb (p_tag p) d (ops1 ++ [Put p]) = true /\
    forall ops2,
      aget (p_tag p) (disk (fst (run c (fst (step c s1 (Put p))) ops2))) = Some d /\
      forall i f, nth_error ops2 i = Some (Get (p_tag p) f) ->
        exists o, nth_error (snd (run c (fst (step c s1 (Put p))) ops2)) i = Some o /\
                  o_res o = ROk /\ o_dig o = Some d.
Proof.
  intros s1 H. pose proof (put_ok_disk _ _ _ H) as D.
  destruct (aget (p_tag p) (disk (fst (step c s1 (Put p))))) as [d|] eqn:E; [clear D|congruence].
  exists d. split.
  - apply put_for_b. apply (disk_origin c). rewrite run_snoc_state. exact E.
  - intros ops2. split; [apply disk_mono_run; exact E|].
    intros i f Hi. eexists. split; [apply run_nth; exact Hi|].
    rewrite (get_of_disk c _ _ f d); [split; reflexivity|]. apply disk_mono_run. exact E.
Qed.

(* tags do not change once stored on a node: no operation replaces a digest on disk; in
   particular a re-put of another digest leaves the first one *)
Theorem tags_do_not_change c s o t d :
  aget t (disk s) = Some d -> aget t (disk (fst (step c s o))) = Some d.
Proof. apply disk_mono_step. Qed.

(* ------------------------------------------------------------------ clause 3: the backend *)

Definition bk_consistent (s : st) (t : N) : Prop :=
  forall b, aget t (bk s) = Some b -> exists d, aget t (disk s) = Some d /\ b = CDig d.

Lemma bk_consistent_step c s o t :
  is_bkset o t = false -> bk_consistent s t -> bk_consistent (fst (step c s o)) t.
Proof.
  intros Hb Hc b Hs. pose proof (step_step_rel c s o) as R.
  destruct (sr_bk _ _ _ _ R t Hb) as [E|[d [E1 E2]]].
  - rewrite E in Hs. destruct (Hc b Hs) as [d [D ->]]. exists d. split; [|reflexivity]. apply disk_mono_step. assumption.
  - exists d. split; [assumption|congruence].
Qed.

Lemma bk_consistent_run c t ops : forall s,
  bkset_free t ops = true -> bk_consistent s t -> bk_consistent (fst (run c s ops)) t.
Proof.
  induction ops as [|o ops IH]; intros s F H; cbn [run]; [exact H|].
  cbn [bkset_free forallb] in F. apply andb_true_iff in F. destruct F as [F1 F2].
  apply negb_true_iff in F1. pose proof (bk_consistent_step c s o t F1 H) as H1.
  destruct (step c s o) as [s1 x]. specialize (IH s1 F2 H1). destruct (run c s1 ops). exact IH.
Qed.

Lemma bk_consistent_init t : bk_consistent init t.
Proof. intros b H. cbn in H. discriminate. Qed.

Lemma bkset_free_app t a b : bkset_free t (a ++ b) = bkset_free t a && bkset_free t b.
Proof. apply forallb_app. Qed.

Lemma bk_keep_run c t ops s : aget t (bk s) <> None -> aget t (bk (fst (run c s ops))) <> None.
Proof.
  apply (run_ind (fun s => aget t (bk s) <> None)). intros s0 o. apply (sr_bk_keep _ _ _ _ (step_step_rel c s0 o)).
Qed.

Lemma put_ok_wt c s p :
  c_mode c = WriteThrough -> c_ns c = true -> o_res (snd (step c s (Put p))) = ROk ->
  aget (p_tag p) (bk (fst (step c s (Put p)))) <> None.
Proof.
  intros M Ns H. destruct (put_res _ _ _ H) as [P K]. rewrite step_put, P.
  destruct (store_put c s (p_tag p) (p_dig p) false (p_fs p) (p_ex p)) as [s1 ok] eqn:E. cbn [snd] in K. subst ok.
  cbn [fin fst]. apply store_put_rel in E. destruct (pr_wt _ _ _ _ _ _ E M) as [_ W]. apply W; auto.
Qed.

Lemma put_ok_async c s p :
  c_mode c = Async -> o_res (snd (step c s (Put p))) = ROk ->
  task_of (tasks (fst (step c s (Put p)))) (p_tag p) <> None.
Proof.
  intros M H. destruct (put_res _ _ _ H) as [P K]. rewrite step_put, P.
  destruct (store_put c s (p_tag p) (p_dig p) false (p_fs p) (p_ex p)) as [s1 ok] eqn:E. cbn [snd] in K. subst ok.
  cbn [fin fst]. apply store_put_rel in E. destruct (pr_async _ _ _ _ _ _ E M) as [_ W]. apply W; auto.
Qed.

(* a state in which tag t is on disk as d, its backend object was written only by this node *)
Lemma consistent_value s t d b :
  bk_consistent s t -> aget t (disk s) = Some d -> aget t (bk s) = Some b -> b = CDig d.
Proof. intros C D B. destruct (C b B) as [d' [D' ->]]. congruence. Qed.

Lemma opt_not_none {A} (x : option A) : x <> None -> exists v, x = Some v.
Proof. destruct x; [eauto|congruence]. Qed.

(* Write-through mode: when the PUT answers 200 the backend already holds the digest the node
   resolves the tag to, and keeps it — provided a backend is configured for the tag and nobody
   else wrote the tag's backend object (see preexisting_backend_refuted) *)
Theorem backend_write_through c ops1 p :
  c_mode c = WriteThrough -> c_ns c = true -> bkset_free (p_tag p) ops1 = true ->
  let s1 := fst (run c init ops1) in
  let s2 := fst (step c s1 (Put p)) in
  o_res (snd (step c s1 (Put p))) = ROk ->
  exists d, aget (p_tag p) (disk s2) = Some d /\ aget (p_tag p) (bk s2) = Some (CDig d) /\
    forall ops2, bkset_free (p_tag p) ops2 = true ->
      aget (p_tag p) (bk (fst (run c s2 ops2))) = Some (CDig d).
Proof.
  intros M Ns F s1 s2 H.
  destruct (opt_not_none _ (put_ok_disk _ _ _ H)) as [d D]. fold s2 in D.
  assert (C2 : bk_consistent s2 (p_tag p)).
  { unfold s2. apply bk_consistent_step; [reflexivity|]. unfold s1. apply bk_consistent_run; [exact F|apply bk_consistent_init]. }
  destruct (opt_not_none _ (put_ok_wt _ _ _ M Ns H)) as [b B]. fold s2 in B.
  exists d. split; [exact D|]. split.
  - rewrite B. f_equal. eapply consistent_value; eassumption.
  - intros ops2 F2.
    assert (K : aget (p_tag p) (bk s2) <> None) by congruence.
    destruct (opt_not_none _ (bk_keep_run c (p_tag p) ops2 s2 K)) as [b' B'].
    rewrite B'. f_equal. eapply consistent_value; [apply bk_consistent_run; [exact F2|exact C2]| |exact B'].
    apply disk_mono_run. exact D.
Qed.

(* Asynchronous mode.  After the PUT answered 200: (a) in every continuation the write-back task
   of the tag stays stored until the backend holds the digest the node resolves the tag to;
   (b) whenever an execution of the task succeeds the backend holds that digest; (c) an execution
   is always possible and succeeds when the backend answers; (d) once there it stays.
   Partial: that the retry manager does execute a stored task again and again until it
   succeeds is C30 (K.Proof.Retry: no_lost_task, progress_possible), and that the backend
   eventually answers is an assumption about the environment. *)
Theorem backend_async_partial c ops1 p :
  c_mode c = Async -> c_ns c = true -> bkset_free (p_tag p) ops1 = true ->
  let t := p_tag p in
  let s1 := fst (run c init ops1) in
  let s2 := fst (step c s1 (Put p)) in
  o_res (snd (step c s1 (Put p))) = ROk ->
  exists d, aget t (disk s2) = Some d /\
    forall ops2, bkset_free t ops2 = true ->
      let s3 := fst (run c s2 ops2) in
      (Retry.storedb t (tasks s3) = true \/ aget t (bk s3) = Some (CDig d)) /\
      (forall a, o_res (snd (step c s3 (Exec t a))) = ROk ->
                 aget t (bk (fst (step c s3 (Exec t a)))) = Some (CDig d)) /\
      (Retry.storedb t (tasks s3) = true -> o_res (snd (step c s3 (Exec t (mkea false UOk)))) = ROk) /\
      (aget t (bk s3) = Some (CDig d) ->
       forall ops3, bkset_free t ops3 = true -> aget t (bk (fst (run c s3 ops3))) = Some (CDig d)).
Proof.
  intros M Ns F t s1 s2 H.
  destruct (opt_not_none _ (put_ok_disk _ _ _ H)) as [d D]. fold s2 t in D.
  assert (C2 : bk_consistent s2 t).
  { unfold s2. apply bk_consistent_step; [reflexivity|]. unfold s1. apply bk_consistent_run; [exact F|apply bk_consistent_init]. }
  pose proof (put_ok_async _ _ _ M H) as T2. fold s2 t in T2.
  exists d. split; [exact D|]. intros ops2 F2 s3.
  assert (D3 : aget t (disk s3) = Some d) by (apply disk_mono_run; exact D).
  assert (C3 : bk_consistent s3 t) by (apply bk_consistent_run; [exact F2|exact C2]).
  assert (keep : forall s ops, bkset_free t ops = true -> bk_consistent s t -> aget t (disk s) = Some d ->
                 aget t (bk s) <> None -> aget t (bk (fst (run c s ops))) = Some (CDig d)).
  { intros s ops Fo Cs Ds Bs. destruct (opt_not_none _ (bk_keep_run c t ops s Bs)) as [b B]. rewrite B. f_equal.
    eapply consistent_value; [apply bk_consistent_run; [exact Fo|exact Cs]| |exact B]. apply disk_mono_run. exact Ds. }
  split; [|split; [|split]].
  - (* never lost *)
    assert (P : task_of (tasks s3) t <> None \/ aget t (bk s3) <> None).
    { unfold s3. apply (run_ind (fun s => aget t (disk s) <> None /\ (task_of (tasks s) t <> None \/ aget t (bk s) <> None))).
      - intros s o [Hd [Ht|Hb]].
        + split; [destruct (opt_not_none _ Hd) as [d0 D0]; rewrite (disk_mono_step c s o t d0 D0); discriminate|].
          destruct (sr_task _ _ _ _ (step_step_rel c s o) t Ht) as [K|K]; [left; exact K|right; apply K; assumption].
        + split; [destruct (opt_not_none _ Hd) as [d0 D0]; rewrite (disk_mono_step c s o t d0 D0); discriminate|].
          right. apply (sr_bk_keep _ _ _ _ (step_step_rel c s o)). exact Hb.
      - split; [congruence|left; exact T2]. }
    destruct P as [P|P]; [left; apply storedb_task_of; exact P|right].
    destruct (opt_not_none _ P) as [b B]. rewrite B. f_equal. eapply consistent_value; eassumption.
  - (* a successful execution writes it *)
    intros a Ha. rewrite step_exec in Ha |- *. destruct (Retry.storedb t (tasks s3)); [|cbn in Ha; discriminate].
    destruct (exec_once c s3 t a) as [s4 ok] eqn:E. destruct ok; [|cbn in Ha; discriminate].
    cbn [fin fst with_tasks bk]. apply exec_once_rel in E.
    assert (B4 : aget t (bk s4) <> None) by (apply (er_ok _ _ _ _ _ E); congruence).
    destruct (opt_not_none _ B4) as [b B]. rewrite B. f_equal.
    destruct (er_bk _ _ _ _ _ E) as [K|[d' [K1 K2]]].
    + rewrite K in B. eapply consistent_value; eassumption.
    + congruence.
  - (* progress *)
    intros St. rewrite step_exec, St. unfold exec_once. rewrite Ns. cbn [negb ea_statf ea_up andb].
    destruct (aget t (bk s3)); [reflexivity|]. rewrite D3. reflexivity.
  - intros B3 ops3 F3. apply keep; auto. congruence.
Qed.

(* ------------------------------------------------------------------ the oracle is sound on the model *)

(* what the oracle's bookkeeping x for one tag knows about that tag's snapshot sn *)
Record TI (c : cfg) (sn : snap) (x : tagk) : Prop := mk_ti {
  ti_succ : k_succ x = true -> sn_disk sn <> None;
  ti_puts : forall d, sn_disk sn = Some d -> memb d (k_puts x) = true;
  ti_fix : forall w, k_fix x = Some w -> sn_disk sn = Some w;
  ti_env : k_env x = false -> forall b, sn_bk sn = Some b -> exists d, sn_disk sn = Some d /\ b = CDig d;
  ti_pend : c_ns c = true -> k_succ x = true -> sn_bk sn <> None \/ sn_task sn <> None;
  ti_task : sn_task sn <> None -> sn_disk sn <> None }.

(* what one step may do to the snapshot of its tag; wd = the digest it may write to disk,
   envw = it is the environment writing the backend *)
Record LT (c : cfg) (sn sn' : snap) (wd : option N) (envw : bool) : Prop := mk_lt {
  lt_disk : sn_disk sn' = sn_disk sn \/ (sn_disk sn = None /\ exists d, sn_disk sn' = Some d /\ wd = Some d);
  lt_bk : envw = false -> sn_bk sn' = sn_bk sn \/ exists d, sn_disk sn' = Some d /\ sn_bk sn' = Some (CDig d);
  lt_bk_keep : sn_bk sn <> None -> sn_bk sn' <> None;
  lt_task : sn_task sn <> None ->
            sn_task sn' <> None \/ (c_ns c = true -> sn_disk sn <> None -> sn_bk sn' <> None);
  lt_task_new : sn_task sn' <> None -> sn_task sn <> None \/ sn_disk sn' <> None }.

Lemma LT_refl c sn wd envw : LT c sn sn wd envw.
Proof. constructor; auto. Qed.

Definition op_wd (o : op) : option N :=
  match o with
  | Put p => if passed p then Some (p_dig p) else None
  | DupPut _ d _ _ _ => Some d
  | _ => None
  end.

Lemma step_LT c s o :
  LT c (snap_of s (op_tag o)) (snap_of (fst (step c s o)) (op_tag o)) (op_wd o) (is_bkset o (op_tag o)).
Proof.
  pose proof (step_step_rel c s o) as R. set (t := op_tag o). rewrite !snap_of_eq.
  constructor; cbn [sn_disk sn_bk sn_task].
  - destruct (sr_disk _ _ _ _ R t) as [E|[E [d [E1 W]]]]; [left; exact E|right]. split; [exact E|]. exists d. split; [exact E1|].
    destruct o; cbn [writes] in W; try contradiction; cbn [op_wd].
    + destruct W as [_ [<- [W1 W2]]]. unfold passed. rewrite W1, W2. reflexivity.
    + destruct W as [_ <-]. reflexivity.
  - intros E. apply (sr_bk _ _ _ _ R t E).
  - apply (sr_bk_keep _ _ _ _ R t).
  - apply (sr_task _ _ _ _ R t).
  - apply (sr_task_new _ _ _ _ R t).
Qed.

Lemma memb_cons d x l : memb d (x :: l) = (x =? d) || memb d l.
Proof. unfold memb. cbn [existsb]. rewrite (N.eqb_sym d x). reflexivity. Qed.

Lemma memb_here d l : memb d (d :: l) = true.
Proof. rewrite memb_cons, N.eqb_refl. reflexivity. Qed.

Lemma memb_later d x l : memb d l = true -> memb d (x :: l) = true.
Proof. intros H. rewrite memb_cons, H. apply orb_true_r. Qed.

Lemma TI_preserved c sn sn' x wd envw puts' succ' env' :
  LT c sn sn' wd envw -> TI c sn x ->
  (forall d, memb d (k_puts x) = true -> memb d puts' = true) ->
  (forall d, wd = Some d -> memb d puts' = true) ->
  (succ' = true -> k_succ x = true \/
                   (sn_disk sn' <> None /\ (c_ns c = true -> sn_bk sn' <> None \/ sn_task sn' <> None))) ->
  (env' = false -> k_env x = false /\ envw = false) ->
  TI c sn' (mktk puts' succ' (k_fix x) env').
Proof.
  intros [Ld Lb Lk Lt Ln] [Is Ip If Ie Iq It] Hp Hw Hs He.
  assert (mono : forall d, sn_disk sn = Some d -> sn_disk sn' = Some d).
  { intros d E. destruct Ld as [L|[L _]]; congruence. }
  assert (mono' : sn_disk sn <> None -> sn_disk sn' <> None).
  { intros E. destruct (sn_disk sn) as [d|] eqn:D; [rewrite (mono d eq_refl); discriminate|congruence]. }
  constructor; cbn [k_puts k_succ k_fix k_env].
  - intros S. destruct (Hs S) as [S1|[S1 _]]; auto.
  - intros d E. destruct Ld as [L|[_ [d' [L1 L2]]]].
    + apply Hp, Ip. congruence.
    + apply Hw. congruence.
  - intros w E. apply mono, If. exact E.
  - intros E b B. destruct (He E) as [E1 E2]. destruct (Lb E2) as [L|[d [L1 L2]]].
    + rewrite L in B. destruct (Ie E1 b B) as [d [D ->]]. exists d. auto.
    + exists d. split; [exact L1|congruence].
  - intros Ns S. destruct (Hs S) as [S1|[_ S1]]; [|auto].
    destruct (Iq Ns S1) as [B|T]; [left; auto|].
    destruct (Lt T) as [T'|T']; [right; exact T'|left; apply T'; auto].
  - intros T. destruct (Ln T) as [T'|T']; auto.
Qed.

Lemma cl_resolved_sound c sn y dv b fx :
  TI c sn y -> (k_succ y = true -> dv = sn_disk sn) -> cl_resolved y dv = (b, fx) ->
  b = true /\ (fx = k_fix y \/ exists v, fx = Some v /\ sn_disk sn = Some v).
Proof.
  intros [Is Ip If _ _ _] Hd. unfold cl_resolved. destruct (k_succ y).
  - rewrite (Hd eq_refl). destruct (sn_disk sn) as [v|] eqn:D; [|exfalso; apply Is; reflexivity].
    intros H. injection H as <- <-. split; [|right; exists v; auto].
    rewrite (Ip v eq_refl). destruct (k_fix y) as [w|] eqn:F; [|reflexivity].
    specialize (If w eq_refl). injection If as ->. rewrite N.eqb_refl. reflexivity.
  - intros H. injection H as <- <-. auto.
Qed.

Lemma TI_set_fix c sn y fx :
  TI c sn y -> (fx = k_fix y \/ exists v, fx = Some v /\ sn_disk sn = Some v) ->
  TI c sn (mktk (k_puts y) (k_succ y) fx (k_env y)).
Proof.
  intros [Is Ip If Ie Iq It] H. constructor; cbn [k_puts k_succ k_fix k_env]; auto.
  intros w E. destruct H as [->|[v [-> D]]]; [auto|congruence].
Qed.

Lemma cl_pending_sound c sn y : TI c sn y -> cl_pending c y sn = true.
Proof.
  intros I. unfold cl_pending. destruct (c_ns c) eqn:Ns; [|reflexivity]. destruct (k_succ y) eqn:S; [|reflexivity].
  cbn [andb]. destruct (ti_pend _ _ _ I Ns S) as [B|T].
  - destruct (sn_bk sn); [reflexivity|congruence].
  - destruct (sn_bk sn); [reflexivity|]. destruct (sn_task sn); [reflexivity|congruence].
Qed.

Lemma cl_backend_sound c sn y :
  TI c sn y -> sn_disk sn <> None -> (c_ns c = true -> sn_bk sn <> None) -> cl_backend c y sn = true.
Proof.
  intros I D B. unfold cl_backend. destruct (c_ns c); [|reflexivity]. destruct (k_env y) eqn:E; [reflexivity|].
  cbn [andb negb]. specialize (B eq_refl). destruct (sn_bk sn) as [b|] eqn:Bk; [|congruence].
  destruct (ti_env _ _ _ I E b Bk) as [d [Dk ->]]. rewrite Dk. apply N.eqb_refl.
Qed.

Lemma store_put_ok c s t d dl f ex s1 :
  store_put c s t d dl f ex = (s1, true) ->
  aget t (disk s1) <> None /\
  (c_ns c = true -> aget t (bk s1) <> None \/ task_of (tasks s1) t <> None) /\
  (c_mode c = WriteThrough -> c_ns c = true -> aget t (bk s1) <> None).
Proof.
  intros E. apply store_put_rel in E. split; [apply (pr_disk_ok _ _ _ _ _ _ E); reflexivity|]. split.
  - intros Ns. destruct (c_mode c) eqn:M.
    + left. apply (pr_wt _ _ _ _ _ _ E M); auto.
    + right. apply (pr_async _ _ _ _ _ _ E M); auto.
  - intros M Ns. apply (pr_wt _ _ _ _ _ _ E M); auto.
Qed.

Lemma is_async_wt c : is_async c = false -> c_mode c = WriteThrough.
Proof. unfold is_async. destruct (c_mode c); [reflexivity|discriminate]. Qed.

(* the common part of the two put handlers, given what the store did *)
Lemma chk_put_sound c sn sn' x d wd s1ok passed0 :
  LT c sn sn' wd false -> TI c sn x ->
  (forall v, wd = Some v -> v = d /\ passed0 = true) ->
  (s1ok = true -> passed0 = true /\ sn_disk sn' <> None /\
                  (c_ns c = true -> sn_bk sn' <> None \/ sn_task sn' <> None) /\
                  (c_mode c = WriteThrough -> c_ns c = true -> sn_bk sn' <> None)) ->
  let x1 := mktk (if passed0 then d :: k_puts x else k_puts x) (k_succ x) (k_fix x) (k_env x) in
  (* failure *)
  (forall b fx, cl_resolved x1 (sn_disk sn') = (b, fx) ->
     b && cl_pending c x1 sn' = true /\ TI c sn' (mktk (k_puts x1) (k_succ x1) fx (k_env x1))) /\
  (* success *)
  (s1ok = true ->
   let x2 := mktk (k_puts x1) true (k_fix x1) (k_env x1) in
   forall b fx, cl_resolved x2 (sn_disk sn') = (b, fx) ->
     b && (if is_async c then cl_pending c x2 sn' else cl_backend c x2 sn') = true /\
     TI c sn' (mktk (k_puts x2) true fx (k_env x2))).
Proof.
  intros L I Hw Hok x1.
  assert (Hp : forall v, memb v (k_puts x) = true -> memb v (k_puts x1) = true).
  { intros v H. unfold x1. cbn [k_puts]. destruct passed0; [apply memb_later|]; exact H. }
  assert (Hw' : forall v, wd = Some v -> memb v (k_puts x1) = true).
  { intros v H. destruct (Hw v H) as [-> ->]. unfold x1. cbn [k_puts]. apply memb_here. }
  split.
  - intros b fx R.
    assert (I1 : TI c sn' x1).
    { unfold x1. eapply TI_preserved; try eassumption; cbn [k_puts]; auto. }
    destruct (cl_resolved_sound _ _ _ _ _ _ I1 (fun _ => eq_refl) R) as [-> Hf].
    split; [cbn [andb]; apply cl_pending_sound; exact I1|]. apply TI_set_fix; assumption.
  - intros Ok x2 b fx R. destruct (Hok Ok) as [_ [D [Pn Wt]]].
    assert (I2 : TI c sn' x2).
    { unfold x2, x1. cbn [k_puts k_fix k_env]. eapply TI_preserved; try eassumption; auto. }
    destruct (cl_resolved_sound _ _ _ _ _ _ I2 (fun _ => eq_refl) R) as [-> Hf].
    split; [|apply (TI_set_fix _ _ x2); assumption]. cbn [andb].
    destruct (is_async c) eqn:A; [apply cl_pending_sound; exact I2|].
    apply cl_backend_sound; auto. apply Wt. apply is_async_wt. exact A.
Qed.

(* normal form of the two put handlers' answers *)
Lemma put_facts c s p :
  let sp := store_put c s (p_tag p) (p_dig p) false (p_fs p) (p_ex p) in
  let r := snd (step c s (Put p)) in
  (o_res r = ROk -> passed p && snd sp = true) /\
  (passed p = false -> o_nb r = [] /\ o_rep r = []) /\
  fst (step c s (Put p)) = (if passed p then fst sp else s).
Proof.
  cbn zeta. rewrite step_put. destruct (passed p).
  - destruct (store_put c s (p_tag p) (p_dig p) false (p_fs p) (p_ex p)) as [s1 [|]]; cbn; repeat split; auto; discriminate.
  - cbn. repeat split; auto; discriminate.
Qed.

Lemma exec_facts c s t a :
  o_res (snd (step c s (Exec t a))) = ROk ->
  task_of (tasks s) t <> None /\
  (c_ns c = true -> aget t (disk s) <> None -> aget t (bk (fst (step c s (Exec t a)))) <> None).
Proof.
  rewrite step_exec. destruct (Retry.storedb t (tasks s)) eqn:St; [|cbn; discriminate].
  destruct (exec_once c s t a) as [s1 ok] eqn:E. destruct ok; [|cbn; discriminate]. intros _.
  split; [apply storedb_task_of; exact St|]. cbn [fin fst with_tasks bk]. apply exec_once_rel in E.
  intros A B. apply (er_ok _ _ _ _ _ E); auto.
Qed.

Lemma chk_tag_sound c s o x :
  TI c (snap_of s (op_tag o)) x ->
  snd (chk_tag c x o (snd (step c s o))) = true /\
  TI c (snap_of (fst (step c s o)) (op_tag o)) (fst (chk_tag c x o (snd (step c s o)))).
Proof.
  intros I. pose proof (step_LT c s o) as L. pose proof (step_snap c s o) as Sn.
  destruct o; cbn [op_tag op_wd is_bkset] in *.
  - (* Put *)
    unfold chk_tag. rewrite Sn. fold (passed p).
    destruct (put_facts c s p) as [F1 [F2 F3]]. cbn zeta in F1, F2, F3.
    set (s' := fst (step c s (Put p))) in *. set (r := snd (step c s (Put p))) in *.
    destruct (chk_put_sound c _ _ x (p_dig p) (if passed p then Some (p_dig p) else None)
                (passed p && snd (store_put c s (p_tag p) (p_dig p) false (p_fs p) (p_ex p))) (passed p) L I) as [Cf Cs].
    { intros v. destruct (passed p); [intros H; injection H as <-; auto|discriminate]. }
    { intros Ok. apply andb_true_iff in Ok. destruct Ok as [P Ok]. rewrite P in F3.
      destruct (store_put c s (p_tag p) (p_dig p) false (p_fs p) (p_ex p)) as [s1 ok] eqn:E. cbn [snd] in Ok. subst ok.
      cbn [fst] in F3. destruct (store_put_ok _ _ _ _ _ _ _ _ E) as [A [B C]].
      rewrite F3, snap_of_eq. cbn [sn_disk sn_bk sn_task]. auto. }
    cbn zeta in Cf, Cs.
    destruct (o_res r) eqn:Res.
    + (* 200 *)
      cbv iota. clear Cf. specialize (Cs (F1 eq_refl)). apply andb_true_iff in F1; [|reflexivity]. destruct F1 as [P _]. rewrite P in *.
      cbn [k_puts k_succ k_fix k_env] in *.
      destruct (cl_resolved _ (sn_disk (snap_of s' (p_tag p)))) as [b fx] eqn:R. cbn [fst snd].
      destruct (Cs b fx eq_refl) as [C1 C2]. split; [|exact C2].
      apply andb_true_iff in C1. destruct C1 as [-> ->]. reflexivity.
    + cbv iota. clear Cs. destruct (cl_resolved _ (sn_disk (snap_of s' (p_tag p)))) as [b fx] eqn:R. cbn [fst snd].
      destruct (Cf b fx eq_refl) as [C1 C2]. split; [|exact C2]. rewrite C1. cbn [andb].
      destruct (passed p); [destruct (o_nb r), (o_rep r); reflexivity|]. destruct (F2 eq_refl) as [-> ->]. reflexivity.
    + cbv iota. clear Cs. destruct (cl_resolved _ (sn_disk (snap_of s' (p_tag p)))) as [b fx] eqn:R. cbn [fst snd].
      destruct (Cf b fx eq_refl) as [C1 C2]. split; [|exact C2]. rewrite C1. cbn [andb].
      destruct (passed p); [destruct (o_nb r), (o_rep r); reflexivity|]. destruct (F2 eq_refl) as [-> ->]. reflexivity.
    + cbv iota. clear Cs. destruct (cl_resolved _ (sn_disk (snap_of s' (p_tag p)))) as [b fx] eqn:R. cbn [fst snd].
      destruct (Cf b fx eq_refl) as [C1 C2]. split; [|exact C2]. rewrite C1. cbn [andb].
      destruct (passed p); [destruct (o_nb r), (o_rep r); reflexivity|]. destruct (F2 eq_refl) as [-> ->]. reflexivity.
    + cbv iota. clear Cs. destruct (cl_resolved _ (sn_disk (snap_of s' (p_tag p)))) as [b fx] eqn:R. cbn [fst snd].
      destruct (Cf b fx eq_refl) as [C1 C2]. split; [|exact C2]. rewrite C1. cbn [andb].
      destruct (passed p); [destruct (o_nb r), (o_rep r); reflexivity|]. destruct (F2 eq_refl) as [-> ->]. reflexivity.
  - (* DupPut *)
    unfold chk_tag. rewrite Sn.
    destruct (store_put c s t d delayed f ex) as [s1 ok] eqn:E.
    assert (F : fst (step c s (DupPut t d delayed f ex)) = s1 /\ o_res (snd (step c s (DupPut t d delayed f ex))) = (if ok then ROk else RFail)).
    { unfold step. rewrite E. split; reflexivity. }
    destruct F as [F3 F1]. rewrite F3 in *. rewrite F1.
    destruct (chk_put_sound c _ _ x d (Some d) ok true L I) as [Cf Cs].
    { intros v H. injection H as <-. auto. }
    { intros ->. destruct (store_put_ok _ _ _ _ _ _ _ _ E) as [A [B C]]. rewrite snap_of_eq. cbn [sn_disk sn_bk sn_task]. auto. }
    cbn zeta in Cf, Cs. cbn [k_puts k_succ k_fix k_env] in *.
    destruct ok.
    + cbv iota. clear Cf. specialize (Cs eq_refl). destruct (cl_resolved _ (sn_disk (snap_of s1 t))) as [b fx] eqn:R. cbn [fst snd].
      destruct (Cs b fx eq_refl) as [C1 C2]. split; assumption.
    + cbv iota. clear Cs. destruct (cl_resolved _ (sn_disk (snap_of s1 t))) as [b fx] eqn:R. cbn [fst snd].
      destruct (Cf b fx eq_refl) as [C1 C2]. split; assumption.
  - (* Get *)
    rewrite (step_reads c s (Get t f) eq_refl) in *. unfold chk_tag. rewrite Sn.
    set (dv := match o_res (snd (step c s (Get t f))) with ROk => o_dig (snd (step c s (Get t f))) | _ => None end).
    assert (Hd : k_succ x = true -> dv = sn_disk (snap_of s t)).
    { intros S. pose proof (ti_succ _ _ _ I S) as D. unfold dv. rewrite snap_of_eq in D |- *. cbn [sn_disk] in *.
      destruct (aget t (disk s)) as [d|] eqn:E; [|congruence]. rewrite (get_of_disk c s t f d E). reflexivity. }
    destruct (cl_resolved x dv) as [b fx] eqn:R. cbn [fst snd].
    destruct (cl_resolved_sound c _ x dv b fx I Hd R) as [-> Hf].
    split; [cbn [andb]; apply cl_pending_sound; exact I|apply TI_set_fix; assumption].
  - (* Has *)
    rewrite (step_reads c s (Has t f) eq_refl) in *. unfold chk_tag. rewrite Sn. cbn [fst snd].
    split; [apply cl_pending_sound; exact I|exact I].
  - (* Repl *)
    rewrite (step_reads c s (Repl t f r ok) eq_refl) in *. unfold chk_tag.
    destruct (o_rep (snd (step c s (Repl t f r ok)))) as [|d0 l] eqn:Rep.
    + cbn [fst snd]. split; [reflexivity|]. apply (TI_set_fix _ _ x); auto.
    + assert (Hd : k_succ x = true -> Some d0 = sn_disk (snap_of s t)).
      { intros S. pose proof (ti_succ _ _ _ I S) as D. rewrite snap_of_eq in D |- *. cbn [sn_disk] in *.
        destruct (aget t (disk s)) as [d|] eqn:E; [|congruence].
        destruct (repl_of_disk c s t f r ok d E) as [K|K]; rewrite K in Rep; [discriminate|]. injection Rep as -> _. reflexivity. }
      destruct (cl_resolved x (Some d0)) as [b fx] eqn:R. cbn [fst snd].
      destruct (cl_resolved_sound c _ x _ b fx I Hd R) as [-> Hf].
      split; [reflexivity|apply TI_set_fix; assumption].
  - (* Exec *)
    unfold chk_tag. rewrite Sn.
    set (s' := fst (step c s (Exec t a))) in *.
    assert (I1 : TI c (snap_of s' t) x).
    { destruct x as [pu su fi en]. eapply (TI_preserved c _ _ (mktk pu su fi en) None false pu su en L I); auto.
      discriminate. }
    destruct (cl_resolved x (sn_disk (snap_of s' t))) as [b fx] eqn:R. cbn [fst snd].
    destruct (cl_resolved_sound c (snap_of s' t) x _ b fx I1 (fun _ => eq_refl) R) as [-> Hf].
    split; [|apply TI_set_fix; assumption]. cbn [andb]. rewrite (cl_pending_sound _ _ _ I1). cbn [andb].
    destruct (o_res (snd (step c s (Exec t a)))) eqn:Res; try reflexivity.
    destruct (exec_facts c s t a Res) as [T B]. fold s' in B.
    assert (D : aget t (disk s) <> None).
    { pose proof (ti_task _ _ _ I) as K. rewrite snap_of_eq in K. cbn [sn_task sn_disk] in K. auto. }
    apply cl_backend_sound; [exact I1| |].
    + pose proof (lt_disk _ _ _ _ _ L) as Ld. unfold snap_of in Ld |- *. cbn [sn_disk] in Ld |- *.
      destruct Ld as [E|[E _]]; congruence.
    + intros Ns. rewrite snap_of_eq. cbn [sn_bk]. auto.
  - (* BkSet *)
    unfold chk_tag. cbn [fst snd]. split; [reflexivity|].
    eapply (TI_preserved c _ _ x None _ (k_puts x) (k_succ x) true L I); auto; discriminate.
  - (* Bad *)
    rewrite (step_reads c s (Bad k t) eq_refl) in *. unfold chk_tag. cbn [fst snd]. auto.
Qed.

Lemma tk_upd k t x b t' : tk (upd_tk k t x b) t' = if t =? t' then x else tk k t'.
Proof. unfold tk, upd_tk, aset. cbn [k_tags aget]. destruct (t =? t'); reflexivity. Qed.

Definition GI (c : cfg) (s : st) (k : chk) : Prop :=
  k_ok k = true /\ forall t, TI c (snap_of s t) (tk k t).

Lemma snap_frame c s o t : t <> op_tag o -> snap_of (fst (step c s o)) t = snap_of s t.
Proof.
  intros H. destruct (sr_frame _ _ _ _ (step_step_rel c s o) t H) as [A [B C]].
  rewrite !snap_of_eq. rewrite A, B, C. reflexivity.
Qed.

Lemma GI_step c s k o : GI c s k -> GI c (fst (step c s o)) (chk_step c k o (snd (step c s o))).
Proof.
  intros [Ok I]. unfold chk_step.
  destruct (chk_tag_sound c s o (tk k (op_tag o)) (I (op_tag o))) as [B T].
  destruct (chk_tag c (tk k (op_tag o)) o (snd (step c s o))) as [x b]. cbn [fst snd] in *. subst b.
  split.
  - unfold upd_tk. cbn [k_ok]. rewrite Ok. reflexivity.
  - intros t. rewrite tk_upd. destruct (op_tag o =? t) eqn:E.
    + apply N.eqb_eq in E. subst t. exact T.
    + apply N.eqb_neq in E. rewrite snap_frame; [apply I|congruence].
Qed.

Lemma GI_init c : GI c init chk0.
Proof.
  split; [reflexivity|]. intros t. constructor; cbn; try discriminate; try congruence.
Qed.

Lemma GI_run c ops : forall s k, GI c s k -> k_ok (chk_run c k ops (snd (run c s ops))) = true.
Proof.
  induction ops as [|o ops IH]; intros s k G; cbn [run].
  - cbn. apply G.
  - pose proof (GI_step c s k o G) as G1. destruct (step c s o) as [s1 r]. cbn [fst snd] in G1.
    specialize (IH s1 _ G1). destruct (run c s1 ops) as [s2 rs]. cbn [snd chk_run] in *. exact IH.
Qed.

(* the property, in its executable form, holds of every history of the model *)
Theorem check_sound c ops : C32_check c ops (snd (run c init ops)) = true.
Proof. unfold C32_check. apply GI_run. apply GI_init. Qed.

(* ------------------------------------------------------------------ what does not hold *)

Definition hput (t d : N) : op := Put (mkput t d true [AFound] F0 [mkea false UOk] true false true).

(* the backend already holds another digest for the tag (another node put it): the PUT answers
   200, the node resolves the tag to 1, the backend keeps 2 — also after the write-back ran *)
Lemma preexisting_backend_refuted :
  exists c ops, c_ns c = true /\
    let '(s, outs) := run c init ops in
    map o_res outs = [ROk; ROk; ROk; ROk] /\ aget 0 (disk s) = Some 1 /\ aget 0 (bk s) = Some (CDig 2).
Proof.
  exists (mkcfg WriteThrough 3 true), [BkSet 0 (CDig 2); hput 0 1; Get 0 false; Has 0 false].
  vm_compute. repeat split; reflexivity.
Qed.

Lemma preexisting_backend_async_refuted :
  exists c ops, c_ns c = true /\
    let '(s, outs) := run c init ops in
    map o_res outs = [ROk; ROk; ROk; ROk] /\ aget 0 (disk s) = Some 1 /\ aget 0 (bk s) = Some (CDig 2) /\
    Retry.storedb 0 (tasks s) = false.
Proof.
  exists (mkcfg Async 3 true), [BkSet 0 (CDig 2); hput 0 1; Exec 0 (mkea false UOk); Get 0 false].
  vm_compute. repeat split; reflexivity.
Qed.

(* no backend configured for the tag's namespace: the write-back is dropped, the PUT answers 200 *)
Lemma no_backend_refuted :
  exists c ops, c_ns c = false /\
    let '(s, outs) := run c init ops in map o_res outs = [ROk] /\ aget 0 (bk s) = None.
Proof. exists (mkcfg WriteThrough 3 false), [hput 0 1]. vm_compute. repeat split; reflexivity. Qed.

(* "a digest that was put for it" cannot be strengthened to "a digest whose PUT succeeded": a PUT
   that failed after its disk write (backend down in write-through mode) decides what a later,
   successful PUT of another digest resolves to *)
Lemma resolved_digest_of_failed_put :
  exists c ops,
    let outs := snd (run c init ops) in
    map o_res outs = [RFail; ROk; ROk] /\ map o_dig outs = [None; None; Some 1].
Proof.
  exists (mkcfg WriteThrough 2 true),
         [Put (mkput 0 1 true [AFound] F0 [mkea false UErr; mkea false UErr] true false true); hput 0 2; Get 0 false].
  vm_compute. split; reflexivity.
Qed.

(* before any put on this node GET answers what the backend holds; a later put of another digest
   then changes the answer (the tag was not stored on the node before) *)
Lemma backend_answer_not_pinned :
  exists c ops, map o_dig (snd (run c init ops)) = [None; Some 2; None; Some 1].
Proof.
  exists (mkcfg WriteThrough 3 true), [BkSet 0 (CDig 2); Get 0 false; hput 0 1; Get 0 false].
  vm_compute. reflexivity.
Qed.

(* re-put of another digest: 200, the neighbour is told the new digest, the node keeps the old *)
Lemma reput_keeps_first :
  exists c ops,
    let outs := snd (run c init ops) in
    map o_res outs = [ROk; ROk; ROk] /\ map o_nb outs = [[1]; [2]; []] /\ map o_dig outs = [None; None; Some 1].
Proof.
  exists (mkcfg Async 3 true), [hput 0 1; hput 0 2; Get 0 false].
  vm_compute. repeat split; reflexivity.
Qed.

(* ------------------------------------------------------------------ further consequences *)

(* stability does not depend on who stored the tag (PUT, duplicate put, a put that failed later):
   once a digest is on the node every continuation keeps it and every GET answers it *)
Theorem stable_once_stored c s t d :
  aget t (disk s) = Some d ->
  forall ops2,
    aget t (disk (fst (run c s ops2))) = Some d /\
    forall i f, nth_error ops2 i = Some (Get t f) ->
      exists o, nth_error (snd (run c s ops2)) i = Some o /\ o_res o = ROk /\ o_dig o = Some d.
Proof.
  intros E ops2. split; [apply disk_mono_run; exact E|].
  intros i f Hi. eexists. split; [apply run_nth; exact Hi|].
  rewrite (get_of_disk c _ _ f d); [split; reflexivity|]. apply disk_mono_run. exact E.
Qed.

(* a replication task created for a stored tag carries the digest the node resolves it to *)
Theorem replicate_uses_resolved c s t f r ok d :
  aget t (disk s) = Some d -> forall x, In x (o_rep (snd (step c s (Repl t f r ok)))) -> x = d.
Proof.
  intros E x Hx. destruct (repl_of_disk c s t f r ok d E) as [K|K]; rewrite K in Hx; cbn in Hx; [contradiction|].
  destruct Hx as [<-|[]]. reflexivity.
Qed.

(* and a PUT with ?replicate=true replicates only after it stored the tag, with its own digest *)
Theorem put_replicates_after_store c s p x :
  In x (o_rep (snd (step c s (Put p))) ++ o_nb (snd (step c s (Put p)))) ->
  x = p_dig p /\ passed p = true /\ aget (p_tag p) (disk (fst (step c s (Put p)))) <> None.
Proof.
  rewrite step_put. destruct (passed p); [|cbn; contradiction].
  destruct (store_put c s (p_tag p) (p_dig p) false (p_fs p) (p_ex p)) as [s1 ok] eqn:E. cbn [fin snd fst o_rep o_nb].
  destruct ok; [|cbn; contradiction]. intros Hx.
  assert (X : x = p_dig p).
  { apply in_app_or in Hx. destruct Hx as [Hx|Hx].
    - destruct (true && p_rep p && p_repok p); cbn in Hx; [destruct Hx as [<-|[]]; reflexivity|contradiction].
    - cbn in Hx. destruct Hx as [<-|[]]. reflexivity. }
  split; [exact X|]. split; [reflexivity|]. apply store_put_ok in E. apply E.
Qed.

(* interface to the retry manager's model (K.Model.Retry, C30): the task table moves only by the
   store operations of that model, and a task leaves the table only when the executor's verdict
   for it was success (Retry.OpExecRet t true; OpExecFin t) *)
Theorem task_table_moves c s o :
  let ts := tasks s in
  let ts' := tasks (fst (step c s o)) in
  ts' = ts \/
  (exists st d, Retry.add_row (op_tag o) st d 0 ts = Some ts') \/
  (exists t a, o = Exec t a /\ Retry.storedb t ts = true /\
     ts' = (if snd (exec_once c s t a) then Retry.remove_row t ts else Retry.mark_failed t 0 ts)).
Proof.
  cbn zeta.
  assert (SP : forall t d dl f ex, let s1 := fst (store_put c s t d dl f ex) in
               tasks s1 = tasks s \/ exists st d0, Retry.add_row t st d0 0 (tasks s) = Some (tasks s1)).
  { intros t d dl f ex. cbn zeta. unfold store_put.
    destruct (disk_add_rest t d s) as [_ Ts].
    destruct f; cbn [fst]; [|left; reflexivity|left; exact Ts].
    destruct (c_mode c).
    - left. destruct (sync_exec c (disk_add t d s) t (firstn (N.to_nat (c_att c)) ex)) as [s1 ok] eqn:E.
      apply sync_exec_rel in E. cbn [fst]. rewrite (er_tasks _ _ _ _ _ E). exact Ts.
    - rewrite Ts. destruct (Retry.add_row t _ _ 0 (tasks s)) as [ts1|] eqn:A; cbn [fst with_tasks tasks].
      + right. eexists. eexists. exact A.
      + left. exact Ts. }
  destruct o.
  - rewrite step_put. destruct (passed p); [|left; reflexivity].
    specialize (SP (p_tag p) (p_dig p) false (p_fs p) (p_ex p)). cbn zeta in SP.
    destruct (store_put c s (p_tag p) (p_dig p) false (p_fs p) (p_ex p)) as [s1 ok]. cbn [fin fst] in *.
    destruct SP as [SP|SP]; [left; exact SP|right; left; exact SP].
  - specialize (SP t d delayed f ex). cbn zeta in SP. unfold step.
    destruct (store_put c s t d delayed f ex) as [s1 ok]. cbn [fin fst] in *.
    destruct SP as [SP|SP]; [left; exact SP|right; left; exact SP].
  - rewrite step_reads by reflexivity. left. reflexivity.
  - rewrite step_reads by reflexivity. left. reflexivity.
  - rewrite step_reads by reflexivity. left. reflexivity.
  - rewrite step_exec. destruct (Retry.storedb t (tasks s)) eqn:St; [|left; reflexivity].
    right. right. exists t, a. split; [reflexivity|]. split; [exact St|].
    destruct (exec_once c s t a) as [s1 ok] eqn:E. cbn [fin fst with_tasks tasks snd].
    apply exec_once_rel in E. rewrite (er_tasks _ _ _ _ _ E). reflexivity.
  - left. reflexivity.
  - rewrite step_reads by reflexivity. left. reflexivity.
Qed.
