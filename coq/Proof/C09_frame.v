(* C09: the invariant of key k only depends on k's entries *)
From Coq Require Import List NArith Bool Lia.
From K.Model Require Import C09.
From K.Proof Require Import C09_base C09_inv.
Import ListNotations.
Local Open Scope N_scope.

Lemma at_created_won : forall p k, at_created p k = true -> won p k = true.
Proof. destruct p; cbn; auto; discriminate. Qed.

Lemma kinv_frame : forall s s' gs k,
  get k (mem s') = get k (mem s) ->
  get k (disk s') = get k (disk s) ->
  get k (fblobs s') = get k (fblobs s) ->
  (forall id, get k (fblobs s) = Some id -> get id (heap s') = get id (heap s)) ->
  nxt s <= nxt s' ->
  (wpc s' = wpc s \/ (won (wpc s) k = false /\ won (wpc s') k = false)) ->
  gen_inv s k /\ ghost_inv s gs k -> gen_inv s' k /\ ghost_inv s' gs k.
Proof.
  intros s s' gs k HM HD HF HH HN HP [[G1 [G2 G3]] HG].
  assert (HW : won (wpc s') k = won (wpc s) k) by (destruct HP as [E|[E1 E2]]; [rewrite E; auto|congruence]).
  assert (HPos : wpos (wpc s') k = wpos (wpc s) k).
  { unfold wpos. destruct HP as [E|[E1 E2]]; [rewrite E; auto|rewrite E1, E2; auto]. }
  assert (HC : at_created (wpc s') k = at_created (wpc s) k).
  { destruct HP as [E|[E1 E2]]; [rewrite E; auto|].
    destruct (at_created (wpc s') k) eqn:A; [apply at_created_won in A; congruence|].
    destruct (at_created (wpc s) k) eqn:B; [apply at_created_won in B; congruence|auto]. }
  split.
  - unfold gen_inv. rewrite HM, HD, HF, HW. split; [|split].
    + intros id Hid. destruct (G1 id Hid) as [A [[fo [B C]] D]]. split; [lia|]. split; auto.
      exists fo; split; auto. rewrite HH; auto.
    + auto.
    + intros Hw. specialize (G3 Hw). destruct HP as [E|[E1 E2]]; [|congruence].
      rewrite E. auto.
  - destruct gs; cbn [ghost_inv] in *; auto.
    + rewrite HM, HD, HC; auto.
    + rewrite HM, HD, HW; auto.
    + unfold live_inv, synced, flushing in *. rewrite HM, HD, HF, HW, HPos.
      assert (HU : (wpc s' = WUnban k) <-> (wpc s = WUnban k)).
      { destruct HP as [E|[E1 E2]]; [rewrite E; tauto|].
        split; intro E; rewrite E in *; cbn in *; rewrite N.eqb_refl in *; discriminate. }
      destruct (get k (mem s)) as [m|].
      * destruct HG as [A [B [C D]]]. repeat split; auto. destruct D as [D|[D1 D2]].
        -- left. destruct D as [e [E1 [E2 [E3 [E4 [E5 E6]]]]]]. exists e. repeat split; auto. intro; apply HU; auto.
        -- right. split; auto. destruct D2 as [id [fo [F1 [F2 [F3 F4]]]]]. exists id, fo. repeat split; auto.
           rewrite HH; auto.
      * destruct HG as [e [E1 [E2 [E3 [E4 [E5 E6]]]]]]. exists e. repeat split; auto. intro; apply HU; auto.
Qed.

(* gen_inv only looks at k's memory entry, its flusher entry, whether it is on disk *)
Lemma gen_inv_transfer : forall s s' k,
  get k (mem s') = get k (mem s) ->
  get k (fblobs s') = get k (fblobs s) ->
  (get k (disk s) = None -> get k (disk s') = None) ->
  (forall id, get k (fblobs s) = Some id -> get id (heap s') = get id (heap s)) ->
  nxt s <= nxt s' -> wpc s' = wpc s ->
  gen_inv s k -> gen_inv s' k.
Proof.
  intros s s' k HM HF HD HH HN HP [G1 [G2 G3]]. unfold gen_inv. rewrite HM, HF, HP. split; [|split]; auto.
  - intros id Hid. destruct (G1 id Hid) as [A [[fo [B C]] D]]. split; [lia|]. split; auto.
    exists fo; split; auto. rewrite HH; auto.
  - intros m A B. destruct (G2 m A B) as [X [Y Z]]. auto.
Qed.
