(* C27: the sequential layer.  A history accepted by [run] is a schedule of the transition
   system (so every theorem applies to it), and the property evaluated on the observed
   history (C27_check) holds for it. *)
From Coq Require Import List NArith ZArith Bool Arith Lia Permutation.
From K.Model Require Import C27.
From K.Proof Require Import C27_base C27_group C27_inv C27.
Import ListNotations.
Local Open Scope N_scope.

(* ---------- accepted histories are schedules ---------- *)

Lemma exec_app : forall l1 l2 s, exec s (l1 ++ l2) = obind (exec s l1) (fun s1 => exec s1 l2).
Proof.
  induction l1 as [|l t IH]; intros l2 s; cbn; [reflexivity|].
  destruct (cstep s l); cbn; auto.
Qed.

Definition good (s0 : st) (x : tst) : Prop := exec s0 (rev (snd x)) = Some (fst x).

Lemma tstep_good : forall s0 x l x', good s0 x -> tstep x l = Some x' -> good s0 x'.
Proof.
  intros s0 x l x' G T. unfold tstep in T. destruct (cstep (fst x) l) as [s|] eqn:E; inversion T; subst x'.
  unfold good in *. cbn. rewrite exec_app, G. cbn. now rewrite E.
Qed.

Section Pres.
Variable P : tst -> Prop.
Hypothesis Pstep : forall x l x', P x -> tstep x l = Some x' -> P x'.

Lemma seq_ann_pres : forall x h p x', P x -> seq_ann x h p = Some x' -> P x'.
Proof.
  intros x h p x' HP H. unfold seq_ann, obind in H.
  destruct (tstep x _) as [x1|] eqn:E1; [|discriminate].
  destruct (tstep x1 _) as [x2|] eqn:E2; [|discriminate].
  destruct (tstep x2 _) as [x3|] eqn:E3; [|discriminate].
  destruct (thread_at (fst x3) _); inversion H; subst. eauto.
Qed.

Lemma seq_get_pres : forall x h n res x', P x -> seq_get x h n res = Some x' -> P x'.
Proof.
  intros x h n res x' HP H. unfold seq_get, obind in H.
  destruct (tstep x _) as [x1|] eqn:E1; [|discriminate].
  destruct (tstep x1 _) as [x2|] eqn:E2; [|discriminate].
  destruct (thread_at (fst x2) _) eqn:TH; try discriminate.
  - destruct (sequence _) as [idxs|]; [|discriminate].
    destruct (tstep x2 _) as [x3|] eqn:E3; [|discriminate].
    destruct (thread_at (fst x3) _); try discriminate.
    destruct (peers_eqb _ _); inversion H; subst. eauto.
  - destruct (peers_eqb _ _); inversion H; subst. eauto.
Qed.

Lemma apply_mid_pres : forall x h m x', P x -> apply_mid x h m = Some x' -> P x'.
Proof.
  intros x h [m|] x' HP H; unfold apply_mid in H; [|inversion H; subst; exact HP].
  unfold obind in H.
  destruct (tstep x _) as [x1|] eqn:E1; [|discriminate].
  destruct (seq_ann x1 _ _) as [x2|] eqn:E2; [|discriminate].
  eapply Pstep; [|exact H]. eapply seq_ann_pres; [|exact E2]. eauto.
Qed.

Lemma seq_ce_loop_pres : forall fuel x tid evs x', P x -> seq_ce_loop fuel x tid evs = Some x' -> P x'.
Proof.
  induction fuel as [|f IH]; intros x tid evs x' HP H; cbn in H; [discriminate|].
  destruct (thread_at (fst x) tid) as [| | | | |[|g todo]| |]; try discriminate.
  - destruct evs; [eauto|discriminate].
  - unfold obind in H.
    destruct (tstep x _) as [x1|] eqn:E1; [|discriminate].
    destruct (match evs with [] => Some x1 | e :: _ => apply_mid x1 (fst e) (snd e) end) as [x2|] eqn:E2; [|discriminate].
    assert (P2 : P x2).
    { destruct evs as [|e evs]; [inversion E2; subst; eauto|]. eapply apply_mid_pres; [|exact E2]. eauto. }
    destruct (thread_at (fst x2) tid); try (eapply IH; [exact P2|exact H]).
    destruct (tstep x2 _) as [x3|] eqn:E3; [|discriminate]. eapply IH; [|exact H]. eauto.
Qed.

Lemma seq_cg_loop_pres : forall fuel x x', P x -> seq_cg_loop fuel x = Some x' -> P x'.
Proof.
  induction fuel as [|f IH]; intros x x' HP H; cbn in H; [discriminate|].
  destruct (smu (fst x)); [|inversion H; subst; exact HP].
  unfold obind in H. destruct (tstep x _) as [x1|] eqn:E1; [|discriminate]. eapply IH; [|exact H]. eauto.
Qed.

Lemma seq_step_pres : forall x o x', P x -> seq_step x o = Some x' -> P x'.
Proof.
  intros x o x' HP H. destruct o; cbv beta iota delta [seq_step] in H.
  - eauto.
  - eapply seq_ann_pres; eauto.
  - eapply seq_get_pres; eauto.
  - unfold seq_cleane, obind in H.
    destruct (sequence _) as [first|]; [|discriminate].
    destruct (tstep x _) as [x1|] eqn:E1; [|discriminate].
    destruct (tstep x1 _) as [x2|] eqn:E2; [|discriminate].
    destruct (seq_ce_loop _ _ _ _) as [x3|] eqn:E3; [|discriminate].
    destruct (thread_at (fst x3) _); inversion H; subst.
    eapply seq_ce_loop_pres; [|exact E3]. eauto.
  - unfold seq_cleang, obind in H.
    destruct (tstep x _) as [x1|] eqn:E1; [|discriminate].
    eapply seq_cg_loop_pres; [|exact H]. eauto.
Qed.

Lemma seq_run_pres : forall ops x x', P x -> seq_run x ops = Some x' -> P x'.
Proof.
  induction ops as [|o t IH]; intros x x' HP H; cbn in H; [inversion H; subst; exact HP|].
  unfold obind in H. destruct (seq_step x o) as [x1|] eqn:E; [|discriminate].
  eapply IH; [|exact H]. eapply seq_step_pres; eauto.
Qed.
End Pres.

(* the schedule recorded by [run] leads from the empty store to the final state *)
Theorem run_is_schedule : forall t ops x, run t ops = Some x -> exec (init t) (rev (snd x)) = Some (fst x).
Proof.
  intros t ops x H. unfold run in H.
  apply (seq_run_pres (good (init t)) (tstep_good (init t)) ops _ _) in H; [exact H|].
  reflexivity.
Qed.

Corollary run_reachable : forall t ops x, run t ops = Some x -> reachable t (fst x).
Proof. intros t ops x H. eexists. eapply run_is_schedule; eauto. Qed.

(* ---------- what a step does to the clock and the announcement log ---------- *)

Lemma tstep_inv : forall x l x', tstep x l = Some x' -> cstep (fst x) l = Some (fst x') /\ snd x' = l :: snd x.
Proof.
  intros x l x' H. unfold tstep in H. destruct (cstep (fst x) l); inversion H; subst; cbn; auto.
Qed.

Lemma cstep_frame : forall s l s', cstep s l = Some s' ->
  ttl s' = ttl s /\
  now s' = (match l with LTick dt => now s + dt | _ => now s end) /\
  (log s' = log s \/
   exists tid orc h pr g, l = LRun tid orc /\ nth_error (threads s) tid = Some (PAnnLockG h pr g) /\
     log s' = mkann h pr (now s) :: log s).
Proof.
  intros s l s' ST. destruct l as [dt|c|tid orc|order|]; cbn in ST.
  - inversion ST; subst; cbn; auto.
  - inversion ST; subst; cbn; auto.
  - destruct (nth_error (threads s) tid) as [p|] eqn:NTH; [|discriminate].
    destruct p as [h pr|h pr g|h n|h n g log0| |todo|g ex todo|res]; cbn in ST.
    + destruct (smu_free s); [|discriminate]. destruct (assoc h (gmap s)); inversion ST; subst; cbn; auto.
    + destruct (g_deleted (group_at s g)); inversion ST; subst; cbn; auto.
      split; [reflexivity|]. split; [reflexivity|]. right. exists tid, orc, h, pr, g. auto.
    + destruct (smu_free s); [|discriminate]. destruct (assoc h (gmap s)); inversion ST; subst; cbn; auto.
    + destruct (Z.leb _ 0); [inversion ST; subst; cbn; auto|].
      destruct (valid_idxs orc _ _); inversion ST; subst; cbn; auto.
    + destruct (smu_free s); [|discriminate]. destruct (is_perm orc _); inversion ST; subst; cbn; auto.
    + destruct todo as [|g todo]; [inversion ST; subst; cbn; auto|].
      destruct (scan (now s) (group_at s g)); inversion ST; subst; cbn; auto.
    + inversion ST; subst; cbn; auto.
    + discriminate.
  - destruct (smu_free s); [|discriminate]. destruct (is_perm order _); inversion ST; subst; cbn; auto.
  - destruct (smu s) as [c|]; inversion ST; subst.
    destruct c as [[|[h g] todo]|h g todo]; cbn; auto.
    + destruct (N.ltb (now s) (g_last (group_at s g))); cbn; auto.
    + destruct (N.ltb (g_last (group_at s g)) (now s)); cbn; auto.
Qed.

Definition nl (x : tst) : N * list ann := (now (fst x), log (fst x)).

Lemma thread_at_of_nth_error : forall s tid p, nth_error (threads s) tid = Some p -> thread_at s tid = p.
Proof. intros. unfold thread_at. now apply nth_error_nth'. Qed.

Lemma nth_error_of_thread_at : forall s tid p, thread_at s tid = p -> p <> PDone [] ->
  nth_error (threads s) tid = Some p.
Proof.
  intros s tid p H NE. unfold thread_at in H. destruct (nth_error (threads s) tid) as [q|] eqn:E.
  - erewrite nth_error_nth' in H by exact E. congruence.
  - apply nth_error_None in E. rewrite nth_overflow in H by exact E. congruence.
Qed.

Lemma spawn_thread : forall s c s', cstep s (LSpawn c) = Some s' ->
  nth_error (threads s') (length (threads s)) = Some (spawn_pc c) /\
  ttl s' = ttl s /\ now s' = now s /\ log s' = log s.
Proof.
  intros s c s' H. cbn in H. inversion H; subst; cbn. split; auto.
  rewrite nth_error_app2 by lia. now rewrite Nat.sub_diag.
Qed.

Lemma run_ann_lookup : forall s tid orc h pr s', nth_error (threads s) tid = Some (PAnnLookup h pr) ->
  cstep s (LRun tid orc) = Some s' -> exists g, nth_error (threads s') tid = Some (PAnnLockG h pr g).
Proof.
  intros s tid orc h pr s' NTH ST. cbn in ST. rewrite NTH in ST. cbn in ST.
  assert (LT : (tid < length (threads s))%nat) by (apply nth_error_Some; congruence).
  destruct (smu_free s); [|discriminate].
  destruct (assoc h (gmap s)) as [g|]; inversion ST; subst; cbn; eexists; now apply nth_error_set_nth_eq.
Qed.

Lemma run_ann_lock : forall s tid orc h pr g s', nth_error (threads s) tid = Some (PAnnLockG h pr g) ->
  cstep s (LRun tid orc) = Some s' ->
  (nth_error (threads s') tid = Some (PAnnLookup h pr) /\ log s' = log s) \/
  (nth_error (threads s') tid = Some (PDone []) /\ log s' = mkann h pr (now s) :: log s).
Proof.
  intros s tid orc h pr g s' NTH ST. cbn in ST. rewrite NTH in ST. cbn in ST.
  assert (LT : (tid < length (threads s))%nat) by (apply nth_error_Some; congruence).
  destruct (g_deleted (group_at s g)); inversion ST; subst; cbn; [left|right]; split; auto;
    now apply nth_error_set_nth_eq.
Qed.

Lemma seq_ann_nl : forall x h p x', seq_ann x h p = Some x' ->
  ttl (fst x') = ttl (fst x) /\ nl x' = (now (fst x), mkann h p (now (fst x)) :: log (fst x)).
Proof.
  intros x h p x' H. unfold seq_ann, obind in H.
  destruct (tstep x _) as [x1|] eqn:E1; [|discriminate].
  destruct (tstep x1 _) as [x2|] eqn:E2; [|discriminate].
  destruct (tstep x2 _) as [x3|] eqn:E3; [|discriminate].
  apply tstep_inv in E1 as [E1 _], E2 as [E2 _], E3 as [E3 _].
  destruct (spawn_thread _ _ _ E1) as (T1 & TT1 & N1 & L1). cbn in T1.
  destruct (run_ann_lookup _ _ _ _ _ _ T1 E2) as (g & T2).
  destruct (cstep_frame _ _ _ E2) as (TT2 & N2 & L2).
  destruct L2 as [L2|(tid & orc & h' & pr' & g' & EQ & NT & _)]; [|inversion EQ; subst; congruence].
  destruct (cstep_frame _ _ _ E3) as (TT3 & N3 & _).
  destruct (run_ann_lock _ _ _ _ _ _ _ T2 E3) as [[T3 L3]|[T3 L3]].
  - rewrite (thread_at_of_nth_error _ _ _ T3) in H. discriminate.
  - rewrite (thread_at_of_nth_error _ _ _ T3) in H. inversion H; subst x'.
    unfold nl. split; [congruence|]. rewrite N3, N2, N1, L3, L2, L1, N2, N1. reflexivity.
Qed.

Lemma frame_not_ann : forall s tid orc s' p, cstep s (LRun tid orc) = Some s' ->
  nth_error (threads s) tid = Some p -> (forall h pr g, p <> PAnnLockG h pr g) ->
  ttl s' = ttl s /\ now s' = now s /\ log s' = log s.
Proof.
  intros s tid orc s' p ST NTH NE. destruct (cstep_frame _ _ _ ST) as (T & N & L).
  split; [exact T|]. split; [exact N|].
  destruct L as [L|(tid' & orc' & h & pr & g & EQ & NT & _)]; [exact L|].
  inversion EQ; subst. rewrite NTH in NT. inversion NT. exfalso. eapply NE; eauto.
Qed.

Lemma run_rd_lookup : forall s tid orc h n s',
  nth_error (threads s) tid = Some (PRdLookup h n) -> cstep s (LRun tid orc) = Some s' ->
  (assoc h (gmap s) = None /\ nth_error (threads s') tid = Some (PDone [])) \/
  (exists g, nth_error (threads s') tid = Some (PRdRead h n g (log s))).
Proof.
  intros s tid orc h n s' NTH ST. cbn in ST. rewrite NTH in ST. cbn in ST.
  assert (LT : (tid < length (threads s))%nat) by (apply nth_error_Some; congruence).
  destruct (smu_free s); [|discriminate].
  destruct (assoc h (gmap s)) as [g|]; inversion ST; subst s'; cbn.
  - right. exists g. now apply nth_error_set_nth_eq.
  - left. split; [reflexivity|]. now apply nth_error_set_nth_eq.
Qed.

(* ---------- boolean helpers ---------- *)

Lemma peer_eqb_eq : forall a b, peer_eqb a b = true <-> a = b.
Proof.
  intros [i1 a1 b1 c1] [i2 a2 b2 c2]. unfold peer_eqb; cbn. rewrite !andb_true_iff, !N.eqb_eq, eqb_true_iff.
  split; [intros [[[-> ->] ->] ->]; reflexivity|intros H; inversion H; auto].
Qed.

Lemma peers_eqb_eq : forall a b, peers_eqb a b = true -> a = b.
Proof.
  induction a as [|x a IH]; intros [|y b] H; cbn in H; try discriminate; auto.
  apply andb_true_iff in H as [H1 H2]. apply peer_eqb_eq in H1. subst. f_equal. auto.
Qed.

Lemma nodupN_NoDup : forall l, NoDup l -> nodupN l = true.
Proof.
  induction 1 as [|x t Hn ND IH]; cbn; auto. rewrite IH, andb_true_r, negb_true_iff.
  destruct (existsb (N.eqb x) t) eqn:E; auto. apply existsb_exists in E as [y [Hy E]].
  apply N.eqb_eq in E. subst. tauto.
Qed.

Lemma fresh_covered_intro : forall t nw h full res,
  (forall i b, last_ann full h i = Some b -> fresh t nw b = true -> In (a_peer b) res) ->
  forall lg, fresh_covered t nw h full lg res = true.
Proof.
  intros t nw h full res H. induction lg as [|a rest IH]; cbn; [reflexivity|].
  rewrite IH, andb_true_r.
  destruct (N.eqb (a_hash a) h && fresh t nw a); [|reflexivity].
  destruct (last_ann full h (p_id (a_peer a))) as [b|] eqn:L; [|reflexivity].
  destruct (fresh t nw b) eqn:F; cbn; [|reflexivity].
  apply existsb_exists. exists (a_peer b). split; [eauto|]. now apply peer_eqb_eq.
Qed.

Lemma read_whole : forall n G res orc,
  (((read_count n G <= 0)%Z /\ res = []) \/
   ((0 < read_count n G)%Z /\ valid_idxs orc (Z.to_nat (read_count n G)) (length (g_list G)) = true
    /\ res = read_peers G orc)) ->
  (Z.of_nat (length res) < n)%Z -> (Z.of_nat (length (g_list G)) <= n)%Z.
Proof.
  intros n G res orc CASES LT. unfold read_count in CASES.
  destruct (Z.ltb_spec (Z.of_nat (length (g_list G))) n) as [H|H]; [lia|].
  destruct CASES as [[LE ->]|(POS & V & ->)]; [cbn in LT; lia|].
  apply valid_idxs_spec in V as (LEN & _ & _). unfold read_peers in LT. rewrite map_length, LEN in LT. lia.
Qed.

(* ---------- GetPeers run without interference satisfies the property ---------- *)

Lemma seq_get_ok : forall t x h n res x', good (init t) x -> seq_get x h n res = Some x' ->
  ttl (fst x') = ttl (fst x) /\ nl x' = nl x /\
  get_ok (ttl (fst x)) (now (fst x)) (log (fst x)) h n res = true.
Proof.
  intros t x h n res x' GD H. unfold seq_get, obind in H.
  destruct (tstep x _) as [x1|] eqn:E1; [|discriminate].
  destruct (tstep x1 _) as [x2|] eqn:E2; [|discriminate].
  pose proof (tstep_good _ _ _ _ GD E1) as GD1. pose proof (tstep_good _ _ _ _ GD1 E2) as GD2.
  apply tstep_inv in E1 as [E1 _], E2 as [E2 _].
  destruct (spawn_thread _ _ _ E1) as (T1 & TT1 & N1 & L1). cbn in T1.
  destruct (frame_not_ann _ _ _ _ _ E2 T1 ltac:(intros; discriminate)) as (TT2 & N2 & L2).
  assert (R1 : reachable t (fst x1)) by (eexists; exact GD1).
  assert (R2 : reachable t (fst x2)) by (eexists; exact GD2).
  destruct (run_rd_lookup _ _ _ _ _ _ T1 E2) as [[AS T2]|[g T2]].
  - (* no group for the torrent *)
    rewrite (thread_at_of_nth_error _ _ _ T2) in H.
    destruct (peers_eqb [] res) eqn:PE; inversion H; subst x'. apply peers_eqb_eq in PE. subst res.
    split; [congruence|]. split; [unfold nl; congruence|].
    unfold get_ok. cbn [length map nodupN forallb]. rewrite !andb_true_r.
    apply andb_true_iff. split; [apply Z.leb_le; cbn; lia|].
    destruct (Z.ltb (Z.of_nat 0) n); [|reflexivity].
    apply fresh_covered_intro. intros i b LA F. exfalso.
    unfold fresh in F. apply N.ltb_lt in F.
    assert (LA1 : last_ann (log (fst x1)) h i = Some b) by (rewrite L1; exact LA).
    assert (F1 : now (fst x1) < a_time b + ttl (fst x1)) by (rewrite N1, TT1; exact F).
    destruct (never_forget_fresh t (fst x1) h i b R1 LA1 F1) as (g & p & AS' & _). congruence.
  - rewrite (thread_at_of_nth_error _ _ _ T2) in H.
    destruct (sequence _) as [idxs|]; [|discriminate].
    destruct (tstep x2 _) as [x3|] eqn:E3; [|discriminate].
    apply tstep_inv in E3 as [E3 _].
    destruct (frame_not_ann _ _ _ _ _ E3 T2 ltac:(intros; discriminate)) as (TT3 & N3 & L3).
    destruct (rd_read_step _ _ _ _ _ _ _ _ T2 E3) as (r0 & _ & T3 & CASES).
    destruct (at_most_n_distinct t _ _ _ _ _ _ _ _ R2 T2 E3) as (r1 & T3a & LEN & ND).
    destruct (reflects_latest t _ _ _ _ _ _ _ _ R2 T2 E3) as (r2 & mid & T3b & S1 & S2 & _ & LATEST).
    rewrite T3 in T3a, T3b. inversion T3a; subst r1. inversion T3b; subst r2.
    rewrite (thread_at_of_nth_error _ _ _ T3) in H.
    destruct (peers_eqb r0 res) eqn:PE; inversion H; subst x'. apply peers_eqb_eq in PE. subst r0.
    assert (MID : mid = log (fst x)).
    { rewrite L2, L1 in S2. rewrite L1 in S1. apply suffix_antisym; assumption. }
    subst mid.
    split; [congruence|]. split; [unfold nl; congruence|].
    unfold get_ok. rewrite !andb_true_iff. repeat split.
    + apply Z.leb_le. exact LEN.
    + apply nodupN_NoDup. exact ND.
    + apply forallb_forall. intros r Hr. destruct (LATEST r Hr) as (a & LA & PA).
      rewrite LA. apply peer_eqb_eq. exact PA.
    + destruct (Z.ltb (Z.of_nat (length res)) n) eqn:LT; [|reflexivity]. apply Z.ltb_lt in LT.
      pose proof (read_whole _ _ _ _ CASES LT) as WH.
      apply fresh_covered_intro. intros i b LA F. unfold fresh in F. apply N.ltb_lt in F.
      assert (LA2 : last_ann (log (fst x2)) h i = Some b) by (rewrite L2, L1; exact LA).
      assert (IN0 : In b (log (fst x1))) by (rewrite L1; apply last_ann_some in LA; tauto).
      assert (F2 : now (fst x2) < a_time b + ttl (fst x2)) by (rewrite N2, N1, TT2, TT1; exact F).
      destruct (read_returns_all_fresh t _ _ _ _ _ _ _ _ i b R2 T2 E3 LA2 IN0 F2 WH) as (r3 & T3c & IN).
      rewrite T3 in T3c. inversion T3c; subst. exact IN.
Qed.

(* ---------- the cleanup passes and the log ---------- *)

Lemma apply_mid_nl : forall x h m x', apply_mid x h m = Some x' ->
  ttl (fst x') = ttl (fst x) /\ nl x' = spec_mid (nl x) (h, m).
Proof.
  intros x h [m|] x' H; unfold apply_mid in H; [|inversion H; subst; auto].
  unfold obind in H.
  destruct (tstep x _) as [x1|] eqn:E1; [|discriminate].
  destruct (seq_ann x1 _ _) as [x2|] eqn:E2; [|discriminate].
  apply tstep_inv in E1 as [E1 _]. apply tstep_inv in H as [E3 _].
  destruct (cstep_frame _ _ _ E1) as (T1 & N1 & [L1|(? & ? & ? & ? & ? & EQ & _)]); [|discriminate].
  destruct (seq_ann_nl _ _ _ _ E2) as (T2 & NL2). unfold nl in NL2. apply pair_equal_spec in NL2 as [N2 L2].
  destruct (cstep_frame _ _ _ E3) as (T3 & N3 & [L3|(? & ? & ? & ? & ? & EQ & _)]); [|discriminate].
  split; [congruence|]. unfold nl, spec_mid. cbn. rewrite N3, L3, N2, L2, N1, L1. reflexivity.
Qed.

Lemma frame_thread_at : forall x tid x' p, tstep x (LRun tid []) = Some x' -> thread_at (fst x) tid = p ->
  p <> PDone [] -> (forall h pr g, p <> PAnnLockG h pr g) ->
  ttl (fst x') = ttl (fst x) /\ nl x' = nl x.
Proof.
  intros x tid x' p T TH ND NA. apply tstep_inv in T as [E _].
  pose proof (nth_error_of_thread_at _ _ _ TH ND) as NTH.
  destruct (frame_not_ann _ _ _ _ _ E NTH NA) as (A & B & C). unfold nl. split; congruence.
Qed.

Lemma seq_ce_loop_nl : forall fuel x tid evs x', seq_ce_loop fuel x tid evs = Some x' ->
  ttl (fst x') = ttl (fst x) /\ nl x' = fold_left spec_mid evs (nl x).
Proof.
  induction fuel as [|f IH]; intros x tid evs x' H; cbn in H; [discriminate|].
  destruct (thread_at (fst x) tid) as [| | | | |[|g todo]| |] eqn:TH; try discriminate.
  - destruct evs; [|discriminate]. cbn.
    eapply frame_thread_at; eauto; intros; discriminate.
  - unfold obind in H.
    destruct (tstep x _) as [x1|] eqn:E1; [|discriminate].
    destruct (frame_thread_at _ _ _ _ E1 TH ltac:(discriminate) ltac:(intros; discriminate)) as (T1 & NL1).
    destruct (match evs with [] => Some x1 | e :: _ => apply_mid x1 (fst e) (snd e) end) as [x2|] eqn:E2; [|discriminate].
    assert (M : ttl (fst x2) = ttl (fst x) /\ fold_left spec_mid evs (nl x) = fold_left spec_mid (tl evs) (nl x2)).
    { destruct evs as [|[h m] evs]; [inversion E2; subst; cbn; split; congruence|].
      cbn in E2. apply apply_mid_nl in E2 as [T2 NL2]. cbn. split; [congruence|]. rewrite NL2, NL1. reflexivity. }
    destruct M as [T2 ->].
    destruct (thread_at (fst x2) tid) eqn:TH2;
      try (destruct (IH _ _ _ _ H) as (T3 & NL3); split; [congruence|exact NL3]).
    destruct (tstep x2 _) as [x3|] eqn:E3; [|discriminate].
    destruct (frame_thread_at _ _ _ _ E3 TH2 ltac:(discriminate) ltac:(intros; discriminate)) as (T3 & NL3).
    destruct (IH _ _ _ _ H) as (T4 & NL4). split; [congruence|]. rewrite NL4, NL3. reflexivity.
Qed.

Lemma frame_plain : forall x l x', tstep x l = Some x' ->
  (forall dt, l <> LTick dt) -> (forall tid orc, l <> LRun tid orc) ->
  ttl (fst x') = ttl (fst x) /\ nl x' = nl x.
Proof.
  intros x l x' T NT NR. apply tstep_inv in T as [E _].
  destruct (cstep_frame _ _ _ E) as (A & B & C). split; [exact A|]. unfold nl. f_equal.
  - destruct l; try exact B. exfalso; eapply NT; eauto.
  - destruct C as [C|(tid & orc & ? & ? & ? & EQ & _)]; [exact C|]. exfalso; eapply NR; eauto.
Qed.

Lemma seq_cg_loop_nl : forall fuel x x', seq_cg_loop fuel x = Some x' ->
  ttl (fst x') = ttl (fst x) /\ nl x' = nl x.
Proof.
  induction fuel as [|f IH]; intros x x' H; cbn in H; [discriminate|].
  destruct (smu (fst x)); [|inversion H; subst; auto].
  unfold obind in H. destruct (tstep x _) as [x1|] eqn:E1; [|discriminate].
  destruct (frame_plain _ _ _ E1 ltac:(intros; discriminate) ltac:(intros; discriminate)) as (T1 & NL1).
  destruct (IH _ _ H) as (T2 & NL2). split; congruence.
Qed.

(* ---------- soundness of the executable property on accepted histories ---------- *)

Lemma seq_step_check : forall t x o x', good (init t) x -> seq_step x o = Some x' ->
  ttl (fst x') = ttl (fst x) /\
  match o with
  | OTick dt => nl x' = (fst (nl x) + dt, snd (nl x))
  | OAnn h p => nl x' = (fst (nl x), mkann h p (fst (nl x)) :: snd (nl x))
  | OGet h n res => nl x' = nl x /\ get_ok (ttl (fst x)) (fst (nl x)) (snd (nl x)) h n res = true
  | OCleanE evs => nl x' = fold_left spec_mid evs (nl x)
  | OCleanG => nl x' = nl x
  end.
Proof.
  intros t x o x' GD H. destruct o; cbv beta iota delta [seq_step] in H.
  - apply tstep_inv in H as [E _]. destruct (cstep_frame _ _ _ E) as (A & B & [C|(? & ? & ? & ? & ? & EQ & _)]); [|discriminate].
    split; [exact A|]. unfold nl. cbn. congruence.
  - apply seq_ann_nl in H. exact H.
  - destruct (seq_get_ok _ _ _ _ _ _ GD H) as (A & B & C). auto.
  - unfold seq_cleane, obind in H.
    destruct (sequence _) as [first|]; [|discriminate].
    destruct (tstep x _) as [x1|] eqn:E1; [|discriminate].
    destruct (tstep x1 _) as [x2|] eqn:E2; [|discriminate].
    destruct (seq_ce_loop _ _ _ _) as [x3|] eqn:E3; [|discriminate].
    destruct (thread_at (fst x3) _); inversion H; subst x3.
    destruct (frame_plain _ _ _ E1 ltac:(intros; discriminate) ltac:(intros; discriminate)) as (T1 & NL1).
    apply tstep_inv in E1 as [E1 _].
    destruct (spawn_thread _ _ _ E1) as (TH1 & _). cbn in TH1.
    pose proof E2 as E2'. apply tstep_inv in E2' as [E2' _].
    destruct (frame_not_ann _ _ _ _ _ E2' TH1 ltac:(intros; discriminate)) as (T2 & N2 & L2).
    destruct (seq_ce_loop_nl _ _ _ _ _ E3) as (T3 & NL3).
    split; [congruence|]. rewrite NL3. f_equal. unfold nl in *. inversion NL1. congruence.
  - unfold seq_cleang, obind in H.
    destruct (tstep x _) as [x1|] eqn:E1; [|discriminate].
    destruct (frame_plain _ _ _ E1 ltac:(intros; discriminate) ltac:(intros; discriminate)) as (T1 & NL1).
    destruct (seq_cg_loop_nl _ _ _ H) as (T2 & NL2). split; congruence.
Qed.

Lemma seq_run_check : forall ops t x x', good (init t) x -> ttl (fst x) = t ->
  seq_run x ops = Some x' -> check_from t (nl x) ops = true.
Proof.
  induction ops as [|o rest IH]; intros t x x' GD TT H; [reflexivity|].
  cbn [seq_run] in H. unfold obind in H. destruct (seq_step x o) as [x1|] eqn:E; [|discriminate].
  pose proof (seq_step_pres (good (init t)) (tstep_good (init t)) _ _ _ GD E) as GD1.
  destruct (seq_step_check _ _ _ _ GD E) as (T1 & SPEC).
  assert (TT1 : ttl (fst x1) = t) by congruence.
  specialize (IH t x1 x' GD1 TT1 H).
  destruct o; cbn [check_from].
  - rewrite <- SPEC. exact IH.
  - rewrite <- SPEC. exact IH.
  - destruct SPEC as [NL OK]. rewrite TT in OK. rewrite OK. rewrite <- NL. exact IH.
  - rewrite <- SPEC. exact IH.
  - rewrite <- SPEC. exact IH.
Qed.

(* whenever the observed history is a behaviour of the model, the property holds on it *)
Theorem check_sound : forall t ops x, run t ops = Some x -> C27_check t ops = true.
Proof.
  intros t ops x H. unfold run in H. unfold C27_check.
  change (0, @nil ann) with (nl (init t, @nil lbl)).
  eapply seq_run_check; [|reflexivity|exact H]. reflexivity.
Qed.
