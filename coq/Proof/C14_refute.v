(* C14 — the code before the fixes (each guard removed on its own) violates the property: concrete witnesses.
   Every witness is also a seed case of the driver (harness/overlay/c14), where the real pre-fix code crashes. *)
From Coq Require Import List ZArith Bool Lia.
From K.Model Require Import C14.
Import ListNotations.
Local Open Scope Z_scope.

Definition tA : torrent := mkt Agent 4 8 29.
Definition tO : torrent := mkt Origin 4 8 29.
Definition haveA : list bool := [true; false; false; false].
Definition haveO : list bool := [true; true; true; true].

(* a dispatcher with one connected peer (id 1) whose bitfield is empty *)
Definition with_peer (t : torrent) (have : list bool) : dst :=
  match add_peer gfixed t (init t have) 1 (honest_bits t false) false [] with
  | HAccept a => a_st a
  | _ => init t have
  end.

Definition no_nilbody := mkg false true true true true.
Definition no_negidx := mkg true false true true true.
Definition no_paylen := mkg true true false true true.
Definition no_bfprefix := mkg true true true false true.
Definition no_bfsize := mkg true true true true false.

Definition msg (ty : Z) req pay ann err : wmsg := mkm 16 true ty req pay ann err true false.

(* class 1: a message without the body of its type *)
Lemma nil_body_refuted :
  wf_torrent tA = true /\ inv tA (with_peer tA haveA) = true /\
  step no_nilbody tA (with_peer tA haveA) 1 (msg 3 None None None None) = None /\   (* ANNOUCE_PIECE, no AnnouncePiece *)
  step no_nilbody tA (with_peer tA haveA) 1 (msg 1 None None None None) = None /\   (* PIECE_REQUEST *)
  step no_nilbody tA (with_peer tA haveA) 1 (msg 5 None None None None) = None /\   (* ERROR *)
  step no_nilbody tA (with_peer tA haveA) 1 (msg 2 None None None None) = None /\   (* PIECE_PAYLOAD: conn.readMessage *)
  step no_nilbody tO (with_peer tO haveO) 1 (msg 3 None None None None) = None.
Proof. vm_compute. repeat split; reflexivity. Qed.

(* class 2: negative piece index *)
Lemma negative_index_refuted :
  step no_negidx tA (with_peer tA haveA) 1 (msg 3 None None (Some (-1)) None) = None /\            (* announce -1 *)
  step no_negidx tA (with_peer tA haveA) 1 (msg 3 None None (Some (-5)) None) = None /\
  step no_negidx tO (with_peer tO haveO) 1 (msg 3 None None (Some (-2147483648)) None) = None /\
  step no_negidx tA (with_peer tA haveA) 1 (msg 1 (Some (-1, 0, 0)) None None None) = None /\       (* request -1, length 0: t.pieces[-1] *)
  step no_negidx tO (with_peer tO haveO) 1 (msg 1 (Some (-1, 0, 0)) None None None) = None /\       (* origin: bitfield.Set(uint(-1)) *)
  step no_negidx tA (with_peer tA haveA) 1 (msg 2 None (Some (-1, 0, 0)) None None) = None.         (* payload -1, length 0 *)
Proof. vm_compute. repeat split; reflexivity. Qed.

(* class 3: payload length *)
Lemma payload_length_refuted :
  step no_paylen tA (with_peer tA haveA) 1 (msg 2 None (Some (1, 0, -1)) None None) = None /\
  (exists a, step no_paylen tA (with_peer tA haveA) 1 (mkm 16 true 2 None (Some (1, 0, 2147483647)) None None false false) = Some a /\
             In (EAlloc 2147483647) (a_eff a) /\ eff_ok tA (EAlloc 2147483647) = false).
Proof. vm_compute. split; [reflexivity|]. eexists; split; [reflexivity|]. split; [right; left; reflexivity | reflexivity]. Qed.

(* class 4: the 64-bit bit count of a handshake bitfield *)
Definition hs (bf : rawbf) (rb : list (bool * rawbf)) : hshake := mkh 200 true 0 true true true true bf rb true false.

Lemma bitfield_prefix_refuted :
  wf_hs (hs (Some (2 ^ 50, [], 0)) []) = true /\
  (exists st es, handshake no_bfprefix tA (init tA haveA) 1 (hs (Some (2 ^ 50, [], 0)) []) = HReject st es /\
                 In (EAlloc (2 ^ 47)) es /\ eff_ok tA (EAlloc (2 ^ 47)) = false) /\
  (exists st es, handshake no_bfprefix tA (init tA haveA) 1 (hs (Some (4, [0], 8)) [(true, Some (2 ^ 50, [], 0))]) = HReject st es /\
                 In (EAlloc (2 ^ 47)) es).
Proof.
  vm_compute. split; [reflexivity|]. split.
  - do 2 eexists; split; [reflexivity|]. split; [right; left; reflexivity | reflexivity].
  - do 2 eexists; split; [reflexivity|]. right; right; right; left; reflexivity.
Qed.

(* class 5: a bitfield that does not fit the torrent reaches the per-piece counters *)
Lemma bitfield_size_refuted :
  wf_hs (hs (Some (5, [16], 8)) []) = true /\
  handshake no_bfsize tA (init tA haveA) 1 (hs (Some (5, [16], 8)) []) = HPanic /\                 (* 5 bits, bit 4 set *)
  handshake no_bfsize tA (init tA haveA) 1 (hs (Some (64, [18446744073709551615], 8)) []) = HPanic /\
  handshake no_bfsize tA (init tA haveA) 1 (hs (Some (4, [1099511627776], 8)) []) = HPanic /\      (* 4 bits, bit 40 dirty *)
  handshake no_bfsize tO (init tO haveO) 1 (hs (Some (65, [0; 1], 16)) []) = HPanic.
Proof. vm_compute. repeat split; reflexivity. Qed.

(* the same inputs on the patched code: rejected / connection closed, nothing else *)
Lemma witnesses_handled_by_fixed_code :
  (exists a, step gfixed tA (with_peer tA haveA) 1 (msg 3 None None (Some (-1)) None) = Some a /\ a_st a = with_peer tA haveA) /\
  (exists a, step gfixed tA (with_peer tA haveA) 1 (msg 3 None None None None) = Some a /\ a_st a = with_peer tA haveA) /\
  (exists a, step gfixed tA (with_peer tA haveA) 1 (msg 1 (Some (-1, 0, 0)) None None None) = Some a /\
             a_st a = with_peer tA haveA /\ a_eff a = [EAlloc 16; ESend 1 (RErr (-1) 0)]) /\
  (exists a, step gfixed tA (with_peer tA haveA) 1 (msg 2 None (Some (1, 0, 2147483647)) None None) = Some a /\
             a_eff a = [EAlloc 16; EClose 1]) /\
  (exists es, handshake gfixed tA (init tA haveA) 1 (hs (Some (2 ^ 50, [], 0)) []) = HReject 0 es /\ es = [EAlloc 200]) /\
  (exists es, handshake gfixed tA (init tA haveA) 1 (hs (Some (5, [16], 8)) []) = HReject 2 es).
Proof. vm_compute. repeat split; eexists; repeat split; reflexivity. Qed.
