(* C38: an extractor applied to a built path of a kind that does not carry its component rejects. *)
From Coq Require Import List NArith Arith Bool Lia.
From K.Gen Require Import C38_consts.
From K.Model Require Import C38.
From K.Proof Require Import C38_engine C38_segs C38_tac.
Import ListNotations.
Local Open Scope N_scope.

Ltac none_rev := apply exec_none;
  let t1 := fresh "t1" in let t2 := fresh "t2" in let c' := fresh "c'" in
  let Hp := fresh "Hp" in let HD := fresh "HD" in
  intros t1 t2 c' Hp HD; dD HD; subst; facts; to_segs Hp; rev_inj Hp; finish2.

Definition has_tag k := match k with KTagCurrent _ _ | KTagIndex _ _ _ => true | _ => false end.
Lemma tag_none k : pk_ok k = true -> has_tag k = false -> exec ast_get_manifest_tag (build k) = None.
Proof.
  destruct k; cbn [pk_ok has_tag]; intros Hk Hx; try discriminate Hx; facts.
  all: try (destruct data).
  all: none_rev.
Qed.
