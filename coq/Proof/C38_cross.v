(* C38: an extractor applied to a built path of a kind that does not carry its component rejects. *)
From Coq Require Import List NArith Arith Bool Lia.
From K.Gen Require Import C38_consts.
From K.Model Require Import C38.
From K.Proof Require Import C38_engine C38_segs C38_tac C38_shapes.
Import ListNotations.
Local Open Scope N_scope.

Ltac none_rev lem := apply exec_none;
  let t1 := fresh "t1" in let t2 := fresh "t2" in let c' := fresh "c'" in
  let Hp := fresh "Hp" in let HD := fresh "HD" in
  intros t1 t2 c' Hp HD; apply lem in HD; dS HD; subst; facts; to_segs Hp; rev_inj Hp; finish2.

Definition has_tag k := match k with KTagCurrent _ _ | KTagIndex _ _ _ => true | _ => false end.
Lemma tag_none k : pk_ok k = true -> has_tag k = false -> exec ast_get_manifest_tag (build k) = None.
Proof.
  destruct k; cbn [pk_ok has_tag]; intros Hk Hx; try discriminate Hx; facts.
  all: try (destruct data).
  all: none_rev shape_tag.
Qed.

Definition is_blob k := match k with KBlob _ => true | _ => false end.
Lemma blob_none k : pk_ok k = true -> is_blob k = false -> exec ast_get_blob_digest (build k) = None.
Proof.
  destruct k; cbn [pk_ok is_blob]; intros Hk Hx; try discriminate Hx; facts.
  all: try (destruct data).
  all: none_rev shape_blob_digest.
Qed.

Definition is_layer k := match k with KLayer _ _ _ => true | _ => false end.
Lemma layer_none k : pk_ok k = true -> is_layer k = false -> exec ast_get_layer_digest (build k) = None.
Proof.
  destruct k; cbn [pk_ok is_layer]; intros Hk Hx; try discriminate Hx; facts.
  all: none_rev shape_layer_digest.
Qed.

Definition has_mdigest k := match k with KRevision _ _ | KTagIndex _ _ _ => true | _ => false end.
Lemma mdigest_none k : pk_ok k = true -> has_mdigest k = false -> exec ast_get_manifest_digest (build k) = None.
Proof.
  destruct k; cbn [pk_ok has_mdigest]; intros Hk Hx; try discriminate Hx; facts.
  all: try (destruct data).
  all: none_rev shape_mdigest.
Qed.

Definition is_upload k := match k with KUploadData _ _ | KUploadStartedAt _ _ | KUploadHashStates _ _ _ | KUploadHashState _ _ _ _ => true | _ => false end.
Lemma uuid_none k : pk_ok k = true -> is_upload k = false -> exec ast_get_upload_uuid (build k) = None.
Proof.
  destruct k; cbn [pk_ok is_upload]; intros Hk Hx; try discriminate Hx; facts.
  all: try (destruct data).
  all: none_rev shape_uuid.
Qed.

Definition is_hashstate k := match k with KUploadHashState _ _ _ _ => true | _ => false end.
Lemma algo_none k : pk_ok k = true -> is_hashstate k = false -> exec ast_get_upload_algo_offset (build k) = None.
Proof.
  destruct k; cbn [pk_ok is_hashstate]; intros Hk Hx; try discriminate Hx; facts.
  all: try (destruct data).
  all: none_rev shape_algo.
Qed.

Lemma repo_none h : valid_hex h = true -> exec ast_get_repo (build (KBlob h)) = None.
Proof.
  intros Hh. apply exec_none. intros t1 t2 c' Hp HD. apply shape_repo in HD. dS HD; subst; facts.
  all: to_segs Hp; cbn [app] in Hp; scan_front Hp; finish2.
Qed.
