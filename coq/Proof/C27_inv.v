(* C27: the inductive invariant of the lock-region transition system and its preservation by
   every step (hence by every schedule of announcers, readers and cleanup passes). *)
From Coq Require Import List NArith ZArith Bool Arith Lia Permutation.
From K.Model Require Import C27.
From K.Proof Require Import C27_base C27_group.
Import ListNotations.
Local Open Scope N_scope.

Definition suffix {A} (a b : list A) : Prop := exists c, b = c ++ a.

Lemma suffix_refl {A} : forall l : list A, suffix l l.
Proof. intros; now exists []. Qed.
Lemma suffix_cons {A} : forall (a b : list A) x, suffix a b -> suffix a (x :: b).
Proof. intros a b x [c ->]. now exists (x :: c). Qed.
Lemma suffix_trans {A} : forall a b c : list A, suffix a b -> suffix b c -> suffix a c.
Proof. intros a b c [x ->] [y ->]. exists (y ++ x). now rewrite app_assoc. Qed.
Lemma suffix_in {A} : forall (a b : list A) x, suffix a b -> In x a -> In x b.
Proof. intros a b x [c ->] H. apply in_or_app; auto. Qed.
Lemma suffix_length {A} : forall a b : list A, suffix a b -> (length a <= length b)%nat.
Proof. intros a b [c ->]. rewrite app_length. lia. Qed.
Lemma suffix_antisym {A} : forall a b : list A, suffix a b -> suffix b a -> a = b.
Proof.
  intros a b [c E] H. apply suffix_length in H. subst b. rewrite app_length in H.
  destruct c; [reflexivity|cbn in H; lia].
Qed.

(* ---------- the announcement log ---------- *)

Lemma last_ann_some : forall lg h i a, last_ann lg h i = Some a ->
  In a lg /\ a_hash a = h /\ p_id (a_peer a) = i.
Proof.
  induction lg as [|b t IH]; cbn; intros h i a H; [discriminate|].
  destruct (N.eqb (a_hash b) h && N.eqb (p_id (a_peer b)) i) eqn:E.
  - inversion H; subst. apply andb_true_iff in E as [E1 E2].
    apply N.eqb_eq in E1, E2. auto.
  - apply IH in H. tauto.
Qed.

Lemma last_ann_cons_other : forall lg h i b,
  (a_hash b <> h \/ p_id (a_peer b) <> i) -> last_ann (b :: lg) h i = last_ann lg h i.
Proof.
  intros lg h i b H. cbn.
  destruct (N.eqb (a_hash b) h && N.eqb (p_id (a_peer b)) i) eqn:E; auto.
  apply andb_true_iff in E as [E1 E2]. apply N.eqb_eq in E1, E2. tauto.
Qed.

Lemma last_ann_cons_same : forall lg h pr tm, last_ann (mkann h pr tm :: lg) h (p_id pr) = Some (mkann h pr tm).
Proof. intros. cbn. now rewrite !N.eqb_refl. Qed.

Lemma last_ann_in : forall lg h i b, In b lg -> a_hash b = h -> p_id (a_peer b) = i ->
  exists a, last_ann lg h i = Some a.
Proof.
  induction lg as [|c t IH]; cbn; intros h i b H Hh Hi; [tauto|].
  destruct (N.eqb (a_hash c) h && N.eqb (p_id (a_peer c)) i) eqn:E; eauto.
  destruct H as [->|H]; eauto.
  subst. now rewrite !N.eqb_refl in E.
Qed.

(* ---------- what the ghost log says about one group ---------- *)

Section Ghost.
Variables (nw tt : N) (lg : list ann).

(* a group that is in s.peerGroups *)
Definition glive (G : group) : Prop :=
  (* every listed entry is the most recent announcement of its peer for the torrent *)
  (forall p, In p (g_list G) -> exists a,
      last_ann lg (g_hash G) (idof G p) = Some a /\ a_peer a = e_peer (entry_at G p)
      /\ a_time a + tt = e_exp (entry_at G p)) /\
  (* lastExpiresAt bounds the expiry of everything ever announced for the torrent *)
  (forall a, In a lg -> a_hash a = g_hash G -> a_time a + tt <= g_last G) /\
  (* the most recent announcement of a peer, while fresh, is listed *)
  (forall i a, last_ann lg (g_hash G) i = Some a -> nw < a_time a + tt ->
      exists p, In p (g_list G) /\ e_peer (entry_at G p) = a_peer a).

(* a group that was deleted when the log was g_deadlog *)
Definition gdead (G : group) : Prop :=
  suffix (g_deadlog G) lg /\
  (forall p, In p (g_list G) -> exists a,
      last_ann (g_deadlog G) (g_hash G) (idof G p) = Some a /\ a_peer a = e_peer (entry_at G p)) /\
  (forall a, In a (g_deadlog G) -> a_hash a = g_hash G -> a_time a + tt < nw).

Definition ginv (G : group) : Prop :=
  gwf G /\ g_last G <= nw + tt /\ (if g_deleted G then gdead G else glive G).
End Ghost.

Lemma ginv_tick : forall nw nw' tt lg G, nw <= nw' -> ginv nw tt lg G -> ginv nw' tt lg G.
Proof.
  intros nw nw' tt lg G LE (WF & LAST & H). split; [exact WF|]. split; [lia|].
  destruct (g_deleted G).
  - destruct H as (S & A & D). split; [exact S|]. split; [exact A|].
    intros a Ha Hh. specialize (D a Ha Hh). lia.
  - destruct H as (A & B & C). split; [exact A|]. split; [exact B|].
    intros i a Hl Hf. apply (C i a Hl). lia.
Qed.

Lemma ginv_new : forall nw tt lg h,
  (forall a, In a lg -> a_time a <= nw) ->
  (forall a, In a lg -> a_hash a = h -> a_time a + tt < nw) ->
  ginv nw tt lg (new_group h (nw + tt)).
Proof.
  intros nw tt lg h TM NL. split; [|split; [cbn; lia|]].
  - constructor; cbn; try tauto. split; [constructor|]. split; [constructor|]. cbn. tauto.
  - cbn. split; [cbn; tauto|]. split.
    + cbn. intros a Ha Hh. specialize (TM a Ha). lia.
    + cbn. intros i a Hl Hf. apply last_ann_some in Hl as (Hin & Hh & _).
      specialize (NL a Hin Hh). lia.
Qed.

Lemma ginv_other_cons : forall nw tt lg G b, ginv nw tt lg G ->
  (g_deleted G = true \/ a_hash b <> g_hash G) -> ginv nw tt (b :: lg) G.
Proof.
  intros nw tt lg G b (WF & LAST & H) OTHER. split; [exact WF|]. split; [exact LAST|].
  destruct (g_deleted G) eqn:ED.
  - destruct H as (S & A & D). split; [now apply suffix_cons|]. split; assumption.
  - destruct OTHER as [?|NE]; [discriminate|].
    destruct H as (A & B & C). split; [|split].
    + intros p Hp. rewrite last_ann_cons_other by auto. apply A; exact Hp.
    + intros a [->|Ha] Hh; [congruence|]. apply B; assumption.
    + intros i a. rewrite last_ann_cons_other by auto. apply C.
Qed.

Lemma ginv_update : forall nw tt lg G pr, ginv nw tt lg G -> g_deleted G = false ->
  ginv nw tt (mkann (g_hash G) pr nw :: lg) (update_entry nw tt G pr).
Proof.
  intros nw tt lg G pr (WF & LAST & H) ED. rewrite ED in H. destruct H as (A & B & C).
  destruct (update_fields nw tt G pr) as (FH & FD & FL & FT).
  destruct (update_char nw tt G pr WF) as (ptr & PIN & PENT & KEEP & OTHER & PID).
  set (G' := update_entry nw tt G pr) in *.
  split; [apply update_gwf; assumption|]. split; [rewrite FT; lia|].
  rewrite FD, ED. unfold glive. rewrite FH.
  assert (IDPTR : idof G' ptr = p_id pr) by (unfold idof, eid; fold (entry_at G' ptr); now rewrite PENT).
  split; [|split].
  - intros p Hp. destruct (Nat.eq_dec p ptr) as [->|Hne].
    + rewrite IDPTR, last_ann_cons_same. eexists. split; [reflexivity|]. rewrite PENT. cbn. auto.
    + destruct (OTHER p Hp Hne) as (Hin & HE & HID).
      assert (IDP : idof G' p = idof G p) by (unfold idof, eid; fold (entry_at G' p) (entry_at G p); now rewrite HE).
      rewrite IDP, last_ann_cons_other by (right; cbn; congruence). rewrite HE. apply A. exact Hin.
  - intros a [<-|Ha] Hh; [cbn; lia|]. specialize (B a Ha Hh). lia.
  - intros i a Hl Hf. destruct (N.eq_dec i (p_id pr)) as [->|Hne].
    + rewrite last_ann_cons_same in Hl. inversion Hl; subst a. exists ptr. split; [exact PIN|].
      rewrite PENT. reflexivity.
    + rewrite last_ann_cons_other in Hl by (right; cbn; congruence).
      destruct (C i a Hl Hf) as (p & Hp & HP).
      assert (Hne2 : p <> ptr).
      { intros ->. specialize (PID Hp). apply last_ann_some in Hl as (_ & _ & Hi).
        apply Hne. rewrite <- Hi, <- HP. exact PID. }
      exists p. split; [apply KEEP; exact Hp|].
      destruct (OTHER p (KEEP p Hp) Hne2) as (_ & HE & _). now rewrite HE.
Qed.

Lemma ginv_remove : forall nw tt lg G ex, ginv nw tt lg G -> ginv nw tt lg (remove_expired nw G ex).
Proof.
  intros nw tt lg G ex (WF & LAST & H).
  destruct (remove_fields nw G ex) as (FH & FD & FL & FT & FE).
  destruct (remove_char nw G ex WF) as (WF' & SUB & ENT & EXP).
  set (G' := remove_expired nw G ex) in *.
  assert (IDP : forall p, idof G' p = idof G p) by (intros p; unfold idof; now rewrite FE).
  split; [exact WF'|]. split; [rewrite FT; exact LAST|]. rewrite FD.
  destruct (g_deleted G).
  - destruct H as (S & A & D). unfold gdead. rewrite FH, FL. split; [exact S|]. split; [|exact D].
    intros p Hp. rewrite IDP, ENT. apply A. apply SUB. exact Hp.
  - destruct H as (A & B & C). unfold glive. rewrite FH, FT. split; [|split; [exact B|]].
    + intros p Hp. rewrite IDP, ENT. apply A. apply SUB. exact Hp.
    + intros i a Hl Hf. destruct (C i a Hl Hf) as (p & Hp & HP).
      exists p. rewrite ENT. split; [|exact HP].
      destruct (in_dec Nat.eq_dec p (g_list G')) as [Hin|Hnin]; [exact Hin|exfalso].
      specialize (EXP p Hp Hnin).
      destruct (A p Hp) as (a' & Hl' & HP' & HT').
      assert (idof G p = i).
      { apply last_ann_some in Hl as (_ & _ & Hi). unfold idof, eid. fold (entry_at G p). now rewrite HP. }
      subst i. rewrite Hl in Hl'. inversion Hl'; subst a'. lia.
Qed.

Lemma ginv_delete : forall nw tt lg G, ginv nw tt lg G -> g_deleted G = false -> g_last G < nw ->
  ginv nw tt lg (mark_deleted lg G).
Proof.
  intros nw tt lg G (WF & LAST & H) ED LT. rewrite ED in H. destruct H as (A & B & C).
  split; [|split; [exact LAST|]].
  - destruct WF as [IDX PTR LST]. constructor; cbn; assumption.
  - cbn. split; [apply suffix_refl|]. split.
    + cbn. intros p Hp. destruct (A p Hp) as (a & H1 & H2 & _). eauto.
    + cbn. intros a Ha Hh. specialize (B a Ha Hh). lia.
Qed.

(* ---------- the state invariant ---------- *)

Definition grp (hp : list group) (g : nat) : group := nth g hp dummy_group.
Arguments grp : simpl never.

Definition pc_ok (hp : list group) (lg : list ann) (p : pc) : Prop :=
  match p with
  | PAnnLockG h _ g => (g < length hp)%nat /\ g_hash (grp hp g) = h
  | PRdRead h _ g log0 =>
      (g < length hp)%nat /\ g_hash (grp hp g) = h /\ suffix log0 lg /\
      (g_deleted (grp hp g) = true -> suffix log0 (g_deadlog (grp hp g)))
  | PCeScan todo => Forall (fun g => (g < length hp)%nat) todo
  | PCeRemove g _ todo => (g < length hp)%nat /\ Forall (fun g => (g < length hp)%nat) todo
  | _ => True
  end.

Definition cg_ok (gm : list (N * nat)) (c : cg) : Prop :=
  match c with
  | CgCheck todo => NoDup (map fst todo) /\ incl todo gm
  | CgDelete h g todo => In (h, g) gm /\ NoDup (h :: map fst todo) /\ incl todo gm
  end.

Record inv (s : st) : Prop := mk_inv {
  i_groups : forall g, (g < length (heap s))%nat -> ginv (now s) (ttl s) (log s) (grp (heap s) g);
  i_keys : NoDup (map fst (gmap s));
  i_gmap : forall h g, In (h, g) (gmap s) ->
             (g < length (heap s))%nat /\ g_hash (grp (heap s) g) = h /\ g_deleted (grp (heap s) g) = false;
  i_live : forall g, (g < length (heap s))%nat -> g_deleted (grp (heap s) g) = false ->
             In (g_hash (grp (heap s) g), g) (gmap s);
  i_time : forall a, In a (log s) -> a_time a <= now s;
  i_nolive : forall h, assoc h (gmap s) = None ->
             forall a, In a (log s) -> a_hash a = h -> a_time a + ttl s < now s;
  i_threads : Forall (pc_ok (heap s) (log s)) (threads s);
  i_cg : match smu s with Some c => cg_ok (gmap s) c | None => True end
}.

Lemma inv_init : forall t, inv (init t).
Proof.
  intros t. constructor; cbn; try tauto; try (intros; lia); try constructor.
Qed.

Lemma Forall_set_nth {A} : forall (P : A -> Prop) i x l, Forall P l -> P x -> Forall P (set_nth i x l).
Proof.
  intros P i x l H Hx. revert i. induction H as [|y t Hy Ht IH]; intros [|i]; cbn; auto.
Qed.

Lemma grp_set_eq : forall hp g G, (g < length hp)%nat -> grp (set_nth g G hp) g = G.
Proof. intros. unfold grp. now apply nth_set_nth_eq. Qed.
Lemma grp_set_neq : forall hp g g' G, g <> g' -> grp (set_nth g G hp) g' = grp hp g'.
Proof. intros. unfold grp. now apply nth_set_nth_neq. Qed.
Lemma grp_app_old : forall hp G g, (g < length hp)%nat -> grp (hp ++ [G]) g = grp hp g.
Proof. intros. unfold grp. now apply app_nth1. Qed.
Lemma grp_app_new : forall hp G, grp (hp ++ [G]) (length hp) = G.
Proof. intros. unfold grp. rewrite app_nth2 by lia. now rewrite Nat.sub_diag. Qed.

Lemma pc_ok_mono : forall hp lg hp' lg' p,
  pc_ok hp lg p -> (length hp <= length hp')%nat -> suffix lg lg' ->
  (forall g, (g < length hp)%nat ->
     g_hash (grp hp' g) = g_hash (grp hp g) /\
     (g_deleted (grp hp' g) = true ->
        (g_deleted (grp hp g) = true /\ g_deadlog (grp hp' g) = g_deadlog (grp hp g))
        \/ g_deadlog (grp hp' g) = lg)) ->
  pc_ok hp' lg' p.
Proof.
  intros hp lg hp' lg' p H LEN SUF SH.
  assert (FA : forall todo, Forall (fun g => (g < length hp)%nat) todo -> Forall (fun g => (g < length hp')%nat) todo).
  { intros todo. apply Forall_impl. intros; lia. }
  destruct p; cbn in *; auto.
  - destruct H as [H1 H2]. destruct (SH g H1) as [E _]. split; [lia|congruence].
  - destruct H as (H1 & H2 & H3 & H4). destruct (SH g H1) as [E D].
    split; [lia|]. split; [congruence|]. split; [eapply suffix_trans; eauto|].
    intros HD. destruct (D HD) as [[HD0 EL]|EL]; rewrite EL; auto.
  - destruct H as [H1 H2]. split; [lia|auto].
Qed.

(* steps that only replace one thread's program counter *)
Lemma inv_set_thread : forall s tid p, inv s -> pc_ok (heap s) (log s) p -> inv (set_thread s tid p).
Proof.
  intros s tid p [] H. constructor; cbn; auto. now apply Forall_set_nth.
Qed.

Lemma inv_tick : forall s dt, inv s ->
  inv (mkst (now s + dt) (ttl s) (heap s) (gmap s) (smu s) (threads s) (log s)).
Proof.
  intros s dt []. constructor; cbn; auto.
  - intros g Hg. eapply ginv_tick; [|apply i_groups0; exact Hg]. lia.
  - intros a Ha. specialize (i_time0 a Ha). lia.
  - intros h Hh a Ha E. specialize (i_nolive0 h Hh a Ha E). lia.
Qed.

Lemma inv_spawn : forall s c, inv s -> inv (with_threads s (threads s ++ [spawn_pc c])).
Proof.
  intros s c []. constructor; cbn; auto.
  apply Forall_app. split; [assumption|]. constructor; [|constructor]. destruct c; cbn; auto.
Qed.

Lemma smu_free_none : forall s, smu_free s = true -> smu s = None.
Proof. intros s H. unfold smu_free in H. destruct (smu s); [discriminate|reflexivity]. Qed.

(* local.go:159-165: a new group is allocated for a torrent that has none *)
Lemma inv_ann_new : forall s tid h pr, inv s -> smu_free s = true -> assoc h (gmap s) = None ->
  inv (mkst (now s) (ttl s) (heap s ++ [new_group h (now s + ttl s)]) ((h, length (heap s)) :: gmap s)
            (smu s) (set_nth tid (PAnnLockG h pr (length (heap s))) (threads s)) (log s)).
Proof.
  intros s tid h pr I FREE NONE. pose proof I as []. apply smu_free_none in FREE.
  constructor; cbn.
  - intros g Hg. rewrite app_length in Hg. cbn in Hg.
    destruct (Nat.eq_dec g (length (heap s))) as [->|Hne].
    + rewrite grp_app_new. apply ginv_new; [exact i_time0|]. apply i_nolive0. exact NONE.
    + rewrite grp_app_old by lia. apply i_groups0. lia.
  - constructor; [apply assoc_none; exact NONE|exact i_keys0].
  - intros h' g [E|Hin].
    + inversion E; subst. rewrite app_length, grp_app_new. cbn. split; [lia|auto].
    + destruct (i_gmap0 h' g Hin) as (H1 & H2 & H3). rewrite app_length, grp_app_old by exact H1.
      split; [lia|auto].
  - intros g Hg HD. rewrite app_length in Hg. cbn in Hg.
    destruct (Nat.eq_dec g (length (heap s))) as [->|Hne].
    + rewrite grp_app_new. cbn. left. reflexivity.
    + rewrite grp_app_old in * by lia. right. apply i_live0; [lia|exact HD].
  - exact i_time0.
  - intros h' Hn a Ha E. destruct (N.eqb h' h) eqn:EQ; [discriminate|]. apply i_nolive0 with h'; auto.
  - apply Forall_set_nth.
    + eapply Forall_impl; [|exact i_threads0]. intros p Hp.
      eapply pc_ok_mono; [exact Hp| | apply suffix_refl|].
      * rewrite app_length. lia.
      * intros g Hg. rewrite grp_app_old by exact Hg. split; [reflexivity|]. intros HD. left. auto.
    + cbn. rewrite app_length, grp_app_new. cbn. split; [lia|reflexivity].
  - rewrite FREE. exact Logic.I.
Qed.

(* one group object is replaced by a version with the same key, deleted flag and dead log *)
Lemma inv_replace_group : forall s g G' tid p lg',
  inv s -> (g < length (heap s))%nat ->
  g_hash G' = g_hash (grp (heap s) g) ->
  g_deleted G' = g_deleted (grp (heap s) g) ->
  g_deadlog G' = g_deadlog (grp (heap s) g) ->
  suffix (log s) lg' ->
  (forall g', (g' < length (heap s))%nat -> g' <> g -> ginv (now s) (ttl s) lg' (grp (heap s) g')) ->
  ginv (now s) (ttl s) lg' G' ->
  (forall a, In a lg' -> a_time a <= now s) ->
  (forall h, assoc h (gmap s) = None -> forall a, In a lg' -> a_hash a = h -> a_time a + ttl s < now s) ->
  pc_ok (set_nth g G' (heap s)) lg' p ->
  inv (mkst (now s) (ttl s) (set_nth g G' (heap s)) (gmap s) (smu s) (set_nth tid p (threads s)) lg').
Proof.
  intros s g G' tid p lg' I Hg EH ED EL SUF OTH NEW TM NL PC. pose proof I as [].
  assert (SH : forall g', g_hash (grp (set_nth g G' (heap s)) g') = g_hash (grp (heap s) g') /\
                      g_deleted (grp (set_nth g G' (heap s)) g') = g_deleted (grp (heap s) g') /\
                      g_deadlog (grp (set_nth g G' (heap s)) g') = g_deadlog (grp (heap s) g')).
  { intros g'. destruct (Nat.eq_dec g g') as [<-|Hne].
    - rewrite grp_set_eq by exact Hg. auto.
    - rewrite grp_set_neq by exact Hne. auto. }
  constructor; cbn.
  - intros g' Hg'. rewrite set_nth_length in Hg'. destruct (Nat.eq_dec g g') as [<-|Hne].
    + rewrite grp_set_eq by exact Hg. exact NEW.
    + rewrite grp_set_neq by exact Hne. apply OTH; auto.
  - exact i_keys0.
  - intros h g' Hin. destruct (i_gmap0 h g' Hin) as (H1 & H2 & H3). destruct (SH g') as (S1 & S2 & S3).
    rewrite set_nth_length, S1, S2. auto.
  - intros g' Hg' HD. rewrite set_nth_length in Hg'. destruct (SH g') as (S1 & S2 & S3).
    rewrite S1. rewrite S2 in HD. apply i_live0; auto.
  - exact TM.
  - exact NL.
  - apply Forall_set_nth; [|exact PC].
    eapply Forall_impl; [|exact i_threads0]. intros q Hq.
    eapply pc_ok_mono; [exact Hq| | exact SUF|].
    + rewrite set_nth_length. lia.
    + intros g' Hg'. destruct (SH g') as (S1 & S2 & S3). split; [exact S1|].
      intros HD. left. rewrite S2 in HD. auto.
  - exact i_cg0.
Qed.

(* local.go:123-137 under g.mu, on a group that is not deleted *)
Lemma inv_ann_update : forall s tid h pr g, inv s ->
  pc_ok (heap s) (log s) (PAnnLockG h pr g) -> g_deleted (grp (heap s) g) = false ->
  inv (mkst (now s) (ttl s) (set_nth g (update_entry (now s) (ttl s) (grp (heap s) g) pr) (heap s)) (gmap s)
            (smu s) (set_nth tid (PDone []) (threads s)) (mkann h pr (now s) :: log s)).
Proof.
  intros s tid h pr g I [Hg HH] ED. pose proof I as [].
  destruct (update_fields (now s) (ttl s) (grp (heap s) g) pr) as (FH & FD & FL & FT).
  assert (INMAP : In (h, g) (gmap s)) by (rewrite <- HH; apply i_live0; auto).
  apply inv_replace_group; auto.
  - apply suffix_cons, suffix_refl.
  - intros g' Hg' Hne. apply ginv_other_cons; [apply i_groups0; exact Hg'|].
    destruct (g_deleted (grp (heap s) g')) eqn:ED'; [left; reflexivity|right]. cbn.
    intros E. apply Hne. pose proof (i_live0 g' Hg' ED') as IN'. rewrite <- E in IN'.
    eapply nodup_keys_inj; eauto.
  - rewrite <- HH. apply ginv_update; auto.
  - intros a [<-|Ha]; [cbn; lia|auto].
  - intros h' Hn a [<-|Ha] E; [|eauto]. cbn in E. subst h'. exfalso.
    apply assoc_none in Hn. apply Hn. now apply (in_map fst) in INMAP.
  - cbn. exact Logic.I.
Qed.

(* local.go:215-240 under g.mu *)
Lemma inv_ce_remove : forall s tid g ex todo, inv s -> pc_ok (heap s) (log s) (PCeRemove g ex todo) ->
  inv (mkst (now s) (ttl s) (set_nth g (remove_expired (now s) (grp (heap s) g) ex) (heap s)) (gmap s)
            (smu s) (set_nth tid (PCeScan todo) (threads s)) (log s)).
Proof.
  intros s tid g ex todo I [Hg FA]. pose proof I as [].
  destruct (remove_fields (now s) (grp (heap s) g) ex) as (FH & FD & FL & FT & FE).
  apply inv_replace_group; auto.
  - apply suffix_refl.
  - apply ginv_remove. apply i_groups0. exact Hg.
  - cbn. rewrite set_nth_length. exact FA.
Qed.

(* local.go:259-266: the group is unlinked and marked deleted in one region *)
Lemma inv_cg_delete : forall s h g todo, inv s -> smu s = Some (CgDelete h g todo) ->
  g_last (grp (heap s) g) < now s ->
  inv (mkst (now s) (ttl s) (set_nth g (mark_deleted (log s) (grp (heap s) g)) (heap s))
            (adel h (gmap s)) (Some (CgCheck todo)) (threads s) (log s)).
Proof.
  intros s h g todo I SM LT. pose proof I as []. rewrite SM in i_cg0. destruct i_cg0 as (INM & NDK & INC).
  destruct (i_gmap0 h g INM) as (Hg & HH & ED).
  apply NoDup_cons_iff in NDK as [HNI NDT].
  constructor; cbn.
  - intros g' Hg'. rewrite set_nth_length in Hg'. destruct (Nat.eq_dec g g') as [<-|Hne].
    + rewrite grp_set_eq by exact Hg. apply ginv_delete; auto.
    + rewrite grp_set_neq by exact Hne. auto.
  - apply adel_keys_nodup. exact i_keys0.
  - intros h' g' Hin. apply in_adel in Hin as [Hin Hne]. destruct (i_gmap0 h' g' Hin) as (H1 & H2 & H3).
    assert (g <> g') by (intros <-; congruence).
    rewrite set_nth_length, grp_set_neq by assumption. auto.
  - intros g' Hg' HD. rewrite set_nth_length in Hg'. destruct (Nat.eq_dec g g') as [<-|Hne].
    + rewrite grp_set_eq in HD by exact Hg. discriminate.
    + rewrite grp_set_neq in * by exact Hne. apply in_adel. split; [apply i_live0; auto|].
      intros E. apply Hne. pose proof (i_live0 g' Hg' HD) as IN'. rewrite E in IN'.
      exact (nodup_keys_inj _ _ _ _ i_keys0 INM IN').
  - exact i_time0.
  - intros h' Hn a Ha E. destruct (N.eq_dec h' h) as [->|Hne].
    + pose proof (i_groups0 g Hg) as (_ & _ & GL). rewrite ED in GL. destruct GL as (_ & B & _).
      specialize (B a Ha). rewrite HH in B. specialize (B E). lia.
    + rewrite assoc_adel_neq in Hn by exact Hne. eauto.
  - eapply Forall_impl; [|exact i_threads0]. intros q Hq.
    eapply pc_ok_mono; [exact Hq| | apply suffix_refl|].
    + rewrite set_nth_length. lia.
    + intros g' Hg'. destruct (Nat.eq_dec g g') as [<-|Hne].
      * rewrite grp_set_eq by exact Hg. cbn. split; [reflexivity|]. intros _. right. reflexivity.
      * rewrite grp_set_neq by exact Hne. split; [reflexivity|]. intros HD. left. auto.
  - split; [exact NDT|]. intros [h' g'] Hin. apply in_adel. split; [apply INC; exact Hin|].
    intros ->. apply HNI. now apply (in_map fst) in Hin.
Qed.

Lemma inv_with_smu : forall s c, inv s -> match c with Some c => cg_ok (gmap s) c | None => True end ->
  inv (with_smu s c).
Proof. intros s c [] H. constructor; cbn; auto. Qed.

Lemma inv_cg_step : forall s c, inv s -> smu s = Some c -> inv (cg_step s c).
Proof.
  intros s c I SM. pose proof (i_cg s I) as CG. rewrite SM in CG.
  destruct c as [[|[h g] todo]|h g todo]; cbn.
  - apply inv_with_smu; auto.
  - destruct CG as [ND INC]. cbn in ND.
    destruct (N.ltb (now s) (g_last (group_at s g))); apply inv_with_smu; auto; cbn.
    + inversion ND; subst. split; [assumption|]. intros x Hx. apply INC. now right.
    + split; [apply INC; now left|]. split; [exact ND|]. intros x Hx. apply INC. now right.
  - destruct (N.ltb (g_last (group_at s g)) (now s)) eqn:E.
    + apply N.ltb_lt in E. apply inv_cg_delete; auto.
    + apply inv_with_smu; auto. cbn. destruct CG as (_ & ND & INC). inversion ND; subst. auto.
Qed.

Lemma NoDup_map_inj_on {A B} : forall (f : A -> B) l,
  NoDup l -> (forall x y, In x l -> In y l -> f x = f y -> x = y) -> NoDup (map f l).
Proof.
  intros f l ND. induction ND as [|a t Hn ND IH]; intros INJ; cbn; constructor.
  - intros H. apply in_map_iff in H as [y [E Hy]]. assert (y = a) by (apply INJ; cbn; auto). subst. tauto.
  - apply IH. intros; apply INJ; cbn; auto.
Qed.

(* local.go:245-248: the pass takes s.mu and ranges over the map, each key once *)
Lemma inv_cg_start : forall s order, inv s -> smu_free s = true ->
  is_perm order (seq 0 (length (gmap s))) = true ->
  inv (with_smu s (Some (CgCheck (pick (0, 0%nat) (gmap s) order)))).
Proof.
  intros s order I FREE P. apply inv_with_smu; [exact I|]. cbn.
  apply is_perm_spec in P as (_ & ND & IN).
  assert (LT : forall i, In i order -> (i < length (gmap s))%nat).
  { intros i Hi. apply IN in Hi. apply in_seq in Hi. lia. }
  split.
  - unfold pick. rewrite map_map. apply NoDup_map_inj_on; [exact ND|].
    intros x y Hx Hy E.
    pose proof (i_keys s I) as NK. rewrite NoDup_nth with (d := 0) in NK.
    apply NK; rewrite ?map_length; auto.
    rewrite !(map_nth fst) with (d := (0, 0%nat)) in *. exact E.
  - intros x Hx. unfold pick in Hx. apply in_map_iff in Hx as [i [<- Hi]]. apply nth_In. auto.
Qed.

Lemma inv_run_thread : forall s tid orc p s', inv s -> nth_error (threads s) tid = Some p ->
  run_thread s tid orc p = Some s' -> inv s'.
Proof.
  intros s tid orc p s' I NTH RUN.
  assert (PC : pc_ok (heap s) (log s) p).
  { pose proof (i_threads s I) as FA. rewrite Forall_forall in FA. apply FA. eapply nth_error_In; eauto. }
  destruct p as [h pr|h pr g|h n|h n g log0| |todo|g ex todo|res]; cbn in RUN.
  - (* announcer: lookup / insert group *)
    destruct (smu_free s) eqn:FREE; [|discriminate].
    destruct (assoc h (gmap s)) as [g|] eqn:AS; inversion RUN; subst s'.
    + apply inv_set_thread; [exact I|]. cbn. apply assoc_in in AS.
      destruct (i_gmap s I h g AS) as (H1 & H2 & _). auto.
    + apply inv_ann_new; auto.
  - (* announcer: lock the group, retry or update *)
    destruct (g_deleted (group_at s g)) eqn:ED; inversion RUN; subst s'.
    + apply inv_set_thread; [exact I|exact Logic.I].
    + apply inv_ann_update; auto.
  - (* reader: lookup *)
    destruct (smu_free s) eqn:FREE; [|discriminate].
    destruct (assoc h (gmap s)) as [g|] eqn:AS; inversion RUN; subst s'.
    + apply inv_set_thread; [exact I|]. cbn. apply assoc_in in AS.
      destruct (i_gmap s I h g AS) as (H1 & H2 & H3).
      split; [exact H1|]. split; [exact H2|]. split; [apply suffix_refl|]. congruence.
    + apply inv_set_thread; [exact I|exact Logic.I].
  - (* reader: read the list *)
    destruct (Z.leb (read_count n (group_at s g)) 0).
    + inversion RUN; subst s'. apply inv_set_thread; [exact I|exact Logic.I].
    + destruct (valid_idxs orc _ _); inversion RUN; subst s'.
      apply inv_set_thread; [exact I|exact Logic.I].
  - (* entry cleanup: snapshot *)
    destruct (smu_free s); [|discriminate].
    destruct (is_perm orc (map snd (gmap s))) eqn:P; inversion RUN; subst s'.
    apply inv_set_thread; [exact I|]. cbn. apply is_perm_spec in P as (_ & _ & IN).
    apply Forall_forall. intros g Hg. apply IN in Hg. apply in_map_iff in Hg as [[h g'] [E Hin]].
    cbn in E; subst g'. apply (i_gmap s I) in Hin. tauto.
  - (* entry cleanup: scan *)
    destruct todo as [|g todo]; [inversion RUN; subst s'; apply inv_set_thread; [exact I|exact Logic.I]|].
    cbn in PC. inversion PC as [|? ? Hg FA]; subst.
    destruct (scan (now s) (group_at s g)); inversion RUN; subst s'; apply inv_set_thread; auto; cbn; auto.
  - (* entry cleanup: remove *)
    inversion RUN; subst s'. apply inv_ce_remove; auto.
  - discriminate.
Qed.

Theorem inv_step : forall s l s', inv s -> cstep s l = Some s' -> inv s'.
Proof.
  intros s l s' I ST. destruct l as [dt|c|tid orc|order|]; cbn in ST.
  - inversion ST; subst. now apply inv_tick.
  - inversion ST; subst. now apply inv_spawn.
  - destruct (nth_error (threads s) tid) as [p|] eqn:NTH; [|discriminate].
    eapply inv_run_thread; eauto.
  - destruct (smu_free s) eqn:FREE; [|discriminate].
    destruct (is_perm order (seq 0 (length (gmap s)))) eqn:P; inversion ST; subst.
    now apply inv_cg_start.
  - destruct (smu s) as [c|] eqn:SM; inversion ST; subst. now apply inv_cg_step.
Qed.

Theorem inv_exec : forall ls s s', inv s -> exec s ls = Some s' -> inv s'.
Proof.
  induction ls as [|l t IH]; cbn; intros s s' I H.
  - inversion H; subst; exact I.
  - destruct (cstep s l) as [s1|] eqn:ST; [|discriminate]. eapply IH; [|exact H]. eapply inv_step; eauto.
Qed.

(* every state reached by any schedule from the empty store satisfies the invariant *)
Theorem inv_reachable : forall t ls s, exec (init t) ls = Some s -> inv s.
Proof. intros t ls s H. eapply inv_exec; [apply inv_init|exact H]. Qed.
