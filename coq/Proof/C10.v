(* C10, part 4: the property oracle C10_check holds on every trace of the model (each clause is
   one of the theorems in executable form), and the statements exported to Properties/C10.v. *)
From Coq Require Import List NArith ZArith Bool Lia.
From K.Gen Require Import C10_consts.
From K.Model Require Import C10.
From K.Proof Require Import C10_base C10_pass C10_policy C10_press.
Import ListNotations.
Local Open Scope Z_scope.

(* ---------------------------------------------------------------- clock and capacity *)

Definition env_eq (s s' : st) : Prop := now s' = now s /\ cap s' = cap s.

Lemma env_refl : forall s, env_eq s s.
Proof. split; reflexivity. Qed.
Lemma env_trans : forall a b c, env_eq a b -> env_eq b c -> env_eq a c.
Proof. unfold env_eq. intros a b c [] []. split; congruence. Qed.

Lemma evict_env : forall s, env_eq s (evict s).
Proof.
  intros. unfold evict. destruct ((0 <? cap s) && (cap s <? Z.of_nat (length (fm s)))); [|apply env_refl].
  destruct (back (fm s)); [split; reflexivity | apply env_refl].
Qed.

Lemma reload_env : forall n s, env_eq s (fst (reload n s)).
Proof.
  intros. unfold reload. destruct (amem n (fm s)); [apply env_refl|].
  destruct (aget n (dk s)) as [f|]; [|apply env_refl].
  destruct (f_lat f); cbn [fst]; (eapply env_trans; [|apply evict_env]); split; reflexivity.
Qed.

Lemma touch_env : forall n s, env_eq s (touch n s).
Proof.
  intros. unfold touch. destruct (aget n (fm s)); [|apply env_refl].
  destruct (filemap_lat_resolution_ns <=? now s - z); split; reflexivity.
Qed.

Lemma peek_env : forall n s, env_eq s (fst (peek n s)).
Proof.
  intros. unfold peek. pose proof (reload_env n s) as H. destruct (reload n s) as [s1 ok].
  destruct ok; cbn [fst] in *; auto.
Qed.

Lemma access_env : forall n s, env_eq s (fst (access n s)).
Proof.
  intros. unfold access. pose proof (reload_env n s) as H. destruct (reload n s) as [s1 ok].
  destruct ok; cbn [fst] in *; auto. eapply env_trans; [exact H | apply touch_env].
Qed.

Lemma delete_file_env : forall n s, env_eq s (fst (delete_file n s)).
Proof.
  intros. unfold delete_file. pose proof (reload_env n s) as H. destruct (reload n s) as [s1 ok].
  destruct ok; cbn [fst] in *; auto. destruct (entry_delete n (dk s1)). exact H.
Qed.

Lemma with_file_env : forall n g s, env_eq s (fst (with_file n g s)).
Proof.
  intros. unfold with_file. pose proof (access_env n s) as H. destruct (access n s) as [s1 ok].
  destruct ok; cbn [fst] in *; auto. destruct (aget n (dk s1)); cbn [fst]; auto.
Qed.

Lemma create_file_env : forall n sz mt s, env_eq s (create_file n sz mt s).
Proof.
  intros. unfold create_file. destruct (amem n (fm s)); [apply touch_env|].
  destruct (amem n (dk s)); [apply reload_env|].
  eapply env_trans; [|apply evict_env]. split; reflexivity.
Qed.

Lemma ttl_loop_env : forall tti ttl resp used low scan scanned s,
  env_eq s (fst (ttl_loop tti ttl resp used low scan scanned s)).
Proof.
  intros tti ttl resp used low scan. induction scan as [|m t IH]; intros scanned s; cbn; [apply env_refl|].
  pose proof (peek_env m s) as H. destruct (peek m s) as [s1 ok]. cbn [fst] in H.
  destruct (if ok then aget m (dk s1) else None) as [f|].
  - eapply env_trans; [|apply IH]. eapply env_trans; [exact H|].
    destruct (ready tti ttl (now s1) f && negb (resp && (to_u64 (used - to_u64 scanned) <=? low)));
      [apply delete_file_env | apply env_refl].
  - eapply env_trans; [exact H | apply IH].
Qed.

Lemma ttl_pass_env : forall tti ttl thr u scan s, env_eq s (ttl_pass tti ttl thr u scan s).
Proof.
  intros. unfold ttl_pass.
  destruct (if thr =? 0 then (false, 0, 0)
            else match u with
                 | Some u0 => (true, u_used u0, to_u64 (u_total u0 * to_u64 thr) / 100)
                 | None => (false, 0, 0)
                 end) as [[resp used] low].
  apply ttl_loop_env.
Qed.

Lemma pol_scan_env : forall scan s acc total, env_eq s (fst (fst (pol_scan scan s acc total))).
Proof.
  intros scan. induction scan as [|m t IH]; intros s acc total; cbn; [apply env_refl|].
  pose proof (peek_env m s) as H. destruct (peek m s) as [s1 ok]. cbn [fst] in H.
  destruct (if ok then aget m (dk s1) else None) as [f|].
  - destruct (f_lat f); (eapply env_trans; [exact H | apply IH]).
  - eapply env_trans; [exact H | apply IH].
Qed.

Lemma pol_delete_env : forall order remain s, env_eq s (fst (fst (pol_delete order remain s))).
Proof.
  intros order. induction order as [|c t IH]; intros remain s; cbn; [apply env_refl|].
  destruct (remain <=? 0); cbn; [apply env_refl|].
  pose proof (delete_file_env (fi_name c) s) as H. destruct (delete_file (fi_name c) s) as [s1 r].
  cbn [fst] in H. eapply env_trans; [exact H | apply IH].
Qed.

Lemma policy_pass_env : forall thr total scan order s, env_eq s (fst (policy_pass thr total scan order s)).
Proof.
  intros. unfold policy_pass. pose proof (pol_scan_env scan s [] 0) as H.
  destruct (pol_scan scan s [] 0) as [[s1 cands] tt]. cbn [fst] in H.
  destruct total as [tot|]; cbn [fst]; auto.
  destruct (order_legal cands order) as [fis|]; cbn [fst]; auto.
  pose proof (pol_delete_env fis (to_i64 tot - to_i64 (to_u64 (tot * to_u64 thr) / 100)) s1) as H2.
  destruct (pol_delete fis _ s1) as [[s2 remain] ok]. cbn [fst] in *. eapply env_trans; eauto.
Qed.

Lemma run_writebacks_env : forall n wb s, env_eq s (fst (run_writebacks n wb s)).
Proof.
  intros n wb. induction wb as [|b t IH]; intros s; cbn; [apply env_refl|].
  destruct b; cbn; [|apply env_refl]. eapply env_trans; [apply with_file_env | apply IH].
Qed.

Lemma force_delete_env : forall n ttl owns wb s, env_eq s (fst (force_delete n ttl owns wb s)).
Proof.
  intros. unfold force_delete.
  pose proof (peek_env n s) as H1. destruct (peek n s) as [s1 ok]. cbn [fst] in H1.
  destruct (if ok then aget n (dk s1) else None) as [f|]; cbn [fst]; auto.
  destruct ((ttl <? now s1 - f_mtime f) || negb owns); cbn [fst]; auto.
  pose proof (peek_env n s1) as H2. destruct (peek n s1) as [s2 ok2]. cbn [fst] in H2.
  assert (D : forall s0, env_eq s0
            (fst (let '(s4, r) := delete_file n s0 in
                  (s4, match r with ROk => ODel true false | _ => ODel false true end)))).
  { intros s0. pose proof (delete_file_env n s0) as H. destruct (delete_file n s0). exact H. }
  destruct (is_persisted f).
  - pose proof (run_writebacks_env n wb s2) as H3.
    destruct (run_writebacks n wb s2) as [s3 allok]. cbn [fst] in H3.
    eapply env_trans; [exact H1|]. eapply env_trans; [exact H2|]. eapply env_trans; [exact H3|].
    destruct allok; cbn [fst]; [|apply env_refl].
    eapply env_trans; [apply with_file_env | apply D].
  - eapply env_trans; [exact H1|]. eapply env_trans; [exact H2|]. apply D.
Qed.

Lemma cleanup_env : forall c pol u scan order s, env_eq s (fst (cleanup c pol u scan order s)).
Proof.
  intros. unfold cleanup. destruct (should_aggro c u && pol && negb (c_alow c =? 0)).
  - apply policy_pass_env.
  - cbn [fst]. apply ttl_pass_env.
Qed.

Lemma step_env : forall o s, now (fst (step s o)) = tick_of o (now s) /\ cap (fst (step s o)) = cap s.
Proof.
  intros o s. destruct o; cbn [step fst tick_of of_found of_res].
  - split; reflexivity.
  - apply create_file_env.
  - apply access_env.
  - apply peek_env.
  - apply with_file_env.
  - apply with_file_env.
  - apply with_file_env.
  - apply with_file_env.
  - apply delete_file_env.
  - split; reflexivity.
  - apply ttl_pass_env.
  - apply policy_pass_env.
  - apply cleanup_env.
  - destruct (job_fires c disabled dt).
    + destruct (cleanup_env (apply_defaults c) true u scan order
                  (mkst (dk s) (fm s) (now s + dt) (cap s))) as [A B]. cbn [now cap] in A, B. auto.
    + split; reflexivity.
  - apply force_delete_env.
Qed.

(* ---------------------------------------------------------------- clause 1 *)

Lemma chk_persist_sound : forall s o,
  wf s -> chk_persist (dk s) o (dk (fst (step s o))) = true.
Proof.
  intros s o (A & _ & _). unfold chk_persist. apply forallb_forall. intros [n f] Hin. cbn [fst snd].
  destruct (is_persisted f && negb (unprotects o n)) eqn:E; auto.
  apply andb_true_iff in E. destruct E as [E1 E2]. apply negb_true_iff in E2.
  assert (Hp : prot n (dk s) = Some (f_mtime f, f_size f)).
  { unfold prot. rewrite (In_aget n f (dk s) A Hin), E1. reflexivity. }
  apply (step_keeps n o s E2) in Hp. eapply prot_persisted. exact Hp.
Qed.

(* ---------------------------------------------------------------- clause 2 *)

Lemma chk_exact_sound : forall tti ttl u scan s,
  wf s -> NoDup scan ->
  chk_exact (cap s) tti ttl (now s) scan (dk s) (keys (fm s)) (dk (ttl_pass tti ttl 0 u scan s)) = true.
Proof.
  intros tti ttl u scan s W ND. unfold chk_exact. apply forallb_forall. intros [n f] Hin. cbn [fst snd].
  pose proof W as (A & B & C).
  pose proof (In_aget n f (dk s) A Hin) as Hn. rewrite memb_keys_amem.
  destruct (roomy (cap s) (dk s)) eqn:R.
  - apply roomy_iff in R.
    pose proof (ttl_pass_exact tti ttl u scan s W R ND n) as Hx.
    unfold amem at 1. rewrite Hx. unfold ttl_after. rewrite Hn. unfold ttl_due.
    destruct (memb n scan); cbn [andb].
    + destruct (negb (is_persisted f) && ready tti ttl (now s) (seen (amem n (fm s)) (now s) f)); reflexivity.
    + reflexivity.
  - destruct (memb n scan && negb (is_persisted f)
              && ready tti ttl (now s) (seen (amem n (fm s)) (now s) f)) eqn:Ed; [|reflexivity].
    apply andb_true_iff in Ed. destruct Ed as [Ed E3]. apply andb_true_iff in Ed. destruct Ed as [E1 E2].
    apply memb_In in E1.
    assert (Hdue : ttl_due tti ttl (now s) (amem n (fm s)) f = true).
    { unfold ttl_due. rewrite E2, E3. reflexivity. }
    unfold amem at 1. rewrite (ttl_pass_due_removed tti ttl u scan s n f W Hn E1 Hdue). reflexivity.
Qed.

(* ---------------------------------------------------------------- clause 3 *)

Lemma cand_fi_name : forall s n c, cand_fi s n = Some c -> fi_name c = n.
Proof.
  intros s n c. unfold cand_fi. destruct (aget n (dk s)); [|discriminate].
  destruct (f_lat _); [|discriminate]. intros [= <-]. reflexivity.
Qed.

Lemma In_cands_of : forall s scan c,
  In c (cands_of s scan) <-> exists n, In n scan /\ cand_fi s n = Some c.
Proof.
  intros. unfold cands_of. rewrite in_flat_map. split.
  - intros [n [Hn Hc]]. exists n. split; auto. destruct (cand_fi s n); [|contradiction].
    destruct Hc as [->|[]]. reflexivity.
  - intros [n [Hn Hc]]. exists n. split; auto. rewrite Hc. left. reflexivity.
Qed.

Lemma find_fi_In : forall n l c, find_fi n l = Some c -> In c l /\ fi_name c = n.
Proof.
  intros n l. induction l as [|d t IH]; cbn; [discriminate|]. intros c.
  destruct (N.eqb n (fi_name d)) eqn:E.
  - intros [= <-]. apply N.eqb_eq in E. auto.
  - intros H. destruct (IH c H). auto.
Qed.

Lemma find_cands_of : forall s scan n c,
  find_fi n (cands_of s scan) = Some c -> cand_fi s n = Some c /\ In n scan.
Proof.
  intros s scan n c H. apply find_fi_In in H. destruct H as [Hin Hn].
  apply In_cands_of in Hin. destruct Hin as [n' [Hs Hc]].
  pose proof (cand_fi_name _ _ _ Hc) as E. rewrite Hn in E. subst n'. auto.
Qed.

Lemma lookup_all_spec : forall order cands fis,
  lookup_all order cands = Some fis ->
  names fis = order /\ Forall2 (fun n c => find_fi n cands = Some c) order fis.
Proof.
  induction order as [|n t IH]; intros cands fis; cbn.
  - intros [= <-]. split; [reflexivity | constructor].
  - destruct (find_fi n cands) as [c|] eqn:E; [|discriminate].
    destruct (lookup_all t cands) as [r|] eqn:E2; [|discriminate].
    intros [= <-]. destruct (IH cands r E2) as [H1 H2]. split.
    + unfold names in *. cbn. rewrite H1. apply find_fi_In in E. destruct E as [_ ->]. reflexivity.
    + constructor; auto.
Qed.

Lemma sortedb_rank_sorted : forall fis, sortedb fis = true -> rank_sorted (map rk fis) = true.
Proof.
  induction fis as [|a t IH]; cbn; auto. destruct t as [|b t']; cbn; auto.
  rewrite policy_cmp_rank. intros H. apply andb_true_iff in H. destruct H as [H1 H2].
  rewrite H1. cbn. apply IH. exact H2.
Qed.

Lemma cand_fi_cand_of : forall s n c f,
  cand_fi s n = Some c -> aget n (dk s) = Some f ->
  cand_of (now s) (keys (fm s)) (n, f) = Some (rk c) /\ fi_size c = f_size f.
Proof.
  intros s n c f Hc Hf. unfold cand_fi in Hc. rewrite Hf in Hc. unfold cand_of. cbn [fst snd].
  rewrite memb_keys_amem. destruct (f_lat (seen (amem n (fm s)) (now s) f)); [|discriminate].
  injection Hc as <-. split; reflexivity.
Qed.

Lemma cand_of_cand_fi : forall s n f r,
  aget n (dk s) = Some f -> cand_of (now s) (keys (fm s)) (n, f) = Some r ->
  exists c, cand_fi s n = Some c /\ rk c = r.
Proof.
  intros s n f r Hf Hr. unfold cand_of in Hr. cbn [fst snd] in Hr. rewrite memb_keys_amem in Hr.
  unfold cand_fi. rewrite Hf. destruct (f_lat (seen (amem n (fm s)) (now s) f)); [|discriminate].
  injection Hr as <-. eexists. split; reflexivity.
Qed.

Lemma ranks_sound : forall s order fis cands,
  Forall2 (fun n c => find_fi n cands = Some c) order fis ->
  (forall n c, find_fi n cands = Some c -> cand_fi s n = Some c) ->
  ranks (now s) (keys (fm s)) (dk s) order = Some (map rk fis).
Proof.
  intros s order fis cands H Hc. induction H as [|n c t r Hn Ht IH]; cbn; auto.
  pose proof (Hc n c Hn) as Hcf. pose proof Hcf as Hcf2. unfold cand_fi in Hcf2.
  destruct (aget n (dk s)) as [f|] eqn:Ef; [|discriminate].
  destruct (cand_fi_cand_of s n c f Hcf Ef) as [H1 _]. rewrite H1, IH. reflexivity.
Qed.

Lemma budget_ok_walk : forall prev cur g fis rem,
  (forall c, In c fis ->
     match aget (fi_name c) prev with
     | Some f => if amem (fi_name c) cur then 0 else f_size f
     | None => 0
     end = g c) ->
  budget_ok prev cur (names fis) rem = walk g fis rem.
Proof.
  intros prev cur g fis. induction fis as [|c t IH]; intros rem H; cbn; auto.
  destruct (rem <=? 0); auto. rewrite (H c (or_introl eq_refl)). apply IH.
  intros. apply H. right. auto.
Qed.

Lemma policy_pass_sound : forall thr tot scan order s s',
  wf s -> NoDup scan ->
  policy_pass thr (Some tot) scan order s = (s', OPass true false) ->
  chk_policy (cap s) thr tot (now s) scan order (dk s) (keys (fm s)) (dk s') = true.
Proof.
  intros thr tot scan order s s' W ND HP. unfold chk_policy.
  destruct (roomy (cap s) (dk s)) eqn:R; auto. apply roomy_iff in R.
  unfold policy_pass in HP.
  pose proof (pol_scan_roomy scan s [] 0 W R ND) as PS. cbn zeta in PS.
  destruct (pol_scan scan s [] 0) as [[s1 cands] total]. cbn [fst snd] in PS.
  destruct PS as (W1 & R1 & Now1 & Cap1 & Ent & Fm1 & Cs). cbn [app] in Cs. subst cands.
  set (budget := to_i64 tot - to_i64 (to_u64 (tot * to_u64 thr) / 100)) in *.
  unfold order_legal in HP.
  destruct (lookup_all order (cands_of s scan)) as [fis|] eqn:LA; [|discriminate].
  destruct (nodupb order && sortedb fis &&
            forallb (fun c => memb (fi_name c) order || forallb (fun a => policy_cmp a c <=? 0) fis)
                    (cands_of s scan)) eqn:LG; [|discriminate].
  apply andb_true_iff in LG. destruct LG as [LG Lout]. apply andb_true_iff in LG. destruct LG as [Lnd Lso].
  destruct (lookup_all_spec _ _ _ LA) as [Hnames HF2].
  assert (Hfind : forall n c, find_fi n (cands_of s scan) = Some c -> cand_fi s n = Some c).
  { intros n c H. apply find_cands_of in H. tauto. }
  assert (Hfis : forall c, In c fis -> cand_fi s (fi_name c) = Some c /\ In (fi_name c) scan).
  { intros c Hc. clear - HF2 Hc. induction HF2 as [|n d t r Hn Ht IH]; [contradiction|].
    destruct Hc as [->|Hc]; auto. pose proof (find_cands_of _ _ _ _ Hn) as [H1 H2].
    rewrite (cand_fi_name _ _ _ H1). auto. }
  assert (NDo : NoDup (names fis)) by (rewrite Hnames; apply nodupb_NoDup; exact Lnd).
  assert (Hmap : forall c, In c fis -> amem (fi_name c) (fm s1) = true).
  { intros c Hc. destruct (Hfis c Hc) as [H1 H2]. rewrite Fm1.
    apply memb_In in H2. rewrite H2. unfold cand_fi in H1. unfold amem.
    destruct (aget (fi_name c) (dk s)); [reflexivity | discriminate]. }
  pose proof (pol_delete_spec fis budget s1 NDo Hmap) as PD. cbn zeta in PD.
  destruct (pol_delete fis budget s1) as [[s2 remain] ok]. cbn [fst snd] in PD.
  destruct PD as (Hok & Hrem & Hfin).
  injection HP as <- HP.
  apply andb_true_iff in HP. destruct HP as [Hokt Hcomplete]. subst ok.
  symmetry in Hok. specialize (Hfin eq_refl). destruct Hfin as (Hdk & _ & _).
  (* every walked file: its record before, its protection, whether it is gone *)
  assert (Hpers : forall n f, aget n (dk s) = Some f -> persisted n (dk s1) = is_persisted f).
  { intros n f Hf. unfold persisted. rewrite Ent. unfold scan_entry. rewrite Hf.
    destruct (memb n scan); cbn; auto. apply seen_persisted. }
  assert (Hpres1 : forall n f, aget n (dk s) = Some f -> exists f1, aget n (dk s1) = Some f1).
  { intros n f Hf. rewrite Ent. unfold scan_entry. rewrite Hf. destruct (memb n scan); cbn; eauto. }
  assert (Hwalk : budget_ok (dk s) (dk s2) order budget =
                  walk (fun c => if persisted (fi_name c) (dk s1) then 0 else fi_size c) fis budget).
  { rewrite <- Hnames. apply budget_ok_walk. intros c Hc. destruct (Hfis c Hc) as [H1 H2].
    pose proof H1 as H1'. unfold cand_fi in H1'.
    destruct (aget (fi_name c) (dk s)) as [f|] eqn:Ef; [|discriminate].
    destruct (cand_fi_cand_of s _ c f H1 Ef) as [_ Hsz].
    rewrite (Hpers _ _ Ef). unfold amem. rewrite Hdk.
    assert (Hm : memb (fi_name c) (names fis) = true).
    { apply memb_In. unfold names. apply in_map. exact Hc. }
    rewrite Hm, (Hpers _ _ Ef). cbn [andb]. destruct (Hpres1 _ _ Ef) as [f1 Hf1].
    destruct (is_persisted f); cbn [negb]; [rewrite Hf1; reflexivity | rewrite Hsz; reflexivity]. }
  rewrite (ranks_sound s order fis (cands_of s scan) HF2 Hfind).
  rewrite Hwalk.
  destruct (walk (fun c => if persisted (fi_name c) (dk s1) then 0 else fi_size c) fis budget) as [bok rem] eqn:Ew.
  cbn [fst snd] in Hok, Hrem. subst bok remain.
  rewrite Lnd. cbn [andb].
  assert (Hsub : subset order scan = true).
  { unfold subset. apply forallb_forall. intros n Hn. rewrite <- Hnames in Hn. unfold names in Hn.
    apply in_map_iff in Hn. destruct Hn as [c [<- Hc]]. apply memb_In. apply (Hfis c Hc). }
  rewrite Hsub, (sortedb_rank_sorted fis Lso). cbn [andb]. rewrite andb_true_r.
  apply andb_true_iff. split.
  - (* nobody left out ranks strictly before a walked file; and then the budget was met *)
    apply forallb_forall. intros [n f] Hin. cbn [fst snd].
    destruct (memb n scan && negb (memb n order)) eqn:Eout; auto.
    apply andb_true_iff in Eout. destruct Eout as [Esc Eno]. apply negb_true_iff in Eno.
    destruct W as (A & B & C). pose proof (In_aget n f (dk s) A Hin) as Hf.
    destruct (cand_of (now s) (keys (fm s)) (n, f)) as [r|] eqn:Ec; auto.
    destruct (cand_of_cand_fi s n f r Hf Ec) as [c [Hc Hr]].
    assert (Hcin : In c (cands_of s scan)).
    { apply In_cands_of. exists n. split; auto. apply memb_In. exact Esc. }
    pose proof (cand_fi_name _ _ _ Hc) as Hcn.
    apply andb_true_iff. split.
    + rewrite forallb_forall in Lout. specialize (Lout c Hcin). rewrite Hcn, Eno in Lout.
      cbn [orb] in Lout. apply forallb_forall. intros a Ha. apply in_map_iff in Ha.
      destruct Ha as [a' [<- Ha']]. rewrite forallb_forall in Lout. specialize (Lout a' Ha').
      rewrite policy_cmp_rank in Lout. rewrite <- Hr. exact Lout.
    + apply orb_true_iff in Hcomplete. destruct Hcomplete as [H|H]; auto.
      rewrite forallb_forall in H. specialize (H c Hcin). rewrite Hcn in H. congruence.
  - (* only walked files disappear *)
    apply forallb_forall. intros [n f] Hin. cbn [fst snd].
    destruct W as (A & B & C). pose proof (In_aget n f (dk s) A Hin) as Hf.
    destruct (memb n order) eqn:Eo; [apply orb_true_r|]. rewrite orb_false_r.
    unfold amem. rewrite Hdk, Hnames, Eo. cbn [andb]. destruct (Hpres1 _ _ Hf) as [f1 ->]. reflexivity.
Qed.

(* ---------------------------------------------------------------- the oracle on model traces *)

Lemma chk_cleanup_sound : forall s c pol u scan order,
  wf s -> NoDup scan ->
  chk_cleanup (cap s) (now s) (dk s) (keys (fm s)) c pol u scan order
              (snd (cleanup c pol u scan order s)) (dk (fst (cleanup c pol u scan order s))) = true.
Proof.
  intros s c pol u scan order W ND. unfold chk_cleanup, cleanup, pass_mode.
  destruct (should_aggro c u && pol && negb (c_alow c =? 0)) eqn:Em.
  - destruct u as [uu|]; cbn [option_map].
    + destruct (policy_pass (c_alow c) (Some (u_total uu)) scan order s) as [s' r] eqn:E. cbn [fst snd].
      destruct r; auto. destruct legal; auto. destruct err; auto.
      eapply policy_pass_sound; eauto.
    + destruct (snd (policy_pass (c_alow c) None scan order s)); auto.
      destruct legal; auto. destruct err; auto.
  - cbn [fst snd]. destruct (should_aggro c u) eqn:Ea; auto.
    apply chk_exact_sound; auto.
Qed.

Lemma chk_step_sound : forall s o,
  wf s -> op_ok o = true ->
  chk_step (cap s) (now s) (dk s) (keys (fm s)) o
           (snd (step s o), dk (fst (step s o)), keys (fm (fst (step s o)))) = true.
Proof.
  intros s o W OK. unfold chk_step. rewrite (chk_persist_sound s o W). cbn [andb].
  destruct o; auto.
  - (* TtlPass *)
    cbn [step fst snd]. destruct (thr =? 0) eqn:E; auto. apply Z.eqb_eq in E. subst thr.
    apply chk_exact_sound; auto. apply nodupb_NoDup. exact OK.
  - (* PolicyPass *)
    cbn [step]. destruct total as [tot|]; [|destruct (snd (policy_pass thr None scan order s)); auto;
      destruct legal; auto; destruct err; auto].
    destruct (policy_pass thr (Some tot) scan order s) as [s' r] eqn:E. cbn [fst snd].
    destruct r; auto. destruct legal; auto. destruct err; auto.
    eapply policy_pass_sound; eauto. apply nodupb_NoDup. exact OK.
  - (* Cleanup *)
    cbn [step]. apply chk_cleanup_sound; auto. apply nodupb_NoDup. exact OK.
  - (* Job *)
    cbn [step]. destruct (job_fires c disabled dt); auto.
    set (s1 := mkst (dk s) (fm s) (now s + dt) (cap s)).
    assert (W1 : wf s1) by exact W.
    apply (chk_cleanup_sound s1 (apply_defaults c) true u scan order W1).
    apply nodupb_NoDup. exact OK.
Qed.

Lemma chk_from_sound : forall ops s,
  wf s -> forallb op_ok ops = true ->
  chk_from (cap s) (now s) (dk s) (keys (fm s)) ops (snd (run s ops)) = true.
Proof.
  induction ops as [|o t IH]; intros s W OK; cbn [chk_from run]; auto.
  cbn [forallb] in OK. apply andb_true_iff in OK. destruct OK as [OK1 OK2].
  pose proof (chk_step_sound s o W OK1) as H1. pose proof (step_wf o s W) as W1.
  pose proof (step_env o s) as [En Ec].
  destruct (step s o) as [s1 r]. cbn [fst snd] in *.
  specialize (IH s1 W1 OK2). destruct (run s1 t) as [s2 rs]. cbn [fst snd] in *.
  rewrite H1. cbn [andb]. rewrite Ec, En in IH. exact IH.
Qed.

Theorem check_sound : forall c t0 ops,
  forallb op_ok ops = true -> C10_check c t0 ops (snd (run (init c t0) ops)) = true.
Proof.
  intros c t0 ops OK. unfold C10_check.
  apply (chk_from_sound ops (init c t0) (wf_init c t0) OK).
Qed.

(* ---------------------------------------------------------------- exported statements *)

(* histories: every reachable state is well formed *)
Theorem reachable_wf : forall c t0 ops, wf (fst (run (init c t0) ops)).
Proof. intros. apply run_wf. apply wf_init. Qed.

(* explicit delete *)
Theorem delete_request_refused : forall s n x,
  prot n (dk s) = Some x ->
  snd (step s (Delete n)) = ORes RPersisted /\ prot n (dk (fst (step s (Delete n)))) = Some x.
Proof.
  intros s n x H. split.
  - cbn. rewrite (delete_refused n s x H). reflexivity.
  - apply (step_keeps n (Delete n) s eq_refl x H).
Qed.

(* LRU eviction: the entry leaves the map, the file stays *)
Theorem eviction_keeps_protected : forall s n x,
  prot n (dk s) = Some x -> prot n (dk (evict s)) = Some x.
Proof. intros. apply evict_keeps. auto. Qed.

(* periodic / aggressive / policy cleanup, whatever the configuration, usage and listing *)
Theorem cleanup_keeps_protected : forall s n x c pol u scan order,
  prot n (dk s) = Some x -> prot n (dk (fst (cleanup c pol u scan order s))) = Some x.
Proof. intros. apply cleanup_keeps. auto. Qed.

(* forced cleanup: deletes a protected file only after the write-back ran *)
Theorem force_delete_needs_writeback : forall s n x ttl owns t,
  prot n (dk s) = Some x -> prot n (dk (fst (force_delete n ttl owns (false :: t) s))) = Some x.
Proof. intros. apply force_delete_keeps; eauto. Qed.

(* normal pass, pointwise: exactly the listed, unprotected, idle-or-expired files go *)
Theorem cleanup_exact : forall s c pol u scan order m,
  wf s -> roomy (cap s) (dk s) = true -> NoDup scan -> should_aggro c u = false ->
  aget m (dk (fst (cleanup c pol u scan order s))) = ttl_after (c_tti c) (c_ttl c) scan s m.
Proof.
  intros s c pol u scan order m W R ND Ag. unfold cleanup. rewrite Ag. cbn [andb fst].
  apply ttl_pass_exact; auto. apply roomy_iff. exact R.
Qed.

(* the same as a statement about sets, for a complete listing and whole-second clock or tti >= 1s:
   removed = { f | not protected, and (ttl > 0 and age > ttl, or recorded last access older than tti) } *)
Theorem cleanup_exact_set : forall s c pol u scan order m f,
  wf s -> roomy (cap s) (dk s) = true -> NoDup scan -> should_aggro c u = false ->
  (forall k, In k (keys (dk s)) -> In k scan) ->
  now s mod NS <= c_tti c ->
  aget m (dk s) = Some f ->
  (aget m (dk (fst (cleanup c pol u scan order s))) = None <->
   is_persisted f = false /\ ready (c_tti c) (c_ttl c) (now s) f = true).
Proof.
  intros s c pol u scan order m f W R ND Ag Hall Hsub Hf.
  rewrite (cleanup_exact s c pol u scan order m W R ND Ag). unfold ttl_after. rewrite Hf.
  assert (Hm : memb m scan = true).
  { apply memb_In. apply Hall. apply In_keys_aget. congruence. }
  rewrite Hm. unfold ttl_due.
  assert (Hr : ready (c_tti c) (c_ttl c) (now s) (seen (amem m (fm s)) (now s) f)
               = ready (c_tti c) (c_ttl c) (now s) f).
  { unfold seen. destruct (f_lat f) eqn:El; auto. destruct (amem m (fm s)); auto.
    unfold ready. cbn [f_mtime f_lat set_lat]. rewrite El. f_equal.
    unfold lat_secs. apply Z.ltb_ge.
    pose proof (Z.div_mod (now s) NS ltac:(unfold NS; lia)) as D. lia. }
  rewrite Hr. destruct (is_persisted f); cbn [negb andb].
  - split; [discriminate | intros []; discriminate].
  - destruct (ready (c_tti c) (c_ttl c) (now s) f); split; auto; try discriminate.
    intros []; discriminate.
Qed.

(* defaults of the periodic job (cleanup.go:48): a positive idle limit and interval *)
Theorem defaults_positive : forall c,
  0 <= c_tti c -> 0 <= c_interval c -> 0 <= c_attl c ->
  let d := apply_defaults c in
  0 < c_tti d /\ 0 < c_interval d /\ (c_athr d <> 0 -> 0 < c_attl d)
  /\ (c_tti c = 0 -> c_tti d = 21600000000000)        (* 6 h *)
  /\ (c_interval c = 0 -> c_interval d = 1800000000000) (* 30 min *)
  /\ (c_athr c <> 0 -> c_attl c = 0 -> c_attl d = 3600000000000). (* 1 h *)
Proof.
  intros c H1 H2 H3. unfold apply_defaults. cbn [c_tti c_interval c_attl c_athr].
  repeat split.
  - destruct (c_tti c =? 0) eqn:E; [reflexivity | apply Z.eqb_neq in E; lia].
  - destruct (c_interval c =? 0) eqn:E; [reflexivity | apply Z.eqb_neq in E; lia].
  - intros Ha. apply Z.eqb_neq in Ha. rewrite Ha. cbn [negb andb].
    destruct (c_attl c =? 0) eqn:E; [reflexivity | apply Z.eqb_neq in E; lia].
  - intros ->. reflexivity.
  - intros ->. reflexivity.
  - intros Ha ->. apply Z.eqb_neq in Ha. rewrite Ha. reflexivity.
Qed.

(* ---------------------------------------------------------------- statements in model terms *)

Lemma prot_intro : forall n d f, aget n d = Some f -> is_persisted f = true ->
  prot n d = Some (f_mtime f, f_size f).
Proof. intros n d f H1 H2. unfold prot. rewrite H1, H2. reflexivity. Qed.

Lemma prot_elim : forall n d x, prot n d = Some x ->
  exists f, aget n d = Some f /\ is_persisted f = true /\ (f_mtime f, f_size f) = x.
Proof.
  intros n d x. unfold prot. destruct (aget n d) as [f|]; [|discriminate].
  destruct (is_persisted f) eqn:E; [|discriminate]. intros [= <-]. eauto.
Qed.

Lemma keeps_stays : forall n s s' f,
  keeps n s s' -> aget n (dk s) = Some f -> is_persisted f = true -> stays n f s'.
Proof.
  intros n s s' f K H1 H2. pose proof (K _ (prot_intro _ _ _ H1 H2)) as H.
  apply prot_elim in H. destruct H as (f' & A & B & C). injection C as C1 C2.
  exists f'. auto.
Qed.

Theorem persisted_never_removed_stmt : forall ops s n f,
  aget n (dk s) = Some f -> is_persisted f = true ->
  (forall o, In o ops -> unprotects o n = false) ->
  stays n f (fst (run s ops)).
Proof.
  intros ops s n f H1 H2 U. eapply keeps_stays; eauto. intros x Hx.
  apply persisted_never_removed; auto.
Qed.

Theorem delete_refused_stmt : forall s n f,
  aget n (dk s) = Some f -> is_persisted f = true ->
  snd (step s (Delete n)) = ORes RPersisted /\ stays n f (fst (step s (Delete n))).
Proof.
  intros s n f H1 H2. pose proof (prot_intro _ _ _ H1 H2) as Hp.
  destruct (delete_request_refused s n _ Hp) as [A B]. split; auto.
  eapply keeps_stays; eauto. apply (step_keeps n (Delete n) s eq_refl).
Qed.

Theorem eviction_stmt : forall s n f,
  aget n (dk s) = Some f -> is_persisted f = true -> stays n f (evict s).
Proof. intros. eapply keeps_stays; eauto. apply evict_keeps. Qed.

Theorem cleanup_stmt : forall s n f c pol u scan order,
  aget n (dk s) = Some f -> is_persisted f = true ->
  stays n f (fst (cleanup c pol u scan order s)).
Proof. intros. eapply keeps_stays; eauto. apply cleanup_keeps. Qed.

Theorem ttl_pass_stmt : forall s n f tti ttl thr u scan,
  aget n (dk s) = Some f -> is_persisted f = true ->
  stays n f (ttl_pass tti ttl thr u scan s).
Proof. intros. eapply keeps_stays; eauto. apply ttl_pass_keeps. Qed.

Theorem policy_pass_stmt : forall s n f thr total scan order,
  aget n (dk s) = Some f -> is_persisted f = true ->
  stays n f (fst (policy_pass thr total scan order s)).
Proof. intros. eapply keeps_stays; eauto. apply policy_pass_keeps. Qed.

Theorem force_delete_stmt : forall s n f ttl owns t,
  aget n (dk s) = Some f -> is_persisted f = true ->
  stays n f (fst (force_delete n ttl owns (false :: t) s))
  /\ snd (force_delete n ttl owns (false :: t) s) <> ODel true false.
Proof.
  intros s n f ttl owns t H1 H2. split.
  - eapply keeps_stays; eauto. apply force_delete_keeps. eauto.
  - unfold force_delete.
    pose proof (peek_keeps n n s _ (prot_intro _ _ _ H1 H2)) as Hp.
    destruct (peek n s) as [s1 ok]. cbn [fst] in Hp. apply prot_elim in Hp.
    destruct Hp as (f1 & A & B & _).
    destruct ok; cbn [snd]; [rewrite A | discriminate].
    destruct ((ttl <? now s1 - f_mtime f1) || negb owns); [|discriminate].
    destruct (peek n s1) as [s2 ok2]. rewrite B. cbn. discriminate.
Qed.

(* exactness for the states of histories *)
Theorem cleanup_exact_pointwise_stmt : forall c0 t0 ops c pol u scan order m,
  let s := fst (run (init c0 t0) ops) in
  roomy (cap s) (dk s) = true -> NoDup scan -> should_aggro c u = false ->
  aget m (dk (fst (cleanup c pol u scan order s))) = ttl_after (c_tti c) (c_ttl c) scan s m.
Proof. intros. apply cleanup_exact; auto. apply reachable_wf. Qed.

Theorem cleanup_exact_stmt : forall c0 t0 ops c pol u scan order m f,
  let s := fst (run (init c0 t0) ops) in
  roomy (cap s) (dk s) = true -> NoDup scan -> should_aggro c u = false ->
  (forall k, In k (keys (dk s)) -> In k scan) ->
  now s mod NS <= c_tti c ->
  aget m (dk s) = Some f ->
  (aget m (dk (fst (cleanup c pol u scan order s))) = None <->
   is_persisted f = false /\ ready (c_tti c) (c_ttl c) (now s) f = true).
Proof. intros. apply cleanup_exact_set; auto. apply reachable_wf. Qed.

(* with more files on disk than the map holds, a scan evicts: a file that is neither idle nor
   expired nor listed-as-due disappears during a "normal" pass (by LRU eviction) *)
Definition pressure_ops : list op :=
  [Create 0 10 1000; SetPersist 0 true; Create 1 10 1000; SetPersist 1 true;
   Create 2 10 1000; SetPersist 2 true; Reopen; ClearPersist 0; Reopen].

Theorem exact_under_pressure_refuted :
  exists ops tti ttl scan m f,
    let s := fst (run (init 2 1000) ops) in
    NoDup scan /\ (forall k, In k (keys (dk s)) -> In k scan) /\
    aget m (dk s) = Some f /\ ttl_due tti ttl (now s) (amem m (fm s)) f = false /\
    aget m (dk (ttl_pass tti ttl 0 None scan s)) = None.
Proof.
  exists pressure_ops, 86400000000000, 86400000000000, [0; 1; 2]%N, 0%N,
         (mkf 1000 10 (Some 0) None).
  cbn zeta. split; [repeat constructor; cbn; intuition discriminate|].
  split; [|vm_compute; auto].
  vm_compute. intros k [<-|[<-|[<-|[]]]]; auto.
Qed.

(* with or without room in the map: the listed, unprotected, idle-or-expired files are gone *)
Theorem cleanup_due_removed_stmt : forall c0 t0 ops c pol u scan order m f,
  let s := fst (run (init c0 t0) ops) in
  should_aggro c u = false -> In m scan -> aget m (dk s) = Some f ->
  is_persisted f = false ->
  ready (c_tti c) (c_ttl c) (now s) (seen (amem m (fm s)) (now s) f) = true ->
  aget m (dk (fst (cleanup c pol u scan order s))) = None.
Proof.
  intros c0 t0 ops c pol u scan order m f s Ag Hin Hf Hp Hr. unfold cleanup. rewrite Ag. cbn [andb fst].
  apply ttl_pass_due_removed with (f := f); auto.
  - apply reachable_wf.
  - unfold ttl_due. rewrite Hp, Hr. reflexivity.
Qed.

Theorem policy_pass_stmt2 : forall c0 t0 ops thr tot scan order s',
  let s := fst (run (init c0 t0) ops) in
  NoDup scan ->
  policy_pass thr (Some tot) scan order s = (s', OPass true false) ->
  chk_policy (cap s) thr tot (now s) scan order (dk s) (keys (fm s)) (dk s') = true.
Proof. intros. eapply policy_pass_sound; eauto. apply reachable_wf. Qed.

Theorem policy_total_preorder :
  (forall a b, policy_cmp a b <= 0 \/ policy_cmp b a <= 0) /\
  (forall a b c, policy_cmp a b <= 0 -> policy_cmp b c <= 0 -> policy_cmp a c <= 0) /\
  (forall a b, Z.sgn (policy_cmp a b) = - Z.sgn (policy_cmp b a)).
Proof.
  split; [exact policy_cmp_total|]. split; [exact policy_cmp_trans | exact policy_cmp_antisym].
Qed.
