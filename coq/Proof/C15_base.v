(* Generic facts used by the C15 proofs: association lists, find/filter over lists with
   unique keys, multiset equality by counting. *)
From Coq Require Import List NArith ZArith Bool Lia Permutation.
From K.Model Require Import C15.
Import ListNotations.
Local Open Scope N_scope.

(* ---------- association lists *)
Definition keys {V} (l : list (N * V)) : list N := map fst l.

Lemma aget_aset_same {V} k (v : V) l : aget k (aset k v l) = Some v.
Proof.
  induction l as [|[k' v'] t IH]; cbn.
  - now rewrite N.eqb_refl.
  - destruct (N.eqb k k') eqn:E; cbn; rewrite ?N.eqb_refl, ?E; auto.
Qed.

Lemma aget_aset_other {V} k k' (v : V) l : k <> k' -> aget k' (aset k v l) = aget k' l.
Proof.
  intros Hne. induction l as [|[k2 v2] t IH]; cbn.
  - destruct (N.eqb k' k) eqn:E; auto. apply N.eqb_eq in E. congruence.
  - destruct (N.eqb k k2) eqn:E; cbn.
    + apply N.eqb_eq in E. subst k2.
      destruct (N.eqb k' k) eqn:E2; auto. apply N.eqb_eq in E2. congruence.
    + destruct (N.eqb k' k2); auto.
Qed.

Lemma aget_adel_same {V} k (l : list (N * V)) : aget k (adel k l) = None.
Proof.
  induction l as [|[k' v'] t IH]; cbn; auto.
  destruct (N.eqb k k') eqn:E; cbn; auto. now rewrite E.
Qed.

Lemma aget_adel_other {V} k k' (l : list (N * V)) : k <> k' -> aget k' (adel k l) = aget k' l.
Proof.
  intros Hne. induction l as [|[k2 v2] t IH]; cbn; auto.
  destruct (N.eqb k k2) eqn:E; cbn.
  - apply N.eqb_eq in E. subst k2.
    destruct (N.eqb k' k) eqn:E2; auto. apply N.eqb_eq in E2. congruence.
  - destruct (N.eqb k' k2); auto.
Qed.

Lemma aget_In {V} k (v : V) l : aget k l = Some v -> In (k, v) l.
Proof.
  induction l as [|[k' v'] t IH]; cbn; try discriminate.
  destruct (N.eqb k k') eqn:E.
  - apply N.eqb_eq in E. intros [= ->]. subst. now left.
  - intros H. right. auto.
Qed.

Lemma In_aget {V} k (v : V) l : NoDup (keys l) -> In (k, v) l -> aget k l = Some v.
Proof.
  induction l as [|[k' v'] t IH]; cbn; intros ND HIn; [contradiction|].
  inversion ND as [|? ? Hnot ND']; subst.
  destruct HIn as [[= -> ->]|HIn].
  - now rewrite N.eqb_refl.
  - destruct (N.eqb k k') eqn:E.
    + apply N.eqb_eq in E. subst k'. exfalso. apply Hnot.
      change k with (fst (k, v)). now apply in_map.
    + auto.
Qed.

Lemma aget_None_keys {V} k (l : list (N * V)) : aget k l = None <-> ~ In k (keys l).
Proof.
  induction l as [|[k' v'] t IH]; cbn.
  - tauto.
  - destruct (N.eqb k k') eqn:E.
    + apply N.eqb_eq in E. subst. split; [discriminate|]. intros H. exfalso. apply H. now left.
    + apply N.eqb_neq in E. rewrite IH. split.
      * intros H [H1|H1]; [congruence|auto].
      * intros H H1. apply H. now right.
Qed.

Lemma keys_aset {V} k (v : V) l k' : In k' (keys (aset k v l)) <-> k' = k \/ In k' (keys l).
Proof.
  induction l as [|[k2 v2] t IH]; cbn.
  - intuition.
  - destruct (N.eqb k k2) eqn:E; cbn.
    + apply N.eqb_eq in E. subst. intuition.
    + rewrite IH. intuition.
Qed.

Lemma NoDup_keys_aset {V} k (v : V) l : NoDup (keys l) -> NoDup (keys (aset k v l)).
Proof.
  induction l as [|[k2 v2] t IH]; cbn; intros ND.
  - constructor; [intros []|constructor].
  - inversion ND as [|? ? Hnot ND']; subst.
    destruct (N.eqb k k2) eqn:E; cbn.
    + apply N.eqb_eq in E. subst. now constructor.
    + constructor; auto. intros H. apply (keys_aset k v t k2) in H. apply N.eqb_neq in E.
      destruct H; [congruence|contradiction].
Qed.

Lemma NoDup_map_filter {A B} (f : A -> B) (g : A -> bool) l : NoDup (map f l) -> NoDup (map f (filter g l)).
Proof.
  induction l as [|a t IH]; cbn; intros ND; auto.
  inversion ND as [|? ? Hnot ND']; subst.
  destruct (g a); cbn; auto. constructor; auto.
  intros H. apply Hnot. apply in_map_iff in H. destruct H as [x [Hx HIn]].
  apply filter_In in HIn. apply in_map_iff. exists x. tauto.
Qed.

Lemma NoDup_keys_adel {V} k (l : list (N * V)) : NoDup (keys l) -> NoDup (keys (adel k l)).
Proof. apply NoDup_map_filter. Qed.

Lemma In_aset {V} k (v : V) l e : In e (aset k v l) -> e = (k, v) \/ In e l.
Proof.
  induction l as [|[k2 v2] t IH]; cbn.
  - intuition.
  - destruct (N.eqb k k2); cbn; intuition.
Qed.

(* map over the values of a map *)
Definition amap {V W} (f : V -> W) (l : list (N * V)) : list (N * W) := map (fun e => (fst e, f (snd e))) l.

Lemma aget_amap {V W} (f : V -> W) k l : aget k (amap f l) = option_map f (aget k l).
Proof.
  induction l as [|[k2 v2] t IH]; cbn; auto.
  destruct (N.eqb k k2); auto.
Qed.

Lemma keys_amap {V W} (f : V -> W) l : keys (amap f l) = keys l.
Proof. unfold keys, amap. rewrite map_map. apply map_ext. auto. Qed.

(* filtering entries of a map with unique keys *)
Lemma aget_filter {V} (g : N * V -> bool) k (l : list (N * V)) :
  NoDup (keys l) ->
  aget k (filter g l) = match aget k l with
                        | Some v => if g (k, v) then Some v else None
                        | None => None
                        end.
Proof.
  induction l as [|[k2 v2] t IH]; cbn; intros ND; auto.
  inversion ND as [|? ? Hnot ND']; subst.
  destruct (N.eqb k k2) eqn:E.
  - apply N.eqb_eq in E. subst k2.
    destruct (g (k, v2)) eqn:G; cbn.
    + now rewrite N.eqb_refl.
    + apply aget_None_keys. intros H. apply Hnot.
      unfold keys in *. apply in_map_iff in H. destruct H as [x [Hx HIn]].
      apply filter_In in HIn. apply in_map_iff. exists x. tauto.
  - destruct (g (k2, v2)); cbn; rewrite ?E; auto.
Qed.

(* ---------- membership tests *)
Lemma memb_In x l : memb x l = true <-> In x l.
Proof.
  unfold memb. rewrite existsb_exists. split.
  - intros [y [H1 H2]]. apply N.eqb_eq in H2. now subst.
  - intros H. exists x. split; auto. apply N.eqb_refl.
Qed.

Lemma nodupb_NoDup l : nodupb l = true <-> NoDup l.
Proof.
  induction l as [|x t IH]; cbn.
  - split; auto. constructor.
  - rewrite andb_true_iff, negb_true_iff, IH. split.
    + intros [H1 H2]. constructor; auto. intros H. apply memb_In in H. congruence.
    + intros H. inversion H; subst. split; auto.
      destruct (memb x t) eqn:E; auto. apply memb_In in E. contradiction.
Qed.

Lemma dedup_In x l : In x (dedup l) <-> In x l.
Proof.
  induction l as [|y t IH]; cbn; [tauto|].
  destruct (memb y t) eqn:E.
  - rewrite IH. split; auto. intros [->|H]; auto. now apply memb_In.
  - cbn. rewrite IH. tauto.
Qed.

Lemma dedup_NoDup l : NoDup (dedup l).
Proof.
  induction l as [|y t IH]; cbn; [constructor|].
  destruct (memb y t) eqn:E; auto.
  constructor; auto. rewrite dedup_In. intros H. apply memb_In in H. congruence.
Qed.

(* ---------- find by a key that is unique in the list *)
Lemma find_app {A} (f : A -> bool) l1 l2 :
  find f (l1 ++ l2) = match find f l1 with Some x => Some x | None => find f l2 end.
Proof. induction l1 as [|a t IH]; cbn; auto. destruct (f a); auto. Qed.

Lemma find_unique {A} (key : A -> N) (l : list A) (x : A) :
  NoDup (map key l) -> In x l -> find (fun r => N.eqb (key r) (key x)) l = Some x.
Proof.
  induction l as [|a t IH]; cbn; intros ND HIn; [contradiction|].
  inversion ND as [|? ? Hnot ND']; subst.
  destruct HIn as [->|HIn].
  - now rewrite N.eqb_refl.
  - destruct (N.eqb (key a) (key x)) eqn:E.
    + apply N.eqb_eq in E. exfalso. apply Hnot. rewrite E. now apply in_map.
    + auto.
Qed.

Lemma find_filter_unique {A} (key : A -> N) (g : A -> bool) (l : list A) (id : N) :
  NoDup (map key l) ->
  find (fun r => N.eqb (key r) id) (filter g l) =
  match find (fun r => N.eqb (key r) id) l with
  | Some r => if g r then Some r else None
  | None => None
  end.
Proof.
  induction l as [|a t IH]; cbn; intros ND; auto.
  inversion ND as [|? ? Hnot ND']; subst.
  destruct (N.eqb (key a) id) eqn:E.
  - destruct (g a) eqn:G; cbn.
    + now rewrite E.
    + destruct (find (fun r => N.eqb (key r) id) (filter g t)) eqn:F; auto.
      apply find_some in F. destruct F as [F1 F2]. apply filter_In in F1.
      apply N.eqb_eq in E, F2. exfalso. apply Hnot. rewrite E, <- F2. apply in_map. tauto.
  - destruct (g a); cbn; rewrite ?E; auto.
Qed.

Lemma find_map_key {A} (key : A -> N) (h : A -> A) (l : list A) (id : N) :
  (forall a, key (h a) = key a) ->
  find (fun r => N.eqb (key r) id) (map h l) = option_map h (find (fun r => N.eqb (key r) id) l).
Proof.
  intros Hk. induction l as [|a t IH]; cbn; auto.
  rewrite Hk. destruct (N.eqb (key a) id); auto.
Qed.

(* ---------- forallb depends only on the elements *)
Lemma forallb_same_elems {A} (f : A -> bool) l1 l2 :
  (forall x, In x l1 <-> In x l2) -> forallb f l1 = forallb f l2.
Proof.
  intros H. destruct (forallb f l1) eqn:E1; destruct (forallb f l2) eqn:E2; auto.
  - rewrite forallb_forall in E1.
    assert (forallb f l2 = true) by (apply forallb_forall; intros x Hx; apply E1, H, Hx). congruence.
  - rewrite forallb_forall in E2.
    assert (forallb f l1 = true) by (apply forallb_forall; intros x Hx; apply E2, H, Hx). congruence.
Qed.

(* ---------- permutations *)
Lemma Permutation_filter' {A} (f : A -> bool) l1 l2 :
  Permutation l1 l2 -> Permutation (filter f l1) (filter f l2).
Proof.
  induction 1; cbn.
  - constructor.
  - destruct (f x); auto.
  - destruct (f x), (f y); auto. constructor.
  - eapply perm_trans; eauto.
Qed.

Lemma NoDup_same_length {A} (l1 l2 : list A) :
  NoDup l1 -> NoDup l2 -> (forall x, In x l1 <-> In x l2) -> length l1 = length l2.
Proof. intros. apply Permutation_length. now apply NoDup_Permutation. Qed.

Lemma NoDup_app_intro {A} (l1 l2 : list A) :
  NoDup l1 -> NoDup l2 -> (forall x, In x l1 -> ~ In x l2) -> NoDup (l1 ++ l2).
Proof.
  induction l1 as [|a t IH]; cbn; intros N1 N2 Hd; auto.
  inversion N1; subst. constructor.
  - rewrite in_app_iff. intros [H|H]; [contradiction|]. apply (Hd a); auto.
  - apply IH; auto; intros x Hx; apply Hd; now right.
Qed.

(* ---------- multiset equality by counting *)
Lemma t3_eqb_eq a b : t3_eqb a b = true <-> a = b.
Proof.
  destruct a as [[a1 a2] a3], b as [[b1 b2] b3]. cbn.
  rewrite !andb_true_iff, !N.eqb_eq. split.
  - intros [[-> ->] ->]. reflexivity.
  - intros [= -> -> ->]. auto.
Qed.

Lemma mset3_eqb_perm a b : Permutation a b -> mset3_eqb a b = true.
Proof.
  intros P. unfold mset3_eqb. apply forallb_forall. intros x _.
  apply Nat.eqb_eq. unfold count3. apply Permutation_length. now apply Permutation_filter'.
Qed.

Lemma mset3_eqb_sound a b : mset3_eqb a b = true -> Permutation a b.
Proof.
  intros H. unfold mset3_eqb in H. rewrite forallb_forall in H.
  assert (D : forall x y : N * N * N, {x = y} + {x <> y}).
  { intros x y. destruct (t3_eqb x y) eqn:E; [left; now apply t3_eqb_eq|right].
    intros ->. assert (t3_eqb y y = true) by now apply t3_eqb_eq. congruence. }
  apply (Permutation_count_occ D). intros x.
  assert (C : forall l, count_occ D l x = count3 x l).
  { induction l as [|y t IH]; cbn; auto.
    unfold count3 in *. cbn. destruct (D y x) as [->|Hne].
    - assert (E : t3_eqb x x = true) by now apply t3_eqb_eq. rewrite E. cbn. now rewrite IH.
    - destruct (t3_eqb x y) eqn:E; auto. apply t3_eqb_eq in E. congruence. }
  rewrite !C.
  destruct (in_dec D x (a ++ b)) as [HIn|HNot].
  - apply Nat.eqb_eq. auto.
  - assert (Z : forall l, ~ In x l -> count3 x l = 0%nat).
    { induction l as [|y t IH]; cbn; auto. intros Hn. unfold count3 in *. cbn.
      destruct (t3_eqb x y) eqn:E.
      - apply t3_eqb_eq in E. subst. exfalso. apply Hn. now left.
      - apply IH. intros H1. apply Hn. now right. }
    rewrite !Z; auto; intros H1; apply HNot, in_app_iff; auto.
Qed.

Lemma msetN_eqb_perm a b : Permutation a b -> msetN_eqb a b = true.
Proof.
  intros P. unfold msetN_eqb. apply forallb_forall. intros x _.
  apply Nat.eqb_eq. unfold countN. apply Permutation_length. now apply Permutation_filter'.
Qed.

Lemma msetN_eqb_sound a b : msetN_eqb a b = true -> Permutation a b.
Proof.
  intros H. unfold msetN_eqb in H. rewrite forallb_forall in H.
  apply (Permutation_count_occ N.eq_dec). intros x.
  assert (C : forall l, count_occ N.eq_dec l x = countN x l).
  { induction l as [|y t IH]; cbn; auto.
    unfold countN in *. cbn. destruct (N.eq_dec y x) as [->|Hne].
    - rewrite N.eqb_refl. cbn. now rewrite IH.
    - destruct (N.eqb x y) eqn:E; auto. apply N.eqb_eq in E. congruence. }
  rewrite !C.
  destruct (in_dec N.eq_dec x (a ++ b)) as [HIn|HNot].
  - apply Nat.eqb_eq. auto.
  - assert (Z : forall l, ~ In x l -> countN x l = 0%nat).
    { induction l as [|y t IH]; cbn; auto. intros Hn. unfold countN in *. cbn.
      destruct (N.eqb x y) eqn:E.
      - apply N.eqb_eq in E. subst. exfalso. apply Hn. now left.
      - apply IH. intros H1. apply Hn. now right. }
    rewrite !Z; auto; intros H1; apply HNot, in_app_iff; auto.
Qed.
