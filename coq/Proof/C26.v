From Coq Require Import List NArith ZArith Bool Lia Permutation Sorted.
From Coq Require Import ZifyBool ZifyN ZifyNat.
From K.Model Require Import C26.
Import ListNotations.
Local Open Scope N_scope.

(* ---------- boolean helpers reflect their propositions ---------- *)
Lemma memN_In x l : memN x l = true <-> In x l.
Proof.
  unfold memN. rewrite existsb_exists. split.
  - intros [y [Hy He]]. apply N.eqb_eq in He. subst. exact Hy.
  - intros H. exists x. split; [exact H | apply N.eqb_refl].
Qed.

Lemma memN_false x l : memN x l = false <-> ~ In x l.
Proof. rewrite <- memN_In. destruct (memN x l); intuition congruence. Qed.

Lemma nodupb_NoDup l : nodupb l = true <-> NoDup l.
Proof.
  induction l as [|x t IH]; cbn [nodupb].
  - split; [constructor | reflexivity].
  - rewrite andb_true_iff, negb_true_iff, memN_false, IH. split.
    + intros [H1 H2]. constructor; assumption.
    + intros H. inversion H; subst. split; assumption.
Qed.

Lemma peer_eqb_eq a b : peer_eqb a b = true <-> a = b.
Proof.
  destruct a as [i1 p1 q1 o1 c1], b as [i2 p2 q2 o2 c2]. unfold peer_eqb. cbn [pid pip pport porigin pcomplete].
  rewrite !andb_true_iff, !N.eqb_eq, !Bool.eqb_true_iff. split.
  - intros [[[[-> ->] ->] ->] ->]. reflexivity.
  - intros H. inversion H. subst. repeat split.
Qed.

Lemma mem_peer_In p l : mem_peer p l = true <-> In p l.
Proof.
  unfold mem_peer. rewrite existsb_exists. split.
  - intros [y [Hy He]]. apply peer_eqb_eq in He. subst. exact Hy.
  - intros H. exists p. split; [exact H | apply peer_eqb_eq; reflexivity].
Qed.

Lemma sortedb_Sorted l : sortedb l = true <-> StronglySorted N.le l.
Proof.
  split.
  - intros H. apply Sorted_StronglySorted; [intros a b c; apply N.le_trans|].
    induction l as [|x t IH]; [constructor|].
    destruct t as [|y t'].
    + constructor; constructor.
    + cbn [sortedb] in H. apply andb_true_iff in H. destruct H as [H1 H2].
      constructor; [apply IH; exact H2 | constructor; apply N.leb_le; exact H1].
  - intros H. apply StronglySorted_Sorted in H.
    induction l as [|x t IH]; [reflexivity|].
    destruct t as [|y t']; [reflexivity|].
    cbn [sortedb]. inversion H as [|? ? Ht Hh]; subst. inversion Hh; subst.
    apply andb_true_iff. split; [apply N.leb_le; assumption | apply IH; exact Ht].
Qed.

Lemma is_nil_nil {A} (l : list A) : is_nil l = true <-> l = [].
Proof. destruct l; cbn; split; congruence. Qed.

(* ---------- the sort ---------- *)
Definition le_by (f : peer -> N) (a b : peer) : Prop := f a <= f b.

Lemma insert_by_perm f x l : Permutation (insert_by f x l) (x :: l).
Proof.
  induction l as [|y t IH]; cbn [insert_by]; [reflexivity|].
  destruct (f x <=? f y); [reflexivity|].
  eapply perm_trans; [apply perm_skip, IH | apply perm_swap].
Qed.

Lemma isort_perm f l : Permutation (isort f l) l.
Proof.
  induction l as [|x t IH]; cbn [isort]; [constructor|].
  eapply perm_trans; [apply insert_by_perm | apply perm_skip, IH].
Qed.

Lemma insert_by_ssorted f x l :
  StronglySorted (le_by f) l -> StronglySorted (le_by f) (insert_by f x l).
Proof.
  induction 1 as [|y t Ht IH Hy]; cbn [insert_by].
  - constructor; constructor.
  - destruct (f x <=? f y) eqn:E.
    + constructor; [constructor; assumption|].
      constructor; [unfold le_by; lia|].
      eapply Forall_impl; [|exact Hy]. unfold le_by. intros; lia.
    + constructor; [exact IH|].
      rewrite Forall_forall. intros p Hp.
      apply (Permutation_in _ (insert_by_perm f x t)) in Hp. destruct Hp as [<-|Hp].
      * unfold le_by; lia.
      * rewrite Forall_forall in Hy. apply Hy. exact Hp.
Qed.

Lemma isort_ssorted f l : StronglySorted (le_by f) (isort f l).
Proof.
  induction l as [|x t IH]; cbn [isort]; [constructor|]. apply insert_by_ssorted. exact IH.
Qed.

Lemma ssorted_map f l : StronglySorted (le_by f) l -> StronglySorted N.le (map f l).
Proof.
  induction 1 as [|y t Ht IH Hy]; cbn [map]; constructor; [exact IH|].
  rewrite Forall_forall in *. intros k Hk. apply in_map_iff in Hk. destruct Hk as [p [<- Hp]].
  apply Hy. exact Hp.
Qed.

Lemma isort_sorted f l : StronglySorted N.le (map f (isort f l)).
Proof. apply ssorted_map, isort_ssorted. Qed.

(* stability: the sort keeps the order inside each class *)
Lemma insert_by_filter_other f x l k :
  (f x =? k) = false ->
  filter (fun p => f p =? k) (insert_by f x l) = filter (fun p => f p =? k) l.
Proof.
  intros E. induction l as [|y t IH]; cbn [insert_by filter].
  - rewrite E. reflexivity.
  - destruct (f x <=? f y); cbn [filter]; rewrite ?E; [reflexivity|].
    rewrite IH. reflexivity.
Qed.

Lemma insert_by_filter_eq f x l k :
  StronglySorted (le_by f) l -> f x = k ->
  filter (fun p => f p =? k) (insert_by f x l) = x :: filter (fun p => f p =? k) l.
Proof.
  intros Hs Hk. induction Hs as [|y t Ht IH Hy]; cbn [insert_by filter].
  - rewrite Hk, N.eqb_refl. reflexivity.
  - destruct (f x <=? f y) eqn:E; cbn [filter].
    + rewrite Hk, N.eqb_refl. reflexivity.
    + destruct (f y =? k) eqn:Ey; [lia|]. apply IH.
Qed.

Lemma isort_stable f l k :
  filter (fun p => f p =? k) (isort f l) = filter (fun p => f p =? k) l.
Proof.
  induction l as [|x t IH]; cbn [isort]; [reflexivity|].
  cbn [filter]. destruct (f x =? k) eqn:E.
  - rewrite insert_by_filter_eq; [|apply isort_ssorted | apply N.eqb_eq; exact E]. rewrite IH. reflexivity.
  - rewrite insert_by_filter_other by exact E. exact IH.
Qed.

(* a list sorted by a key in {0,1,2} is the concatenation of its three classes *)
Lemma filter_none {A} (f : A -> bool) l : (forall x, In x l -> f x = false) -> filter f l = [].
Proof.
  induction l as [|x t IH]; intros H; cbn [filter]; [reflexivity|].
  rewrite (H x (or_introl eq_refl)). apply IH. intros y Hy. apply H. right. exact Hy.
Qed.

Lemma sorted3_split (f : peer -> N) l :
  (forall p, f p <= 2) -> StronglySorted N.le (map f l) ->
  l = filter (fun p => f p =? 0) l ++ filter (fun p => f p =? 1) l ++ filter (fun p => f p =? 2) l.
Proof.
  intros Hf. induction l as [|x t IH]; intros Hs; [reflexivity|].
  cbn [map] in Hs. inversion Hs as [|? ? Ht Hx]; subst. specialize (IH Ht).
  rewrite Forall_forall in Hx.
  assert (Hge : forall p, In p t -> f x <= f p).
  { intros p Hp. apply Hx. apply in_map. exact Hp. }
  cbn [filter]. pose proof (Hf x) as Hx2.
  destruct (f x =? 0) eqn:E0; [|destruct (f x =? 1) eqn:E1].
  - assert (f x =? 1 = false) as -> by lia. assert (f x =? 2 = false) as -> by lia.
    cbn [app]. f_equal. exact IH.
  - assert (f x =? 2 = false) as -> by lia.
    rewrite (filter_none (fun p => f p =? 0) t) in * by (intros p Hp; specialize (Hge p Hp); lia).
    cbn [app] in *. f_equal. exact IH.
  - assert (f x =? 2 = true) as -> by lia.
    rewrite (filter_none (fun p => f p =? 0) t) in * by (intros p Hp; specialize (Hge p Hp); lia).
    rewrite (filter_none (fun p => f p =? 1) t) in * by (intros p Hp; specialize (Hge p Hp); lia).
    cbn [app] in *. f_equal. exact IH.
Qed.

Lemma prio_le2 pol p : prio pol p <= 2.
Proof. destruct pol; cbn [prio]; [lia|]. destruct (porigin p), (pcomplete p); lia. Qed.

Lemma prio_class p :
  (prio PCompleteness p = 0 <-> seeder p) /\ (prio PCompleteness p = 1 <-> is_origin p)
  /\ (prio PCompleteness p = 2 <-> incomplete p).
Proof.
  unfold seeder, is_origin, incomplete. cbn [prio].
  destruct (porigin p), (pcomplete p); repeat split; intros; try lia; try tauto; try (destruct H; congruence); try congruence.
Qed.

(* under the completeness policy a priority-sorted list is seeders, then origins, then incomplete peers *)
Lemma completeness_split l :
  StronglySorted N.le (map (prio PCompleteness) l) ->
  exists s og i, l = s ++ og ++ i /\ Forall seeder s /\ Forall is_origin og /\ Forall incomplete i.
Proof.
  intros Hs. apply sorted3_split in Hs; [|apply prio_le2].
  eexists _, _, _. split; [exact Hs|].
  repeat split; rewrite Forall_forall; intros p Hp; apply filter_In in Hp; destruct Hp as [_ Hp];
    apply N.eqb_eq in Hp; apply prio_class; exact Hp.
Qed.

(* ---------- SortPeers ---------- *)
Lemma sort_peers_perm pol src l :
  Permutation (sort_peers pol src l) (filter (not_source src) l).
Proof. apply isort_perm. Qed.

Lemma sort_peers_In pol src l p :
  In p (sort_peers pol src l) <-> In p l /\ pid p <> pid src.
Proof.
  split.
  - intros H. apply (Permutation_in _ (sort_peers_perm pol src l)) in H.
    apply filter_In in H. destruct H as [H1 H2]. unfold not_source in H2. split; [exact H1 | lia].
  - intros [H1 H2]. apply (Permutation_in _ (Permutation_sym (sort_peers_perm pol src l))).
    apply filter_In. split; [exact H1 | unfold not_source; lia].
Qed.

Lemma sort_peers_no_self pol src l : ~ In (pid src) (map pid (sort_peers pol src l)).
Proof.
  intros H. apply in_map_iff in H. destruct H as [p [He Hp]].
  apply sort_peers_In in Hp. destruct Hp as [_ Hn]. congruence.
Qed.

Lemma sort_peers_length pol src l : (length (sort_peers pol src l) <= length l)%nat.
Proof.
  rewrite (Permutation_length (sort_peers_perm pol src l)).
  induction l as [|x t IH]; cbn [filter length]; [lia|].
  destruct (not_source src x); cbn [length]; lia.
Qed.

Lemma NoDup_map_filter (f : peer -> bool) l : NoDup (map pid l) -> NoDup (map pid (filter f l)).
Proof.
  induction l as [|x t IH]; cbn [map filter]; intros H; [constructor|].
  inversion H as [|? ? Hx Ht]; subst. destruct (f x); cbn [map].
  - constructor; [|apply IH; exact Ht].
    intros Hi. apply Hx. apply in_map_iff in Hi. destruct Hi as [p [He Hp]].
    apply filter_In in Hp. apply in_map_iff. exists p. tauto.
  - apply IH. exact Ht.
Qed.

Lemma sort_peers_nodup pol src l : NoDup (map pid l) -> NoDup (map pid (sort_peers pol src l)).
Proof.
  intros H. eapply Permutation_NoDup.
  - apply Permutation_map. apply Permutation_sym. apply sort_peers_perm.
  - apply NoDup_map_filter. exact H.
Qed.

Lemma sort_peers_sorted pol src l : StronglySorted N.le (map (prio pol) (sort_peers pol src l)).
Proof. apply isort_sorted. Qed.

(* the model's order inside a class is the order of arrival (store answer, then origins) *)
Lemma sort_peers_stable pol src l k :
  filter (fun p => prio pol p =? k) (sort_peers pol src l) =
  filter (fun p => prio pol p =? k) (filter (not_source src) l).
Proof. apply isort_stable. Qed.

(* ---------- the store ---------- *)
Lemma group_set_same h g st : group (set_group h g st) h = g.
Proof.
  induction st as [|[k g0] t IH]; cbn [set_group group].
  - rewrite N.eqb_refl. reflexivity.
  - destruct (k =? h) eqn:E; cbn [group]; rewrite E; [reflexivity | exact IH].
Qed.

Lemma group_set_other h h' g st : h <> h' -> group (set_group h g st) h' = group st h'.
Proof.
  intros Hn. induction st as [|[k g0] t IH]; cbn [set_group group].
  - destruct (h =? h') eqn:E; [lia | reflexivity].
  - destruct (k =? h) eqn:E; cbn [group].
    + destruct (k =? h') eqn:E'; [lia | reflexivity].
    + destruct (k =? h'); [reflexivity | exact IH].
Qed.

Lemma group_step st a h :
  group (step_state st a) h =
  if negb (a_updfail a) && (a_h a =? h) then upsert (entry_of (a_peer a)) (group st h) else group st h.
Proof.
  unfold step_state, update_peer. destruct (a_updfail a); cbn [negb andb]; [reflexivity|].
  destruct (a_h a =? h) eqn:E.
  - apply N.eqb_eq in E. subst. apply group_set_same.
  - apply group_set_other. lia.
Qed.

Lemma upsert_In e l p : In p (upsert e l) -> p = e \/ In p l.
Proof.
  induction l as [|x t IH]; cbn [upsert]; intros H.
  - destruct H as [<-|[]]. left. reflexivity.
  - destruct (pid x =? pid e).
    + destruct H as [<-|H]; [left; reflexivity | right; right; exact H].
    + destruct H as [<-|H]; [right; left; reflexivity|]. destruct (IH H); [left | right; right]; assumption.
Qed.

Lemma upsert_ids e l : forall i, In i (map pid (upsert e l)) -> i = pid e \/ In i (map pid l).
Proof.
  intros i H. apply in_map_iff in H. destruct H as [p [<- Hp]].
  apply upsert_In in Hp. destruct Hp as [->|Hp]; [left; reflexivity | right; apply in_map; exact Hp].
Qed.

Lemma upsert_nodup e l : NoDup (map pid l) -> NoDup (map pid (upsert e l)).
Proof.
  induction l as [|x t IH]; cbn [upsert map]; intros H.
  - constructor; [intros [] | constructor].
  - inversion H as [|? ? Hx Ht]; subst. destruct (pid x =? pid e) eqn:E; cbn [map].
    + apply N.eqb_eq in E. rewrite <- E. constructor; assumption.
    + constructor; [|apply IH; exact Ht].
      intros Hi. apply upsert_ids in Hi. destruct Hi as [Hi|Hi]; [lia | exact (Hx Hi)].
Qed.

Lemma lookup_upsert e l id :
  lookup (upsert e l) id = if pid e =? id then Some e else lookup l id.
Proof.
  unfold lookup. induction l as [|x t IH]; cbn [upsert find].
  - destruct (pid e =? id); reflexivity.
  - destruct (pid x =? pid e) eqn:E; cbn [find].
    + apply N.eqb_eq in E. rewrite E. destruct (pid e =? id); reflexivity.
    + destruct (pid x =? id) eqn:E2.
      * destruct (pid e =? id) eqn:E3; [lia | reflexivity].
      * exact IH.
Qed.

Lemma lookup_In g e : NoDup (map pid g) -> (In e g <-> lookup g (pid e) = Some e).
Proof.
  unfold lookup. induction g as [|x t IH]; cbn [map find]; intros H.
  - split; [intros [] | discriminate].
  - inversion H as [|? ? Hx Ht]; subst. destruct (pid x =? pid e) eqn:E.
    + apply N.eqb_eq in E. split.
      * intros [->|Hi]; [reflexivity|]. exfalso. apply Hx. rewrite E. apply in_map. exact Hi.
      * intros He. inversion He. left. reflexivity.
    + rewrite <- (IH Ht). split.
      * intros [->|Hi]; [rewrite N.eqb_refl in E; discriminate | exact Hi].
      * intros Hi. right. exact Hi.
Qed.

Definition store_inv (st : store) : Prop :=
  forall h, NoDup (map pid (group st h)) /\ Forall (fun p => porigin p = false) (group st h).

Lemma store_inv_init : store_inv init.
Proof. intros h. cbn [init group map]. split; constructor. Qed.

Lemma store_inv_step st a : store_inv st -> store_inv (step_state st a).
Proof.
  intros H h. rewrite group_step. destruct (negb (a_updfail a) && (a_h a =? h)); [|apply H].
  destruct (H h) as [H1 H2]. split; [apply upsert_nodup; exact H1|].
  rewrite Forall_forall in *. intros p Hp. apply upsert_In in Hp. destruct Hp as [->|Hp]; [reflexivity | apply H2; exact Hp].
Qed.

Definition state_after (st : store) (ops : list announce) : store := fold_left step_state ops st.

Lemma run_with_state sorter c ops : forall st, fst (run_with sorter c st ops) = state_after st ops.
Proof.
  induction ops as [|a t IH]; intros st; cbn [run_with state_after fold_left]; [reflexivity|].
  unfold step_with. specialize (IH (step_state st a)).
  destruct (run_with sorter c (step_state st a) t) as [s2 os]. cbn [fst] in *. exact IH.
Qed.

Lemma store_inv_after ops : forall st, store_inv st -> store_inv (state_after st ops).
Proof.
  induction ops as [|a t IH]; intros st H; cbn [state_after fold_left]; [exact H|].
  apply IH. apply store_inv_step. exact H.
Qed.

Lemma lookup_step st a h id :
  lookup (group (step_state st a) h) id =
  if negb (a_updfail a) && (a_h a =? h) && (pid (a_peer a) =? id)
  then Some (entry_of (a_peer a)) else lookup (group st h) id.
Proof.
  rewrite group_step. destruct (negb (a_updfail a) && (a_h a =? h)); cbn [andb]; [|reflexivity].
  rewrite lookup_upsert. reflexivity.
Qed.

Lemma lookup_after ops : forall st h id,
  lookup (group (state_after st ops) h) id = latest ops h id (lookup (group st h) id).
Proof.
  induction ops as [|a t IH]; intros st h id; cbn [state_after fold_left latest]; [reflexivity|].
  change (fold_left step_state t (step_state st a)) with (state_after (step_state st a) t).
  rewrite IH, lookup_step. reflexivity.
Qed.

(* the store holds, for every torrent, exactly the latest successful announcement of each peer *)
Lemma store_reflects_latest c ops h e :
  In e (group (fst (run c init ops)) h) <-> latest ops h (pid e) None = Some e.
Proof.
  unfold run. rewrite run_with_state.
  rewrite lookup_In by (apply store_inv_after, store_inv_init).
  rewrite lookup_after. reflexivity.
Qed.

Lemma store_ids_nodup c ops h : NoDup (map pid (group (fst (run c init ops)) h)).
Proof. unfold run. rewrite run_with_state. apply store_inv_after, store_inv_init. Qed.

(* ---------- one response ---------- *)
Lemma NoDup_app_intro (l1 l2 : list N) :
  NoDup l1 -> NoDup l2 -> (forall x, In x l1 -> ~ In x l2) -> NoDup (l1 ++ l2).
Proof.
  induction l1 as [|x t IH]; cbn [app]; intros H1 H2 Hd; [exact H2|].
  inversion H1 as [|? ? Hx Ht]; subst. constructor.
  - intros Hi. apply in_app_or in Hi. destruct Hi as [Hi|Hi]; [exact (Hx Hi)|].
    exact (Hd x (or_introl eq_refl) Hi).
  - apply IH; [exact Ht | exact H2|]. intros y Hy. apply Hd. right. exact Hy.
Qed.

Lemma cap_nonneg c : (0 <= cap c)%Z.
Proof. unfold cap. lia. Qed.

Lemma legal_choice_spec c g a :
  legal_choice c g a = true -> pcomplete (a_peer a) = false ->
  (Z.of_nat (length (olist (a_store a))) <= cap c)%Z
  /\ NoDup (map pid (olist (a_store a)))
  /\ (forall p, In p (olist (a_store a)) -> In p g).
Proof.
  unfold legal_choice. intros H Hc. rewrite Hc in H.
  destruct (a_store a) as [l|]; cbn [olist].
  - apply andb_true_iff in H. destruct H as [H H3]. apply andb_true_iff in H. destruct H as [H1 H2].
    split; [lia|]. split; [apply nodupb_NoDup; exact H2|].
    intros p Hp. rewrite forallb_forall in H3. apply mem_peer_In. apply H3. exact Hp.
  - cbn [length map]. pose proof (cap_nonneg c). split; [lia|]. split; [constructor | intros p []].
Qed.

Lemma origins_ok_spec g a :
  origins_ok g a = true ->
  NoDup (map pid (olist (a_origins a))) /\ (forall o, In o (olist (a_origins a)) -> ~ In (pid o) (map pid g)).
Proof.
  unfold origins_ok. intros H. apply andb_true_iff in H. destruct H as [H1 H2].
  split; [apply nodupb_NoDup; exact H1|].
  intros o Ho. rewrite forallb_forall in H2. specialize (H2 o Ho).
  apply negb_true_iff, memN_false in H2. exact H2.
Qed.

Lemma candidates_nodup c g a :
  legal_choice c g a = true -> pcomplete (a_peer a) = false -> origins_ok g a = true ->
  NoDup (map pid (candidates a)).
Proof.
  intros Hl Hc Ho. destruct (legal_choice_spec c g a Hl Hc) as [_ [H2 H3]].
  destruct (origins_ok_spec g a Ho) as [H4 H5].
  unfold candidates. rewrite map_app. apply NoDup_app_intro; [exact H2 | exact H4|].
  intros i Hi Hi2. apply in_map_iff in Hi. destruct Hi as [p [<- Hp]].
  apply in_map_iff in Hi2. destruct Hi2 as [o [He Ho2]].
  apply (H5 o Ho2). rewrite He. apply in_map. apply H3. exact Hp.
Qed.

Lemma candidates_length c g a :
  legal_choice c g a = true -> pcomplete (a_peer a) = false ->
  (Z.of_nat (length (candidates a)) <= cap c + Z.of_nat (length (olist (a_origins a))))%Z.
Proof.
  intros Hl Hc. destruct (legal_choice_spec c g a Hl Hc) as [H1 _].
  unfold candidates. rewrite app_length. lia.
Qed.

(* every response of the model meets every clause, whatever legal answer the store gave *)
Lemma handout_resp_spec c g a : legal_choice c g a = true -> resp_spec c g a (handout c a).
Proof.
  intros Hl. unfold handout, handout_with. destruct (pcomplete (a_peer a)) eqn:Hc.
  - cbn [resp_spec]. rewrite Hc. pose proof (cap_nonneg c).
    split; [reflexivity|]. split; [intros []|]. split; [intros _; constructor|].
    split; [cbn [length]; lia | constructor].
  - destruct (candidates a) as [|p ps] eqn:E; cbn [resp_spec]; [exact Hc|]. rewrite <- E.
    split; [rewrite Hc; discriminate|]. split; [apply sort_peers_no_self|].
    split; [intros Ho; apply sort_peers_nodup; eapply candidates_nodup; eassumption|].
    split; [|apply sort_peers_sorted].
    pose proof (candidates_length c g a Hl Hc). pose proof (sort_peers_length (c_policy c) (a_peer a) (candidates a)). lia.
Qed.

Lemma forallb_not_source src l : forallb (not_source src) l = true <-> ~ In (pid src) (map pid l).
Proof.
  rewrite forallb_forall. unfold not_source. split.
  - intros H Hi. apply in_map_iff in Hi. destruct Hi as [p [He Hp]]. specialize (H p Hp). lia.
  - intros H p Hp. destruct (pid p =? pid src) eqn:E; [|reflexivity].
    exfalso. apply H. apply in_map_iff. exists p. split; [lia | exact Hp].
Qed.

(* the boolean oracle decides exactly the clauses *)
Lemma resp_ok_spec c g a o : resp_ok c g a o = true <-> resp_spec c g a o.
Proof.
  destruct o as [|l]; cbn [resp_ok resp_spec]; [apply negb_true_iff|].
  rewrite !andb_true_iff, forallb_not_source, Z.leb_le, sortedb_Sorted.
  assert (H1 : (if pcomplete (a_peer a) then is_nil l else true) = true <-> (pcomplete (a_peer a) = true -> l = [])).
  { destruct (pcomplete (a_peer a)); [rewrite is_nil_nil; tauto | split; [discriminate | reflexivity]]. }
  assert (H2 : (if origins_ok g a then nodupb (map pid l) else true) = true <-> (origins_ok g a = true -> NoDup (map pid l))).
  { destruct (origins_ok g a); [rewrite nodupb_NoDup; tauto | split; [discriminate | reflexivity]]. }
  rewrite H1, H2. tauto.
Qed.

(* ---------- histories ---------- *)
Lemma check_from_each c ops : forall st obs,
  check_from c st ops obs = true <-> each_from (resp_spec c) st ops obs.
Proof.
  induction ops as [|a t IH]; intros st obs; destruct obs as [|o os]; cbn [check_from each_from];
    try (split; [discriminate | intros []]); [tauto|].
  rewrite andb_true_iff, resp_ok_spec, IH. reflexivity.
Qed.

Lemma run_cons c st a t :
  snd (run c st (a :: t)) = handout c a :: snd (run c (step_state st a) t).
Proof.
  unfold run. cbn [run_with]. unfold step_with.
  destruct (run_with sort_peers c (step_state st a) t) as [s2 os]. reflexivity.
Qed.

Lemma run_each (P : list peer -> announce -> out -> Prop) c :
  (forall st a, store_inv st -> legal_choice c (group (step_state st a) (a_h a)) a = true ->
                P (group (step_state st a) (a_h a)) a (handout c a)) ->
  forall ops st, store_inv st -> legal_from c st ops = true -> each_from P st ops (snd (run c st ops)).
Proof.
  intros HP. induction ops as [|a t IH]; intros st Hi Hl; [exact I|].
  rewrite run_cons. cbn [each_from].
  cbn [legal_from] in Hl. apply andb_true_iff in Hl. destruct Hl as [Hl1 Hl2].
  split; [apply HP; assumption | apply IH; [apply store_inv_step; exact Hi | exact Hl2]].
Qed.

Lemma each_from_impl (P Q : list peer -> announce -> out -> Prop) :
  (forall g a o, P g a o -> Q g a o) -> forall ops st obs, each_from P st ops obs -> each_from Q st ops obs.
Proof.
  intros H. induction ops as [|a t IH]; intros st obs; destruct obs as [|o os]; cbn [each_from]; try tauto.
  intros [H1 H2]. split; [apply H; exact H1 | apply IH; exact H2].
Qed.

Lemma each_from_Forall2 (P : list peer -> announce -> out -> Prop) (Q : announce -> out -> Prop) :
  (forall g a o, P g a o -> Q a o) -> forall ops st obs, each_from P st ops obs -> Forall2 Q ops obs.
Proof.
  intros H. induction ops as [|a t IH]; intros st obs; destruct obs as [|o os]; cbn [each_from]; try tauto.
  - intros _. constructor.
  - intros [H1 H2]. constructor; [eapply H; exact H1 | eapply IH; exact H2].
Qed.

Lemma each_from_origins (P : list peer -> announce -> out -> Prop) : forall ops st obs,
  each_from P st ops obs -> origins_ok_from st ops = true ->
  each_from (fun g a o => P g a o /\ origins_ok g a = true) st ops obs.
Proof.
  induction ops as [|a t IH]; intros st obs; destruct obs as [|o os]; cbn [each_from origins_ok_from]; try tauto.
  intros [H1 H2] Ho. apply andb_true_iff in Ho. destruct Ho as [Ho1 Ho2].
  split; [split; assumption | apply IH; assumption].
Qed.

Lemma Forall2_Forall_r {A B} (Q : B -> Prop) (l : list A) (l' : list B) :
  Forall2 (fun _ o => Q o) l l' -> Forall Q l'.
Proof. induction 1; constructor; assumption. Qed.

(* main theorem: every clause at every position of every history *)
Lemma run_resp_spec c ops :
  legal c ops = true -> each_from (resp_spec c) init ops (snd (run c init ops)).
Proof.
  intros Hl. apply run_each; [|apply store_inv_init | exact Hl].
  intros st a _ H. apply handout_resp_spec. exact H.
Qed.

Lemma check_sound c ops : legal c ops = true -> C26_check c ops (snd (run c init ops)) = true.
Proof. intros Hl. unfold C26_check. apply check_from_each. apply run_resp_spec. exact Hl. Qed.

Lemma check_spec c ops obs : C26_check c ops obs = true <-> each_from (resp_spec c) init ops obs.
Proof. apply check_from_each. Qed.

(* clauses that hold of every response without any assumption on the store's answer *)
Lemma run_Forall2 (Q : announce -> out -> Prop) c :
  (forall a, Q a (handout c a)) -> forall ops st, Forall2 Q ops (snd (run c st ops)).
Proof.
  intros HQ. induction ops as [|a t IH]; intros st; [constructor|].
  rewrite run_cons. constructor; [apply HQ | apply IH].
Qed.

Lemma no_self c ops :
  Forall2 (fun a o => forall l, o = OPeers l -> ~ In (pid (a_peer a)) (map pid l)) ops (snd (run c init ops)).
Proof.
  apply run_Forall2. intros a l. unfold handout, handout_with.
  destruct (pcomplete (a_peer a)); [intros H; inversion H; subst; intros []|].
  destruct (candidates a) as [|p ps]; [discriminate|]. intros H. inversion H; subst. apply sort_peers_no_self.
Qed.

Lemma empty_when_complete c ops :
  Forall2 (fun a o => pcomplete (a_peer a) = true -> o = OPeers []) ops (snd (run c init ops)).
Proof.
  apply run_Forall2. intros a Hc. unfold handout, handout_with. rewrite Hc. reflexivity.
Qed.

Lemma priority_sorted c ops :
  Forall (fun o => forall l, o = OPeers l -> StronglySorted N.le (map (prio (c_policy c)) l)) (snd (run c init ops)).
Proof.
  apply (Forall2_Forall_r _ ops). apply run_Forall2. intros a l. unfold handout, handout_with.
  destruct (pcomplete (a_peer a)); [intros H; inversion H; subst; constructor|].
  destruct (candidates a) as [|p ps]; [discriminate|]. intros H. inversion H; subst. apply sort_peers_sorted.
Qed.

Lemma completeness_order c ops :
  c_policy c = PCompleteness ->
  Forall (fun o => forall l, o = OPeers l ->
            exists s og i, l = s ++ og ++ i /\ Forall seeder s /\ Forall is_origin og /\ Forall incomplete i)
         (snd (run c init ops)).
Proof.
  intros Hp. pose proof (priority_sorted c ops) as H. rewrite Hp in H.
  eapply Forall_impl; [|exact H]. intros o Ho l El. apply completeness_split. apply Ho. exact El.
Qed.

(* nothing is dropped and nothing invented: the handout is, up to order, what the peer store and
   the origin store supplied minus the announcer; an error only when they supplied nothing *)
Lemma handout_exact c ops :
  Forall2 (fun a o => pcomplete (a_peer a) = false ->
             match o with
             | OErr => candidates a = []
             | OPeers l => candidates a <> [] /\ Permutation l (filter (not_source (a_peer a)) (candidates a))
             end) ops (snd (run c init ops)).
Proof.
  apply run_Forall2. intros a Hc. unfold handout, handout_with. rewrite Hc.
  destruct (candidates a) as [|p ps] eqn:E; [reflexivity|].
  split; [discriminate | apply sort_peers_perm].
Qed.

Lemma nodup c ops :
  legal c ops = true -> origins_ok_from init ops = true ->
  Forall (fun o => forall l, o = OPeers l -> NoDup (map pid l)) (snd (run c init ops)).
Proof.
  intros Hl Ho. apply (Forall2_Forall_r _ ops).
  eapply each_from_Forall2; [|apply each_from_origins; [apply run_resp_spec; exact Hl | exact Ho]].
  intros g a o [H1 H2] l El. subst o. cbn [resp_spec] in H1. apply H1. exact H2.
Qed.

Lemma bound c ops :
  legal c ops = true ->
  Forall2 (fun a o => forall l, o = OPeers l ->
             (Z.of_nat (length l) <= cap c + Z.of_nat (length (olist (a_origins a))))%Z)
          ops (snd (run c init ops)).
Proof.
  intros Hl. eapply each_from_Forall2; [|apply run_resp_spec; exact Hl].
  intros g a o H l El. subst o. cbn [resp_spec] in H. apply H.
Qed.

(* ---------- agents and origins counted separately ---------- *)
Lemma filter_length_perm {A} (f : A -> bool) l l' :
  Permutation l l' -> length (filter f l) = length (filter f l').
Proof.
  induction 1 as [|x l l' _ IH|x y l|l l' l'' _ IH1 _ IH2]; cbn [filter]; [reflexivity| | |congruence].
  - destruct (f x); cbn [length]; congruence.
  - destruct (f x), (f y); reflexivity.
Qed.

Lemma filter_filter_length {A} (f g : A -> bool) l :
  (length (filter f (filter g l)) <= length (filter f l))%nat.
Proof.
  induction l as [|x t IH]; cbn [filter]; [lia|].
  destruct (g x), (f x) eqn:E; cbn [filter length]; rewrite ?E; cbn [length]; lia.
Qed.

Lemma filter_length_le {A} (f : A -> bool) l : (length (filter f l) <= length l)%nat.
Proof. induction l as [|x t IH]; cbn [filter length]; [lia|]. destruct (f x); cbn [length]; lia. Qed.

Lemma handout_split c g a l :
  Forall (fun p => porigin p = false) g -> legal_choice c g a = true ->
  forallb porigin (olist (a_origins a)) = true -> handout c a = OPeers l ->
  (Z.of_nat (length (filter agent l)) <= cap c)%Z
  /\ (forall p, In p l -> porigin p = true -> In p (olist (a_origins a)))
  /\ (forall p, In p l -> porigin p = false -> In p g).
Proof.
  intros Hg Hl Hf. unfold handout, handout_with. destruct (pcomplete (a_peer a)) eqn:Hc.
  - intros H. inversion H; subst. pose proof (cap_nonneg c). cbn [filter length]. split; [lia|]. split; intros p [].
  - destruct (candidates a) as [|q qs] eqn:E; [discriminate|]. rewrite <- E. intros H. inversion H; subst. clear H.
    destruct (legal_choice_spec c g a Hl Hc) as [H1 [_ H3]].
    rewrite forallb_forall in Hf. rewrite Forall_forall in Hg.
    split; [|split].
    + rewrite (filter_length_perm agent _ _ (sort_peers_perm (c_policy c) (a_peer a) (candidates a))).
      pose proof (filter_filter_length agent (not_source (a_peer a)) (candidates a)) as H4.
      unfold candidates in H4 at 2. rewrite filter_app, app_length in H4.
      rewrite (filter_none agent (olist (a_origins a))) in H4
        by (intros x Hx; unfold agent; rewrite (Hf x Hx); reflexivity).
      pose proof (filter_length_le agent (olist (a_store a))). cbn [length] in H4. lia.
    + intros p Hp Ho. apply sort_peers_In in Hp. destruct Hp as [Hp _].
      apply in_app_or in Hp. destruct Hp as [Hp|Hp]; [|exact Hp].
      specialize (Hg p (H3 p Hp)). congruence.
    + intros p Hp Ho. apply sort_peers_In in Hp. destruct Hp as [Hp _].
      apply in_app_or in Hp. destruct Hp as [Hp|Hp]; [exact (H3 p Hp)|].
      specialize (Hf p Hp). congruence.
Qed.

(* at most `limit` agents; every origin listed is one of the blob's origins *)
Lemma bound_agents c ops :
  legal c ops = true ->
  Forall2 (fun a o => forall l, o = OPeers l -> forallb porigin (olist (a_origins a)) = true ->
             (Z.of_nat (length (filter agent l)) <= cap c)%Z
             /\ (forall p, In p l -> porigin p = true -> In p (olist (a_origins a))))
          ops (snd (run c init ops)).
Proof.
  intros Hl.
  eapply (each_from_Forall2 (fun g a o => forall l, o = OPeers l -> forallb porigin (olist (a_origins a)) = true ->
             (Z.of_nat (length (filter agent l)) <= cap c)%Z
             /\ (forall p, In p l -> porigin p = true -> In p (olist (a_origins a))))).
  - intros g a o H. exact H.
  - apply run_each; [|apply store_inv_init | exact Hl].
    intros st a Hi Hc l El Hf.
    destruct (handout_split c _ a l (proj2 (store_inv_step st a Hi (a_h a))) Hc Hf El) as [H1 [H2 _]].
    split; assumption.
Qed.

(* ---------- the agents handed out are announced peers, as last announced ---------- *)
Lemma state_after_app st a b : state_after st (a ++ b) = state_after (state_after st a) b.
Proof. unfold state_after. apply fold_left_app. Qed.

Lemma legal_from_app c a b : forall st,
  legal_from c st (a ++ b) = legal_from c st a && legal_from c (state_after st a) b.
Proof.
  induction a as [|x t IH]; intros st; cbn [app legal_from state_after fold_left]; [reflexivity|].
  change (fold_left step_state t (step_state st x)) with (state_after (step_state st x) t).
  rewrite IH, andb_assoc. reflexivity.
Qed.

Lemma run_snoc c ops a : forall st,
  snd (run c st (ops ++ [a])) = snd (run c st ops) ++ [handout c a].
Proof.
  induction ops as [|x t IH]; intros st; cbn [app].
  - rewrite run_cons. reflexivity.
  - rewrite !run_cons, IH. reflexivity.
Qed.

Lemma agents_latest c ops a l :
  legal c (ops ++ [a]) = true -> forallb porigin (olist (a_origins a)) = true ->
  handout c a = OPeers l ->
  forall p, In p l -> porigin p = false -> latest (ops ++ [a]) (a_h a) (pid p) None = Some p.
Proof.
  intros Hl Hf El p Hp Ho. unfold legal in Hl. rewrite legal_from_app in Hl.
  apply andb_true_iff in Hl. destruct Hl as [_ Hl]. cbn [legal_from] in Hl. rewrite andb_true_r in Hl.
  pose proof (store_inv_after ops init store_inv_init) as Hi.
  pose proof (store_inv_step _ a Hi) as Hi2.
  destruct (handout_split c _ a l (proj2 (Hi2 (a_h a))) Hl Hf El) as [_ [_ H3]].
  specialize (H3 p Hp Ho).
  apply (lookup_In _ _ (proj1 (Hi2 (a_h a)))) in H3.
  change (step_state (state_after init ops) a) with (state_after (state_after init ops) [a]) in H3.
  rewrite <- state_after_app, lookup_after in H3. exact H3.
Qed.

(* ---------- the hypothesis `legal` can be met for every announce sequence ---------- *)
Lemma In_firstn {A} n (l : list A) x : In x (firstn n l) -> In x l.
Proof. intros H. rewrite <- (firstn_skipn n l). apply in_or_app. left. exact H. Qed.

Lemma NoDup_firstn {A} n (l : list A) : NoDup l -> NoDup (firstn n l).
Proof.
  revert l. induction n as [|n IH]; intros l H; cbn [firstn]; [constructor|].
  destruct l as [|x t]; [constructor|]. inversion H as [|? ? Hx Ht]; subst.
  constructor; [|apply IH; exact Ht]. intros Hi. apply Hx. eapply In_firstn. exact Hi.
Qed.

Lemma fill_legal c ops : forall st, store_inv st -> legal_from c st (fill_from c st ops) = true.
Proof.
  induction ops as [|a t IH]; intros st Hi; cbn [fill_from legal_from]; [reflexivity|].
  assert (Es : step_state st (answer_firstn c st a) = step_state st a) by reflexivity.
  rewrite Es. apply andb_true_iff. split; [|apply IH, store_inv_step, Hi].
  unfold legal_choice, answer_firstn. cbn [a_peer a_store a_h].
  destruct (pcomplete (a_peer a)); [reflexivity|].
  destruct (store_inv_step st a Hi (a_h a)) as [Hn _].
  rewrite !andb_true_iff. split; [split|].
  - pose proof (firstn_le_length (Z.to_nat (cap c)) (group (step_state st a) (a_h a))).
    pose proof (cap_nonneg c). lia.
  - apply nodupb_NoDup. rewrite <- firstn_map. apply NoDup_firstn. exact Hn.
  - apply forallb_forall. intros p Hp. apply mem_peer_In. eapply In_firstn. exact Hp.
Qed.

Lemma fill_requests c ops : forall st, map request_of (fill_from c st ops) = map request_of ops.
Proof.
  induction ops as [|a t IH]; intros st; cbn [fill_from map]; [reflexivity|].
  rewrite IH. reflexivity.
Qed.

Lemma legal_satisfiable c ops :
  exists ops', map request_of ops' = map request_of ops /\ legal c ops' = true.
Proof.
  exists (fill_from c init ops). split; [apply fill_requests | apply fill_legal, store_inv_init].
Qed.

(* ---------- the code as pinned (pointer comparison) and the environment assumption ---------- *)
Lemma pointer_eq_refuted :
  exists c a l, legal c [a] = true /\ origins_ok_from init [a] = true
                /\ snd (run_ptr c init [a]) = [OPeers l] /\ In (pid (a_peer a)) (map pid l).
Proof.
  exists (mkc PDefault 5), w_self, [mkp 1 1 7001 false false].
  vm_compute. repeat split; try reflexivity. left. reflexivity.
Qed.

(* the same history on the fixed SortPeers: an empty handout *)
Lemma pointer_eq_fixed : snd (run (mkc PDefault 5) init [w_self]) = [OPeers []].
Proof. vm_compute. reflexivity. Qed.

(* the pinned code never excludes anything: whatever the stores supplied is handed out, so the
   announcer is listed whenever the peer store's answer contains its entry *)
Lemma pointer_eq_general pol src l x : In x l -> In x (sort_peers_ptr pol src l).
Proof. intros H. unfold sort_peers_ptr. apply (Permutation_in _ (Permutation_sym (isort_perm (prio pol) l))). exact H. Qed.

Lemma nodup_overlap_refuted :
  exists c ops, legal c ops = true /\ origins_ok_from init ops = false
                /\ Exists (fun o => exists l, o = OPeers l /\ ~ NoDup (map pid l)) (snd (run c init ops)).
Proof.
  exists (mkc PCompleteness 5), w_overlap. split; [vm_compute; reflexivity|]. split; [vm_compute; reflexivity|].
  apply Exists_cons_tl, Exists_cons_hd. eexists. split; [vm_compute; reflexivity|].
  intros H. apply nodupb_NoDup in H. vm_compute in H. discriminate.
Qed.
