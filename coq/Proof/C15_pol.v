(* C15: both selection policies return legal selections, for every source of randomness
   (default policy) and every pop order of the priority queue (rarest-first). *)
From Coq Require Import List NArith ZArith Bool Lia Permutation Sorted.
From K.Model Require Import C15.
From K.Proof Require Import C15_base.
Import ListNotations.
Local Open Scope N_scope.

Section Policies.
Variable limit : nat.
Variable validf : N -> bool.
Variable cands : list N.

Definition Good (pieces : list N) : Prop :=
  (length pieces <= limit)%nat /\ NoDup pieces /\ forall x, In x pieces -> In x cands /\ validf x = true.

Lemma Good_legal pieces : Good pieces -> legal_sel (Z.of_nat limit) validf cands pieces = true.
Proof.
  intros [H1 [H2 H3]]. unfold legal_sel. destruct (Z.leb (Z.of_nat limit) 0) eqn:E.
  - apply Z.leb_le in E. destruct pieces; auto. cbn in H1. lia.
  - rewrite !andb_true_iff. split; [split|].
    + apply Z.leb_le. lia.
    + now apply nodupb_NoDup.
    + apply forallb_forall. intros x Hx. destruct (H3 x Hx) as [H4 H5].
      rewrite H5, andb_true_r. now apply memb_In.
Qed.

Lemma replace_nth_length n x l : length (replace_nth n x l) = length l.
Proof. revert n. induction l as [|y t IH]; intros [|n]; cbn; auto. Qed.

Lemma replace_nth_In n x l y : In y (replace_nth n x l) -> y = x \/ In y l.
Proof.
  revert n. induction l as [|z t IH]; intros n; [destruct n; cbn; auto|].
  destruct n; cbn.
  - intros [<-|H]; auto.
  - intros [<-|H]; auto. apply IH in H. tauto.
Qed.

Lemma replace_nth_NoDup n x l : NoDup l -> ~ In x l -> NoDup (replace_nth n x l).
Proof.
  revert n. induction l as [|z t IH]; intros n ND Hn; [destruct n; cbn; auto|].
  inversion ND as [|? ? Hnot ND']; subst.
  destruct n; cbn.
  - constructor; auto. intros H. apply Hn. now right.
  - constructor.
    + intros H. apply replace_nth_In in H. destruct H as [->|H]; [apply Hn; now left|contradiction].
    + apply IH; auto. intros H. apply Hn. now right.
Qed.

Lemma Good_snoc pieces i :
  Good pieces -> (length pieces < limit)%nat -> ~ In i pieces -> In i cands -> validf i = true ->
  Good (pieces ++ [i]).
Proof.
  intros [H1 [H2 H3]] Hl Hn Hc Hv. split; [|split].
  - rewrite app_length. cbn. lia.
  - apply NoDup_app_intro; auto.
    + constructor; [intros []|constructor].
    + intros x Hx [<-|[]]. contradiction.
  - intros x Hx. apply in_app_iff in Hx. destruct Hx as [Hx|[<-|[]]]; auto.
Qed.

(* default_policy.go: reservoir sampling, for every sequence of random numbers *)
Lemma default_loop_good cs : forall rnd pieces,
  NoDup cs -> (forall x, In x cs -> In x cands) -> (forall x, In x pieces -> ~ In x cs) ->
  Good pieces -> Good (default_loop limit validf cs rnd pieces).
Proof.
  induction cs as [|i t IH]; intros rnd pieces ND Hc Hd G; cbn [default_loop]; auto.
  inversion ND as [|? ? Hnot ND']; subst.
  assert (Hc' : forall x, In x t -> In x cands) by (intros; apply Hc; now right).
  assert (Hi : ~ In i pieces) by (intros H; apply (Hd i H); now left).
  assert (Hd' : forall x, In x pieces -> ~ In x t) by (intros x Hx H; apply (Hd x Hx); now right).
  destruct (validf i) eqn:V; [|apply IH; auto].
  destruct (Nat.ltb (length pieces) limit) eqn:L.
  - apply Nat.ltb_lt in L. apply IH; auto.
    + intros x Hx. apply in_app_iff in Hx. destruct Hx as [Hx|[<-|[]]]; auto.
    + apply Good_snoc; auto. apply Hc. now left.
  - destruct rnd as [|j rnd']; [apply IH; auto|].
    apply IH; auto.
    + destruct (Nat.ltb j limit); auto.
      intros x Hx. apply replace_nth_In in Hx. destruct Hx as [->|Hx]; auto.
    + destruct (Nat.ltb j limit); auto.
      destruct G as [H1 [H2 H3]]. split; [|split].
      * now rewrite replace_nth_length.
      * now apply replace_nth_NoDup.
      * intros x Hx. apply replace_nth_In in Hx. destruct Hx as [->|Hx]; auto.
        split; auto. apply Hc. now left.
Qed.

Lemma Good_nil : Good [].
Proof. split; [cbn; lia|]. split; [constructor|intros x []]. Qed.

Theorem default_policy_legal rnd :
  NoDup cands -> legal_sel (Z.of_nat limit) validf cands (default_select limit validf cands rnd) = true.
Proof.
  intros ND. unfold default_select. destruct limit eqn:E.
  - reflexivity.
  - rewrite <- E. apply Good_legal, default_loop_good; auto using Good_nil; intros x [].
Qed.

(* rarest_first_policy.go: for every order in which the queue hands out the candidates *)
Lemma rarest_loop_good order : forall pieces,
  NoDup order -> (forall x, In x order -> In x cands) -> (forall x, In x pieces -> ~ In x order) ->
  Good pieces -> Good (rarest_loop limit validf order pieces).
Proof.
  induction order as [|i t IH]; intros pieces ND Hc Hd G; cbn [rarest_loop]; auto.
  inversion ND as [|? ? Hnot ND']; subst.
  destruct (Nat.ltb (length pieces) limit) eqn:L; auto.
  apply Nat.ltb_lt in L.
  assert (Hc' : forall x, In x t -> In x cands) by (intros; apply Hc; now right).
  assert (Hi : ~ In i pieces) by (intros H; apply (Hd i H); now left).
  assert (Hd' : forall x, In x pieces -> ~ In x t) by (intros x Hx H; apply (Hd x Hx); now right).
  apply IH; auto.
  - destruct (validf i); auto.
    intros x Hx. apply in_app_iff in Hx. destruct Hx as [Hx|[<-|[]]]; auto.
  - destruct (validf i) eqn:V; auto. apply Good_snoc; auto. apply Hc. now left.
Qed.

Theorem rarest_policy_legal order :
  NoDup order -> (forall x, In x order -> In x cands) ->
  legal_sel (Z.of_nat limit) validf cands (rarest_select limit validf order) = true.
Proof.
  intros ND Hc. apply Good_legal, rarest_loop_good; auto using Good_nil; intros x [].
Qed.

(* what rarest-first adds: when the pop order is ascending in numPeersByPiece, no valid
   candidate that was left out is rarer than a selected one *)
Variable prio : N -> Z.

Fixpoint first_valid (k : nat) (order : list N) : list N :=
  match order with
  | [] => []
  | i :: t => match k with
              | O => []
              | S k' => if validf i then i :: first_valid k' t else first_valid k t
              end
  end.

Lemma rarest_loop_first order : forall pieces,
  rarest_loop limit validf order pieces = pieces ++ first_valid (limit - length pieces) order.
Proof.
  induction order as [|i t IH]; intros pieces; cbn [rarest_loop first_valid].
  - now rewrite app_nil_r.
  - destruct (Nat.ltb (length pieces) limit) eqn:L.
    + apply Nat.ltb_lt in L. rewrite IH.
      destruct (limit - length pieces)%nat as [|k'] eqn:E; [lia|].
      destruct (validf i).
      * rewrite app_length. cbn [length]. replace (limit - (length pieces + 1))%nat with k' by lia.
        now rewrite <- app_assoc.
      * now rewrite E.
    + apply Nat.ltb_ge in L. replace (limit - length pieces)%nat with 0%nat by lia.
      now rewrite app_nil_r.
Qed.

Lemma first_valid_In k order x : In x (first_valid k order) -> In x order.
Proof.
  revert k. induction order as [|i t IH]; intros k; cbn; auto.
  destruct k; [intros []|]. destruct (validf i).
  - intros [<-|H]; auto. right. eapply IH; eauto.
  - intros H. right. eapply IH; eauto.
Qed.

Lemma first_valid_rarest order : forall k,
  StronglySorted (fun a b => (prio a <= prio b)%Z) order ->
  forall s u, In s (first_valid k order) -> In u order -> validf u = true ->
              ~ In u (first_valid k order) -> (prio s <= prio u)%Z.
Proof.
  induction order as [|i t IH]; intros k SS s u Hs Hu Hv Hn; cbn [first_valid] in *; [contradiction|].
  inversion SS as [|? ? SS' Hall]; subst. rewrite Forall_forall in Hall.
  destruct k; [contradiction|].
  destruct (validf i) eqn:V.
  - destruct Hu as [<-|Hu]; [exfalso; apply Hn; now left|].
    destruct Hs as [<-|Hs]; [now apply Hall|].
    apply (IH k SS' s u); auto. intros H. apply Hn. now right.
  - destruct Hu as [<-|Hu]; [congruence|].
    apply (IH (S k) SS' s u); auto.
Qed.

Theorem rarest_prefers_rare order :
  StronglySorted (fun a b => (prio a <= prio b)%Z) order ->
  let sel := rarest_select limit validf order in
  forall s u, In s sel -> In u order -> validf u = true -> ~ In u sel -> (prio s <= prio u)%Z.
Proof.
  intros SS sel s u. unfold sel, rarest_select. rewrite rarest_loop_first. cbn [app length].
  apply first_valid_rarest; auto.
Qed.

End Policies.
