(* C01 — proofs about the API-level model (Model/C01.v, Section Model). *)
From Coq Require Import List NArith ZArith Bool Lia.
From K.Model Require Import C01.
Import ListNotations.
Local Open Scope N_scope.

(* ------------------------------------------------------------------ association lists *)

Lemma alookup_In : forall A (l : list (N * A)) k v, alookup k l = Some v -> In (k, v) l.
Proof.
  induction l as [|[k' v'] t IH]; intros k v Hl; cbn in Hl; [discriminate|].
  destruct (N.eqb k k') eqn:E.
  - apply N.eqb_eq in E. inversion Hl. subst. now left.
  - right. now apply IH.
Qed.

Lemma Forall_aremove : forall A (P : N * A -> Prop) k l, Forall P l -> Forall P (aremove k l).
Proof.
  induction l as [|[k' v'] t IH]; intros HF; cbn; [constructor|].
  inversion HF; subst. destruct (N.eqb k k'); [now apply IH|]. constructor; [assumption|now apply IH].
Qed.

Lemma Forall_aset : forall A (P : N * A -> Prop) k v l, P (k, v) -> Forall P l -> Forall P (aset k v l).
Proof. intros. unfold aset. constructor; [assumption|now apply Forall_aremove]. Qed.

Lemma alookup_aset_eq : forall A k (v : A) l, alookup k (aset k v l) = Some v.
Proof. intros. unfold aset. cbn. now rewrite N.eqb_refl. Qed.

Lemma alookup_aremove_eq : forall A k (l : list (N * A)), alookup k (aremove k l) = None.
Proof.
  induction l as [|[k' v'] t IH]; cbn; [reflexivity|].
  destruct (N.eqb k k') eqn:E; [assumption|]. cbn. now rewrite E.
Qed.

Lemma alookup_aremove_neq : forall A k k' (l : list (N * A)), k <> k' -> alookup k (aremove k' l) = alookup k l.
Proof.
  induction l as [|[k2 v2] t IH]; intros Hne; cbn; [reflexivity|].
  destruct (N.eqb k' k2) eqn:E.
  - apply N.eqb_eq in E. subst k2. destruct (N.eqb k k') eqn:E2; [apply N.eqb_eq in E2; contradiction|now apply IH].
  - cbn. destruct (N.eqb k k2); [reflexivity|now apply IH].
Qed.

Lemma alookup_aset_neq : forall A k k' (v : A) l, k <> k' -> alookup k (aset k' v l) = alookup k l.
Proof.
  intros. unfold aset. cbn. destruct (N.eqb k k') eqn:E; [apply N.eqb_eq in E; contradiction|].
  now apply alookup_aremove_neq.
Qed.

Lemma bytes_eqb_refl : forall b, bytes_eqb b b = true.
Proof. induction b as [|x t IH]; cbn; [reflexivity|]. now rewrite N.eqb_refl. Qed.

Lemma bytes_eqb_eq : forall a b, bytes_eqb a b = true -> a = b.
Proof.
  induction a as [|x a IH]; destruct b as [|y b]; cbn; intros Hb; try discriminate; [reflexivity|].
  apply andb_true_iff in Hb as [Hx Hr]. apply N.eqb_eq in Hx. subst. f_equal. now apply IH.
Qed.

(* ------------------------------------------------------------------ the invariant *)

Section Proofs.
Variable H : bytes -> N.
Variable cf : cfg.

Definition good_mi (n : N) (mi : minfo) : Prop := mi_name mi = n /\ H (mi_data mi) = n.
Definition good_ment (n : N) (e : ment) : Prop := H (m_data e) = n /\ good_mi n (m_mi e).
Definition good_dent (n : N) (d : dent) : Prop :=
  H (d_data d) = n /\ forall mi, d_meta d = Some mi -> good_mi n mi.

Definition gm (p : N * ment) : Prop := good_ment (fst p) (snd p).
Definition gd (p : N * dent) : Prop := good_dent (fst p) (snd p).
Definition gq (p : N * ment * N) : Prop := good_ment (fst (fst p)) (snd (fst p)).

(* every memory entry, every cache-dir entry and every queued drain item carries bytes that hash to
   its name, and a metainfo built for that name from bytes that hash to it *)
Record Inv (s : st) : Prop := mkInv {
  inv_mem : Forall gm (mem s);
  inv_disk : Forall gd (disk s);
  inv_q : Forall gq (drainq s)
}.

Lemma Inv_init : Inv init.
Proof. constructor; constructor. Qed.

(* what a reader may conclude from one view *)
Definition view_good (name : N) (v : view bytes) : Prop :=
  (forall c, v_data v = Some c -> H c = name) /\
  (forall k, v_size v = Some k -> exists c, v_data v = Some c /\ H c = name /\ k = len c) /\
  (forall nm c pl, v_meta v = Some (nm, c, pl) -> nm = name /\ H c = name).

Lemma Inv_view_good : forall s name, Inv s -> view_good name (view_of s name).
Proof.
  intros s name [Hm Hd _]. unfold view_of.
  destruct (alookup name (mem s)) as [e|] eqn:Em.
  - apply alookup_In in Em. rewrite Forall_forall in Hm. specialize (Hm _ Em) as [Hdat [Hn Hc]]. cbn in *.
    repeat split; cbn.
    + intros c Hc'. now inversion Hc'; subst.
    + intros k Hk. inversion Hk; subst. exists (m_data e). now repeat split.
    + unfold mi_tuple in H0. now inversion H0; subst.
    + unfold mi_tuple in H0. now inversion H0; subst.
  - destruct (alookup name (disk s)) as [d|] eqn:Ed.
    + apply alookup_In in Ed. rewrite Forall_forall in Hd. specialize (Hd _ Ed) as [Hdat Hmeta]. cbn in *.
      repeat split; cbn.
      * intros c Hc'. now inversion Hc'; subst.
      * intros k Hk. inversion Hk; subst. exists (d_data d). now repeat split.
      * destruct (d_meta d) as [mi|]; cbn in H0; [|discriminate].
        specialize (Hmeta mi eq_refl) as [Hn Hc]. unfold mi_tuple in H0. now inversion H0; subst.
      * destruct (d_meta d) as [mi|]; cbn in H0; [|discriminate].
        specialize (Hmeta mi eq_refl) as [Hn Hc]. unfold mi_tuple in H0. now inversion H0; subst.
    + repeat split; cbn; intros; discriminate.
Qed.

Lemma Inv_read : forall s name c, Inv s -> read s name = Some c -> H c = name.
Proof. intros s name c HI Hr. destruct (Inv_view_good s name HI) as [Hd _]. now apply Hd. Qed.

(* ------------------------------------------------------------------ steps preserve the invariant *)

Hypothesis Hskip : c_skip cf = false.

Lemma verify_ok_hash : forall name data, verify_ok H cf name data = true -> H data = name.
Proof.
  intros name data Hv. unfold verify_ok in Hv. rewrite Hskip in Hv. cbn in Hv.
  apply andb_true_iff in Hv as [_ Hh]. now apply N.eqb_eq.
Qed.

Lemma Inv_set_ups : forall s u, Inv s -> Inv (set_ups s u).
Proof. intros s u [A B C]. now constructor. Qed.
Lemma Inv_set_now : forall s t, Inv s -> Inv (set_now s t).
Proof. intros s t [A B C]. now constructor. Qed.
Lemma Inv_set_drainq : forall s q, Inv s -> Forall gq q -> Inv (set_drainq s q).
Proof. intros s q [A B C] Hq. now constructor. Qed.
Lemma Inv_set_disk : forall s d, Inv s -> Forall gd d -> Inv (set_disk s d).
Proof. intros s d [A B C] Hd. now constructor. Qed.
Lemma Inv_set_mem : forall s m, Inv s -> Forall gm m -> Inv (set_mem s m).
Proof. intros s m [A B C] Hm. now constructor. Qed.

Lemma move_in_inv : forall s name data, Inv s -> Inv (fst (move_in H cf s name data)).
Proof.
  intros s name data HI. unfold move_in.
  destruct (verify_ok H cf name data) eqn:Ev; cbn; [|assumption].
  destruct (has name (disk s)); cbn; [assumption|].
  apply Inv_set_disk; [assumption|]. apply Forall_aset; [|apply HI].
  split; cbn; [now apply verify_ok_hash|discriminate].
Qed.

Lemma set_meta_inv : forall s name mi, Inv s -> good_mi name mi -> Inv (fst (set_meta s name mi)).
Proof.
  intros s name mi HI Hmi. unfold set_meta.
  destruct (alookup name (disk s)) as [d|] eqn:Ed; cbn; [|assumption].
  apply Inv_set_disk; [assumption|]. apply Forall_aset; [|apply HI].
  apply alookup_In in Ed. pose proof (inv_disk _ HI) as Hd. rewrite Forall_forall in Hd.
  specialize (Hd _ Ed) as [Hdat _]. split; cbn in *; [assumption|].
  intros mi' Hm. now inversion Hm; subst.
Qed.

Lemma gen_meta_inv : forall s name pl, Inv s -> Inv (fst (gen_meta s name pl)).
Proof.
  intros s name pl HI. unfold gen_meta.
  destruct (read s name) as [c|] eqn:Er; cbn; [|assumption].
  destruct (pl <=? 0)%Z; cbn; [assumption|].
  apply set_meta_inv; [assumption|]. split; cbn; [reflexivity|now apply (Inv_read s)].
Qed.

Lemma write_back_inv : forall s name, Inv s -> Inv (fst (write_back cf s name)).
Proof.
  intros s name HI. unfold write_back.
  destruct (alookup name (disk s)) as [d|] eqn:Ed; cbn; [|assumption].
  apply gen_meta_inv. apply Inv_set_disk; [assumption|]. apply Forall_aset; [|apply HI].
  apply alookup_In in Ed. pose proof (inv_disk _ HI) as Hd. rewrite Forall_forall in Hd.
  now specialize (Hd _ Ed).
Qed.

Lemma on_conflict_inv : forall cl s name, Inv s -> Inv (fst (on_conflict cf cl s name)).
Proof.
  intros cl s name HI. unfold on_conflict. destruct cl; cbn; [|assumption].
  pose proof (write_back_inv s name HI) as Hw. destruct (write_back cf s name) as [s' ok]. now cbn in *.
Qed.

Lemma mem_remove_inv : forall s name, Inv s -> Inv (mem_remove s name).
Proof. intros s name HI. apply Inv_set_mem; [assumption|]. apply Forall_aremove. apply HI. Qed.

Lemma drain_write_inv : forall s name e, Inv s -> good_ment name e -> Inv (fst (drain_write H cf s name e)).
Proof.
  intros s name e HI [_ Hmi]. unfold drain_write.
  pose proof (move_in_inv s name (m_data e) HI) as Hmv.
  destruct (move_in H cf s name (m_data e)) as [s' r]. cbn in Hmv.
  destruct r; cbn; try assumption; now apply set_meta_inv.
Qed.

Lemma commit_core_inv : forall s cl name uid, Inv s -> Inv (fst (fst (commit_core H cf s cl name uid))).
Proof.
  intros s cluster name uid HI. unfold commit_core.
  destruct (valid name); cbn; [|assumption].
  destruct (alookup uid (ups s)) as [f|]; cbn; [|assumption].
  set (s1 := set_ups s (aremove uid (ups s))).
  assert (HI1 : Inv s1) by now apply Inv_set_ups.
  pose proof (move_in_inv s1 name f HI1) as Hm.
  destruct (move_in H cf s1 name f) as [s2 r]. cbn in Hm. destruct r.
  - destruct cluster.
    + pose proof (write_back_inv s2 name Hm) as Hw. destruct (write_back cf s2 name). now cbn in *.
    + pose proof (gen_meta_inv s2 name (c_genpl cf) Hm) as Hw. destruct (gen_meta s2 name (c_genpl cf)). now cbn in *.
  - pose proof (on_conflict_inv cluster s1 name HI1) as Hc. destruct (on_conflict cf cluster s1 name). now cbn in *.
  - now cbn.
Qed.

Hypothesis Hmv : c_memverify cf = true.

Theorem step_inv : forall s o, is_raced o = false -> Inv s -> Inv (fst (step H cf s o)).
Proof.
  intros s o Hrace HI. destruct o; cbn [step]; try discriminate Hrace.
  - (* UStart *)
    destruct (valid name); cbn; [|assumption].
    destruct (exists_blob s name); [now apply on_conflict_inv|]. cbn. now apply Inv_set_ups.
  - (* UPatch *)
    destruct (valid name); cbn; [|assumption].
    destruct (exists_blob s name); [now apply on_conflict_inv|].
    destruct (alookup uid (ups s)); cbn; [|assumption].
    destruct (stop <? start); cbn; [assumption|now apply Inv_set_ups].
  - (* UCommit *) now apply commit_core_inv.
  - (* Create *)
    destruct (s_err w); cbn; [assumption|].
    pose proof (move_in_inv s name (sdata w) HI) as Hm.
    destruct (move_in H cf s name (sdata w)) as [s' r]. cbn in Hm. now destruct r; cbn.
  - (* Refresh *)
    rewrite Hmv. cbn [negb orb].
    match goal with |- Inv (fst (if ?c then _ else _)) => destruct c eqn:Ec end.
    + cbn. repeat (apply andb_true_iff in Ec as [Ec ?]).
      assert (Hg : good_ment name (mkment (sdata w1) (mkmi name (sdata w1) pl) (now s))).
      { assert (H (sdata w1) = name) by now apply verify_ok_hash. repeat split; cbn; assumption. }
      apply Inv_set_drainq.
      * apply Inv_set_mem; [assumption|]. apply Forall_aset; [exact Hg|apply HI].
      * cbn. apply Forall_app. split; [apply HI|]. constructor; [exact Hg|constructor].
    + destruct (s_err (if c_mem cf && rsv then w2 else w1)); cbn; [assumption|].
      set (wd := if c_mem cf && rsv then w2 else w1).
      pose proof (move_in_inv s name (sdata wd) HI) as Hm.
      destruct (move_in H cf s name (sdata wd)) as [s' r]. cbn in Hm.
      destruct r; cbn; try assumption.
      * pose proof (gen_meta_inv s' name pl Hm) as Hw. destruct (gen_meta s' name pl). now cbn in *.
      * pose proof (gen_meta_inv s' name pl Hm) as Hw. destruct (gen_meta s' name pl). now cbn in *.
  - (* Drain *)
    destruct (drainq s) as [|[[name e] r] q] eqn:Eq; cbn; [assumption|].
    pose proof (inv_q _ HI) as Hq. rewrite Eq in Hq. inversion Hq as [|? ? Hge Hqt]; subst.
    assert (HI0 : Inv (set_drainq s q)) by now apply Inv_set_drainq.
    assert (HI1 : Inv (fst (if envok then drain_write H cf (set_drainq s q) name e else (set_drainq s q, false)))).
    { destruct envok; [now apply drain_write_inv|assumption]. }
    destruct (if envok then drain_write H cf (set_drainq s q) name e else (set_drainq s q, false)) as [s1 ok].
    cbn in HI1. destruct ok; cbn; [now apply mem_remove_inv|].
    destruct (r <? c_retry cf); cbn; [|now apply mem_remove_inv].
    apply Inv_set_drainq; [assumption|]. apply Forall_app. split; [apply HI1|].
    constructor; [exact Hge|constructor].
  - (* Tick *) cbn. now apply Inv_set_now.
  - (* Expire *)
    cbn. apply Inv_set_mem; [assumption|].
    pose proof (inv_mem _ HI) as Hm. rewrite Forall_forall in *. intros p Hp.
    apply filter_In in Hp as [Hp _]. now apply Hm.
  - (* Delete *)
    destruct (valid name); cbn; [|assumption].
    destruct (alookup name (disk s)) as [d|]; cbn; [|assumption].
    destruct (d_persist d); cbn; [assumption|].
    apply Inv_set_disk; [assumption|]. apply Forall_aremove. apply HI.
  - (* GenMeta *)
    destruct (valid name); cbn; [|assumption].
    pose proof (gen_meta_inv s name pl HI) as Hw. destruct (gen_meta s name pl). now cbn in *.
Qed.

Lemma exec_inv : forall ops s, race_free ops = true -> Inv s -> Inv (exec H cf s ops).
Proof.
  induction ops as [|o t IH]; intros s Hrf HI; cbn; [assumption|].
  cbn in Hrf. apply andb_true_iff in Hrf as [Ho Ht]. apply negb_true_iff in Ho.
  apply IH; [assumption|]. now apply step_inv.
Qed.

Lemma run_exec : forall names ops s, fst (run H cf names s ops) = exec H cf s ops.
Proof.
  induction ops as [|o t IH]; intros s; cbn; [reflexivity|].
  destruct (step H cf s o) as [s1 r] eqn:Es. cbn.
  specialize (IH s1). destruct (run H cf names s1 t) as [s2 rs]. now cbn in *.
Qed.

(* clause 1: whatever is readable after any history hashes to its name *)
Theorem readable_hashes : forall ops name, race_free ops = true ->
  view_good name (view_of (exec H cf init ops) name).
Proof. intros. apply Inv_view_good. apply exec_inv; [assumption|apply Inv_init]. Qed.

(* ------------------------------------------------------------------ clause 2 *)

Lemma view_set_ups : forall s u n, view_of (set_ups s u) n = view_of s n.
Proof. reflexivity. Qed.

Lemma bad_stream_cases : forall name w, bad_stream H name w = true ->
  s_err w = true \/ verify_ok H cf name (sdata w) = false.
Proof.
  intros name w Hb. unfold bad_stream in Hb. unfold verify_ok. rewrite Hskip. cbn.
  destruct (s_err w); [now left|right]. cbn in Hb.
  destruct (valid name); cbn in *; [|reflexivity]. now apply negb_true_iff in Hb.
Qed.

(* a write none of whose attempts delivers bytes hashing to the name fails, and every reader sees
   exactly what it saw before — from ANY state, reachable or not *)
Theorem failed_write_invisible : forall s o, bad_write H s o = true ->
  snd (step H cf s o) <> OOk /\ forall n, view_of (fst (step H cf s o)) n = view_of s n.
Proof.
  intros s o Hb. destruct o; cbn in Hb; try discriminate.
  - (* UCommit *)
    cbn [step]. unfold commit_core. destruct (alookup uid (ups s)) as [f|] eqn:Eu; [|discriminate].
    destruct (valid name) eqn:Ev; cbn; [|split; [discriminate|reflexivity]].
    cbn in Hb.
    unfold move_in, verify_ok. rewrite Ev, Hskip. cbn.
    apply negb_true_iff in Hb. rewrite Hb. cbn. split; [discriminate|reflexivity].
  - (* Create *)
    cbn [step]. destruct (bad_stream_cases _ _ Hb) as [He|Hv].
    + rewrite He. cbn. split; [discriminate|reflexivity].
    + destruct (s_err w); cbn; [split; [discriminate|reflexivity]|].
      unfold move_in. rewrite Hv. cbn. split; [discriminate|reflexivity].
  - (* Refresh *)
    apply andb_true_iff in Hb as [Hb1 Hb2]. cbn [step]. rewrite Hmv. cbn [negb orb].
    assert (Hc : (c_mem cf && rsv && negb (s_err w1) && verify_ok H cf name (sdata w1)
                  && (negb (c_lenchk cf) || (len (sdata w1) =? stat)) && valid name && (0 <? pl)%Z
                  && negb (has name (mem s))) = false).
    { destruct (bad_stream_cases _ _ Hb1) as [He|Hv].
      - rewrite He. cbn. now rewrite andb_false_r.
      - rewrite Hv. now rewrite andb_false_r. }
    rewrite Hc.
    assert (Hd : forall w, bad_stream H name w = true ->
       (let wd := w in if s_err wd then (s, OErr) else
          match move_in H cf s name (sdata wd) with
          | (_, MvBad) => (s, OErr)
          | (s', _) => let '(s'', ok) := gen_meta s' name pl in (s'', if ok then OOk else OErr)
          end) = (s, OErr)).
    { intros w Hw. cbn zeta. destruct (bad_stream_cases _ _ Hw) as [He|Hv].
      - now rewrite He.
      - destruct (s_err w); [reflexivity|]. unfold move_in. now rewrite Hv. }
    destruct (c_mem cf && rsv); cbn zeta in *; [rewrite (Hd w2 Hb2)|rewrite (Hd w1 Hb1)];
      cbn; (split; [discriminate|reflexivity]).
Qed.

(* ------------------------------------------------------------------ the executable oracle *)

Lemma view_ok_of_good : forall name s, Inv s -> view_ok H name (view_of s name) = true.
Proof.
  intros name s HI. pose proof (Inv_view_good s name HI) as [Hd [Hs Hm]].
  unfold view_ok, view_of in *.
  destruct (alookup name (mem s)) as [e|].
  - cbn in *. rewrite (Hd _ eq_refl), !N.eqb_refl. cbn.
    destruct (Hm _ _ _ eq_refl) as [Hn Hc]. now rewrite Hn, Hc, !N.eqb_refl.
  - destruct (alookup name (disk s)) as [d|]; cbn in *; [|reflexivity].
    rewrite (Hd _ eq_refl), !N.eqb_refl. cbn.
    destruct (d_meta d) as [mi|]; cbn in *; [|reflexivity].
    destruct (Hm _ _ _ eq_refl) as [Hn Hc]. now rewrite Hn, Hc, !N.eqb_refl.
Qed.

Lemma views_ok_of_good : forall names s, Inv s -> views_ok H names (views names s) = true.
Proof.
  induction names as [|n t IH]; intros s HI; cbn; [reflexivity|].
  rewrite view_ok_of_good by assumption. now apply IH.
Qed.

Lemma view_eqb_refl : forall v, view_eqb v v = true.
Proof.
  intros [d s m]. unfold view_eqb. cbn.
  assert (A : opt_eqb bytes_eqb d d = true) by (destruct d; cbn; [apply bytes_eqb_refl|reflexivity]).
  assert (B : opt_eqb N.eqb s s = true) by (destruct s; cbn; [apply N.eqb_refl|reflexivity]).
  assert (C : opt_eqb meta_eqb m m = true).
  { destruct m as [[[n c] p]|]; cbn; [|reflexivity]. now rewrite N.eqb_refl, bytes_eqb_refl, Z.eqb_refl. }
  now rewrite A, B, C.
Qed.

Lemma views_eqb_same : forall names s s', (forall n, view_of s' n = view_of s n) ->
  list_eqb view_eqb (views names s') (views names s) = true.
Proof.
  induction names as [|n t IH]; intros s s' Hv; cbn; [reflexivity|].
  rewrite Hv, view_eqb_refl. now apply IH.
Qed.

Lemma check_from_sound : forall names ops s, race_free ops = true -> Inv s ->
  check_from H cf names s (views names s) (views names s) ops (snd (run H cf names s ops)) = true.
Proof.
  induction ops as [|o t IH]; intros s Hrf HI; cbn; [reflexivity|].
  cbn in Hrf. apply andb_true_iff in Hrf as [Ho Hrt]. apply negb_true_iff in Ho.
  pose proof (step_inv s o Ho HI) as HI1.
  destruct (step H cf s o) as [s1 r] eqn:Es. cbn in HI1.
  specialize (IH s1 Hrt HI1). destruct (run H cf names s1 t) as [s2 rs] eqn:Er. cbn in *.
  rewrite views_ok_of_good by assumption. cbn.
  rewrite IH, andb_true_r.
  destruct (bad_write H s o) eqn:Eb; [|reflexivity].
  destruct (failed_write_invisible s o Eb) as [Hr Hv]. rewrite Es in Hr, Hv. cbn in Hr, Hv.
  rewrite views_eqb_same by assumption. destruct r; cbn; try reflexivity. contradiction.
Qed.

Theorem check_sound : forall names ops, race_free ops = true ->
  C01_check H cf names ops (snd (run H cf names init ops)) = true.
Proof. intros. unfold C01_check. rewrite Hskip. cbn. apply check_from_sound; [assumption|apply Inv_init]. Qed.

End Proofs.

(* what the boolean oracle says about one observed view *)
Lemma view_ok_meaning : forall H name v, view_ok H name v = true -> view_good H name v.
Proof.
  intros H name [d s m] Hv. unfold view_ok in Hv. cbn in Hv. apply andb_true_iff in Hv as [Hds Hm].
  split; [|split]; cbn.
  - intros c Hc. subst d. destruct s; [|discriminate]. apply andb_true_iff in Hds as [Hh _]. now apply N.eqb_eq.
  - intros k Hk. subst s. destruct d as [c|]; [|discriminate]. apply andb_true_iff in Hds as [Hh Hl].
    apply N.eqb_eq in Hh, Hl. exists c. now repeat split.
  - intros nm c pl Hm'. subst m. apply andb_true_iff in Hm as [Hn Hc]. apply N.eqb_eq in Hn, Hc. now split.
Qed.
