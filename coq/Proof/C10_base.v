(* C10, part 1: association-list laws, the "protected files stay" invariant of every primitive
   of the model, and the well-formedness invariant (map names are distinct and on disk). *)
From Coq Require Import List NArith ZArith Bool Lia.
From K.Gen Require Import C10_consts.
From K.Model Require Import C10.
Import ListNotations.
Local Open Scope Z_scope.

(* ---------------------------------------------------------------- association lists *)
Section Assoc.
Context {V : Type}.
Implicit Types (l : list (N * V)) (n m : N) (v : V).

Lemma aget_arem_eq : forall n l, aget n (arem n l) = None.
Proof.
  intros n l. induction l as [|[k v] t IH]; cbn; auto.
  destruct (N.eqb n k) eqn:E; cbn; auto. rewrite E. exact IH.
Qed.

Lemma aget_arem_neq : forall n m l, n <> m -> aget n (arem m l) = aget n l.
Proof.
  intros n m l H. induction l as [|[k v] t IH]; cbn; auto.
  destruct (N.eqb m k) eqn:E; cbn.
  - apply N.eqb_eq in E. subst k. destruct (N.eqb n m) eqn:E2; auto.
    apply N.eqb_eq in E2. contradiction.
  - destruct (N.eqb n k); auto.
Qed.

Lemma aget_aput_eq : forall n v l, aget n (aput n v l) = Some v.
Proof. intros. unfold aput. cbn. rewrite N.eqb_refl. reflexivity. Qed.

Lemma aget_aput_neq : forall n m v l, n <> m -> aget n (aput m v l) = aget n l.
Proof.
  intros n m v l H. unfold aput. cbn. destruct (N.eqb n m) eqn:E.
  - apply N.eqb_eq in E. contradiction.
  - apply aget_arem_neq; auto.
Qed.

Lemma aget_aput : forall n m v l,
  aget n (aput m v l) = if N.eqb n m then Some v else aget n l.
Proof.
  intros. destruct (N.eqb n m) eqn:E.
  - apply N.eqb_eq in E. subst. apply aget_aput_eq.
  - apply N.eqb_neq in E. apply aget_aput_neq; auto.
Qed.

Lemma aget_arem : forall n m l,
  aget n (arem m l) = if N.eqb n m then None else aget n l.
Proof.
  intros. destruct (N.eqb n m) eqn:E.
  - apply N.eqb_eq in E. subst. apply aget_arem_eq.
  - apply N.eqb_neq in E. apply aget_arem_neq; auto.
Qed.

Lemma In_keys_aget : forall n l, In n (keys l) <-> aget n l <> None.
Proof.
  intros n l. induction l as [|[k v] t IH]; cbn.
  - split; [tauto | congruence].
  - destruct (N.eqb n k) eqn:E.
    + apply N.eqb_eq in E. subst. split; [congruence | auto].
    + apply N.eqb_neq in E. rewrite <- IH. split; [intros [H|H]; [congruence | auto] | auto].
Qed.

Lemma amem_In : forall n l, amem n l = true <-> In n (keys l).
Proof.
  intros. rewrite In_keys_aget. unfold amem. destruct (aget n l); split; congruence.
Qed.

Lemma amem_false_In : forall n l, amem n l = false <-> ~ In n (keys l).
Proof.
  intros. rewrite <- amem_In. destruct (amem n l); split; congruence.
Qed.

Lemma keys_arem : forall n l, keys (arem n l) = filter (fun k => negb (N.eqb n k)) (keys l).
Proof.
  intros n l. unfold keys, arem. induction l as [|[k v] t IH]; cbn; auto.
  destruct (N.eqb n k); cbn; rewrite IH; auto.
Qed.

Lemma In_keys_arem : forall n m l, In n (keys (arem m l)) <-> In n (keys l) /\ n <> m.
Proof.
  intros. rewrite keys_arem, filter_In. rewrite negb_true_iff, N.eqb_neq. intuition.
Qed.

Lemma NoDup_filter {A} (p : A -> bool) (l : list A) : NoDup l -> NoDup (filter p l).
Proof.
  induction 1; cbn; [constructor|]. destruct (p x); auto. constructor; auto.
  rewrite filter_In. tauto.
Qed.

Lemma NoDup_keys_arem : forall n l, NoDup (keys l) -> NoDup (keys (arem n l)).
Proof. intros. rewrite keys_arem. apply NoDup_filter; auto. Qed.

Lemma NoDup_keys_aput : forall n v l, NoDup (keys l) -> NoDup (keys (aput n v l)).
Proof.
  intros. unfold aput. change (keys ((n, v) :: arem n l)) with (n :: keys (arem n l)). constructor.
  - rewrite In_keys_arem. tauto.
  - apply NoDup_keys_arem; auto.
Qed.

Lemma arem_cons : forall n k v l,
  arem n ((k, v) :: l) = if N.eqb n k then arem n l else (k, v) :: arem n l.
Proof. intros. unfold arem. cbn. destruct (N.eqb n k); reflexivity. Qed.

Lemma keys_cons : forall k v l, keys ((k, v) :: l) = k :: keys l.
Proof. reflexivity. Qed.

Lemma arem_notin : forall n l, ~ In n (keys l) -> arem n l = l.
Proof.
  intros n l. induction l as [|[k v] t IH]; auto. rewrite keys_cons, arem_cons. intros H.
  destruct (N.eqb n k) eqn:E.
  - apply N.eqb_eq in E. subst. exfalso. apply H. left. reflexivity.
  - f_equal. apply IH. intros H1. apply H. right. exact H1.
Qed.

Lemma length_arem_le : forall n l, (length (arem n l) <= length l)%nat.
Proof.
  intros. induction l as [|[k v] t IH]; auto. rewrite arem_cons.
  destruct (N.eqb n k); cbn [length]; lia.
Qed.

Lemma length_arem_in : forall n l, NoDup (keys l) -> In n (keys l) -> S (length (arem n l)) = length l.
Proof.
  intros n l. induction l as [|[k v] t IH]; [intros _ []|].
  rewrite keys_cons, arem_cons. intros ND H. inversion ND as [|? ? Hk ND']; subst.
  destruct (N.eqb n k) eqn:E.
  - apply N.eqb_eq in E. subst. rewrite arem_notin; auto.
  - apply N.eqb_neq in E. destruct H as [H|H]; [congruence|].
    cbn [length]. f_equal. apply IH; auto.
Qed.

Lemma length_aput_in : forall n v l, NoDup (keys l) -> In n (keys l) -> length (aput n v l) = length l.
Proof. intros. unfold aput. cbn. apply length_arem_in; auto. Qed.

Lemma aget_In : forall n v l, aget n l = Some v -> In (n, v) l.
Proof.
  intros n v l. induction l as [|[k w] t IH]; cbn; [congruence|].
  destruct (N.eqb n k) eqn:E.
  - apply N.eqb_eq in E. subst. intros [= ->]. auto.
  - auto.
Qed.

Lemma In_aget : forall n v l, NoDup (keys l) -> In (n, v) l -> aget n l = Some v.
Proof.
  intros n v l. induction l as [|[k w] t IH]; cbn; [tauto|].
  intros ND [H|H].
  - inversion H; subst. rewrite N.eqb_refl. auto.
  - inversion ND; subst. destruct (N.eqb n k) eqn:E.
    + apply N.eqb_eq in E. subst. exfalso. apply H2. change k with (fst (k, v)). apply in_map. auto.
    + auto.
Qed.

Lemma back_In : forall l k, back l = Some k -> In k (keys l).
Proof.
  induction l as [|[k v] t IH]; cbn; [congruence|].
  intros k0. destruct t as [|p t'].
  - intros [= ->]. auto.
  - intros H. right. apply IH. exact H.
Qed.
End Assoc.

Arguments keys {V} l : simpl never.
Arguments aput {V} n v l : simpl never.
Arguments arem {V} n l : simpl never.

Lemma memb_In : forall n l, memb n l = true <-> In n l.
Proof.
  intros. unfold memb. rewrite existsb_exists. split.
  - intros [x [H E]]. apply N.eqb_eq in E. subst. auto.
  - intros H. exists n. split; auto. apply N.eqb_refl.
Qed.

Lemma memb_keys_amem {V} : forall n (l : list (N * V)), memb n (keys l) = amem n l.
Proof.
  intros. destruct (amem n l) eqn:E.
  - apply memb_In. apply amem_In. auto.
  - destruct (memb n (keys l)) eqn:E2; auto. apply memb_In in E2. apply amem_In in E2. congruence.
Qed.

Lemma nodupb_NoDup : forall l, nodupb l = true <-> NoDup l.
Proof.
  induction l as [|x t IH]; cbn.
  - split; [constructor | auto].
  - rewrite andb_true_iff, negb_true_iff, IH. split.
    + intros [H1 H2]. constructor; auto. intros H. apply memb_In in H. congruence.
    + intros H. inversion H; subst. split; auto.
      destruct (memb x t) eqn:E; auto. apply memb_In in E. contradiction.
Qed.

(* ---------------------------------------------------------------- protected files stay *)

(* the protected file n: its data (mtime, size) while its persist sidecar says true *)
Definition prot (n : N) (d : list (N * file)) : option (Z * Z) :=
  match aget n d with
  | Some f => if is_persisted f then Some (f_mtime f, f_size f) else None
  | None => None
  end.

Definition keeps (n : N) (s s' : st) : Prop :=
  forall x, prot n (dk s) = Some x -> prot n (dk s') = Some x.

Lemma keeps_refl : forall n s, keeps n s s.
Proof. unfold keeps. auto. Qed.
Lemma keeps_trans : forall n s1 s2 s3, keeps n s1 s2 -> keeps n s2 s3 -> keeps n s1 s3.
Proof. unfold keeps. auto. Qed.

Lemma keeps_dk : forall n s s', dk s' = dk s -> keeps n s s'.
Proof. unfold keeps. intros n s s' ->. auto. Qed.

Lemma prot_persisted : forall n d x, prot n d = Some x -> persisted n d = true.
Proof.
  unfold prot, persisted. intros n d x. destruct (aget n d); [|congruence].
  destruct (is_persisted f); congruence.
Qed.

Lemma prot_arem_neq : forall n m d, n <> m -> prot n (arem m d) = prot n d.
Proof. intros. unfold prot. rewrite aget_arem_neq; auto. Qed.

Lemma prot_aput_neq : forall n m f d, n <> m -> prot n (aput m f d) = prot n d.
Proof. intros. unfold prot. rewrite aget_aput_neq; auto. Qed.

(* rewriting the record of m by g keeps n protected when g keeps the persist flag and the data *)
Definition gentle (g : file -> file) : Prop :=
  forall f, is_persisted f = true ->
            is_persisted (g f) = true /\ f_mtime (g f) = f_mtime f /\ f_size (g f) = f_size f.

Lemma gentle_set_lat : forall l, gentle (fun f => set_lat f l).
Proof. intros l f H. unfold set_lat, is_persisted in *. cbn. auto. Qed.

Lemma prot_aput_gentle : forall n m g f d x,
  gentle g -> aget m d = Some f -> prot n d = Some x -> prot n (aput m (g f) d) = Some x.
Proof.
  intros n m g f d x G Hm Hp. destruct (N.eq_dec n m) as [->|Ne].
  - unfold prot in *. rewrite aget_aput_eq. rewrite Hm in Hp.
    destruct (is_persisted f) eqn:E; [|congruence]. destruct (G f E) as (A & B & C).
    rewrite A, B, C. exact Hp.
  - rewrite prot_aput_neq; auto.
Qed.

(* file_entry.go:432: the one place files are removed *)
Lemma entry_delete_keeps : forall n m d x,
  prot n d = Some x -> prot n (fst (entry_delete m d)) = Some x.
Proof.
  intros n m d x H. unfold entry_delete. destruct (persisted m d) eqn:E; cbn; auto.
  destruct (N.eq_dec n m) as [->|Ne].
  - apply prot_persisted in H. congruence.
  - rewrite prot_arem_neq; auto.
Qed.

Lemma evict_keeps : forall n s, keeps n s (evict s).
Proof.
  intros n s x H. unfold evict.
  destruct ((0 <? cap s) && (cap s <? Z.of_nat (length (fm s)))); auto.
  destruct (back (fm s)); auto. cbn. apply entry_delete_keeps; auto.
Qed.

Lemma reload_keeps : forall n m s, keeps n s (fst (reload m s)).
Proof.
  intros n m s x H. unfold reload. destruct (amem m (fm s)); cbn; auto.
  destruct (aget m (dk s)) as [f|] eqn:E; cbn; auto.
  destruct (f_lat f) eqn:L; cbn.
  - apply evict_keeps. cbn.
    replace f with ((fun f => f) f) by reflexivity.
    apply prot_aput_gentle with (g := fun f => f); auto. intros f0 H0. auto.
  - apply evict_keeps. cbn.
    apply prot_aput_gentle with (g := fun f => set_lat f (Some (lat_secs (now s)))); auto.
    apply gentle_set_lat.
Qed.

Lemma upd_lat_keeps : forall n m l d x, prot n d = Some x -> prot n (upd_lat m l d) = Some x.
Proof.
  intros. unfold upd_lat. destruct (aget m d) eqn:E; auto.
  apply prot_aput_gentle with (g := fun f => set_lat f l); auto. apply gentle_set_lat.
Qed.

Lemma touch_keeps : forall n m s, keeps n s (touch m s).
Proof.
  intros n m s x H. unfold touch. destruct (aget m (fm s)); auto.
  destruct (filemap_lat_resolution_ns <=? now s - z); cbn; auto. apply upd_lat_keeps; auto.
Qed.

Lemma peek_keeps : forall n m s, keeps n s (fst (peek m s)).
Proof.
  intros n m s. unfold peek. pose proof (reload_keeps n m s) as H.
  destruct (reload m s) as [s1 ok]. destruct ok; cbn in *; auto.
Qed.

Lemma access_keeps : forall n m s, keeps n s (fst (access m s)).
Proof.
  intros n m s. unfold access. pose proof (reload_keeps n m s) as H.
  destruct (reload m s) as [s1 ok]. destruct ok; cbn in *; auto.
  eapply keeps_trans; [exact H | apply touch_keeps].
Qed.

Lemma delete_file_keeps : forall n m s, keeps n s (fst (delete_file m s)).
Proof.
  intros n m s. unfold delete_file. pose proof (reload_keeps n m s) as H.
  destruct (reload m s) as [s1 ok]. destruct ok; cbn in *; auto.
  intros x Hx. apply H in Hx. pose proof (entry_delete_keeps n m (dk s1) x Hx) as H2.
  destruct (entry_delete m (dk s1)) as [d r]. cbn in *. exact H2.
Qed.

Lemma with_file_keeps : forall n m g s,
  n <> m \/ gentle g -> keeps n s (fst (with_file m g s)).
Proof.
  intros n m g s Hg. unfold with_file. pose proof (access_keeps n m s) as H.
  destruct (access m s) as [s1 ok]. destruct ok; cbn in *; auto.
  destruct (aget m (dk s1)) as [f|] eqn:E; cbn; auto.
  intros x Hx. apply H in Hx. cbn [fst dk]. destruct Hg as [Ne|G].
  - rewrite prot_aput_neq; auto.
  - apply prot_aput_gentle; auto.
Qed.

Lemma create_file_keeps : forall n m sz mt s, keeps n s (create_file m sz mt s).
Proof.
  intros n m sz mt s. unfold create_file.
  destruct (amem m (fm s)); [apply touch_keeps|].
  destruct (amem m (dk s)) eqn:E; [apply reload_keeps|].
  eapply keeps_trans; [|apply evict_keeps]. intros x Hx. cbn.
  destruct (N.eq_dec n m) as [->|Ne].
  - unfold prot, amem in *. destruct (aget m (dk s)); congruence.
  - rewrite prot_aput_neq; auto.
Qed.

Lemma ttl_loop_keeps : forall n tti ttl resp used low scan scanned s,
  keeps n s (fst (ttl_loop tti ttl resp used low scan scanned s)).
Proof.
  intros n tti ttl resp used low scan. induction scan as [|m t IH]; intros scanned s; cbn.
  - apply keeps_refl.
  - pose proof (peek_keeps n m s) as H. destruct (peek m s) as [s1 ok]. cbn in H.
    destruct (if ok then aget m (dk s1) else None) as [f|].
    + eapply keeps_trans; [|apply IH]. eapply keeps_trans; [exact H|].
      destruct (ready tti ttl (now s1) f && negb (resp && (to_u64 (used - to_u64 scanned) <=? low))).
      * apply delete_file_keeps.
      * apply keeps_refl.
    + eapply keeps_trans; [exact H | apply IH].
Qed.

Lemma ttl_pass_keeps : forall n tti ttl thr u scan s, keeps n s (ttl_pass tti ttl thr u scan s).
Proof.
  intros. unfold ttl_pass.
  destruct (if thr =? 0 then (false, 0, 0)
            else match u with
                 | Some u0 => (true, u_used u0, to_u64 (u_total u0 * to_u64 thr) / 100)
                 | None => (false, 0, 0)
                 end) as [[resp used] low].
  apply ttl_loop_keeps.
Qed.

Lemma pol_scan_keeps : forall n scan s acc total, keeps n s (fst (fst (pol_scan scan s acc total))).
Proof.
  intros n scan. induction scan as [|m t IH]; intros s acc total; cbn.
  - apply keeps_refl.
  - pose proof (peek_keeps n m s) as H. destruct (peek m s) as [s1 ok]. cbn in H.
    destruct (if ok then aget m (dk s1) else None) as [f|].
    + destruct (f_lat f); (eapply keeps_trans; [exact H | apply IH]).
    + eapply keeps_trans; [exact H | apply IH].
Qed.

Lemma pol_delete_keeps : forall n order remain s, keeps n s (fst (fst (pol_delete order remain s))).
Proof.
  intros n order. induction order as [|c t IH]; intros remain s; cbn.
  - apply keeps_refl.
  - destruct (remain <=? 0); cbn; [apply keeps_refl|].
    pose proof (delete_file_keeps n (fi_name c) s) as H.
    destruct (delete_file (fi_name c) s) as [s1 r]. cbn in H.
    eapply keeps_trans; [exact H | apply IH].
Qed.

Lemma policy_pass_keeps : forall n thr total scan order s,
  keeps n s (fst (policy_pass thr total scan order s)).
Proof.
  intros. unfold policy_pass. pose proof (pol_scan_keeps n scan s [] 0) as H.
  destruct (pol_scan scan s [] 0) as [[s1 cands] tt]. cbn in H.
  destruct total as [tot|]; cbn; auto.
  destruct (order_legal cands order) as [fis|]; cbn; auto.
  pose proof (pol_delete_keeps n fis (to_i64 tot - to_i64 (to_u64 (tot * to_u64 thr) / 100)) s1) as H2.
  destruct (pol_delete fis _ s1) as [[s2 remain] ok]. cbn in *.
  eapply keeps_trans; eauto.
Qed.

Lemma cleanup_keeps : forall n c pol u scan order s,
  keeps n s (fst (cleanup c pol u scan order s)).
Proof.
  intros. unfold cleanup.
  destruct (should_aggro c u && pol && negb (c_alow c =? 0)).
  - apply policy_pass_keeps.
  - cbn. apply ttl_pass_keeps.
Qed.

Lemma run_writebacks_keeps : forall n m wb s, n <> m -> keeps n s (fst (run_writebacks m wb s)).
Proof.
  intros n m wb. induction wb as [|b t IH]; intros s Ne; cbn; [apply keeps_refl|].
  destruct b; cbn; [|apply keeps_refl].
  eapply keeps_trans; [|apply IH; auto]. apply with_file_keeps. auto.
Qed.

Lemma force_delete_keeps : forall n m ttl owns wb s,
  n <> m \/ (exists t, wb = false :: t) -> keeps n s (fst (force_delete m ttl owns wb s)).
Proof.
  intros n m ttl owns wb s Hc. unfold force_delete.
  pose proof (peek_keeps n m s) as H1. destruct (peek m s) as [s1 ok]. cbn in H1.
  destruct (if ok then aget m (dk s1) else None) as [f|] eqn:Ef; cbn; auto.
  destruct ((ttl <? now s1 - f_mtime f) || negb owns); cbn; auto.
  pose proof (peek_keeps n m s1) as H2. destruct (peek m s1) as [s2 ok2]. cbn in H2.
  assert (D : forall s0, keeps n s0
            (fst (let '(s4, r) := delete_file m s0 in
                  (s4, match r with ROk => ODel true false | _ => ODel false true end)))).
  { intros s0. pose proof (delete_file_keeps n m s0) as H. destruct (delete_file m s0). exact H. }
  destruct (is_persisted f) eqn:Ep.
  - destruct Hc as [Ne|[t ->]].
    + pose proof (run_writebacks_keeps n m wb s2 Ne) as H3.
      destruct (run_writebacks m wb s2) as [s3 allok]. cbn [fst] in H3.
      eapply keeps_trans; [exact H1|]. eapply keeps_trans; [exact H2|]. eapply keeps_trans; [exact H3|].
      destruct allok; cbn [fst]; [|apply keeps_refl].
      eapply keeps_trans; [|apply D]. apply with_file_keeps. auto.
    + cbn. eapply keeps_trans; eauto.
  - eapply keeps_trans; [exact H1|]. eapply keeps_trans; [exact H2|]. apply D.
Qed.

(* every step of a history keeps the protected file n, except the three operations that
   end n's protection on purpose *)
Lemma step_keeps : forall n o s, unprotects o n = false -> keeps n s (fst (step s o)).
Proof.
  intros n o s U. destruct o; cbn in *.
  - apply keeps_dk. reflexivity.
  - apply create_file_keeps.
  - apply access_keeps.
  - apply peek_keeps.
  - apply with_file_keeps. destruct b.
    + right. intros f H. unfold set_persist, is_persisted. cbn. auto.
    + left. apply N.eqb_neq. exact U.
  - apply with_file_keeps. left. apply N.eqb_neq. exact U.
  - apply with_file_keeps. right. apply gentle_set_lat.
  - apply with_file_keeps. right. apply gentle_set_lat.
  - apply delete_file_keeps.
  - apply keeps_dk. reflexivity.
  - apply ttl_pass_keeps.
  - apply policy_pass_keeps.
  - apply cleanup_keeps.
  - destruct (job_fires c disabled dt).
    + eapply keeps_trans; [|apply cleanup_keeps]. apply keeps_dk. reflexivity.
    + apply keeps_dk. reflexivity.
  - apply force_delete_keeps. destruct (N.eqb n n0) eqn:E; cbn in U.
    + right. destruct wb as [|[] t]; try discriminate. eauto.
    + left. apply N.eqb_neq. exact E.
Qed.

Lemma run_app : forall a b s,
  run s (a ++ b) = let '(s1, r1) := run s a in let '(s2, r2) := run s1 b in (s2, r1 ++ r2).
Proof.
  induction a as [|o t IH]; intros b s; cbn.
  - destruct (run s b). reflexivity.
  - destruct (step s o) as [s1 r]. rewrite IH. destruct (run s1 t) as [s2 rs].
    destruct (run s2 b). reflexivity.
Qed.

Theorem persisted_never_removed : forall ops s n x,
  prot n (dk s) = Some x ->
  (forall o, In o ops -> unprotects o n = false) ->
  prot n (dk (fst (run s ops))) = Some x.
Proof.
  induction ops as [|o t IH]; intros s n x H U; cbn; auto.
  pose proof (step_keeps n o s (U o (or_introl eq_refl)) x H) as H1.
  destruct (step s o) as [s1 r]. cbn in H1.
  specialize (IH s1 n x H1 (fun o' Ho => U o' (or_intror Ho))).
  destruct (run s1 t) as [s2 rs]. exact IH.
Qed.

(* an explicit delete of a protected file is refused with ErrFilePersisted *)
Lemma delete_refused : forall n s x,
  prot n (dk s) = Some x -> snd (delete_file n s) = RPersisted.
Proof.
  intros n s x H. unfold delete_file. pose proof (reload_keeps n n s x H) as H1.
  assert (Hok : snd (reload n s) = true).
  { unfold reload. destruct (amem n (fm s)); auto. unfold prot in H.
    destruct (aget n (dk s)); [|congruence]. destruct (f_lat f); reflexivity. }
  destruct (reload n s) as [s1 ok]. cbn in *. subst ok.
  unfold entry_delete. rewrite (prot_persisted _ _ _ H1). reflexivity.
Qed.

(* ---------------------------------------------------------------- well-formed states *)

Definition wf (s : st) : Prop :=
  NoDup (keys (dk s)) /\ NoDup (keys (fm s)) /\ incl (keys (fm s)) (keys (dk s)).

Lemma wf_init : forall c t, wf (init c t).
Proof. intros. unfold wf, init. cbn. repeat split; try constructor. intros x []. Qed.

Lemma incl_arem {V W} : forall n (a : list (N * V)) (b : list (N * W)),
  incl (keys a) (keys b) -> incl (keys (arem n a)) (keys (arem n b)).
Proof.
  intros n a b H x Hx. apply In_keys_arem in Hx. apply In_keys_arem. split; [apply H|]; tauto.
Qed.

Lemma incl_arem_l {V} : forall n (a : list (N * V)) b, incl (keys a) b -> incl (keys (arem n a)) b.
Proof. intros n a b H x Hx. apply In_keys_arem in Hx. apply H. tauto. Qed.

Lemma keys_aput_incl {V} : forall n (v : V) l x, In x (keys (aput n v l)) <-> x = n \/ In x (keys l).
Proof.
  intros. unfold aput. rewrite keys_cons. cbn [In]. rewrite In_keys_arem.
  destruct (N.eq_dec x n); intuition.
Qed.

Lemma evict_wf : forall s, wf s -> wf (evict s).
Proof.
  intros s (A & B & C). unfold evict.
  destruct ((0 <? cap s) && (cap s <? Z.of_nat (length (fm s)))); [|repeat split; auto].
  destruct (back (fm s)) as [v|]; [|repeat split; auto].
  unfold entry_delete. destruct (persisted v (dk s)); cbn; repeat split; cbn; auto.
  - apply NoDup_keys_arem; auto.
  - apply incl_arem_l; auto.
  - apply NoDup_keys_arem; auto.
  - apply NoDup_keys_arem; auto.
  - apply incl_arem; auto.
Qed.

Lemma reload_wf : forall n s, wf s -> wf (fst (reload n s)).
Proof.
  intros n s W. unfold reload. destruct (amem n (fm s)) eqn:Em; cbn; auto.
  destruct (aget n (dk s)) as [f|] eqn:E; cbn; auto.
  destruct W as (A & B & C).
  assert (Hin : In n (keys (dk s))) by (apply In_keys_aget; congruence).
  assert (W1 : forall f1 t, wf (mkst (aput n f1 (dk s)) ((n, t) :: fm s) (now s) (cap s))).
  { intros f1 t. repeat split; cbn [dk fm].
    - apply NoDup_keys_aput; auto.
    - rewrite keys_cons. constructor; auto. apply amem_false_In. exact Em.
    - rewrite keys_cons. intros x [<-|Hx]; apply keys_aput_incl; auto. }
  destruct (f_lat f); cbn; apply evict_wf; apply W1.
Qed.

Lemma front_keys : forall n m x, In x (keys (front n m)) <-> In x (keys m).
Proof.
  intros. unfold front. destruct (aget n m) eqn:E; [|tauto].
  rewrite keys_cons. cbn [In]. rewrite In_keys_arem. split.
  - intros [<-|[H _]]; auto. apply In_keys_aget. congruence.
  - intros H. destruct (N.eq_dec n x); auto.
Qed.

Lemma front_NoDup : forall n m, NoDup (keys m) -> NoDup (keys (front n m)).
Proof.
  intros. unfold front. destruct (aget n m); auto. rewrite keys_cons. constructor.
  - rewrite In_keys_arem. tauto.
  - apply NoDup_keys_arem; auto.
Qed.

Lemma upd_lat_keys : forall n l d x, In x (keys (upd_lat n l d)) <-> In x (keys d).
Proof.
  intros. unfold upd_lat. destruct (aget n d) eqn:E; [|tauto].
  rewrite keys_aput_incl. split; [intros [->|H]; auto | auto].
  apply In_keys_aget. congruence.
Qed.

Lemma upd_lat_NoDup : forall n l d, NoDup (keys d) -> NoDup (keys (upd_lat n l d)).
Proof. intros. unfold upd_lat. destruct (aget n d); auto. apply NoDup_keys_aput; auto. Qed.

Lemma touch_wf : forall n s, wf s -> wf (touch n s).
Proof.
  intros n s (A & B & C). unfold touch. destruct (aget n (fm s)) as [t|] eqn:E; [|repeat split; auto].
  assert (Hn : In n (keys (fm s))) by (apply In_keys_aget; congruence).
  assert (F : forall t', NoDup (keys ((n, t') :: arem n (fm s)))).
  { intros. rewrite keys_cons. constructor; [rewrite In_keys_arem; tauto | apply NoDup_keys_arem; auto]. }
  assert (G : forall t' (d : list (N * file)), (forall x, In x (keys d) <-> In x (keys (dk s))) ->
                           incl (keys ((n, t') :: arem n (fm s))) (keys d)).
  { intros t' d Hd x. rewrite keys_cons. intros [<-|Hx]; apply Hd; [apply C; auto|].
    apply In_keys_arem in Hx. apply C. tauto. }
  destruct (filemap_lat_resolution_ns <=? now s - t); repeat split; cbn [dk fm]; auto.
  - apply upd_lat_NoDup; auto.
  - apply G. intros. apply upd_lat_keys.
  - apply G. tauto.
Qed.

Lemma peek_wf : forall n s, wf s -> wf (fst (peek n s)).
Proof.
  intros n s W. unfold peek. pose proof (reload_wf n s W) as H.
  destruct (reload n s) as [s1 ok]. destruct ok; cbn in *; auto.
  destruct H as (A & B & C). repeat split; cbn; auto.
  - apply front_NoDup; auto.
  - intros x Hx. apply front_keys in Hx. auto.
Qed.

Lemma access_wf : forall n s, wf s -> wf (fst (access n s)).
Proof.
  intros n s W. unfold access. pose proof (reload_wf n s W) as H.
  destruct (reload n s) as [s1 ok]. destruct ok; cbn in *; auto. apply touch_wf; auto.
Qed.

Lemma delete_file_wf : forall n s, wf s -> wf (fst (delete_file n s)).
Proof.
  intros n s W. unfold delete_file. pose proof (reload_wf n s W) as H.
  destruct (reload n s) as [s1 ok]. destruct ok; cbn in *; auto.
  destruct H as (A & B & C). unfold entry_delete. destruct (persisted n (dk s1)); repeat split; cbn; auto.
  - apply NoDup_keys_arem; auto.
  - apply incl_arem_l; auto.
  - apply NoDup_keys_arem; auto.
  - apply NoDup_keys_arem; auto.
  - apply incl_arem; auto.
Qed.

Lemma with_file_wf : forall n g s, wf s -> wf (fst (with_file n g s)).
Proof.
  intros n g s W. unfold with_file. pose proof (access_wf n s W) as H.
  destruct (access n s) as [s1 ok]. destruct ok; cbn in *; auto.
  destruct (aget n (dk s1)) as [f|] eqn:E; cbn; auto.
  destruct H as (A & B & C). repeat split; cbn; auto.
  - apply NoDup_keys_aput; auto.
  - intros x Hx. apply keys_aput_incl. auto.
Qed.

Lemma create_file_wf : forall n sz mt s, wf s -> wf (create_file n sz mt s).
Proof.
  intros n sz mt s W. unfold create_file.
  destruct (amem n (fm s)) eqn:Em; [apply touch_wf; auto|].
  destruct (amem n (dk s)) eqn:Ed; [apply reload_wf; auto|].
  apply evict_wf. destruct W as (A & B & C). repeat split; cbn [dk fm].
  - apply NoDup_keys_aput; auto.
  - rewrite keys_cons. constructor; auto. apply amem_false_In. exact Em.
  - rewrite keys_cons. intros x [<-|Hx]; apply keys_aput_incl; auto.
Qed.

Lemma ttl_loop_wf : forall tti ttl resp used low scan scanned s,
  wf s -> wf (fst (ttl_loop tti ttl resp used low scan scanned s)).
Proof.
  intros tti ttl resp used low scan. induction scan as [|m t IH]; intros scanned s W; cbn; auto.
  pose proof (peek_wf m s W) as H. destruct (peek m s) as [s1 ok]. cbn in H.
  destruct (if ok then aget m (dk s1) else None) as [f|]; [|apply IH; auto].
  apply IH. destruct (ready tti ttl (now s1) f && negb (resp && (to_u64 (used - to_u64 scanned) <=? low))); auto.
  apply delete_file_wf; auto.
Qed.

Lemma ttl_pass_wf : forall tti ttl thr u scan s, wf s -> wf (ttl_pass tti ttl thr u scan s).
Proof.
  intros. unfold ttl_pass.
  destruct (if thr =? 0 then (false, 0, 0)
            else match u with
                 | Some u0 => (true, u_used u0, to_u64 (u_total u0 * to_u64 thr) / 100)
                 | None => (false, 0, 0)
                 end) as [[resp used] low].
  apply ttl_loop_wf; auto.
Qed.

Lemma pol_scan_wf : forall scan s acc total, wf s -> wf (fst (fst (pol_scan scan s acc total))).
Proof.
  intros scan. induction scan as [|m t IH]; intros s acc total W; cbn; auto.
  pose proof (peek_wf m s W) as H. destruct (peek m s) as [s1 ok]. cbn in H.
  destruct (if ok then aget m (dk s1) else None) as [f|]; [|apply IH; auto].
  destruct (f_lat f); apply IH; auto.
Qed.

Lemma pol_delete_wf : forall order remain s, wf s -> wf (fst (fst (pol_delete order remain s))).
Proof.
  intros order. induction order as [|c t IH]; intros remain s W; cbn; auto.
  destruct (remain <=? 0); cbn; auto.
  pose proof (delete_file_wf (fi_name c) s W) as H.
  destruct (delete_file (fi_name c) s) as [s1 r]. cbn in H. apply IH; auto.
Qed.

Lemma policy_pass_wf : forall thr total scan order s, wf s -> wf (fst (policy_pass thr total scan order s)).
Proof.
  intros. unfold policy_pass. pose proof (pol_scan_wf scan s [] 0 H) as H1.
  destruct (pol_scan scan s [] 0) as [[s1 cands] tt]. cbn in H1.
  destruct total as [tot|]; cbn; auto.
  destruct (order_legal cands order) as [fis|]; cbn; auto.
  pose proof (pol_delete_wf fis (to_i64 tot - to_i64 (to_u64 (tot * to_u64 thr) / 100)) s1 H1) as H2.
  destruct (pol_delete fis _ s1) as [[s2 remain] ok]. cbn in *. auto.
Qed.

Lemma run_writebacks_wf : forall n wb s, wf s -> wf (fst (run_writebacks n wb s)).
Proof.
  intros n wb. induction wb as [|b t IH]; intros s W; cbn; auto.
  destruct b; cbn; auto. apply IH. apply with_file_wf. auto.
Qed.

Lemma force_delete_wf : forall n ttl owns wb s, wf s -> wf (fst (force_delete n ttl owns wb s)).
Proof.
  intros n ttl owns wb s W. unfold force_delete.
  pose proof (peek_wf n s W) as H1. destruct (peek n s) as [s1 ok]. cbn in H1.
  destruct (if ok then aget n (dk s1) else None) as [f|]; cbn; auto.
  destruct ((ttl <? now s1 - f_mtime f) || negb owns); cbn; auto.
  pose proof (peek_wf n s1 H1) as H2. destruct (peek n s1) as [s2 ok2]. cbn in H2.
  assert (D : forall s0, wf s0 -> wf
            (fst (let '(s4, r) := delete_file n s0 in
                  (s4, match r with ROk => ODel true false | _ => ODel false true end)))).
  { intros s0 W0. pose proof (delete_file_wf n s0 W0) as H. destruct (delete_file n s0). exact H. }
  destruct (is_persisted f); [|apply D; auto].
  pose proof (run_writebacks_wf n wb s2 H2) as H3.
  destruct (run_writebacks n wb s2) as [s3 allok]. cbn [fst] in H3.
  destruct allok; cbn [fst]; auto. apply D. apply with_file_wf. auto.
Qed.

Lemma cleanup_wf : forall c pol u scan order s, wf s -> wf (fst (cleanup c pol u scan order s)).
Proof.
  intros. unfold cleanup. destruct (should_aggro c u && pol && negb (c_alow c =? 0)).
  - apply policy_pass_wf; auto.
  - cbn. apply ttl_pass_wf; auto.
Qed.

Lemma step_wf : forall o s, wf s -> wf (fst (step s o)).
Proof.
  intros o s W. destruct o; cbn.
  - exact W.
  - apply create_file_wf; auto.
  - apply access_wf; auto.
  - apply peek_wf; auto.
  - apply with_file_wf; auto.
  - apply with_file_wf; auto.
  - apply with_file_wf; auto.
  - apply with_file_wf; auto.
  - apply delete_file_wf; auto.
  - destruct W as (A & B & C). repeat split; cbn; auto; [constructor | intros x []].
  - apply ttl_pass_wf; auto.
  - apply policy_pass_wf; auto.
  - apply cleanup_wf; auto.
  - destruct (job_fires c disabled dt); [apply cleanup_wf|]; exact W.
  - apply force_delete_wf; auto.
Qed.

Lemma run_wf : forall ops s, wf s -> wf (fst (run s ops)).
Proof.
  induction ops as [|o t IH]; intros s W; cbn; auto.
  pose proof (step_wf o s W) as H. destruct (step s o) as [s1 r]. cbn in H.
  specialize (IH s1 H). destruct (run s1 t). exact IH.
Qed.

(* the clock and the capacity are only changed by Tick *)
Definition same_env (s s' : st) : Prop := now s' = now s /\ cap s' = cap s.
